package main

// lockscripts.go: the order in which three functions of db.go take and release the twelve
// SQLite locks, as Gallina lists.
//   TryAcquireWriteLock  -> gen_write_common / gen_write_rollback / gen_write_wal
//   Export               -> gen_export
//   WriteSnapshotTo      -> gen_snapshot
// Accepted statement shapes at the top level of the function body (anything else that touches a
// guard of the guard set `gs` is a hard error):
//   if !gs.<lock>.TryRLock() { ...; return nil }          GR lock
//   if !gs.<lock>.TryLock()  { ...; return nil }          GX lock
//   if err := gs.<lock>.RLock(ctx); err != nil { ... }    GR lock
//   if err := gs.<lock>.Lock(ctx);  err != nil { ... }    GX lock
//   gs.<lock>.Unlock()                                    GU lock
//   if db.Mode() == DBModeRollback { <steps>; return gs } branch (TryAcquireWriteLock only)
//   if db.Mode() == DBModeWAL { <one step> }              GWalOnly step
//   pos := db.Pos()                                       GCapturePos
//   for k, v := range db.wal.frameOffsets { ... }         GCaptureWal
//   for pgno := ...; pgno <= pageN; pgno++ { ... }        GReads (ends the script)
// Statements that do not mention `gs` are skipped.

import (
	"fmt"
	"go/ast"
	"go/parser"
	"go/token"
	"path/filepath"
	"strings"
)

var lockCtor = map[string]string{
	"pending": "LPending", "shared": "LShared", "reserved": "LReserved", "write": "LWrite", "ckpt": "LCkpt", "recover": "LRecover",
	"read0": "LRead0", "read1": "LRead1", "read2": "LRead2", "read3": "LRead3", "read4": "LRead4", "dms": "LDMS",
}

// guardCall recognises gs.<lock>.<method>(...) and returns lock constructor and method.
func guardCall(e ast.Expr) (lock, method string, ok bool) {
	call, isCall := e.(*ast.CallExpr)
	if !isCall {
		return
	}
	sel, isSel := call.Fun.(*ast.SelectorExpr)
	if !isSel {
		return
	}
	inner, isSel2 := sel.X.(*ast.SelectorExpr)
	if !isSel2 {
		return
	}
	id, isID := inner.X.(*ast.Ident)
	if !isID || id.Name != "gs" {
		return
	}
	l, known := lockCtor[inner.Sel.Name]
	if !known {
		return
	}
	return l, sel.Sel.Name, true
}

func mentionsGS(n ast.Node) bool {
	found := false
	ast.Inspect(n, func(x ast.Node) bool {
		if id, ok := x.(*ast.Ident); ok && id.Name == "gs" {
			found = true
		}
		return !found
	})
	return found
}

func stepOf(lock, method string) (string, error) {
	switch method {
	case "TryRLock", "RLock":
		return "GR " + lock, nil
	case "TryLock", "Lock":
		return "GX " + lock, nil
	case "Unlock":
		return "GU " + lock, nil
	}
	return "", fmt.Errorf("unsupported guard method %s", method)
}

func isModeCmp(e ast.Expr, want string) bool {
	b, ok := e.(*ast.BinaryExpr)
	if !ok || b.Op != token.EQL {
		return false
	}
	call, ok := b.X.(*ast.CallExpr)
	if !ok {
		return false
	}
	sel, ok := call.Fun.(*ast.SelectorExpr)
	if !ok || sel.Sel.Name != "Mode" {
		return false
	}
	id, ok := b.Y.(*ast.Ident)
	return ok && id.Name == want
}

// translate one statement; returns steps, whether the script ends here, and for the rollback branch its steps.
func (t *lsT) stmt(s ast.Stmt, allowBranch bool) (steps []string, end bool, branch []string, err error) {
	switch s := s.(type) {
	case *ast.IfStmt:
		// if !gs.x.TryLock() {...}
		if u, ok := s.Cond.(*ast.UnaryExpr); ok && u.Op == token.NOT {
			if l, m, ok := guardCall(u.X); ok {
				st, e := stepOf(l, m)
				return []string{st}, false, nil, e
			}
		}
		// if err := gs.x.RLock(ctx); err != nil {...}
		if as, ok := s.Init.(*ast.AssignStmt); ok && len(as.Rhs) == 1 {
			if l, m, ok := guardCall(as.Rhs[0]); ok {
				st, e := stepOf(l, m)
				return []string{st}, false, nil, e
			}
		}
		if isModeCmp(s.Cond, "DBModeRollback") {
			if !allowBranch {
				return nil, false, nil, fmt.Errorf("rollback-mode branch not expected here")
			}
			for _, b := range s.Body.List {
				if _, isRet := b.(*ast.ReturnStmt); isRet {
					continue
				}
				st, _, _, e := t.stmt(b, false)
				if e != nil {
					return nil, false, nil, e
				}
				branch = append(branch, st...)
			}
			return nil, false, branch, nil
		}
		if isModeCmp(s.Cond, "DBModeWAL") {
			for _, b := range s.Body.List {
				st, _, _, e := t.stmt(b, false)
				if e != nil {
					return nil, false, nil, e
				}
				for _, x := range st {
					steps = append(steps, "GWalOnly ("+x+")")
				}
			}
			return steps, false, nil, nil
		}
		if mentionsGS(s) {
			return nil, false, nil, fmt.Errorf("unsupported if-statement touching the guard set at %s", t.fset.Position(s.Pos()))
		}
		return nil, false, nil, nil
	case *ast.ExprStmt:
		if l, m, ok := guardCall(s.X); ok {
			st, e := stepOf(l, m)
			return []string{st}, false, nil, e
		}
		if mentionsGS(s) {
			return nil, false, nil, fmt.Errorf("unsupported statement touching the guard set at %s", t.fset.Position(s.Pos()))
		}
	case *ast.AssignStmt:
		if len(s.Rhs) == 1 {
			if call, ok := s.Rhs[0].(*ast.CallExpr); ok {
				if sel, ok := call.Fun.(*ast.SelectorExpr); ok && sel.Sel.Name == "Pos" {
					if id, ok := sel.X.(*ast.Ident); ok && id.Name == "db" {
						return []string{"GCapturePos"}, false, nil, nil
					}
				}
			}
		}
		if mentionsGS(s) {
			// gs := db.newGuardSet(0)
			if len(s.Lhs) == 1 {
				if id, ok := s.Lhs[0].(*ast.Ident); ok && id.Name == "gs" {
					return nil, false, nil, nil
				}
			}
			return nil, false, nil, fmt.Errorf("unsupported assignment touching the guard set at %s", t.fset.Position(s.Pos()))
		}
	case *ast.RangeStmt:
		if sel, ok := s.X.(*ast.SelectorExpr); ok && sel.Sel.Name == "frameOffsets" {
			return []string{"GCaptureWal"}, false, nil, nil
		}
	case *ast.ForStmt:
		if as, ok := s.Init.(*ast.AssignStmt); ok && len(as.Lhs) == 1 {
			if id, ok := as.Lhs[0].(*ast.Ident); ok && id.Name == "pgno" {
				return []string{"GReads"}, true, nil, nil
			}
		}
		if mentionsGS(s) {
			return nil, false, nil, fmt.Errorf("unsupported loop touching the guard set at %s", t.fset.Position(s.Pos()))
		}
	case *ast.DeferStmt:
		return nil, false, nil, nil // defer gs.Unlock(): everything is released at the end
	case *ast.ReturnStmt:
		return nil, false, nil, nil
	default:
		if mentionsGS(s) {
			return nil, false, nil, fmt.Errorf("unsupported statement touching the guard set at %s", t.fset.Position(s.Pos()))
		}
	}
	return nil, false, nil, nil
}

type lsT struct{ fset *token.FileSet }

func (t *lsT) fn(file *ast.File, name string, allowBranch bool) (common, branch, rest []string, err error) {
	var fd *ast.FuncDecl
	for _, d := range file.Decls {
		if f, ok := d.(*ast.FuncDecl); ok && f.Name.Name == name && f.Recv != nil {
			fd = f
		}
	}
	if fd == nil {
		return nil, nil, nil, fmt.Errorf("function %s not found", name)
	}
	seenBranch := false
	for _, s := range fd.Body.List {
		steps, end, br, e := t.stmt(s, allowBranch)
		if e != nil {
			return nil, nil, nil, fmt.Errorf("%s: %v", name, e)
		}
		if br != nil {
			if seenBranch {
				return nil, nil, nil, fmt.Errorf("%s: two mode branches", name)
			}
			seenBranch, branch = true, br
			continue
		}
		if seenBranch {
			rest = append(rest, steps...)
		} else {
			common = append(common, steps...)
		}
		if end {
			break
		}
	}
	return common, branch, rest, nil
}

func coqList(xs []string) string { return "[" + strings.Join(xs, "; ") + "]" }

func genLockScripts(repo string) (string, error) {
	fset := token.NewFileSet()
	f, err := parser.ParseFile(fset, filepath.Join(repo, "db.go"), nil, 0)
	if err != nil {
		return "", err
	}
	t := &lsT{fset: fset}
	wc, wr, ww, err := t.fn(f, "TryAcquireWriteLock", true)
	if err != nil {
		return "", err
	}
	if len(wc) == 0 || len(wr) == 0 || len(ww) == 0 {
		return "", fmt.Errorf("TryAcquireWriteLock: empty script part (common %d, rollback %d, wal %d)", len(wc), len(wr), len(ww))
	}
	ex, _, _, err := t.fn(f, "Export", false)
	if err != nil {
		return "", err
	}
	sn, _, _, err := t.fn(f, "WriteSnapshotTo", false)
	if err != nil {
		return "", err
	}
	for name, s := range map[string][]string{"Export": ex, "WriteSnapshotTo": sn} {
		if len(s) == 0 || s[len(s)-1] != "GReads" {
			return "", fmt.Errorf("%s: the page loop was not found", name)
		}
	}
	var b strings.Builder
	b.WriteString("(* GENERATED by /verif/tools/go2coq from db.go on every run -- do not edit. *)\n")
	b.WriteString("From Coq Require Import List.\nRequire Import LF.Base.LockBase.\nImport ListNotations.\n\n")
	b.WriteString("(* DB.TryAcquireWriteLock: steps before the mode test, in rollback-journal mode, in WAL mode *)\n")
	fmt.Fprintf(&b, "Definition gen_write_common : list gstep := %s.\n", coqList(wc))
	fmt.Fprintf(&b, "Definition gen_write_rollback : list gstep := %s.\n", coqList(wr))
	fmt.Fprintf(&b, "Definition gen_write_wal : list gstep := %s.\n\n", coqList(ww))
	b.WriteString("(* DB.Export and DB.WriteSnapshotTo up to the page loop *)\n")
	fmt.Fprintf(&b, "Definition gen_export : list gstep := %s.\n", coqList(ex))
	fmt.Fprintf(&b, "Definition gen_snapshot : list gstep := %s.\n", coqList(sn))
	return b.String(), nil
}
