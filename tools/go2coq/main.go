// go2coq re-reads /repo on every run and emits Gallina for the fragments of
// litefs that are small first-order state machines or tables (DESIGN.md §5a).
// It uses only go/parser, go/ast, go/token, go/constant from the standard
// library.  Anything outside its subset is a hard error (exit 2): the check
// then counts the generated-model obligation as broken.
package main

import (
	"flag"
	"fmt"
	"os"
	"path/filepath"
)

func main() {
	repo := flag.String("repo", "/repo", "litefs source tree")
	out := flag.String("out", "", "output directory for Gen/*.v")
	flag.Parse()
	if *out == "" {
		fmt.Fprintln(os.Stderr, "usage: go2coq -repo /repo -out dir")
		os.Exit(2)
	}
	type gen struct {
		file string
		fn   func(repo string) (string, error)
	}
	gens := []gen{
		{"RWMutexGen.v", genRWMutex},
		{"ConstsGen.v", genConsts},
		{"LockScriptsGen.v", genLockScripts},
	}
	failed := false
	for _, g := range gens {
		s, err := g.fn(*repo)
		path := filepath.Join(*out, g.file)
		if err != nil {
			fmt.Fprintf(os.Stderr, "go2coq: %s: %v\n", g.file, err)
			fmt.Printf("GEN-ERROR %s %v\n", g.file, err)
			failed = true
			// leave a stub that cannot compile so that nothing downstream
			// silently uses a stale model
			s = fmt.Sprintf("(* go2coq failed: %v *)\nDefinition go2coq_failed : True := 0.\n", err)
		}
		old, rerr := os.ReadFile(path)
		if rerr == nil && string(old) == s {
			fmt.Printf("GEN-UNCHANGED %s\n", g.file)
			continue
		}
		if err := os.WriteFile(path, []byte(s), 0o644); err != nil {
			fmt.Fprintln(os.Stderr, err)
			os.Exit(2)
		}
		fmt.Printf("GEN-WROTE %s\n", g.file)
	}
	if failed {
		os.Exit(3)
	}
}
