package main

import (
	"bytes"
	"fmt"
	"go/ast"
	"go/parser"
	"go/printer"
	"go/token"
	"path/filepath"
	"strings"
)

// ---------------------------------------------------------------------------
// State-machine subset (rwmutex.go).  See DESIGN.md §5a.
//
// World: record {sharedN : Z; excl : option gid; gst : gid -> gstate}.
// Worker methods become   gid -> world -> outcome T   (Ret v w | Panic).
// ---------------------------------------------------------------------------

type smTr struct {
	fset *token.FileSet
	recv string // receiver identifier ("g" or "rw")
	pure bool   // translate as a pure function of w (no state change, no panic)
}

func (t *smTr) errf(n ast.Node, f string, a ...any) error {
	return fmt.Errorf("%s: %s", t.fset.Position(n.Pos()), fmt.Sprintf(f, a...))
}

// selector path as dotted string, e.g. g.rw.sharedN
func selPath(e ast.Expr) string {
	switch x := e.(type) {
	case *ast.Ident:
		return x.Name
	case *ast.SelectorExpr:
		p := selPath(x.X)
		if p == "" {
			return ""
		}
		return p + "." + x.Sel.Name
	case *ast.ParenExpr:
		return selPath(x.X)
	}
	return ""
}

type field int

const (
	fNone field = iota
	fSharedN
	fExcl
	fGState
)

func (t *smTr) field(e ast.Expr) field {
	p := selPath(e)
	switch {
	case t.recv == "g" && p == "g.rw.sharedN", t.recv == "rw" && p == "rw.sharedN":
		return fSharedN
	case t.recv == "g" && p == "g.rw.excl", t.recv == "rw" && p == "rw.excl":
		return fExcl
	case t.recv == "g" && p == "g.state":
		return fGState
	}
	return fNone
}

var stateConst = map[string]string{
	"RWMutexStateUnlocked":  "Unlocked",
	"RWMutexStateShared":    "Shared",
	"RWMutexStateExclusive": "Exclusive",
}

type ty int

const (
	tyInt ty = iota
	tyPtr
	tyBool
	tyState
	tyNil
)

func (t *smTr) expr(e ast.Expr) (string, ty, error) {
	switch x := e.(type) {
	case *ast.ParenExpr:
		return t.expr(x.X)
	case *ast.BasicLit:
		if x.Kind == token.INT {
			return "(" + x.Value + ")%Z", tyInt, nil
		}
	case *ast.Ident:
		switch x.Name {
		case "true", "false":
			return x.Name, tyBool, nil
		case "nil":
			return "None", tyNil, nil
		case "g":
			if t.recv == "g" {
				return "(Some g)", tyPtr, nil
			}
		}
		if c, ok := stateConst[x.Name]; ok {
			return c, tyState, nil
		}
	case *ast.SelectorExpr:
		switch t.field(x) {
		case fSharedN:
			return "(sharedN w)", tyInt, nil
		case fExcl:
			return "(excl w)", tyPtr, nil
		case fGState:
			return "(gst w g)", tyState, nil
		}
	case *ast.CallExpr:
		p := selPath(x.Fun)
		if len(x.Args) == 0 && ((t.recv == "g" && p == "g.rw.state") || (t.recv == "rw" && p == "rw.state")) {
			return "(state w)", tyState, nil
		}
	case *ast.UnaryExpr:
		if x.Op == token.NOT {
			s, ty1, err := t.expr(x.X)
			if err != nil {
				return "", 0, err
			}
			if ty1 != tyBool {
				return "", 0, t.errf(e, "! on non-bool")
			}
			return "(negb " + s + ")", tyBool, nil
		}
	case *ast.BinaryExpr:
		a, ta, err := t.expr(x.X)
		if err != nil {
			return "", 0, err
		}
		b, tb, err := t.expr(x.Y)
		if err != nil {
			return "", 0, err
		}
		switch x.Op {
		case token.LAND, token.LOR:
			if ta != tyBool || tb != tyBool {
				return "", 0, t.errf(e, "logical op on non-bool")
			}
			op := "andb"
			if x.Op == token.LOR {
				op = "orb"
			}
			return fmt.Sprintf("(%s %s %s)", op, a, b), tyBool, nil
		case token.EQL, token.NEQ:
			var s string
			switch {
			case ta == tyInt && tb == tyInt:
				s = fmt.Sprintf("(Z.eqb %s %s)", a, b)
			case (ta == tyPtr || ta == tyNil) && (tb == tyPtr || tb == tyNil):
				s = fmt.Sprintf("(ptr_eqb %s %s)", a, b)
			case ta == tyState && tb == tyState:
				s = fmt.Sprintf("(gstate_eqb %s %s)", a, b)
			case ta == tyBool && tb == tyBool:
				s = fmt.Sprintf("(Bool.eqb %s %s)", a, b)
			default:
				return "", 0, t.errf(e, "comparison of mismatched kinds")
			}
			if x.Op == token.NEQ {
				s = "(negb " + s + ")"
			}
			return s, tyBool, nil
		case token.LSS, token.GTR, token.LEQ, token.GEQ:
			if ta != tyInt || tb != tyInt {
				return "", 0, t.errf(e, "ordering on non-int")
			}
			op := map[token.Token]string{token.LSS: "Z.ltb", token.GTR: "Z.gtb", token.LEQ: "Z.leb", token.GEQ: "Z.geb"}[x.Op]
			return fmt.Sprintf("(%s %s %s)", op, a, b), tyBool, nil
		case token.ADD, token.SUB:
			if ta != tyInt || tb != tyInt {
				return "", 0, t.errf(e, "arithmetic on non-int")
			}
			op := "Z.add"
			if x.Op == token.SUB {
				op = "Z.sub"
			}
			return fmt.Sprintf("(%s %s %s)", op, a, b), tyInt, nil
		}
	}
	var buf bytes.Buffer
	_ = printer.Fprint(&buf, t.fset, e)
	return "", 0, t.errf(e, "expression outside the translatable subset: %s", buf.String())
}

func (t *smTr) boolExpr(e ast.Expr) (string, error) {
	s, ty1, err := t.expr(e)
	if err != nil {
		return "", err
	}
	if ty1 != tyBool {
		return "", t.errf(e, "expected boolean expression")
	}
	return s, nil
}

func (t *smTr) ret(vals []string) string {
	var v string
	switch len(vals) {
	case 0:
		v = "tt"
	case 1:
		v = vals[0]
	default:
		v = "(" + strings.Join(vals, ", ") + ")"
	}
	if t.pure {
		return v
	}
	return "Ret " + v + " w"
}

func (t *smTr) panicTerm(n ast.Node) (string, error) {
	if t.pure {
		return "", t.errf(n, "panic/assert in a function translated as pure")
	}
	return "Panic", nil
}

// stmts translates a statement list; rest() yields the term for "fall off the end".
func (t *smTr) stmts(ss []ast.Stmt, ind string, rest func() (string, error)) (string, error) {
	if len(ss) == 0 {
		return rest()
	}
	tail := func() (string, error) { return t.stmts(ss[1:], ind, rest) }
	switch s := ss[0].(type) {
	case *ast.ReturnStmt:
		var vals []string
		for _, r := range s.Results {
			v, _, err := t.expr(r)
			if err != nil {
				return "", err
			}
			vals = append(vals, v)
		}
		return t.ret(vals), nil

	case *ast.ExprStmt:
		call, ok := s.X.(*ast.CallExpr)
		if !ok {
			return "", t.errf(s, "unsupported expression statement")
		}
		fn, _ := call.Fun.(*ast.Ident)
		if fn != nil && fn.Name == "assert" && len(call.Args) == 2 {
			c, err := t.boolExpr(call.Args[0])
			if err != nil {
				return "", err
			}
			p, err := t.panicTerm(s)
			if err != nil {
				return "", err
			}
			tl, err := tail()
			if err != nil {
				return "", err
			}
			return fmt.Sprintf("if %s then\n%s%s\n%selse %s", c, ind, tl, ind, p), nil
		}
		if fn != nil && fn.Name == "panic" {
			return t.panicTerm(s)
		}
		return "", t.errf(s, "unsupported call statement")

	case *ast.AssignStmt:
		if t.pure {
			return "", t.errf(s, "assignment in pure function")
		}
		if s.Tok != token.ASSIGN || len(s.Lhs) != len(s.Rhs) {
			return "", t.errf(s, "unsupported assignment form")
		}
		var b strings.Builder
		for i, r := range s.Rhs {
			v, _, err := t.expr(r)
			if err != nil {
				return "", err
			}
			fmt.Fprintf(&b, "let v%d := %s in ", i, v)
		}
		for i, l := range s.Lhs {
			switch t.field(l) {
			case fSharedN:
				fmt.Fprintf(&b, "let w := set_sharedN v%d w in ", i)
			case fExcl:
				fmt.Fprintf(&b, "let w := set_excl v%d w in ", i)
			case fGState:
				fmt.Fprintf(&b, "let w := set_gst g v%d w in ", i)
			default:
				return "", t.errf(l, "assignment to something other than sharedN/excl/guard state")
			}
		}
		tl, err := tail()
		if err != nil {
			return "", err
		}
		return b.String() + "\n" + ind + tl, nil

	case *ast.IncDecStmt:
		if t.pure || t.field(s.X) != fSharedN {
			return "", t.errf(s, "++/-- only supported on sharedN")
		}
		op := "Z.add"
		if s.Tok == token.DEC {
			op = "Z.sub"
		}
		tl, err := tail()
		if err != nil {
			return "", err
		}
		return fmt.Sprintf("let w := set_sharedN (%s (sharedN w) 1%%Z) w in\n%s%s", op, ind, tl), nil

	case *ast.IfStmt:
		if s.Init != nil {
			return "", t.errf(s, "if with init statement")
		}
		c, err := t.boolExpr(s.Cond)
		if err != nil {
			return "", err
		}
		th, err := t.stmts(s.Body.List, ind+"  ", tail)
		if err != nil {
			return "", err
		}
		var el string
		switch e := s.Else.(type) {
		case nil:
			el, err = tail()
		case *ast.BlockStmt:
			el, err = t.stmts(e.List, ind+"  ", tail)
		case *ast.IfStmt:
			el, err = t.stmts([]ast.Stmt{e}, ind+"  ", tail)
		default:
			err = t.errf(s, "unsupported else")
		}
		if err != nil {
			return "", err
		}
		return fmt.Sprintf("if %s then\n%s  %s\n%selse\n%s  %s", c, ind, th, ind, ind, el), nil

	case *ast.SwitchStmt:
		if s.Init != nil || s.Tag == nil || t.field(s.Tag) != fGState {
			return "", t.errf(s, "only `switch g.state` is supported")
		}
		bodies := map[string][]ast.Stmt{}
		var def []ast.Stmt
		hasDef := false
		for _, c := range s.Body.List {
			cc := c.(*ast.CaseClause)
			for _, st := range cc.Body {
				if br, ok := st.(*ast.BranchStmt); ok {
					return "", t.errf(br, "branch statement in switch")
				}
			}
			if cc.List == nil {
				def, hasDef = cc.Body, true
				continue
			}
			for _, v := range cc.List {
				id, ok := v.(*ast.Ident)
				if !ok || stateConst[id.Name] == "" {
					return "", t.errf(v, "case value is not an RWMutexState constant")
				}
				if _, dup := bodies[stateConst[id.Name]]; dup {
					return "", t.errf(v, "duplicate case")
				}
				bodies[stateConst[id.Name]] = cc.Body
			}
		}
		var b strings.Builder
		b.WriteString("match gst w g with")
		for _, c := range []string{"Unlocked", "Shared", "Exclusive"} {
			body, ok := bodies[c]
			if !ok {
				if hasDef {
					body = def
				} else {
					body = nil
				}
			}
			tr, err := t.stmts(body, ind+"    ", tail)
			if err != nil {
				return "", err
			}
			fmt.Fprintf(&b, "\n%s| %s =>\n%s    %s", ind, c, ind, tr)
		}
		fmt.Fprintf(&b, "\n%send", ind)
		return b.String(), nil
	}
	var buf bytes.Buffer
	_ = printer.Fprint(&buf, t.fset, ss[0])
	return "", t.errf(ss[0], "statement outside the translatable subset: %s", buf.String())
}

func nodeText(fset *token.FileSet, n ast.Node) string {
	var buf bytes.Buffer
	_ = printer.Fprint(&buf, fset, n)
	return buf.String()
}

// Expected bodies of the exported wrappers, normalised by go/printer.  The
// wrappers only bracket the worker with the mutex and fire the callback when
// the mutex state changed; they are checked structurally, not translated.
var wrapperTemplates = map[string]string{
	"RWMutex.State": `{
	rw.mu.Lock()
	defer rw.mu.Unlock()
	return rw.state()
}`,
	"RWMutexGuard.State": `{
	g.rw.mu.Lock()
	defer g.rw.mu.Unlock()
	return g.state
}`,
	"RWMutexGuard.TryLock": `{
	g.rw.mu.Lock()
	prevState := g.rw.state()
	v := g.tryLock()
	fn, newState := g.rw.OnLockStateChange, g.rw.state()
	g.rw.mu.Unlock()

	if fn != nil && prevState != newState {
		fn(prevState, newState)
	}
	return v
}`,
	"RWMutexGuard.TryRLock": `{
	g.rw.mu.Lock()
	prevState := g.rw.state()
	v := g.tryRLock()
	fn, newState := g.rw.OnLockStateChange, g.rw.state()
	g.rw.mu.Unlock()

	if fn != nil && prevState != newState {
		fn(prevState, newState)
	}
	return v
}`,
	"RWMutexGuard.Unlock": `{
	g.rw.mu.Lock()
	prevState := g.rw.state()
	g.unlock()
	fn, newState := g.rw.OnLockStateChange, g.rw.state()
	g.rw.mu.Unlock()

	if fn != nil && prevState != newState {
		fn(prevState, newState)
	}
}`,
	"RWMutexGuard.Lock": `{
	if g.TryLock() {
		return nil
	}

	ticker := time.NewTicker(RWMutexInterval)
	defer ticker.Stop()

	for {
		select {
		case <-ctx.Done():
			return context.Cause(ctx)
		case <-ticker.C:
			if g.TryLock() {
				return nil
			}
		}
	}
}`,
	"RWMutexGuard.RLock": `{
	if g.TryRLock() {
		return nil
	}

	ticker := time.NewTicker(RWMutexInterval)
	defer ticker.Stop()

	for {
		select {
		case <-ctx.Done():
			return context.Cause(ctx)
		case <-ticker.C:
			if g.TryRLock() {
				return nil
			}
		}
	}
}`,
	"RWMutex.Guard": `{
	return RWMutexGuard{rw: rw, state: RWMutexStateUnlocked}
}`,
}

func recvTypeName(fd *ast.FuncDecl) (typ, name string) {
	if fd.Recv == nil || len(fd.Recv.List) != 1 {
		return "", ""
	}
	f := fd.Recv.List[0]
	if len(f.Names) == 1 {
		name = f.Names[0].Name
	}
	t := f.Type
	if s, ok := t.(*ast.StarExpr); ok {
		t = s.X
	}
	if id, ok := t.(*ast.Ident); ok {
		typ = id.Name
	}
	return
}

func genRWMutex(repo string) (string, error) {
	fset := token.NewFileSet()
	path := filepath.Join(repo, "rwmutex.go")
	f, err := parser.ParseFile(fset, path, nil, 0)
	if err != nil {
		return "", err
	}
	funcs := map[string]*ast.FuncDecl{}
	for _, d := range f.Decls {
		if fd, ok := d.(*ast.FuncDecl); ok {
			typ, _ := recvTypeName(fd)
			funcs[typ+"."+fd.Name.Name] = fd
		}
	}

	// iota order of the state constants matters for `prevState != newState`
	// only through equality, but String()/zero value rely on Unlocked = 0.
	constOrder := []string{}
	for _, d := range f.Decls {
		gd, ok := d.(*ast.GenDecl)
		if !ok || gd.Tok != token.CONST {
			continue
		}
		for _, sp := range gd.Specs {
			vs := sp.(*ast.ValueSpec)
			for _, n := range vs.Names {
				if _, ok := stateConst[n.Name]; ok {
					constOrder = append(constOrder, n.Name)
				}
			}
		}
	}
	if strings.Join(constOrder, ",") != "RWMutexStateUnlocked,RWMutexStateShared,RWMutexStateExclusive" {
		return "", fmt.Errorf("rwmutex.go: unexpected RWMutexState constant block: %v", constOrder)
	}

	var b strings.Builder
	b.WriteString("(* GENERATED by /verif/tools/go2coq from rwmutex.go on every run -- do not edit. *)\n")
	b.WriteString("From Coq Require Import ZArith Bool.\nRequire Import LF.Base.RWBase.\n\n")

	type job struct {
		key, name, recv, retTy string
		pure                 bool
	}
	jobs := []job{
		{"RWMutex.state", "state", "rw", "gstate", true},
		{"RWMutexGuard.tryLock", "tryLock", "g", "outcome bool", false},
		{"RWMutexGuard.tryRLock", "tryRLock", "g", "outcome bool", false},
		{"RWMutexGuard.unlock", "unlock", "g", "outcome unit", false},
		{"RWMutexGuard.CanLock", "canLock", "g", "outcome (bool * gstate)", false},
		{"RWMutexGuard.CanRLock", "canRLock", "g", "outcome bool", false},
	}
	for _, j := range jobs {
		fd := funcs[j.key]
		if fd == nil {
			return "", fmt.Errorf("rwmutex.go: method %s not found", j.key)
		}
		_, rn := recvTypeName(fd)
		if rn != j.recv {
			return "", fmt.Errorf("rwmutex.go: %s: receiver is %q, expected %q", j.key, rn, j.recv)
		}
		t := &smTr{fset: fset, recv: j.recv, pure: j.pure}
		body := fd.Body.List
		// CanLock/CanRLock hold the mutex for their whole body.
		if j.key == "RWMutexGuard.CanLock" || j.key == "RWMutexGuard.CanRLock" {
			if len(body) < 3 || nodeText(fset, body[0]) != "g.rw.mu.Lock()" || nodeText(fset, body[1]) != "defer g.rw.mu.Unlock()" {
				return "", fmt.Errorf("%s: %s does not start with mu.Lock(); defer mu.Unlock()", fset.Position(fd.Pos()), j.key)
			}
			body = body[2:]
		}
		term, err := t.stmts(body, "  ", func() (string, error) {
			if j.retTy == "outcome unit" {
				return "Ret tt w", nil
			}
			return "", fmt.Errorf("%s: %s can fall off its end without a return", fset.Position(fd.Pos()), j.key)
		})
		if err != nil {
			return "", err
		}
		fmt.Fprintf(&b, "(* %s  %s *)\n", fset.Position(fd.Pos()), j.key)
		if j.pure {
			fmt.Fprintf(&b, "Definition %s (w : world) : %s :=\n  %s.\n\n", j.name, j.retTy, term)
		} else {
			fmt.Fprintf(&b, "Definition %s (g : gid) (w : world) : %s :=\n  %s.\n\n", j.name, j.retTy, term)
		}
	}

	// structural check of the wrappers
	ok := true
	var diffs []string
	for key, want := range wrapperTemplates {
		fd := funcs[key]
		if fd == nil {
			ok = false
			diffs = append(diffs, key+": missing")
			continue
		}
		if got := nodeText(fset, fd.Body); got != want {
			ok = false
			diffs = append(diffs, key+": body differs from the expected bracketing")
		}
	}
	fmt.Fprintf(&b, "(* exported wrappers bracket the workers with the mutex exactly as expected: %v %v *)\n", ok, diffs)
	fmt.Fprintf(&b, "Definition wrappers_as_expected : bool := %v.\n", ok)
	return b.String(), nil
}
