#!/usr/bin/env python3
"""Re-run the registered check of every kept seeded change (seeded/<id>-<n>/patch.diff) against the current
checks, several at a time.  Each worker has its own scratch worktree of /repo (the change is applied there,
never in /repo) and its own scratch worktree of /verif (the check regenerates Gen/*.v from the tree it is
pointed at, so two runs cannot share one Coq directory).  Nothing here is a registered command; the
worktrees live under /tmp and are removed at the end.

usage: tools/seedrerun.py [--jobs N] [--only C13-2,C05-8] [--write]
  --write   record the result as "outcome_final" in seeded/<id>-<n>/meta.json
A seed whose note in seeded/notes.json says "(thorough only" is run in the thorough tier.
"""
import argparse, concurrent.futures, json, os, queue, re, subprocess, sys, time

VERIF = os.path.dirname(os.path.dirname(os.path.abspath(__file__)))
ENV = dict(os.environ, GOFLAGS="-mod=mod", GOPROXY="off", GOSUMDB="off", GOTOOLCHAIN="local")


def sh(cmd, cwd=None, env=None, timeout=None):
    return subprocess.run(cmd, cwd=cwd, env=env or ENV, shell=isinstance(cmd, str), stdout=subprocess.PIPE,
                          stderr=subprocess.STDOUT, text=True, timeout=timeout)


def main():
    ap = argparse.ArgumentParser()
    ap.add_argument("--jobs", type=int, default=4)
    ap.add_argument("--only", default="")
    ap.add_argument("--write", action="store_true")
    ap.add_argument("--repo", default="/repo")
    a = ap.parse_args()
    sdir = os.path.join(VERIF, "seeded")
    notes = {}
    try:
        notes = json.load(open(os.path.join(sdir, "notes.json")))
    except Exception:
        pass
    seeds = sorted(d for d in os.listdir(sdir) if re.fullmatch(r"C\d\d-\d+", d) and os.path.exists(os.path.join(sdir, d, "patch.diff")))
    if a.only:
        want = set(a.only.split(","))
        seeds = [s for s in seeds if s in want]
    jobs = max(1, min(a.jobs, len(seeds)))
    workers = queue.Queue()
    made = []
    try:
        for k in range(jobs):
            vw, rw = "/tmp/vw-%d" % k, "/tmp/rw-%d" % k
            for path, src in ((vw, VERIF), (rw, a.repo)):
                sh(["git", "-C", src, "worktree", "remove", "--force", path])
                r = sh(["git", "-C", src, "worktree", "add", "--detach", path, "HEAD"])
                if r.returncode != 0:
                    print(r.stdout)
                    return 2
                made.append((src, path))
        with concurrent.futures.ThreadPoolExecutor(jobs) as ex:
            rs = list(ex.map(lambda k: sh("./setup.sh", cwd="/tmp/vw-%d" % k, env=dict(ENV, VERIF_REPO="/tmp/rw-%d" % k), timeout=3000), range(jobs)))
        for k, r in enumerate(rs):
            if "setup done" not in r.stdout:
                print("setup failed in worker", k, r.stdout[-2000:])
                return 2
            workers.put(k)

        def run(seed):
            k = workers.get()
            vw, rw = "/tmp/vw-%d" % k, "/tmp/rw-%d" % k
            try:
                meta = json.load(open(os.path.join(sdir, seed, "meta.json")))
                prop = meta.get("property") or seed.split("-")[0]
                note = notes.get(seed) or ""
                if isinstance(note, dict):
                    note = json.dumps(note)
                tier = "thorough" if "(thorough only" in note else "quick"
                patch = os.path.join(sdir, seed, "patch.diff")
                sh("git checkout -q -- . ; git clean -fdq", cwd=rw)
                if sh(["git", "apply", patch], cwd=rw).returncode != 0:
                    if sh(["git", "apply", "-3", patch], cwd=rw).returncode != 0:
                        sh("git checkout -q -- . ; git reset -q ; git clean -fdq", cwd=rw)
                        return seed, {"applies": False}
                    sh("git reset -q", cwd=rw)
                t0 = time.time()
                try:
                    r = sh(["./check", prop, "--tier", tier], cwd=vw, env=dict(ENV, VERIF_REPO=rw, VERIF_NO_EVIDENCE="1"), timeout=3600)
                    out, rc = r.stdout, r.returncode
                except subprocess.TimeoutExpired:
                    out, rc = "[timeout]", 1
                lines = [l for l in out.splitlines() if not l.startswith("KNOWN-FINDING")]
                viol = [l for l in lines if l.startswith("VIOLATION")]
                detail = []
                for i, l in enumerate(lines):
                    if l.startswith("VIOLATION") and i + 1 < len(lines):
                        detail.append(lines[i + 1].strip()[:300])
                return seed, {"applies": True, "property": prop, "tier": tier, "exit": rc, "detected": rc == 1 and bool(viol),
                              "violations": len(viol), "detail": detail[:2], "secs": round(time.time() - t0, 1)}
            finally:
                sh("git checkout -q -- . ; git clean -fdq", cwd=rw)
                workers.put(k)

        results = {}
        with concurrent.futures.ThreadPoolExecutor(jobs) as ex:
            for seed, res in ex.map(run, seeds):
                results[seed] = res
                print(seed, "DETECTED" if res.get("detected") else "not-detected", res.get("tier", ""), (res.get("detail") or [""])[0][:150], flush=True)
        # and the unchanged tree once per worker's property set is not needed: the registered checks do that
        nd = [s for s, r in results.items() if not r.get("detected")]
        print("seeds: %d, detected: %d, not detected: %s" % (len(results), len(results) - len(nd), ", ".join(nd) or "-"))
        json.dump(results, open(os.path.join(sdir, "rerun-final.json"), "w"), indent=1, sort_keys=True)
        if a.write:
            for s, r in results.items():
                mp = os.path.join(sdir, s, "meta.json")
                m = json.load(open(mp))
                m["outcome_final"] = r
                json.dump(m, open(mp, "w"), indent=1)
        return 0 if not nd else 1
    finally:
        for src, path in made:
            sh(["git", "-C", src, "worktree", "remove", "--force", path])
            sh(["rm", "-rf", path])


if __name__ == "__main__":
    sys.exit(main())
