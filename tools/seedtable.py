#!/usr/bin/env python3
"""seedtable.py: regenerate /verif/seeded/README.md from seeded/*/meta.json (+ seeded/notes.json)."""
import glob, json, os
root = "/verif/seeded"
notes = {}
if os.path.exists(os.path.join(root, "notes.json")):
    notes = json.load(open(os.path.join(root, "notes.json")))
rows = []
for d in sorted(glob.glob(os.path.join(root, "*-*"))):
    mp = os.path.join(d, "meta.json")
    if not os.path.exists(mp):
        continue
    m = json.load(open(mp))
    o = m.get("outcome", {})
    name = os.path.basename(d)
    det = []
    for k, v in (o.get("checks") or {}).items():
        if v.get("exit") == 1 and v.get("violations"):
            kind = "no-failing-input-found" if "no-failing-input-found" in " ".join(v["violations"]) else "replay"
            det.append("%s (%s, %ss)" % (k, kind, v.get("secs")))
    o2 = m.get("outcome_rerun")
    if o2:
        det2 = ["%s (%ss)" % (k, v.get("secs")) for k, v in (o2.get("checks") or {}).items() if v.get("exit") == 1 and v.get("violations")]
        notes[name] = (notes.get(name, "") + " Re-run against the current checks: " + ("; ".join(det2) if det2 else "missed") + ".").strip()
    rows.append((name, m.get("property"), m.get("title", ""), ", ".join(m.get("files", [])), "yes" if o.get("confirmed") else "NO",
                 "; ".join(det) if det else "**missed**", notes.get(name, "")))
with open(os.path.join(root, "README.md"), "w") as f:
    f.write("# Seeded changes\n\nEach directory holds `patch.diff` (apply with `git -C /repo apply`, undo with `git -C /repo checkout -- .`), the\n"
            "sub-agent's demonstration and `meta.json` (its description plus `outcome`: my confirmation in a scratch worktree - builds,\n"
            "145 stable tests pass, demonstration passes clean and fails patched - and the result of the registered checks at the time\n"
            "the seed was first run).  `notes.json` records what was strengthened afterwards; a seed marked missed with a note is\n"
            "detected by the current checks (re-run `tools/seedcheck.py seeded/<dir>` to see).\n\n")
    f.write("| seed | property | change | files | confirmed | detected by (first run) | afterwards |\n|---|---|---|---|---|---|---|\n")
    for r in rows:
        f.write("| " + " | ".join(str(x).replace("|", "/") for x in r) + " |\n")
    n = len(rows)
    islate = lambda r: (r[5] == "**missed**" and r[6]) or "missed by the check as first built" in r[6]
    late = sum(1 for r in rows if islate(r)); d = sum(1 for r in rows if r[5] != "**missed**" and not islate(r))
    f.write("\n%d seeds, %d detected by the check as first built, %d more after strengthening (see the last column), %d not detected.\n" % (n, d, late, n - d - late))
print("seeded/README.md: %d rows" % len(rows))
