#!/usr/bin/env python3
"""baseline.py [dir] [-tags X]: run the pinned test suite in a litefs tree and compare with the
145 stable-pass tests of /root/.vp/BASELINE.json.  Exit 0 iff every one of them passes."""
import json, os, subprocess, sys
d = sys.argv[1] if len(sys.argv) > 1 and not sys.argv[1].startswith("-") else "/repo"
extra = sys.argv[sys.argv.index("-tags"):sys.argv.index("-tags") + 2] if "-tags" in sys.argv else []
want = set(json.load(open("/root/.vp/BASELINE.json"))["stable_pass"])
env = dict(os.environ, GOFLAGS="-mod=mod", GOPROXY="off", GOSUMDB="off", GOTOOLCHAIN="local")
p = subprocess.run(["go", "test"] + extra + ["-json", "-vet=off", "-count=1", "-timeout", "25m", "./..."], cwd=d, env=env, capture_output=True, text=True)
res = {}
for line in p.stdout.splitlines():
    try:
        e = json.loads(line)
    except ValueError:
        continue
    if e.get("Test") and e.get("Action") in ("pass", "fail", "skip"):
        res[e["Package"] + "::" + e["Test"]] = e["Action"]
bad = sorted(t for t in want if res.get(t) != "pass")
print("baseline: %d of %d stable tests pass in %s%s" % (len(want) - len(bad), len(want), d, (" " + " ".join(extra)) if extra else ""))
for t in bad[:20]:
    print("  NOT PASSING:", t, res.get(t, "missing (build failure?)"))
if bad and not res:
    print(p.stderr[-2000:])
sys.exit(1 if bad else 0)
