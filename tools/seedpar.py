#!/usr/bin/env python3
"""seedpar.py --jobs N [--tiers quick] <seed-dir> ...   : tools/seedcheck.py on several seeds at a time.
Each worker gets a scratch worktree of /repo (the change is applied there) and a scratch worktree of /verif at HEAD
(the check regenerates Gen/*.v from the tree it is pointed at), both under /tmp, removed at the end.  The outcome of
each seed goes to /verif/seeded/<id>-<n>/ exactly as with seedcheck.py.  Not a registered command."""
import concurrent.futures, os, queue, subprocess, sys

VERIF = os.path.dirname(os.path.dirname(os.path.abspath(__file__)))
ENV = dict(os.environ, GOFLAGS="-mod=mod", GOPROXY="off", GOSUMDB="off", GOTOOLCHAIN="local")


def sh(cmd, cwd=None, env=None, timeout=None):
    return subprocess.run(cmd, cwd=cwd, env=env or ENV, shell=isinstance(cmd, str), stdout=subprocess.PIPE, stderr=subprocess.STDOUT, text=True, timeout=timeout)


def main():
    args = sys.argv[1:]
    jobs, tiers, verif_src = 4, "quick", "/verif"
    seeds = []
    i = 0
    while i < len(args):
        if args[i] == "--jobs":
            jobs = int(args[i + 1]); i += 2
        elif args[i] == "--tiers":
            tiers = args[i + 1]; i += 2
        elif args[i] == "--verif":
            verif_src = args[i + 1]; i += 2
        else:
            seeds.append(os.path.abspath(args[i])); i += 1
    jobs = max(1, min(jobs, len(seeds)))
    made, workers = [], queue.Queue()
    try:
        for k in range(jobs):
            for path, src in (("/tmp/pv-%d" % k, verif_src), ("/tmp/pr-%d" % k, "/repo")):
                sh(["git", "-C", src, "worktree", "remove", "--force", path])
                r = sh(["git", "-C", src, "worktree", "add", "--detach", path, "HEAD"])
                if r.returncode != 0:
                    print(r.stdout); return 2
                made.append((src, path))
        with concurrent.futures.ThreadPoolExecutor(jobs) as ex:
            rs = list(ex.map(lambda k: sh("./setup.sh", cwd="/tmp/pv-%d" % k, env=dict(ENV, VERIF_REPO="/tmp/pr-%d" % k), timeout=3000), range(jobs)))
        for k, r in enumerate(rs):
            if "setup done" not in r.stdout:
                print("setup failed", k, r.stdout[-1500:]); return 2
            workers.put(k)

        def run(seed):
            k = workers.get()
            try:
                name = "%s-%s" % (os.path.basename(os.path.dirname(seed)), os.path.basename(seed))
                r = sh(["python3", os.path.join(VERIF, "tools", "seedcheck.py"), seed, "--keep-as", name, "--tiers", tiers],
                       env=dict(ENV, SEED_REPO="/tmp/pr-%d" % k, SEED_VERIF="/tmp/pv-%d" % k), timeout=7200)
                return seed, r.stdout.strip().splitlines()[-1] if r.stdout.strip() else ""
            finally:
                workers.put(k)

        with concurrent.futures.ThreadPoolExecutor(jobs) as ex:
            for seed, line in ex.map(run, seeds):
                print(line, flush=True)
        return 0
    finally:
        for src, path in made:
            sh(["git", "-C", src, "worktree", "remove", "--force", path])
            sh(["rm", "-rf", path])


if __name__ == "__main__":
    sys.exit(main())
