#!/usr/bin/env python3
"""seedcheck.py <seed-dir> [--keep-as NAME] [--tiers quick,thorough] [--props C01,C04]
Confirms one seeded change (patch.diff + demo_test.go + meta.json) in a scratch worktree of /repo
(builds, 145 stable tests pass, the demonstration passes clean and fails patched), then applies it to
/repo's working tree, runs the registered checks of the property (and of --props), and undoes it.
Prints one JSON line; with --keep-as copies the seed to /verif/seeded/NAME/ with the outcome in meta.json."""
import json, os, re, shutil, subprocess, sys, time

ENV = dict(os.environ, GOFLAGS="-mod=mod", GOPROXY="off", GOSUMDB="off", GOTOOLCHAIN="local")
# several seeds at a time (tools/seedpar.py): the change is applied in SEED_REPO, a scratch worktree of /repo, and the
# checks run from SEED_VERIF, a scratch worktree of /verif pointed at it; by default both are the real trees
RUN_REPO = os.environ.get("SEED_REPO", "/repo")
RUN_VERIF = os.environ.get("SEED_VERIF", "/verif")


def sh(cmd, cwd=None, timeout=1800):
    p = subprocess.run(cmd, shell=True, cwd=cwd, env=ENV, capture_output=True, text=True, timeout=timeout)
    return p.returncode, p.stdout + p.stderr


def main():
    d = os.path.abspath(sys.argv[1])
    keep = sys.argv[sys.argv.index("--keep-as") + 1] if "--keep-as" in sys.argv else None
    tiers = sys.argv[sys.argv.index("--tiers") + 1].split(",") if "--tiers" in sys.argv else ["quick", "thorough"]
    meta = json.load(open(os.path.join(d, "meta.json")))
    prop = meta["property"]
    props = [prop] + (sys.argv[sys.argv.index("--props") + 1].split(",") if "--props" in sys.argv else [])
    patch = os.path.join(d, "patch.diff")
    out = {"seed": d, "property": prop, "title": meta.get("title")}
    wt = "/tmp/sc-wt-%d" % os.getpid()
    sh("git -C /repo worktree remove --force %s" % wt)
    rc, o = sh("git -C /repo worktree add --detach %s HEAD -q" % wt)
    try:
        rc, o = sh("git apply --check %s" % patch, cwd=wt)
        out["applies"] = rc == 0
        if rc != 0:
            rc3, o3 = sh("git apply -3 %s" % patch, cwd=wt)
            out["applies_3way"] = rc3 == 0
            if rc3 != 0:
                out["error"] = "patch does not apply: " + o[-300:]
                print(json.dumps(out)); return 1
            sh("git diff HEAD > %s.rebased" % patch, cwd=wt)
            patch = patch + ".rebased"
            sh("git checkout -- . && git reset -q", cwd=wt)
        demo = os.path.join(d, "demo_test.go")
        tests = []
        if os.path.exists(demo):
            src = open(demo).read()
            tests = re.findall(r"^func (Test\w+)\(", src, re.M)
            pkg = re.search(r"^package (\w+)", src, re.M).group(1)
            sub = meta.get("demo_dir") or {"litefs_test": ".", "litefs": ".", "http_test": "http", "http": "http", "fuse_test": "fuse", "fuse": "fuse",
                                           "chunk": "internal/chunk", "chunk_test": "internal/chunk", "internal": "internal", "internal_test": "internal",
                                           "consul": "consul", "consul_test": "consul", "lfsc": "lfsc", "lfsc_test": "lfsc",
                                           "mock": "mock", "main": "cmd/litefs", "main_test": "cmd/litefs"}.get(pkg, ".")
            tags = "-tags verif" if "go:build verif" in src else ""
            shutil.copy(demo, os.path.join(wt, sub, "zz_seed_demo_test.go"))
            run = "go test %s -count=1 -timeout 300s -run '^(%s)$' ./%s" % (tags, "|".join(tests), sub)
            rc, o = sh(run, cwd=wt)
            out["demo_clean_passes"] = rc == 0
            if rc != 0:
                out["demo_clean_output"] = o[-600:]
        rc, o = sh("git apply %s" % patch, cwd=wt)
        rc, o = sh("go build ./... ", cwd=wt)
        out["builds"] = rc == 0
        if tests:
            rc, o = sh(run, cwd=wt)
            out["demo_patched_fails"] = rc != 0
            out["demo_patched_output"] = "\n".join(l for l in o.splitlines() if "FAIL" in l or "VIOLATION" in l or "rror" in l)[-500:]
            os.remove(os.path.join(wt, sub, "zz_seed_demo_test.go"))
        rc, o = sh("python3 /verif/tools/baseline.py %s" % wt)
        out["baseline_145"] = rc == 0
        if rc != 0:
            out["baseline_output"] = o[-400:]
    finally:
        sh("git -C /repo worktree remove --force %s" % wt)
        shutil.rmtree(wt, ignore_errors=True)
    # ---- run the registered checks against /repo with the change applied ----
    rc, o = sh("git -C %s status --porcelain" % RUN_REPO)
    if o.strip():
        out["error"] = "%s working tree not clean" % RUN_REPO; print(json.dumps(out)); return 1
    rc, o = sh("git -C %s apply %s" % (RUN_REPO, patch))
    out["checks"] = {}
    try:
        for p in props:
            for tier in tiers:
                t0 = time.time()
                rc, o = sh("cd %s && VERIF_REPO=%s VERIF_NO_EVIDENCE=1 ./check %s --tier %s" % (RUN_VERIF, RUN_REPO, p, tier), timeout=3600)
                viol = [l for l in o.splitlines() if l.startswith("VIOLATION")]
                out["checks"]["%s/%s" % (p, tier)] = {"exit": rc, "violations": viol[:3], "detail": [l.strip()[:300] for l in o.splitlines() if l.startswith("  ")][:3], "secs": round(time.time() - t0, 1)}
                if rc != 0:
                    break
    finally:
        sh("git -C %s checkout -- . && git -C %s clean -fdq" % (RUN_REPO, RUN_REPO))
    out["detected"] = any(v["exit"] == 1 and v["violations"] for v in out["checks"].values())
    out["confirmed"] = bool(out.get("builds") and out.get("baseline_145") and (not tests or (out.get("demo_clean_passes") and out.get("demo_patched_fails"))))
    print(json.dumps(out))
    if keep:
        dst = os.path.join("/verif/seeded", keep)
        os.makedirs(dst, exist_ok=True)
        shutil.copy(patch, os.path.join(dst, "patch.diff"))
        for f in ("demo_test.go", "demo.md"):
            if os.path.exists(os.path.join(d, f)):
                shutil.copy(os.path.join(d, f), os.path.join(dst, f))
        res = {k: out[k] for k in ("confirmed", "detected", "checks", "builds", "baseline_145", "demo_clean_passes", "demo_patched_fails") if k in out}
        old = os.path.join(dst, "meta.json")
        if os.path.exists(old) and "outcome" in json.load(open(old)):
            meta = json.load(open(old))       # keep the first run; this one is a re-run against the strengthened checks
            meta["outcome_rerun"] = res
        else:
            meta["outcome"] = res
        json.dump(meta, open(os.path.join(dst, "meta.json"), "w"), indent=1)
    return 0


if __name__ == "__main__":
    sys.exit(main())
