#!/bin/sh
# Run once after a fresh restore, offline: builds the translator, the whole Coq
# development and warms the Go build cache for the harness.
set -e
cd "$(dirname "$0")"
export GOFLAGS=-mod=mod GOPROXY=off GOSUMDB=off GOTOOLCHAIN=local
mkdir -p .build evidence replays
(cd tools/go2coq && go build -o ../../.build/go2coq .)
./.build/go2coq -repo "${VERIF_REPO:-/repo}" -out coq/theories/Gen || true
(cd coq && ./mk.sh -k) || echo "setup: coq build reported errors (checks will report them)"
cp "${VERIF_REPO:-/repo}/go.sum" harness/go.sum
(cd harness && go build -tags verif -o ../.build/lfsverif.warm ./cmd/lfsverif && rm -f ../.build/lfsverif.warm)
echo "setup done"
