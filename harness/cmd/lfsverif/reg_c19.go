package main

import "lfsverif/internal/c19"

func init() { registry["C19"] = c19.Run }
