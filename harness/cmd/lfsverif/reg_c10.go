package main

import "lfsverif/internal/c10"

func init() { registry["C10"] = c10.Run }
