package main

import "lfsverif/internal/c09"

func init() { registry["C09"] = c09.Run }
