package main

import "lfsverif/internal/c05"

func init() { registry["C05"] = c05.Run }
