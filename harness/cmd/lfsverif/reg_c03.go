package main

import "lfsverif/internal/c03"

func init() { registry["C03"] = c03.Run }
