package main

import "lfsverif/internal/c15"

func init() { registry["C15"] = c15.Run }
