package main

import "lfsverif/internal/c04"

func init() { registry["C04"] = c04.Run }
