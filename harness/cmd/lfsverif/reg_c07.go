package main

import "lfsverif/internal/c07"

func init() { registry["C07"] = c07.Run }
