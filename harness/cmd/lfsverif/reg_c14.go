package main

import "lfsverif/internal/c14"

func init() { registry["C14"] = c14.Run }
