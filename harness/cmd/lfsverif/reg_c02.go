package main

import "lfsverif/internal/c02"

func init() { registry["C02"] = c02.Run }
