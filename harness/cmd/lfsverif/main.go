// lfsverif drives the real litefs code for one property and writes
// result.json + cases_*.v into -out.  Built from /repo's current working tree
// with -tags verif on every check run.
package main

import (
	"flag"
	"fmt"
	"os"
	"sort"

	"lfsverif/internal/common"
)

var registry = map[string]func(*common.Ctx) error{}

func main() {
	prop := flag.String("prop", "", "property id or sub-command")
	tier := flag.String("tier", "quick", "quick|thorough")
	seed := flag.Uint64("seed", 1, "seed")
	out := flag.String("out", "", "output directory")
	replay := flag.String("replay", "", "replay file")
	flag.Parse()
	fn := registry[*prop]
	if fn == nil || *out == "" {
		var ks []string
		for k := range registry {
			ks = append(ks, k)
		}
		sort.Strings(ks)
		fmt.Fprintf(os.Stderr, "usage: lfsverif -prop <%v> -out dir [-tier t] [-seed n]\n", ks)
		os.Exit(2)
	}
	ctx := common.NewCtx(*prop, *tier, *seed, *out)
	ctx.Replay = *replay
	if err := fn(ctx); err != nil {
		fmt.Fprintf(os.Stderr, "lfsverif %s: harness error: %v\n", *prop, err)
		os.Exit(3)
	}
	if err := ctx.Finish(); err != nil {
		fmt.Fprintf(os.Stderr, "lfsverif %s: %v\n", *prop, err)
		os.Exit(3)
	}
}
