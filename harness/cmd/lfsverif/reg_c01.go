package main

import "lfsverif/internal/c01"

func init() { registry["C01"] = c01.Run }
