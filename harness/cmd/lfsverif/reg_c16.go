package main

import "lfsverif/internal/c16"

func init() { registry["C16"] = c16.Run }
