package main

import "lfsverif/internal/c17"

func init() { registry["C17"] = c17.Run }
