package main

import "lfsverif/internal/c08"

func init() { registry["C08"] = c08.Run }
