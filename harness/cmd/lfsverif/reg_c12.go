package main

import "lfsverif/internal/c12"

func init() { registry["C12"] = c12.Run }
