package main

import "lfsverif/internal/c18"

func init() { registry["C18"] = c18.Run }
