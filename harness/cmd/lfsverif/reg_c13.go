package main

import "lfsverif/internal/c13"

func init() { registry["C13"] = c13.Run }
