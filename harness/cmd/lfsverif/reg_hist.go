package main

import (
	"lfsverif/internal/common"
	"lfsverif/internal/hist"
)

func init() {
	registry["hist-replay"] = func(c *common.Ctx) error {
		h, err := hist.LoadReplay(c, c.Replay, true)
		if h != nil {
			h.CheckCrash(c, "replay")
			h.CheckChecksum(c)
			h.CheckCapture(c, "replay", map[string]bool{"rtx": true, "wtx": true, "lockonly": true, "drop": true})
			h.CheckChain(c)
			h.Close()
		}
		return err
	}
}
