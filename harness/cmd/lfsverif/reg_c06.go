package main

import "lfsverif/internal/c06"

func init() { registry["C06"] = c06.Run }
