package main

import "lfsverif/internal/c20"

func init() { registry["C20"] = c20.Run }
