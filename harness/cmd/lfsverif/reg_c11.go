package main

import "lfsverif/internal/c11"

func init() { registry["C11"] = c11.Run }
