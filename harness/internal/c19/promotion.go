package c19

import (
	"context"
	"errors"
	"fmt"
	"net/http"
	"os"
	"strings"
	"sync"
	"time"

	"github.com/superfly/litefs"
	lfshttp "github.com/superfly/litefs/http"

	"lfsverif/internal/cluster"
	"lfsverif/internal/common"
	"lfsverif/internal/hist"
)

// flakyLeaser: the lease is granted; the cluster-id request made right after the acquisition fails once (the lease
// service lost its leader). The node gives the lease back; it does not get it again (somebody else is quicker).
type flakyLeaser struct {
	*cluster.Leaser
	mu       sync.Mutex
	acquired bool
	failed   bool
}

func (l *flakyLeaser) Acquire(ctx context.Context) (litefs.Lease, error) {
	l.mu.Lock()
	if l.failed {
		l.mu.Unlock()
		return nil, litefs.ErrPrimaryExists
	}
	l.mu.Unlock()
	lease, err := l.Leaser.Acquire(ctx)
	if err == nil {
		l.mu.Lock()
		l.acquired = true
		l.mu.Unlock()
	}
	return lease, err
}

func (l *flakyLeaser) ClusterID(ctx context.Context) (string, error) {
	l.mu.Lock()
	if l.acquired && !l.failed {
		l.failed = true
		l.mu.Unlock()
		return "", errors.New("Unexpected response code: 500 (rpc error: No cluster leader)")
	}
	l.mu.Unlock()
	return l.Leaser.ClusterID(ctx)
}

// failedPromotion: a candidate acquires the lease, the step after the acquisition fails, it gives the lease back and
// another node becomes primary; the node follows it as a replica. Writes arriving at its proxy are redirected to the
// primary like on any replica - none reaches the local application.
func failedPromotion(c *common.Ctx) error {
	dir, err := os.MkdirTemp(c.OutDir, "c19f-")
	if err != nil {
		return err
	}
	defer os.RemoveAll(dir)
	clu := cluster.New(dir, 2*time.Second)
	var fl *flakyLeaser
	clu.LeaserFor = func(name, url string) (litefs.Leaser, error) {
		if name == "f" {
			fl = &flakyLeaser{Leaser: clu.NewLeaser(name, url)}
			return fl, nil
		}
		return clu.NewLeaser(name, url), nil
	}
	defer clu.Close()
	f, err := clu.Start("f", true)
	if err != nil {
		return err
	}
	deadline := time.Now().Add(3 * time.Second)
	for time.Now().Before(deadline) {
		fl.mu.Lock()
		done := fl.failed
		fl.mu.Unlock()
		if done {
			break
		}
		time.Sleep(2 * time.Millisecond)
	}
	p, err := clu.Start("p", true)
	if err != nil {
		return err
	}
	deadline = time.Now().Add(6 * time.Second)
	for !p.Store.IsPrimary() && time.Now().Before(deadline) {
		time.Sleep(5 * time.Millisecond)
	}
	if !p.Store.IsPrimary() {
		c.Count("failed_promotion_no_other_primary", 1)
		return nil
	}
	hp := hist.NewOn(c, c.Rng.Fork(), hist.Config{PageSize: 512}, p.Store, p.Exits, "db", nil, 0, false)
	for i := 0; i < 2; i++ {
		if !commitOne(hp) {
			return fmt.Errorf("setup commit failed")
		}
	}
	pp := p.Store.DB("db").Pos()
	if !cluster.WaitPos(f, "db", uint64(pp.TXID), uint64(pp.PostApplyChecksum), 8*time.Second) {
		c.Count("failed_promotion_did_not_follow", 1)
		return nil
	}
	app, err := newStub(func() uint64 { return uint64(f.Store.DB("db").Pos().TXID) })
	if err != nil {
		return err
	}
	defer app.srv.Close()
	px := lfshttp.NewProxyServer(f.Store)
	px.Target, px.DBName, px.Addr = app.ln.Addr().String(), "db", "localhost:0"
	px.PollTXIDInterval, px.PollTXIDTimeout, px.PrimaryRedirectTimeout = time.Millisecond, 400*time.Millisecond, 150*time.Millisecond
	if err := px.Listen(); err != nil {
		return err
	}
	px.Serve()
	defer px.Close()
	client := &http.Client{CheckRedirect: func(*http.Request, []*http.Request) error { return http.ErrUseLastResponse }, Timeout: 10 * time.Second}
	for _, m := range []string{"POST", "PUT", "DELETE"} {
		app.take()
		req, _ := http.NewRequest(m, px.URL()+"/app", strings.NewReader(""))
		resp, err := client.Do(req)
		c.Evaluations++
		c.Distinct("failed-promotion:" + m)
		rep := map[string]any{"kind": "proxy-failed-promotion", "method": m}
		if err != nil {
			c.Violate("C19:failed-promotion:no-response", fmt.Sprintf("%s /app on a node whose promotion failed got no response: %v", m, err), rep)
			return nil
		}
		resp.Body.Close()
		arrived := app.take()
		replay := resp.Header.Get("fly-replay")
		if len(arrived) > 0 || !strings.Contains(replay, "instance=p") {
			c.Violate("C19:failed-promotion:write-on-replica", fmt.Sprintf("the node won the lease, failed the step after the acquisition, gave the lease back and now follows primary p (its own role: primary=%v): %s /app at its proxy was answered %d, fly-replay %q, and reached the local application %d time(s)", f.Store.IsPrimary(), m, resp.StatusCode, replay, len(arrived)), rep)
			return nil
		}
	}
	return nil
}
