// Package c19: the HTTP proxy gives read-your-writes and never runs writes on a replica.
package c19

import (
	"fmt"
	"io"
	"net"
	"net/http"
	"os"
	"strings"
	"sync"
	"time"

	"github.com/superfly/litefs"
	lfshttp "github.com/superfly/litefs/http"
	"github.com/superfly/ltx"

	"lfsverif/internal/cluster"
	"lfsverif/internal/common"
	"lfsverif/internal/hist"
)

type arrival struct {
	method, path string
	txid         uint64
}

type stubApp struct {
	mu       sync.Mutex
	arrivals []arrival
	posFn    func() uint64
	onWrite  func() // commits a transaction while "serving" a write
	ln       net.Listener
	srv      *http.Server
}

func newStub(posFn func() uint64) (*stubApp, error) {
	a := &stubApp{posFn: posFn}
	ln, err := net.Listen("tcp", "localhost:0")
	if err != nil {
		return nil, err
	}
	a.ln = ln
	a.srv = &http.Server{Handler: http.HandlerFunc(func(w http.ResponseWriter, r *http.Request) {
		a.mu.Lock()
		a.arrivals = append(a.arrivals, arrival{r.Method, r.URL.Path, a.posFn()})
		ow := a.onWrite
		a.mu.Unlock()
		if r.Method != "GET" && r.Method != "HEAD" && ow != nil {
			ow()
		}
		w.WriteHeader(200)
		_, _ = w.Write([]byte("app"))
	})}
	go func() { _ = a.srv.Serve(ln) }()
	return a, nil
}

func (a *stubApp) take() []arrival {
	a.mu.Lock()
	defer a.mu.Unlock()
	out := a.arrivals
	a.arrivals = nil
	return out
}

type reqCase struct {
	Method  string `json:"method"`
	Path    string `json:"path"`   // /app /pass/x /fwd/x /litefs/health
	Cookie  string `json:"cookie"` // absent malformed zero behind equal ahead far-ahead
	Role    string `json:"role"`   // primary replica noprimary
	Timing  string `json:"timing"` // none | during (the position advances while the proxy polls)
	DBThere bool   `json:"db_present"`
}

func commitOne(h *hist.Runner) bool {
	for tries := 0; tries < 20; tries++ {
		st := h.GenStep()
		if st.Op != "rtx" {
			continue
		}
		st.Outcome = 0
		ob := h.Exec(st)
		return ob.Captured && ob.Err == ""
	}
	return false
}

func Run(c *common.Ctx) error {
	cf := c.Cases("cases_c19", "Require Import LF.Model.Proxy.\nLocal Open Scope N_scope.", "req * N * bool * list N * N * list N", "mismatches")
	dir, err := os.MkdirTemp(c.OutDir, "c19-")
	if err != nil {
		return err
	}
	defer os.RemoveAll(dir)
	clu := cluster.New(dir, 2*time.Second)
	defer clu.Close()
	p, err := clu.Start("p", true)
	if err != nil {
		return err
	}
	if clu.WaitPrimary(5*time.Second) == nil {
		return fmt.Errorf("no primary")
	}
	rn, err := clu.Start("r", false)
	if err != nil {
		return err
	}
	// a third node that never finds a primary
	lone := cluster.New(dir+"-lone", 2*time.Second)
	lone.Svc.AcquireBlock = true
	defer lone.Close()
	defer os.RemoveAll(dir + "-lone")
	ln, err := lone.Start("n", false)
	if err != nil {
		return err
	}
	hp := hist.NewOn(c, c.Rng.Fork(), hist.Config{PageSize: 512}, p.Store, p.Exits, "db", nil, 0, false)
	for i := 0; i < 3; i++ {
		if !commitOne(hp) {
			return fmt.Errorf("setup commit failed")
		}
	}
	pos := func(s *litefs.Store, name string) uint64 {
		if db := s.DB(name); db != nil {
			return uint64(db.Pos().TXID)
		}
		return 0
	}
	if !cluster.WaitPos(rn, "db", pos(p.Store, "db"), uint64(p.Store.DB("db").Pos().PostApplyChecksum), 10*time.Second) {
		return fmt.Errorf("replica did not catch up")
	}
	mkProxy := func(s *litefs.Store, dbName string) (*lfshttp.ProxyServer, *stubApp, error) {
		app, err := newStub(func() uint64 { return pos(s, dbName) })
		if err != nil {
			return nil, nil, err
		}
		px := lfshttp.NewProxyServer(s)
		px.Target = app.ln.Addr().String()
		px.DBName = dbName
		px.Addr = "localhost:0"
		// one anchored expression and one glob-style suffix expression each (what litefs.yml users write): the
		// expressions are matched against the path, never against the query string
		// compiled the way cmd/litefs compiles the patterns of litefs.yml
		for _, pat := range []string{"/pass/*", "*.png"} {
			re, err := lfshttp.CompileMatch(pat)
			if err != nil {
				return nil, nil, err
			}
			px.Passthroughs = append(px.Passthroughs, re)
		}
		for _, pat := range []string{"/fwd/*", "*.rpc"} {
			re, err := lfshttp.CompileMatch(pat)
			if err != nil {
				return nil, nil, err
			}
			px.AlwaysForward = append(px.AlwaysForward, re)
		}
		px.PollTXIDInterval = time.Millisecond
		px.PollTXIDTimeout = 400 * time.Millisecond
		px.PrimaryRedirectTimeout = 150 * time.Millisecond
		if err := px.Listen(); err != nil {
			return nil, nil, err
		}
		px.Serve()
		return px, app, nil
	}
	type node struct {
		store *litefs.Store
		px    map[bool]*lfshttp.ProxyServer // by db_present
		app   map[bool]*stubApp
	}
	nodes := map[string]*node{}
	for role, s := range map[string]*litefs.Store{"primary": p.Store, "replica": rn.Store, "noprimary": ln.Store} {
		n := &node{store: s, px: map[bool]*lfshttp.ProxyServer{}, app: map[bool]*stubApp{}}
		for _, there := range []bool{true, false} {
			name := "db"
			if !there {
				name = "nosuchdb"
			}
			px, app, err := mkProxy(s, name)
			if err != nil {
				return err
			}
			defer px.Close()
			defer app.srv.Close()
			n.px[there], n.app[there] = px, app
		}
		nodes[role] = n
	}
	// the application on the primary commits while it serves a write
	// (one, two or three transactions: the cookie names the position the write left behind, not the first of them)
	writes := 0
	nodes["primary"].app[true].onWrite = func() {
		writes++
		for k := 0; k < 1+writes%3; k++ {
			commitOne(hp)
		}
	}

	client := &http.Client{CheckRedirect: func(*http.Request, []*http.Request) error { return http.ErrUseLastResponse }, Timeout: 10 * time.Second}
	var cases []reqCase
	for _, role := range []string{"primary", "replica", "noprimary"} {
		for _, m := range []string{"GET", "HEAD", "POST", "PUT", "DELETE", "PATCH"} {
			for _, path := range []string{"/app", "/pass/x", "/fwd/x", "/litefs/health", "/app?thumb=logo.png", "/img/logo.png", "/app?call=x.rpc", "/do/x.rpc", "/app%0A/pass/x", "/app%0A/fwd/x"} {
				for _, ck := range []string{"absent", "malformed", "zero", "behind", "equal", "ahead"} {
					for _, there := range []bool{true, false} {
						if !there && ck != "ahead" && ck != "absent" {
							continue
						}
						cases = append(cases, reqCase{Method: m, Path: path, Cookie: ck, Role: role, Timing: "none", DBThere: there})
					}
				}
			}
		}
	}
	// cookies ahead of the database by 2^63 or more (a subtraction of the two ids in a signed type would see them behind)
	for _, role := range []string{"primary", "replica", "noprimary"} {
		for _, m := range []string{"GET", "HEAD", "POST"} {
			for _, path := range []string{"/app", "/pass/x"} {
				for _, ck := range []string{"ahead-by-2^63", "largest"} {
					cases = append(cases, reqCase{Method: m, Path: path, Cookie: ck, Role: role, Timing: "none", DBThere: true})
				}
			}
		}
	}
	// replication timing: the awaited transaction lands while the proxy is polling (replica), or never
	for i := 0; i < c.Pick(4, 20); i++ {
		cases = append(cases, reqCase{Method: "GET", Path: "/app", Cookie: "ahead", Role: "replica", Timing: "during", DBThere: true})
	}
	if !c.Thorough() {
		// quick tier: a deterministic third of the "none" cross product (all of it in thorough)
		var sub []reqCase
		for i, rc := range cases {
			if rc.Timing == "during" || i%3 == int(c.Seed%3) || strings.HasPrefix(rc.Cookie, "ahead") || rc.Cookie == "largest" {
				sub = append(sub, rc)
			}
		}
		cases = sub
	}
	for _, rc := range cases {
		n := nodes[rc.Role]
		px, app := n.px[rc.DBThere], n.app[rc.DBThere]
		app.take()
		cur := pos(n.store, "db")
		if n.store.DB("db") == nil {
			rc.DBThere = false // this node holds no copy of the tracked database
		}
		if cur == 0 && rc.Cookie == "behind" {
			continue
		}
		var cookieTXID uint64
		req, _ := http.NewRequest(rc.Method, px.URL()+rc.Path, strings.NewReader(""))
		switch rc.Cookie {
		case "malformed":
			req.AddCookie(&http.Cookie{Name: "__txid", Value: "zz-not-hex"})
		case "zero":
			req.AddCookie(&http.Cookie{Name: "__txid", Value: ltx.TXID(0).String()})
		case "behind":
			cookieTXID = cur - 1
		case "equal":
			cookieTXID = cur
		case "ahead":
			cookieTXID = cur + 1
		case "ahead-by-2^63":
			cookieTXID = cur + 1<<63
		case "largest":
			cookieTXID = ^uint64(0)
		}
		if cookieTXID != 0 {
			req.AddCookie(&http.Cookie{Name: "__txid", Value: ltx.TXID(cookieTXID).String()})
		}
		if rc.Timing == "during" {
			go func() {
				time.Sleep(60 * time.Millisecond)
				commitOne(hp)
			}()
		}
		t0 := time.Now()
		resp, err := client.Do(req)
		el := time.Since(t0)
		c.Evaluations++
		c.Distinct(fmt.Sprintf("%s:%s:%s:%s:%s:%v", rc.Role, rc.Method, rc.Path, rc.Cookie, rc.Timing, rc.DBThere))
		rep := map[string]any{"kind": "proxy-request", "request": rc}
		key := fmt.Sprintf("C19:%s:%s:%s:%s", rc.Role, strings.ToLower(rc.Method), strings.NewReplacer("/", "_", "?", "_q_", "=", "_").Replace(strings.TrimPrefix(rc.Path, "/")), rc.Cookie)
		if err != nil {
			c.Violate(key+":no-response", fmt.Sprintf("proxy did not answer: %v", err), rep)
			continue
		}
		_, _ = io.Copy(io.Discard, resp.Body)
		resp.Body.Close()
		arr := app.take()
		forwarded := len(arr) > 0
		arrivedAt := uint64(0)
		if forwarded {
			arrivedAt = arr[0].txid
		}
		setCookie := uint64(0)
		hasCookie := false
		for _, ck := range resp.Cookies() {
			if ck.Name == "__txid" {
				hasCookie = true
				if t, err := ltx.ParseTXID(ck.Value); err == nil {
					setCookie = uint64(t)
				}
			}
		}
		posAfter := pos(n.store, "db")
		isRead := rc.Method == "GET" || rc.Method == "HEAD"
		pathOnly := strings.SplitN(rc.Path, "?", 2)[0]
		pass := strings.HasPrefix(pathOnly, "/pass/") || strings.HasSuffix(pathOnly, ".png")
		fwd := strings.HasPrefix(pathOnly, "/fwd/") || strings.HasSuffix(pathOnly, ".rpc")
		health := rc.Method == "GET" && pathOnly == "/litefs/health"
		// ---- the property's own predicates ----
		if isRead && !fwd && !pass && !health && cookieTXID != 0 && rc.DBThere {
			if forwarded && arrivedAt < cookieTXID {
				c.Violate(key+":read-too-early", fmt.Sprintf("read with cookie %d reached the application when the database was at %d", cookieTXID, arrivedAt), rep)
			}
			if !forwarded && resp.StatusCode != http.StatusGatewayTimeout {
				c.Violate(key+":read-dropped", fmt.Sprintf("read with cookie %d was neither forwarded nor timed out (status %d)", cookieTXID, resp.StatusCode), rep)
			}
			if rc.Timing == "during" && !forwarded {
				c.Count("timing_during_missed", 1) // replication may legitimately be slower than the poll window
			}
		}
		if (!isRead || fwd) && !pass && !health && rc.Role != "primary" {
			if forwarded {
				c.Violate(key+":write-on-replica", fmt.Sprintf("%s %s on a %s node was forwarded to the local application", rc.Method, rc.Path, rc.Role), rep)
			}
			if rc.Role == "replica" && resp.Header.Get("fly-replay") == "" {
				c.Violate(key+":no-replay", "write on a replica was not answered with a redirect to the primary", rep)
			}
			if rc.Role == "noprimary" && resp.StatusCode != http.StatusServiceUnavailable {
				c.Violate(key+":no-503", fmt.Sprintf("write with no primary known answered %d, want 503", resp.StatusCode), rep)
			}
		}
		if !isRead && !pass && rc.Role == "primary" && rc.DBThere {
			if !hasCookie || setCookie < posAfter || (rc.DBThere && setCookie < cur+1) {
				c.Violate(key+":cookie", fmt.Sprintf("cookie after a write on the primary is %d (present %v); the application committed transactions %d..%d while serving it", setCookie, hasCookie, cur+1, posAfter), rep)
			}
		}
		// ---- correspondence case ----
		kind := uint64(0)
		switch {
		case health && !pass:
			kind = 4
		case forwarded && pass:
			kind = 5
		case forwarded:
			kind = 0
		case resp.StatusCode == http.StatusGatewayTimeout:
			kind = 1
		case resp.Header.Get("fly-replay") != "":
			kind = 2
		case resp.StatusCode == http.StatusServiceUnavailable:
			kind = 3
		default:
			kind = 9
		}
		hc := uint64(0)
		if hasCookie {
			hc = 1
		}
		obsSeq := []uint64{cur}
		if forwarded && !pass && arrivedAt > cur {
			obsSeq = append(obsSeq, arrivedAt)
		}
		roleN := map[string]int{"primary": 0, "replica": 1, "noprimary": 2}[rc.Role]
		cf.Add(fmt.Sprintf("(mk_req %s %s %s %s %s %d, %d, %s, %s, %d, %s)", common.CoqBool(isRead), common.CoqBool(rc.Method == "GET"), common.CoqBool(strings.SplitN(rc.Path, "?", 2)[0] == "/litefs/health"),
			common.CoqBool(pass), common.CoqBool(fwd), cookieTXID, roleN, common.CoqBool(rc.DBThere), common.CoqNList(obsSeq), posAfter, common.CoqNList([]uint64{kind, hc, setCookie})), rep)
		_ = el
	}
	c.Sample(map[string]any{"request": cases[0], "cases": len(cases)})
	// a replica under a static lease: cmd/litefs gives every node of such a cluster the primary's hostname as the
	// lease's hostname, so "the primary's hostname is mine" says nothing about being primary
	{
		sdir := dir + "-static"
		defer os.RemoveAll(sdir)
		st := litefs.NewStore(sdir, false)
		st.Leaser = litefs.NewStaticLeaser(false, "primaryhost", p.Server.URL())
		st.Client = lfshttp.NewClient()
		st.Exit = func(int) {}
		st.ReconnectDelay = 20 * time.Millisecond
		st.RetentionMonitorInterval = 0
		if err := st.Open(); err != nil {
			return fmt.Errorf("static-lease replica: %w", err)
		}
		defer st.Close()
		deadline := time.Now().Add(8 * time.Second)
		for time.Now().Before(deadline) && pos(st, "db") != pos(p.Store, "db") {
			time.Sleep(5 * time.Millisecond)
		}
		px, app, err := mkProxy(st, "db")
		if err != nil {
			return err
		}
		defer px.Close()
		defer app.srv.Close()
		for _, m := range []string{"POST", "PUT", "DELETE", "PATCH"} {
			req, _ := http.NewRequest(m, px.URL()+"/app", strings.NewReader(""))
			resp, err := client.Do(req)
			c.Evaluations++
			c.Distinct("static-lease-replica:" + m)
			rep := map[string]any{"kind": "proxy-static-lease-replica", "method": m}
			if err != nil {
				c.Violate("C19:static-lease-replica:no-response", fmt.Sprintf("proxy did not answer: %v", err), rep)
				continue
			}
			_, _ = io.Copy(io.Discard, resp.Body)
			resp.Body.Close()
			if arr := app.take(); len(arr) > 0 {
				c.Violate("C19:static-lease-replica:write-on-replica", fmt.Sprintf("%s /app on a replica under a static lease (same lease hostname as the primary) was forwarded to the local application (status %d)", m, resp.StatusCode), rep)
			} else if resp.Header.Get("fly-replay") == "" {
				c.Violate("C19:static-lease-replica:no-replay", fmt.Sprintf("%s /app on a replica under a static lease was not answered with a redirect to the primary (status %d)", m, resp.StatusCode), rep)
			}
		}
	}
	configWiring(c)
	if err := failedPromotion(c); err != nil {
		return err
	}
	// a primary that is told to step down (litefs demote) gives its lease back at once and then sits out the demote delay:
	// during that time it is not the primary any more, and a write through its proxy is not for the local application
	{
		ddir := dir + "-demote"
		defer os.RemoveAll(ddir)
		dclu := cluster.New(ddir, 2*time.Second)
		dclu.Opts = func(name string, s *litefs.Store) { s.DemoteDelay = 1500 * time.Millisecond }
		defer dclu.Close()
		dp, err := dclu.Start("p", true)
		if err != nil {
			return err
		}
		if dclu.WaitPrimary(5*time.Second) == nil {
			return fmt.Errorf("no primary")
		}
		hd := hist.NewOn(c, c.Rng.Fork(), hist.Config{PageSize: 512}, dp.Store, dp.Exits, "db", nil, 0, false)
		if !commitOne(hd) {
			return fmt.Errorf("demote: setup commit failed")
		}
		px, app, err := mkProxy(dp.Store, "db")
		if err != nil {
			return err
		}
		defer px.Close()
		defer app.srv.Close()
		dp.Store.Demote()
		deadline := time.Now().Add(time.Second)
		for dclu.Svc.Holder() != "" && time.Now().Before(deadline) {
			time.Sleep(time.Millisecond)
		}
		if dclu.Svc.Holder() == "" { // the lease is back at the service: nobody is primary
			time.Sleep(20 * time.Millisecond)
			req, _ := http.NewRequest("POST", px.URL()+"/app", strings.NewReader(""))
			resp, err := client.Do(req)
			c.Evaluations++
			c.Distinct("demoted-primary:write")
			rep := map[string]any{"kind": "proxy-demoted-primary"}
			if err != nil {
				c.Violate("C19:demoted-primary:no-response", fmt.Sprintf("proxy did not answer: %v", err), rep)
			} else {
				_, _ = io.Copy(io.Discard, resp.Body)
				resp.Body.Close()
				if arr := app.take(); len(arr) > 0 {
					c.Violate("C19:demoted-primary:write-forwarded", fmt.Sprintf("a node that was told to step down had given its lease back (the lease service names no holder); during its demote delay a POST through its proxy was forwarded to the local application (status %d)", resp.StatusCode), rep)
				}
			}
		}
	}
	// the tracked database appears after the proxy has already served requests: a proxy started on a replica before
	// the database exists behaves, once it exists, like one started afterwards
	{
		const late = "latedb"
		px, app, err := mkProxy(rn.Store, late)
		if err != nil {
			return err
		}
		defer px.Close()
		defer app.srv.Close()
		ppx, papp, err := mkProxy(p.Store, late)
		if err != nil {
			return err
		}
		defer ppx.Close()
		defer papp.srv.Close()
		get := func(base string, cookie uint64) (*http.Response, error) {
			req, _ := http.NewRequest("GET", base+"/app", nil)
			if cookie != 0 {
				req.AddCookie(&http.Cookie{Name: "__txid", Value: ltx.TXID(cookie).String()})
			}
			resp, err := client.Do(req)
			if err == nil {
				_, _ = io.Copy(io.Discard, resp.Body)
				resp.Body.Close()
			}
			return resp, err
		}
		// requests while the database does not exist anywhere
		_, _ = get(px.URL(), 0)
		_, _ = get(px.URL(), 5)
		if req, err := http.NewRequest("POST", ppx.URL()+"/app", strings.NewReader("")); err == nil {
			if resp, err := client.Do(req); err == nil {
				_, _ = io.Copy(io.Discard, resp.Body)
				resp.Body.Close()
			}
		}
		app.take()
		papp.take()
		hl := hist.NewOn(c, c.Rng.Fork(), hist.Config{PageSize: 512}, p.Store, p.Exits, late, nil, 0, false)
		for i := 0; i < 2; i++ {
			if !commitOne(hl) {
				return fmt.Errorf("late database: commit failed")
			}
		}
		lp := p.Store.DB(late).Pos()
		if !cluster.WaitPos(rn, late, uint64(lp.TXID), uint64(lp.PostApplyChecksum), 10*time.Second) {
			return fmt.Errorf("late database did not reach the replica")
		}
		c.Evaluations++
		c.Distinct("late-database:read-wait")
		rep := map[string]any{"kind": "proxy-late-database"}
		resp, err := get(px.URL(), uint64(lp.TXID)+1)
		arr := app.take()
		if err != nil {
			c.Violate("C19:late-database:no-response", fmt.Sprintf("proxy did not answer: %v", err), rep)
		} else if len(arr) > 0 && arr[0].txid < uint64(lp.TXID)+1 {
			c.Violate("C19:late-database:read-too-early", fmt.Sprintf("the tracked database was created after the proxy had served its first requests; a read with cookie %d reached the application with the database at %d (status %d)", uint64(lp.TXID)+1, arr[0].txid, resp.StatusCode), rep)
		} else if len(arr) == 0 && resp.StatusCode != http.StatusGatewayTimeout {
			c.Violate("C19:late-database:read-dropped", fmt.Sprintf("read with a cookie ahead of the database was neither forwarded nor timed out (status %d)", resp.StatusCode), rep)
		}
		// and on the primary: a write is answered with the cookie
		c.Evaluations++
		c.Distinct("late-database:write-cookie")
		papp.onWrite = func() { commitOne(hl) }
		if req, err := http.NewRequest("POST", ppx.URL()+"/app", strings.NewReader("")); err == nil {
			if resp, err := client.Do(req); err == nil {
				_, _ = io.Copy(io.Discard, resp.Body)
				resp.Body.Close()
				after := uint64(p.Store.DB(late).Pos().TXID)
				var set uint64
				for _, ck := range resp.Cookies() {
					if ck.Name == "__txid" {
						if t, err := ltx.ParseTXID(ck.Value); err == nil {
							set = uint64(t)
						}
					}
				}
				if set < after {
					c.Violate("C19:late-database:cookie", fmt.Sprintf("the tracked database was created after the proxy had served its first requests; a write that left it at %d was answered with cookie %d", after, set), rep)
				}
			}
		}
	}
	return nil
}
