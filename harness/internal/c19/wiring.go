package c19

import (
	"encoding/json"
	"fmt"
	"os"
	"os/exec"
	"path/filepath"
	"strings"

	lfshttp "github.com/superfly/litefs/http"

	"lfsverif/internal/common"
)

// configWiring: the proxy as `litefs mount` builds it from a litefs.yml (cmd/litefs initStore + runProxyServer, reached
// through a verif-tagged test in that package: package main cannot be imported). The passthrough expressions of the
// configuration - and only those - end up as the proxy's passthrough list, the always-forward expressions as its
// always-forward list; a handful of other settings the properties depend on are compared as well.
func configWiring(c *common.Ctx) {
	repo := os.Getenv("VERIF_REPO")
	if repo == "" {
		repo = "/repo"
	}
	dir, err := os.MkdirTemp(c.OutDir, "c19w-")
	if err != nil {
		return
	}
	defer os.RemoveAll(dir)
	type cfg struct {
		pass, fwd []string
		retention string
		demote    string
		candidate bool
	}
	cfgs := []cfg{
		{[]string{"/pass/*", "*.png"}, []string{"/fwd/*"}, "7m0s", "3s", true},
		{nil, []string{"/admin/*", "*.rpc", "/x"}, "1h0m0s", "10s", false},
		{[]string{"/static/*"}, nil, "10m0s", "0s", true},
	}
	for i, cf := range cfgs {
		q := func(l []string) string {
			var o []string
			for _, s := range l {
				o = append(o, fmt.Sprintf("%q", s))
			}
			return "[" + strings.Join(o, ", ") + "]"
		}
		yml := fmt.Sprintf("data:\n  dir: %q\n  retention: %s\nlease:\n  type: static\n  candidate: %v\n  demote-delay: %s\nproxy:\n  addr: \"127.0.0.1:0\"\n  target: \"127.0.0.1:9\"\n  db: \"tracked\"\n  passthrough: %s\n  always-forward: %s\n",
			filepath.Join(dir, "data"), cf.retention, cf.candidate, cf.demote, q(cf.pass), q(cf.fwd))
		path := filepath.Join(dir, fmt.Sprintf("litefs%d.yml", i))
		_ = os.WriteFile(path, []byte(yml), 0o644)
		cmd := exec.Command("go", "test", "-tags", "verif", "-count=1", "-v", "-run", "^TestVerifWiring$", "./cmd/litefs")
		cmd.Dir = repo
		cmd.Env = append(os.Environ(), "VERIF_WIRING_CONFIG="+path, "GOFLAGS=-mod=mod", "GOPROXY=off", "GOSUMDB=off", "GOTOOLCHAIN=local")
		out, err := cmd.CombinedOutput()
		c.Evaluations++
		c.Distinct(fmt.Sprintf("config-wiring:%d", i))
		rep := map[string]any{"kind": "config-wiring", "config": yml}
		var got struct {
			Pass      []string `json:"proxy_passthrough"`
			Fwd       []string `json:"proxy_always_forward"`
			DB        string   `json:"proxy_db"`
			Target    string   `json:"proxy_target"`
			Retention string   `json:"store_retention"`
			Demote    string   `json:"store_demote_delay"`
			Candidate bool     `json:"store_candidate"`
		}
		line := ""
		for _, l := range strings.Split(string(out), "\n") {
			if strings.HasPrefix(l, "VERIF-WIRING ") {
				line = strings.TrimPrefix(l, "VERIF-WIRING ")
			}
		}
		if err != nil || line == "" || json.Unmarshal([]byte(line), &got) != nil {
			tail := string(out)
			if len(tail) > 600 {
				tail = tail[len(tail)-600:]
			}
			c.Violate("C19:config-wiring:probe", fmt.Sprintf("the wiring probe in cmd/litefs did not run (%v): %s", err, tail), rep)
			return
		}
		want := func(l []string) []string {
			var o []string
			for _, s := range l {
				if re, err := lfshttp.CompileMatch(s); err == nil {
					o = append(o, re.String())
				}
			}
			return o
		}
		if fmt.Sprint(got.Pass) != fmt.Sprint(want(cf.pass)) || fmt.Sprint(got.Fwd) != fmt.Sprint(want(cf.fwd)) {
			c.Violate("C19:config-wiring:patterns", fmt.Sprintf("litefs.yml with passthrough %v and always-forward %v: the proxy was started with passthrough %v and always-forward %v", cf.pass, cf.fwd, got.Pass, got.Fwd), rep)
		}
		if got.DB != "tracked" || got.Target != "127.0.0.1:9" || got.Retention != cf.retention || got.Demote != cf.demote || got.Candidate != cf.candidate {
			c.Violate("C19:config-wiring:settings", fmt.Sprintf("litefs.yml (db tracked, target 127.0.0.1:9, retention %s, demote-delay %s, candidate %v) became db %q, target %q, retention %s, demote delay %s, candidate %v", cf.retention, cf.demote, cf.candidate, got.DB, got.Target, got.Retention, got.Demote, got.Candidate), rep)
		}
	}
}
