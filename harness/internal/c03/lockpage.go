package c03

import (
	"bytes"
	"context"
	"encoding/binary"
	"fmt"
	"io"
	"os"
	"path/filepath"
	"sort"
	"time"

	lfshttp "github.com/superfly/litefs/http"
	"github.com/superfly/ltx"

	"lfsverif/internal/cluster"
	"lfsverif/internal/common"
	"lfsverif/internal/lfs"
)

// sparseDB is a reference image held sparsely: pages not in the map are zero.
type sparseDB struct {
	ps    int
	n     uint32
	pages map[uint32][]byte
	zero  []byte
}

func (s *sparseDB) page(p uint32) []byte {
	if b, ok := s.pages[p]; ok {
		return b
	}
	return s.zero
}

func (s *sparseDB) checksum() uint64 {
	var c uint64
	lock := lfs.LockPgno(s.ps)
	for p := uint32(1); p <= s.n; p++ {
		if p != lock {
			c ^= lfs.PageChecksum(p, s.page(p))
		}
	}
	return lfs.ChecksumFlag | c
}

type sparseStream struct {
	s    *sparseDB
	next uint32
	cur  []byte
}

func (r *sparseStream) Read(b []byte) (int, error) {
	if len(r.cur) == 0 {
		if r.next >= r.s.n {
			return 0, io.EOF
		}
		r.next++
		r.cur = r.s.page(r.next)
	}
	k := copy(b, r.cur)
	r.cur = r.cur[k:]
	return k, nil
}

// lockPageWAL: WAL transactions on a database that extends past SQLite's lock page (64 KiB pages, lock page 16385):
// update, shrink across the lock page, grow across it again without writing it, update. Each is captured at the
// release of the write lock as one transaction file with the written pages, the new size and the checksums of the
// database before and after (the lock page never counts).
func lockPageWAL(c *common.Ctx) error {
	dir, err := os.MkdirTemp(c.OutDir, "c03l-")
	if err != nil {
		return err
	}
	defer os.RemoveAll(dir)
	clu := cluster.New(dir, 2*time.Second)
	defer clu.Close()
	p, err := clu.Start("p", true)
	if err != nil {
		return err
	}
	if clu.WaitPrimary(5*time.Second) == nil {
		return fmt.Errorf("no primary")
	}
	const ps = 65536
	lock := lfs.LockPgno(ps)
	ref := &sparseDB{ps: ps, n: lock + 5, pages: map[uint32][]byte{}, zero: make([]byte, ps)}
	ref.pages[1] = lfs.MakePage(ps, 1, 1, ref.n, true)
	binary.BigEndian.PutUint32(ref.pages[1][24:], 0) // import resets the file change counter and the schema cookie
	binary.BigEndian.PutUint32(ref.pages[1][40:], 0)
	for _, pg := range []uint32{2, lock - 2, lock - 1, lock + 1, lock + 3, lock + 5} {
		ref.pages[pg] = lfs.MakePage(ps, pg, uint64(100+pg), ref.n, true)
	}
	bg := context.Background()
	if err := lfshttp.NewClient().Import(bg, p.Server.URL(), "big", &sparseStream{s: ref}); err != nil {
		return fmt.Errorf("import of the lock-page database: %w", err)
	}
	db := p.Store.DB("big")
	if db == nil {
		return fmt.Errorf("no database after import")
	}
	chk := ref.checksum()
	if got := uint64(db.Pos().PostApplyChecksum); got != chk {
		return fmt.Errorf("setup: imported database has checksum %016x, reference %016x", got, chk)
	}
	pager := &lfs.Pager{Rec: &lfs.Rec{}, DB: db, Owner: 4242, PageSize: ps, Nonce: 7}
	pager.RestartWAL(0x1111, 0x2222)
	type tx struct {
		what   string
		frames []uint32
		commit uint32
	}
	var grow []uint32
	for pg := lock - 2; pg <= lock+2; pg++ {
		if pg != lock {
			grow = append(grow, pg)
		}
	}
	txs := []tx{
		{"update above the lock page", []uint32{lock + 2, 2}, lock + 5},
		{"shrink across the lock page", []uint32{1}, lock - 3},
		{"grow across the lock page", append([]uint32{1}, grow...), lock + 2},
		{"update", []uint32{lock + 1}, lock + 2},
		{"shrink to just below the lock page", []uint32{1}, lock - 1},
	}
	content := uint64(1000)
	for _, t := range txs {
		c.Evaluations++
		c.Distinct("lock-page-wal:" + t.what)
		rep := map[string]any{"kind": "wal-lock-page", "page_size": ps, "lock_page": lock, "transaction": t.what, "size_before": ref.n, "size_after": t.commit, "frames": t.frames}
		prev := db.Pos()
		if err := pager.BeginWALWrite(); err != nil {
			return fmt.Errorf("%s: %w", t.what, err)
		}
		var specs []lfs.WALFrameSpec
		for _, pg := range t.frames {
			content++
			d := lfs.MakePage(ps, pg, content, t.commit, true)
			specs = append(specs, lfs.WALFrameSpec{Pgno: pg, Data: d})
		}
		werr := pager.WriteWALFrames(specs, t.commit, false)
		pager.EndWALWrite()
		if ex := p.Exits(); len(ex) > 0 {
			c.Violate("C03:lock-page:exit", fmt.Sprintf("%s (%d -> %d pages, lock page %d): the node called Exit(%v), the committed transaction was not captured", t.what, ref.n, t.commit, lock, ex), rep)
			return nil
		}
		if werr != nil {
			c.Violate("C03:lock-page:write", fmt.Sprintf("%s: writing the frames failed: %v", t.what, werr), rep)
			return nil
		}
		for _, sp := range specs {
			ref.pages[sp.Pgno] = sp.Data
		}
		for pg := range ref.pages {
			if pg > t.commit {
				delete(ref.pages, pg)
			}
		}
		ref.n = t.commit
		want := ref.checksum()
		pos := db.Pos()
		if pos.TXID != prev.TXID+1 {
			c.Violate("C03:lock-page:position", fmt.Sprintf("%s (-> %d pages, lock page %d): position went from %d to %d at the release of the write lock", t.what, t.commit, lock, prev.TXID, pos.TXID), rep)
			return nil
		}
		f := lfs.DecodeLTX(filepath.Join(filepath.Dir(db.DatabasePath()), "ltx", ltx.FormatFilename(pos.TXID, pos.TXID)))
		if !f.Valid {
			c.Violate("C03:lock-page:file", fmt.Sprintf("%s: no valid transaction file for %d: %s", t.what, pos.TXID, f.Err), rep)
			return nil
		}
		var wantPg []uint32
		seen := map[uint32]bool{}
		for _, pg := range t.frames {
			if pg <= t.commit && !seen[pg] {
				seen[pg] = true
				wantPg = append(wantPg, pg)
			}
		}
		sort.Slice(wantPg, func(i, j int) bool { return wantPg[i] < wantPg[j] })
		bad := ""
		switch {
		case f.Commit != t.commit:
			bad = fmt.Sprintf("size %d, want %d", f.Commit, t.commit)
		case f.Pre != uint64(prev.PostApplyChecksum):
			bad = fmt.Sprintf("pre-apply checksum %016x, want %016x", f.Pre, uint64(prev.PostApplyChecksum))
		case f.Post != want || uint64(pos.PostApplyChecksum) != want:
			bad = fmt.Sprintf("post-apply checksum %016x (position %016x), the database after the transaction checksums to %016x", f.Post, uint64(pos.PostApplyChecksum), want)
		case fmt.Sprint(f.Pgnos) != fmt.Sprint(wantPg):
			bad = fmt.Sprintf("pages %v, want %v", f.Pgnos, wantPg)
		default:
			for _, pg := range wantPg {
				if !bytes.Equal(f.Pages[pg], ref.page(pg)) {
					bad = fmt.Sprintf("page %d is not what the transaction wrote", pg)
				}
			}
		}
		if bad != "" {
			c.Violate("C03:lock-page:capture", fmt.Sprintf("%s (-> %d pages, lock page %d): transaction file %s: %s", t.what, t.commit, lock, f.Name, bad), rep)
			return nil
		}
	}
	return nil
}
