// Package c03: WAL-mode commits captured exactly at write-lock release.
package c03

import (
	"fmt"

	"lfsverif/internal/common"
	"lfsverif/internal/hist"
)

func Run(c *common.Ctx) error {
	cfgs := []hist.Config{
		{PageSize: 512, Regime: 0, AllowWAL: true, AllowDrop: true, BackToRollback: true},
		{PageSize: 512, Regime: 1, AllowWAL: true, ForceWAL: true},
		{PageSize: 512, Regime: 1, AllowWAL: true, ForceWAL: true, BigEndian: true},
		{PageSize: 512, Regime: 2, AllowWAL: true, ForceWAL: true, AllowDrop: true},
		{PageSize: 4096, Regime: 0, AllowWAL: true, ForceWAL: true, BigEndian: true},
		{PageSize: 1024, Regime: 1, AllowWAL: true, ForceWAL: true, AllowDrop: true},
	}
	if c.Thorough() {
		cfgs = append(cfgs, hist.Config{PageSize: 2048, Regime: 2, AllowWAL: true, ForceWAL: true}, hist.Config{PageSize: 65536, Regime: 0, AllowWAL: true, ForceWAL: true, BigEndian: true}, hist.Config{PageSize: 8192, Regime: 1, AllowWAL: true, ForceWAL: true})
	}
	cf := c.Cases("cases_c03", hist.CoqHeader, hist.CoqType, "mismatches")
	cf.Shard = 3
	// fixed scripts first: the shapes the property names that a short random history rarely composes
	scripts := [][]hist.Step{
		// a generation writes pages 5 and 6; complete checkpoint; restart WITHOUT truncating the file; the new
		// generation overwrites the old frames' offsets with other pages; then the database shrinks below 5
		{{Op: "rtx", Writes: map[uint32]uint64{1: 1, 2: 2, 3: 3, 4: 4}, NewSize: 4, ToWAL: true},
			{Op: "wtx", Frames: [][2]uint64{{5, 15}, {6, 16}}, NewSize: 6},
			{Op: "appckpt", CkptMode: 2},
			{Op: "wtx", Frames: [][2]uint64{{2, 22}, {3, 23}, {1, 21}}, NewSize: 6},
			{Op: "wtx", Frames: [][2]uint64{{1, 31}}, NewSize: 4},
			{Op: "wtx", Frames: [][2]uint64{{4, 44}}, NewSize: 4}},
		// the same with a rolled-back transaction overwritten at the same offsets, and a LiteFS checkpoint
		{{Op: "rtx", Writes: map[uint32]uint64{1: 1, 2: 2, 3: 3}, NewSize: 3, ToWAL: true},
			{Op: "wtx", Frames: [][2]uint64{{4, 14}, {2, 12}}, Aborted: [][2]uint64{{3, 93}, {4, 94}}, NewSize: 4},
			{Op: "lfsckpt"},
			{Op: "wtx", Frames: [][2]uint64{{3, 33}}, NewSize: 4, Split: true},
			{Op: "appckpt", CkptMode: 1},
			{Op: "wtx", Frames: [][2]uint64{{2, 42}, {2, 43}}, NewSize: 2}},
		// transactions that spill frames into the log and roll back - whole frames, and a log that ends inside a frame
		// (the writer is interrupted between a frame's header and its page) - followed by ordinary commits
		{{Op: "rtx", Writes: map[uint32]uint64{1: 1, 2: 2, 3: 3, 4: 4}, NewSize: 4, ToWAL: true},
			{Op: "wabort", Aborted: [][2]uint64{{2, 92}}, Split: true},
			{Op: "wtx", Frames: [][2]uint64{{3, 13}}, NewSize: 4},
			{Op: "wabort", Aborted: [][2]uint64{{4, 94}, {5, 95}}},
			{Op: "wtx", Frames: [][2]uint64{{2, 22}, {5, 25}}, NewSize: 5},
			{Op: "wabort", Aborted: [][2]uint64{{1, 91}}, Split: true, CkptMode: 1},
			{Op: "wtx", Frames: [][2]uint64{{4, 34}}, NewSize: 5}},
		// a transaction that spills a page and then shrinks the database below it (auto-vacuum): the page is part of
		// the log but not of the database the transaction leaves
		{{Op: "rtx", Writes: map[uint32]uint64{1: 1, 2: 2, 3: 3, 4: 4, 5: 5, 6: 6, 7: 7, 8: 8}, NewSize: 8, ToWAL: true},
			{Op: "wtx", Frames: [][2]uint64{{8, 18}, {2, 12}, {1, 11}}, NewSize: 6},
			{Op: "wtx", Frames: [][2]uint64{{9, 29}, {3, 23}}, NewSize: 5},
			{Op: "wtx", Frames: [][2]uint64{{6, 36}, {7, 37}, {8, 38}}, NewSize: 8},
			{Op: "appckpt", CkptMode: 2},
			{Op: "wtx", Frames: [][2]uint64{{2, 42}}, NewSize: 8}},
		// leaving WAL mode the way SQLite does it: the log is closed (checkpointed, deleted), then page 1 is rewritten with
		// version 1 under a rollback journal while the header on disk - and LiteFS - still say WAL
		{{Op: "rtx", Writes: map[uint32]uint64{1: 1, 2: 2, 3: 3}, NewSize: 3, ToWAL: true},
			{Op: "wtx", Frames: [][2]uint64{{2, 12}, {4, 14}}, NewSize: 4},
			{Op: "torollbackj"},
			{Op: "rtx", Writes: map[uint32]uint64{2: 22}, NewSize: 4},
			{Op: "rtx", Writes: map[uint32]uint64{1: 31, 3: 33}, NewSize: 4, ToWAL: true},
			{Op: "wtx", Frames: [][2]uint64{{1, 41}}, NewSize: 4},
			{Op: "torollbackj", JMode: 1},
			{Op: "rtx", Writes: map[uint32]uint64{4: 54}, NewSize: 4}},
		// writers whose -shm descriptor is closed with the write lock still held (the process exits right after its
		// commit): the transaction they leave in the log is recorded at that release like at any other
		{{Op: "rtx", Writes: map[uint32]uint64{1: 1, 2: 2, 3: 3}, NewSize: 3, ToWAL: true},
			{Op: "wtx", Frames: [][2]uint64{{2, 12}, {4, 14}}, NewSize: 4, CloseSHM: true},
			{Op: "wtx", Frames: [][2]uint64{{3, 23}}, NewSize: 4},
			{Op: "wtx", Frames: [][2]uint64{{1, 31}, {5, 35}}, NewSize: 5, CloseSHM: true, Split: true},
			{Op: "wtx", Frames: [][2]uint64{{2, 42}}, NewSize: 3, CloseSHM: true},
			{Op: "lfsckpt"},
			{Op: "wtx", Frames: [][2]uint64{{3, 53}}, NewSize: 3, CloseSHM: true},
			{Op: "wtx", Frames: [][2]uint64{{2, 62}}, NewSize: 3}},
	}
	for si, script := range scripts {
		for _, be := range []bool{false, true} {
			cfg := hist.Config{PageSize: 512, Regime: 0, AllowWAL: true, BigEndian: be, Clients: true}
			h, err := hist.New(c, c.Rng.Fork(), cfg)
			if err != nil {
				if h != nil {
					h.Close()
				}
				return fmt.Errorf("history setup: %w", err)
			}
			for _, st := range script {
				h.Exec(st)
			}
			h.CheckCrash(c, "C03")
			h.CheckCapture(c, "C03", map[string]bool{"wtx": true, "lockonly": true, "appckpt": true, "lfsckpt": true, "torollback": true, "torollbackj": true, "rtx": true, "wabort": true})
			cf.Add(h.CoqCase(), map[string]any{"kind": "history", "page_size": 512, "script": si, "big_endian_wal": be, "steps": h.Steps})
			h.Close()
		}
	}
	if c.Thorough() { // 1 GiB of (sparse) database file
		if err := lockPageWAL(c); err != nil {
			return err
		}
	}
	nHist := c.Pick(18, 160)
	for i := 0; i < nHist; i++ {
		cfg := cfgs[i%len(cfgs)]
		h, err := hist.New(c, c.Rng.Fork(), cfg)
		if err != nil {
			if h != nil {
				h.Close()
			}
			return fmt.Errorf("history setup: %w", err)
		}
		h.Run(c.Pick(25, 60))
		h.CheckCrash(c, "C03")
		h.CheckCapture(c, "C03", map[string]bool{"wtx": true, "lockonly": true, "appckpt": true, "lfsckpt": true, "torollback": true, "torollbackj": true, "rtx": true, "wabort": true})
		cf.Add(h.CoqCase(), map[string]any{"kind": "history", "page_size": cfg.PageSize, "regime": cfg.Regime, "big_endian_wal": cfg.BigEndian, "steps": h.Steps})
		for _, ob := range h.Obs {
			c.Count("op_"+ob.Op, 1)
			if ob.Op == "wtx" {
				st := h.Steps[ob.Step]
				if len(st.Aborted) > 0 {
					c.Count("wtx_with_rolled_back_frames", 1)
				}
				if st.Split {
					c.Count("wtx_split_writes", 1)
				}
			}
		}
		if i == 0 && len(h.Steps) > 3 {
			c.Sample(map[string]any{"history_prefix": h.Steps[:4]})
		}
		h.Close()
	}
	return nil
}
