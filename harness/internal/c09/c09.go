// Package c09: the on-disk transaction log is one contiguous, self-verifying chain.
package c09

import (
	"fmt"

	"lfsverif/internal/common"
	"lfsverif/internal/hist"
)

func Run(c *common.Ctx) error {
	cfgs := []hist.Config{
		{PageSize: 512, Regime: 0, AllowWAL: true, AllowDrop: true, Retention: true},
		{PageSize: 512, Regime: 0, AllowWAL: false, AllowDrop: true, Retention: true},
		{PageSize: 4096, Regime: 0, AllowWAL: true, AllowDrop: true, Retention: true, ForceWAL: true},
		{PageSize: 512, Regime: 1, AllowWAL: true, AllowDrop: false, Retention: true},
	}
	cf := c.Cases("cases_c09", hist.CoqHeader, hist.CoqType, "mismatches")
	cf.Shard = 3
	// fixed history: stray temporary files in the log directory (two of them, adjacent in directory order) and retention
	// sweeps over it - the sweep lists the directory, and nothing but transaction files may count
	{
		cfg := hist.Config{PageSize: 512, Retention: true}
		h, err := hist.New(c, c.Rng.Fork(), cfg)
		if err != nil {
			if h != nil {
				h.Close()
			}
			return fmt.Errorf("history setup: %w", err)
		}
		for _, st := range []hist.Step{
			{Op: "rtx", Writes: map[uint32]uint64{1: 1, 2: 2, 3: 3}, NewSize: 3},
			{Op: "rtx", Writes: map[uint32]uint64{2: 12}, NewSize: 3},
			{Op: "rtx", Writes: map[uint32]uint64{3: 23}, NewSize: 3},
			{Op: "tmpfile"},
			{Op: "retention", Ages: []bool{true, true, true}},
			{Op: "rtx", Writes: map[uint32]uint64{1: 31}, NewSize: 3},
			{Op: "tmpfile"},
			{Op: "retention", Ages: []bool{true, true}},
			{Op: "rtx", Writes: map[uint32]uint64{2: 42}, NewSize: 3},
			{Op: "reopen"},
			{Op: "rtx", Writes: map[uint32]uint64{3: 53}, NewSize: 3},
			{Op: "retention", Ages: []bool{true, false, false}},
		} {
			if ob := h.Exec(st); ob.Panic != "" || len(ob.Exits) > 0 {
				break
			}
		}
		h.CheckCrash(c, "C09")
		h.CheckChain(c)
		h.CheckRetention(c)
		cf.Add(h.CoqCase(), map[string]any{"kind": "history", "page_size": cfg.PageSize, "scripted": "stray temporary files and retention", "steps": h.Steps})
		h.Close()
	}
	nHist := c.Pick(20, 160)
	for i := 0; i < nHist; i++ {
		cfg := cfgs[i%len(cfgs)]
		h, err := hist.New(c, c.Rng.Fork(), cfg)
		if err != nil {
			if h != nil {
				h.Close()
			}
			return fmt.Errorf("history setup: %w", err)
		}
		h.Run(c.Pick(30, 70))
		h.CheckCrash(c, "C09")
		h.CheckChain(c)
		h.CheckRetention(c)
		cf.Add(h.CoqCase(), map[string]any{"kind": "history", "page_size": cfg.PageSize, "regime": cfg.Regime, "steps": h.Steps})
		for _, ob := range h.Obs {
			c.Count("op_"+ob.Op, 1)
		}
		if i == 0 && len(h.Steps) > 3 {
			c.Sample(map[string]any{"history_prefix": h.Steps[:4]})
		}
		h.Close()
	}
	// received files: the stream and the backup service
	if err := streamedFrames(c, c.Rng.Fork()); err != nil {
		return err
	}
	for _, mode := range []string{"cut", "damaged"} {
		if err := unusableSnapshot(c, c.Rng.Fork(), mode); err != nil {
			return err
		}
	}
	if err := dropRestartRecreate(c, c.Rng.Fork()); err != nil {
		return err
	}
	if err := importDuringCommits(c, c.Rng.Fork()); err != nil {
		return err
	}
	if err := sweepInsideCommit(c, c.Rng.Fork()); err != nil {
		return err
	}
	if err := confirmedOnly(c, c.Rng.Fork()); err != nil {
		return err
	}
	if err := damagedForward(c, c.Rng.Fork()); err != nil {
		return err
	}
	for _, km := range [][2]int{{5, 3}, {2, 4}, {3, 3}} {
		if err := restoreOverOwnHistory(c, c.Rng.Fork(), km[0], km[1]); err != nil {
			return err
		}
	}
	cfr := c.Cases("cases_c09r", hist.CoqHeader, "list (N * N) * bool * N * list N", "mismatches_retention")
	for i := 0; i < c.Pick(1, 5); i++ {
		if err := replicaRetention(c, c.Rng.Fork(), cfr); err != nil {
			return err
		}
	}
	return nil
}
