package c09

import (
	"bytes"
	"io"
	"context"
	"fmt"
	"net"
	"net/http"
	"os"
	"path/filepath"
	"sort"
	"strings"
	"time"

	"github.com/superfly/litefs"
	lfshttp "github.com/superfly/litefs/http"
	"github.com/superfly/litefs/verif"
	"github.com/superfly/ltx"
	"golang.org/x/net/http2"
	"golang.org/x/net/http2/h2c"

	"lfsverif/internal/cluster"
	"lfsverif/internal/common"
	"lfsverif/internal/hist"
	"lfsverif/internal/lfs"
)

// checkStoredChain: the property's own predicate on a data directory - every kept file verifies, each continues
// the one before it (first id = last id + 1, pre-checksum = post-checksum), and the last one ends at the position.
func checkStoredChain(c *common.Ctx, dbDir string, txid, chk uint64, key, what string, rep map[string]any) bool {
	files, _ := lfs.ListLTX(dbDir)
	c.Evaluations++
	var names []string
	for _, f := range files {
		names = append(names, fmt.Sprintf("%d-%d", f.Min, f.Max))
	}
	rep["files"] = names
	for i, f := range files {
		if !f.Valid {
			c.Violate(key+":invalid-file", fmt.Sprintf("%s: %s fails its integrity check: %s", what, f.Name, f.Err), rep)
			return false
		}
		if i > 0 {
			p := files[i-1]
			if f.Min != p.Max+1 || f.Pre != p.Post {
				c.Violate(key+":gap", fmt.Sprintf("%s: %s does not continue %s (first id %d after last id %d, pre %016x after post %016x); kept files %v", what, f.Name, p.Name, f.Min, p.Max, f.Pre, p.Post, names), rep)
				return false
			}
		}
	}
	if len(files) == 0 {
		if txid != 0 {
			c.Violate(key+":empty-log", fmt.Sprintf("%s: position %d but no transaction files", what, txid), rep)
			return false
		}
		return true
	}
	if l := files[len(files)-1]; l.Max != txid || l.Post != chk {
		c.Violate(key+":end", fmt.Sprintf("%s: the chain ends at (%d,%016x), the position is (%d,%016x); kept files %v", what, l.Max, l.Post, txid, chk, names), rep)
		return false
	}
	return true
}

func commitN(h *hist.Runner, n int) error {
	for done, tries := 0, 0; done < n; tries++ {
		if tries > 400 {
			return fmt.Errorf("only %d of %d commits", done, n)
		}
		st := h.GenStep()
		if st.Op != "rtx" {
			continue
		}
		st.Outcome = 0
		ob := h.Exec(st)
		if ob.Err != "" || ob.Panic != "" {
			return fmt.Errorf("commit: %s%s", ob.Err, ob.Panic)
		}
		if ob.Captured {
			done++
		}
	}
	return nil
}

// restoreOverOwnHistory: a node with k transactions of its own syncs to a backup service that holds another
// history of m transactions: the service's snapshot replaces the node's whole chain - also when the node is ahead.
func restoreOverOwnHistory(c *common.Ctx, r *common.Rand, k, m int) error {
	dir, err := os.MkdirTemp(c.OutDir, "c09b-")
	if err != nil {
		return err
	}
	defer os.RemoveAll(dir)
	svc := filepath.Join(dir, "svc")
	withBackup := func(s *litefs.Store) {
		bc := litefs.NewFileBackupClient(svc)
		_ = bc.Open()
		s.BackupClient = bc
		s.BackupDelay = 0
	}
	a, err := lfs.Open(filepath.Join(dir, "a"), true, withBackup)
	if err != nil {
		return err
	}
	ha := hist.NewOn(c, r.Fork(), hist.Config{PageSize: 512}, a.Store, a.Exits, "db", nil, 0, false)
	if err := commitN(ha, m); err != nil {
		a.Close()
		return err
	}
	if err := a.Store.SyncBackup(context.Background()); err != nil {
		a.Close()
		return fmt.Errorf("first sync: %w", err)
	}
	ap := a.Store.DB("db").Pos()
	a.Close()
	b, err := lfs.Open(filepath.Join(dir, "b"), true, withBackup)
	if err != nil {
		return err
	}
	defer b.Close()
	hb := hist.NewOn(c, r.Fork(), hist.Config{PageSize: 512}, b.Store, b.Exits, "db", nil, 0, false)
	if err := commitN(hb, k); err != nil {
		return err
	}
	rep := map[string]any{"kind": "restore-over-own-history", "own": k, "service": m}
	var syncErr error
	for i := 0; i < 3; i++ { // the first call discovers the mismatch and restores; later calls have nothing to do
		syncErr = b.Store.SyncBackup(context.Background())
	}
	rep["sync_error"] = fmt.Sprint(syncErr)
	bp := b.Store.DB("db").Pos()
	c.Distinct(fmt.Sprintf("restore-over-own-history:%d:%d", k, m))
	if bp != ap {
		c.Count("restore_not_adopted", 1) // C14's subject; the chain must be sound whatever the position
	}
	checkStoredChain(c, filepath.Join(b.Dir, "dbs", "db"), uint64(bp.TXID), uint64(bp.PostApplyChecksum), "C09:restore", fmt.Sprintf("after a node with %d transactions of its own synced to a backup service holding %d others", k, m), rep)
	if ex := b.Exits(); len(ex) > 0 {
		c.Violate("C09:restore:exit", fmt.Sprintf("the node called Exit(%v)", ex), rep)
	}
	return nil
}

func buildLTX(ps uint32, commit uint32, min, max uint64, pre, post uint64, pages map[uint32][]byte) []byte {
	var buf bytes.Buffer
	enc := ltx.NewEncoder(&buf)
	_ = enc.EncodeHeader(ltx.Header{Version: 1, PageSize: ps, Commit: commit, MinTXID: ltx.TXID(min), MaxTXID: ltx.TXID(max),
		Timestamp: time.Now().UnixMilli(), PreApplyChecksum: ltx.Checksum(pre), NodeID: 0x4242})
	var pgs []int
	for pg := range pages {
		pgs = append(pgs, int(pg))
	}
	sort.Ints(pgs)
	for _, pg := range pgs {
		_ = enc.EncodePage(ltx.PageHeader{Pgno: uint32(pg)}, pages[uint32(pg)])
	}
	enc.SetPostApplyChecksum(ltx.Checksum(post))
	_ = enc.Close()
	return buf.Bytes()
}

// streamedFrames: a replica that follows a primary receives, from the node it then connects to, a file that
// continues its chain and then one for the next transaction id that belongs to another history (its pre-checksum
// is not the checksum the replica is at). The first is stored, the second is not.
func streamedFrames(c *common.Ctx, r *common.Rand) error {
	dir, err := os.MkdirTemp(c.OutDir, "c09s-")
	if err != nil {
		return err
	}
	defer os.RemoveAll(dir)
	clu := cluster.New(dir, 2*time.Second)
	p, err := clu.Start("p", true)
	if err != nil {
		return err
	}
	if clu.WaitPrimary(5*time.Second) == nil {
		clu.Close()
		return fmt.Errorf("no primary")
	}
	rn, err := clu.Start("r", false)
	if err != nil {
		clu.Close()
		return err
	}
	ps := 512
	hp := hist.NewOn(c, r.Fork(), hist.Config{PageSize: ps}, p.Store, p.Exits, "db", nil, 0, false)
	if err := commitN(hp, 3); err != nil {
		clu.Close()
		return err
	}
	pp := p.Store.DB("db").Pos()
	if !cluster.WaitPos(rn, "db", uint64(pp.TXID), uint64(pp.PostApplyChecksum), 10*time.Second) {
		clu.Close()
		return fmt.Errorf("replica did not catch up")
	}
	clusterID := p.Store.ClusterID()
	img := hp.Ref.Clone()
	clu.Close()

	tgt := uint32(len(img.Pages))
	pg1 := lfs.MakePage(ps, tgt, 616161, uint32(len(img.Pages)), false)
	img1 := img.Clone()
	img1.Pages[tgt-1] = pg1
	good := buildLTX(uint32(ps), uint32(len(img.Pages)), uint64(pp.TXID)+1, uint64(pp.TXID)+1, uint64(pp.PostApplyChecksum), img1.Checksum(), map[uint32][]byte{tgt: pg1})
	pg2 := lfs.MakePage(ps, tgt, 717171, uint32(len(img.Pages)), false)
	img2 := img1.Clone()
	img2.Pages[tgt-1] = pg2
	foreign := buildLTX(uint32(ps), uint32(len(img.Pages)), uint64(pp.TXID)+2, uint64(pp.TXID)+2, img1.Checksum()^0x1234, img2.Checksum(), map[uint32][]byte{tgt: pg2})

	served := make(chan struct{}, 4)
	ln, err := net.Listen("tcp", "localhost:0")
	if err != nil {
		return err
	}
	srv := &http.Server{Handler: h2c.NewHandler(http.HandlerFunc(func(w http.ResponseWriter, req *http.Request) {
		if req.URL.Path != "/stream" {
			http.NotFound(w, req)
			return
		}
		_, _ = lfshttp.ReadPosMapFrom(req.Body)
		w.Header().Set("Litefs-Cluster-Id", clusterID)
		w.Header().Set("Litefs-Id", "0000000000001092")
		w.WriteHeader(200)
		w.(http.Flusher).Flush()
		for _, body := range [][]byte{good, foreign} {
			_ = litefs.WriteStreamFrame(w, &litefs.LTXStreamFrame{Name: "db"})
			cw := verif.NewChunkWriter(w)
			_, _ = cw.Write(body)
			_ = cw.Close()
			w.(http.Flusher).Flush()
		}
		_ = litefs.WriteStreamFrame(w, &litefs.ReadyStreamFrame{})
		w.(http.Flusher).Flush()
		served <- struct{}{}
		select {
		case <-req.Context().Done():
		case <-time.After(300 * time.Millisecond):
		}
	}), &http2.Server{})}
	go func() { _ = srv.Serve(ln) }()
	defer srv.Close()

	rdir := filepath.Join(dir, "r")
	var exits []int
	s := litefs.NewStore(rdir, false)
	s.Exit = func(code int) { exits = append(exits, code) }
	s.Client = lfshttp.NewClient()
	s.ReconnectDelay = time.Hour
	s.RetentionMonitorInterval = 0
	s.Leaser = litefs.NewStaticLeaser(false, "fake", "http://"+ln.Addr().String())
	if err := s.Open(); err != nil {
		return nil
	}
	select {
	case <-served:
	case <-time.After(5 * time.Second):
	}
	time.Sleep(150 * time.Millisecond)
	np := s.DB("db").Pos()
	_ = s.Close()
	rep := map[string]any{"kind": "streamed-frames"}
	c.Distinct("streamed-frames")
	what := "after a file that continues the replica's chain and one of another history for the next transaction id were streamed to it"
	if uint64(np.TXID) != uint64(pp.TXID)+1 || uint64(np.PostApplyChecksum) != img1.Checksum() {
		c.Violate("C09:stream:position", fmt.Sprintf("%s the replica is at %s; only the first file, to (%d,%016x), continues its chain", what, np.String(), uint64(pp.TXID)+1, img1.Checksum()), rep)
	}
	checkStoredChain(c, filepath.Join(rdir, "dbs", "db"), uint64(np.TXID), uint64(np.PostApplyChecksum), "C09:stream", what, rep)
	return nil
}

// lagAck: a backup client whose service confirms less than it has accepted (the interface allows the returned
// high-water mark to trail what was written).
type lagAck struct {
	*litefs.FileBackupClient
	lag ltx.TXID
}

func (l *lagAck) WriteTx(ctx context.Context, name string, r io.Reader) (ltx.TXID, error) {
	hwm, err := l.FileBackupClient.WriteTx(ctx, name, r)
	if err == nil && hwm > l.lag {
		hwm -= l.lag
	}
	return hwm, err
}

// confirmedOnly: retention with a backup service never removes a file the service has not confirmed, also when
// the service has accepted more than it confirms.
func confirmedOnly(c *common.Ctx, r *common.Rand) error {
	dir, err := os.MkdirTemp(c.OutDir, "c09k-")
	if err != nil {
		return err
	}
	defer os.RemoveAll(dir)
	svc := filepath.Join(dir, "svc")
	const lag = 2
	n, err := lfs.Open(filepath.Join(dir, "p"), true, func(s *litefs.Store) {
		bc := litefs.NewFileBackupClient(svc)
		_ = bc.Open()
		s.BackupClient = &lagAck{bc, lag}
		s.BackupDelay = 0
	})
	if err != nil {
		return err
	}
	defer n.Close()
	h := hist.NewOn(c, r.Fork(), hist.Config{PageSize: 512}, n.Store, n.Exits, "db", nil, 0, false)
	if err := commitN(h, 2); err != nil {
		return err
	}
	if err := n.Store.SyncBackup(context.Background()); err != nil {
		return fmt.Errorf("first sync: %w", err)
	}
	if err := commitN(h, 4); err != nil {
		return err
	}
	if err := n.Store.SyncBackup(context.Background()); err != nil {
		return fmt.Errorf("second sync: %w", err)
	}
	db := n.Store.DB("db")
	pos := db.Pos()
	confirmed := uint64(pos.TXID) - lag
	rep := map[string]any{"kind": "confirmed-only", "position": uint64(pos.TXID), "confirmed": confirmed, "hwm": uint64(db.HWM())}
	c.Evaluations++
	c.Distinct("confirmed-only")
	if uint64(db.HWM()) > confirmed {
		c.Violate("C09:confirmed-only:hwm", fmt.Sprintf("the backup service confirmed transactions up to %d; the node's high-water mark is %d", confirmed, uint64(db.HWM())), rep)
	}
	before, _ := lfs.ListLTX(filepath.Join(n.Dir, "dbs", "db"))
	if err := db.EnforceRetention(context.Background(), time.Now().Add(time.Hour)); err != nil {
		c.Violate("C09:confirmed-only:error", "retention sweep failed: "+err.Error(), rep)
	}
	after, _ := lfs.ListLTX(filepath.Join(n.Dir, "dbs", "db"))
	left := map[uint64]bool{}
	for _, f := range after {
		left[f.Max] = true
	}
	for _, f := range before {
		if !left[f.Max] && f.Max >= confirmed {
			c.Violate("C09:confirmed-only:removed", fmt.Sprintf("the sweep removed %s although the backup service has only confirmed transactions before %d", f.Name, confirmed), rep)
			break
		}
	}
	checkStoredChain(c, filepath.Join(n.Dir, "dbs", "db"), uint64(pos.TXID), uint64(pos.PostApplyChecksum), "C09:confirmed-only", "after the sweep", rep)
	return nil
}

// damagedForward: a forwarded transaction (POST /tx from the halt-lock holder) whose header continues the chain and
// whose body is damaged is not kept: every file in the log passes its own integrity check.
func damagedForward(c *common.Ctx, r *common.Rand) error {
	dir, err := os.MkdirTemp(c.OutDir, "c09d-")
	if err != nil {
		return err
	}
	defer os.RemoveAll(dir)
	clu := cluster.New(dir, 2*time.Second)
	defer clu.Close()
	p, err := clu.Start("p", true)
	if err != nil {
		return err
	}
	if clu.WaitPrimary(5*time.Second) == nil {
		return fmt.Errorf("no primary")
	}
	ps := 512
	hp := hist.NewOn(c, r.Fork(), hist.Config{PageSize: ps}, p.Store, p.Exits, "db", nil, 0, false)
	if err := commitN(hp, 3); err != nil {
		return err
	}
	db := p.Store.DB("db")
	if _, err := db.AcquireHaltLock(context.Background(), 71); err != nil {
		return fmt.Errorf("halt lock: %v", err)
	}
	defer db.ReleaseHaltLock(context.Background(), 71)
	pp := db.Pos()
	img := hp.Ref.Clone()
	tgt := uint32(len(img.Pages))
	pg := lfs.MakePage(ps, tgt, 929292, tgt, false)
	next := img.Clone()
	next.Pages[tgt-1] = pg
	for _, where := range []string{"page data", "trailer"} {
		body := buildLTX(uint32(ps), tgt, uint64(pp.TXID)+1, uint64(pp.TXID)+1, uint64(pp.PostApplyChecksum), next.Checksum(), map[uint32][]byte{tgt: pg})
		if where == "page data" {
			body[ltx.HeaderSize+30] ^= 0x10
		} else {
			body[len(body)-3] ^= 0x10
		}
		req, _ := http.NewRequest("POST", p.Server.URL()+"/tx?name=db&lockID=71", bytes.NewReader(body))
		req.Header.Set("Litefs-Id", "0000000000000044")
		resp, err := http.DefaultClient.Do(req)
		code := 0
		if err == nil {
			code = resp.StatusCode
			_, _ = io.Copy(io.Discard, resp.Body)
			resp.Body.Close()
		}
		np := db.Pos()
		rep := map[string]any{"kind": "damaged-forward", "where": where, "status": code}
		c.Distinct("damaged-forward:" + where)
		if !checkStoredChain(c, filepath.Join(p.Dir, "dbs", "db"), uint64(np.TXID), uint64(np.PostApplyChecksum), "C09:damaged-forward", fmt.Sprintf("after a forwarded transaction with damaged %s was posted (status %d)", where, code), rep) {
			return nil
		}
		if ex := p.Exits(); len(ex) > 0 {
			c.Violate("C09:damaged-forward:exit", fmt.Sprintf("the primary called Exit(%v)", ex), rep)
			return nil
		}
	}
	return nil
}

// dropRestartRecreate: a database is dropped, the node restarts before the name is used again, then the database is
// created again: the log is one chain ending at the position after every step.
func dropRestartRecreate(c *common.Ctx, r *common.Rand) error {
	h, err := hist.New(c, r.Fork(), hist.Config{PageSize: 512, AllowDrop: true})
	if err != nil {
		if h != nil {
			h.Close()
		}
		return err
	}
	defer h.Close()
	for _, st := range []hist.Step{
		{Op: "rtx", Writes: map[uint32]uint64{1: 1, 2: 2}, NewSize: 2},
		{Op: "rtx", Writes: map[uint32]uint64{2: 12}, NewSize: 2},
		{Op: "drop"},
		{Op: "reopen"},
		{Op: "rtx", Writes: map[uint32]uint64{1: 21, 2: 22, 3: 23}, NewSize: 3},
		{Op: "rtx", Writes: map[uint32]uint64{3: 33}, NewSize: 3},
		{Op: "reopen"},
		{Op: "drop"},
		{Op: "reopen"},
		{Op: "reopen"},
		{Op: "rtx", Writes: map[uint32]uint64{1: 41}, NewSize: 1},
	} {
		if ob := h.Exec(st); ob.Panic != "" || len(ob.Exits) > 0 {
			break
		}
	}
	h.CheckCrash(c, "C09")
	h.CheckChain(c)
	c.Distinct("drop-restart-recreate")
	return nil
}

// sweepInsideCommit: the retention sweep (its own goroutine, no database lock) runs at the one moment a commit has
// renamed its file into the log and not yet moved the position. The newest file stays.
func sweepInsideCommit(c *common.Ctx, r *common.Rand) error {
	dir, err := os.MkdirTemp(c.OutDir, "c09w-")
	if err != nil {
		return err
	}
	defer os.RemoveAll(dir)
	ros := &lfs.RecOS{}
	n, err := lfs.Open(dir, true, func(s *litefs.Store) { s.OS = ros })
	if err != nil {
		return err
	}
	defer n.Close()
	h := hist.NewOn(c, r.Fork(), hist.Config{PageSize: 512}, n.Store, n.Exits, "db", nil, 0, false)
	if err := commitN(h, 3); err != nil {
		return err
	}
	db := n.Store.DB("db")
	swept := 0
	ros.After = func(call lfs.OSCall) {
		if call.Op == "COMMITJOURNAL:LTX" && swept == 0 {
			swept++
			_ = db.EnforceRetention(context.Background(), time.Now().Add(time.Hour)) // every file counts as old
		}
	}
	if err := commitN(h, 1); err != nil {
		return err
	}
	ros.After = nil
	pos := db.Pos()
	rep := map[string]any{"kind": "sweep-inside-commit", "sweeps": swept}
	c.Distinct("sweep-inside-commit")
	if !checkStoredChain(c, filepath.Join(n.Dir, "dbs", "db"), uint64(pos.TXID), uint64(pos.PostApplyChecksum), "C09:sweep-inside-commit", "after a retention sweep that ran between a commit's rename and its position update", rep) {
		return nil
	}
	if err := commitN(h, 1); err != nil {
		return err
	}
	pos = db.Pos()
	checkStoredChain(c, filepath.Join(n.Dir, "dbs", "db"), uint64(pos.TXID), uint64(pos.PostApplyChecksum), "C09:sweep-inside-commit", "one commit later", rep)
	return nil
}

// importDuringCommits: an import and an application connection at the same time. The import writes its transaction file
// and replaces the database under the write lock, so a connection cannot commit in between; whatever order they end up
// in, the log is one chain that ends at the position.
func importDuringCommits(c *common.Ctx, r *common.Rand) error {
	dir, err := os.MkdirTemp(c.OutDir, "c09i-")
	if err != nil {
		return err
	}
	defer os.RemoveAll(dir)
	ros := &lfs.RecOS{}
	n, err := lfs.Open(dir, true, func(s *litefs.Store) { s.OS = ros })
	if err != nil {
		return err
	}
	defer n.Close()
	h := hist.NewOn(c, r.Fork(), hist.Config{PageSize: 512}, n.Store, n.Exits, "db", nil, 0, false)
	if err := commitN(h, 2); err != nil {
		return err
	}
	db := n.Store.DB("db")
	slipped := 0
	hooked := false
	ros.After = func(call lfs.OSCall) {
		if call.Op != "IMPORTTOLTX" || hooked {
			return
		}
		hooked = true
		// the import has just renamed its file into the log: a connection tries to commit twice, back to back
		old := lfs.BusyTimeout
		lfs.BusyTimeout = 30 * time.Millisecond
		defer func() { lfs.BusyTimeout = old }()
		im, _ := lfs.ReadImage(filepath.Join(n.Dir, "dbs", "db"))
		h2 := hist.NewOn(c, r.Fork(), hist.Config{PageSize: 512}, n.Store, n.Exits, "db", im, uint64(db.Pos().TXID), false)
		for i := 0; i < 2; i++ {
			for tries := 0; tries < 100; tries++ {
				st := h2.GenStep()
				if st.Op != "rtx" {
					continue
				}
				st.Outcome, st.ToWAL, st.Spill = 0, false, 0
				if ob := h2.Exec(st); ob.Captured && ob.Err == "" && ob.Panic == "" {
					slipped++
				}
				break
			}
		}
	}
	im := &lfs.Image{PageSize: 512}
	var body bytes.Buffer
	for pg := uint32(1); pg <= 4; pg++ {
		p := lfs.MakePage(512, pg, 600+uint64(pg), 4, false)
		im.Pages = append(im.Pages, p)
		body.Write(p)
	}
	ierr := db.Import(context.Background(), &body)
	ros.After = nil
	pos := db.Pos()
	rep := map[string]any{"kind": "import-during-commits", "import_error": fmt.Sprint(ierr), "commits_inside_the_import": slipped}
	c.Distinct("import-during-commits")
	if ex := n.Exits(); len(ex) > 0 {
		c.Evaluations++
		c.Violate("C09:import-during-commits:exit", fmt.Sprintf("the node called Exit(%v)", ex), rep)
		return nil
	}
	if !checkStoredChain(c, filepath.Join(n.Dir, "dbs", "db"), uint64(pos.TXID), uint64(pos.PostApplyChecksum), "C09:import-during-commits", fmt.Sprintf("after an import with a connection trying to commit between the import's rename and the end of the import (%d of its commits went through)", slipped), rep) {
		return nil
	}
	// and the image is the one the position names
	if got, err := lfs.ReadImage(filepath.Join(n.Dir, "dbs", "db")); err == nil && len(got.Pages) > 0 && got.Checksum() != uint64(pos.PostApplyChecksum) {
		c.Evaluations++
		c.Violate("C09:import-during-commits:image", fmt.Sprintf("position %s, database checksums to %016x", pos, got.Checksum()), rep)
	}
	return nil
}

// unusableSnapshot: a replica that holds a chain of files is sent a snapshot (a file that starts at transaction 1 and
// replaces the whole chain) whose body is cut off half-way, or arrives damaged. Nothing of it is used: the log is what it
// was - every file still there - and ends at the database's position.
func unusableSnapshot(c *common.Ctx, r *common.Rand, mode string) error {
	dir, err := os.MkdirTemp(c.OutDir, "c09u-")
	if err != nil {
		return err
	}
	defer os.RemoveAll(dir)
	clu := cluster.New(dir, 2*time.Second)
	p, err := clu.Start("p", true)
	if err != nil {
		return err
	}
	if clu.WaitPrimary(5*time.Second) == nil {
		clu.Close()
		return fmt.Errorf("no primary")
	}
	rn, err := clu.Start("r", false)
	if err != nil {
		clu.Close()
		return err
	}
	ps := 512
	hp := hist.NewOn(c, r.Fork(), hist.Config{PageSize: ps}, p.Store, p.Exits, "db", nil, 0, false)
	if err := commitN(hp, 3); err != nil {
		clu.Close()
		return err
	}
	pp := p.Store.DB("db").Pos()
	if !cluster.WaitPos(rn, "db", uint64(pp.TXID), uint64(pp.PostApplyChecksum), 10*time.Second) {
		clu.Close()
		return fmt.Errorf("replica did not catch up")
	}
	clusterID := p.Store.ClusterID()
	clu.Close()
	rdir := filepath.Join(dir, "r")
	list := func() string {
		ents, _ := os.ReadDir(filepath.Join(rdir, "dbs", "db", "ltx"))
		var a []string
		for _, e := range ents {
			if strings.HasSuffix(e.Name(), ".ltx") {
				a = append(a, e.Name())
			}
		}
		return strings.Join(a, ",")
	}
	before := list()

	// another history's snapshot: 6 pages at transaction 5
	other := &lfs.Image{PageSize: ps}
	pages := map[uint32][]byte{}
	for pg := uint32(1); pg <= 6; pg++ {
		d := lfs.MakePage(ps, pg, 880000+uint64(pg), 6, false)
		other.Pages = append(other.Pages, d)
		pages[pg] = d
	}
	snap := buildLTX(uint32(ps), 6, 1, 5, 0, other.Checksum(), pages)
	if mode == "damaged" {
		snap[len(snap)/2] ^= 0x40
	}
	served := make(chan struct{}, 4)
	ln, err := net.Listen("tcp", "localhost:0")
	if err != nil {
		return err
	}
	srv := &http.Server{Handler: h2c.NewHandler(http.HandlerFunc(func(w http.ResponseWriter, req *http.Request) {
		if req.URL.Path != "/stream" {
			http.NotFound(w, req)
			return
		}
		_, _ = lfshttp.ReadPosMapFrom(req.Body)
		w.Header().Set("Litefs-Cluster-Id", clusterID)
		w.Header().Set("Litefs-Id", "0000000000001093")
		w.WriteHeader(200)
		w.(http.Flusher).Flush()
		_ = litefs.WriteStreamFrame(w, &litefs.LTXStreamFrame{Name: "db"})
		cw := verif.NewChunkWriter(w)
		if mode == "cut" {
			_, _ = cw.Write(snap[:len(snap)*2/3])
			w.(http.Flusher).Flush()
			served <- struct{}{}
			return // the connection ends inside the body
		}
		_, _ = cw.Write(snap)
		_ = cw.Close()
		w.(http.Flusher).Flush()
		served <- struct{}{}
		select {
		case <-req.Context().Done():
		case <-time.After(300 * time.Millisecond):
		}
	}), &http2.Server{})}
	go func() { _ = srv.Serve(ln) }()
	defer srv.Close()

	var exits []int
	s := litefs.NewStore(rdir, false)
	s.Exit = func(code int) { exits = append(exits, code) }
	s.Client = lfshttp.NewClient()
	s.ReconnectDelay = time.Hour
	s.RetentionMonitorInterval = 0
	s.Leaser = litefs.NewStaticLeaser(false, "fake", "http://"+ln.Addr().String())
	if err := s.Open(); err != nil {
		return nil
	}
	select {
	case <-served:
	case <-time.After(5 * time.Second):
	}
	time.Sleep(200 * time.Millisecond)
	np := s.DB("db").Pos()
	_ = s.Close()
	c.Evaluations++
	c.Distinct("unusable-snapshot:" + mode)
	rep := map[string]any{"kind": "unusable-snapshot", "mode": mode}
	what := "after a snapshot whose body was " + mode + " was streamed to a replica that holds a chain of three files"
	if np != pp {
		c.Violate("C09:unusable-snapshot:position:"+mode, fmt.Sprintf("%s the replica is at %s (was at %s)", what, np, pp), rep)
		return nil
	}
	if len(exits) > 0 {
		c.Count("unusable_snapshot_exit", 1)
	}
	if after := list(); after != before {
		c.Violate("C09:unusable-snapshot:log:"+mode, fmt.Sprintf("%s its log went from [%s] to [%s] while the database stays at %s", what, before, after, np), rep)
		return nil
	}
	checkStoredChain(c, filepath.Join(rdir, "dbs", "db"), uint64(np.TXID), uint64(np.PostApplyChecksum), "C09:unusable-snapshot:"+mode, what, rep)
	return nil
}
