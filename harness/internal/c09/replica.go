package c09

import (
	"context"
	"fmt"
	"os"
	"path/filepath"
	"strings"
	"time"

	"github.com/superfly/litefs"
	"github.com/superfly/ltx"

	"lfsverif/internal/cluster"
	"lfsverif/internal/common"
	"lfsverif/internal/hist"
	"lfsverif/internal/lfs"
)

// replicaRetention: a replica that joined late holds a multi-transaction snapshot file followed by
// single-transaction files; retention sweeps with a backup client configured and every high-water mark.
func replicaRetention(c *common.Ctx, r *common.Rand, cf *common.CaseFile) error {
	dir, err := os.MkdirTemp(c.OutDir, "c09r-")
	if err != nil {
		return err
	}
	defer os.RemoveAll(dir)
	clu := cluster.New(dir, 2*time.Second)
	defer clu.Close()
	p, err := clu.Start("p", true)
	if err != nil {
		return err
	}
	if clu.WaitPrimary(5*time.Second) == nil {
		return fmt.Errorf("no primary")
	}
	h := hist.NewOn(c, r.Fork(), hist.Config{PageSize: 512}, p.Store, p.Exits, "db", nil, 0, false)
	commit := func(n int) error {
		for done, tries := 0, 0; done < n && tries < 400; tries++ {
			st := h.GenStep()
			if st.Op != "rtx" {
				continue
			}
			st.Outcome = 0
			ob := h.Exec(st)
			if ob.Err != "" || ob.Panic != "" {
				return fmt.Errorf("commit: %s%s", ob.Err, ob.Panic)
			}
			if ob.Captured {
				done++
			}
		}
		return nil
	}
	n1, n2 := 3+r.Intn(4), 2+r.Intn(4)
	if err := commit(n1); err != nil {
		return err
	}
	backupDir := filepath.Join(dir, "backup")
	clu.Opts = func(name string, s *litefs.Store) {
		if name == "r" {
			bc := litefs.NewFileBackupClient(backupDir)
			_ = bc.Open()
			s.BackupClient = bc
			s.BackupDelay = 0
		}
	}
	rn, err := clu.Start("r", false)
	if err != nil {
		return err
	}
	pp := p.Store.DB("db").Pos()
	if !cluster.WaitPos(rn, "db", uint64(pp.TXID), uint64(pp.PostApplyChecksum), 10*time.Second) {
		return fmt.Errorf("replica did not catch up")
	}
	if err := commit(n2); err != nil {
		return err
	}
	pp = p.Store.DB("db").Pos()
	if !cluster.WaitPos(rn, "db", uint64(pp.TXID), uint64(pp.PostApplyChecksum), 10*time.Second) {
		return fmt.Errorf("replica did not catch up (2)")
	}
	rdb := rn.Store.DB("db")
	ltxDir := rdb.LTXDir()
	keep := filepath.Join(dir, "ltx-keep")
	if err := os.MkdirAll(keep, 0o755); err != nil {
		return err
	}
	ents, _ := os.ReadDir(ltxDir)
	for _, e := range ents {
		b, _ := os.ReadFile(filepath.Join(ltxDir, e.Name()))
		_ = os.WriteFile(filepath.Join(keep, e.Name()), b, 0o644)
	}
	restore := func() {
		ents, _ := os.ReadDir(keep)
		for _, e := range ents {
			b, _ := os.ReadFile(filepath.Join(keep, e.Name()))
			_ = os.WriteFile(filepath.Join(ltxDir, e.Name()), b, 0o644)
		}
	}
	total := uint64(pp.TXID)
	for hwm := uint64(0); hwm <= total+1; hwm++ {
		restore()
		infos, _ := lfs.ListLTX(filepath.Dir(ltxDir))
		var files []string
		multi := false
		for _, f := range infos {
			files = append(files, fmt.Sprintf("(%d,%d)", f.Min, f.Max))
			multi = multi || f.Min != f.Max
		}
		rdb.SetHWM(ltxTXID(hwm))
		err := rdb.EnforceRetention(context.Background(), time.Now().Add(time.Hour))
		after, _ := lfs.ListLTX(filepath.Dir(ltxDir))
		c.Evaluations++
		c.Distinct(fmt.Sprintf("replica-retention:hwm=%d:multi=%v", hwm, multi))
		rep := map[string]any{"kind": "replica-retention", "files": files, "hwm": hwm}
		left := map[uint64]bool{}
		var obs []uint64
		for _, f := range after {
			left[f.Max] = true
			obs = append(obs, f.Max)
		}
		if err != nil {
			c.Violate("C09:replica-retention:error", "retention sweep failed: "+err.Error(), rep)
		}
		for i, f := range infos {
			if left[f.Max] {
				continue
			}
			if i == len(infos)-1 {
				c.Violate("C09:replica-retention:newest", fmt.Sprintf("the sweep removed the newest file %s", f.Name), rep)
			}
			if f.Max >= hwm {
				c.Violate("C09:replica-retention:unconfirmed", fmt.Sprintf("with a backup client configured and high-water mark %d the sweep removed %s, which holds transactions the backup service has not confirmed", hwm, f.Name), rep)
			}
		}
		cf.Add(fmt.Sprintf("([%s], true, %d, %s)", strings.Join(files, ";"), hwm, common.CoqNList(obs)), rep)
	}
	restore()
	return nil
}

type ltxT = ltx.TXID

func ltxTXID(v uint64) ltxT { return ltxT(v) }
