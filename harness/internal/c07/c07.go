// Package c07: a node without write authority cannot change a replicated database.
// The real FUSE node and handle methods of a replica are called in-process (no kernel mount),
// at every pager-protocol lock state, in both journal modes; a primary is demoted in the middle
// of a local transaction.
package c07

import (
	"bytes"
	"context"
	"crypto/sha256"
	"encoding/binary"
	"errors"
	"fmt"
	"io"
	"net/http"
	"os"
	"path/filepath"
	"strings"
	"syscall"
	"time"

	"bazil.org/fuse"
	"bazil.org/fuse/fs"
	"github.com/superfly/litefs"
	lfsfuse "github.com/superfly/litefs/fuse"

	"lfsverif/internal/cluster"
	"lfsverif/internal/common"
	"lfsverif/internal/hist"
	"lfsverif/internal/lfs"
)

var ctx = context.Background()

func errnoOf(err error) int {
	if err == nil {
		return 0
	}
	var en fuse.ErrorNumber
	if errors.As(err, &en) {
		return int(en.Errno())
	}
	var se syscall.Errno
	if errors.As(err, &se) {
		return int(se)
	}
	return int(syscall.EIO) // what bazil answers for an error without a number
}

func acode(errno int) int {
	switch errno {
	case 0:
		return 0
	case int(syscall.EACCES):
		return 13
	}
	return 5
}

type dbState struct {
	txid, chk uint64
	pageN     uint32
	hash      string
	ltx       string
}

func snapshot(n *cluster.Node, name string) dbState {
	var s dbState
	db := n.Store.DB(name)
	if db == nil {
		return s
	}
	p := db.Pos()
	s.txid, s.chk, s.pageN = uint64(p.TXID), uint64(p.PostApplyChecksum), db.PageN()
	if im, err := lfs.ReadImage(filepath.Dir(db.DatabasePath())); err == nil {
		h := sha256.New()
		for _, pg := range im.Pages {
			h.Write(pg)
		}
		s.hash = fmt.Sprintf("%d:%x", len(im.Pages), h.Sum(nil))[:24]
	}
	ents, _ := os.ReadDir(db.LTXDir())
	var names []string
	for _, e := range ents {
		if !strings.HasSuffix(e.Name(), ".tmp") {
			names = append(names, e.Name())
		}
	}
	s.ltx = strings.Join(names, ",")
	return s
}

func ltxTerm(f lfs.LTXInfo) string {
	s := fmt.Sprintf("(mkLtx %d %d %d %d %d [", f.Min, f.Max, f.Pre, f.Post, f.Commit)
	for i, pg := range f.Pgnos {
		if i > 0 {
			s += ";"
		}
		s += fmt.Sprintf("(%d, %s)", pg, lfs.PgTerm(pg, f.Pages[pg]))
	}
	return s + "])"
}

// mount is the in-process FUSE front of one node.
type mount struct {
	root *lfsfuse.RootNode
}

func newMount(dir string, s *litefs.Store) *mount {
	return &mount{root: lfsfuse.VerifNewUnmounted(dir, s).VerifRoot()}
}

func (m *mount) lookup(name string) (fs.Node, error) { return m.root.Lookup(ctx, name) }

type handlerOp struct {
	Handler string `json:"handler"` // the model's handler constructor
	DB      string `json:"db"`
	Arg     int64  `json:"arg,omitempty"`
	Locks   string `json:"locks"` // pager-protocol state of the issuing connection: none shared reserved exclusive walwrite
}

// exec calls the FUSE handler of op h on mount m as lock owner [owner] and returns the errno.
func (m *mount) exec(h handlerOp, owner uint64, ps int, data []byte) (errno int, modelOp string) {
	name := h.DB
	switch h.Handler {
	case "HCreateDB":
		_, hd, err := m.root.Create(ctx, &fuse.CreateRequest{Name: name, Flags: fuse.OpenReadWrite | fuse.OpenCreate, Mode: 0o644}, &fuse.CreateResponse{})
		if hd != nil {
			_ = hd.(fs.HandleReleaser).Release(ctx, &fuse.ReleaseRequest{})
		}
		return errnoOf(err), ""
	case "HWriteDB":
		nd, err := m.lookup(name)
		if err != nil {
			return errnoOf(err), ""
		}
		hd, err := nd.(fs.NodeOpener).Open(ctx, &fuse.OpenRequest{Flags: fuse.OpenReadWrite}, &fuse.OpenResponse{})
		if err != nil {
			return errnoOf(err), ""
		}
		defer hd.(fs.HandleReleaser).Release(ctx, &fuse.ReleaseRequest{})
		pg := uint32(h.Arg)
		err = hd.(fs.HandleWriter).Write(ctx, &fuse.WriteRequest{Data: data, Offset: int64(pg-1) * int64(ps), LockOwner: fuse.LockOwner(owner)}, &fuse.WriteResponse{})
		return errnoOf(err), fmt.Sprintf("OWrite %d %s", pg, lfs.PgTerm(pg, data))
	case "HTruncateDB":
		nd, err := m.lookup(name)
		if err != nil {
			return errnoOf(err), ""
		}
		err = nd.(fs.NodeSetattrer).Setattr(ctx, &fuse.SetattrRequest{Valid: fuse.SetattrSize, Size: uint64(h.Arg) * uint64(ps)}, &fuse.SetattrResponse{})
		return errnoOf(err), fmt.Sprintf("OTruncate %d", h.Arg)
	case "HRemoveDB":
		err := m.root.Remove(ctx, &fuse.RemoveRequest{Name: name})
		return errnoOf(err), "ODrop"
	case "HCreateJournal":
		_, hd, err := m.root.Create(ctx, &fuse.CreateRequest{Name: name + "-journal", Flags: fuse.OpenReadWrite | fuse.OpenCreate, Mode: 0o644}, &fuse.CreateResponse{})
		if hd != nil {
			_ = hd.(fs.HandleReleaser).Release(ctx, &fuse.ReleaseRequest{})
		}
		return errnoOf(err), ""
	case "HWriteJournal":
		nd, err := m.lookup(name + "-journal")
		if err != nil {
			return errnoOf(err), ""
		}
		hd, err := nd.(fs.NodeOpener).Open(ctx, &fuse.OpenRequest{Flags: fuse.OpenReadWrite}, &fuse.OpenResponse{})
		if err != nil {
			return errnoOf(err), ""
		}
		defer hd.(fs.HandleReleaser).Release(ctx, &fuse.ReleaseRequest{})
		err = hd.(fs.HandleWriter).Write(ctx, &fuse.WriteRequest{Data: data, Offset: h.Arg, LockOwner: fuse.LockOwner(owner)}, &fuse.WriteResponse{})
		return errnoOf(err), ""
	case "HTruncateJournal":
		nd, err := m.lookup(name + "-journal")
		if err != nil {
			return errnoOf(err), ""
		}
		err = nd.(fs.NodeSetattrer).Setattr(ctx, &fuse.SetattrRequest{Valid: fuse.SetattrSize, Size: 0}, &fuse.SetattrResponse{})
		return errnoOf(err), "OCommitJournal"
	case "HRemoveJournal":
		err := m.root.Remove(ctx, &fuse.RemoveRequest{Name: name + "-journal"})
		return errnoOf(err), "OCommitJournal"
	case "HCreateWAL":
		_, hd, err := m.root.Create(ctx, &fuse.CreateRequest{Name: name + "-wal", Flags: fuse.OpenReadWrite | fuse.OpenCreate, Mode: 0o644}, &fuse.CreateResponse{})
		if hd != nil {
			_ = hd.(fs.HandleReleaser).Release(ctx, &fuse.ReleaseRequest{})
		}
		return errnoOf(err), ""
	case "HWriteWAL":
		nd, err := m.lookup(name + "-wal")
		if err != nil {
			return errnoOf(err), ""
		}
		hd, err := nd.(fs.NodeOpener).Open(ctx, &fuse.OpenRequest{Flags: fuse.OpenReadWrite}, &fuse.OpenResponse{})
		if err != nil {
			return errnoOf(err), ""
		}
		defer hd.(fs.HandleReleaser).Release(ctx, &fuse.ReleaseRequest{})
		err = hd.(fs.HandleWriter).Write(ctx, &fuse.WriteRequest{Data: data, Offset: h.Arg, LockOwner: fuse.LockOwner(owner)}, &fuse.WriteResponse{})
		return errnoOf(err), ""
	case "HTruncateWAL":
		nd, err := m.lookup(name + "-wal")
		if err != nil {
			return errnoOf(err), ""
		}
		err = nd.(fs.NodeSetattrer).Setattr(ctx, &fuse.SetattrRequest{Valid: fuse.SetattrSize, Size: 0}, &fuse.SetattrResponse{})
		return errnoOf(err), "OWalTruncate"
	case "HRemoveWAL":
		err := m.root.Remove(ctx, &fuse.RemoveRequest{Name: name + "-wal"})
		return errnoOf(err), "OWalTruncate"
	}
	return -1, ""
}

// lockState brings connection [owner] on database db into a pager-protocol state through the
// FUSE lock handlers; returns a release function.
func (m *mount) lockState(dbName, state string, owner uint64) (func(), error) {
	nd, err := m.lookup(dbName)
	if err != nil {
		return nil, err
	}
	hd, err := nd.(fs.NodeOpener).Open(ctx, &fuse.OpenRequest{Flags: fuse.OpenReadWrite}, &fuse.OpenResponse{})
	if err != nil {
		return nil, err
	}
	dh := hd.(*lfsfuse.DatabaseHandle)
	lk := func(t litefs.LockType, typ fuse.LockType) error {
		return dh.Lock(ctx, &fuse.LockRequest{LockOwner: fuse.LockOwner(owner), Lock: fuse.FileLock{Start: uint64(t), End: uint64(t), Type: typ}})
	}
	release := func() {
		_ = dh.Unlock(ctx, &fuse.UnlockRequest{LockOwner: fuse.LockOwner(owner), Lock: fuse.FileLock{Start: uint64(litefs.LockTypePending), End: uint64(litefs.LockTypeShared) + 510, Type: fuse.LockUnlock}})
		_ = dh.Release(ctx, &fuse.ReleaseRequest{})
	}
	var seq []struct {
		t   litefs.LockType
		typ fuse.LockType
	}
	switch state {
	case "shared":
		seq = append(seq, struct {
			t   litefs.LockType
			typ fuse.LockType
		}{litefs.LockTypeShared, fuse.LockRead})
	case "reserved":
		seq = append(seq, struct {
			t   litefs.LockType
			typ fuse.LockType
		}{litefs.LockTypeShared, fuse.LockRead}, struct {
			t   litefs.LockType
			typ fuse.LockType
		}{litefs.LockTypeReserved, fuse.LockWrite})
	case "exclusive":
		seq = append(seq, struct {
			t   litefs.LockType
			typ fuse.LockType
		}{litefs.LockTypeShared, fuse.LockRead}, struct {
			t   litefs.LockType
			typ fuse.LockType
		}{litefs.LockTypeReserved, fuse.LockWrite}, struct {
			t   litefs.LockType
			typ fuse.LockType
		}{litefs.LockTypePending, fuse.LockWrite}, struct {
			t   litefs.LockType
			typ fuse.LockType
		}{litefs.LockTypeShared, fuse.LockWrite})
	}
	for _, s := range seq {
		if err := lk(s.t, s.typ); err != nil {
			release()
			return nil, fmt.Errorf("lock %v: %w", s.t, err)
		}
	}
	return release, nil
}

func commitN(h *hist.Runner, n int, wal bool) error {
	done := 0
	for tries := 0; tries < 400 && done < n; tries++ {
		st := h.GenStep()
		if st.Op != "rtx" && st.Op != "wtx" {
			continue
		}
		if st.Op == "rtx" {
			st.Outcome = 0
		}
		ob := h.Exec(st)
		if ob.Err != "" || ob.Panic != "" {
			return fmt.Errorf("setup step %s: %s%s", st.Op, ob.Err, ob.Panic)
		}
		if ob.Captured {
			done++
		}
	}
	if done < n {
		return fmt.Errorf("setup: only %d commits", done)
	}
	_ = wal
	return nil
}

func Run(c *common.Ctx) error {
	cfM := c.Cases("cases_c07", hist.CoqHeader, hist.CoqType, "mismatches_short")
	cfM.Shard = 8
	cfH := c.Cases("cases_c07h", "Require Import LF.Model.ReadOnly.\nLocal Open Scope N_scope.", "handler * bool * bool * bool * bool * N", "mismatches_ro")
	for round := 0; round < c.Pick(2, 10); round++ {
		if err := replicaRound(c, cfM, cfH, c.Rng.Fork(), round); err != nil {
			return err
		}
	}
	// every way a commit step is issued (the three rollback-journal finalisations, the WAL write-lock release)
	// against both ways of losing write authority
	for i := 0; i < c.Pick(8, 24); i++ {
		if err := demotion(c, c.Rng.Fork(), i); err != nil {
			return err
		}
	}
	for i := 0; i < 2; i++ {
		if err := walAfterDemotion(c, cfH, c.Rng.Fork(), i); err != nil {
			return err
		}
	}
	if err := haltGrantNotReached(c, c.Rng.Fork()); err != nil {
		return err
	}
	if err := haltLockAcrossFailover(c, c.Rng.Fork()); err != nil {
		return err
	}
	if err := importInFlightAtDemotion(c, c.Rng.Fork()); err != nil {
		return err
	}
	for i := 0; i < c.Pick(2, 6); i++ {
		if err := haltReleaseWithoutPrimary(c, c.Rng.Fork(), i); err != nil {
			return err
		}
	}
	for i := 0; i < c.Pick(2, 6); i++ {
		if err := importWaitingAtDemotion(c, c.Rng.Fork(), i); err != nil {
			return err
		}
	}
	for i := 0; i < c.Pick(3, 6); i++ {
		if err := expiredHolderCommits(c, c.Rng.Fork(), i); err != nil {
			return err
		}
	}
	for i := 0; i < c.Pick(4, 8); i++ {
		if err := journalWritesAfterDemotion(c, c.Rng.Fork(), i); err != nil {
			return err
		}
	}
	return nil
}

// importWaitingAtDemotion: POST /import reaches the primary while an application connection holds a read lock, so
// the import waits for the write lock; the node then loses the primary role. The waiting import has to give up: a
// node without write authority publishes nothing - and the request still gets an answer.
func importWaitingAtDemotion(c *common.Ctx, r *common.Rand, idx int) error {
	dir, err := os.MkdirTemp(c.OutDir, "c07i-")
	if err != nil {
		return err
	}
	defer os.RemoveAll(dir)
	clu := cluster.New(dir, 2*time.Second)
	defer clu.Close()
	clu.Opts = func(name string, s *litefs.Store) { s.DemoteDelay = 2500 * time.Millisecond }
	p, err := clu.Start("p", true)
	if err != nil {
		return err
	}
	if clu.WaitPrimary(5*time.Second) == nil {
		return fmt.Errorf("no primary")
	}
	h := hist.NewOn(c, r.Fork(), hist.Config{PageSize: 512}, p.Store, p.Exits, "db", nil, 0, false)
	if err := commitN(h, 3, false); err != nil {
		return err
	}
	db := p.Store.DB("db")
	const owner = 9
	if !db.TryRLocks(ctx, owner, []litefs.LockType{litefs.LockTypePending}) || !db.TryRLocks(ctx, owner, []litefs.LockType{litefs.LockTypeShared}) {
		return fmt.Errorf("reader lock")
	}
	_ = db.Unlock(ctx, owner, []litefs.LockType{litefs.LockTypePending})
	defer func() { _ = db.Unlock(ctx, owner, []litefs.LockType{litefs.LockTypeShared}) }()
	before := snapshot(p, "db")
	// a valid 4-page image
	var img bytes.Buffer
	for pg := uint32(1); pg <= 4; pg++ {
		img.Write(lfs.MakePage(512, pg, 5150+uint64(pg)+uint64(idx)*10, 4, false))
	}
	type answer struct {
		code int
		err  error
	}
	done := make(chan answer, 1)
	go func() {
		req, _ := http.NewRequest("POST", p.Server.URL()+"/import?name=db", bytes.NewReader(img.Bytes()))
		cl := &http.Client{Timeout: 8 * time.Second}
		resp, err := cl.Do(req)
		if err != nil {
			done <- answer{0, err}
			return
		}
		_, _ = io.Copy(io.Discard, resp.Body)
		resp.Body.Close()
		done <- answer{resp.StatusCode, nil}
	}()
	time.Sleep(80 * time.Millisecond) // the import is waiting for the write lock
	if idx%2 == 0 {
		p.Store.Demote()
	} else {
		clu.Svc.Revoke()
	}
	deadline := time.Now().Add(4 * time.Second)
	for p.Store.IsPrimary() && time.Now().Before(deadline) {
		time.Sleep(time.Millisecond)
	}
	var ans answer
	select {
	case ans = <-done:
	case <-time.After(9 * time.Second):
		ans = answer{0, fmt.Errorf("no answer within 9s")}
	}
	time.Sleep(30 * time.Millisecond)
	after := snapshot(p, "db")
	c.Evaluations++
	c.Distinct(fmt.Sprintf("import-waiting-at-demotion:%d", idx%2))
	rep := map[string]any{"kind": "readonly-import-demotion", "how": []string{"demote", "lease-lost"}[idx%2], "status": ans.code, "error": fmt.Sprint(ans.err)}
	key := "C07:import-waiting-at-demotion"
	if p.Store.IsPrimary() {
		c.Count("demotion_not_effective", 1)
		return nil
	}
	if after != before {
		c.Violate(key+":published", fmt.Sprintf("an import that was still waiting for the write lock when the node lost the primary role went through afterwards (a reader still holds SHARED): %+v -> %+v; the request answered %d / %v", before, after, ans.code, ans.err), rep)
	} else if ans.err != nil {
		c.Violate(key+":no-answer", fmt.Sprintf("the import request got no response: %v", ans.err), rep)
	} else if ans.code >= 200 && ans.code < 300 {
		c.Violate(key+":accepted", fmt.Sprintf("the import request was answered %d on a node that is no longer primary", ans.code), rep)
	}
	if ex := p.Exits(); len(ex) > 0 {
		c.Violate(key+":exit", fmt.Sprintf("the node called Exit(%v)", ex), rep)
	}
	return nil
}

// expiredHolderCommits: a replica holds the halt lock and is in the middle of a transaction when the lock expires on
// the primary (the replica is not told). Its write authority is gone: the commit must not be published anywhere.
func expiredHolderCommits(c *common.Ctx, r *common.Rand, idx int) error {
	dir, err := os.MkdirTemp(c.OutDir, "c07x-")
	if err != nil {
		return err
	}
	defer os.RemoveAll(dir)
	clu := cluster.New(dir, 2*time.Second)
	defer clu.Close()
	clu.Opts = func(name string, s *litefs.Store) {
		s.HaltLockTTL = 5 * time.Minute
		s.HaltLockMonitorInterval = time.Hour
	}
	p, err := clu.Start("p", true)
	if err != nil {
		return err
	}
	if clu.WaitPrimary(5*time.Second) == nil {
		return fmt.Errorf("no primary")
	}
	rn, err := clu.Start("r", false)
	if err != nil {
		return err
	}
	h := hist.NewOn(c, r.Fork(), hist.Config{PageSize: 512}, p.Store, p.Exits, "db", nil, 0, false)
	if err := commitN(h, 2, false); err != nil {
		return err
	}
	pp := p.Store.DB("db").Pos()
	if !cluster.WaitPos(rn, "db", uint64(pp.TXID), uint64(pp.PostApplyChecksum), 10*time.Second) {
		return fmt.Errorf("replica did not catch up")
	}
	pdb, rdb := p.Store.DB("db"), rn.Store.DB("db")
	if _, err := rdb.AcquireRemoteHaltLock(ctx, int64(60+idx)); err != nil {
		return fmt.Errorf("halt lock: %v", err)
	}
	pbefore, rbefore := snapshot(p, "db"), snapshot(rn, "db")
	cur, _ := lfs.ReadImage(filepath.Dir(rdb.DatabasePath()))
	hr := hist.NewOn(c, r.Fork(), hist.Config{PageSize: 512}, rn.Store, rn.Exits, "db", cur, rbefore.txid, false)
	hr.Pager.RollbackOnCommitError = true
	hr.Pager.BeforeCommit = func() { // the lock runs out on the primary between the replica's page writes and its commit
		pdb.VerifExpireHaltLock()
		p.Store.EnforceHaltLockExpiration(ctx)
	}
	var ob hist.Obs
	for tries := 0; tries < 100; tries++ {
		st := hr.GenStep()
		if st.Op != "rtx" {
			continue
		}
		st.Outcome, st.ToWAL, st.Spill, st.JMode = 0, false, 0, idx%3
		ob = hr.Exec(st)
		break
	}
	time.Sleep(50 * time.Millisecond)
	pafter, rafter := snapshot(p, "db"), snapshot(rn, "db")
	c.Evaluations++
	c.Distinct(fmt.Sprintf("expired-holder-commits:%d", idx%3))
	rep := map[string]any{"kind": "readonly-expired-holder", "journal_mode": idx % 3, "commit_answer": ob.Err}
	key := "C07:expired-holder-commits"
	if pdb.VerifHaltLockID() != 0 {
		c.Count("expiry_not_effective", 1)
		return nil
	}
	if pafter.txid != pbefore.txid || pafter.chk != pbefore.chk || pafter.ltx != pbefore.ltx {
		c.Violate(key+":primary-published", fmt.Sprintf("the halt lock had expired on the primary when the replica committed, yet the primary published the transaction: (%d,%016x) -> (%d,%016x), log [%s] -> [%s]", pbefore.txid, pbefore.chk, pafter.txid, pafter.chk, pbefore.ltx, pafter.ltx), rep)
	}
	if rafter.txid != rbefore.txid || rafter.chk != rbefore.chk || rafter.ltx != rbefore.ltx || rafter.hash != rbefore.hash {
		c.Violate(key+":replica-published", fmt.Sprintf("the replica, whose halt lock had expired, changed its copy of the database: %+v -> %+v (the commit answered %q)", rbefore, rafter, ob.Err), rep)
	}
	if ex := append(p.Exits(), rn.Exits()...); len(ex) > 0 {
		c.Violate(key+":exit", fmt.Sprintf("a node called Exit(%v)", ex), rep)
	}
	return nil
}

// journalWritesAfterDemotion: a primary that used journal_mode=PERSIST (the journal file stays, its header zeroed) or
// TRUNCATE is demoted; every kind of write to the journal through the mount - a new header, a page record, the
// 28 zero bytes with which PERSIST mode commits - is refused with the read-only permission error, and nothing changes.
// Likewise a drop that is under way when the role is lost publishes nothing.
func journalWritesAfterDemotion(c *common.Ctx, r *common.Rand, idx int) error {
	dir, err := os.MkdirTemp(c.OutDir, "c07j-")
	if err != nil {
		return err
	}
	defer os.RemoveAll(dir)
	clu := cluster.New(dir, 2*time.Second)
	defer clu.Close()
	ros := &lfs.RecOS{}
	clu.Opts = func(name string, s *litefs.Store) {
		s.DemoteDelay = 2500 * time.Millisecond
		if name == "p" {
			s.OS = ros
		}
	}
	p, err := clu.Start("p", true)
	if err != nil {
		return err
	}
	if clu.WaitPrimary(5*time.Second) == nil {
		return fmt.Errorf("no primary")
	}
	h := hist.NewOn(c, r.Fork(), hist.Config{PageSize: 512}, p.Store, p.Exits, "db", nil, 0, false)
	for i, st := range []hist.Step{
		{Op: "rtx", Writes: map[uint32]uint64{1: 1, 2: 2, 3: 3}, NewSize: 3, JMode: 2},
		{Op: "rtx", Writes: map[uint32]uint64{2: 12}, NewSize: 3, JMode: 2},
	} {
		if ob := h.Exec(st); ob.Err != "" || ob.Panic != "" {
			return fmt.Errorf("setup step %d: %s%s", i, ob.Err, ob.Panic)
		}
	}
	db := p.Store.DB("db")
	if _, err := os.Stat(db.JournalPath()); err != nil {
		return fmt.Errorf("no persistent journal: %v", err)
	}
	lose := func() {
		if idx%2 == 0 {
			p.Store.Demote()
		} else {
			clu.Svc.Revoke()
		}
		deadline := time.Now().Add(4 * time.Second)
		for p.Store.IsPrimary() && time.Now().Before(deadline) {
			time.Sleep(time.Millisecond)
		}
	}
	if idx%4 >= 2 {
		// a drop is under way (its transaction file is being created) when the role is lost
		before := snapshot(p, "db")
		ros.Before = func(call lfs.OSCall) {
			if call.Op == "DROP:LTX" && call.Fn == "create" {
				lose()
			}
		}
		derr := db.Drop(ctx)
		ros.Before = nil
		after := snapshot(p, "db")
		c.Evaluations++
		c.Distinct(fmt.Sprintf("drop-at-demotion:%d", idx%2))
		rep := map[string]any{"kind": "readonly-drop-demotion", "drop_error": fmt.Sprint(derr)}
		if p.Store.IsPrimary() {
			c.Count("demotion_not_effective", 1)
			return nil
		}
		if after != before {
			c.Violate("C07:drop-at-demotion:published", fmt.Sprintf("a drop that was under way when the node lost write authority was published: %+v -> %+v (Drop answered %v)", before, after, derr), rep)
		} else if derr == nil {
			c.Violate("C07:drop-at-demotion:accepted", "a drop that was under way when the node lost write authority reported success", rep)
		}
		return nil
	}
	lose()
	if p.Store.IsPrimary() {
		c.Count("demotion_not_effective", 1)
		return nil
	}
	m := newMount(p.Dir, p.Store)
	hdr := make([]byte, 28)
	copy(hdr, "\xd9\xd5\x05\xf9\x20\xa1\x63\xd7")
	binary.BigEndian.PutUint32(hdr[8:], 1)
	binary.BigEndian.PutUint32(hdr[16:], 3)
	binary.BigEndian.PutUint32(hdr[20:], 512)
	binary.BigEndian.PutUint32(hdr[24:], 512)
	for _, w := range []struct {
		what string
		off  int64
		data []byte
	}{
		{"a journal header", 0, hdr},
		{"a page record", 512, r.Bytes(520)},
		{"the 28 zero bytes of a PERSIST-mode commit", 0, make([]byte, 28)},
	} {
		before := snapshot(p, "db")
		errno, _ := m.exec(handlerOp{Handler: "HWriteJournal", DB: "db", Arg: w.off}, 77, 512, w.data)
		after := snapshot(p, "db")
		c.Evaluations++
		c.Distinct("journal-write-after-demotion:" + w.what)
		rep := map[string]any{"kind": "readonly-journal-write", "what": w.what, "errno": errno}
		if after != before {
			c.Violate("C07:journal-write-after-demotion:changed", fmt.Sprintf("writing %s to the journal of a demoted primary changed the database: %+v -> %+v", w.what, before, after), rep)
		}
		if errno == int(syscall.ENOENT) {
			// the recovery that follows the loss of the role (a goroutine of the store) has rolled the journal back and
			// removed it before this write: there is no journal to write to, which refuses the write just as well
			if _, serr := os.Stat(db.JournalPath()); os.IsNotExist(serr) {
				c.Count("journal_gone_before_write_after_demotion", 1)
				continue
			}
		}
		if errno != int(syscall.EACCES) {
			c.Violate("C07:journal-write-after-demotion:errno", fmt.Sprintf("writing %s to the journal of a demoted primary answered errno %d, want the read-only permission error EACCES (13)", w.what, errno), rep)
		}
	}
	return nil
}

// haltReleaseWithoutPrimary: a replica holds a database's halt lock (it may write), loses sight of the primary and
// then gives the lock up. Releasing cannot reach the primary, but the node has given up its write authority all the
// same: from then on it must refuse writes like any replica.
func haltReleaseWithoutPrimary(c *common.Ctx, r *common.Rand, idx int) error {
	dir, err := os.MkdirTemp(c.OutDir, "c07h-")
	if err != nil {
		return err
	}
	defer os.RemoveAll(dir)
	clu := cluster.New(dir, 2*time.Second)
	defer clu.Close()
	p, err := clu.Start("p", true)
	if err != nil {
		return err
	}
	if clu.WaitPrimary(5*time.Second) == nil {
		return fmt.Errorf("no primary")
	}
	rn, err := clu.Start("r", false)
	if err != nil {
		return err
	}
	h := hist.NewOn(c, r.Fork(), hist.Config{PageSize: 512}, p.Store, p.Exits, "db", nil, 0, false)
	if err := commitN(h, 2+idx%2, false); err != nil {
		return err
	}
	pp := p.Store.DB("db").Pos()
	if !cluster.WaitPos(rn, "db", uint64(pp.TXID), uint64(pp.PostApplyChecksum), 10*time.Second) {
		return fmt.Errorf("replica did not catch up")
	}
	rdb := rn.Store.DB("db")
	if _, err := rdb.AcquireRemoteHaltLock(ctx, int64(40+idx)); err != nil {
		return fmt.Errorf("halt lock: %v", err)
	}
	// the primary goes away; the replica notices when its stream ends
	p.Stop()
	deadline := time.Now().Add(5 * time.Second)
	for time.Now().Before(deadline) {
		if _, info := rn.Store.PrimaryInfo(); info == nil {
			break
		}
		time.Sleep(2 * time.Millisecond)
	}
	_, info := rn.Store.PrimaryInfo()
	c.Evaluations++
	c.Distinct(fmt.Sprintf("halt-release-without-primary:%v", info == nil))
	rep := map[string]any{"kind": "readonly-halt-release", "index": idx, "primary_known": info != nil}
	relErr := rdb.ReleaseRemoteHaltLock(ctx, int64(40+idx))
	rep["release_error"] = fmt.Sprint(relErr)
	before := snapshot(rn, "db")
	cur, _ := lfs.ReadImage(filepath.Dir(rdb.DatabasePath()))
	hr := hist.NewOn(c, r.Fork(), hist.Config{PageSize: 512}, rn.Store, rn.Exits, "db", cur, before.txid, false)
	lfs.BusyTimeout = 100 * time.Millisecond
	var ob hist.Obs
	for tries := 0; tries < 100; tries++ {
		st := hr.GenStep()
		if st.Op != "rtx" {
			continue
		}
		st.Outcome, st.ToWAL, st.Spill = 0, false, 0
		ob = hr.Exec(st)
		break
	}
	lfs.BusyTimeout = 3 * time.Second
	after := snapshot(rn, "db")
	key := "C07:halt-release-without-primary"
	if after != before {
		c.Violate(key+":changed", fmt.Sprintf("a replica that gave up its halt lock (release answered: %v; primary known: %v) still accepted writes: database %+v -> %+v (the transaction answered %q)", relErr, info != nil, before, after, ob.Err), rep)
	} else if ob.Err == "" && ob.Panic == "" {
		c.Violate(key+":accepted", "a replica that gave up its halt lock committed a transaction", rep)
	}
	if ex := rn.Exits(); len(ex) > 0 {
		c.Violate(key+":exit", fmt.Sprintf("the replica called Exit(%v)", ex), rep)
	}
	return nil
}

// replicaRound: a primary with one rollback-journal and one WAL-mode database, a replica and a
// node that knows no primary; every handler at every lock state on the two read-only nodes.
func replicaRound(c *common.Ctx, cfM, cfH *common.CaseFile, r *common.Rand, round int) error {
	dir, err := os.MkdirTemp(c.OutDir, "c07-")
	if err != nil {
		return err
	}
	defer os.RemoveAll(dir)
	clu := cluster.New(filepath.Join(dir, "clu"), 2*time.Second)
	defer clu.Close()
	p, err := clu.Start("p", true)
	if err != nil {
		return err
	}
	if clu.WaitPrimary(5*time.Second) == nil {
		return fmt.Errorf("no primary")
	}
	rn, err := clu.Start("r", false)
	if err != nil {
		return err
	}
	ps := []int{512, 1024, 4096}[r.Intn(3)]
	hj := hist.NewOn(c, r.Fork(), hist.Config{PageSize: ps}, p.Store, p.Exits, "jdb", nil, 0, false)
	if err := commitN(hj, 2+r.Intn(3), false); err != nil {
		return err
	}
	hw := hist.NewOn(c, r.Fork(), hist.Config{PageSize: ps, AllowWAL: true, ForceWAL: true}, p.Store, p.Exits, "wdb", nil, 0, false)
	if err := commitN(hw, 3+r.Intn(3), true); err != nil {
		return err
	}
	for _, name := range []string{"jdb", "wdb"} {
		pp := p.Store.DB(name).Pos()
		if !cluster.WaitPos(rn, name, uint64(pp.TXID), uint64(pp.PostApplyChecksum), 10*time.Second) {
			return fmt.Errorf("replica did not catch up on %s", name)
		}
	}
	m := newMount(filepath.Join(dir, "mnt-r"), rn.Store)
	handlers := []string{"HCreateDB", "HWriteDB", "HTruncateDB", "HRemoveDB", "HCreateJournal", "HWriteJournal", "HTruncateJournal", "HRemoveJournal",
		"HCreateWAL", "HWriteWAL", "HTruncateWAL", "HRemoveWAL"}
	states := []string{"none", "shared", "reserved", "exclusive"}
	for _, name := range []string{"jdb", "wdb"} {
		// the model's replica: everything it received, in order
		infos, _ := lfs.ListLTX(filepath.Join(rn.Dir, "dbs", name))
		var groups []string
		var rows [][]uint64
		okCase := true
		for _, f := range infos {
			if !f.Valid {
				okCase = false
			}
			groups = append(groups, "[OReceive "+ltxTerm(f)+"]")
			rows = append(rows, nil) // filled below from the file headers: position after the apply
		}
		for i, f := range infos {
			rows[i] = []uint64{0, f.Max, f.Post, uint64(f.Commit)}
		}
		var ops []handlerOp
		for _, st := range states {
			for _, h := range handlers {
				ops = append(ops, handlerOp{Handler: h, DB: name, Locks: st})
			}
		}
		// shuffle: every handler meets every predecessor
		for i := len(ops) - 1; i > 0; i-- {
			j := r.Intn(i + 1)
			ops[i], ops[j] = ops[j], ops[i]
		}
		if !c.Thorough() {
			ops = ops[:len(ops)*2/3]
		}
		for _, h := range ops {
			db := rn.Store.DB(name)
			before := snapshot(rn, name)
			pageN := int64(before.pageN)
			owner := uint64(500 + r.Intn(3))
			release := func() {}
			if h.Locks != "none" {
				rel, err := m.lockState(name, h.Locks, owner)
				if err != nil {
					c.Count("lockstate_unreachable_"+h.Locks, 1)
					continue
				}
				release = rel
			}
			var data []byte
			sameSize := false
			switch h.Handler {
			case "HWriteDB":
				h.Arg = 1 + int64(r.Intn(int(pageN)+1))
				data = lfs.MakePage(ps, uint32(h.Arg), r.U64(), uint32(pageN), name == "wdb")
			case "HTruncateDB":
				h.Arg = pageN
				if r.Chance(60) {
					h.Arg = int64(r.Intn(int(pageN) + 2))
				}
				sameSize = h.Arg == pageN
			case "HWriteJournal":
				data = r.Bytes(28)
			case "HWriteWAL":
				data = r.Bytes(32)
			}
			_, werr := os.Stat(db.WALPath())
			hasWAL := werr == nil
			_, jerr := os.Stat(db.JournalPath())
			hasJournal := jerr == nil
			errno, mop := m.exec(h, owner, ps, data)
			release()
			after := snapshot(rn, name)
			c.Evaluations++
			c.Distinct(fmt.Sprintf("%s:%s:%s", h.Handler, map[bool]string{true: "wal", false: "journal"}[name == "wdb"], h.Locks))
			rep := map[string]any{"kind": "readonly-op", "op": h, "errno": errno, "page_size": ps, "round": round}
			key := fmt.Sprintf("C07:replica:%s:%s", h.Handler, map[bool]string{true: "wal", false: "journal"}[name == "wdb"])
			if before != after {
				c.Violate(key+":changed", fmt.Sprintf("%s (locks %s) on a replica answered errno %d and changed the database: %+v -> %+v", h.Handler, h.Locks, errno, before, after), rep)
			}
			mutating := map[string]bool{"HWriteDB": true, "HRemoveDB": true, "HCreateJournal": true, "HWriteJournal": true, "HTruncateJournal": true, "HRemoveJournal": true, "HWriteWAL": true}
			if mutating[h.Handler] && errno == 0 {
				c.Violate(key+":accepted", fmt.Sprintf("%s (locks %s) on a replica was not refused", h.Handler, h.Locks), rep)
			}
			if (h.Handler == "HWriteDB" || (h.Handler == "HWriteJournal" && hasJournal) || (h.Handler == "HWriteWAL" && hasWAL)) && errno != int(syscall.EACCES) {
				c.Violate(key+":errno", fmt.Sprintf("%s on a replica answered errno %d, want the read-only permission error EACCES (13)", h.Handler, errno), rep)
			}
			if ex := rn.Exits(); len(ex) > 0 {
				c.Violate(key+":exit", fmt.Sprintf("%s on a replica made the node call Exit(%v)", h.Handler, ex), rep)
				return nil
			}
			// handler table case (only where the table's inputs determine the answer)
			skipTable := (h.Handler == "HWriteJournal" || h.Handler == "HTruncateJournal") && !hasJournal || h.Handler == "HWriteWAL" && !hasWAL || h.Handler == "HCreateDB"
			if !skipTable {
				cfH.Add(fmt.Sprintf("(%s, false, false, %s, %s, %d)", h.Handler, common.CoqBool(sameSize), common.CoqBool(hasWAL), acode(errno)), rep)
			}
			// model op
			if mop == "OWalTruncate" && errno != 0 {
				mop = "" // refused before it reached the database (no wal file): nothing for the model to do
			}
			switch mop {
			case "":
			case "OCommitJournal":
				mop = fmt.Sprintf("OCommitJournal %d", pageN)
				fallthrough
			default:
				if strings.HasPrefix(mop, "OTruncate") && !sameSize {
					// the model's OTruncate refuses exactly like the code; keep it
				}
				code := uint64(0)
				if errno != 0 {
					code = 1
				}
				groups = append(groups, "["+mop+"]")
				rows = append(rows, []uint64{code, after.txid, after.chk, uint64(after.pageN)})
			}
		}
		if okCase && len(groups) > 0 {
			var rs []string
			for _, row := range rows {
				rs = append(rs, common.CoqNList(row))
			}
			cfM.Add(fmt.Sprintf("(%d, [%s],\n [%s])", lfs.LockPgno(ps), strings.Join(groups, ";\n  "), strings.Join(rs, "; ")), map[string]any{"kind": "readonly-timeline", "db": name, "round": round})
		}
	}
	// import on the replica and on the primary's API from a non-primary
	for _, name := range []string{"jdb", "nosuch"} {
		before := snapshot(rn, "jdb")
		im := lfs.MakePage(ps, 1, r.U64(), 1, false)
		resp, err := http.Post(rn.Server.URL()+"/import?name="+name, "application/octet-stream", bytes.NewReader(im))
		code := 0
		if err == nil {
			code = resp.StatusCode
			_, _ = io.Copy(io.Discard, resp.Body)
			resp.Body.Close()
		}
		after := snapshot(rn, "jdb")
		c.Evaluations++
		rep := map[string]any{"kind": "readonly-import", "name": name, "status": code}
		if before != after || rn.Store.DB("nosuch") != nil || code < 400 {
			c.Violate("C07:replica:import", fmt.Sprintf("POST /import?name=%s on a replica answered %d; database before %+v after %+v", name, code, before, after), rep)
		}
		cfH.Add(fmt.Sprintf("(HImport, false, false, false, false, %d)", code), rep)
	}
	// the primary's image did not move either, and the replica still follows
	if err := commitN(hj, 1, false); err != nil {
		c.Violate("C07:after:primary-commit", "after the read-only operations on the replica the primary cannot commit: "+err.Error(), map[string]any{"kind": "readonly-after"})
		return nil
	}
	pp := p.Store.DB("jdb").Pos()
	if !cluster.WaitPos(rn, "jdb", uint64(pp.TXID), uint64(pp.PostApplyChecksum), 10*time.Second) {
		c.Violate("C07:after:replica-follows", "after the read-only operations the replica no longer follows the primary", map[string]any{"kind": "readonly-after"})
	}
	return nil
}

// demotion: the primary loses write authority in the middle of a local transaction.
func demotion(c *common.Ctx, r *common.Rand, idx int) error {
	dir, err := os.MkdirTemp(c.OutDir, "c07d-")
	if err != nil {
		return err
	}
	defer os.RemoveAll(dir)
	clu := cluster.New(dir, 2*time.Second)
	defer clu.Close()
	clu.Opts = func(name string, s *litefs.Store) { s.DemoteDelay = 1500 * time.Millisecond }
	p, err := clu.Start("p", true)
	if err != nil {
		return err
	}
	if clu.WaitPrimary(5*time.Second) == nil {
		return fmt.Errorf("no primary")
	}
	rn, err := clu.Start("r", false)
	if err != nil {
		return err
	}
	// idx enumerates (commit step, way of losing authority): journal DELETE / TRUNCATE / PERSIST and WAL, demote / lease lost
	wal := idx%4 == 3
	jmode := idx % 4
	h := hist.NewOn(c, r.Fork(), hist.Config{PageSize: 512, AllowWAL: wal, ForceWAL: wal}, p.Store, p.Exits, "db", nil, 0, false)
	if err := commitN(h, 3, wal); err != nil {
		return err
	}
	pp := p.Store.DB("db").Pos()
	if !cluster.WaitPos(rn, "db", uint64(pp.TXID), uint64(pp.PostApplyChecksum), 10*time.Second) {
		return fmt.Errorf("replica did not catch up")
	}
	before := snapshot(p, "db")
	rbefore := snapshot(rn, "db")
	how := []string{"demote", "lease-lost"}[idx/4%2]
	lose := func() {
		if how == "demote" {
			p.Store.Demote()
		} else {
			clu.Svc.Revoke()
		}
		deadline := time.Now().Add(4 * time.Second)
		for p.Store.IsPrimary() && time.Now().Before(deadline) {
			time.Sleep(time.Millisecond)
		}
	}
	h.Pager.BeforeCommit = lose
	var ob hist.Obs
	for tries := 0; tries < 100; tries++ {
		st := h.GenStep()
		if (wal && st.Op != "wtx") || (!wal && st.Op != "rtx") {
			continue
		}
		if st.Op == "rtx" {
			st.Outcome = 0
			st.ToWAL = false
			st.JMode = jmode
		}
		ob = h.Exec(st)
		break
	}
	h.Pager.BeforeCommit = nil
	c.Evaluations++
	mode := map[bool]string{true: "wal", false: fmt.Sprintf("journal-%d", jmode)}[wal]
	c.Distinct("demotion:" + mode + ":" + how)
	rep := map[string]any{"kind": "readonly-demotion", "mode": mode, "how": how, "steps": h.Steps, "error": ob.Err}
	key := "C07:demotion:" + mode + ":" + how
	if p.Store.IsPrimary() {
		c.Count("demotion_not_effective", 1)
		return nil
	}
	after := snapshot(p, "db")
	if after.txid != before.txid || after.chk != before.chk || after.ltx != before.ltx {
		c.Violate(key+":published", fmt.Sprintf("a transaction whose commit step began after the node lost write authority was published: position (%d,%016x) -> (%d,%016x), log [%s] -> [%s] (the commit step answered: %q)", before.txid, before.chk, after.txid, after.chk, before.ltx, after.ltx, ob.Err), rep)
	}
	if ob.Err == "" && ob.Panic == "" && !wal {
		c.Violate(key+":accepted", "the journal commit step issued after the node lost write authority reported success", rep)
	}
	time.Sleep(30 * time.Millisecond)
	if ra := snapshot(rn, "db"); ra != rbefore {
		c.Violate(key+":replica-moved", fmt.Sprintf("the replica moved from %+v to %+v although the primary published nothing", rbefore, ra), rep)
	}
	return nil
}

// aheadClient answers a halt lock request with the lock the primary granted, at a position one transaction further than
// the primary is: what the replica sees when the primary committed once more and the stream has not delivered it yet.
type aheadClient struct{ litefs.Client }

func (a *aheadClient) AcquireHaltLock(ctx context.Context, primaryURL string, nodeID uint64, name string, lockID int64) (*litefs.HaltLock, error) {
	hl, err := a.Client.AcquireHaltLock(ctx, primaryURL, nodeID, name, lockID)
	if err == nil {
		hl.Pos.TXID++
	}
	return hl, err
}

// haltGrantNotReached: the replica is granted the halt lock but does not reach the granted position in time; its request
// fails. It is not the holder then: it refuses writes like any replica, and the primary is free again.
func haltGrantNotReached(c *common.Ctx, r *common.Rand) error {
	dir, err := os.MkdirTemp(c.OutDir, "c07g-")
	if err != nil {
		return err
	}
	defer os.RemoveAll(dir)
	clu := cluster.New(dir, 2*time.Second)
	clu.Opts = func(name string, s *litefs.Store) {
		s.HaltAcquireTimeout = 200 * time.Millisecond
		if name == "r" {
			s.Client = &aheadClient{Client: s.Client}
		}
	}
	defer clu.Close()
	p, err := clu.Start("p", true)
	if err != nil {
		return err
	}
	if clu.WaitPrimary(5*time.Second) == nil {
		return fmt.Errorf("no primary")
	}
	rn, err := clu.Start("r", false)
	if err != nil {
		return err
	}
	h := hist.NewOn(c, r.Fork(), hist.Config{PageSize: 512}, p.Store, p.Exits, "db", nil, 0, false)
	if err := commitN(h, 2, false); err != nil {
		return err
	}
	pp := p.Store.DB("db").Pos()
	if !cluster.WaitPos(rn, "db", uint64(pp.TXID), uint64(pp.PostApplyChecksum), 10*time.Second) {
		return fmt.Errorf("replica did not catch up")
	}
	rdb := rn.Store.DB("db")
	_, aerr := rdb.AcquireRemoteHaltLock(ctx, 47)
	c.Evaluations++
	c.Distinct("halt-grant-not-reached")
	rep := map[string]any{"kind": "readonly-halt-grant-not-reached", "acquire_error": fmt.Sprint(aerr)}
	key := "C07:halt-grant-not-reached"
	if aerr == nil {
		return nil // reached after all: nothing to judge
	}
	before := snapshot(rn, "db")
	cur, _ := lfs.ReadImage(filepath.Dir(rdb.DatabasePath()))
	hr := hist.NewOn(c, r.Fork(), hist.Config{PageSize: 512}, rn.Store, rn.Exits, "db", cur, before.txid, false)
	lfs.BusyTimeout = 100 * time.Millisecond
	hr.Pager.RollbackOnCommitError = false
	var ob hist.Obs
	for tries := 0; tries < 100; tries++ {
		st := hr.GenStep()
		if st.Op != "rtx" {
			continue
		}
		st.Outcome, st.ToWAL, st.Spill = 0, false, 0
		ob = hr.Exec(st)
		break
	}
	lfs.BusyTimeout = 3 * time.Second
	after := snapshot(rn, "db")
	if rdb.HasRemoteHaltLock() || rdb.Writeable() {
		c.Violate(key+":believes", fmt.Sprintf("the request for the halt lock failed (%v); the replica still counts itself as the holder (holds=%v, writeable=%v)", aerr, rdb.HasRemoteHaltLock(), rdb.Writeable()), rep)
	}
	if after != before {
		c.Violate(key+":changed", fmt.Sprintf("the request for the halt lock failed (%v); a transaction on the replica then changed its database: %+v -> %+v (the transaction answered %q)", aerr, before, after, ob.Err), rep)
	}
	if id := p.Store.DB("db").VerifHaltLockID(); id != 0 {
		c.Violate(key+":primary-halted", fmt.Sprintf("the request failed on the replica and the primary still holds halt lock %d", id), rep)
	}
	return nil
}

// walAfterDemotion: a WAL-mode primary has committed transactions that live in the log only; it is demoted. Until the
// role-change recovery runs (after the demotion delay) the log is part of the database. An application that removes or
// truncates the log through the mount is refused with the read-only error and the image stays what it was.
func walAfterDemotion(c *common.Ctx, cfH *common.CaseFile, r *common.Rand, idx int) error {
	dir, err := os.MkdirTemp(c.OutDir, "c07w-")
	if err != nil {
		return err
	}
	defer os.RemoveAll(dir)
	clu := cluster.New(dir, 2*time.Second)
	defer clu.Close()
	clu.Opts = func(name string, s *litefs.Store) { s.DemoteDelay = 3 * time.Second }
	p, err := clu.Start("p", true)
	if err != nil {
		return err
	}
	if clu.WaitPrimary(5*time.Second) == nil {
		return fmt.Errorf("no primary")
	}
	h := hist.NewOn(c, r.Fork(), hist.Config{PageSize: 512, AllowWAL: true, ForceWAL: true}, p.Store, p.Exits, "db", nil, 0, false)
	if err := commitN(h, 3, true); err != nil {
		return err
	}
	if fi, err := os.Stat(p.Store.DB("db").WALPath()); err != nil || fi.Size() <= 32 {
		return fmt.Errorf("setup: no frames in the log")
	}
	p.Store.Demote()
	deadline := time.Now().Add(2 * time.Second)
	for p.Store.IsPrimary() && time.Now().Before(deadline) {
		time.Sleep(time.Millisecond)
	}
	if p.Store.IsPrimary() || p.Store.DB("db").Writeable() {
		c.Count("wal_after_demotion_not_effective", 1)
		return nil
	}
	m := newMount(filepath.Join(dir, "mnt-p"), p.Store)
	handler := []string{"HRemoveWAL", "HTruncateWAL"}[idx%2]
	before := snapshot(p, "db")
	errno, _ := m.exec(handlerOp{Handler: handler, DB: "db", Locks: "none"}, 901, 512, nil)
	after := snapshot(p, "db")
	c.Evaluations++
	c.Distinct("wal-after-demotion:" + handler)
	rep := map[string]any{"kind": "readonly-wal-after-demotion", "handler": handler, "errno": errno}
	if before != after {
		c.Violate("C07:wal-after-demotion:"+handler+":changed", fmt.Sprintf("%s on a demoted primary (no write authority, log not yet recovered) answered errno %d and changed the database: %+v -> %+v", handler, errno, before, after), rep)
		return nil
	}
	if errno != int(syscall.EACCES) {
		c.Violate("C07:wal-after-demotion:"+handler+":errno", fmt.Sprintf("%s on a demoted primary answered errno %d, want the read-only permission error EACCES (13)", handler, errno), rep)
	}
	cfH.Add(fmt.Sprintf("(%s, false, false, false, true, %d)", handler, acode(errno)), rep)
	return nil
}

// haltLockAcrossFailover: a replica holds the halt lock of primary P; P dies; another node - which had missed P's last
// transaction and commits one of its own - becomes primary and sends the former holder a snapshot, because the positions
// do not match. The lock died with P: after the snapshot the former holder has no write authority, whatever the
// snapshot's transaction ids are relative to the position the lock was granted at.
func haltLockAcrossFailover(c *common.Ctx, r *common.Rand) error {
	dir, err := os.MkdirTemp(c.OutDir, "c07f-")
	if err != nil {
		return err
	}
	defer os.RemoveAll(dir)
	clu := cluster.New(dir, 2*time.Second)
	clu.Opts = func(name string, s *litefs.Store) {
		s.HaltAcquireTimeout = 2 * time.Second
		s.HaltLockTTL = 5 * time.Minute
	}
	defer clu.Close()
	p, err := clu.Start("p", true)
	if err != nil {
		return err
	}
	if clu.WaitPrimary(5*time.Second) == nil {
		return fmt.Errorf("no primary")
	}
	q, err := clu.Start("q", false) // follows only, for now
	if err != nil {
		return err
	}
	rn, err := clu.Start("r", false)
	if err != nil {
		return err
	}
	const ps = 512
	hp := hist.NewOn(c, r.Fork(), hist.Config{PageSize: ps}, p.Store, p.Exits, "db", nil, 0, false)
	if err := commitN(hp, 2, false); err != nil {
		return err
	}
	at := p.Store.DB("db").Pos()
	for _, n := range []*cluster.Node{q, rn} {
		if !cluster.WaitPos(n, "db", uint64(at.TXID), uint64(at.PostApplyChecksum), 10*time.Second) {
			return fmt.Errorf("%s did not catch up", n.Name)
		}
	}
	q.Stop() // q misses the next transaction
	if err := commitN(hp, 1, false); err != nil {
		return err
	}
	at = p.Store.DB("db").Pos()
	if !cluster.WaitPos(rn, "db", uint64(at.TXID), uint64(at.PostApplyChecksum), 10*time.Second) {
		return fmt.Errorf("r did not catch up")
	}
	rdb := rn.Store.DB("db")
	hl, err := rdb.AcquireRemoteHaltLock(context.Background(), 81)
	if err != nil {
		return fmt.Errorf("halt: %v", err)
	}
	p.Stop() // the primary dies, and the lock with it
	if q, err = clu.Start("q", true); err != nil {
		return err
	}
	deadline := time.Now().Add(8 * time.Second)
	for !q.Store.IsPrimary() && time.Now().Before(deadline) {
		time.Sleep(5 * time.Millisecond)
	}
	if !q.Store.IsPrimary() {
		c.Count("failover_no_new_primary", 1)
		return nil
	}
	qim, _ := lfs.ReadImage(filepath.Join(q.Dir, "dbs", "db"))
	hq := hist.NewOn(c, r.Fork(), hist.Config{PageSize: ps}, q.Store, q.Exits, "db", qim, uint64(q.Store.DB("db").Pos().TXID), false)
	if err := commitN(hq, 1, false); err != nil { // its own transaction with the id of the one it missed
		return err
	}
	want := q.Store.DB("db").Pos()
	c.Evaluations++
	c.Distinct("halt-lock-across-failover")
	rep := map[string]any{"kind": "readonly-halt-failover", "lock_granted_at": fmt.Sprint(hl.Pos), "new_primary_at": fmt.Sprint(want)}
	if !cluster.WaitPos(rn, "db", uint64(want.TXID), uint64(want.PostApplyChecksum), 8*time.Second) {
		c.Count("failover_holder_did_not_follow", 1)
		return nil
	}
	time.Sleep(30 * time.Millisecond)
	if rdb.HasRemoteHaltLock() || rdb.Writeable() {
		c.Violate("C07:halt-failover:still-writeable", fmt.Sprintf("the node held the halt lock of a primary that died (granted at %s); the new primary replaced its database by a snapshot (now at %s), and it still counts as holder of that lock (has lock: %v, writeable: %v)", hl.Pos, rdb.Pos(), rdb.HasRemoteHaltLock(), rdb.Writeable()), rep)
		return nil
	}
	// and the mount refuses its writes
	m := newMount(filepath.Join(dir, "mnt-r"), rn.Store)
	before := snapshot(rn, "db")
	for _, hnd := range []string{"HCreateJournal", "HWriteDB"} {
		op := handlerOp{Handler: hnd, DB: "db", Locks: "none", Arg: 1}
		errno, _ := m.exec(op, 931, ps, lfs.MakePage(ps, 1, r.U64(), before.pageN, false))
		after := snapshot(rn, "db")
		c.Evaluations++
		if errno == 0 || before != after {
			c.Violate("C07:halt-failover:"+hnd, fmt.Sprintf("%s on the former holder answered errno %d; database %+v -> %+v", hnd, errno, before, after), rep)
			return nil
		}
	}
	return nil
}

// gatedReader delivers the first half of its bytes, then waits until it is let go.
type gatedReader struct {
	b       []byte
	off     int
	reached chan struct{}
	goOn    chan struct{}
	once    bool
}

func (g *gatedReader) Read(p []byte) (int, error) {
	if g.off >= len(g.b)/2 && !g.once {
		g.once = true
		close(g.reached)
		select {
		case <-g.goOn:
		case <-time.After(10 * time.Second):
		}
	}
	if g.off >= len(g.b) {
		return 0, io.EOF
	}
	n := copy(p, g.b[g.off:min(len(g.b), g.off+256)])
	g.off += n
	return n, nil
}

// importInFlightAtDemotion: an import is reading its (slow) upload when the node loses the primary role. What it
// publishes it would publish on a node without write authority: the import fails, position and log stay what they were.
func importInFlightAtDemotion(c *common.Ctx, r *common.Rand) error {
	dir, err := os.MkdirTemp(c.OutDir, "c07i-")
	if err != nil {
		return err
	}
	defer os.RemoveAll(dir)
	clu := cluster.New(dir, 2*time.Second)
	defer clu.Close()
	clu.Opts = func(name string, s *litefs.Store) { s.DemoteDelay = 1500 * time.Millisecond }
	p, err := clu.Start("p", true)
	if err != nil {
		return err
	}
	if clu.WaitPrimary(5*time.Second) == nil {
		return fmt.Errorf("no primary")
	}
	const ps = 512
	h := hist.NewOn(c, r.Fork(), hist.Config{PageSize: ps}, p.Store, p.Exits, "db", nil, 0, false)
	if err := commitN(h, 2, false); err != nil {
		return err
	}
	db := p.Store.DB("db")
	var img []byte
	for pg := uint32(1); pg <= 6; pg++ {
		img = append(img, lfs.MakePage(ps, pg, 430000+uint64(pg), 6, false)...)
	}
	gr := &gatedReader{b: img, reached: make(chan struct{}), goOn: make(chan struct{})}
	before := snapshot(p, "db")
	done := make(chan error, 1)
	go func() { done <- db.Import(p.Store.PrimaryCtx(ctx), gr) }()
	select {
	case <-gr.reached:
	case <-time.After(5 * time.Second):
		close(gr.goOn)
		c.Count("import_in_flight_not_reached", 1)
		return nil
	}
	p.Store.Demote()
	deadline := time.Now().Add(2 * time.Second)
	for p.Store.IsPrimary() && time.Now().Before(deadline) {
		time.Sleep(time.Millisecond)
	}
	lost := !p.Store.IsPrimary()
	close(gr.goOn)
	var ierr error
	select {
	case ierr = <-done:
	case <-time.After(8 * time.Second):
		ierr = fmt.Errorf("the import did not return within 8 s")
	}
	c.Evaluations++
	c.Distinct("import-in-flight-at-demotion")
	if !lost {
		c.Count("import_in_flight_demotion_not_effective", 1)
		return nil
	}
	after := snapshot(p, "db")
	rep := map[string]any{"kind": "readonly-import-in-flight", "import_error": fmt.Sprint(ierr)}
	if after.txid != before.txid || after.chk != before.chk || after.ltx != before.ltx || after.hash != before.hash {
		c.Violate("C07:import-in-flight:published", fmt.Sprintf("the node lost the primary role while an import was reading its upload; the import answered %v and the database went from %+v to %+v", ierr, before, after), rep)
		return nil
	}
	if ierr == nil {
		c.Violate("C07:import-in-flight:accepted", "an import that finished on a node that had lost the primary role reported success", rep)
	}
	return nil
}
