// Package c14: backup sync uploads a gap-free chain and treats the backup as authoritative.
// A real primary store syncs to the file-based backup client and to the LiteFS Cloud client
// talking to a local server; histories of commits, drops, lost files and forks between syncs.
package c14

import (
	"bytes"
	"context"
	"encoding/json"
	"errors"
	"fmt"
	"io"
	"net"
	"net/http"
	"net/url"
	"os"
	"path/filepath"
	"sort"
	"strings"
	"sync"
	"time"

	"github.com/superfly/litefs"
	"github.com/superfly/litefs/lfsc"
	"github.com/superfly/ltx"

	"lfsverif/internal/common"
	"lfsverif/internal/hist"
	"lfsverif/internal/lfs"
)

var bg = context.Background()

// ---------- a local LiteFS Cloud server on top of a directory ----------
type cloud struct {
	fc  *litefs.FileBackupClient
	ln  net.Listener
	srv *http.Server
}

func newCloud(dir string) (*cloud, error) {
	fc := litefs.NewFileBackupClient(dir)
	if err := fc.Open(); err != nil {
		return nil, err
	}
	ln, err := net.Listen("tcp", "localhost:0")
	if err != nil {
		return nil, err
	}
	c := &cloud{fc: fc, ln: ln}
	mux := http.NewServeMux()
	mux.HandleFunc("/pos", func(w http.ResponseWriter, r *http.Request) {
		m, err := fc.PosMap(r.Context())
		if err != nil {
			http.Error(w, err.Error(), 500)
			return
		}
		_ = json.NewEncoder(w).Encode(m)
	})
	mux.HandleFunc("/db/tx", func(w http.ResponseWriter, r *http.Request) {
		hwm, err := fc.WriteTx(r.Context(), r.URL.Query().Get("db"), r.Body)
		var pm *ltx.PosMismatchError
		if errors.As(err, &pm) {
			w.WriteHeader(http.StatusConflict)
			_ = json.NewEncoder(w).Encode(map[string]any{"code": "EPOSMISMATCH", "error": "position mismatch", "pos": pm.Pos})
			return
		} else if err != nil {
			w.WriteHeader(500)
			_ = json.NewEncoder(w).Encode(map[string]any{"code": "EINTERNAL", "error": err.Error()})
			return
		}
		w.Header().Set("Litefs-Hwm", hwm.String())
		w.WriteHeader(200)
	})
	mux.HandleFunc("/db/snapshot", func(w http.ResponseWriter, r *http.Request) {
		rc, err := fc.FetchSnapshot(r.Context(), r.URL.Query().Get("db"))
		if err != nil {
			w.WriteHeader(404)
			_ = json.NewEncoder(w).Encode(map[string]any{"code": "ENOTFOUND", "error": err.Error()})
			return
		}
		defer rc.Close()
		_, _ = io.Copy(w, rc)
	})
	c.srv = &http.Server{Handler: mux}
	go func() { _ = c.srv.Serve(ln) }()
	return c, nil
}

// ---------- fault injection around any backup client ----------
type faulty struct {
	inner     litefs.BackupClient
	mu        sync.Mutex
	failWrite string // "" | "before" | "midway"
	writes    int
	down      bool     // the service is unreachable
	ackLag    ltx.TXID // the service confirms this much less than it has accepted
	lastAck   ltx.TXID // the last high-water mark it returned
}

func (f *faulty) URL() string { return f.inner.URL() }
func (f *faulty) PosMap(ctx context.Context) (map[string]ltx.Pos, error) {
	f.mu.Lock()
	down := f.down
	f.mu.Unlock()
	if down {
		return nil, errors.New("injected: backup service unreachable")
	}
	return f.inner.PosMap(ctx)
}
func (f *faulty) FetchSnapshot(ctx context.Context, name string) (io.ReadCloser, error) {
	return f.inner.FetchSnapshot(ctx, name)
}
func (f *faulty) WriteTx(ctx context.Context, name string, r io.Reader) (ltx.TXID, error) {
	f.mu.Lock()
	mode := f.failWrite
	f.failWrite = ""
	f.writes++
	if f.down {
		mode = "before"
	}
	f.mu.Unlock()
	switch mode {
	case "after":
		// the service stores the file; its answer is lost
		if _, err := f.inner.WriteTx(ctx, name, r); err != nil {
			return 0, err
		}
		return 0, errors.New("injected: the service's answer was lost")
	case "before":
		_, _ = io.Copy(io.Discard, r)
		return 0, errors.New("injected: upload refused")
	case "midway":
		// the service receives a truncated body
		pr, pw := io.Pipe()
		go func() {
			_, _ = io.CopyN(pw, r, 60)
			_ = pw.CloseWithError(io.ErrUnexpectedEOF)
			_, _ = io.Copy(io.Discard, r)
		}()
		_, err := f.inner.WriteTx(ctx, name, pr)
		if err == nil {
			err = errors.New("injected: truncated upload was accepted")
		}
		return 0, err
	}
	hwm, err := f.inner.WriteTx(ctx, name, r)
	f.mu.Lock()
	if err == nil {
		if f.ackLag > 0 && hwm > f.ackLag {
			hwm -= f.ackLag
		} else if f.ackLag > 0 {
			hwm = 0
		}
		f.lastAck = hwm
	}
	f.mu.Unlock()
	return hwm, err
}

// ---------- environment ----------
type env struct {
	c      *common.Ctx
	r      *common.Rand
	kind   string // file | lfsc
	svcDir string
	fc     *litefs.FileBackupClient // direct view of the service's directory
	cloud  *cloud
}

type primary struct {
	node *lfs.Node
	h    *hist.Runner
	fl   *faulty
	dir  string
}

func (e *env) newPrimary(dir string) (*primary, error) { return e.newPrimaryDelay(dir, 0) }

// newPrimaryDelay: with a non-zero delay the store runs its own background backup stream.
func (e *env) newPrimaryDelay(dir string, delay time.Duration) (*primary, error) {
	p := &primary{dir: dir}
	opt := func(s *litefs.Store) {
		var inner litefs.BackupClient
		if e.kind == "file" {
			c := litefs.NewFileBackupClient(e.svcDir)
			_ = c.Open()
			inner = c
		} else {
			u, _ := url.Parse("http://" + e.cloud.ln.Addr().String())
			inner = lfsc.NewBackupClient(s, *u)
		}
		p.fl = &faulty{inner: inner}
		s.BackupClient = p.fl
		s.BackupDelay = delay
	}
	n, err := lfs.Open(dir, true, opt)
	if err != nil {
		return nil, err
	}
	p.node = n
	p.h = hist.NewOn(e.c, e.r.Fork(), hist.Config{PageSize: 512, AllowDrop: false}, n.Store, n.Exits, "db", nil, 0, false)
	return p, nil
}

func (p *primary) commit(n int) error {
	done := 0
	for tries := 0; tries < n*40+40 && done < n; tries++ {
		st := p.h.GenStep()
		if st.Op != "rtx" {
			continue
		}
		st.Outcome = 0
		ob := p.h.Exec(st)
		if ob.Err != "" || ob.Panic != "" {
			return fmt.Errorf("commit: %s%s", ob.Err, ob.Panic)
		}
		if ob.Captured {
			done++
		}
	}
	if done < n {
		return fmt.Errorf("only %d of %d commits", done, n)
	}
	return nil
}

type posT struct{ txid, chk uint64 }

func (p *primary) pos() posT {
	if db := p.node.Store.DB("db"); db != nil {
		x := db.Pos()
		return posT{uint64(x.TXID), uint64(x.PostApplyChecksum)}
	}
	return posT{}
}

func (e *env) svcPos() posT {
	m, err := e.fc.PosMap(bg)
	if err != nil {
		return posT{}
	}
	x := m["db"]
	return posT{uint64(x.TXID), uint64(x.PostApplyChecksum)}
}

// svcChain checks the service's directory: one gap-free linked chain of valid files.
func (e *env) svcChain() (ok bool, why string, files []lfs.LTXInfo) {
	ents, _ := os.ReadDir(filepath.Join(e.svcDir, "db"))
	var names []string
	for _, en := range ents {
		if strings.HasSuffix(en.Name(), ".ltx") {
			names = append(names, en.Name())
		}
	}
	sort.Strings(names)
	prev := posT{}
	for _, nm := range names {
		f := lfs.DecodeLTX(filepath.Join(e.svcDir, "db", nm))
		files = append(files, f)
		if !f.Valid {
			return false, "file " + nm + " does not verify: " + f.Err, files
		}
		if f.Min != prev.txid+1 || f.Pre != prev.chk {
			return false, fmt.Sprintf("file %s (pre %016x) does not continue (%d,%016x)", nm, f.Pre, prev.txid, prev.chk), files
		}
		prev = posT{f.Max, f.Post}
	}
	return true, "", files
}

// restoredImage builds the database a restore from the service would give.
func (e *env) restoredImage() (*lfs.Image, posT, error) {
	_, _, files := e.svcChain()
	im := &lfs.Image{PageSize: 512}
	var p posT
	for _, f := range files {
		im = lfs.ApplyLTX(im, f)
		p = posT{f.Max, f.Post}
	}
	return im, p, nil
}

// syncOnce runs one SyncBackup and emits the model case + the property's predicates.
func (e *env) syncOnce(p *primary, cf *common.CaseFile, scen, what string, history map[posT]bool) {
	c := e.c
	db := p.node.Store.DB("db")
	exists := db != nil
	lpos := p.pos()
	spos := e.svcPos()
	var hwm0 uint64
	var files []string
	if exists {
		hwm0 = uint64(db.HWM())
		infos, _ := lfs.ListLTX(filepath.Join(p.dir, "dbs", "db"))
		for _, f := range infos {
			files = append(files, fmt.Sprintf("(%d,%d,%d,%d)", f.Min, f.Max, f.Pre, f.Post))
		}
	}
	p.fl.mu.Lock()
	injected := p.fl.failWrite != "" || p.fl.ackLag > 0
	p.fl.mu.Unlock()
	err := p.node.Store.SyncBackup(bg)
	c.Evaluations++
	lpos2, spos2 := p.pos(), e.svcPos()
	var hwm2 uint64
	if db2 := p.node.Store.DB("db"); db2 != nil {
		hwm2 = uint64(db2.HWM())
	}
	outcome := 1
	switch {
	case err != nil:
		outcome = 4
	case spos2 != spos:
		outcome = 2
	case lpos2 != lpos:
		outcome = 3
	case lpos == (posT{}):
		outcome = 0
	}
	rep := map[string]any{"kind": "backup-sync", "client": e.kind, "scenario": scen, "step": what, "local": fmt.Sprint(lpos), "service": fmt.Sprint(spos), "error": fmt.Sprint(err)}
	key := "C14:" + e.kind + ":" + scen
	c.Distinct(e.kind + ":" + scen + ":" + what)
	// the property's predicates
	if ok, why, _ := e.svcChain(); !ok {
		c.Violate(key+":chain", "after "+what+" the service no longer holds one gap-free chain: "+why, rep)
	}
	if spos2 != spos && !history[spos2] {
		c.Violate(key+":not-prefix", fmt.Sprintf("after %s the service is at (%d,%016x), which no primary ever committed", what, spos2.txid, spos2.chk), rep)
	}
	if spos != (posT{}) && spos2 != spos && !(spos2.txid > spos.txid) {
		c.Violate(key+":overwritten", fmt.Sprintf("%s moved the service from (%d,%016x) to (%d,%016x): its data was overwritten", what, spos.txid, spos.chk, spos2.txid, spos2.chk), rep)
	}
	p.fl.mu.Lock()
	lag, ack := p.fl.ackLag, uint64(p.fl.lastAck)
	p.fl.mu.Unlock()
	if lag > 0 && spos2 != spos && hwm2 > ack {
		c.Violate(key+":hwm-unconfirmed", fmt.Sprintf("after %s the service confirmed transactions up to %d (it holds %d); the primary publishes high-water mark %d", what, ack, spos2.txid, hwm2), rep)
	}
	if hwm2 > spos2.txid {
		c.Violate(key+":hwm", fmt.Sprintf("after %s the published high-water mark %d exceeds the service's position %d", what, hwm2, spos2.txid), rep)
	}
	if ex := p.node.Exits(); len(ex) > 0 {
		c.Violate(key+":exit", fmt.Sprintf("%s made the primary call Exit(%v)", what, ex), rep)
	}
	if outcome == 3 {
		// the primary adopted the service's snapshot: position and bytes
		if lpos2 != spos2 {
			c.Violate(key+":restore-position", fmt.Sprintf("after a restore the primary is at (%d,%016x), the service at (%d,%016x)", lpos2.txid, lpos2.chk, spos2.txid, spos2.chk), rep)
		}
		want, _, _ := e.restoredImage()
		got, rerr := lfs.ReadImage(filepath.Join(p.dir, "dbs", "db"))
		if rerr == nil {
			if eq, why := got.Equal(want); !eq {
				c.Violate(key+":restore-image", "after a restore the primary's database differs from the service's: "+why, rep)
			}
		}
		// the application connection continues from the restored image
		p.h = hist.NewOn(e.c, e.r.Fork(), hist.Config{PageSize: 512}, p.node.Store, p.node.Exits, "db", got, lpos2.txid, false)
	}
	if len(files) <= 400 && !injected {
		cf.Add(fmt.Sprintf("(%s, (%d,%d), [%s], (%d,%d), %d, %s)", common.CoqBool(exists), lpos.txid, lpos.chk, strings.Join(files, ";"), spos.txid, spos.chk, hwm0,
			common.CoqNList([]uint64{uint64(outcome), spos2.txid, spos2.chk, lpos2.txid, lpos2.chk, hwm2})), rep)
	}
}

func (e *env) idleConverges(p *primary, cf *common.CaseFile, scen string, history map[posT]bool) {
	for i := 0; i < 6; i++ {
		if e.svcPos() == p.pos() {
			break
		}
		e.syncOnce(p, cf, scen, fmt.Sprintf("idle sync %d", i), history)
	}
	c := e.c
	rep := map[string]any{"kind": "backup-idle", "client": e.kind, "scenario": scen}
	if e.svcPos() != p.pos() {
		c.Violate("C14:"+e.kind+":"+scen+":no-convergence", fmt.Sprintf("repeated syncs on an idle primary leave the service at %v while the primary is at %v", e.svcPos(), p.pos()), rep)
		return
	}
	want, _ := lfs.ReadImage(filepath.Join(p.dir, "dbs", "db"))
	got, _, _ := e.restoredImage()
	if want != nil && len(want.Pages) > 0 {
		if eq, why := got.Equal(want); !eq {
			c.Violate("C14:"+e.kind+":"+scen+":restore-differs", "a database restored from the service is not byte-identical to the primary's: "+why, rep)
		}
	}
}

func scenario(c *common.Ctx, cf *common.CaseFile, r *common.Rand, kind, scen string) error {
	dir, err := os.MkdirTemp(c.OutDir, "c14-")
	if err != nil {
		return err
	}
	defer os.RemoveAll(dir)
	e := &env{c: c, r: r, kind: kind, svcDir: filepath.Join(dir, "svc")}
	_ = os.MkdirAll(e.svcDir, 0o755)
	e.fc = litefs.NewFileBackupClient(e.svcDir)
	_ = e.fc.Open()
	if kind == "lfsc" {
		cl, err := newCloud(e.svcDir)
		if err != nil {
			return err
		}
		e.cloud = cl
		defer cl.srv.Close()
	}
	history := map[posT]bool{}
	note := func(p *primary) { history[p.pos()] = true }
	commitNoting := func(p *primary, n int) error {
		for i := 0; i < n; i++ {
			if err := p.commit(1); err != nil {
				return err
			}
			note(p)
		}
		return nil
	}
	p1, err := e.newPrimary(filepath.Join(dir, "p1"))
	if err != nil {
		return err
	}
	defer p1.node.Close()
	switch scen {
	case "behind":
		e.syncOnce(p1, cf, scen, "sync of an empty primary", history)
		if err := commitNoting(p1, 2+r.Intn(3)); err != nil {
			return err
		}
		e.syncOnce(p1, cf, scen, "first sync (snapshot)", history)
		if err := commitNoting(p1, 1+r.Intn(5)); err != nil {
			return err
		}
		e.syncOnce(p1, cf, scen, "incremental sync", history)
		e.syncOnce(p1, cf, scen, "sync when in sync", history)
		e.idleConverges(p1, cf, scen, history)
	case "big-batch":
		if err := commitNoting(p1, 2); err != nil {
			return err
		}
		e.syncOnce(p1, cf, scen, "first sync (snapshot)", history)
		if err := commitNoting(p1, 256+1+r.Intn(40)); err != nil {
			return err
		}
		e.syncOnce(p1, cf, scen, "sync of more than 256 files", history)
		if sp := e.svcPos(); sp.txid != 2+256 {
			c.Violate("C14:"+kind+":big-batch:limit", fmt.Sprintf("one sync of a %d-file backlog brought the service to transaction %d; the compaction limit is 256 files", p1.pos().txid-2, sp.txid), map[string]any{"kind": "backup-batch"})
		}
		e.idleConverges(p1, cf, scen, history)
	case "partial-upload":
		if err := commitNoting(p1, 3); err != nil {
			return err
		}
		p1.fl.failWrite = "midway"
		e.syncOnce(p1, cf, scen, "snapshot upload cut short", history)
		e.syncOnce(p1, cf, scen, "snapshot upload retried", history)
		if err := commitNoting(p1, 3); err != nil {
			return err
		}
		p1.fl.failWrite = []string{"before", "midway"}[r.Intn(2)]
		e.syncOnce(p1, cf, scen, "incremental upload fails", history)
		e.idleConverges(p1, cf, scen, history)
	case "ahead", "fork-equal", "fork-lower":
		if err := commitNoting(p1, 5+r.Intn(3)); err != nil {
			return err
		}
		e.syncOnce(p1, cf, scen, "first primary syncs", history)
		p2, err := e.newPrimary(filepath.Join(dir, "p2"))
		if err != nil {
			return err
		}
		defer p2.node.Close()
		n := map[string]int{"ahead": 3, "fork-equal": int(p1.pos().txid), "fork-lower": int(p1.pos().txid) + 3}[scen]
		if err := commitNoting(p2, n); err != nil {
			return err
		}
		e.syncOnce(p2, cf, scen, "second primary (own history) syncs", history)
		if p2.pos() != e.svcPos() {
			c.Violate("C14:"+kind+":"+scen+":not-adopted", fmt.Sprintf("a primary whose history is not the service's stays at %v; the service is at %v", p2.pos(), e.svcPos()), map[string]any{"kind": "backup-fork", "scenario": scen})
		}
		if err := commitNoting(p2, 2); err != nil {
			return fmt.Errorf("commit after restore: %v", err)
		}
		e.syncOnce(p2, cf, scen, "sync after the restore and two commits", history)
		e.idleConverges(p2, cf, scen, history)
	case "replacement":
		// the primary is replaced by a node with an empty data directory: it adopts what the service holds
		if err := commitNoting(p1, 3+r.Intn(3)); err != nil {
			return err
		}
		e.syncOnce(p1, cf, scen, "first primary syncs", history)
		p2, err := e.newPrimary(filepath.Join(dir, "p2"))
		if err != nil {
			return err
		}
		defer p2.node.Close()
		e.syncOnce(p2, cf, scen, "replacement primary (empty data directory) syncs", history)
		e.syncOnce(p2, cf, scen, "replacement primary syncs again", history)
		if p2.pos() != e.svcPos() {
			c.Violate("C14:"+kind+":replacement:not-adopted", fmt.Sprintf("a primary that starts with an empty data directory stays at %v after two syncs; the service holds the database at %v", p2.pos(), e.svcPos()), map[string]any{"kind": "backup-replacement"})
			return nil
		}
		want, _, _ := e.restoredImage()
		if got, rerr := lfs.ReadImage(filepath.Join(p2.dir, "dbs", "db")); rerr == nil {
			if eq, why := got.Equal(want); !eq {
				c.Violate("C14:"+kind+":replacement:image", "the replacement primary's database differs from the service's: "+why, map[string]any{"kind": "backup-replacement"})
			}
			p2.h = hist.NewOn(e.c, e.r.Fork(), hist.Config{PageSize: 512}, p2.node.Store, p2.node.Exits, "db", got, p2.pos().txid, false)
		}
		if err := commitNoting(p2, 2); err != nil {
			return fmt.Errorf("commit on the replacement primary: %v", err)
		}
		e.syncOnce(p2, cf, scen, "sync after two commits on the replacement primary", history)
		e.idleConverges(p2, cf, scen, history)
	case "service-writes":
		// the service's own rule: it only ever appends a file that starts right after what it holds
		if err := commitNoting(p1, 3); err != nil {
			return err
		}
		e.syncOnce(p1, cf, scen, "first sync", history)
		sp := e.svcPos()
		im, err := lfs.ReadImage(filepath.Join(p1.dir, "dbs", "db"))
		if err != nil || len(im.Pages) == 0 {
			return fmt.Errorf("image: %v", err)
		}
		tgt := uint32(len(im.Pages))
		pg := lfs.MakePage(512, tgt, 919191, tgt, false)
		next := im.Clone()
		next.Pages[tgt-1] = pg
		mk := func(min, max, pre uint64, full bool) []byte {
			pages := map[uint32][]byte{tgt: pg}
			if full {
				pages = map[uint32][]byte{}
				for i, b := range next.Pages {
					pages[uint32(i+1)] = b
				}
			}
			return buildLTX(512, tgt, min, max, pre, next.Checksum(), pages)
		}
		type offer struct {
			name          string
			min, max, pre uint64
			full          bool
		}
		offers := []offer{
			{"a gap", sp.txid + 2, sp.txid + 2, sp.chk, false},
			{"an overlap", sp.txid, sp.txid, sp.chk, false},
			{"another history's checksum", sp.txid + 1, sp.txid + 1, sp.chk ^ 0x77, false},
			{"a whole-database file of another history (1..n)", 1, sp.txid + 1, 0, true},
			{"a whole-database file that ends below the service", 1, sp.txid - 1, 0, true},
			{"the next transaction", sp.txid + 1, sp.txid + 1, sp.chk, false},
		}
		cfs := c.Cases("cases_c14s", "Require Import LF.Model.Repl LF.Model.Backup.\nLocal Open Scope N_scope.", "pos * (N * N * N * N) * list N", "mismatches_svc")
		for _, o := range offers {
			before := e.svcPos()
			_, werr := p1.fl.inner.WriteTx(bg, "db", bytes.NewReader(mk(o.min, o.max, o.pre, o.full)))
			after := e.svcPos()
			c.Evaluations++
			c.Distinct(kind + ":service-writes:" + o.name)
			rep := map[string]any{"kind": "backup-service-write", "client": kind, "offer": o.name, "error": fmt.Sprint(werr)}
			extends := o.min == before.txid+1 && o.pre == before.chk
			if ok, why, _ := e.svcChain(); !ok {
				c.Violate("C14:"+kind+":service-writes:chain", fmt.Sprintf("the service (at %v) was offered %s (%d-%d, pre %016x) and no longer holds one gap-free chain: %s", before, o.name, o.min, o.max, o.pre, why), rep)
				return nil
			}
			if !extends && (werr == nil || after != before) {
				c.Violate("C14:"+kind+":service-writes:accepted", fmt.Sprintf("the service (at %v) accepted %s (%d-%d, pre %016x): error %v, position now %v", before, o.name, o.min, o.max, o.pre, werr, after), rep)
				return nil
			}
			acc := uint64(0)
			if werr == nil {
				acc = 1
			}
			cfs.Add(fmt.Sprintf("((%d,%d), (%d,%d,%d,%d), %s)", before.txid, before.chk, o.min, o.max, o.pre, next.Checksum(), common.CoqNList([]uint64{acc, after.txid, after.chk})), rep)
		}
	case "wal-restore":
		// a WAL-mode primary with frames not yet checkpointed has to adopt the service's copy
		if err := commitNoting(p1, 4); err != nil {
			return err
		}
		e.syncOnce(p1, cf, scen, "first primary syncs", history)
		p2, err := e.newPrimary(filepath.Join(dir, "p2"))
		if err != nil {
			return err
		}
		defer p2.node.Close()
		p2.h = hist.NewOn(e.c, e.r.Fork(), hist.Config{PageSize: 512, AllowWAL: true, ForceWAL: true}, p2.node.Store, p2.node.Exits, "db", nil, 0, false)
		for done, tries := 0, 0; done < 4 && tries < 300; tries++ {
			st := p2.h.GenStep()
			if st.Op != "rtx" && st.Op != "wtx" {
				continue
			}
			if st.Op == "rtx" {
				st.Outcome = 0
			}
			if ob := p2.h.Exec(st); ob.Err != "" || ob.Panic != "" {
				return fmt.Errorf("wal primary: %s%s", ob.Err, ob.Panic)
			} else if ob.Captured {
				done++
				note(p2)
			}
		}
		if !p2.h.WALMode {
			return fmt.Errorf("second primary did not reach WAL mode")
		}
		if fi, err := os.Stat(filepath.Join(p2.dir, "dbs", "db", "wal")); err != nil || fi.Size() == 0 {
			c.Count("wal_restore_without_pending_frames", 1)
		}
		e.syncOnce(p2, cf, scen, "second primary (WAL mode, own history, frames not checkpointed) syncs", history)
		if p2.pos() != e.svcPos() {
			c.Violate("C14:"+kind+":wal-restore:not-adopted", fmt.Sprintf("a WAL-mode primary whose history is not the service's stays at %v; the service is at %v (exits %v)", p2.pos(), e.svcPos(), p2.node.Exits()), map[string]any{"kind": "backup-wal-restore"})
			return nil
		}
		if fi, err := os.Stat(filepath.Join(p2.dir, "dbs", "db", "wal")); err == nil && fi.Size() > 0 {
			c.Violate("C14:"+kind+":wal-restore:wal-left", fmt.Sprintf("after the restore %d bytes of the old log are still there for SQLite to replay over the restored database", fi.Size()), map[string]any{"kind": "backup-wal-restore"})
		}
	case "ack-lag":
		// the service confirms less than it holds (its high-water mark trails): what the primary publishes follows the
		// confirmation, not what it sent
		p1.fl.ackLag = 2
		if err := commitNoting(p1, 3); err != nil {
			return err
		}
		e.syncOnce(p1, cf, scen, "first sync (snapshot)", history)
		if err := commitNoting(p1, 4); err != nil {
			return err
		}
		e.syncOnce(p1, cf, scen, "incremental sync", history)
		if err := commitNoting(p1, 1); err != nil {
			return err
		}
		e.syncOnce(p1, cf, scen, "one more", history)
	case "missing-file":
		if err := commitNoting(p1, 3); err != nil {
			return err
		}
		e.syncOnce(p1, cf, scen, "first sync", history)
		if err := commitNoting(p1, 5); err != nil {
			return err
		}
		gone := e.svcPos().txid + 1 + uint64(r.Intn(4))
		_ = os.Remove(filepath.Join(p1.dir, "dbs", "db", "ltx", ltx.FormatFilename(ltx.TXID(gone), ltx.TXID(gone))))
		e.syncOnce(p1, cf, scen, fmt.Sprintf("sync with file %d gone from the primary's log", gone), history)
		if p1.pos() != e.svcPos() {
			c.Violate("C14:"+kind+":missing-file:not-adopted", fmt.Sprintf("the primary cannot extend the service contiguously but stays at %v; the service is at %v", p1.pos(), e.svcPos()), map[string]any{"kind": "backup-missing"})
		}
		e.idleConverges(p1, cf, scen, history)
	case "drop":
		if err := commitNoting(p1, 3); err != nil {
			return err
		}
		e.syncOnce(p1, cf, scen, "first sync", history)
		if ob := p1.h.Exec(hist.Step{Op: "drop"}); ob.Err != "" || ob.Panic != "" {
			return fmt.Errorf("drop: %s%s", ob.Err, ob.Panic)
		}
		note(p1)
		e.syncOnce(p1, cf, scen, "sync after a drop", history)
		p1.h = hist.NewOn(e.c, e.r.Fork(), hist.Config{PageSize: 512}, p1.node.Store, p1.node.Exits, "db", &lfs.Image{PageSize: 512}, p1.pos().txid, false)
		if err := commitNoting(p1, 2); err != nil {
			return fmt.Errorf("recreate: %v", err)
		}
		e.syncOnce(p1, cf, scen, "sync after the database was recreated", history)
		e.idleConverges(p1, cf, scen, history)
	case "retention":
		if err := commitNoting(p1, 4); err != nil {
			return err
		}
		e.syncOnce(p1, cf, scen, "first sync", history)
		if err := commitNoting(p1, 4); err != nil {
			return err
		}
		// a retention sweep that considers every file old: with a backup client it must keep what the service lacks
		if db := p1.node.Store.DB("db"); db != nil {
			_ = db.EnforceRetention(bg, time.Now().Add(time.Hour))
		}
		e.syncOnce(p1, cf, scen, "sync after a retention sweep", history)
		if p1.pos().txid != 8 {
			c.Violate("C14:"+kind+":retention:lost", fmt.Sprintf("after a retention sweep and a sync the primary is at transaction %d: it lost its own commits (restore from the service)", p1.pos().txid), map[string]any{"kind": "backup-retention"})
		}
		e.idleConverges(p1, cf, scen, history)
	}
	return nil
}

// background: the store's own backup stream (monitorPrimaryBackup), not explicit syncs.
func background(c *common.Ctx, r *common.Rand, kind string) error {
	dir, err := os.MkdirTemp(c.OutDir, "c14b-")
	if err != nil {
		return err
	}
	defer os.RemoveAll(dir)
	e := &env{c: c, r: r, kind: kind, svcDir: filepath.Join(dir, "svc")}
	_ = os.MkdirAll(e.svcDir, 0o755)
	e.fc = litefs.NewFileBackupClient(e.svcDir)
	_ = e.fc.Open()
	if kind == "lfsc" {
		cl, err := newCloud(e.svcDir)
		if err != nil {
			return err
		}
		e.cloud = cl
		defer cl.srv.Close()
	}
	p, err := e.newPrimaryDelay(filepath.Join(dir, "p"), 10*time.Millisecond)
	if err != nil {
		return err
	}
	defer p.node.Close()
	rep := map[string]any{"kind": "backup-background", "client": kind}
	key := "C14:" + kind + ":background"
	high := uint64(0)
	watch := func(what string, d time.Duration) bool {
		deadline := time.Now().Add(d)
		for time.Now().Before(deadline) {
			lp := p.pos()
			if lp.txid < high {
				c.Violate(key+":rolled-back", fmt.Sprintf("%s: the primary went from transaction %d back to %d although the service only ever held a prefix of its history", what, high, lp.txid), rep)
				return false
			}
			if e.svcPos() == lp {
				return true
			}
			time.Sleep(5 * time.Millisecond)
		}
		c.Violate(key+":no-convergence", fmt.Sprintf("%s: %s later the service is at %v, the idle primary at %v", what, d, e.svcPos(), p.pos()), rep)
		return false
	}
	commit := func(n int) error {
		for i := 0; i < n; i++ {
			if err := p.commit(1); err != nil {
				return err
			}
			if t := p.pos().txid; t > high {
				high = t
			}
		}
		return nil
	}
	if err := commit(2); err != nil {
		return err
	}
	c.Evaluations++
	if !watch("first upload", 8*time.Second) {
		return nil
	}
	// a lost answer: the service stored the upload, the primary is told it failed; the next commit follows
	for i := 0; i < 2; i++ {
		p.fl.mu.Lock()
		p.fl.failWrite = "after"
		p.fl.mu.Unlock()
		if err := commit(1); err != nil {
			return err
		}
		time.Sleep(time.Duration(150+100*i) * time.Millisecond)
		if err := commit(1); err != nil {
			return err
		}
		c.Evaluations++
		if !watch("an upload whose answer was lost, then another commit", 10*time.Second) {
			return nil
		}
	}
	// the service is unreachable while the primary commits more than 256 transactions
	p.fl.mu.Lock()
	p.fl.down = true
	p.fl.mu.Unlock()
	base := e.svcPos().txid
	if err := commit(256 + 40); err != nil {
		return fmt.Errorf("commit burst: %v", err)
	}
	p.fl.mu.Lock()
	p.fl.down = false
	p.fl.mu.Unlock()
	// the first pass uploads 256 files; the next commit arrives before the periodic full sync
	deadline := time.Now().Add(8 * time.Second)
	for time.Now().Before(deadline) && e.svcPos().txid < base+256 {
		time.Sleep(5 * time.Millisecond)
	}
	c.Evaluations++
	if got := e.svcPos().txid; got != base+256 {
		c.Count("background_first_pass_other", 1)
		rep["first_pass_txid"] = got
	}
	if err := commit(1); err != nil {
		return fmt.Errorf("commit after the backlog: %v", err)
	}
	c.Evaluations++
	if !watch("a commit right after a 256-file pass", 14*time.Second) {
		return nil
	}
	if ok, why, _ := e.svcChain(); !ok {
		c.Violate(key+":chain", "the service no longer holds one gap-free chain: "+why, rep)
	}
	if p.pos().txid != high {
		c.Violate(key+":lost", fmt.Sprintf("the primary committed up to transaction %d and is now at %d", high, p.pos().txid), rep)
	}
	c.Distinct(kind + ":background")
	return nil
}

// emptyThenWrite: the service holds the database; a new primary's application opens the database (an empty file, no
// transaction yet) while the store's own backup stream is running, then commits. The primary's first transaction
// cannot be placed on the service's chain, so the primary has to adopt the service's copy - and go on working.
func emptyThenWrite(c *common.Ctx, r *common.Rand, kind string) error {
	dir, err := os.MkdirTemp(c.OutDir, "c14e-")
	if err != nil {
		return err
	}
	defer os.RemoveAll(dir)
	e := &env{c: c, r: r, kind: kind, svcDir: filepath.Join(dir, "svc")}
	_ = os.MkdirAll(e.svcDir, 0o755)
	e.fc = litefs.NewFileBackupClient(e.svcDir)
	_ = e.fc.Open()
	if kind == "lfsc" {
		cl, err := newCloud(e.svcDir)
		if err != nil {
			return err
		}
		e.cloud = cl
		defer cl.srv.Close()
	}
	p1, err := e.newPrimary(filepath.Join(dir, "p1"))
	if err != nil {
		return err
	}
	if err := p1.commit(3); err != nil {
		p1.node.Close()
		return err
	}
	if err := p1.node.Store.SyncBackup(bg); err != nil {
		p1.node.Close()
		return fmt.Errorf("first primary's sync: %v", err)
	}
	p1.node.Close()
	sp := e.svcPos()
	p2, err := e.newPrimaryDelay(filepath.Join(dir, "p2"), 10*time.Millisecond)
	if err != nil {
		return err
	}
	defer p2.node.Close()
	rep := map[string]any{"kind": "backup-empty-then-write", "client": kind}
	key := "C14:" + kind + ":empty-then-write"
	// the application opens the database: an empty file
	if _, f, err := p2.node.Store.CreateDB("db"); err == nil {
		_ = f.Close()
	}
	p2.h = hist.NewOn(e.c, e.r.Fork(), hist.Config{PageSize: 512}, p2.node.Store, p2.node.Exits, "db", nil, 0, false)
	time.Sleep(1500 * time.Millisecond) // at least one pass of the backup stream sees the empty database
	c.Evaluations++
	c.Distinct(kind + ":empty-then-write")
	if p2.pos() == sp {
		// adopted before any local write: equally fine
		c.Count("empty_then_write_adopted_early", 1)
	} else {
		lfs.BusyTimeout = 300 * time.Millisecond
		rep["first_commit"] = fmt.Sprint(p2.commit(1)) // may be refused if the restore holds the write lock at that moment
		lfs.BusyTimeout = 3 * time.Second
	}
	deadline := time.Now().Add(10 * time.Second)
	for time.Now().Before(deadline) {
		if lp := p2.pos(); lp.txid >= sp.txid && e.svcPos() == lp {
			break
		}
		time.Sleep(10 * time.Millisecond)
	}
	lp, sv := p2.pos(), e.svcPos()
	if ok, why, _ := e.svcChain(); !ok {
		c.Violate(key+":chain", "the service no longer holds one gap-free chain: "+why, rep)
		return nil
	}
	if sv.txid < sp.txid {
		c.Violate(key+":overwritten", fmt.Sprintf("the service went from %v back to %v", sp, sv), rep)
		return nil
	}
	if lp != sv {
		c.Violate(key+":not-adopted", fmt.Sprintf("10s after its first transaction could not be placed on the service's chain the primary is at %v and the service at %v: it neither adopted the service's copy nor caught up", lp, sv), rep)
		return nil
	}
	// the database is usable
	img, err := lfs.ReadImage(filepath.Join(p2.dir, "dbs", "db"))
	if err != nil {
		return err
	}
	p2.h = hist.NewOn(e.c, e.r.Fork(), hist.Config{PageSize: 512}, p2.node.Store, p2.node.Exits, "db", img, lp.txid, false)
	lfs.BusyTimeout = 1500 * time.Millisecond
	werr := p2.commit(1)
	lfs.BusyTimeout = 3 * time.Second
	if werr != nil {
		c.Violate(key+":wedged", fmt.Sprintf("after adopting the service's copy the primary cannot commit: %v", werr), rep)
	}
	return nil
}

func Run(c *common.Ctx) error {
	cf := c.Cases("cases_c14", "Require Import LF.Model.Repl LF.Model.Backup.\nLocal Open Scope N_scope.", "bool * pos * list (N * N * N * N) * pos * N * list N", "mismatches_backup")
	cf.Shard = 12
	scens := []string{"behind", "drop", "partial-upload", "ahead", "fork-equal", "fork-lower", "missing-file", "retention", "replacement", "service-writes", "ack-lag", "wal-restore", "big-batch"}
	rounds := c.Pick(1, 4)
	for round := 0; round < rounds; round++ {
		for _, kind := range []string{"file", "lfsc"} {
			for _, sc := range scens {
				if sc == "big-batch" && kind == "lfsc" && !c.Thorough() {
					continue
				}
				if err := scenario(c, cf, c.Rng.Fork(), kind, sc); err != nil {
					return fmt.Errorf("%s/%s: %w", kind, sc, err)
				}
			}
		}
	}
	for _, kind := range []string{"file", "lfsc"} {
		if kind == "lfsc" && !c.Thorough() {
			continue
		}
		if err := background(c, c.Rng.Fork(), kind); err != nil {
			return fmt.Errorf("%s/background: %w", kind, err)
		}
	}
	for _, kind := range []string{"file", "lfsc"} {
		for _, between := range []bool{false, true} {
			if err := recreatedOtherPageSize(c, c.Rng.Fork(), kind, between); err != nil {
				return fmt.Errorf("%s/recreated-other-page-size: %w", kind, err)
			}
		}
	}
	for _, kind := range []string{"file", "lfsc"} {
		if err := emptyThenWrite(c, c.Rng.Fork(), kind); err != nil {
			return fmt.Errorf("%s/empty-then-write: %w", kind, err)
		}
	}
	if err := strayDirectory(c, cf, c.Rng.Fork()); err != nil {
		return fmt.Errorf("file/stray-directory: %w", err)
	}
	for _, kind := range []string{"file", "lfsc"} {
		if err := emptyIdle(c, cf, c.Rng.Fork(), kind); err != nil {
			return fmt.Errorf("%s/empty-idle: %w", kind, err)
		}
	}
	return nil
}

func buildLTX(ps uint32, commit uint32, min, max uint64, pre, post uint64, pages map[uint32][]byte) []byte {
	var buf bytes.Buffer
	enc := ltx.NewEncoder(&buf)
	_ = enc.EncodeHeader(ltx.Header{Version: 1, PageSize: ps, Commit: commit, MinTXID: ltx.TXID(min), MaxTXID: ltx.TXID(max),
		Timestamp: time.Now().UnixMilli(), PreApplyChecksum: ltx.Checksum(pre), NodeID: 0x55})
	var pgs []int
	for pg := range pages {
		pgs = append(pgs, int(pg))
	}
	sort.Ints(pgs)
	for _, pg := range pgs {
		_ = enc.EncodePage(ltx.PageHeader{Pgno: uint32(pg)}, pages[uint32(pg)])
	}
	enc.SetPostApplyChecksum(ltx.Checksum(post))
	_ = enc.Close()
	return buf.Bytes()
}

// recreatedOtherPageSize: the database is dropped and recreated with another page size, between two syncs (the drop and
// the recreation in one batch) or with a sync in between. Repeated syncs on the idle primary still bring the service to
// the primary's position, and what is restored from the service is the primary's database.
func recreatedOtherPageSize(c *common.Ctx, r *common.Rand, kind string, syncBetween bool) error {
	dir, err := os.MkdirTemp(c.OutDir, "c14p-")
	if err != nil {
		return err
	}
	defer os.RemoveAll(dir)
	e := &env{c: c, r: r, kind: kind, svcDir: filepath.Join(dir, "svc")}
	_ = os.MkdirAll(e.svcDir, 0o755)
	e.fc = litefs.NewFileBackupClient(e.svcDir)
	_ = e.fc.Open()
	if kind == "lfsc" {
		cl, err := newCloud(e.svcDir)
		if err != nil {
			return err
		}
		e.cloud = cl
		defer cl.srv.Close()
	}
	p, err := e.newPrimary(filepath.Join(dir, "p"))
	if err != nil {
		return err
	}
	defer p.node.Close()
	if err := p.commit(2); err != nil {
		return err
	}
	if err := p.node.Store.SyncBackup(bg); err != nil {
		return fmt.Errorf("first sync: %v", err)
	}
	if ob := p.h.Exec(hist.Step{Op: "drop"}); ob.Err != "" || ob.Panic != "" {
		return fmt.Errorf("drop: %s%s", ob.Err, ob.Panic)
	}
	var errs []string
	if syncBetween {
		if err := p.node.Store.SyncBackup(bg); err != nil {
			errs = append(errs, "after the drop: "+err.Error())
		}
	}
	at := p.pos()
	p.h = hist.NewOn(e.c, e.r.Fork(), hist.Config{PageSize: 1024}, p.node.Store, p.node.Exits, "db", &lfs.Image{PageSize: 1024}, at.txid, false)
	if err := p.commit(2); err != nil {
		return fmt.Errorf("recreated database: %w", err)
	}
	for i := 0; i < 4; i++ {
		if err := p.node.Store.SyncBackup(bg); err != nil {
			errs = append(errs, err.Error())
		}
	}
	c.Evaluations++
	c.Distinct(fmt.Sprintf("%s:recreated-other-page-size:%v", kind, syncBetween))
	rep := map[string]any{"kind": "backup-recreated-other-page-size", "client": kind, "sync_between": syncBetween, "sync_errors": errs}
	key := fmt.Sprintf("C14:%s:recreated-other-page-size", kind)
	if sp, lp := e.svcPos(), p.pos(); sp != lp {
		c.Violate(key+":no-convergence", fmt.Sprintf("a database dropped and recreated with 1024-byte pages (512 before; sync between drop and recreation: %v): after four syncs on the idle primary the service is at (%d,%016x), the primary at (%d,%016x); sync errors: %v", syncBetween, sp.txid, sp.chk, lp.txid, lp.chk, errs), rep)
		return nil
	}
	img, rp, rerr := e.restoredImage()
	if rerr != nil {
		c.Violate(key+":restore", fmt.Sprintf("the service is at the primary's position, but nothing can be restored from it: %v", rerr), rep)
		return nil
	}
	want, _ := lfs.ReadImage(filepath.Join(p.dir, "dbs", "db"))
	if rp != p.pos() {
		c.Violate(key+":restore-position", fmt.Sprintf("restored position (%d,%016x), primary (%d,%016x)", rp.txid, rp.chk, p.pos().txid, p.pos().chk), rep)
	} else if eq, why := img.Equal(want); !eq {
		c.Violate(key+":restore-image", "the restored database is not the primary's: "+why, rep)
	}
	return nil
}

// emptyIdle: a node with an empty data directory becomes primary while the service already holds the database; the
// application opens the database file (an empty database at position zero appears) and writes nothing. The service is
// ahead: syncs on the idle primary adopt its copy.
func emptyIdle(c *common.Ctx, cf *common.CaseFile, r *common.Rand, kind string) error {
	dir, err := os.MkdirTemp(c.OutDir, "c14i-")
	if err != nil {
		return err
	}
	defer os.RemoveAll(dir)
	e := &env{c: c, r: r, kind: kind, svcDir: filepath.Join(dir, "svc")}
	_ = os.MkdirAll(e.svcDir, 0o755)
	e.fc = litefs.NewFileBackupClient(e.svcDir)
	_ = e.fc.Open()
	if kind == "lfsc" {
		cl, err := newCloud(e.svcDir)
		if err != nil {
			return err
		}
		e.cloud = cl
		defer cl.srv.Close()
	}
	p1, err := e.newPrimary(filepath.Join(dir, "p1"))
	if err != nil {
		return err
	}
	if err := p1.commit(2); err != nil {
		p1.node.Close()
		return err
	}
	if err := p1.node.Store.SyncBackup(bg); err != nil {
		p1.node.Close()
		return fmt.Errorf("first primary's sync: %v", err)
	}
	want, _ := lfs.ReadImage(filepath.Join(p1.dir, "dbs", "db"))
	p1.node.Close()
	sp := e.svcPos()
	p2, err := e.newPrimary(filepath.Join(dir, "p2"))
	if err != nil {
		return err
	}
	defer p2.node.Close()
	if _, f, err := p2.node.Store.CreateDB("db"); err == nil {
		_ = f.Close()
	}
	var errs []string
	for i := 0; i < 3; i++ {
		e.syncOnce(p2, cf, "empty-idle", fmt.Sprintf("sync %d of the idle primary", i+1), map[posT]bool{sp: true})
	}
	c.Evaluations++
	c.Distinct(kind + ":empty-idle")
	rep := map[string]any{"kind": "backup-empty-idle", "client": kind, "sync_errors": errs}
	lp, sv := p2.pos(), e.svcPos()
	if sv != sp {
		c.Violate("C14:"+kind+":empty-idle:service", fmt.Sprintf("the service went from %v to %v although the primary never wrote", sp, sv), rep)
		return nil
	}
	if lp != sp {
		c.Violate("C14:"+kind+":empty-idle:not-adopted", fmt.Sprintf("the service holds the database at %v, the primary an empty one at %v: three syncs on the idle primary (errors: %v) did not adopt the service's copy", sp, lp, errs), rep)
		return nil
	}
	if got, _ := lfs.ReadImage(filepath.Join(p2.dir, "dbs", "db")); got == nil || want == nil {
		return fmt.Errorf("cannot read images")
	} else if ok, why := got.Equal(want); !ok {
		c.Violate("C14:"+kind+":empty-idle:image", "the adopted database differs from the one the service was given: "+why, rep)
	}
	return nil
}

// strayDirectory: the directory of the file-based backup holds a sub-directory with no transaction file in it
// (lost+found on a mounted volume; what a failed first upload leaves behind). It is no database of the service: syncs
// succeed and bring the service to the primary's position.
func strayDirectory(c *common.Ctx, cf *common.CaseFile, r *common.Rand) error {
	dir, err := os.MkdirTemp(c.OutDir, "c14s-")
	if err != nil {
		return err
	}
	defer os.RemoveAll(dir)
	e := &env{c: c, r: r, kind: "file", svcDir: filepath.Join(dir, "svc")}
	_ = os.MkdirAll(filepath.Join(e.svcDir, "lost+found"), 0o755)
	e.fc = litefs.NewFileBackupClient(e.svcDir)
	_ = e.fc.Open()
	p, err := e.newPrimary(filepath.Join(dir, "p"))
	if err != nil {
		return err
	}
	defer p.node.Close()
	if err := p.commit(2); err != nil {
		return err
	}
	var errs []string
	for i := 0; i < 3; i++ {
		if err := p.node.Store.SyncBackup(bg); err != nil {
			errs = append(errs, err.Error())
		}
	}
	c.Evaluations++
	c.Distinct("file:stray-directory")
	rep := map[string]any{"kind": "backup-stray-directory", "sync_errors": errs}
	m, _ := e.fc.PosMap(bg)
	sv := posT{uint64(m["db"].TXID), uint64(m["db"].PostApplyChecksum)}
	if lp := p.pos(); len(errs) > 0 || sv != lp {
		c.Violate("C14:file:stray-directory", fmt.Sprintf("the backup directory holds an empty sub-directory (lost+found) next to the databases: three syncs of an idle primary at %v leave the service at %v (errors: %v)", lp, sv, errs), rep)
	}
	return nil
}
