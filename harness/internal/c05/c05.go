// Package c05: any crash point recovers to exactly the position of the newest LTX file.
// The data directory is copied at every step boundary of an operation (each call through the
// injectable OS layer, each internal page write and file truncate) and a fresh store is opened
// on every copy.
package c05

import (
	"context"
	"encoding/binary"
	"fmt"
	"io"
	"os"
	"path/filepath"
	"sort"
	"strings"
	"sync"
	"time"

	"github.com/superfly/litefs"

	"lfsverif/internal/cluster"
	"lfsverif/internal/common"
	"lfsverif/internal/hist"
	"lfsverif/internal/lfs"
)

func copyDir(src, dst string) error {
	return filepath.Walk(src, func(p string, fi os.FileInfo, err error) error {
		if err != nil {
			return nil // a file that vanished while we walk: the crash image simply does not have it
		}
		rel, _ := filepath.Rel(src, p)
		t := filepath.Join(dst, rel)
		if fi.IsDir() {
			return os.MkdirAll(t, 0o755)
		}
		in, err := os.Open(p)
		if err != nil {
			return nil
		}
		defer in.Close()
		out, err := os.Create(t)
		if err != nil {
			return err
		}
		defer out.Close()
		_, err = io.Copy(out, in)
		return err
	})
}

type crashPoint struct {
	Label string // e.g. "COMMITJOURNAL:LTX rename" or "writeDatabasePage 3"
	Dir   string
}

// recorder snapshots a data directory at every step boundary while armed.
type recorder struct {
	mu     sync.Mutex
	armed  bool
	src    string
	dst    string
	points []crashPoint
	store  *litefs.Store
	max    int
}

func (rc *recorder) snap(label string) {
	rc.mu.Lock()
	defer rc.mu.Unlock()
	if !rc.armed || len(rc.points) >= rc.max {
		return
	}
	d := filepath.Join(rc.dst, fmt.Sprintf("cp%03d", len(rc.points)))
	if err := copyDir(rc.src, d); err == nil {
		rc.points = append(rc.points, crashPoint{Label: label, Dir: d})
	}
}

func (rc *recorder) arm(dst string) {
	rc.mu.Lock()
	rc.armed, rc.dst, rc.points = true, dst, nil
	rc.mu.Unlock()
}

func (rc *recorder) disarm() []crashPoint {
	rc.mu.Lock()
	defer rc.mu.Unlock()
	rc.armed = false
	p := rc.points
	rc.points = nil
	return p
}

var (
	pointMu  sync.Mutex
	pointRCs = map[*litefs.Store]*recorder{}
)

func init() {
	litefs.VerifSetPoint(func(name string, db *litefs.DB, arg uint32) {
		pointMu.Lock()
		rc := pointRCs[db.Store()]
		pointMu.Unlock()
		if rc != nil {
			rc.snap(fmt.Sprintf("%s %d", name, arg))
		}
	})
}

func withRecorder(rc *recorder) lfs.Option {
	return func(s *litefs.Store) {
		ros := &lfs.RecOS{}
		ros.Before = func(call lfs.OSCall) {
			switch call.Fn {
			case "create", "rename", "remove", "removeall", "truncate", "open", "openfile", "writefile", "mkdirall", "mkdir":
				rc.snap(call.Op + " " + call.Fn + " " + filepath.Base(call.Name))
			}
		}
		s.OS = ros
		rc.store = s
		pointMu.Lock()
		pointRCs[s] = rc
		pointMu.Unlock()
	}
}

// parseJournal reads a rollback journal as the pager of this harness writes it: one segment,
// record count in the header. Returns the (page, pre-image) records, the original page count and
// whether the journal is hot (valid magic).
func parseJournal(path string, ps int) (recs [][2]any, orig uint32, hot bool) {
	b, err := os.ReadFile(path)
	if err != nil || len(b) < 28 || string(b[:8]) != "\xd9\xd5\x05\xf9\x20\xa1\x63\xd7" {
		return nil, 0, false
	}
	orig = binary.BigEndian.Uint32(b[16:])
	sector := int(binary.BigEndian.Uint32(b[20:]))
	if jps := int(binary.BigEndian.Uint32(b[24:])); jps != 0 {
		ps = jps
	}
	if sector <= 0 || ps <= 0 {
		return nil, orig, true
	}
	// segments: each starts with a header at a sector boundary and holds the records its header counts
	hdrOff := 0
	for hdrOff+28 <= len(b) && string(b[hdrOff:hdrOff+8]) == "\xd9\xd5\x05\xf9\x20\xa1\x63\xd7" {
		nRec := binary.BigEndian.Uint32(b[hdrOff+8:])
		off := hdrOff + sector
		for i := uint32(0); i < nRec && off+8+ps <= len(b); i++ {
			pg := binary.BigEndian.Uint32(b[off:])
			data := append([]byte(nil), b[off+4:off+4+ps]...)
			recs = append(recs, [2]any{pg, data})
			off += 8 + ps
		}
		hdrOff = (off + sector - 1) / sector * sector
	}
	return recs, orig, true
}

func ltxTerm(f lfs.LTXInfo) string {
	s := fmt.Sprintf("(mkLtx %d %d %d %d %d [", f.Min, f.Max, f.Pre, f.Post, f.Commit)
	for i, pg := range f.Pgnos {
		if i > 0 {
			s += ";"
		}
		s += fmt.Sprintf("(%d, %s)", pg, lfs.PgTerm(pg, f.Pages[pg]))
	}
	return s + "])"
}

// diskTerm renders a crash directory as the model's [disk] (journal-mode states only: no WAL content).
func diskTerm(dir, dbName string, infos []lfs.LTXInfo) (string, bool) {
	dbDir := filepath.Join(dir, "dbs", dbName)
	if fi, err := os.Stat(filepath.Join(dbDir, "wal")); err == nil && fi.Size() > 0 {
		return "", false
	}
	raw, _ := os.ReadFile(filepath.Join(dbDir, "database"))
	ps := 0
	if len(raw) >= 100 {
		ps = int(binary.BigEndian.Uint16(raw[16:]))
		if ps == 1 {
			ps = 65536
		}
	}
	for _, f := range infos {
		if !f.Valid {
			return "", false
		}
		if ps == 0 && f.PageSize != 0 {
			ps = int(f.PageSize)
		}
	}
	if ps == 0 {
		ps = 4096
	}
	if len(raw)%ps != 0 {
		return "", false
	}
	var pages []string
	n := len(raw) / ps
	for i := 0; i < n; i++ {
		pages = append(pages, fmt.Sprintf("(%d, %s)", i+1, lfs.PgTerm(uint32(i+1), raw[i*ps:(i+1)*ps])))
	}
	j := "None"
	if recs, orig, hot := parseJournal(filepath.Join(dbDir, "journal"), ps); hot {
		var rs []string
		for _, r := range recs {
			rs = append(rs, fmt.Sprintf("(%d, %s)", r[0].(uint32), lfs.PgTerm(r[0].(uint32), r[1].([]byte))))
		}
		j = fmt.Sprintf("(Some ([%s], %d))", strings.Join(rs, ";"), orig)
	}
	var fs []string
	for _, f := range infos {
		fs = append(fs, ltxTerm(f))
	}
	return fmt.Sprintf("(mk_disk %d [%s] %s [%s])", n, strings.Join(pages, ";"), j, strings.Join(fs, ";\n   ")), true
}

// wdiskTerm renders a WAL-mode crash directory (no hot journal) as the model's [wdisk].
func wdiskTerm(dir, dbName string, infos []lfs.LTXInfo) (string, bool) {
	dbDir := filepath.Join(dir, "dbs", dbName)
	walBytes, err := os.ReadFile(filepath.Join(dbDir, "wal"))
	if err != nil || len(walBytes) == 0 {
		return "", false
	}
	if _, _, hot := parseJournal(filepath.Join(dbDir, "journal"), 0); hot {
		return "", false
	}
	raw, _ := os.ReadFile(filepath.Join(dbDir, "database"))
	ps := 0
	if len(raw) >= 100 {
		ps = int(binary.BigEndian.Uint16(raw[16:]))
		if ps == 1 {
			ps = 65536
		}
	}
	for _, f := range infos {
		if !f.Valid {
			return "", false
		}
		if ps == 0 && f.PageSize != 0 {
			ps = int(f.PageSize)
		}
	}
	if ps == 0 || len(raw)%ps != 0 {
		return "", false
	}
	var pages []string
	n := len(raw) / ps
	for i := 0; i < n; i++ {
		pages = append(pages, fmt.Sprintf("(%d, %s)", i+1, lfs.PgTerm(uint32(i+1), raw[i*ps:(i+1)*ps])))
	}
	wal := "None"
	if len(walBytes) >= 32 {
		salt := uint64(binary.BigEndian.Uint32(walBytes[16:]))<<32 | uint64(binary.BigEndian.Uint32(walBytes[20:]))
		frames, wps, ok := lfs.ReadWALValid(walBytes)
		if ok && wps != ps {
			return "", false
		}
		var fs []string
		for _, f := range frames {
			fs = append(fs, fmt.Sprintf("mk_wframe %d %s %d", f.Pgno, lfs.PgTerm(f.Pgno, f.Data), f.Commit))
		}
		wal = fmt.Sprintf("(Some (%d, [%s]))", salt, strings.Join(fs, "; "))
	}
	var xs []string
	for _, f := range infos {
		end := int64(0)
		if f.WALOffset+f.WALSize >= 32 {
			end = (f.WALOffset + f.WALSize - 32) / int64(24+ps)
		}
		salt := uint64(f.Salt1)<<32 | uint64(f.Salt2)
		xs = append(xs, fmt.Sprintf("mk_wltx %s %d %d", ltxTerm(f), salt, end))
	}
	return fmt.Sprintf("(mk_wdisk %d [%s] %s [%s])", n, strings.Join(pages, ";"), wal, strings.Join(xs, ";\n   ")), true
}

var crashCases, wcrashCases *common.CaseFile

type posImg struct {
	txid, chk uint64
	img       *lfs.Image
}

// verify opens a store on the crash image and checks the property's predicates.
// allowed: the positions the interrupted operation may leave (before / after), with their images.
func verify(c *common.Ctx, cp crashPoint, dbName string, allowed []posImg, key string, rep map[string]any, primary bool, followUp bool) {
	c.Evaluations++
	rep2 := map[string]any{}
	for k, v := range rep {
		rep2[k] = v
	}
	rep2["crash_point"] = cp.Label
	infos, _ := lfs.ListLTX(filepath.Join(cp.Dir, "dbs", dbName))
	// the model lists the files of the log in the order Open ranks them: by their last transaction id, the newest last
	// (maxLTXFile keeps the first name among files with the same last id)
	sort.SliceStable(infos, func(i, j int) bool {
		if infos[i].Max != infos[j].Max {
			return infos[i].Max < infos[j].Max
		}
		return infos[i].Name > infos[j].Name
	})
	var newest *lfs.LTXInfo
	for i := range infos {
		if infos[i].Valid && (newest == nil || infos[i].Max >= newest.Max) {
			newest = &infos[i]
		}
	}
	term, haveTerm := diskTerm(cp.Dir, dbName, infos)
	wterm, haveWTerm := wdiskTerm(cp.Dir, dbName, infos)
	if !haveTerm && !haveWTerm {
		c.Count("crash_dirs_not_encoded", 1)
	}
	n, err := lfs.Open(cp.Dir, primary)
	if err != nil {
		c.Violate(key+":open", fmt.Sprintf("crash at [%s]: restarting on the data directory fails: %v", cp.Label, err), rep2)
		if n != nil && n.Store != nil {
			_ = lfs.TryErr(func() { _ = n.Store.Close() })
		}
		return
	}
	defer n.Close()
	if ex := n.Exits(); len(ex) > 0 {
		c.Violate(key+":exit", fmt.Sprintf("crash at [%s]: the restarted node called Exit(%v)", cp.Label, ex), rep2)
		return
	}
	db := n.Store.DB(dbName)
	var txid, chk uint64
	if db != nil {
		p := db.Pos()
		txid, chk = uint64(p.TXID), uint64(p.PostApplyChecksum)
	}
	if newest != nil && (txid != newest.Max || chk != newest.Post) {
		c.Violate(key+":position", fmt.Sprintf("crash at [%s]: recovered position (%d,%016x) is not the one named by the newest transaction file %s (%d,%016x)", cp.Label, txid, chk, newest.Name, newest.Max, newest.Post), rep2)
		return
	}
	var want *posImg
	for i := range allowed {
		if allowed[i].txid == txid && allowed[i].chk == chk {
			want = &allowed[i]
		}
	}
	if want == nil {
		var al []string
		for _, a := range allowed {
			al = append(al, fmt.Sprintf("(%d,%016x)", a.txid, a.chk))
		}
		c.Violate(key+":neither", fmt.Sprintf("crash at [%s]: recovered position (%d,%016x) is neither the position before nor after the interrupted operation %v", cp.Label, txid, chk, al), rep2)
		return
	}
	im, err := lfs.ReadImage(filepath.Join(cp.Dir, "dbs", dbName))
	if err != nil {
		c.Violate(key+":read", fmt.Sprintf("crash at [%s]: cannot read the recovered database: %v", cp.Label, err), rep2)
		return
	}
	if want.img != nil {
		if eq, why := im.Equal(want.img); !eq {
			c.Violate(key+":image", fmt.Sprintf("crash at [%s]: recovered position is (%d,%016x) but the database is not the image of that position (a mixture): %s", cp.Label, txid, chk, why), rep2)
			return
		}
	}
	if haveTerm && crashCases != nil {
		obs := []uint64{txid, chk, uint64(len(im.Pages))}
		for i, pg := range im.Pages {
			obs = append(obs, lfs.PageChecksum(uint32(i+1), pg))
		}
		crashCases.Add(fmt.Sprintf("(%s,\n  %s)", term, common.CoqNList(obs)), rep2)
	}
	if haveWTerm && wcrashCases != nil {
		obs := []uint64{txid, chk, uint64(len(im.Pages))}
		for i, pg := range im.Pages {
			obs = append(obs, lfs.PageChecksum(uint32(i+1), pg))
		}
		wcrashCases.Add(fmt.Sprintf("(%s,\n  %s)", wterm, common.CoqNList(obs)), rep2)
	}
	if len(im.Pages) > 0 && im.Checksum() != chk {
		c.Violate(key+":checksum", fmt.Sprintf("crash at [%s]: recovered checksum %016x but the database checksums to %016x", cp.Label, chk, im.Checksum()), rep2)
		return
	}
	if db != nil {
		if _, err := os.Stat(db.JournalPath()); err == nil {
			if b, _ := os.ReadFile(db.JournalPath()); len(b) >= 8 && string(b[:8]) == "\xd9\xd5\x05\xf9\x20\xa1\x63\xd7" {
				c.Violate(key+":hot-journal", fmt.Sprintf("crash at [%s]: a hot journal is left after the restart", cp.Label), rep2)
				return
			}
		}
		if fi, err := os.Stat(db.WALPath()); err == nil && fi.Size() > 0 {
			c.Violate(key+":wal-left", fmt.Sprintf("crash at [%s]: %d bytes of WAL are left after the restart for SQLite to replay", cp.Label, fi.Size()), rep2)
			return
		}
	}
	// the restarted node can commit again, in the journal mode the recovered header names, and what it commits replicates
	if followUp && primary && db != nil && len(im.Pages) > 0 {
		walMode := len(im.Pages[0]) > 19 && im.Pages[0][18] == 2 && im.Pages[0][19] == 2
		c.Count(fmt.Sprintf("recovered_tracked_mode=%v_header_wal=%v", db.Mode(), walMode), 1)
		if !walMode {
			// the recovered header names rollback-journal mode: a connection that reads (SHARED held shared) keeps
			// LiteFS's own writers (apply, import, checkpoint, halt) out, as it does on a node that never crashed
			const reader = 424242
			if db.TryRLocks(context.Background(), reader, []litefs.LockType{litefs.LockTypeShared}) {
				if gs := db.TryAcquireWriteLock(); gs != nil {
					gs.Unlock()
					c.Violate(key+":follow-up:reader-not-excluded", fmt.Sprintf("crash at [%s]: the recovered database is in rollback-journal mode (page 1 versions 1/1); with a connection reading it (SHARED held) LiteFS's internal write lock is granted all the same: the restarted node takes the locks of the other journal mode", cp.Label), rep2)
				}
				_ = db.Unlock(context.Background(), reader, []litefs.LockType{litefs.LockTypeShared})
			}
		}
		h := hist.NewOn(c, c.Rng.Fork(), hist.Config{PageSize: im.PageSize, AllowWAL: walMode, ForceWAL: walMode}, n.Store, n.Exits, dbName, im, txid, walMode)
		wantOp := map[bool]string{false: "rtx", true: "wtx"}[walMode]
		for tries := 0; tries < 200; tries++ {
			st := h.GenStep()
			if st.Op != wantOp {
				continue
			}
			st.Outcome, st.ToWAL = 0, false
			ob := h.Exec(st)
			c.Distinct("follow-up:" + wantOp)
			if !ob.Captured || ob.Err != "" || ob.Panic != "" || ob.TXID != txid+1 {
				c.Violate(key+":follow-up", fmt.Sprintf("crash at [%s]: the restarted node cannot commit again: err=%q panic=%q txid=%d", cp.Label, ob.Err, ob.Panic, ob.TXID), rep2)
				break
			}
			// a replica at the recovered position applies the new transaction file
			infos2, _ := lfs.ListLTX(filepath.Join(cp.Dir, "dbs", dbName))
			var nf *lfs.LTXInfo
			for i := range infos2 {
				if infos2[i].Valid && infos2[i].Min == txid+1 && infos2[i].Max == txid+1 {
					nf = &infos2[i]
				}
			}
			if nf == nil {
				c.Violate(key+":follow-up:file", fmt.Sprintf("crash at [%s]: the restarted node committed transaction %d but left no transaction file for it", cp.Label, txid+1), rep2)
				break
			}
			rimg := lfs.ApplyLTX(im, *nf)
			if nf.Pre != chk || rimg.Checksum() != nf.Post {
				c.Violate(key+":follow-up:replicate", fmt.Sprintf("crash at [%s]: a replica at the recovered position (%d,%016x) cannot apply the transaction the restarted node commits next: file %s has pre-apply %016x, post-apply %016x, the database it produces checksums to %016x", cp.Label, txid, chk, nf.Name, nf.Pre, nf.Post, rimg.Checksum()), rep2)
			} else if eq, why := rimg.Equal(h.Ref); !eq {
				c.Violate(key+":follow-up:content", fmt.Sprintf("crash at [%s]: the transaction the restarted node commits next replicates as something else than the application wrote: %s", cp.Label, why), rep2)
			}
			break
		}
	}
}

// script: the operation shapes the property names, in a fixed order, so that every run interrupts each of them
// (the random histories add variety on top).
var script = []hist.Step{
	{Op: "rtx", Writes: map[uint32]uint64{1: 1, 2: 2, 3: 3}, NewSize: 3},                            // first transaction
	{Op: "rtx", Writes: map[uint32]uint64{2: 12, 4: 14, 5: 15}, NewSize: 5, JMode: 1, Sector: 4096}, // grow, TRUNCATE mode
	{Op: "rtx", Writes: map[uint32]uint64{1: 21, 3: 23}, NewSize: 3, JMode: 2},                      // shrink, PERSIST mode
	{Op: "rtx", Writes: map[uint32]uint64{2: 32}, NewSize: 3, Outcome: int(lfs.RollbackAfterWrite)}, // journal rollback
	{Op: "rtx", Writes: map[uint32]uint64{1: 41, 2: 42, 3: 43, 4: 44}, NewSize: 4, ToWAL: true},     // switch to WAL
	{Op: "wtx", Frames: [][2]uint64{{2, 52}, {5, 55}}, NewSize: 5},                                  // first WAL transaction (newest file is a journal one)
	{Op: "wtx", Frames: [][2]uint64{{3, 63}, {3, 64}}, Aborted: [][2]uint64{{4, 94}}, NewSize: 5, Split: true},
	{Op: "appckpt", CkptMode: 2},                          // checkpoint + restart
	{Op: "wtx", Frames: [][2]uint64{{1, 71}}, NewSize: 3}, // WAL shrink after restart
	{Op: "lfsckpt"},
	{Op: "wtx", Frames: [][2]uint64{{2, 82}}, NewSize: 3},
	{Op: "drop"},
	{Op: "rtx", Writes: map[uint32]uint64{1: 91, 2: 92}, NewSize: 2, Spill: 2}, // recreated; pages spilled before page 1 is written
	{Op: "rtx", Writes: map[uint32]uint64{2: 102, 3: 103}, NewSize: 3},
	{Op: "drop"},
	{Op: "rtx", Writes: map[uint32]uint64{1: 111, 2: 112, 3: 113}, NewSize: 3, Spill: 1, Outcome: int(lfs.RollbackAfterWrite)}, // recreation rolled back after a spill
	{Op: "rtx", Writes: map[uint32]uint64{1: 121}, NewSize: 1, JMode: 1},
}

// script2: a transaction whose journal is synced after 64 records and continues in a second segment: with 512-byte
// pages and sectors the first segment ends exactly on a sector boundary (64 * 520 = 65 * 512)
// script3: the journal-mode switches, every crash point followed by a commit on the restarted node
var script3 = []hist.Step{
	{Op: "rtx", Writes: map[uint32]uint64{1: 1, 2: 2, 3: 3}, NewSize: 3},
	{Op: "rtx", Writes: map[uint32]uint64{1: 11}, NewSize: 3, ToWAL: true}, // PRAGMA journal_mode=wal
	{Op: "wtx", Frames: [][2]uint64{{2, 22}, {4, 24}}, NewSize: 4},
	{Op: "torollback", NewSize: 4}, // PRAGMA journal_mode=delete
	{Op: "rtx", Writes: map[uint32]uint64{2: 32}, NewSize: 4},
	{Op: "rtx", Writes: map[uint32]uint64{1: 41, 3: 43}, NewSize: 4, ToWAL: true, JMode: 1},
	{Op: "wtx", Frames: [][2]uint64{{1, 51}}, NewSize: 2},
}

// script4: the switch to WAL interrupted when the newest transaction file does not hold page 1 (re-applying it at the
// restart cannot correct what was read from the header before the hot journal was rolled back)
var script4 = []hist.Step{
	{Op: "rtx", Writes: map[uint32]uint64{1: 1, 2: 2, 3: 3, 4: 4, 5: 5, 6: 6, 7: 7, 8: 8, 9: 9, 10: 10}, NewSize: 10, JMode: 2, Sector: 4096},
	{Op: "rtx", Writes: map[uint32]uint64{4: 14, 5: 15}, NewSize: 5, JMode: 2, Outcome: int(lfs.RollbackAfterWrite), Sector: 512, ToWAL: true}, // a switch to WAL that is rolled back
	{Op: "rtx", Writes: map[uint32]uint64{2: 22, 4: 24, 10: 30, 11: 31}, NewSize: 11, Sector: 4096, ToWAL: true},                               // ... and tried again
	{Op: "rtx", Writes: map[uint32]uint64{2: 42}, NewSize: 11},
}

func script2() []hist.Step {
	all := map[uint32]uint64{}
	for pg := uint32(1); pg <= 70; pg++ {
		all[pg] = 1000 + uint64(pg)
	}
	big := map[uint32]uint64{}
	for pg := uint32(2); pg <= 68; pg++ {
		big[pg] = 2000 + uint64(pg)
	}
	return []hist.Step{
		{Op: "rtx", Writes: all, NewSize: 70},
		{Op: "rtx", Writes: map[uint32]uint64{2: 1502}, NewSize: 70}, // the newest file, re-applied at Open, covers page 2 only
		{Op: "rtx", Writes: big, NewSize: 70, JSplit: 64, Sector: 512},
		{Op: "rtx", Writes: map[uint32]uint64{70: 2570}, NewSize: 70},
		{Op: "rtx", Writes: map[uint32]uint64{3: 3003, 4: 3004, 5: 3005, 6: 3006}, NewSize: 70, JSplit: 3, Sector: 512, JMode: 1},
	}
}

func localHistories(c *common.Ctx, r *common.Rand, idx int, wal bool) error {
	script := script
	if idx == -2 {
		script = script2()
	} else if idx == -3 {
		script = script3
	} else if idx == -8 {
		script = script3 // at the largest page size
	} else if idx == -7 {
		script = hist.UnwrittenGrowthSteps()
	} else if idx <= -4 {
		script = script4
	}
	dir, err := os.MkdirTemp(c.OutDir, "c05-")
	if err != nil {
		return err
	}
	defer os.RemoveAll(dir)
	rc := &recorder{src: filepath.Join(dir, "node"), max: 400}
	cfg := hist.Config{PageSize: []int{512, 1024, 4096}[r.Intn(3)], AllowWAL: wal, ForceWAL: wal, AllowDrop: true, BackToRollback: wal && r.Bool(), Clients: true}
	if idx == -2 || idx == -3 {
		cfg.PageSize = 512
	}
	if idx <= -4 {
		cfg.PageSize = []int{512, 1024, 4096}[(-idx-4)%3]
	}
	if idx == -8 {
		cfg.PageSize, cfg.BackToRollback = 65536, true
	}
	if idx == -3 {
		cfg.BackToRollback = true
	}
	h := &hist.Runner{C: c, R: r, Cfg: cfg, Dir: rc.src, Name: "db", Ref: &lfs.Image{PageSize: cfg.PageSize}, OpenOpts: []lfs.Option{withRecorder(rc)}}
	if err := h.Reopen(); err != nil {
		return err
	}
	defer h.Close()
	nsteps := 9 + r.Intn(5)
	if idx < 0 {
		nsteps = len(script)
	}
	for i := 0; i < nsteps; i++ {
		st := h.GenStep()
		if idx < 0 {
			st = script[i]
		}
		if st.Op == "reopen" || st.Op == "retention" || st.Op == "tmpfile" {
			continue
		}
		// make sure every operation kind of the property is interrupted in every history
		if idx < 0 {
			// scripted
		} else if h.WALMode && i%3 == 2 {
			if r.Bool() {
				st = hist.Step{Op: "appckpt", CkptMode: r.Intn(4)}
			} else {
				st = hist.Step{Op: "lfsckpt"}
			}
		} else if st.Op == "rtx" && len(h.Ref.Pages) > 0 {
			switch i % 6 {
			case 3:
				st.Outcome = int(lfs.RollbackAfterWrite)
			case 4:
				st.Outcome = int(lfs.RollbackBeforeWrite)
			case 5:
				st.Outcome, st.Spill = 0, 2
			}
		}
		before := posImg{h.PosTXID(), h.PosChk(), h.Ref.Clone()}
		snapDir := filepath.Join(dir, fmt.Sprintf("snaps%d", i))
		rc.arm(snapDir)
		ob := h.Exec(st)
		rc.snap("operation returned")
		points := rc.disarm()
		if ob.Panic != "" || len(ob.Exits) > 0 {
			h.CheckCrash(c, "C05")
			return nil
		}
		if ob.Err != "" {
			os.RemoveAll(snapDir)
			continue
		}
		after := posImg{ob.TXID, ob.Chk, h.Ref.Clone()}
		shape := fmt.Sprintf("%s:j%d:o%d:%s", st.Op, st.JMode, st.Outcome, map[bool]string{true: "wal", false: "journal"}[h.WALMode])
		if uint32(len(after.img.Pages)) > uint32(len(before.img.Pages)) {
			shape += ":grow"
		} else if uint32(len(after.img.Pages)) < uint32(len(before.img.Pages)) {
			shape += ":shrink"
		}
		if before.txid == 0 {
			shape += ":first"
		}
		c.Distinct(shape)
		c.Count("crash_points_"+st.Op, len(points))
		rep := map[string]any{"kind": "crash-history", "index": idx, "wal": wal, "steps": h.Steps, "step": len(h.Steps) - 1}
		key := "C05:local:" + st.Op
		for k, cp := range points {
			allowed := []posImg{before, after}
			if k == len(points)-1 {
				allowed = []posImg{after} // the operation returned: its result must not be lost
			}
			verify(c, cp, "db", allowed, key, rep, true, k%5 == 0 || idx <= -3)
		}
		os.RemoveAll(snapDir)
	}
	return nil
}

// replicaApply: crash points while a replica applies transactions, a snapshot and a drop.
func replicaApply(c *common.Ctx, r *common.Rand, idx int) error {
	dir, err := os.MkdirTemp(c.OutDir, "c05r-")
	if err != nil {
		return err
	}
	defer os.RemoveAll(dir)
	clu := cluster.New(filepath.Join(dir, "clu"), 2*time.Second)
	defer clu.Close()
	rc := &recorder{src: filepath.Join(dir, "clu", "r"), max: 600}
	clu.Opts = func(name string, s *litefs.Store) {
		if name == "r" {
			withRecorder(rc)(s)
		}
	}
	p, err := clu.Start("p", true)
	if err != nil {
		return err
	}
	if clu.WaitPrimary(5*time.Second) == nil {
		return fmt.Errorf("no primary")
	}
	wal := idx%2 == 1
	ps := []int{512, 4096}[r.Intn(2)]
	h := hist.NewOn(c, r.Fork(), hist.Config{PageSize: ps, AllowWAL: wal, ForceWAL: wal, AllowDrop: true}, p.Store, p.Exits, "db", nil, 0, false)
	images := map[[2]uint64]*lfs.Image{{0, 0}: {PageSize: ps}}
	record := func() {
		pp := p.Store.DB("db").Pos()
		images[[2]uint64{uint64(pp.TXID), uint64(pp.PostApplyChecksum)}] = h.Ref.Clone()
	}
	commit := func(n int) error {
		done := 0
		for tries := 0; tries < 300 && done < n; tries++ {
			st := h.GenStep()
			if st.Op != "rtx" && st.Op != "wtx" && st.Op != "drop" {
				continue
			}
			if st.Op == "rtx" {
				st.Outcome = 0
			}
			ob := h.Exec(st)
			if ob.Err != "" || ob.Panic != "" {
				return fmt.Errorf("primary step %s: %s%s", st.Op, ob.Err, ob.Panic)
			}
			if ob.Captured || st.Op == "drop" {
				done++
				record()
			}
		}
		return nil
	}
	// phase 1: the replica joins late: snapshot apply
	if err := commit(3); err != nil {
		return err
	}
	snapDir := filepath.Join(dir, "snaps-a")
	rc.arm(snapDir)
	rn, err := clu.Start("r", false)
	if err != nil {
		return err
	}
	pp := p.Store.DB("db").Pos()
	if !cluster.WaitPos(rn, "db", uint64(pp.TXID), uint64(pp.PostApplyChecksum), 10*time.Second) {
		return fmt.Errorf("replica did not catch up")
	}
	time.Sleep(20 * time.Millisecond)
	points := rc.disarm()
	var all []posImg
	for k, v := range images {
		all = append(all, posImg{k[0], k[1], v})
	}
	rep := map[string]any{"kind": "crash-replica", "index": idx, "wal": wal, "phase": "snapshot"}
	c.Distinct(fmt.Sprintf("replica:snapshot:%v", wal))
	c.Count("crash_points_replica_snapshot", len(points))
	for _, cp := range points {
		if !strings.Contains(cp.Label, "dbs") && !strings.Contains(cp.Label, "ltx") && !strings.Contains(cp.Label, "database") && !strings.Contains(cp.Label, "Page") && !strings.Contains(cp.Label, "PROCESS") && !strings.Contains(cp.Label, "APPLY") && !strings.Contains(cp.Label, "truncate") {
			continue
		}
		verify(c, cp, "db", all, "C05:replica:snapshot", rep, false, false)
	}
	os.RemoveAll(snapDir)
	// phase 2: incremental applies (and a drop)
	snapDir = filepath.Join(dir, "snaps-b")
	rc.arm(snapDir)
	if err := commit(3 + r.Intn(3)); err != nil {
		return err
	}
	pp = p.Store.DB("db").Pos()
	if !cluster.WaitPos(rn, "db", uint64(pp.TXID), uint64(pp.PostApplyChecksum), 10*time.Second) {
		return fmt.Errorf("replica did not catch up (2)")
	}
	time.Sleep(20 * time.Millisecond)
	points = rc.disarm()
	all = nil
	for k, v := range images {
		all = append(all, posImg{k[0], k[1], v})
	}
	rep["phase"] = "incremental"
	c.Distinct(fmt.Sprintf("replica:incremental:%v", wal))
	c.Count("crash_points_replica_incremental", len(points))
	for _, cp := range points {
		verify(c, cp, "db", all, "C05:replica:apply", rep, false, false)
	}
	os.RemoveAll(snapDir)
	// phase 3: the replica runs on its own for a while (a former primary with unreplicated transactions, ahead of
	// or beside the primary's history), rejoins and is resnapshotted - with its own newer files still in the log
	if len(h.Ref.Pages) == 0 {
		return nil
	}
	rn.Stop()
	solo := cluster.New(filepath.Join(dir, "clu"), 2*time.Second)
	sn, err := solo.Start("r", true)
	if err != nil {
		return err
	}
	if solo.WaitPrimary(5*time.Second) == nil {
		sn.Stop()
		return fmt.Errorf("the replica on its own did not become primary")
	}
	rp := sn.Store.DB("db").Pos()
	hr := hist.NewOn(c, r.Fork(), hist.Config{PageSize: ps, AllowWAL: wal}, sn.Store, sn.Exits, "db", h.Ref.Clone(), uint64(rp.TXID), h.WALMode)
	own := 2 + r.Intn(3)
	for done, tries := 0, 0; tries < 300 && done < own; tries++ {
		st := hr.GenStep()
		if st.Op != "rtx" && st.Op != "wtx" {
			continue
		}
		if st.Op == "rtx" {
			st.Outcome, st.ToWAL = 0, false
		}
		ob := hr.Exec(st)
		if ob.Err != "" || ob.Panic != "" {
			sn.Stop()
			return fmt.Errorf("solo step %s: %s%s", st.Op, ob.Err, ob.Panic)
		}
		if ob.Captured {
			done++
			q := sn.Store.DB("db").Pos()
			images[[2]uint64{uint64(q.TXID), uint64(q.PostApplyChecksum)}] = hr.Ref.Clone()
		}
	}
	sn.Stop()
	if r.Bool() { // the primary moves on too (fork), or stays behind (replica strictly ahead)
		if err := commit(1); err != nil {
			return err
		}
	}
	if len(h.Ref.Pages) == 0 {
		return nil
	}
	snapDir = filepath.Join(dir, "snaps-c")
	rc.arm(snapDir)
	if rn, err = clu.Start("r", false); err != nil {
		return err
	}
	pp = p.Store.DB("db").Pos()
	if !cluster.WaitPos(rn, "db", uint64(pp.TXID), uint64(pp.PostApplyChecksum), 10*time.Second) {
		return fmt.Errorf("replica did not catch up (3)")
	}
	time.Sleep(20 * time.Millisecond)
	points = rc.disarm()
	all = nil
	for k, v := range images {
		all = append(all, posImg{k[0], k[1], v})
	}
	rep["phase"] = "resnapshot-of-a-diverged-replica"
	c.Distinct(fmt.Sprintf("replica:resnapshot:%v", wal))
	c.Count("crash_points_replica_resnapshot", len(points))
	for _, cp := range points {
		verify(c, cp, "db", all, "C05:replica:resnapshot", rep, false, false)
	}
	os.RemoveAll(snapDir)
	return nil
}

func Run(c *common.Ctx) error {
	crashCases = c.Cases("cases_c05", "Require Import LF.Model.PageDB LF.Model.Crash.\nLocal Open Scope N_scope.", "disk * list N", "mismatches_crash")
	crashCases.Shard = 150
	wcrashCases = c.Cases("cases_c05w", "Require Import LF.Model.PageDB LF.Model.Crash LF.Model.CrashWal.\nLocal Open Scope N_scope.", "wdisk * list N", "mismatches_wcrash")
	wcrashCases.Shard = 150
	if err := localHistories(c, c.Rng.Fork(), -1, true); err != nil {
		return err
	}
	if err := localHistories(c, c.Rng.Fork(), -3, true); err != nil {
		return err
	}
	for idx := -4; idx >= -6; idx-- {
		if err := localHistories(c, c.Rng.Fork(), idx, true); err != nil {
			return err
		}
	}
	if err := localHistories(c, c.Rng.Fork(), -2, false); err != nil {
		return err
	}
	if err := localHistories(c, c.Rng.Fork(), -7, false); err != nil {
		return err
	}
	if err := localHistories(c, c.Rng.Fork(), -8, true); err != nil {
		return err
	}
	for i := 0; i < c.Pick(4, 30); i++ {
		if err := localHistories(c, c.Rng.Fork(), i, i%2 == 1); err != nil {
			return err
		}
	}
	if err := restoreFromBackup(c, c.Rng.Fork()); err != nil {
		return err
	}
	for i := 0; i < c.Pick(2, 12); i++ {
		if err := replicaApply(c, c.Rng.Fork(), i); err != nil {
			return err
		}
	}
	return nil
}

// restoreFromBackup: the primary finds that the backup service holds another history of the database than its own (the
// service is authoritative) and replaces the database by the service's snapshot. Interrupted at any point, the restart
// yields either the node's own position and image, or the service's - never a database without its position.
func restoreFromBackup(c *common.Ctx, r *common.Rand) error {
	dir, err := os.MkdirTemp(c.OutDir, "c05b-")
	if err != nil {
		return err
	}
	defer os.RemoveAll(dir)
	svc := filepath.Join(dir, "service")
	_ = os.MkdirAll(svc, 0o755)
	// node A fills the service
	a, err := lfs.Open(filepath.Join(dir, "a"), true, func(s *litefs.Store) { s.BackupClient = litefs.NewFileBackupClient(svc) })
	if err != nil {
		return err
	}
	ha := hist.NewOn(c, r.Fork(), hist.Config{PageSize: 512}, a.Store, a.Exits, "db", nil, 0, false)
	for done, tries := 0, 0; done < 3 && tries < 300; tries++ {
		st := ha.GenStep()
		if st.Op != "rtx" {
			continue
		}
		st.Outcome, st.ToWAL = 0, false
		if ob := ha.Exec(st); ob.Captured && ob.Err == "" {
			done++
		}
	}
	if err := a.Store.SyncBackup(context.Background()); err != nil {
		a.Close()
		return fmt.Errorf("fill service: %w", err)
	}
	svcPos := a.Store.DB("db").Pos()
	svcImg := ha.Ref.Clone()
	a.Close()
	// node B has a history of its own under the same name
	rc := &recorder{src: filepath.Join(dir, "b"), max: 200}
	b, err := lfs.Open(rc.src, true, withRecorder(rc), func(s *litefs.Store) { s.BackupClient = litefs.NewFileBackupClient(svc) })
	if err != nil {
		return err
	}
	defer b.Close()
	hb := hist.NewOn(c, r.Fork(), hist.Config{PageSize: 512}, b.Store, b.Exits, "db", nil, 0, false)
	for done, tries := 0, 0; done < 2 && tries < 300; tries++ {
		st := hb.GenStep()
		if st.Op != "rtx" {
			continue
		}
		st.Outcome, st.ToWAL = 0, false
		if ob := hb.Exec(st); ob.Captured && ob.Err == "" {
			done++
		}
	}
	own := b.Store.DB("db").Pos()
	before := posImg{uint64(own.TXID), uint64(own.PostApplyChecksum), hb.Ref.Clone()}
	after := posImg{uint64(svcPos.TXID), uint64(svcPos.PostApplyChecksum), svcImg}
	snapDir := filepath.Join(dir, "snaps")
	rc.arm(snapDir)
	serr := b.Store.SyncBackup(context.Background())
	rc.snap("operation returned")
	points := rc.disarm()
	got := b.Store.DB("db").Pos()
	c.Distinct("restore-from-backup")
	c.Count("crash_points_restore", len(points))
	rep := map[string]any{"kind": "crash-restore-from-backup", "sync_error": fmt.Sprint(serr)}
	if uint64(got.TXID) != after.txid || uint64(got.PostApplyChecksum) != after.chk {
		// the node did not restore (not this scenario's business): nothing was interrupted
		return nil
	}
	for k, cp := range points {
		allowed := []posImg{before, after}
		if k == len(points)-1 {
			allowed = []posImg{after}
		}
		verify(c, cp, "db", allowed, "C05:restore-from-backup", rep, true, false)
	}
	return nil
}
