// Package c18: stream frames, position maps, chunked bodies on the real code.
package c18

import (
	"bytes"
	"encoding/json"
	"errors"
	"fmt"
	"io"
	"os"
	"os/exec"
	"runtime"
	"sort"
	"strings"
	"time"

	"github.com/superfly/litefs"
	lfshttp "github.com/superfly/litefs/http"
	"github.com/superfly/litefs/verif"
	"github.com/superfly/ltx"

	"lfsverif/internal/common"
)

// segReader returns the given segments one Read at a time (an empty segment is a
// (0, nil) read, which the io.Reader contract permits).
type segReader struct {
	segs [][]byte
}

func (r *segReader) Read(p []byte) (int, error) {
	for {
		if len(r.segs) == 0 {
			return 0, io.EOF
		}
		if len(r.segs[0]) == 0 {
			r.segs = r.segs[1:]
			return 0, nil
		}
		n := copy(p, r.segs[0])
		r.segs[0] = r.segs[0][n:]
		if len(r.segs[0]) == 0 {
			r.segs = r.segs[1:]
		}
		return n, nil
	}
}
func (r *segReader) remaining() int {
	n := 0
	for _, s := range r.segs {
		n += len(s)
	}
	return n
}

func split(r *common.Rand, b []byte) [][]byte {
	var segs [][]byte
	mode := r.Intn(4)
	for len(b) > 0 {
		var n int
		switch mode {
		case 0:
			n = 1
		case 1:
			n = len(b)
		case 2:
			n = 1 + r.Intn(7)
		default:
			n = 1 + r.Intn(len(b))
		}
		if n > len(b) {
			n = len(b)
		}
		if r.Chance(10) {
			segs = append(segs, []byte{})
		}
		segs = append(segs, append([]byte(nil), b[:n]...))
		b = b[n:]
	}
	return segs
}

func coqSegs(segs [][]byte) string {
	var b strings.Builder
	b.WriteString("[")
	for i, s := range segs {
		if i > 0 {
			b.WriteString(";")
		}
		b.WriteString(common.CoqBytes(s))
	}
	b.WriteString("]")
	return b.String()
}

func cloneSegs(segs [][]byte) [][]byte {
	out := make([][]byte, len(segs))
	for i, s := range segs {
		out[i] = append([]byte(nil), s...)
	}
	return out
}

func errCode(err error) uint64 {
	switch {
	case err == nil:
		return 0
	case err == io.EOF:
		return 1
	case errors.Is(err, io.ErrUnexpectedEOF):
		return 2
	default:
		return 3
	}
}

// --- frames ---
type fv struct {
	IsBytes bool
	N       uint64
	B       []byte
}

func frameFields(f litefs.StreamFrame) (uint64, []fv) {
	switch f := f.(type) {
	case *litefs.LTXStreamFrame:
		return 1, []fv{{N: uint64(f.Size)}, {IsBytes: true, B: []byte(f.Name)}}
	case *litefs.ReadyStreamFrame:
		return 2, nil
	case *litefs.EndStreamFrame:
		return 3, nil
	case *litefs.DropDBStreamFrame:
		return 4, []fv{{IsBytes: true, B: []byte(f.Name)}}
	case *litefs.HandoffStreamFrame:
		return 5, []fv{{IsBytes: true, B: []byte(f.LeaseID)}}
	case *litefs.HWMStreamFrame:
		return 6, []fv{{N: uint64(f.TXID)}, {IsBytes: true, B: []byte(f.Name)}}
	case *litefs.HeartbeatStreamFrame:
		return 7, []fv{{N: uint64(f.Timestamp)}}
	}
	return 0, nil
}

func coqVals(vs []fv) string {
	var b strings.Builder
	b.WriteString("[")
	for i, v := range vs {
		if i > 0 {
			b.WriteString(";")
		}
		if v.IsBytes {
			b.WriteString("VBytes " + common.CoqBytes(v.B))
		} else {
			fmt.Fprintf(&b, "VInt %d%%N", v.N)
		}
	}
	b.WriteString("]")
	return b.String()
}

func flatVals(vs []fv) []uint64 {
	var out []uint64
	for _, v := range vs {
		if v.IsBytes {
			out = append(out, 1, uint64(len(v.B)))
			for _, x := range v.B {
				out = append(out, uint64(x))
			}
		} else {
			out = append(out, 0, v.N)
		}
	}
	return out
}

func bytesToU64(b []byte) []uint64 {
	out := make([]uint64, len(b))
	for i, x := range b {
		out[i] = uint64(x)
	}
	return out
}

var interestingLens = []int{0, 1, 2, 7, 255, 256, 257, 1000}

func randName(r *common.Rand, big bool) string {
	n := interestingLens[r.Intn(len(interestingLens))]
	if r.Chance(30) {
		n = r.Intn(40)
	}
	if big && r.Chance(50) {
		n = []int{65535, 65536, 70001}[r.Intn(3)]
	}
	b := r.Bytes(n)
	if r.Chance(50) {
		for i := range b {
			b[i] = 'a' + b[i]%26
		}
	}
	return string(b)
}

func randU64(r *common.Rand) uint64 {
	switch r.Intn(6) {
	case 0:
		return 0
	case 1:
		return ^uint64(0)
	case 2:
		return 1 << 63
	case 3:
		return uint64(r.Intn(1000))
	default:
		return r.U64()
	}
}

func randFrame(r *common.Rand, big bool) litefs.StreamFrame {
	switch r.Intn(7) {
	case 0:
		return &litefs.LTXStreamFrame{Size: int64(randU64(r)), Name: randName(r, big)}
	case 1:
		return &litefs.ReadyStreamFrame{}
	case 2:
		return &litefs.EndStreamFrame{}
	case 3:
		return &litefs.DropDBStreamFrame{Name: randName(r, big)}
	case 4:
		return &litefs.HandoffStreamFrame{LeaseID: randName(r, big)}
	case 5:
		return &litefs.HWMStreamFrame{TXID: ltx.TXID(randU64(r)), Name: randName(r, big)}
	default:
		return &litefs.HeartbeatStreamFrame{Timestamp: int64(randU64(r))}
	}
}

type decRes struct {
	code uint64
	typ  uint64
	vals []fv
	rest int
	pan  string
}

func decodeFrame(segs [][]byte) decRes {
	sr := &segReader{segs: cloneSegs(segs)}
	var res decRes
	res.pan = common.Try(func() {
		f, err := litefs.ReadStreamFrame(sr)
		res.code = errCode(err)
		if err == nil {
			res.typ, res.vals = frameFields(f)
			res.rest = sr.remaining()
		}
	})
	return res
}

func (d decRes) obs() []uint64 {
	if d.pan != "" {
		return []uint64{99}
	}
	if d.code != 0 {
		return []uint64{d.code}
	}
	return append([]uint64{0, d.typ, uint64(d.rest)}, flatVals(d.vals)...)
}

const hdr = "Require Import LF.Base.Bytes LF.Model.Codec.\nLocal Open Scope N_scope."

func Run(c *common.Ctx) error {
	if os.Getenv("LFSVERIF_ALLOC_CHILD") != "" {
		return allocChild()
	}
	cf := c.Cases("cases_c18", hdr, "ccase * list N", "mismatches")
	kinds := map[string]int{}

	// ---------- frames ----------
	nFrames := c.Pick(120, 1200)
	for i := 0; i < nFrames; i++ {
		r := c.Rng.Fork()
		big := i%40 == 39
		f := randFrame(r, big)
		typ, vals := frameFields(f)
		var buf bytes.Buffer
		if err := litefs.WriteStreamFrame(&buf, f); err != nil {
			c.Violate("frame:write-error", fmt.Sprintf("WriteStreamFrame failed: %v", err), map[string]any{"typ": typ})
			continue
		}
		enc := append([]byte(nil), buf.Bytes()...)
		cf.Add(fmt.Sprintf("(CFrameEnc %d %s, %s)", typ, coqVals(vals), common.CoqNList(bytesToU64(enc))), map[string]any{"kind": "frame-enc", "typ": typ})
		c.Evaluations++

		// round trip with a tail, any segmentation
		tail := r.Bytes(r.Intn(6))
		segs := split(r, append(append([]byte(nil), enc...), tail...))
		d := decodeFrame(segs)
		kinds["frame-roundtrip"]++
		c.Evaluations++
		want := append([]uint64{0, typ, uint64(len(tail))}, flatVals(vals)...)
		if !eqU64(d.obs(), want) {
			c.Violate(fmt.Sprintf("frame:roundtrip:type%d", typ), fmt.Sprintf("frame type %d (%d bytes) read back as %v..., want %v...", typ, len(enc), head(d.obs(), 8), head(want, 8)), map[string]any{"kind": "frame-roundtrip", "segs": segs})
		}
		if len(enc) < 3000 {
			cf.Add(fmt.Sprintf("(CFrameDec %s, %s)", coqSegs(segs), common.CoqNList(d.obs())), map[string]any{"kind": "frame-dec", "segs": segs})
		}
		c.Distinct(fmt.Sprintf("frame:%d:%d", typ, len(enc)))

		// every proper prefix (all for short encodings, sampled beyond)
		for cut := 0; cut < len(enc); cut++ {
			if len(enc) > 64 && cut > 24 && cut < len(enc)-8 && !r.Chance(2) {
				continue
			}
			ps := split(r, enc[:cut])
			pd := decodeFrame(ps)
			c.Evaluations++
			kinds["frame-prefix"]++
			wantCode := uint64(2)
			if cut == 0 {
				wantCode = 1
			}
			if pd.pan != "" || pd.code != wantCode {
				c.Violate(fmt.Sprintf("frame:prefix:type%d", typ), fmt.Sprintf("prefix %d/%d of a type-%d frame: got %v (panic %q), want error code %d", cut, len(enc), typ, head(pd.obs(), 6), pd.pan, wantCode), map[string]any{"kind": "frame-prefix", "segs": ps})
			}
			if (cut < 24 && r.Chance(c.Pick(35, 100))) || r.Chance(c.Pick(3, 20)) {
				if cut < 3000 {
					cf.Add(fmt.Sprintf("(CFrameDec %s, %s)", coqSegs(ps), common.CoqNList(pd.obs())), map[string]any{"kind": "frame-prefix", "segs": ps})
				}
			}
		}
		// mutations: bit flips and length edits (small, bounded lengths only to keep allocations sane)
		if len(enc) < 400 {
			for m := 0; m < 4; m++ {
				mut := append([]byte(nil), enc...)
				mut = append(mut, r.Bytes(r.Intn(4))...)
				pos := r.Intn(len(mut))
				mut[pos] ^= 1 << uint(r.Intn(8))
				if hostileLen(mut) {
					continue
				}
				ms := split(r, mut)
				md := decodeFrame(ms)
				c.Evaluations++
				kinds["frame-mutated"]++
				checkSound(c, "frame:mutated", mut, md)
				cf.Add(fmt.Sprintf("(CFrameDec %s, %s)", coqSegs(ms), common.CoqNList(md.obs())), map[string]any{"kind": "frame-mutated", "segs": ms})
			}
		}
	}
	// arbitrary byte strings
	for i := 0; i < c.Pick(150, 2000); i++ {
		r := c.Rng.Fork()
		b := r.Bytes(r.Intn(40))
		if len(b) >= 4 && r.Chance(70) {
			b[0], b[1], b[2], b[3] = 0, 0, 0, byte(r.Intn(9))
		}
		if hostileLen(b) {
			continue
		}
		segs := split(r, b)
		d := decodeFrame(segs)
		c.Evaluations++
		kinds["frame-random"]++
		checkSound(c, "frame:random", b, d)
		cf.Add(fmt.Sprintf("(CFrameDec %s, %s)", coqSegs(segs), common.CoqNList(d.obs())), map[string]any{"kind": "frame-random", "segs": segs})
	}

	// ---------- position maps ----------
	for i := 0; i < c.Pick(60, 600); i++ {
		r := c.Rng.Fork()
		n := r.Intn(6)
		if r.Chance(10) {
			n = 50 + r.Intn(150)
		}
		m := map[string]ltx.Pos{}
		for j := 0; j < n; j++ {
			m[randName(r, false)] = ltx.Pos{TXID: ltx.TXID(randU64(r)), PostApplyChecksum: ltx.Checksum(randU64(r))}
		}
		var buf bytes.Buffer
		if err := lfshttp.WritePosMapTo(&buf, m); err != nil {
			c.Violate("posmap:write-error", err.Error(), nil)
			continue
		}
		enc := append([]byte(nil), buf.Bytes()...)
		names := make([]string, 0, len(m))
		for k := range m {
			names = append(names, k)
		}
		sort.Strings(names)
		var ents []string
		var flat []uint64
		for _, k := range names {
			vs := []fv{{IsBytes: true, B: []byte(k)}, {N: uint64(m[k].TXID)}, {N: uint64(m[k].PostApplyChecksum)}}
			ents = append(ents, coqVals(vs))
			flat = append(flat, flatVals(vs)...)
		}
		if len(enc) < 6000 {
			cf.Add(fmt.Sprintf("(CPosEnc [%s], %s)", strings.Join(ents, ";"), common.CoqNList(bytesToU64(enc))), map[string]any{"kind": "posmap-enc", "n": len(m)})
		}
		tail := r.Bytes(r.Intn(5))
		segs := split(r, append(append([]byte(nil), enc...), tail...))
		obs := decodePos(segs)
		c.Evaluations++
		kinds["posmap-roundtrip"]++
		want := append([]uint64{0, uint64(len(tail))}, flat...)
		if !eqU64(obs, want) {
			c.Violate("posmap:roundtrip", fmt.Sprintf("position map with %d entries read back differently: %v... want %v...", len(m), head(obs, 8), head(want, 8)), map[string]any{"kind": "posmap-roundtrip", "segs": segs})
		}
		if len(enc) < 6000 {
			cf.Add(fmt.Sprintf("(CPosDec %s, %s)", coqSegs(segs), common.CoqNList(obs)), map[string]any{"kind": "posmap-dec", "segs": segs})
		}
		c.Distinct(fmt.Sprintf("posmap:%d:%d", len(m), len(enc)))
		for cut := 0; cut < len(enc); cut++ {
			if len(enc) > 120 && !r.Chance(3) {
				continue
			}
			ps := split(r, enc[:cut])
			po := decodePos(ps)
			c.Evaluations++
			kinds["posmap-prefix"]++
			if po[0] == 0 || po[0] == 99 {
				c.Violate("posmap:prefix", fmt.Sprintf("prefix %d/%d of a position map was accepted or panicked: %v", cut, len(enc), head(po, 6)), map[string]any{"kind": "posmap-prefix", "segs": ps})
			}
			if cut < 3000 && r.Chance(c.Pick(8, 50)) {
				cf.Add(fmt.Sprintf("(CPosDec %s, %s)", coqSegs(ps), common.CoqNList(po)), map[string]any{"kind": "posmap-prefix", "segs": ps})
			}
		}
		// duplicate keys / mutated
		if len(enc) > 4 && len(enc) < 300 {
			mut := append([]byte(nil), enc...)
			mut[r.Intn(len(mut))] ^= 1 << uint(r.Intn(8))
			if !hostilePos(mut) {
				ms := split(r, mut)
				mo := decodePos(ms)
				c.Evaluations++
				kinds["posmap-mutated"]++
				if mo[0] == 99 {
					c.Violate("posmap:panic", "ReadPosMapFrom panicked on a mutated map", map[string]any{"segs": ms})
				}
				cf.Add(fmt.Sprintf("(CPosDec %s, %s)", coqSegs(ms), common.CoqNList(mo)), map[string]any{"kind": "posmap-mutated", "segs": ms})
			}
		}
	}
	// hand-made duplicate-key map: last wins
	{
		var b bytes.Buffer
		b.Write([]byte{0, 0, 0, 2})
		for _, v := range []byte{7, 9} {
			b.Write([]byte{0, 0, 0, 1, 'k'})
			b.Write([]byte{0, 0, 0, 0, 0, 0, 0, v, 0, 0, 0, 0, 0, 0, 0, v})
		}
		segs := [][]byte{b.Bytes()}
		obs := decodePos(segs)
		cf.Add(fmt.Sprintf("(CPosDec %s, %s)", coqSegs(segs), common.CoqNList(obs)), map[string]any{"kind": "posmap-dup"})
	}

	// ---------- chunked bodies ----------
	sizes := []int{65535, 2 * 65535, 65536, 65534, 0, 65537, 2*65535 + 1, 1, 3 * 65535, 100, 2} // the chunk size limit and its multiples first
	for i := 0; i < c.Pick(40, 300); i++ {
		r := c.Rng.Fork()
		nw := 1 + r.Intn(4)
		var ws [][]byte
		total := 0
		bigOK := i%5 == 0
		for j := 0; j < nw; j++ {
			n := r.Intn(300)
			if r.Chance(20) {
				n = 0
			}
			if bigOK && j == 0 {
				n = sizes[(i/5)%len(sizes)]
			}
			ws = append(ws, r.Bytes(n))
			total += n
		}
		var buf bytes.Buffer
		w := verif.NewChunkWriter(&buf)
		for _, p := range ws {
			if n, err := w.Write(p); err != nil || n != len(p) {
				c.Violate("chunk:write", fmt.Sprintf("Write returned (%d,%v) for %d bytes", n, err, len(p)), nil)
			}
		}
		_ = w.Close()
		_ = w.Close() // double close is a no-op
		enc := append([]byte(nil), buf.Bytes()...)
		small := total < 2000
		if small || c.Thorough() && i%10 == 0 && total < 140000 && i < 60 {
			var wl []string
			for _, p := range ws {
				wl = append(wl, common.CoqBytes(p))
			}
			cf.Add(fmt.Sprintf("(CChunkEnc [%s], %s)", strings.Join(wl, ";"), common.CoqNList(bytesToU64(enc))), map[string]any{"kind": "chunk-enc", "sizes": lens(ws)})
		}
		want := bytes.Join(ws, nil)
		tail := r.Bytes(r.Intn(4))
		segs := split(r, append(append([]byte(nil), enc...), tail...))
		data, code, rest, pan := readChunks(r, segs)
		c.Evaluations++
		kinds["chunk-roundtrip"]++
		if pan != "" || code != 0 || !bytes.Equal(data, want) || rest != len(tail) {
			c.Violate("chunk:roundtrip", fmt.Sprintf("chunked body of writes %v read back as %d bytes, end code %d, rest %d (panic %q); want %d bytes, clean end, rest %d", lens(ws), len(data), code, rest, pan, len(want), len(tail)), map[string]any{"kind": "chunk-roundtrip", "sizes": lens(ws)})
		}
		if small {
			cf.Add(fmt.Sprintf("(CChunkDec %s, %s)", coqSegs(segs), common.CoqNList(chunkObs(data, code, rest))), map[string]any{"kind": "chunk-dec", "sizes": lens(ws)})
		}
		c.Distinct(fmt.Sprintf("chunk:%v", lens(ws)))
		// proper prefixes
		for cut := 0; cut < len(enc); cut++ {
			if len(enc) > 200 && cut > 8 && cut < len(enc)-8 && !nearBoundary(ws, cut) && !r.Chance(1) {
				continue
			}
			ps := split(r, enc[:cut])
			pdata, pcode, _, ppan := readChunks(r, ps)
			c.Evaluations++
			kinds["chunk-prefix"]++
			if ppan != "" || pcode == 0 {
				what := "reported a clean end of stream (io.EOF)"
				if ppan != "" {
					what = "panicked: " + ppan
				}
				c.Violate("chunk:prefix:silent-eof", fmt.Sprintf("chunked body (writes %v, %d encoded bytes) cut at byte %d %s after delivering %d bytes", lens(ws), len(enc), cut, what, len(pdata)), map[string]any{"kind": "chunk-prefix", "sizes": lens(ws), "cut": cut})
			}
			if small && cut < 400 && (cut < 6 || r.Chance(c.Pick(15, 60))) {
				cf.Add(fmt.Sprintf("(CChunkDec %s, %s)", coqSegs(ps), common.CoqNList(chunkObs(pdata, pcode, 0))), map[string]any{"kind": "chunk-prefix", "cut": cut})
			}
		}
	}

	// ---------- ReadFullAt ----------
	for i := 0; i < c.Pick(100, 1000); i++ {
		r := c.Rng.Fork()
		file := r.Bytes(r.Intn(50))
		n, off := r.Intn(30), r.Intn(60)
		buf := make([]byte, n)
		got, err := verif.ReadFullAt(&shortReaderAt{b: file, r: r.Fork()}, buf, int64(off))
		c.Evaluations++
		kinds["readfullat"]++
		av := 0
		if off < len(file) {
			av = len(file) - off
		}
		switch {
		case n == 0:
			if err != nil || got != 0 {
				c.Violate("readfullat:zero", fmt.Sprintf("zero-length ReadFullAt returned (%d,%v)", got, err), nil)
			}
		case n <= av:
			if err != nil || got != n || !bytes.Equal(buf, file[off:off+n]) {
				c.Violate("readfullat:ok", fmt.Sprintf("ReadFullAt(%d bytes at %d of %d) = (%d,%v)", n, off, len(file), got, err), nil)
			}
		case av == 0:
			if err != io.EOF {
				c.Violate("readfullat:eof", fmt.Sprintf("ReadFullAt past the end returned %v, want io.EOF", err), nil)
			}
		default:
			if err != io.ErrUnexpectedEOF || got != av {
				c.Violate("readfullat:short", fmt.Sprintf("short ReadFullAt returned (%d,%v), want (%d, ErrUnexpectedEOF)", got, err, av), nil)
			}
		}
	}

	// ---------- hostile length prefixes: allocation out of proportion ----------
	hostile(c)

	for k, v := range kinds {
		c.Stats["kind_"+k] = int64(v)
	}
	c.Sample(map[string]any{"frame_case": "CFrameDec segments of WriteStreamFrame(LTXStreamFrame{Size,Name}) ++ tail", "kinds": kinds})
	return nil
}

func nearBoundary(ws [][]byte, cut int) bool {
	// encoded offsets of chunk headers
	off := 0
	for _, p := range ws {
		for len(p) > 0 {
			n := len(p)
			if n > 65535 {
				n = 65535
			}
			if cut >= off-3 && cut <= off+5 {
				return true
			}
			off += 2 + n
			p = p[n:]
		}
	}
	return cut >= off-3
}

func lens(ws [][]byte) []int {
	out := make([]int, len(ws))
	for i, w := range ws {
		out[i] = len(w)
	}
	return out
}

func chunkObs(data []byte, code uint64, rest int) []uint64 {
	if code == 0 {
		return append([]uint64{0, uint64(rest)}, bytesToU64(data)...)
	}
	return append([]uint64{code}, bytesToU64(data)...)
}

// readChunks consumes a chunk.Reader like io.ReadAll with random buffer sizes.
func readChunks(r *common.Rand, segs [][]byte) (data []byte, code uint64, rest int, pan string) {
	sr := &segReader{segs: cloneSegs(segs)}
	pan = common.Try(func() {
		cr := verif.NewChunkReader(sr)
		for {
			p := make([]byte, 1+r.Intn(300))
			n, err := cr.Read(p)
			data = append(data, p[:n]...)
			if err == io.EOF {
				code = 0
				rest = sr.remaining()
				return
			}
			if err != nil {
				code = errCode(err)
				return
			}
		}
	})
	return
}

type shortReaderAt struct {
	b []byte
	r *common.Rand
}

func (s *shortReaderAt) ReadAt(p []byte, off int64) (int, error) {
	if off >= int64(len(s.b)) {
		return 0, io.EOF
	}
	n := copy(p, s.b[off:])
	if n > 1 && s.r.Chance(50) {
		n = 1 + s.r.Intn(n-1) // short read without error is allowed only with an error per io.ReaderAt; return one
		return n, nil
	}
	if n < len(p) {
		return n, io.EOF
	}
	return n, nil
}

func decodePos(segs [][]byte) []uint64 {
	sr := &segReader{segs: cloneSegs(segs)}
	var out []uint64
	pan := common.Try(func() {
		m, err := lfshttp.ReadPosMapFrom(sr)
		if err != nil {
			out = []uint64{errCode(err)}
			return
		}
		names := make([]string, 0, len(m))
		for k := range m {
			names = append(names, k)
		}
		sort.Strings(names)
		out = []uint64{0, uint64(sr.remaining())}
		for _, k := range names {
			out = append(out, flatVals([]fv{{IsBytes: true, B: []byte(k)}, {N: uint64(m[k].TXID)}, {N: uint64(m[k].PostApplyChecksum)}})...)
		}
	})
	if pan != "" {
		return []uint64{99}
	}
	return out
}

// hostileLen: does a frame byte string carry a length prefix above 1 MiB? (those go to the subprocess test)
func hostileLen(b []byte) bool {
	if len(b) < 8 {
		return false
	}
	typ := uint32(b[0])<<24 | uint32(b[1])<<16 | uint32(b[2])<<8 | uint32(b[3])
	off := -1
	switch typ {
	case 1, 6:
		off = 12
	case 4, 5:
		off = 4
	}
	if off < 0 || len(b) < off+4 {
		return false
	}
	n := uint32(b[off])<<24 | uint32(b[off+1])<<16 | uint32(b[off+2])<<8 | uint32(b[off+3])
	return n > 1<<20
}

func hostilePos(b []byte) bool {
	// conservative: any 4-byte big-endian window with a value above 1 MiB at a position that could be a length
	for i := 0; i+4 <= len(b); i++ {
		if b[i] != 0 || b[i+1] > 0x10 {
			return true
		}
		_ = i
		break
	}
	// scan entry name lengths
	if len(b) < 4 {
		return false
	}
	off := 4
	for off+4 <= len(b) {
		n := uint32(b[off])<<24 | uint32(b[off+1])<<16 | uint32(b[off+2])<<8 | uint32(b[off+3])
		if n > 1<<20 {
			return true
		}
		off += 4 + int(n) + 16
	}
	return false
}

// checkSound: if arbitrary bytes decode to a frame, re-encoding that frame must give back exactly the consumed bytes.
func checkSound(c *common.Ctx, key string, input []byte, d decRes) {
	if d.pan != "" {
		c.Violate(key+":panic", fmt.Sprintf("ReadStreamFrame panicked on %d arbitrary bytes: %s", len(input), d.pan), map[string]any{"bytes": input})
		return
	}
	if d.code != 0 {
		return
	}
	var f litefs.StreamFrame
	switch d.typ {
	case 1:
		f = &litefs.LTXStreamFrame{Size: int64(d.vals[0].N), Name: string(d.vals[1].B)}
	case 2:
		f = &litefs.ReadyStreamFrame{}
	case 3:
		f = &litefs.EndStreamFrame{}
	case 4:
		f = &litefs.DropDBStreamFrame{Name: string(d.vals[0].B)}
	case 5:
		f = &litefs.HandoffStreamFrame{LeaseID: string(d.vals[0].B)}
	case 6:
		f = &litefs.HWMStreamFrame{TXID: ltx.TXID(d.vals[0].N), Name: string(d.vals[1].B)}
	case 7:
		f = &litefs.HeartbeatStreamFrame{Timestamp: int64(d.vals[0].N)}
	}
	var buf bytes.Buffer
	_ = litefs.WriteStreamFrame(&buf, f)
	consumed := input[:len(input)-d.rest]
	if !bytes.Equal(buf.Bytes(), consumed) {
		c.Violate(key+":different-value", fmt.Sprintf("bytes %x decoded to a frame whose encoding is %x", consumed, buf.Bytes()), map[string]any{"bytes": input})
	}
}

func eqU64(a, b []uint64) bool {
	if len(a) != len(b) {
		return false
	}
	for i := range a {
		if a[i] != b[i] {
			return false
		}
	}
	return true
}

func head(a []uint64, n int) []uint64 {
	if len(a) > n {
		return a[:n]
	}
	return a
}

// ---------- hostile lengths, in a subprocess ----------
type allocReq struct {
	Kind  string `json:"kind"` // frame | posmap
	Bytes []byte `json:"bytes"`
}
type allocRes struct {
	TotalAlloc uint64 `json:"total_alloc"`
	Err        string `json:"err"`
}

func allocChild() error {
	var req allocReq
	if err := json.Unmarshal([]byte(os.Getenv("LFSVERIF_ALLOC_CHILD")), &req); err != nil {
		return err
	}
	var m0, m1 runtime.MemStats
	runtime.GC()
	runtime.ReadMemStats(&m0)
	var err error
	switch req.Kind {
	case "frame":
		_, err = litefs.ReadStreamFrame(bytes.NewReader(req.Bytes))
	case "posmap":
		_, err = lfshttp.ReadPosMapFrom(bytes.NewReader(req.Bytes))
	}
	runtime.ReadMemStats(&m1)
	res := allocRes{TotalAlloc: m1.TotalAlloc - m0.TotalAlloc}
	if err != nil {
		res.Err = err.Error()
	}
	b, _ := json.Marshal(res)
	fmt.Println("ALLOC-RESULT " + string(b))
	os.Exit(0)
	return nil
}

func hostile(c *common.Ctx) {
	exe, err := os.Executable()
	if err != nil {
		c.Note("hostile-length test skipped: %v", err)
		return
	}
	type tc struct {
		name string
		req  allocReq
	}
	be32 := func(v uint32) []byte { return []byte{byte(v >> 24), byte(v >> 16), byte(v >> 8), byte(v)} }
	cat := func(bs ...[]byte) []byte { return bytes.Join(bs, nil) }
	zeros8 := make([]byte, 8)
	tcs := []tc{
		{"ltx-name-4GiB", allocReq{"frame", cat(be32(1), zeros8, be32(0xFFFFFFFF))}},
		{"ltx-name-1GiB-some-payload", allocReq{"frame", cat(be32(1), zeros8, be32(0x40000000), make([]byte, 1000))}},
		{"dropdb-name-2GiB", allocReq{"frame", cat(be32(4), be32(0x80000000))}},
		{"handoff-id-4GiB", allocReq{"frame", cat(be32(5), be32(0xFFFFFFFF), []byte("abc"))}},
		{"hwm-name-3GiB", allocReq{"frame", cat(be32(6), zeros8, be32(0xC0000000))}},
		{"posmap-count-4G", allocReq{"posmap", be32(0xFFFFFFFF)}},
		{"posmap-count-64M", allocReq{"posmap", cat(be32(0x04000000), be32(1), []byte("a"), zeros8, zeros8)}},
		{"posmap-name-2GiB", allocReq{"posmap", cat(be32(1), be32(0x80000000), []byte("ab"))}},
	}
	for _, t := range tcs {
		js, _ := json.Marshal(t.req)
		cmd := exec.Command(exe, "-prop", "C18", "-out", c.OutDir)
		cmd.Env = append(os.Environ(), "LFSVERIF_ALLOC_CHILD="+string(js), "GOMEMLIMIT=1GiB", "GOGC=50")
		var out bytes.Buffer
		cmd.Stdout, cmd.Stderr = &out, &out
		done := make(chan error, 1)
		if err := cmd.Start(); err != nil {
			c.Note("hostile child did not start: %v", err)
			continue
		}
		go func() { done <- cmd.Wait() }()
		var werr error
		select {
		case werr = <-done:
		case <-time.After(60 * time.Second):
			_ = cmd.Process.Kill()
			werr = fmt.Errorf("timeout")
		}
		c.Evaluations++
		c.Distinct("hostile:" + t.name)
		bound := uint64(1<<20 + 16*len(t.req.Bytes))
		idx := strings.Index(out.String(), "ALLOC-RESULT ")
		if werr != nil || idx < 0 {
			first := out.String()
			if len(first) > 200 {
				first = first[:200]
			}
			c.Violate("alloc:"+t.req.Kind+":crash", fmt.Sprintf("%s: decoding %d hostile bytes killed the process (%v): %s", t.name, len(t.req.Bytes), werr, strings.ReplaceAll(first, "\n", " | ")), map[string]any{"kind": "hostile", "name": t.name, "bytes": t.req.Bytes})
			continue
		}
		var res allocRes
		_ = json.Unmarshal([]byte(strings.SplitN(out.String()[idx+len("ALLOC-RESULT "):], "\n", 2)[0]), &res)
		c.Stats["alloc_"+t.name] = int64(res.TotalAlloc)
		if res.Err == "" {
			c.Violate("alloc:"+t.req.Kind+":accepted", t.name+": truncated hostile input was accepted", map[string]any{"name": t.name})
		}
		if res.TotalAlloc > bound {
			c.Violate("alloc:"+t.req.Kind+":disproportionate", fmt.Sprintf("%s: %d bytes received made the decoder allocate %d bytes (bound %d)", t.name, len(t.req.Bytes), res.TotalAlloc, bound), map[string]any{"kind": "hostile", "name": t.name, "bytes": t.req.Bytes})
		}
	}
}
