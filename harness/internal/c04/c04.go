// Package c04: reported checksum == from-scratch checksum, over random histories.
package c04

import (
	"fmt"

	"lfsverif/internal/common"
	"lfsverif/internal/hist"
)

func Configs(c *common.Ctx) []hist.Config {
	cfgs := []hist.Config{
		{PageSize: 512, Regime: 0, AllowWAL: true, AllowDrop: true, Clients: true},
		{PageSize: 512, Regime: 1, AllowWAL: true, AllowDrop: true},
		{PageSize: 512, Regime: 1, AllowWAL: false, AllowDrop: false, CommitFaults: true, Clients: true},
		{PageSize: 512, Regime: 2, AllowWAL: true, AllowDrop: false, BigEndian: true},
		{PageSize: 4096, Regime: 0, AllowWAL: true, AllowDrop: true, CommitFaults: true},
		{PageSize: 1024, Regime: 1, AllowWAL: true, AllowDrop: true, BigEndian: true, Clients: true},
	}
	if c.Thorough() {
		cfgs = append(cfgs, hist.Config{PageSize: 2048, Regime: 2, AllowWAL: true, AllowDrop: true},
			hist.Config{PageSize: 8192, Regime: 0, AllowWAL: true, AllowDrop: true, BigEndian: true})
	}
	return cfgs
}

func Run(c *common.Ctx) error {
	nHist := c.Pick(18, 150)
	steps := c.Pick(25, 60)
	cfgs := Configs(c)
	cf := c.Cases("cases_c04", hist.CoqHeader, hist.CoqType, "mismatches")
	cf.Shard = 3
	// fixed history first: commits that fail inside LiteFS (the transaction file cannot be published, SQLite rolls
	// back) while shrinking / growing / in place, each followed by ordinary commits
	{
		cfg := hist.Config{PageSize: 512, CommitFaults: true, Clients: true}
		h, err := hist.New(c, c.Rng.Fork(), cfg)
		if err != nil {
			if h != nil {
				h.Close()
			}
			return fmt.Errorf("history setup: %w", err)
		}
		for _, st := range []hist.Step{
			{Op: "rtx", Writes: map[uint32]uint64{1: 1, 2: 2, 3: 3, 4: 4, 5: 5, 6: 6}, NewSize: 6},
			{Op: "rtx", Writes: map[uint32]uint64{2: 12}, NewSize: 3, FailCommit: true}, // shrink refused
			{Op: "rtx", Writes: map[uint32]uint64{2: 22}, NewSize: 6},
			{Op: "rtx", Writes: map[uint32]uint64{3: 33, 7: 37, 8: 38}, NewSize: 8, FailCommit: true, JMode: 1}, // growth refused
			{Op: "rtx", Writes: map[uint32]uint64{1: 41}, NewSize: 6},
			{Op: "rtx", Writes: map[uint32]uint64{4: 54}, NewSize: 6, FailCommit: true, JMode: 2}, // in place refused
			{Op: "rtx", Writes: map[uint32]uint64{5: 65}, NewSize: 4},
			{Op: "rtx", Writes: map[uint32]uint64{2: 72}, NewSize: 4},
			// writers that die after their page writes (LiteFS rolls the journal back): the last page, the first page,
			// a growing transaction
			{Op: "rtx", Writes: map[uint32]uint64{4: 84}, NewSize: 4, Die: true},
			{Op: "rtx", Writes: map[uint32]uint64{3: 93}, NewSize: 4},
			{Op: "rtx", Writes: map[uint32]uint64{1: 101, 2: 102}, NewSize: 4, Die: true, JMode: 2},
			{Op: "rtx", Writes: map[uint32]uint64{3: 113}, NewSize: 4},
			{Op: "rtx", Writes: map[uint32]uint64{4: 124, 5: 125, 6: 126}, NewSize: 6, Die: true, JMode: 1, JSplit: 1},
			{Op: "rtx", Writes: map[uint32]uint64{2: 132}, NewSize: 4},
		} {
			if ob := h.Exec(st); ob.Panic != "" || len(ob.Exits) > 0 {
				break
			}
		}
		h.CheckCrash(c, "C04")
		h.CheckChecksum(c)
		cf.Add(h.CoqCase(), map[string]any{"kind": "history", "page_size": cfg.PageSize, "scripted": "failed commits", "steps": h.Steps})
		for _, ob := range h.Obs {
			if ob.Err != "" {
				c.Count("scripted_failed_commit_history_errors", 1)
			}
		}
		c.Count("scripted_failed_commit_steps", len(h.Obs))
		h.Close()
	}
	// fixed WAL history: transactions that spill frames into the log and roll back, with LiteFS's own checkpoint
	// (role change, halt lock, restore) running while those frames sit, valid, behind the last commit
	{
		cfg := hist.Config{PageSize: 512, AllowWAL: true, Clients: true}
		h, err := hist.New(c, c.Rng.Fork(), cfg)
		if err != nil {
			if h != nil {
				h.Close()
			}
			return fmt.Errorf("history setup: %w", err)
		}
		for _, st := range []hist.Step{
			{Op: "rtx", Writes: map[uint32]uint64{1: 1, 2: 2, 3: 3, 4: 4, 5: 5}, NewSize: 5, ToWAL: true},
			{Op: "wtx", Frames: [][2]uint64{{2, 12}, {4, 14}}, NewSize: 5},
			{Op: "wabort", Aborted: [][2]uint64{{3, 23}, {6, 26}}, CkptMode: 1},
			{Op: "wtx", Frames: [][2]uint64{{5, 35}}, NewSize: 5},
			{Op: "wabort", Aborted: [][2]uint64{{1, 41}, {2, 42}}, CkptMode: 0},
			{Op: "wtx", Frames: [][2]uint64{{3, 53}}, NewSize: 4},
			{Op: "wabort", Aborted: [][2]uint64{{4, 64}, {5, 65}}, CkptMode: 1},
			{Op: "wtx", Frames: [][2]uint64{{2, 72}}, NewSize: 4},
		} {
			if ob := h.Exec(st); ob.Panic != "" || len(ob.Exits) > 0 {
				break
			}
		}
		h.CheckCrash(c, "C04")
		h.CheckChecksum(c)
		cf.Add(h.CoqCase(), map[string]any{"kind": "history", "page_size": cfg.PageSize, "scripted": "rolled-back WAL transactions", "steps": h.Steps})
		h.Close()
	}
	// fixed history at the largest page size (64 KiB: the database header stores it as 1, the log's header as 65536):
	// transactions in the log, LiteFS's own checkpoint, a restart with the log still holding transactions
	{
		cfg := hist.Config{PageSize: 65536, AllowWAL: true}
		h, err := hist.New(c, c.Rng.Fork(), cfg)
		if err != nil {
			if h != nil {
				h.Close()
			}
			return fmt.Errorf("history setup: %w", err)
		}
		for _, st := range []hist.Step{
			{Op: "rtx", Writes: map[uint32]uint64{1: 1, 2: 2, 3: 3}, NewSize: 3, ToWAL: true},
			{Op: "wtx", Frames: [][2]uint64{{2, 12}, {4, 14}}, NewSize: 4},
			{Op: "lfsckpt"},
			{Op: "wtx", Frames: [][2]uint64{{3, 23}}, NewSize: 4},
			{Op: "wtx", Frames: [][2]uint64{{1, 31}, {5, 35}}, NewSize: 5},
			{Op: "reopen"},
			{Op: "wtx", Frames: [][2]uint64{{2, 42}}, NewSize: 3},
			{Op: "lfsckpt"},
			{Op: "wtx", Frames: [][2]uint64{{3, 53}}, NewSize: 3},
		} {
			if ob := h.Exec(st); ob.Panic != "" || len(ob.Exits) > 0 {
				break
			}
		}
		h.CheckCrash(c, "C04")
		h.CheckChecksum(c)
		cf.Add(h.CoqCase(), map[string]any{"kind": "history", "page_size": cfg.PageSize, "scripted": "64 KiB pages in the log", "steps": h.Steps})
		h.Close()
	}
	// fixed history: a database that grows across pages SQLite never writes, with restarts in between
	for _, ps := range []int{512, 4096} {
		cfg := hist.Config{PageSize: ps, AllowWAL: true}
		h, err := hist.New(c, c.Rng.Fork(), cfg)
		if err != nil {
			if h != nil {
				h.Close()
			}
			return fmt.Errorf("history setup: %w", err)
		}
		for _, st := range hist.UnwrittenGrowthSteps() {
			if ob := h.Exec(st); ob.Panic != "" || len(ob.Exits) > 0 {
				break
			}
		}
		h.CheckCrash(c, "C04")
		h.CheckChecksum(c)
		cf.Add(h.CoqCase(), map[string]any{"kind": "history", "page_size": cfg.PageSize, "scripted": "growth across unwritten pages", "steps": h.Steps})
		h.Close()
	}
	if err := importCases(c); err != nil {
		return err
	}
	for i := 0; i < nHist; i++ {
		cfg := cfgs[i%len(cfgs)]
		h, err := hist.New(c, c.Rng.Fork(), cfg)
		if err != nil {
			if h != nil {
				h.Close()
			}
			return fmt.Errorf("history setup: %w", err)
		}
		h.Run(steps)
		h.CheckCrash(c, "C04")
		h.CheckChecksum(c)
		cf.Add(h.CoqCase(), map[string]any{"kind": "history", "page_size": cfg.PageSize, "regime": cfg.Regime, "big_endian_wal": cfg.BigEndian, "steps": h.Steps})
		c.Count("history_steps", len(h.Obs))
		for _, ob := range h.Obs {
			c.Count("op_"+ob.Op, 1)
			if ob.Err != "" {
				c.Count("op_errors", 1)
			}
		}
		if i == 0 && len(h.Steps) > 3 {
			c.Sample(map[string]any{"history_prefix": h.Steps[:4], "page_size": cfg.PageSize})
		}
		h.Close()
	}
	return nil
}
