package c04

import (
	"bytes"
	"context"
	"fmt"
	"path/filepath"

	"lfsverif/internal/common"
	"lfsverif/internal/hist"
	"lfsverif/internal/lfs"
)

func imageBytes(im *lfs.Image) []byte {
	var b bytes.Buffer
	for _, p := range im.Pages {
		b.Write(p)
	}
	return b.Bytes()
}

// importCases: the reported checksum is the from-scratch checksum of what SQLite sees also around imports - an import
// that is refused after its header was read leaves the committed frames of the log (and a hot journal) where they are;
// an import that succeeds over a hot journal leaves nothing that LiteFS's own recovery would play back over it.
func importCases(c *common.Ctx) error {
	ctx := context.Background()
	// (a) refused imports over a WAL-mode database with committed frames that are not checkpointed yet
	for _, kind := range []string{"truncated-body", "other-page-size"} {
		h, err := hist.New(c, c.Rng.Fork(), hist.Config{PageSize: 512, AllowWAL: true})
		if err != nil {
			if h != nil {
				h.Close()
			}
			return fmt.Errorf("history setup: %w", err)
		}
		for _, st := range []hist.Step{
			{Op: "rtx", Writes: map[uint32]uint64{1: 1, 2: 2, 3: 3, 4: 4, 5: 5}, NewSize: 5, ToWAL: true},
			{Op: "wtx", Frames: [][2]uint64{{2, 12}, {4, 14}, {6, 16}}, NewSize: 6},
		} {
			h.Exec(st)
		}
		before := h.DB.Pos()
		var body []byte
		switch kind {
		case "truncated-body":
			im := &lfs.Image{PageSize: 512}
			for pg := uint32(1); pg <= 6; pg++ {
				im.Pages = append(im.Pages, lfs.MakePage(512, pg, 900+uint64(pg), 6, false))
			}
			body = imageBytes(im)[:512*2+100]
		default:
			im := &lfs.Image{PageSize: 1024}
			for pg := uint32(1); pg <= 3; pg++ {
				im.Pages = append(im.Pages, lfs.MakePage(1024, pg, 950+uint64(pg), 3, false))
			}
			body = imageBytes(im)
		}
		ierr := h.DB.Import(ctx, bytes.NewReader(body))
		c.Evaluations++
		c.Distinct("import-refused-over-wal:" + kind)
		rep := map[string]any{"kind": "import-refused-over-wal", "input": kind}
		after := h.DB.Pos()
		img, _ := lfs.ReadImage(h.DBDir())
		switch {
		case len(h.ExitsFn()) > 0:
			c.Violate("C04:import-refused:exit", fmt.Sprintf("a refused import (%s) made the node call Exit(%v)", kind, h.ExitsFn()), rep)
		case ierr == nil:
			// accepted (not this property's business); the checksum still has to be that of the image
			if img != nil && uint64(after.PostApplyChecksum) != img.Checksum() {
				c.Violate("C04:import:checksum", fmt.Sprintf("after an import (%s) the position reports %016x, the database checksums to %016x", kind, uint64(after.PostApplyChecksum), img.Checksum()), rep)
			}
		case after != before:
			c.Violate("C04:import-refused:position", fmt.Sprintf("a refused import (%s) moved the position from %s to %s", kind, before, after), rep)
		case img == nil || uint64(after.PostApplyChecksum) != img.Checksum():
			var got uint64
			if img != nil {
				got = img.Checksum()
			}
			c.Violate("C04:import-refused:checksum", fmt.Sprintf("an import refused after its header was read (%s: %v) over a WAL-mode database with committed frames in the log: the position still reports %016x, what SQLite sees now checksums to %016x", kind, ierr, uint64(after.PostApplyChecksum), got), rep)
		}
		h.Close()
	}
	// (b) a successful import over a hot journal, then LiteFS's own recovery (role change, halt lock)
	for _, pages := range []uint32{6, 10} {
		h, err := hist.New(c, c.Rng.Fork(), hist.Config{PageSize: 512})
		if err != nil {
			if h != nil {
				h.Close()
			}
			return fmt.Errorf("history setup: %w", err)
		}
		h.Exec(hist.Step{Op: "rtx", Writes: map[uint32]uint64{1: 1, 2: 2, 3: 3, 4: 4, 5: 5, 6: 6, 7: 7, 8: 8}, NewSize: 8})
		// a writer journals and overwrites pages 2, 5 and 8, then dies: the journal stays hot
		tx := lfs.Tx{Writes: map[uint32][]byte{}, NewSize: 8}
		for _, pg := range []uint32{2, 5, 8} {
			tx.Writes[pg] = lfs.MakePage(512, pg, 700+uint64(pg), 8, false)
		}
		if err := h.Pager.RunRollbackTx(h.Ref, tx, lfs.JournalMode(0), lfs.DieAfterWrite, 512, 0); err != nil {
			h.Close()
			return fmt.Errorf("dying writer: %w", err)
		}
		im := &lfs.Image{PageSize: 512}
		for pg := uint32(1); pg <= pages; pg++ {
			im.Pages = append(im.Pages, lfs.MakePage(512, pg, 800+uint64(pg), pages, false))
		}
		ierr := h.DB.Import(ctx, bytes.NewReader(imageBytes(im)))
		rerr := h.DB.Recover(ctx)
		c.Evaluations++
		c.Distinct(fmt.Sprintf("import-over-hot-journal:%d", pages))
		rep := map[string]any{"kind": "import-over-hot-journal", "pages": pages}
		pos := h.DB.Pos()
		img, _ := lfs.ReadImage(h.DBDir())
		raw, _ := lfs.ReadImage(filepath.Dir(h.DB.DatabasePath()))
		_ = raw
		switch {
		case ierr != nil || rerr != nil:
			c.Violate("C04:import-over-journal:failed", fmt.Sprintf("import over a hot journal: import %v, recovery %v", ierr, rerr), rep)
		case img == nil || uint64(pos.PostApplyChecksum) != img.Checksum():
			var got uint64
			n := 0
			if img != nil {
				got, n = img.Checksum(), len(img.Pages)
			}
			c.Violate("C04:import-over-journal:checksum", fmt.Sprintf("a %d-page image was imported over a database with a hot journal, then LiteFS recovered (as at a role change): the position reports %016x, the database (%d pages) checksums to %016x", pages, uint64(pos.PostApplyChecksum), n, got), rep)
		default:
			// (import resets the file change counter and the schema cookie of page 1)
			want := im.Clone()
			copy(want.Pages[0][24:28], []byte{0, 0, 0, 0})
			copy(want.Pages[0][40:44], []byte{0, 0, 0, 0})
			if eq, why := img.Equal(want); !eq {
				c.Violate("C04:import-over-journal:image", "after import and recovery the database is not the imported image: "+why, rep)
			}
		}
		h.Close()
	}
	return nil
}
