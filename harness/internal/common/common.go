// Package common: run context shared by every property harness.  A harness
// drives the real litefs code, (1) evaluates the property predicate itself on
// what it observes with an independent oracle (violations), and (2) records
// every case as a Coq term so that the same inputs are re-executed by the
// Gallina model under vm_compute (correspondence).
package common

import (
	"encoding/json"
	"fmt"
	"os"
	"path/filepath"
	"sort"
	"strings"
)

// Rand is splitmix64; every random choice of a run derives from one state.
type Rand struct{ s uint64 }

func NewRand(seed uint64) *Rand { return &Rand{s: seed*0x9E3779B97F4A7C15 + 0x1234567} }
func (r *Rand) U64() uint64 {
	r.s += 0x9E3779B97F4A7C15
	z := r.s
	z = (z ^ (z >> 30)) * 0xBF58476D1CE4E5B9
	z = (z ^ (z >> 27)) * 0x94D049BB133111EB
	return z ^ (z >> 31)
}
func (r *Rand) Intn(n int) int {
	if n <= 0 {
		return 0
	}
	return int(r.U64() % uint64(n))
}
func (r *Rand) Bool() bool        { return r.U64()&1 == 1 }
func (r *Rand) Chance(p int) bool { return r.Intn(100) < p } // p percent
func (r *Rand) Fork() *Rand       { return &Rand{s: r.U64()} }
func (r *Rand) Bytes(n int) []byte {
	b := make([]byte, n)
	for i := 0; i < n; i += 8 {
		v := r.U64()
		for j := 0; j < 8 && i+j < n; j++ {
			b[i+j] = byte(v >> (8 * j))
		}
	}
	return b
}

type Violation struct {
	Key    string `json:"key"`    // stable key of the failing input / call site (KNOWN_FINDINGS matching)
	Msg    string `json:"msg"`    // what failed
	Replay any    `json:"replay"` // enough to re-execute
}

type CaseFile struct {
	Name    string   // e.g. "cases_main"
	Header  string   // Require Imports
	Type    string   // Coq type of one case
	Checker string   // Coq function : list <Type> -> list nat   (indices of mismatching cases)
	Terms   []string // Coq terms
	Replays []any    // replay object per case
	Shard   int      // cases per generated .v file (default 400)
}

type Ctx struct {
	Prop   string
	Tier   string
	Seed   uint64
	OutDir string
	Replay string // path of a replay file to re-execute, if any
	Rng    *Rand

	Evaluations int
	distinct    map[string]struct{}
	Stats       map[string]int64
	Samples     []any
	Violations  []Violation
	CaseFiles   []*CaseFile
	Notes       []string
	Exhaustive  bool
	Extra       map[string]any
}

func NewCtx(prop, tier string, seed uint64, out string) *Ctx {
	return &Ctx{Prop: prop, Tier: tier, Seed: seed, OutDir: out, Rng: NewRand(seed),
		distinct: map[string]struct{}{}, Stats: map[string]int64{}, Extra: map[string]any{}}
}

func (c *Ctx) Thorough() bool { return c.Tier == "thorough" }

// Pick returns q in the quick tier, t in the thorough tier.
func (c *Ctx) Pick(q, t int) int {
	if c.Thorough() {
		return t
	}
	return q
}

func (c *Ctx) Count(k string, n int) { c.Stats[k] += int64(n) }

// Distinct registers a non-trivial case under its canonical key.
func (c *Ctx) Distinct(key string) { c.distinct[key] = struct{}{} }

func (c *Ctx) Sample(x any) {
	if len(c.Samples) < 6 {
		c.Samples = append(c.Samples, x)
	}
}

func (c *Ctx) Violate(key, msg string, replay any) {
	// keep at most 20 violations; the first ones are the most useful
	c.Stats["violations_total"]++
	perKey := 0
	for _, v := range c.Violations {
		if v.Key == key {
			perKey++
		}
	}
	if perKey < 2 && len(c.Violations) < 40 {
		c.Violations = append(c.Violations, Violation{Key: key, Msg: msg, Replay: replay})
		_ = c.flushPartial() // survive a later crash of the harness
	}
}

func (c *Ctx) flushPartial() error {
	res := map[string]any{"property": c.Prop, "tier": c.Tier, "seed": c.Seed, "evaluations": c.Evaluations,
		"distinct_nontrivial": len(c.distinct), "violations": c.Violations, "partial": true, "stats": c.Stats}
	b, err := json.MarshalIndent(res, "", " ")
	if err != nil {
		return err
	}
	return os.WriteFile(filepath.Join(c.OutDir, "result.json"), b, 0o644)
}

// Try runs f and converts a panic into an error string ("" = no panic).
func Try(f func()) (panicMsg string) {
	defer func() {
		if r := recover(); r != nil {
			panicMsg = fmt.Sprint(r)
			if panicMsg == "" {
				panicMsg = "panic"
			}
		}
	}()
	f()
	return ""
}

func (c *Ctx) Note(f string, a ...any) { c.Notes = append(c.Notes, fmt.Sprintf(f, a...)) }

func (c *Ctx) Cases(name, header, typ, checker string) *CaseFile {
	for _, cf := range c.CaseFiles {
		if cf.Name == name {
			return cf
		}
	}
	cf := &CaseFile{Name: name, Header: header, Type: typ, Checker: checker}
	c.CaseFiles = append(c.CaseFiles, cf)
	return cf
}

func (cf *CaseFile) Add(term string, replay any) {
	cf.Terms = append(cf.Terms, term)
	cf.Replays = append(cf.Replays, replay)
}

const shard = 400
const shardBytes = 400 << 10

// Finish writes result.json and the sharded cases_*.v files.
func (c *Ctx) Finish() error {
	type shardInfo struct {
		File    string `json:"file"`
		Name    string `json:"name"`
		Offset  int    `json:"offset"`
		N       int    `json:"n"`
		Replays []any  `json:"replays"`
	}
	var shards []shardInfo
	for _, cf := range c.CaseFiles {
		shard := shard
		if cf.Shard > 0 {
			shard = cf.Shard
		}
		// a shard holds at most [shard] cases and about [shardBytes] bytes of terms: coqc reads one list
		// literal per file, and very long literals cost it stack and memory
		nfile := 0
		for off := 0; off < len(cf.Terms); {
			end, bytes := off, 0
			for end < len(cf.Terms) && end-off < shard && (end == off || bytes+len(cf.Terms[end]) <= shardBytes) {
				bytes += len(cf.Terms[end])
				end++
			}
			fn := fmt.Sprintf("%s_%d.v", cf.Name, nfile)
			nfile++
			var b strings.Builder
			b.WriteString("From Coq Require Import List ZArith NArith String.\nImport ListNotations.\n")
			b.WriteString(cf.Header)
			b.WriteString("\n")
			fmt.Fprintf(&b, "Definition cases : list (%s) := [\n", cf.Type)
			for i, t := range cf.Terms[off:end] {
				if i > 0 {
					b.WriteString(";\n")
				}
				b.WriteString(t)
			}
			b.WriteString("\n].\n")
			fmt.Fprintf(&b, "Definition bad : list nat := Eval vm_compute in (%s cases).\nPrint bad.\n", cf.Checker)
			if err := os.WriteFile(filepath.Join(c.OutDir, fn), []byte(b.String()), 0o644); err != nil {
				return err
			}
			shards = append(shards, shardInfo{File: fn, Name: cf.Name, Offset: off, N: end - off, Replays: cf.Replays[off:end]})
			off = end
		}
	}
	keys := make([]string, 0, len(c.distinct))
	for k := range c.distinct {
		keys = append(keys, k)
	}
	sort.Strings(keys)
	res := map[string]any{
		"property":            c.Prop,
		"tier":                c.Tier,
		"seed":                c.Seed,
		"evaluations":         c.Evaluations,
		"distinct_nontrivial": len(c.distinct),
		"stats":               c.Stats,
		"samples":             c.Samples,
		"violations":          c.Violations,
		"shards":              shards,
		"notes":               c.Notes,
		"exhaustive":          c.Exhaustive,
		"extra":               c.Extra,
	}
	b, err := json.MarshalIndent(res, "", " ")
	if err != nil {
		return err
	}
	return os.WriteFile(filepath.Join(c.OutDir, "result.json"), b, 0o644)
}

// Coq term helpers
func CoqNatList(xs []int) string {
	var b strings.Builder
	b.WriteString("[")
	for i, x := range xs {
		if i > 0 {
			b.WriteString(";")
		}
		fmt.Fprintf(&b, "%d", x)
	}
	b.WriteString("]")
	return b.String()
}

func CoqNList(xs []uint64) string {
	var b strings.Builder
	b.WriteString("[")
	for i, x := range xs {
		if i > 0 {
			b.WriteString(";")
		}
		fmt.Fprintf(&b, "%d%%N", x)
	}
	b.WriteString("]")
	return b.String()
}

func CoqBytes(bs []byte) string {
	var b strings.Builder
	b.WriteString("[")
	for i, x := range bs {
		if i > 0 {
			b.WriteString(";")
		}
		fmt.Fprintf(&b, "%d", x)
	}
	b.WriteString("]%N")
	return b.String()
}

func CoqBool(v bool) string {
	if v {
		return "true"
	}
	return "false"
}
