// Package c06: divergent or stale replicas are resnapshotted, never patched; files that do not
// extend a node's exact position are rejected without change.
package c06

import (
	"bytes"
	"context"
	"fmt"
	"io"
	"net"
	"net/http"
	"os"
	"path/filepath"
	"strings"
	"time"

	"github.com/superfly/litefs"
	lfshttp "github.com/superfly/litefs/http"
	"github.com/superfly/litefs/verif"
	"github.com/superfly/ltx"
	"golang.org/x/net/http2"
	"golang.org/x/net/http2/h2c"

	"lfsverif/internal/cluster"
	"lfsverif/internal/common"
	"lfsverif/internal/hist"
	"lfsverif/internal/lfs"
)

var bg = context.Background()

type cell struct {
	Kind string `json:"kind"` // chain | fork | ahead | retention | empty | snapshot-only
	K    int    `json:"k"`    // common prefix length (transactions)
	M    int    `json:"m"`    // transactions the replica wrote on its own (fork/ahead)
	N    int    `json:"n"`    // transactions the primary wrote after the split
	PS   int    `json:"page_size"`
	WAL  bool   `json:"wal"`
}

func commitSteps(h *hist.Runner, n int) bool {
	done := 0
	for tries := 0; done < n && tries < 10*n+10; tries++ {
		st := h.GenStep()
		if st.Op != "rtx" && st.Op != "wtx" {
			continue
		}
		if st.Op == "rtx" && st.Outcome != 0 {
			st.Outcome = 0
		}
		ob := h.Exec(st)
		if ob.Panic != "" || len(ob.Exits) > 0 {
			return false
		}
		if ob.Captured {
			done++
		}
	}
	return done == n
}

type posT struct{ TXID, Chk uint64 }

func dbPos(s *litefs.Store) posT {
	if db := s.DB("db"); db != nil {
		p := db.Pos()
		return posT{uint64(p.TXID), uint64(p.PostApplyChecksum)}
	}
	return posT{}
}

func runCell(c *common.Ctx, cl cell, r *common.Rand, cf *common.CaseFile) error {
	dir, err := os.MkdirTemp(c.OutDir, "c06-")
	if err != nil {
		return err
	}
	defer os.RemoveAll(dir)
	rep := func(what string) map[string]any {
		return map[string]any{"kind": "divergence-cell", "cell": cl, "what": what}
	}
	key := func(k string) string { return fmt.Sprintf("C06:%s:%s", cl.Kind, k) }

	clu := cluster.New(dir, 2*time.Second)
	osR := &lfs.RecOS{}
	clu.Opts = func(name string, s *litefs.Store) {
		if name == "r" {
			s.OS = osR
		}
	}
	defer clu.Close()
	p, err := clu.Start("p", true)
	if err != nil {
		return err
	}
	if clu.WaitPrimary(5*time.Second) == nil {
		return fmt.Errorf("no primary")
	}
	cfg := hist.Config{PageSize: cl.PS, Regime: 0, AllowWAL: cl.WAL, ForceWAL: cl.WAL}
	hp := hist.NewOn(c, r.Fork(), cfg, p.Store, p.Exits, "db", nil, 0, false)

	// common prefix of K transactions, replicated to r unless the cell says otherwise
	withReplicaDuringPrefix := cl.Kind == "chain" || cl.Kind == "fork" || cl.Kind == "ahead" || cl.Kind == "retention"
	if withReplicaDuringPrefix {
		if _, err := clu.Start("r", false); err != nil {
			return err
		}
	}
	if !commitSteps(hp, cl.K) {
		hp.CheckCrash(c, "C06")
		return nil
	}
	if cl.Kind == "snapshot-only" {
		if _, err := clu.Start("r", false); err != nil {
			return err
		}
	}
	var rPos posT
	if rn := clu.Node("r"); rn != nil {
		pp := dbPos(p.Store)
		if !cluster.WaitPos(rn, "db", pp.TXID, pp.Chk, 10*time.Second) {
			c.Violate(key("prefix-sync"), "replica did not reach the primary's position while building the common prefix", rep("prefix"))
			return nil
		}
		rn.Stop()
		rPos = pp
	}
	prefixImage := hp.Ref.Clone()
	prefixWAL := hp.WALMode

	// the replica's own (unreplicated) transactions
	if cl.Kind == "fork" || cl.Kind == "ahead" {
		solo := cluster.New(dir, 2*time.Second) // same directory layout, separate lease service
		sn, err := solo.Start("r", true)
		if err != nil {
			return err
		}
		if solo.WaitPrimary(5*time.Second) == nil {
			sn.Stop()
			return fmt.Errorf("solo replica did not become primary")
		}
		hr := hist.NewOn(c, r.Fork(), cfg, sn.Store, sn.Exits, "db", prefixImage, rPos.TXID, prefixWAL)
		ok := commitSteps(hr, cl.M)
		rPos = dbPos(sn.Store)
		sn.Stop()
		if !ok {
			hr.CheckCrash(c, "C06")
			return nil
		}
	}
	// the primary moves on
	if !commitSteps(hp, cl.N) {
		hp.CheckCrash(c, "C06")
		return nil
	}
	if cl.Kind == "retention" {
		if db := p.Store.DB("db"); db != nil {
			_ = db.EnforceRetention(bg, time.Now().Add(time.Hour))
		}
	}
	pPos := dbPos(p.Store)
	pFiles, _ := lfs.ListLTX(filepath.Join(p.Dir, "dbs", "db"))
	pImage, _ := lfs.ReadImage(filepath.Join(p.Dir, "dbs", "db"))

	// (re)join
	osR.Calls = nil
	rn, err := clu.Start("r", false)
	if err != nil {
		return err
	}
	ok := false
	d := 5 * time.Second
	for try := 0; try < 3 && !ok; try++ {
		ok = cluster.WaitPos(rn, "db", pPos.TXID, pPos.Chk, d)
		d *= 4
	}
	c.Evaluations++
	c.Distinct(fmt.Sprintf("cell:%s:%d:%d:%d:%v", cl.Kind, cl.K, cl.M, cl.N, cl.WAL))
	if ex := rn.Exits(); len(ex) > 0 {
		c.Violate(key("exit"), fmt.Sprintf("replica called Exit(%v) while joining", ex), rep("exit"))
		return nil
	}
	if !ok {
		c.Violate(key("no-convergence"), fmt.Sprintf("replica at (%d,%016x) did not reach the primary's position (%d,%016x); it is at %v", rPos.TXID, rPos.Chk, pPos.TXID, pPos.Chk, dbPos(rn.Store)), rep("no-convergence"))
		return nil
	}
	time.Sleep(20 * time.Millisecond)
	rImage, _ := lfs.ReadImage(filepath.Join(rn.Dir, "dbs", "db"))
	if pImage != nil && rImage != nil {
		if eq, why := rImage.Equal(pImage); !eq {
			c.Violate(key("image"), "replica reached the primary's position but its database differs: "+why, rep("image"))
		}
	}
	// what was offered to the replica, in order
	var obs []uint64
	sawSnapshot := false
	var snapMax uint64
	for _, call := range osR.Snapshot() {
		if call.Op == "PROCESSLTX" && call.Fn == "rename" {
			mn, _, err := ltx.ParseFilename(filepath.Base(call.Name2))
			if err != nil {
				continue
			}
			if mn == 1 {
				obs = append(obs, 2)
				sawSnapshot = true
				_, mx, _ := ltx.ParseFilename(filepath.Base(call.Name2))
				snapMax = uint64(mx)
			} else {
				obs = append(obs, 1, uint64(mn))
			}
		}
	}
	obs = append(obs, 0)
	// independent restatement of the property's condition: is the replica's position on the primary's history?
	notOnHistory := rPos.TXID > pPos.TXID || (rPos.TXID == pPos.TXID && rPos.Chk != pPos.Chk)
	if rPos.TXID < pPos.TXID {
		found := false
		for _, f := range pFiles {
			if f.Min == rPos.TXID+1 && f.Max == rPos.TXID+1 {
				found = true
				if f.Pre != rPos.Chk {
					notOnHistory = true
				}
			}
		}
		if !found {
			notOnHistory = true
		}
	}
	if notOnHistory && pPos.TXID > 0 && (len(obs) < 2 || obs[0] != 2) {
		c.Violate(key("patched"), fmt.Sprintf("replica at (%d,%016x), not on the primary's history, was brought to (%d,%016x) with %v (1,t = incremental file t; 2 = snapshot) instead of a snapshot first", rPos.TXID, rPos.Chk, pPos.TXID, pPos.Chk, obs), rep("patched"))
	}
	// a snapshot discards the old chain: what is left is the snapshot and what the primary sent after it, so a
	// restart (with the primary out of reach) comes up on the primary's history too
	if sawSnapshot {
		rFiles, _ := lfs.ListLTX(filepath.Join(rn.Dir, "dbs", "db"))
		for _, f := range rFiles {
			ok := f.Min == 1 && f.Max == snapMax
			if f.Min > snapMax {
				for _, g := range pFiles {
					if f.Min == g.Min && f.Max == g.Max && f.Pre == g.Pre && f.Post == g.Post {
						ok = true
					}
				}
			}
			if !ok && f.Valid {
				c.Violate(key("old-chain-kept"), fmt.Sprintf("the replica (was at (%d,%016x)) was resnapshotted (1-%d) to the primary's position (%d,%016x) but its log still holds %s (%d-%d, post %016x)", rPos.TXID, rPos.Chk, snapMax, pPos.TXID, pPos.Chk, f.Name, f.Min, f.Max, f.Post), rep("old-chain-kept"))
				break
			}
		}
		rn.Stop()
		solo := cluster.New(dir, 2*time.Second)
		sn, err := solo.Start("r", false)
		if err != nil {
			c.Violate(key("restart"), fmt.Sprintf("the resnapshotted replica cannot restart: %v", err), rep("restart"))
			return nil
		}
		got := dbPos(sn.Store)
		im, _ := lfs.ReadImage(filepath.Join(sn.Dir, "dbs", "db"))
		sn.Stop()
		c.Evaluations++
		if got != pPos {
			c.Violate(key("restart-position"), fmt.Sprintf("the resnapshotted replica restarts at (%d,%016x), not at the position it had reached (%d,%016x)", got.TXID, got.Chk, pPos.TXID, pPos.Chk), rep("restart-position"))
		} else if pImage != nil && im != nil {
			if eq, why := im.Equal(pImage); !eq {
				c.Violate(key("restart-image"), "the resnapshotted replica restarts with a different database: "+why, rep("restart-image"))
			}
		}
	}
	// correspondence case for Model/Repl.v
	var fs []string
	for _, f := range pFiles {
		fs = append(fs, fmt.Sprintf("(%d,%d,%d,%d)", f.Min, f.Max, f.Pre, f.Post))
	}
	cf.Add(fmt.Sprintf("((%d,%d), [%s], (%d,%d), %s)", pPos.TXID, pPos.Chk, strings.Join(fs, ";"), rPos.TXID, rPos.Chk, common.CoqNList(obs)), rep("stream-decisions"))
	c.Count("cells_"+cl.Kind, 1)
	return nil
}

// ---------- forged files on the forwarding endpoint ----------
func buildLTX(ps uint32, commit uint32, min, max uint64, pre, post uint64, pages map[uint32][]byte, nodeID uint64) []byte {
	var buf bytes.Buffer
	enc := ltx.NewEncoder(&buf)
	_ = enc.EncodeHeader(ltx.Header{Version: 1, PageSize: ps, Commit: commit, MinTXID: ltx.TXID(min), MaxTXID: ltx.TXID(max),
		Timestamp: time.Now().UnixMilli(), PreApplyChecksum: ltx.Checksum(pre), NodeID: nodeID})
	var pgs []uint32
	for pg := range pages {
		pgs = append(pgs, pg)
	}
	for i := 0; i < len(pgs); i++ {
		for j := i + 1; j < len(pgs); j++ {
			if pgs[j] < pgs[i] {
				pgs[i], pgs[j] = pgs[j], pgs[i]
			}
		}
	}
	for _, pg := range pgs {
		_ = enc.EncodePage(ltx.PageHeader{Pgno: pg}, pages[pg])
	}
	enc.SetPostApplyChecksum(ltx.Checksum(post))
	_ = enc.Close()
	return buf.Bytes()
}

type nodeState struct {
	pos   posT
	files []string
	chk   uint64
}

func snapshotState(dir string, s *litefs.Store) nodeState {
	st := nodeState{pos: dbPos(s)}
	ents, _ := os.ReadDir(filepath.Join(dir, "dbs", "db", "ltx"))
	for _, e := range ents {
		if strings.HasSuffix(e.Name(), ".ltx") { // a file still being received has a temporary name: it is not part of the log
			st.files = append(st.files, e.Name())
		}
	}
	if im, err := lfs.ReadImage(filepath.Join(dir, "dbs", "db")); err == nil {
		st.chk = im.Checksum()
	}
	return st
}

func (a nodeState) equal(b nodeState) bool {
	return a.pos == b.pos && a.chk == b.chk && strings.Join(a.files, ",") == strings.Join(b.files, ",")
}

func forged(c *common.Ctx, r *common.Rand) error {
	dir, err := os.MkdirTemp(c.OutDir, "c06f-")
	if err != nil {
		return err
	}
	defer os.RemoveAll(dir)
	clu := cluster.New(dir, 2*time.Second)
	defer clu.Close()
	p, err := clu.Start("p", true)
	if err != nil {
		return err
	}
	if clu.WaitPrimary(5*time.Second) == nil {
		return fmt.Errorf("no primary")
	}
	ps := 512
	hp := hist.NewOn(c, r.Fork(), hist.Config{PageSize: ps}, p.Store, p.Exits, "db", nil, 0, false)
	if !commitSteps(hp, 3) {
		return nil
	}
	pos := dbPos(p.Store)
	img := hp.Ref
	tgt := uint32(len(img.Pages))
	newPage := lfs.MakePage(ps, tgt, 424242, uint32(len(img.Pages)), false)
	after := img.Clone()
	after.Pages[tgt-1] = newPage
	good := func(min, max, pre uint64) []byte {
		return buildLTX(uint32(ps), uint32(len(img.Pages)), min, max, pre, after.Checksum(), map[uint32][]byte{tgt: newPage}, 777)
	}
	type tc struct {
		name string
		body []byte
	}
	// whole-database files (first id 1, no predecessor): what the node has is replaced, so on the forwarding
	// endpoint they extend nothing unless the database is still at position 0
	whole := func(max uint64, im *lfs.Image) []byte {
		pages := map[uint32][]byte{}
		for i, b := range im.Pages {
			pages[uint32(i+1)] = b
		}
		return buildLTX(uint32(ps), uint32(len(im.Pages)), 1, max, 0, im.Checksum(), pages, 777)
	}
	corrupt := good(pos.TXID+1, pos.TXID+1, pos.Chk)
	corrupt[ltx.HeaderSize+20] ^= 0x40
	cases := []tc{
		{"min-too-high", good(pos.TXID+2, pos.TXID+2, pos.Chk)},
		{"min-too-low", good(pos.TXID, pos.TXID, pos.Chk)},
		// files that cover several transactions: only the first transaction id decides whether a file extends the position
		{"range-overlapping-by-one", good(pos.TXID, pos.TXID+1, pos.Chk)},
		{"range-overlapping-by-two", good(pos.TXID-1, pos.TXID+1, pos.Chk)},
		{"range-from-one-without-being-a-snapshot", good(1, pos.TXID+1, pos.Chk)},
		{"range-with-a-gap", good(pos.TXID+2, pos.TXID+3, pos.Chk)},
		{"whole-database-file-ending-below-the-position", whole(pos.TXID-1, after)},
		{"whole-database-file-ending-at-the-position", whole(pos.TXID, after)},
		{"whole-database-file-ending-beyond-the-position", whole(pos.TXID+1, after)},
		{"wrong-pre-checksum", good(pos.TXID+1, pos.TXID+1, pos.Chk^0x55)},
		{"corrupt-body", corrupt},
		{"truncated", good(pos.TXID+1, pos.TXID+1, pos.Chk)[:ltx.HeaderSize+30]},
		{"garbage", r.Bytes(300)},
		{"empty", nil},
	}
	// the sender holds the database's halt lock, as the forwarding endpoint requires
	if _, err := p.Store.DB("db").AcquireHaltLock(context.Background(), 55); err != nil {
		return fmt.Errorf("halt lock: %v", err)
	}
	defer p.Store.DB("db").ReleaseHaltLock(context.Background(), 55)
	for _, t := range cases {
		before := snapshotState(p.Dir, p.Store)
		req, _ := http.NewRequest("POST", p.Server.URL()+"/tx?name=db&lockID=55", bytes.NewReader(t.body))
		req.Header.Set("Litefs-Id", "00000000000003E7")
		resp, err := http.DefaultClient.Do(req)
		code := 0
		if err == nil {
			code = resp.StatusCode
			_, _ = io.Copy(io.Discard, resp.Body)
			resp.Body.Close()
		}
		afterSt := snapshotState(p.Dir, p.Store)
		c.Evaluations++
		c.Distinct("forged-tx:" + t.name)
		// the endpoint's rule on the model (files whose header and body are well formed)
		if len(t.body) >= ltx.HeaderSize && t.name != "corrupt-body" && t.name != "truncated" && t.name != "garbage" {
			var hdr ltx.Header
			if hdr.UnmarshalBinary(t.body[:ltx.HeaderSize]) == nil {
				acc := uint64(0)
				if code >= 200 && code < 300 {
					acc = 1
				}
				cfF := c.Cases("cases_c06f", "Require Import LF.Model.PageDB.\nLocal Open Scope N_scope.", "N * N * N * N * N", "mismatches_forward")
				cfF.Add(fmt.Sprintf("(%d, %d, %d, %d, %d)", before.pos.TXID, before.pos.Chk, uint64(hdr.MinTXID), uint64(hdr.PreApplyChecksum), acc), map[string]any{"kind": "forged-tx", "name": t.name})
			}
		}
		if ex := p.Exits(); len(ex) > 0 {
			c.Violate("C06:forged-tx:exit:"+t.name, fmt.Sprintf("forged transaction file (%s) on /tx made the primary call Exit(%v)", t.name, ex), map[string]any{"kind": "forged-tx", "name": t.name})
			return nil
		}
		if code >= 200 && code < 300 {
			c.Violate("C06:forged-tx:accepted:"+t.name, fmt.Sprintf("forged transaction file (%s) on /tx was accepted with status %d", t.name, code), map[string]any{"kind": "forged-tx", "name": t.name})
		}
		if !before.equal(afterSt) {
			c.Violate("C06:forged-tx:changed:"+t.name, fmt.Sprintf("rejected transaction file (%s) on /tx changed the node: before %+v after %+v", t.name, before, afterSt), map[string]any{"kind": "forged-tx", "name": t.name})
		}
	}
	// positive control: the same request with a file that does extend the position is applied
	{
		req, _ := http.NewRequest("POST", p.Server.URL()+"/tx?name=db&lockID=55", bytes.NewReader(good(pos.TXID+1, pos.TXID+1, pos.Chk)))
		req.Header.Set("Litefs-Id", "00000000000003E7")
		resp, err := http.DefaultClient.Do(req)
		code := 0
		if err == nil {
			code = resp.StatusCode
			_, _ = io.Copy(io.Discard, resp.Body)
			resp.Body.Close()
		}
		c.Evaluations++
		cfF := c.Cases("cases_c06f", "Require Import LF.Model.PageDB.\nLocal Open Scope N_scope.", "N * N * N * N * N", "mismatches_forward")
		okN := uint64(0)
		if code == 200 {
			okN = 1
		}
		cfF.Add(fmt.Sprintf("(%d, %d, %d, %d, %d)", pos.TXID, pos.Chk, pos.TXID+1, pos.Chk, okN), map[string]any{"kind": "forged-tx", "name": "control"})
		if np := dbPos(p.Store); code != 200 || np.TXID != pos.TXID+1 || np.Chk != after.Checksum() {
			c.Violate("C06:forged-tx:control", fmt.Sprintf("a well-formed forwarded file from the lock holder answered %d and left the position at (%d,%016x), want (%d,%016x)", code, np.TXID, np.Chk, pos.TXID+1, after.Checksum()), map[string]any{"kind": "forged-tx", "name": "control"})
		}
	}
	// ---- the same on the replication stream: a replica connected to a primary that offers bad files ----
	for _, t := range []tc{cases[0], cases[1], cases[9], cases[10], {name: "corrupt-snapshot"}} {
		if err := badStream(c, r, dir, t.name, ps); err != nil {
			return err
		}
	}
	return nil
}

// badStream: replica "r" holds a 3-transaction database replicated from a real primary; it then
// connects to a fake primary that offers one file that does not extend its position.
func badStream(c *common.Ctx, r *common.Rand, base, name string, ps int) error {
	dir, err := os.MkdirTemp(base, "bs-")
	if err != nil {
		return err
	}
	clu := cluster.New(dir, 2*time.Second)
	p, err := clu.Start("p", true)
	if err != nil {
		return err
	}
	if clu.WaitPrimary(5*time.Second) == nil {
		clu.Close()
		return fmt.Errorf("no primary")
	}
	rn, err := clu.Start("r", false)
	if err != nil {
		clu.Close()
		return err
	}
	hp := hist.NewOn(c, r.Fork(), hist.Config{PageSize: ps}, p.Store, p.Exits, "db", nil, 0, false)
	if !commitSteps(hp, 3) {
		clu.Close()
		return nil
	}
	pos := dbPos(p.Store)
	if !cluster.WaitPos(rn, "db", pos.TXID, pos.Chk, 10*time.Second) {
		clu.Close()
		return nil
	}
	clusterID := p.Store.ClusterID()
	img := hp.Ref
	clu.Close()

	tgt := uint32(len(img.Pages))
	newPage := lfs.MakePage(ps, tgt, 515151, uint32(len(img.Pages)), false)
	after := img.Clone()
	after.Pages[tgt-1] = newPage
	mk := func(min, pre uint64) []byte {
		return buildLTX(uint32(ps), uint32(len(img.Pages)), min, min, pre, after.Checksum(), map[uint32][]byte{tgt: newPage}, 4242)
	}
	var body []byte
	switch name {
	case "min-too-high":
		body = mk(pos.TXID+2, pos.Chk)
	case "min-too-low":
		body = mk(pos.TXID, pos.Chk)
	case "wrong-pre-checksum":
		body = mk(pos.TXID+1, pos.Chk^0x55)
	case "corrupt-snapshot":
		// a whole-database file (what a replica that needs a snapshot is sent) whose body does not verify
		pages := map[uint32][]byte{}
		for i, b := range after.Pages {
			pages[uint32(i+1)] = b
		}
		body = buildLTX(uint32(ps), uint32(len(after.Pages)), 1, pos.TXID+1, 0, after.Checksum(), pages, 4242)
		body[ltx.HeaderSize+40] ^= 0x40
	default: // corrupt body with an extending header: explored, reported separately (recovery is C05's subject)
		body = mk(pos.TXID+1, pos.Chk)
		body[ltx.HeaderSize+20] ^= 0x40
	}
	// fake primary
	served := make(chan struct{}, 4)
	h2s := &http2.Server{}
	ln, err := net.Listen("tcp", "localhost:0")
	if err != nil {
		return err
	}
	srv := &http.Server{Handler: h2c.NewHandler(http.HandlerFunc(func(w http.ResponseWriter, req *http.Request) {
		if req.URL.Path != "/stream" {
			http.NotFound(w, req)
			return
		}
		_, _ = lfshttp.ReadPosMapFrom(req.Body)
		w.Header().Set("Litefs-Cluster-Id", clusterID)
		w.Header().Set("Litefs-Id", "0000000000001092")
		w.WriteHeader(200)
		w.(http.Flusher).Flush()
		_ = litefs.WriteStreamFrame(w, &litefs.LTXStreamFrame{Name: "db"})
		cw := verif.NewChunkWriter(w)
		_, _ = cw.Write(body)
		_ = cw.Close()
		_ = litefs.WriteStreamFrame(w, &litefs.ReadyStreamFrame{})
		w.(http.Flusher).Flush()
		served <- struct{}{}
		select {
		case <-req.Context().Done():
		case <-time.After(300 * time.Millisecond):
		}
	}), h2s)}
	go func() { _ = srv.Serve(ln) }()
	defer srv.Close()

	// restart the replica pointing at the fake primary
	rdir := filepath.Join(dir, "r")
	var exits []int
	s := litefs.NewStore(rdir, false)
	s.Exit = func(code int) { exits = append(exits, code) }
	s.Client = lfshttp.NewClient()
	s.ReconnectDelay = time.Hour
	s.RetentionMonitorInterval = 0
	s.Leaser = litefs.NewStaticLeaser(false, "fake", "http://"+ln.Addr().String())
	if err := s.Open(); err != nil {
		return nil
	}
	before := snapshotState(rdir, s)
	select {
	case <-served:
	case <-time.After(5 * time.Second):
	}
	time.Sleep(100 * time.Millisecond)
	afterSt := snapshotState(rdir, s)
	_ = s.Close()
	c.Evaluations++
	c.Distinct("bad-stream:" + name)
	rep := map[string]any{"kind": "bad-stream", "name": name}
	if name == "corrupt-body" || name == "corrupt-snapshot" {
		// the header extends the position but the body does not verify: must be rejected without
		// modifying the database, its position or its log, and the node must be able to restart
		c.Count("bad_stream_corrupt_body_exits", len(exits))
		s2 := litefs.NewStore(rdir, false)
		s2.Exit = func(int) {}
		s2.Leaser = litefs.NewStaticLeaser(false, "fake", "http://127.0.0.1:1")
		s2.Client = lfshttp.NewClient()
		s2.ReconnectDelay = time.Hour
		s2.RetentionMonitorInterval = 0
		reopenErr := s2.Open()
		var st2 nodeState
		if reopenErr == nil {
			st2 = snapshotState(rdir, s2)
		}
		_ = s2.Close()
		switch {
		case reopenErr != nil:
			c.Violate("C06:bad-stream:"+name+":cannot-restart", fmt.Sprintf("a stream file with a valid header and a corrupt body was stored before verification (Exit calls %v); the node then fails to restart: %v", exits, reopenErr), rep)
		case !before.equal(afterSt) || !before.equal(st2):
			c.Violate("C06:bad-stream:"+name+":changed", fmt.Sprintf("a stream file with a corrupt body changed the replica (Exit calls %v): before %+v after %+v after-restart %+v", exits, before, afterSt, st2), rep)
		case len(exits) > 0:
			c.Violate("C06:bad-stream:"+name+":exit", fmt.Sprintf("a stream file with a corrupt body made the replica call Exit(%v)", exits), rep)
		}
		return nil
	}
	if len(exits) > 0 {
		c.Violate("C06:bad-stream:exit:"+name, fmt.Sprintf("a stream file that does not extend the replica's position (%s) made it call Exit(%v)", name, exits), rep)
	}
	if !before.equal(afterSt) {
		c.Violate("C06:bad-stream:changed:"+name, fmt.Sprintf("a stream file that does not extend the replica's position (%s) changed it: before %+v after %+v", name, before, afterSt), rep)
	}
	return nil
}

func Run(c *common.Ctx) error {
	cf := c.Cases("cases_c06", "Require Import LF.Model.Repl.\nLocal Open Scope N_scope.", "pos * list (N * N * N * N) * pos * list N", "mismatches")
	kinds := []string{"chain", "fork", "ahead", "retention", "empty", "snapshot-only"}
	var cells []cell
	for _, k := range kinds {
		for _, kk := range []int{1, 3} {
			for _, m := range []int{1, 2} {
				for _, n := range []int{0, 1, 3} {
					if (k == "chain" || k == "retention" || k == "empty" || k == "snapshot-only") && m != 1 {
						continue
					}
					if k == "ahead" && n != 0 {
						continue
					}
					cells = append(cells, cell{Kind: k, K: kk, M: m, N: n, PS: 512})
				}
			}
		}
	}
	// same TXID, different checksum: fork with m == n
	cells = append(cells, cell{Kind: "fork", K: 2, M: 2, N: 2, PS: 512}, cell{Kind: "fork", K: 2, M: 1, N: 1, PS: 4096, WAL: true})
	if c.Thorough() {
		for i := range cells {
			cc := cells[i]
			cc.PS, cc.WAL = 4096, true
			cells = append(cells, cc)
		}
	}
	for _, cl := range cells {
		if err := runCell(c, cl, c.Rng.Fork(), cf); err != nil {
			return fmt.Errorf("cell %+v: %w", cl, err)
		}
	}
	if err := forged(c, c.Rng.Fork()); err != nil {
		return err
	}
	c.Sample(map[string]any{"cells": len(cells), "example_cell": cells[3]})
	return nil
}
