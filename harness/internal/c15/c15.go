// Package c15: dropping a database is a replicated transaction; recreation continues the log.
package c15

import (
	"context"
	"fmt"
	"os"
	"path/filepath"
	"sort"
	"time"

	"github.com/superfly/litefs"

	"lfsverif/internal/cluster"
	"lfsverif/internal/common"
	"lfsverif/internal/hist"
	"lfsverif/internal/lfs"
)

var bg = context.Background()

type posT struct{ TXID, Chk uint64 }

func dbPos(s *litefs.Store) posT {
	if db := s.DB("db"); db != nil {
		p := db.Pos()
		return posT{uint64(p.TXID), uint64(p.PostApplyChecksum)}
	}
	return posT{}
}

func filesPresent(dir string) []string {
	var out []string
	for _, f := range []string{"database", "journal", "wal", "shm"} {
		if _, err := os.Stat(filepath.Join(dir, "dbs", "db", f)); err == nil {
			out = append(out, f)
		}
	}
	return out
}

func commitN(h *hist.Runner, n int) bool {
	done := 0
	for tries := 0; done < n && tries < 3*n+3; tries++ {
		st := h.GenStep()
		if st.Op != "rtx" && st.Op != "wtx" {
			continue
		}
		st.Outcome = 0
		ob := h.Exec(st)
		if ob.Panic != "" || len(ob.Exits) > 0 {
			return false
		}
		if ob.Captured {
			done++
		} else if ob.Err != "" {
			return false
		}
	}
	return done == n
}

type scen struct {
	Cycles     int   `json:"cycles"`
	PageSizes  []int `json:"page_sizes"` // page size used in each life of the database
	WAL        bool  `json:"wal"`
	LagReplica bool  `json:"lag_replica"`     // r2 is stopped during the drop and restarted afterwards
	LateJoin   bool  `json:"late_join"`       // r3 joins after the last drop
	RestartP   bool  `json:"restart_primary"` // the primary restarts between the last write and the drop (Open leaves a shared-memory file behind, in either journal mode)
}

func runScen(c *common.Ctx, sc scen, r *common.Rand, cf *common.CaseFile) error {
	dir, err := os.MkdirTemp(c.OutDir, "c15-")
	if err != nil {
		return err
	}
	defer os.RemoveAll(dir)
	rep := func(what string) map[string]any {
		return map[string]any{"kind": "drop-scenario", "scenario": sc, "what": what}
	}
	clu := cluster.New(dir, 2*time.Second)
	defer clu.Close()
	p, err := clu.Start("p", true)
	if err != nil {
		return err
	}
	if clu.WaitPrimary(5*time.Second) == nil {
		return fmt.Errorf("no primary")
	}
	if _, err := clu.Start("r1", false); err != nil {
		return err
	}
	if _, err := clu.Start("r2", false); err != nil {
		return err
	}
	var ref *lfs.Image
	refPos := uint64(0)
	var allObs []hist.Obs
	var allSteps []hist.Step
	for cyc := 0; cyc < sc.Cycles; cyc++ {
		ps := sc.PageSizes[cyc%len(sc.PageSizes)]
		cfg := hist.Config{PageSize: ps, Regime: 0, AllowWAL: sc.WAL, ForceWAL: sc.WAL}
		h := hist.NewOn(c, r.Fork(), cfg, p.Store, p.Exits, "db", &lfs.Image{PageSize: ps}, refPos, false)
		ok := commitN(h, 2+r.Intn(2))
		allObs, allSteps = append(allObs, h.Obs...), append(allSteps, h.Steps...)
		c.Evaluations++
		c.Distinct(fmt.Sprintf("life:%d:%d:%v", cyc, ps, sc.WAL))
		if !ok {
			last := h.Obs[len(h.Obs)-1]
			if last.Panic != "" || len(last.Exits) > 0 {
				h.CheckCrash(c, "C15")
				return nil
			}
			c.Violate(fmt.Sprintf("C15:recreate:write-refused:ps%d-after-ps%d", ps, sc.PageSizes[(cyc+len(sc.PageSizes)-1)%len(sc.PageSizes)]),
				fmt.Sprintf("life %d of the database (page size %d, after a drop of a %d-byte-page database): writes are refused: %s", cyc, ps, sc.PageSizes[(cyc+len(sc.PageSizes)-1)%len(sc.PageSizes)], last.Err), rep("recreate"))
			return nil
		}
		// the log continues: every captured commit advanced by exactly one from the position before
		for _, ob := range h.Obs {
			if ob.Captured {
				refPos++
				if ob.TXID != refPos {
					c.Violate("C15:recreate:txid", fmt.Sprintf("after recreation the TXID sequence does not continue: got %d want %d", ob.TXID, refPos), rep("txid"))
					return nil
				}
			}
		}
		ref = h.Ref
		_ = ref
		h.CheckChain(c)
		if sc.LagReplica && cyc == 0 {
			if n := clu.Node("r2"); n != nil {
				n.Stop()
			}
		}
		if sc.RestartP {
			at := dbPos(p.Store)
			p.Stop()
			if p, err = clu.Start("p", true); err != nil {
				c.Violate("C15:restart-primary", fmt.Sprintf("the primary cannot restart: %v", err), rep("restart-primary"))
				return nil
			}
			deadline := time.Now().Add(6 * time.Second)
			for !p.Store.IsPrimary() && time.Now().Before(deadline) {
				time.Sleep(2 * time.Millisecond)
			}
			if !p.Store.IsPrimary() || dbPos(p.Store) != at {
				return fmt.Errorf("primary after restart: primary=%v at %v want %v", p.Store.IsPrimary(), dbPos(p.Store), at)
			}
		}
		// drop on the primary
		before := dbPos(p.Store)
		hd := hist.NewOn(c, r.Fork(), cfg, p.Store, p.Exits, "db", h.Ref, refPos, h.WALMode)
		ob := hd.Exec(hist.Step{Op: "drop"})
		allObs, allSteps = append(allObs, hd.Obs...), append(allSteps, hd.Steps...)
		c.Evaluations++
		if ob.Panic != "" || len(ob.Exits) > 0 || ob.Err != "" {
			c.Violate("C15:drop:failed", fmt.Sprintf("drop failed: err=%q panic=%q exits=%v", ob.Err, ob.Panic, ob.Exits), rep("drop"))
			return nil
		}
		refPos++
		after := dbPos(p.Store)
		if after.TXID != before.TXID+1 || after.Chk != lfs.ChecksumFlag {
			c.Violate("C15:drop:position", fmt.Sprintf("drop moved the position from (%d,%016x) to (%d,%016x); want TXID+1 with the empty checksum", before.TXID, before.Chk, after.TXID, after.Chk), rep("drop-pos"))
		}
		if fp := filesPresent(p.Dir); len(fp) > 0 {
			c.Violate("C15:drop:files-left", fmt.Sprintf("after the drop the primary still has %v", fp), rep("drop-files"))
		}
		if db := p.Store.DB("db"); db != nil && db.PageN() != 0 {
			c.Violate("C15:drop:listed", "dropped database still has a non-zero page count (it stays in directory listings)", rep("drop-listed"))
		}
		if sc.LagReplica && cyc == 0 {
			if _, err := clu.Start("r2", false); err != nil {
				return err
			}
		}
		// replicas follow
		nodes := []string{"r1", "r2"}
		for _, nm := range nodes {
			n := clu.Node(nm)
			if n == nil || n.Closed() {
				continue
			}
			if !cluster.WaitPos(n, "db", after.TXID, after.Chk, 10*time.Second) {
				c.Violate("C15:drop:replica-position", fmt.Sprintf("replica %s did not reach the drop position (%d,%016x); at %v exits=%v", nm, after.TXID, after.Chk, dbPos(n.Store), n.Exits()), rep("replica-pos"))
				continue
			}
			time.Sleep(10 * time.Millisecond)
			if fp := filesPresent(n.Dir); len(fp) > 0 {
				c.Violate("C15:drop:replica-files", fmt.Sprintf("replica %s still has %v after applying the drop", nm, fp), rep("replica-files"))
			}
			if db := n.Store.DB("db"); db != nil && db.PageN() != 0 {
				c.Violate("C15:drop:replica-listed", fmt.Sprintf("replica %s still lists the dropped database", nm), rep("replica-listed"))
			}
		}
	}
	// final life: recreate once more and check every node (including a late joiner and a restarted one) replicates it
	ps := sc.PageSizes[sc.Cycles%len(sc.PageSizes)]
	cfg := hist.Config{PageSize: ps, Regime: 0, AllowWAL: sc.WAL, ForceWAL: sc.WAL}
	h := hist.NewOn(c, r.Fork(), cfg, p.Store, p.Exits, "db", &lfs.Image{PageSize: ps}, refPos, false)
	if sc.LateJoin {
		r3, err := clu.Start("r3", false)
		if err != nil {
			return err
		}
		// a replica that joins while the database is dropped learns the drop (a snapshot of nothing)
		if dp := dbPos(p.Store); !cluster.WaitPos(r3, "db", dp.TXID, dp.Chk, 5*time.Second) {
			c.Violate("C15:drop:late-joiner", fmt.Sprintf("a replica that joined while the database was dropped did not reach the drop position (%d,%016x); at %v exits=%v", dp.TXID, dp.Chk, dbPos(r3.Store), r3.Exits()), rep("late-joiner"))
		}
	}
	if n := clu.Node("r1"); n != nil { // restart r1 after the drop: the drop must survive restarts
		n.Stop()
		if _, err := clu.Start("r1", false); err != nil {
			c.Violate("C15:restart-after-drop", fmt.Sprintf("replica cannot restart after applying a drop: %v", err), rep("restart"))
			return nil
		}
	}
	ok := commitN(h, 2)
	allObs, allSteps = append(allObs, h.Obs...), append(allSteps, h.Steps...)
	c.Evaluations++
	if !ok {
		last := h.Obs[len(h.Obs)-1]
		if last.Panic != "" || len(last.Exits) > 0 {
			h.CheckCrash(c, "C15")
			return nil
		}
		c.Violate(fmt.Sprintf("C15:recreate:write-refused:ps%d-after-ps%d", ps, sc.PageSizes[(sc.Cycles+len(sc.PageSizes)-1)%len(sc.PageSizes)]),
			fmt.Sprintf("recreated database (page size %d): writes are refused: %s", ps, last.Err), rep("recreate-final"))
		return nil
	}
	pp := dbPos(p.Store)
	pimg, _ := lfs.ReadImage(filepath.Join(p.Dir, "dbs", "db"))
	for _, n := range clu.Nodes {
		if n.Name == "p" || n.Closed() {
			continue
		}
		if !cluster.WaitPos(n, "db", pp.TXID, pp.Chk, 10*time.Second) {
			c.Violate("C15:recreate:replica-position", fmt.Sprintf("replica %s did not replicate the recreated database: at %v want (%d,%016x); exits=%v", n.Name, dbPos(n.Store), pp.TXID, pp.Chk, n.Exits()), rep("recreate-replica"))
			continue
		}
		time.Sleep(10 * time.Millisecond)
		rimg, _ := lfs.ReadImage(filepath.Join(n.Dir, "dbs", "db"))
		if pimg != nil && rimg != nil {
			if eq, why := rimg.Equal(pimg); !eq {
				c.Violate("C15:recreate:replica-image", fmt.Sprintf("replica %s differs from the primary after recreation: %s", n.Name, why), rep("recreate-image"))
			}
		}
	}
	// correspondence: the primary's whole multi-life history on the PageDB model (same page size lives only:
	// the model is parameterised by one lock page number)
	same := true
	for _, x := range sc.PageSizes {
		if x != sc.PageSizes[0] {
			same = false
		}
	}
	if same {
		hh := &hist.Runner{Cfg: hist.Config{PageSize: sc.PageSizes[0]}, Obs: allObs, Steps: allSteps}
		cf.Add(hh.CoqCase(), rep("primary-history"))
	}
	return nil
}

func Run(c *common.Ctx) error {
	cf := c.Cases("cases_c15", hist.CoqHeader, hist.CoqType, "mismatches")
	cf.Shard = 3
	scens := []scen{
		{Cycles: 1, PageSizes: []int{512}},
		{Cycles: 2, PageSizes: []int{512}, LagReplica: true},
		{Cycles: 2, PageSizes: []int{4096}, WAL: true, LateJoin: true},
		{Cycles: 1, PageSizes: []int{512, 1024}},
		{Cycles: 2, PageSizes: []int{1024, 512}, WAL: true, LagReplica: true, LateJoin: true},
		{Cycles: 3, PageSizes: []int{512}, WAL: true},
		{Cycles: 2, PageSizes: []int{512}, RestartP: true},
		{Cycles: 1, PageSizes: []int{4096}, WAL: true, RestartP: true, LateJoin: true},
	}
	if c.Thorough() {
		for i := 0; i < 30; i++ {
			r := c.Rng.Fork()
			pss := [][]int{{512}, {4096}, {512, 4096}, {1024, 512, 2048}}[r.Intn(4)]
			scens = append(scens, scen{Cycles: 1 + r.Intn(3), PageSizes: pss, WAL: r.Bool(), LagReplica: r.Bool(), LateJoin: r.Bool(), RestartP: r.Chance(30)})
		}
	}
	if err := dropDuringCommit(c, c.Rng.Fork()); err != nil {
		return err
	}
	if err := dropNeverWritten(c, c.Rng.Fork()); err != nil {
		return err
	}
	for jm := 0; jm < 3; jm++ {
		if err := dropWaitsForWriter(c, c.Rng.Fork(), jm); err != nil {
			return err
		}
	}
	for _, ps := range [][2]int{{4096, 1024}, {512, 4096}, {1024, 1024}} {
		if err := snapshotAcrossDrop(c, c.Rng.Fork(), ps[0], ps[1]); err != nil {
			return err
		}
	}
	for _, wal := range []bool{false, true} {
		if err := dropCrashPoints(c, c.Rng.Fork(), wal); err != nil {
			return err
		}
	}
	for _, sc := range scens {
		if err := runScen(c, sc, c.Rng.Fork(), cf); err != nil {
			return fmt.Errorf("scenario %+v: %w", sc, err)
		}
	}
	c.Sample(map[string]any{"scenario": scens[1]})
	return nil
}

// snapshotAcrossDrop: a replica is away while the primary drops the database and recreates it with another page size,
// and retention removes the tombstone's file before the replica is back: it is sent a snapshot that crosses the drop, onto
// the database it still has. It must end up with the recreated database like everybody else.
func snapshotAcrossDrop(c *common.Ctx, r *common.Rand, ps1, ps2 int) error {
	dir, err := os.MkdirTemp(c.OutDir, "c15s-")
	if err != nil {
		return err
	}
	defer os.RemoveAll(dir)
	rep := map[string]any{"kind": "snapshot-across-drop", "page_sizes": []int{ps1, ps2}}
	clu := cluster.New(dir, 2*time.Second)
	defer clu.Close()
	p, err := clu.Start("p", true)
	if err != nil {
		return err
	}
	if clu.WaitPrimary(5*time.Second) == nil {
		return fmt.Errorf("no primary")
	}
	r2, err := clu.Start("r2", false)
	if err != nil {
		return err
	}
	h := hist.NewOn(c, r.Fork(), hist.Config{PageSize: ps1}, p.Store, p.Exits, "db", &lfs.Image{PageSize: ps1}, 0, false)
	if !commitN(h, 2) {
		return fmt.Errorf("first life: commits failed")
	}
	at := dbPos(p.Store)
	if !cluster.WaitPos(r2, "db", at.TXID, at.Chk, 10*time.Second) {
		return fmt.Errorf("replica did not catch up")
	}
	r2.Stop()
	hd := hist.NewOn(c, r.Fork(), hist.Config{PageSize: ps1}, p.Store, p.Exits, "db", h.Ref, at.TXID, false)
	if ob := hd.Exec(hist.Step{Op: "drop"}); ob.Err != "" || ob.Panic != "" {
		return fmt.Errorf("drop: %s %s", ob.Err, ob.Panic)
	}
	h2 := hist.NewOn(c, r.Fork(), hist.Config{PageSize: ps2}, p.Store, p.Exits, "db", &lfs.Image{PageSize: ps2}, at.TXID+1, false)
	if !commitN(h2, 2) {
		return fmt.Errorf("second life: commits failed")
	}
	// retention: everything but the newest file goes
	p.Store.Retention = time.Nanosecond
	time.Sleep(5 * time.Millisecond)
	_ = p.Store.EnforceRetention(context.Background())
	p.Store.Retention = 10 * time.Minute // (it is also the time a snapshot may take)
	pp := dbPos(p.Store)
	r2, err = clu.Start("r2", false)
	c.Evaluations++
	c.Distinct(fmt.Sprintf("snapshot-across-drop:%d:%d", ps1, ps2))
	if err != nil {
		c.Violate("C15:snapshot-across-drop:restart", fmt.Sprintf("the replica cannot restart: %v", err), rep)
		return nil
	}
	if !cluster.WaitPos(r2, "db", pp.TXID, pp.Chk, 8*time.Second) {
		c.Violate("C15:snapshot-across-drop:position", fmt.Sprintf("a replica that was away during a drop and a recreation with %d-byte pages (it holds the old %d-byte-page database; the tombstone's file is gone, so it is sent a snapshot) stays at %v while the primary is at (%d,%016x); exits=%v", ps2, ps1, dbPos(r2.Store), pp.TXID, pp.Chk, r2.Exits()), rep)
		return nil
	}
	pimg, _ := lfs.ReadImage(filepath.Join(p.Dir, "dbs", "db"))
	rimg, _ := lfs.ReadImage(filepath.Join(r2.Dir, "dbs", "db"))
	if pimg != nil && rimg != nil {
		if eq, why := rimg.Equal(pimg); !eq {
			c.Violate("C15:snapshot-across-drop:image", "the replica reports the primary's position with another image: "+why, rep)
		}
	}
	// and it restarts on what it has
	r2.Stop()
	if r2, err = clu.Start("r2", false); err != nil {
		c.Violate("C15:snapshot-across-drop:restart-after", fmt.Sprintf("the replica cannot restart after the snapshot: %v", err), rep)
	} else if got := dbPos(r2.Store); got.TXID != pp.TXID || got.Chk != pp.Chk {
		c.Violate("C15:snapshot-across-drop:restart-position", fmt.Sprintf("after a restart the replica is at %v, want (%d,%016x)", got, pp.TXID, pp.Chk), rep)
	}
	return nil
}

// dropDuringCommit: the database file is deleted while another connection commits. The drop is a transaction like any
// other: the two are serialised, the log is one chain and ends at the position whichever came first.
func dropDuringCommit(c *common.Ctx, r *common.Rand) error {
	dir, err := os.MkdirTemp(c.OutDir, "c15d-")
	if err != nil {
		return err
	}
	defer os.RemoveAll(dir)
	ros := &lfs.RecOS{}
	n, err := lfs.Open(dir, true, func(s *litefs.Store) { s.OS = ros })
	if err != nil {
		return err
	}
	defer n.Close()
	h := hist.NewOn(c, r.Fork(), hist.Config{PageSize: 512}, n.Store, n.Exits, "db", &lfs.Image{PageSize: 512}, 0, false)
	if !commitN(h, 2) {
		return fmt.Errorf("setup commits failed")
	}
	db := n.Store.DB("db")
	slipped := 0
	hooked := false
	ros.After = func(call lfs.OSCall) {
		if call.Op != "DROP:LTX" || hooked {
			return
		}
		hooked = true
		// the drop has just renamed its (tombstone) file into the log: another connection commits
		old := lfs.BusyTimeout
		lfs.BusyTimeout = 30 * time.Millisecond
		defer func() { lfs.BusyTimeout = old }()
		im, _ := lfs.ReadImage(filepath.Join(n.Dir, "dbs", "db"))
		h2 := hist.NewOn(c, r.Fork(), hist.Config{PageSize: 512}, n.Store, n.Exits, "db", im, uint64(db.Pos().TXID), false)
		for tries := 0; tries < 100; tries++ {
			st := h2.GenStep()
			if st.Op != "rtx" {
				continue
			}
			st.Outcome, st.ToWAL, st.Spill = 0, false, 0
			if ob := h2.Exec(st); ob.Captured && ob.Err == "" && ob.Panic == "" {
				slipped++
			}
			break
		}
	}
	derr := db.Drop(context.Background())
	ros.After = nil
	c.Evaluations++
	c.Distinct("drop-during-commit")
	rep := map[string]any{"kind": "drop-during-commit", "drop_error": fmt.Sprint(derr), "commits_inside_the_drop": slipped}
	pos := db.Pos()
	infos, _ := lfs.ListLTX(filepath.Join(n.Dir, "dbs", "db"))
	var last *lfs.LTXInfo
	for i := range infos {
		if last == nil || infos[i].Max >= last.Max {
			last = &infos[i]
		}
	}
	switch {
	case len(n.Exits()) > 0:
		c.Violate("C15:drop-during-commit:exit", fmt.Sprintf("the node called Exit(%v)", n.Exits()), rep)
	case last == nil || !last.Valid:
		c.Violate("C15:drop-during-commit:log", "no valid newest transaction file after the drop", rep)
	case last.Max != uint64(pos.TXID) || last.Post != uint64(pos.PostApplyChecksum):
		c.Violate("C15:drop-during-commit:position", fmt.Sprintf("a connection committed %d transaction(s) between the drop's rename and its end; afterwards the log ends at (%d,%016x) and the position is (%d,%016x)", slipped, last.Max, last.Post, uint64(pos.TXID), uint64(pos.PostApplyChecksum)), rep)
	default:
		// the chain: every file continues the one before
		sort.SliceStable(infos, func(i, j int) bool { return infos[i].Min < infos[j].Min })
		for i := 1; i < len(infos); i++ {
			if infos[i].Min != infos[i-1].Max+1 || infos[i].Pre != infos[i-1].Post {
				c.Violate("C15:drop-during-commit:chain", fmt.Sprintf("the log is not one chain: %s does not continue %s", infos[i].Name, infos[i-1].Name), rep)
				break
			}
		}
	}
	return nil
}

// dropNeverWritten: "create ... drop" with nothing written in between - an application creates the database file and
// removes it again (touch, rm) - at the very start and again between two lives of the database. The drop is a
// transaction like any other (position + 1, empty checksum, files gone, replicas follow), and the log continues.
func dropNeverWritten(c *common.Ctx, r *common.Rand) error {
	dir, err := os.MkdirTemp(c.OutDir, "c15n-")
	if err != nil {
		return err
	}
	defer os.RemoveAll(dir)
	clu := cluster.New(dir, 2*time.Second)
	defer clu.Close()
	p, err := clu.Start("p", true)
	if err != nil {
		return err
	}
	if clu.WaitPrimary(5*time.Second) == nil {
		return fmt.Errorf("no primary")
	}
	r1, err := clu.Start("r1", false)
	if err != nil {
		return err
	}
	rep := map[string]any{"kind": "drop-never-written"}
	ctx := context.Background()
	emptyDrop := func(what string) bool {
		before := dbPos(p.Store)
		db, f, err := p.Store.CreateDB("db")
		if err != nil {
			c.Violate("C15:never-written:create", fmt.Sprintf("%s: the database cannot be created: %v", what, err), rep)
			return false
		}
		_ = f.Close()
		derr := db.Drop(ctx)
		c.Evaluations++
		c.Distinct("never-written:" + what)
		after := dbPos(p.Store)
		if derr != nil {
			c.Violate("C15:never-written:drop", fmt.Sprintf("%s: a database that was created and never written cannot be removed: %v (position (%d,%016x), files left: %v)", what, derr, after.TXID, after.Chk, filesPresent(p.Dir)), rep)
			return false
		}
		if after.TXID != before.TXID+1 || after.Chk != lfs.ChecksumFlag {
			c.Violate("C15:never-written:position", fmt.Sprintf("%s: the drop moved the position from (%d,%016x) to (%d,%016x); want TXID+1 with the empty checksum", what, before.TXID, before.Chk, after.TXID, after.Chk), rep)
			return false
		}
		if fp := filesPresent(p.Dir); len(fp) > 0 {
			c.Violate("C15:never-written:files-left", fmt.Sprintf("%s: after the drop the primary still has %v", what, fp), rep)
			return false
		}
		if !cluster.WaitPos(r1, "db", after.TXID, after.Chk, 10*time.Second) {
			c.Violate("C15:never-written:replica", fmt.Sprintf("%s: the replica did not reach the drop position (%d,%016x); at %v exits=%v", what, after.TXID, after.Chk, dbPos(r1.Store), r1.Exits()), rep)
			return false
		}
		if fp := filesPresent(r1.Dir); len(fp) > 0 {
			c.Violate("C15:never-written:replica-files", fmt.Sprintf("%s: the replica has %v after the drop", what, fp), rep)
			return false
		}
		return true
	}
	if !emptyDrop("first life") {
		return nil
	}
	ps := []int{512, 4096}[r.Intn(2)]
	h := hist.NewOn(c, r.Fork(), hist.Config{PageSize: ps}, p.Store, p.Exits, "db", &lfs.Image{PageSize: ps}, dbPos(p.Store).TXID, false)
	if !commitN(h, 2) {
		last := h.Obs[len(h.Obs)-1]
		c.Violate("C15:never-written:recreate", fmt.Sprintf("after the drop of a never-written database writes are refused: %s%s", last.Err, last.Panic), rep)
		return nil
	}
	if pp := dbPos(p.Store); pp.TXID != 3 || !cluster.WaitPos(r1, "db", pp.TXID, pp.Chk, 10*time.Second) {
		c.Violate("C15:never-written:continues", fmt.Sprintf("after the drop (1) and two transactions the primary is at %v and the replica at %v; want TXID 3 on both", pp, dbPos(r1.Store)), rep)
		return nil
	}
	if ob := h.Exec(hist.Step{Op: "drop"}); ob.Err != "" || ob.Panic != "" {
		c.Violate("C15:never-written:drop-written", "drop failed: "+ob.Err+ob.Panic, rep)
		return nil
	}
	emptyDrop("between two lives")
	return nil
}

// dropWaitsForWriter: the database is removed while a connection is in the middle of a write transaction: the drop
// waits for the write lock, the transaction commits, then the drop runs. Both are transactions: the position advances
// by two, the log is one chain that ends with the drop.
func dropWaitsForWriter(c *common.Ctx, r *common.Rand, jmode int) error {
	dir, err := os.MkdirTemp(c.OutDir, "c15w-")
	if err != nil {
		return err
	}
	defer os.RemoveAll(dir)
	n, err := lfs.Open(dir, true)
	if err != nil {
		return err
	}
	defer n.Close()
	h := hist.NewOn(c, r.Fork(), hist.Config{PageSize: 512}, n.Store, n.Exits, "db", &lfs.Image{PageSize: 512}, 0, false)
	if !commitN(h, 2) {
		return fmt.Errorf("setup commits failed")
	}
	db := n.Store.DB("db")
	before := db.Pos()
	dropDone := make(chan error, 1)
	h.Pager.BeforeCommit = func() {
		// the writer has written its pages and is about to finalise its journal: the unlink arrives now and waits
		go func() { dropDone <- db.Drop(context.Background()) }()
		time.Sleep(150 * time.Millisecond)
	}
	ob := h.Exec(hist.Step{Op: "rtx", Writes: map[uint32]uint64{2: 4242}, NewSize: uint32(len(h.Ref.Pages)), JMode: jmode})
	h.Pager.BeforeCommit = nil
	var derr error
	select {
	case derr = <-dropDone:
	case <-time.After(10 * time.Second):
		derr = fmt.Errorf("the drop did not return within 10 s")
	}
	c.Evaluations++
	c.Distinct(fmt.Sprintf("drop-waits-for-writer:%d", jmode))
	rep := map[string]any{"kind": "drop-waits-for-writer", "journal_mode": jmode, "commit_error": ob.Err, "drop_error": fmt.Sprint(derr)}
	if ob.Err != "" || ob.Panic != "" || derr != nil {
		c.Count("drop_waits_for_writer_not_both", 1) // one of the two was refused: nothing to compare
		return nil
	}
	pos := db.Pos()
	infos, _ := lfs.ListLTX(filepath.Join(n.Dir, "dbs", "db"))
	sort.SliceStable(infos, func(i, j int) bool { return infos[i].Min < infos[j].Min })
	switch {
	case len(n.Exits()) > 0:
		c.Violate("C15:drop-waits:exit", fmt.Sprintf("the node called Exit(%v)", n.Exits()), rep)
	case pos.TXID != before.TXID+2 || uint64(pos.PostApplyChecksum) != lfs.ChecksumFlag:
		c.Violate("C15:drop-waits:position", fmt.Sprintf("a transaction committed while the drop was waiting for the write lock, then the drop ran: the position went from %s to %s; want transaction %d with the empty checksum", before, pos, before.TXID+2), rep)
	case len(infos) == 0 || infos[len(infos)-1].Max != uint64(pos.TXID) || infos[len(infos)-1].Commit != 0:
		c.Violate("C15:drop-waits:log", fmt.Sprintf("the log does not end with the drop at the position %s", pos), rep)
	default:
		for i := 1; i < len(infos); i++ {
			if !infos[i].Valid || infos[i].Min != infos[i-1].Max+1 || infos[i].Pre != infos[i-1].Post {
				c.Violate("C15:drop-waits:chain", fmt.Sprintf("the log is not one chain: %s does not continue %s", infos[i].Name, infos[i-1].Name), rep)
				break
			}
		}
	}
	return nil
}
