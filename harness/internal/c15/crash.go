package c15

import (
	"context"
	"fmt"
	"os"
	"path/filepath"

	"github.com/superfly/litefs"

	"lfsverif/internal/common"
	"lfsverif/internal/hist"
	"lfsverif/internal/lfs"
)

func copyTree(src, dst string) error {
	return filepath.Walk(src, func(p string, fi os.FileInfo, err error) error {
		if err != nil {
			return nil
		}
		rel, _ := filepath.Rel(src, p)
		if fi.IsDir() {
			return os.MkdirAll(filepath.Join(dst, rel), 0o755)
		}
		b, err := os.ReadFile(p)
		if err != nil {
			return nil
		}
		return os.WriteFile(filepath.Join(dst, rel), b, 0o644)
	})
}

// dropCrashPoints: the process dies at every file-system operation of a drop. A restart finds the database either
// untouched at its old position or dropped at the next one - and the name can be written to / created again.
func dropCrashPoints(c *common.Ctx, r *common.Rand, wal bool) error {
	dir, err := os.MkdirTemp(c.OutDir, "c15c-")
	if err != nil {
		return err
	}
	defer os.RemoveAll(dir)
	ros := &lfs.RecOS{}
	src := filepath.Join(dir, "node")
	n, err := lfs.Open(src, true, func(s *litefs.Store) { s.OS = ros })
	if err != nil {
		return err
	}
	h := hist.NewOn(c, r.Fork(), hist.Config{PageSize: 512, AllowWAL: wal, ForceWAL: wal}, n.Store, n.Exits, "db", nil, 0, false)
	for done, tries := 0, 0; done < 3 && tries < 300; tries++ {
		st := h.GenStep()
		if st.Op != "rtx" && st.Op != "wtx" {
			continue
		}
		if st.Op == "rtx" {
			st.Outcome = 0
		}
		if ob := h.Exec(st); ob.Captured && ob.Err == "" {
			done++
		}
	}
	db := n.Store.DB("db")
	before := db.Pos()
	beforeImg := h.Ref.Clone()
	var points []string
	var labels []string
	ros.Before = func(call lfs.OSCall) {
		d := filepath.Join(dir, fmt.Sprintf("cp%02d", len(points)))
		if copyTree(src, d) == nil {
			points = append(points, d)
			labels = append(labels, call.Op+" "+call.Fn+" "+filepath.Base(call.Name))
		}
	}
	derr := db.Drop(context.Background())
	ros.Before = nil
	if derr != nil {
		n.Close()
		return fmt.Errorf("drop: %v", derr)
	}
	after := db.Pos()
	n.Close()
	mode := map[bool]string{true: "wal", false: "journal"}[wal]
	for i, d := range points {
		c.Evaluations++
		c.Distinct(fmt.Sprintf("drop-crash:%s:%d", mode, i))
		rep := map[string]any{"kind": "drop-crash", "crash_point": labels[i], "mode": mode}
		key := "C15:drop-crash:" + mode
		m, err := lfs.Open(d, true)
		if err != nil {
			c.Violate(key+":restart", fmt.Sprintf("the process dies inside the drop at [%s]; the node does not start again: %v", labels[i], err), rep)
			if m != nil {
				m.Close()
			}
			continue
		}
		mdb := m.Store.DB("db")
		if mdb == nil {
			c.Violate(key+":forgotten", fmt.Sprintf("crash at [%s]: after the restart the database is unknown", labels[i]), rep)
			m.Close()
			continue
		}
		p := mdb.Pos()
		switch {
		case p == before:
			im, _ := lfs.ReadImage(filepath.Join(d, "dbs", "db"))
			if im == nil {
				c.Violate(key+":image", fmt.Sprintf("crash at [%s]: back at the old position but the database cannot be read", labels[i]), rep)
			} else if eq, why := im.Equal(beforeImg); !eq {
				c.Violate(key+":image", fmt.Sprintf("crash at [%s]: back at the old position %s but the database is not its image: %s", labels[i], p.String(), why), rep)
			}
		case p == after:
			if fp := filesPresent(d); len(fp) > 0 {
				c.Violate(key+":files-left", fmt.Sprintf("crash at [%s]: restarted at the drop's position but %v are still there", labels[i], fp), rep)
			}
		default:
			c.Violate(key+":neither", fmt.Sprintf("crash at [%s]: restarted at %s, neither the position before the drop (%s) nor after it (%s)", labels[i], p.String(), before.String(), after.String()), rep)
		}
		if ex := m.Exits(); len(ex) > 0 {
			c.Violate(key+":exit", fmt.Sprintf("crash at [%s]: the restarted node called Exit(%v)", labels[i], ex), rep)
		}
		m.Close()
	}
	return nil
}
