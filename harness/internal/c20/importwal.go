package c20

import (
	"bytes"
	"fmt"
	"io"
	"net/http"
	"os"
	"strings"
	"time"

	"lfsverif/internal/cluster"
	"lfsverif/internal/common"
	"lfsverif/internal/hist"
	"lfsverif/internal/lfs"
)

// refusedImportOverLog: POST /import with a body that is refused (empty, garbage, cut inside a page, fewer pages than
// announced) for a WAL-mode database whose last transactions live in the log only. The refusal changes nothing: what
// GET /export returns afterwards is what it returned before.
func refusedImportOverLog(c *common.Ctx) error {
	dir, err := os.MkdirTemp(c.OutDir, "c20i-")
	if err != nil {
		return err
	}
	defer os.RemoveAll(dir)
	clu := cluster.New(dir, 2*time.Second)
	defer clu.Close()
	p, err := clu.Start("p", true)
	if err != nil {
		return err
	}
	if clu.WaitPrimary(5*time.Second) == nil {
		return fmt.Errorf("no primary")
	}
	h := hist.NewOn(c, c.Rng.Fork(), hist.Config{PageSize: 512, AllowWAL: true}, p.Store, p.Exits, knownDB, nil, 0, false)
	for _, st := range []hist.Step{
		{Op: "rtx", Writes: map[uint32]uint64{1: 1, 2: 2, 3: 3, 4: 4}, NewSize: 4, ToWAL: true},
		{Op: "wtx", Frames: [][2]uint64{{2, 12}, {5, 15}, {1, 11}}, NewSize: 5},
	} {
		if ob := h.Exec(st); ob.Err != "" || ob.Panic != "" {
			return fmt.Errorf("setup: %s%s", ob.Err, ob.Panic)
		}
	}
	export := func() ([]byte, int) {
		resp, err := http.Get(p.Server.URL() + "/export?name=" + knownDB)
		if err != nil {
			return nil, 0
		}
		defer resp.Body.Close()
		b, _ := io.ReadAll(resp.Body)
		return b, resp.StatusCode
	}
	good := &lfs.Image{PageSize: 512}
	var whole bytes.Buffer
	for pg := uint32(1); pg <= 6; pg++ {
		d := lfs.MakePage(512, pg, 500+uint64(pg), 6, false)
		good.Pages = append(good.Pages, d)
		whole.Write(d)
	}
	bodies := map[string][]byte{
		"empty":         nil,
		"garbage":       bytes.Repeat([]byte("not a database "), 40),
		"header-only":   whole.Bytes()[:100],
		"cut-in-a-page": whole.Bytes()[:512*2+77],
		"two-of-six":    whole.Bytes()[:512*2],
	}
	for _, name := range []string{"empty", "garbage", "header-only", "cut-in-a-page", "two-of-six"} {
		before, _ := export()
		pos := p.Store.DB(knownDB).Pos()
		resp, err := http.Post(p.Server.URL()+"/import?name="+knownDB, "application/octet-stream", bytes.NewReader(bodies[name]))
		c.Evaluations++
		c.Distinct("refused-import-over-log:" + name)
		rep := map[string]any{"kind": "api-refused-import-over-log", "body": name}
		key := "C20:import:over-log:" + name
		if err != nil {
			c.Violate(key+":no-response", fmt.Sprintf("POST /import (%s) got no response: %v", name, err), rep)
			continue
		}
		_, _ = io.Copy(io.Discard, resp.Body)
		resp.Body.Close()
		if resp.StatusCode >= 200 && resp.StatusCode < 300 {
			c.Violate(key+":accepted", fmt.Sprintf("POST /import with an unusable body (%s) was answered %d", name, resp.StatusCode), rep)
			return nil
		}
		if ex := p.Exits(); len(ex) > 0 {
			c.Violate(key+":exit", fmt.Sprintf("a refused import (%s) made the node call Exit(%v)", name, ex), rep)
			return nil
		}
		after, code := export()
		if np := p.Store.DB(knownDB).Pos(); np != pos {
			c.Violate(key+":position", fmt.Sprintf("a refused import (%s, answered %d) moved the position from %s to %s", name, resp.StatusCode, pos, np), rep)
		} else if code != 200 || !bytes.Equal(before, after) {
			c.Violate(key+":changed", fmt.Sprintf("a refused import (%s, answered %d) on a WAL-mode database whose last transaction is in the log only: GET /export returned %d bytes before and %d bytes (status %d) after, and they differ - the position is still %s", name, resp.StatusCode, len(before), len(after), code, pos), rep)
		}
	}
	return nil
}

// importOtherPageSize: POST /import of a complete, well-formed image whose page size is not the existing database's, for
// a rollback-journal and a WAL-mode database. The pages of an existing database can only be replaced by pages of the same
// size: the request is refused, and the refusal changes nothing - no transaction file, same position, same export, the
// node keeps running.
func importOtherPageSize(c *common.Ctx, wal bool) error {
	dir, err := os.MkdirTemp(c.OutDir, "c20p-")
	if err != nil {
		return err
	}
	defer os.RemoveAll(dir)
	clu := cluster.New(dir, 2*time.Second)
	defer clu.Close()
	p, err := clu.Start("p", true)
	if err != nil {
		return err
	}
	if clu.WaitPrimary(5*time.Second) == nil {
		return fmt.Errorf("no primary")
	}
	const ps = 4096
	h := hist.NewOn(c, c.Rng.Fork(), hist.Config{PageSize: ps, AllowWAL: true}, p.Store, p.Exits, knownDB, nil, 0, false)
	steps := []hist.Step{
		{Op: "rtx", Writes: map[uint32]uint64{1: 1, 2: 2, 3: 3}, NewSize: 3, ToWAL: wal},
		{Op: "rtx", Writes: map[uint32]uint64{2: 12}, NewSize: 3},
	}
	if wal {
		steps[1] = hist.Step{Op: "wtx", Frames: [][2]uint64{{2, 12}}, NewSize: 3}
	}
	for _, st := range steps {
		if ob := h.Exec(st); ob.Err != "" || ob.Panic != "" {
			return fmt.Errorf("setup: %s%s", ob.Err, ob.Panic)
		}
	}
	export := func() ([]byte, int) {
		resp, err := http.Get(p.Server.URL() + "/export?name=" + knownDB)
		if err != nil {
			return nil, 0
		}
		defer resp.Body.Close()
		b, _ := io.ReadAll(resp.Body)
		return b, resp.StatusCode
	}
	ltxFiles := func() string {
		ents, _ := os.ReadDir(p.Store.DB(knownDB).LTXDir())
		s := ""
		for _, e := range ents {
			if strings.HasSuffix(e.Name(), ".ltx") {
				s += e.Name() + ","
			}
		}
		return s
	}
	for _, ips := range []int{8192, 512, 65536} {
		var body bytes.Buffer
		for pg := uint32(1); pg <= 3; pg++ {
			body.Write(lfs.MakePage(ips, pg, 900+uint64(pg), 3, wal))
		}
		before, _ := export()
		pos, files := p.Store.DB(knownDB).Pos(), ltxFiles()
		resp, err := http.Post(p.Server.URL()+"/import?name="+knownDB, "application/octet-stream", bytes.NewReader(body.Bytes()))
		c.Evaluations++
		c.Distinct(fmt.Sprintf("import-other-page-size:%v:%d", wal, ips))
		rep := map[string]any{"kind": "api-import-other-page-size", "wal": wal, "database_page_size": ps, "image_page_size": ips}
		key := fmt.Sprintf("C20:import:other-page-size:%s:%d", map[bool]string{true: "wal", false: "rollback"}[wal], ips)
		if err != nil {
			c.Violate(key+":no-response", fmt.Sprintf("POST /import got no response: %v", err), rep)
			return nil
		}
		_, _ = io.Copy(io.Discard, resp.Body)
		resp.Body.Close()
		if ex := p.Exits(); len(ex) > 0 {
			c.Violate(key+":exit", fmt.Sprintf("POST /import of a %d-byte-page image into a database with %d-byte pages (answered %d) made the node call Exit(%v); log before [%s], after [%s]", ips, ps, resp.StatusCode, ex, files, ltxFiles()), rep)
			return nil
		}
		if resp.StatusCode >= 200 && resp.StatusCode < 300 {
			c.Violate(key+":accepted", fmt.Sprintf("POST /import of a %d-byte-page image into a database with %d-byte pages was answered %d", ips, ps, resp.StatusCode), rep)
			return nil
		}
		after, code := export()
		if np, nf := p.Store.DB(knownDB).Pos(), ltxFiles(); np != pos || nf != files {
			c.Violate(key+":position", fmt.Sprintf("the refused import (answered %d) moved the position from %s to %s / the log from [%s] to [%s]", resp.StatusCode, pos, np, files, nf), rep)
		} else if code != 200 || !bytes.Equal(before, after) {
			c.Violate(key+":changed", fmt.Sprintf("the refused import (answered %d) changed what GET /export returns (%d -> %d bytes, status %d)", resp.StatusCode, len(before), len(after), code), rep)
		}
	}
	return nil
}
