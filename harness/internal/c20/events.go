package c20

import (
	"bufio"
	"bytes"
	"fmt"
	"io"
	"log"
	"net"
	"net/http"
	"net/url"
	"strings"
	"sync"
	"time"

	"github.com/superfly/litefs"
	"lfsverif/internal/cluster"
	"lfsverif/internal/common"
)

type syncBuf struct {
	mu sync.Mutex
	b  bytes.Buffer
}

func (s *syncBuf) Write(p []byte) (int, error) {
	s.mu.Lock()
	defer s.mu.Unlock()
	return s.b.Write(p)
}

func (s *syncBuf) String() string {
	s.mu.Lock()
	defer s.mu.Unlock()
	return s.b.String()
}

// slowEvents: a well-formed GET /events whose client falls behind the node's events. The node may drop the
// subscriber; the request still has to end as a request ends (a complete chunked body), with no panic in the
// handler, and the node keeps answering.
func slowEvents(c *common.Ctx, n *cluster.Node, role string) {
	rep := map[string]any{"kind": "api-events-slow-reader", "role": role}
	u, err := url.Parse(n.Server.URL())
	if err != nil {
		return
	}
	var logged syncBuf
	prev := log.Writer()
	log.SetOutput(io.MultiWriter(prev, &logged))
	defer log.SetOutput(prev)

	conn, err := net.DialTimeout("tcp", u.Host, 3*time.Second)
	if err != nil {
		c.Violate("C20:events:dial", fmt.Sprintf("cannot connect: %v", err), rep)
		return
	}
	defer conn.Close()
	if tc, ok := conn.(*net.TCPConn); ok {
		_ = tc.SetReadBuffer(4096)
	}
	_, _ = io.WriteString(conn, "GET /events HTTP/1.1\r\nHost: "+u.Host+"\r\n\r\n")
	br := bufio.NewReaderSize(conn, 512)
	_ = conn.SetReadDeadline(time.Now().Add(5 * time.Second))
	resp, err := http.ReadResponse(br, nil)
	c.Evaluations++
	c.Distinct("events-slow-reader:" + role)
	if err != nil || resp.StatusCode != 200 {
		c.Violate("C20:events:open", fmt.Sprintf("GET /events: %v", err), rep)
		return
	}
	// events as the database layer reports them, one per committed transaction, while the client reads nothing
	pad := strings.Repeat("x", 2048)
	dropped := false
	for i := 0; i < 40000 && !dropped; i++ {
		n.Store.NotifyEvent(litefs.Event{Type: litefs.EventTypeTx, DB: pad, Data: litefs.TxEventData{TXID: 1}})
		if i%256 == 0 {
			dropped = strings.Contains(logged.String(), "event stream buffer exceeded") || strings.Contains(logged.String(), "panic serving")
			time.Sleep(time.Millisecond)
		}
	}
	// now the client reads on to the end of the response
	_ = conn.SetReadDeadline(time.Now().Add(20 * time.Second))
	done := make(chan error, 1)
	go func() { _, err := io.Copy(io.Discard, resp.Body); done <- err }()
	// the handler only notices once it gets to the closed channel; keep nudging it in case it was not yet dropped
	var rerr error
	timedOut := false
	select {
	case rerr = <-done:
	case <-time.After(20 * time.Second):
		timedOut = true
	}
	text := logged.String()
	if !strings.Contains(text, "event stream buffer exceeded") && !strings.Contains(text, "panic serving") {
		c.Distinct("events-slow-reader:not-dropped")
		return // the subscriber was never dropped: nothing to check
	}
	if i := strings.Index(text, "panic serving"); i >= 0 {
		line := text[i:]
		if j := strings.IndexByte(line, '\n'); j >= 0 {
			line = line[:j]
		}
		c.Violate("C20:events:panic", "GET /events with a slow reader panicked inside the node: "+line, rep)
	} else if ne, ok := rerr.(net.Error); timedOut || (ok && ne.Timeout()) {
		c.Count("events_slow_reader_inconclusive", 1) // the stream was still open after 20 s: nothing to judge
	} else if rerr != nil {
		c.Violate("C20:events:incomplete", fmt.Sprintf("GET /events with a slow reader did not end with a complete response: %v", rerr), rep)
	}
}
