// Package c20: every API request gets a response; invalid requests change nothing.
// The real HTTP server (h2c) of a primary, a replica and a node that knows no primary is
// driven with the cross product endpoint x method x parameter class x header x protocol x body.
package c20

import (
	"bytes"
	"context"
	"crypto/sha256"
	"crypto/tls"
	"encoding/binary"
	"fmt"
	"io"
	"net"
	"net/http"
	"net/url"
	"os"
	"path/filepath"
	"sort"
	"strings"
	"time"

	"github.com/superfly/litefs"
	lfshttp "github.com/superfly/litefs/http"
	"github.com/superfly/ltx"
	"golang.org/x/net/http2"

	"lfsverif/internal/cluster"
	"lfsverif/internal/common"
	"lfsverif/internal/hist"
	"lfsverif/internal/lfs"
)

type apiReq struct {
	Role   string `json:"role"`   // primary replica noprimary
	Path   string `json:"path"`   // /export ... or an unknown path
	Method string `json:"method"` // GET POST DELETE PUT HEAD PATCH
	Name   string `json:"name"`   // absent empty known unknown slash dotdot
	ID     string `json:"id"`     // absent garbage zero other held neg overflow
	Node   string `json:"node"`   // absent garbage self connected unknown     (nodeID query parameter)
	Hdr    string `json:"hdr"`    // absent self other garbage                  (Litefs-Id header)
	Proto  string `json:"proto"`  // h1 h2c
	Body   string `json:"body"`   // empty garbage truncated good oversized
	Halted bool   `json:"halted"` // a halt lock is held on the known database while the request runs
}

func (q apiReq) key() string {
	return fmt.Sprintf("%s:%s:%s:name=%s:id=%s:node=%s:hdr=%s:%s:body=%s:halted=%v", q.Role, strings.ToLower(q.Method), strings.TrimPrefix(q.Path, "/"), q.Name, q.ID, q.Node, q.Hdr, q.Proto, q.Body, q.Halted)
}

type dbSnap struct {
	Pos    string
	LTX    string
	Locks  string
	Halt   int64
	Remote bool
	Hash   string
}

type snap struct {
	DBs   map[string]dbSnap
	Files string // recursive listing (names) of the whole cluster directory, tmp files excluded
}

func takeSnap(root string, n *cluster.Node) snap {
	s := snap{DBs: map[string]dbSnap{}}
	for _, db := range n.Store.DBs() {
		var d dbSnap
		p := db.Pos()
		d.Pos = fmt.Sprintf("%d/%016x", uint64(p.TXID), uint64(p.PostApplyChecksum))
		ents, _ := os.ReadDir(db.LTXDir())
		var names []string
		for _, e := range ents {
			if strings.HasSuffix(e.Name(), ".tmp") {
				continue // every reader of the directory skips temporary files (ltx.ParseFilename)
			}
			if fi, err := e.Info(); err == nil {
				names = append(names, fmt.Sprintf("%s:%d", e.Name(), fi.Size()))
			}
		}
		d.LTX = strings.Join(names, ",")
		var ls []string
		for _, t := range []litefs.LockType{litefs.LockTypePending, litefs.LockTypeShared, litefs.LockTypeReserved, litefs.LockTypeWrite, litefs.LockTypeCkpt, litefs.LockTypeRecover,
			litefs.LockTypeRead0, litefs.LockTypeRead1, litefs.LockTypeRead2, litefs.LockTypeRead3, litefs.LockTypeRead4, litefs.LockTypeDMS} {
			ls = append(ls, fmt.Sprint(int(db.VerifLockState(t))))
		}
		d.Locks = strings.Join(ls, "")
		d.Halt = db.VerifHaltLockID()
		d.Remote = db.HasRemoteHaltLock()
		if b, err := os.ReadFile(db.DatabasePath()); err == nil {
			d.Hash = fmt.Sprintf("%x", sha256.Sum256(b))[:16]
		}
		s.DBs[db.Name()] = d
	}
	var files []string
	_ = filepath.Walk(n.Dir, func(p string, fi os.FileInfo, err error) error {
		if err != nil {
			return nil
		}
		rel, _ := filepath.Rel(root, p)
		if strings.HasSuffix(rel, ".tmp") {
			return nil
		}
		files = append(files, rel)
		return nil
	})
	// anything that escaped the node's data directory
	for _, d := range []string{filepath.Dir(n.Dir), root} {
		ents, _ := os.ReadDir(d)
		for _, e := range ents {
			files = append(files, filepath.Join(d, e.Name()))
		}
	}
	sort.Strings(files)
	s.Files = strings.Join(files, "\n")
	return s
}

// diff lists what differs between two snapshots of one node.
func (a snap) diff(b snap) []string {
	var out []string
	for name, x := range a.DBs {
		y, ok := b.DBs[name]
		if !ok {
			out = append(out, fmt.Sprintf("database %q disappeared", name))
			continue
		}
		if x.Pos != y.Pos {
			out = append(out, fmt.Sprintf("position of %q %s -> %s", name, x.Pos, y.Pos))
		}
		if x.LTX != y.LTX {
			out = append(out, fmt.Sprintf("transaction log of %q [%s] -> [%s]", name, x.LTX, y.LTX))
		}
		if x.Locks != y.Locks {
			out = append(out, fmt.Sprintf("locks of %q %s -> %s", name, x.Locks, y.Locks))
		}
		if x.Halt != y.Halt {
			out = append(out, fmt.Sprintf("halt lock of %q %d -> %d", name, x.Halt, y.Halt))
		}
		if x.Remote != y.Remote {
			out = append(out, fmt.Sprintf("remote halt lock of %q %v -> %v", name, x.Remote, y.Remote))
		}
		if x.Hash != y.Hash {
			out = append(out, fmt.Sprintf("database file of %q changed", name))
		}
	}
	for name := range b.DBs {
		if _, ok := a.DBs[name]; !ok {
			out = append(out, fmt.Sprintf("database %q appeared", name))
		}
	}
	if a.Files != b.Files {
		am := map[string]bool{}
		for _, f := range strings.Split(a.Files, "\n") {
			am[f] = true
		}
		for _, f := range strings.Split(b.Files, "\n") {
			if !am[f] {
				out = append(out, "new file "+f)
			}
			delete(am, f)
		}
		for f := range am {
			out = append(out, "removed file "+f)
		}
	}
	sort.Strings(out)
	return out
}

const (
	knownDB   = "db"
	unknownDB = "nosuchdb"
)

type world struct {
	c            *common.Ctx
	root         string
	nodes        map[string]*cluster.Node // by role
	h1, h2       *http.Client
	hp           *hist.Runner
	created      int
	selfSpelling int
}

func commitOne(h *hist.Runner) bool {
	for tries := 0; tries < 40; tries++ {
		st := h.GenStep()
		if st.Op != "rtx" {
			continue
		}
		st.Outcome = 0
		ob := h.Exec(st)
		return ob.Captured && ob.Err == ""
	}
	return false
}

func posMapBytes(m map[string]ltx.Pos) []byte {
	var b bytes.Buffer
	_ = lfshttp.WritePosMapTo(&b, m)
	return b.Bytes()
}

func buildLTX(ps uint32, commit uint32, min, max uint64, pre, post uint64, pages map[uint32][]byte) []byte {
	var buf bytes.Buffer
	enc := ltx.NewEncoder(&buf)
	_ = enc.EncodeHeader(ltx.Header{Version: 1, PageSize: ps, Commit: commit, MinTXID: ltx.TXID(min), MaxTXID: ltx.TXID(max),
		Timestamp: time.Now().UnixMilli(), PreApplyChecksum: ltx.Checksum(pre), NodeID: 77})
	var pgs []int
	for pg := range pages {
		pgs = append(pgs, int(pg))
	}
	sort.Ints(pgs)
	for _, pg := range pgs {
		_ = enc.EncodePage(ltx.PageHeader{Pgno: uint32(pg)}, pages[uint32(pg)])
	}
	enc.SetPostApplyChecksum(ltx.Checksum(post))
	_ = enc.Close()
	return buf.Bytes()
}

// goodBody builds the well-formed body the endpoint expects on node n right now.
func (w *world) goodBody(q apiReq, n *cluster.Node) []byte {
	switch q.Path {
	case "/stream":
		return posMapBytes(n.Store.PosMap())
	case "/import":
		im := &lfs.Image{PageSize: 512}
		for pg := uint32(1); pg <= 3; pg++ {
			im.Pages = append(im.Pages, lfs.MakePage(512, pg, w.c.Rng.U64(), 3, false))
		}
		var b bytes.Buffer
		for _, p := range im.Pages {
			b.Write(p)
		}
		return b.Bytes()
	case "/tx":
		db := n.Store.DB(knownDB)
		if db == nil {
			return nil
		}
		im, err := lfs.ReadImage(filepath.Dir(db.DatabasePath()))
		if err != nil || len(im.Pages) == 0 {
			return nil
		}
		pos := db.Pos()
		nim := im.Clone()
		pg := uint32(len(nim.Pages)) // rewrite the last page
		data := lfs.MakePage(im.PageSize, pg, w.c.Rng.U64(), uint32(len(nim.Pages)), false)
		nim.Pages[pg-1] = data
		return buildLTX(uint32(im.PageSize), uint32(len(nim.Pages)), uint64(pos.TXID)+1, uint64(pos.TXID)+1, uint64(pos.PostApplyChecksum), nim.Checksum(), map[uint32][]byte{pg: data})
	}
	return nil
}

func (w *world) body(q apiReq, n *cluster.Node) io.Reader {
	switch q.Body {
	case "empty":
		return nil
	case "garbage":
		return bytes.NewReader(w.c.Rng.Bytes(1 + w.c.Rng.Intn(300)))
	case "oversized":
		b := w.c.Rng.Bytes(64)
		if q.Path == "/stream" { // a position map announcing 2^32-1 entries / a 4 GiB name
			b = []byte{0xff, 0xff, 0xff, 0xff, 0xff, 0xff, 0xff, 0xf0}
		}
		return io.MultiReader(bytes.NewReader(b), io.LimitReader(zeroReader{}, 6<<20))
	case "truncated":
		g := w.goodBody(q, n)
		if len(g) < 2 {
			return bytes.NewReader([]byte{0})
		}
		return bytes.NewReader(g[:len(g)/2])
	case "good":
		return bytes.NewReader(w.goodBody(q, n))
	}
	return nil
}

type zeroReader struct{}

func (zeroReader) Read(p []byte) (int, error) {
	for i := range p {
		p[i] = 0
	}
	return len(p), nil
}

func (w *world) url(q apiReq, n *cluster.Node, heldID int64) string {
	v := url.Values{}
	switch q.Name {
	case "empty":
		v.Set("name", "")
	case "known":
		v.Set("name", knownDB)
	case "unknown":
		w.created++
		v.Set("name", fmt.Sprintf("%s%d", unknownDB, w.created))
	case "slash":
		v.Set("name", "sub/dir")
	case "dotdot":
		v.Set("name", "../../escaped")
	case "dot":
		v.Set("name", ".")
	case "parent":
		v.Set("name", "..")
	}
	idKey := "id"
	if q.Path == "/tx" {
		idKey = "lockID"
	}
	switch q.ID {
	case "garbage":
		v.Set(idKey, "12x")
	case "empty":
		v.Set(idKey, "")
	case "zero":
		v.Set(idKey, "0")
	case "other":
		v.Set(idKey, "424242")
	case "neg":
		v.Set(idKey, "-5")
	case "overflow":
		v.Set(idKey, "99999999999999999999999")
	case "held":
		v.Set(idKey, fmt.Sprint(heldID))
	}
	switch q.Node {
	case "garbage":
		v.Set("nodeID", "not-hex")
	case "self":
		v.Set("nodeID", litefs.FormatNodeID(n.Store.ID()))
	case "connected":
		v.Set("nodeID", litefs.FormatNodeID(w.nodes["replica"].Store.ID()))
	case "unknown":
		v.Set("nodeID", litefs.FormatNodeID(0xDEADBEEF))
	}
	u := n.Server.URL() + q.Path
	if len(v) > 0 {
		u += "?" + v.Encode()
	}
	return u
}

const heldLockID = 9001

// classify: the property's own notion of an invalid request, written from the property text and
// the endpoint documentation - NOT from the handlers.  Returns "" for a request that may act.
func classify(q apiReq) string {
	allowed := map[string][]string{"/export": {"GET"}, "/halt": {"POST", "DELETE"}, "/handoff": {"POST"}, "/import": {"POST"}, "/info": {"GET"},
		"/promote": {"POST"}, "/stream": {"POST"}, "/tx": {"POST"}, "/events": {"GET"}}
	ms, ok := allowed[q.Path]
	if !ok {
		return "malformed:unknown-path"
	}
	okm := false
	for _, m := range ms {
		okm = okm || m == q.Method
	}
	if !okm {
		return "malformed:method"
	}
	badName := q.Name == "absent" || q.Name == "empty" || q.Name == "slash" || q.Name == "dotdot" || q.Name == "dot" || q.Name == "parent"
	badID := q.ID == "absent" || q.ID == "garbage" || q.ID == "empty" || q.ID == "overflow" || q.ID == "zero"
	switch q.Path {
	case "/export":
		if badName {
			return "malformed:name"
		}
		if q.Name != "known" {
			return "missing:database"
		}
	case "/halt":
		if badID {
			return "malformed:id"
		}
		if q.Hdr == "self" {
			return "malformed:self"
		}
		if badName {
			return "malformed:name"
		}
		if q.Method == "POST" {
			if q.Role != "primary" {
				return "role:not-primary"
			}
			if q.Halted && q.Name == "known" && q.ID != "held" {
				return "missing:lock-busy" // somebody else holds the lock: nothing may change
			}
			if q.Halted && q.Name == "known" && q.ID == "held" {
				return "idempotent" // the same lock again: nothing changes
			}
		} else {
			if q.Name != "known" {
				return "missing:database"
			}
			if !(q.Halted && q.ID == "held") {
				return "missing:lock"
			}
		}
	case "/handoff":
		if q.Node == "absent" || q.Node == "garbage" {
			return "malformed:nodeID"
		}
		if q.Role != "primary" {
			return "role:not-primary"
		}
		if q.Node != "connected" {
			return "missing:node"
		}
	case "/import":
		if badName {
			return "malformed:name"
		}
		if q.Role != "primary" {
			return "role:not-primary"
		}
		if q.Body != "good" {
			return "malformed:body"
		}
	case "/promote":
		if q.Role == "replica" {
			return "role:not-candidate" // the replica of this rig is not a candidate
		}
		return "noop" // already primary / no primary known: nothing to do
	case "/stream":
		if q.Proto == "h1" {
			return "malformed:http1"
		}
		if q.Hdr == "self" {
			return "malformed:self"
		}
		if q.Role != "primary" {
			return "role:not-primary"
		}
		if q.Body != "good" {
			return "malformed:body"
		}
		return "readonly"
	case "/tx":
		if q.Hdr == "self" {
			return "malformed:self"
		}
		if badName {
			return "malformed:name"
		}
		if q.Name != "known" {
			return "missing:database"
		}
		if badID {
			return "malformed:id"
		}
		if q.Role != "primary" {
			return "role:not-primary"
		}
		if !(q.Halted && q.ID == "held") {
			return "missing:lock"
		}
		if q.Body != "good" {
			return "malformed:body"
		}
	case "/info", "/events":
		return "readonly"
	}
	return ""
}

func (w *world) do(q apiReq, n *cluster.Node, heldID int64) (status int, err error, respBody []byte) {
	cl := w.h1
	if q.Proto == "h2c" {
		cl = w.h2
	}
	ctx, cancel := context.WithTimeout(context.Background(), 8*time.Second)
	defer cancel()
	req, e := http.NewRequestWithContext(ctx, q.Method, w.url(q, n, heldID), w.body(q, n))
	if e != nil {
		return 0, e, nil
	}
	switch q.Hdr {
	case "self":
		// the node's own id in any spelling of the same number: canonical, lower case, an extra leading zero
		id := litefs.FormatNodeID(n.Store.ID())
		w.selfSpelling++
		switch w.selfSpelling % 3 {
		case 1:
			id = strings.ToLower(id)
		case 2:
			id = "0" + id
		}
		req.Header.Set(lfshttp.HeaderNodeID, id)
	case "other":
		req.Header.Set(lfshttp.HeaderNodeID, litefs.FormatNodeID(0xABCDEF))
	case "garbage":
		req.Header.Set(lfshttp.HeaderNodeID, "zz zz")
	}
	resp, e := cl.Do(req)
	if e != nil {
		return 0, e, nil
	}
	defer resp.Body.Close()
	// streaming endpoints never end by themselves: read a little, then hang up
	if resp.StatusCode == 200 && (q.Path == "/stream" || q.Path == "/events") {
		buf := make([]byte, 1<<16)
		rd := make(chan int, 1)
		go func() { m, _ := io.ReadAtLeast(resp.Body, buf, 1); rd <- m }()
		select {
		case m := <-rd:
			respBody = buf[:m]
		case <-time.After(300 * time.Millisecond):
		}
		cancel()
		return resp.StatusCode, nil, respBody
	}
	respBody, _ = io.ReadAll(io.LimitReader(resp.Body, 1<<20))
	return resp.StatusCode, nil, respBody
}

func (w *world) alive(n *cluster.Node) error {
	ctx, cancel := context.WithTimeout(context.Background(), 3*time.Second)
	defer cancel()
	req, _ := http.NewRequestWithContext(ctx, "GET", n.Server.URL()+"/info", nil)
	resp, err := w.h1.Do(req)
	if err != nil {
		return err
	}
	defer resp.Body.Close()
	_, _ = io.Copy(io.Discard, resp.Body)
	if resp.StatusCode != 200 {
		return fmt.Errorf("GET /info answered %d", resp.StatusCode)
	}
	return nil
}

func Run(c *common.Ctx) error {
	cf := c.Cases("cases_c20", "Require Import LF.Model.Api.\nLocal Open Scope N_scope.", "req * (N * N * N)", "mismatches")
	dir, err := os.MkdirTemp(c.OutDir, "c20-")
	if err != nil {
		return err
	}
	defer os.RemoveAll(dir)
	root := filepath.Join(dir, "clu")
	if err := os.MkdirAll(root, 0o755); err != nil {
		return err
	}
	opts := func(name string, s *litefs.Store) {
		s.HaltAcquireTimeout = 150 * time.Millisecond
		s.HaltLockTTL = 60 * time.Second
		s.HaltLockMonitorInterval = 20 * time.Millisecond
	}
	clu := cluster.New(root, 2*time.Second)
	clu.Opts = opts
	defer clu.Close()
	p, err := clu.Start("p", true)
	if err != nil {
		return err
	}
	if clu.WaitPrimary(5*time.Second) == nil {
		return fmt.Errorf("no primary")
	}
	rn, err := clu.Start("r", false)
	if err != nil {
		return err
	}
	hp := hist.NewOn(c, c.Rng.Fork(), hist.Config{PageSize: 512}, p.Store, p.Exits, knownDB, nil, 0, false)
	for i := 0; i < 3; i++ {
		if !commitOne(hp) {
			return fmt.Errorf("setup commit failed")
		}
	}
	pp := p.Store.DB(knownDB).Pos()
	if !cluster.WaitPos(rn, knownDB, uint64(pp.TXID), uint64(pp.PostApplyChecksum), 10*time.Second) {
		return fmt.Errorf("replica did not catch up")
	}
	// a third node: had a database once, now finds no primary and may not become one
	loneRoot := filepath.Join(dir, "lone")
	_ = os.MkdirAll(loneRoot, 0o755)
	lone := cluster.New(loneRoot, 2*time.Second)
	lone.Opts = opts
	defer lone.Close()
	ln, err := lone.Start("n", true)
	if err != nil {
		return err
	}
	if lone.WaitPrimary(5*time.Second) == nil {
		return fmt.Errorf("lone node did not become primary for setup")
	}
	hl := hist.NewOn(c, c.Rng.Fork(), hist.Config{PageSize: 512}, ln.Store, ln.Exits, knownDB, nil, 0, false)
	for i := 0; i < 2; i++ {
		if !commitOne(hl) {
			return fmt.Errorf("lone setup commit failed")
		}
	}
	ln.Stop()
	lone.Svc.AcquireBlock = true
	if ln, err = lone.Start("n", true); err != nil {
		return err
	}
	time.Sleep(50 * time.Millisecond)
	if ln.Store.IsPrimary() {
		return fmt.Errorf("lone node became primary")
	}

	w := &world{c: c, root: dir, nodes: map[string]*cluster.Node{"primary": p, "replica": rn, "noprimary": ln}, hp: hp}
	w.h1 = &http.Client{Transport: &http.Transport{DisableKeepAlives: false, MaxIdleConnsPerHost: 4}, CheckRedirect: func(*http.Request, []*http.Request) error { return http.ErrUseLastResponse }}
	w.h2 = &http.Client{Transport: &http2.Transport{AllowHTTP: true, DialTLS: func(network, addr string, _ *tls.Config) (net.Conn, error) { return net.Dial(network, addr) }}}

	reqs := generate(c)
	c.Count("requests", len(reqs))
	for _, q := range reqs {
		n := w.nodes[q.Role]
		db := n.Store.DB(knownDB)
		if db == nil {
			return fmt.Errorf("node %s lost its database", q.Role)
		}
		// precondition: halt lock held (by someone else's id 9001) or not
		var heldID int64
		if q.Halted {
			if _, err := db.AcquireHaltLock(context.Background(), heldLockID); err != nil {
				return fmt.Errorf("setup halt: %v", err)
			}
			heldID = heldLockID
		}
		before := takeSnap(dir, n)
		status, rerr, rbody := w.do(q, n, heldID)
		c.Evaluations++
		cls := classify(q)
		c.Distinct(q.Path + ":" + q.Method + ":" + cls + ":" + q.Role)
		c.Count("class_"+strings.Split(cls+":", ":")[0], 1)
		rep := map[string]any{"kind": "api-request", "request": q, "class": cls}
		key := fmt.Sprintf("C20:%s:%s:%s:%s:name=%s", q.Role, strings.ToLower(q.Method), strings.TrimPrefix(q.Path, "/"), cls, q.Name)
		inv := 0
		if strings.HasPrefix(cls, "malformed") || strings.HasPrefix(cls, "role") || strings.HasPrefix(cls, "missing") {
			inv = 1
		}
		if rerr != nil {
			c.Violate(key+":no-response", fmt.Sprintf("no HTTP response: %v", rerr), rep)
		}
		if err := w.alive(n); err != nil {
			c.Violate(key+":wedged", fmt.Sprintf("node does not answer GET /info after the request: %v", err), rep)
		}
		// wait for the handler to wind down (streams hold read locks until they notice the hang-up)
		var after snap
		var d []string
		for t := 0; t < 100; t++ {
			after = takeSnap(dir, n)
			d = before.diff(after)
			if len(d) == 0 {
				break
			}
			if t > 5 && cls == "" {
				break // a valid request: the change is permanent
			}
			time.Sleep(10 * time.Millisecond)
		}
		changed := len(d) > 0
		rep["status"], rep["changed"] = status, d
		if status >= 400 && len(rbody) < 400 {
			rep["response"] = string(rbody)
		}
		if changed && cls != "" {
			c.Violate(key+":changed", fmt.Sprintf("%s request (%s) answered %d and changed the node: %s", cls, q.key(), status, strings.Join(d, "; ")), rep)
		}
		ch := 0
		if changed {
			ch = 1
			// whatever was accepted, the database must still be the image of its position
			for _, d := range n.Store.DBs() {
				if im, err := lfs.ReadImage(filepath.Dir(d.DatabasePath())); err == nil && len(im.Pages) > 0 {
					if got, want := im.Checksum(), uint64(d.Pos().PostApplyChecksum); got != want {
						c.Violate(key+":checksum", fmt.Sprintf("after the request (answered %d) database %q has checksum %016x but its position says %016x", status, d.Name(), got, want), rep)
					}
				}
			}
		}
		cf.Add(fmt.Sprintf("(%s, (%d, %d, %d))", coqReq(q), status, ch, inv), rep)
		// restore the baseline: release any halt lock
		for _, nn := range w.nodes {
			for _, d := range nn.Store.DBs() {
				if id := d.VerifHaltLockID(); id != 0 {
					d.ReleaseHaltLock(context.Background(), id)
				}
			}
		}
	}
	// the nodes still work: the primary commits and the replica follows
	if cp := clu.Primary(); cp == nil || cp != p {
		c.Note("primary moved during the run (valid handoff requests)")
	} else {
		// a fresh application connection: the requests changed the database behind the first one's back
		cur, _ := lfs.ReadImage(filepath.Dir(p.Store.DB(knownDB).DatabasePath()))
		hp = hist.NewOn(c, c.Rng.Fork(), hist.Config{PageSize: cur.PageSize}, p.Store, p.Exits, knownDB, cur, uint64(p.Store.DB(knownDB).Pos().TXID), false)
		if !commitOne(hp) {
			c.Violate("C20:final:commit", "after the request sequence the primary cannot commit any more", map[string]any{"kind": "api-final"})
		} else {
			pp := p.Store.DB(knownDB).Pos()
			if !cluster.WaitPos(rn, knownDB, uint64(pp.TXID), uint64(pp.PostApplyChecksum), 10*time.Second) {
				c.Violate("C20:final:replicate", "after the request sequence the replica does not follow the primary any more", map[string]any{"kind": "api-final"})
			}
		}
	}
	if err := refusedImportOverLog(c); err != nil {
		return err
	}
	for _, wal := range []bool{false, true} {
		if err := importOtherPageSize(c, wal); err != nil {
			return err
		}
	}
	if err := forwardedFiles(c); err != nil {
		return err
	}
	slowEvents(c, w.nodes["primary"], "primary")
	slowEvents(c, w.nodes["replica"], "replica")
	// and they restart on their data directories
	for _, role := range []string{"primary", "replica", "noprimary"} {
		n := w.nodes[role]
		cl := clu
		if role == "noprimary" {
			cl = lone
		}
		n.Stop()
		if _, err := cl.Start(n.Name, role != "replica"); err != nil {
			c.Violate("C20:final:restart:"+role, fmt.Sprintf("node does not restart on its data directory after the request sequence: %v", err), map[string]any{"kind": "api-final"})
		}
	}
	c.Sample(map[string]any{"first_request": reqs[0], "requests": len(reqs)})
	_ = binary.BigEndian
	return nil
}

func coqReq(q apiReq) string {
	path := map[string]string{"/export": "PExport", "/halt": "PHalt", "/handoff": "PHandoff", "/import": "PImport", "/info": "PInfo", "/promote": "PPromote",
		"/stream": "PStream", "/tx": "PTx", "/events": "PEvents"}[q.Path]
	if path == "" {
		path = "POther"
	}
	meth := map[string]string{"GET": "MGet", "POST": "MPost", "DELETE": "MDelete"}[q.Method]
	if meth == "" {
		meth = "MOther"
	}
	name := map[string]string{"absent": "NmAbsent", "empty": "NmAbsent", "known": "NmKnown", "unknown": "NmUnknown", "slash": "NmBadPath", "dotdot": "NmBadPath", "dot": "NmBadPath", "parent": "NmBadPath"}[q.Name]
	id := map[string]string{"absent": "IdBad", "garbage": "IdBad", "empty": "IdBad", "overflow": "IdBad", "zero": "IdZero", "other": "IdOther", "neg": "IdOther", "held": "IdHeld"}[q.ID]
	node := map[string]string{"absent": "NdBad", "garbage": "NdBad", "self": "NdSelf", "connected": "NdConnected", "unknown": "NdUnknown"}[q.Node]
	role := map[string]string{"primary": "RPrimary", "replica": "RReplica", "noprimary": "RNoPrimary"}[q.Role]
	// (the last field - a forwarded file that continues the position with a wrong post-apply checksum - is exercised by
	// forwardedFiles on a cluster of its own: the node stops itself)
	return fmt.Sprintf("(mk_req %s %s %s %s %s %s %s %s %s %s false)", role, path, meth, name, id, node, common.CoqBool(q.Hdr == "self"), common.CoqBool(q.Proto == "h2c"),
		common.CoqBool(q.Body == "good"), common.CoqBool(q.Halted))
}
