package c20

import (
	"lfsverif/internal/common"
)

var (
	roles   = []string{"primary", "replica", "noprimary"}
	methods = []string{"GET", "POST", "DELETE", "PUT", "HEAD", "PATCH"}
	paths   = []string{"/export", "/halt", "/handoff", "/import", "/info", "/promote", "/stream", "/tx", "/events"}
	names   = []string{"absent", "empty", "known", "unknown", "slash", "dotdot", "dot", "parent"}
	ids     = []string{"absent", "garbage", "empty", "zero", "other", "neg", "overflow", "held"}
	nodesP  = []string{"absent", "garbage", "self", "connected", "unknown"}
	hdrs    = []string{"absent", "self", "other", "garbage"}
	protos  = []string{"h1", "h2c"}
	bodies  = []string{"empty", "garbage", "truncated", "good", "oversized"}
)

// generate builds the request list: (1) every endpoint x method x role with default parameters,
// (2) per endpoint the full cross product of the parameters the endpoint reads (sampled in the
// quick tier), (3) unknown paths.
func generate(c *common.Ctx) []apiReq {
	var out []apiReq
	def := func(role, path, method string) apiReq {
		return apiReq{Role: role, Path: path, Method: method, Name: "absent", ID: "absent", Node: "absent", Hdr: "other", Proto: "h1", Body: "empty"}
	}
	add := func(q apiReq) {
		if q.ID == "held" && !q.Halted {
			return
		}
		if q.Halted && (q.Path == "/export" || q.Path == "/import") {
			return // these wait for the write lock until the halt lock goes away (a schedule of C10/C13, not an invalid request)
		}
		if q.Path == "/handoff" && q.Method == "POST" && q.Role == "primary" && q.Node == "connected" {
			return // a valid handoff moves the lease: exercised by C08, it would end this rig
		}
		out = append(out, q)
	}
	for _, role := range roles {
		for _, path := range append(append([]string{}, paths...), "/", "/nope", "/halt/", "/debug/varsx", "/tx/../info") {
			for _, m := range methods {
				for _, proto := range protos {
					q := def(role, path, m)
					q.Proto = proto
					if m != "GET" && m != "HEAD" {
						q.Body = "garbage"
					}
					add(q)
				}
			}
		}
	}
	var cross []apiReq
	for _, role := range roles {
		// /export
		for _, nm := range names {
			for _, proto := range protos {
				for _, halted := range []bool{false, true} {
					q := def(role, "/export", "GET")
					q.Name, q.Proto, q.Halted = nm, proto, halted
					cross = append(cross, q)
				}
			}
		}
		// /halt
		for _, m := range []string{"POST", "DELETE"} {
			for _, nm := range names {
				for _, id := range ids {
					for _, h := range hdrs {
						for _, halted := range []bool{false, true} {
							q := def(role, "/halt", m)
							q.Name, q.ID, q.Hdr, q.Halted = nm, id, h, halted
							if c.Rng.Bool() {
								q.Proto = "h2c"
							}
							cross = append(cross, q)
						}
					}
				}
			}
		}
		// /handoff
		for _, nd := range nodesP {
			for _, proto := range protos {
				q := def(role, "/handoff", "POST")
				q.Node, q.Proto = nd, proto
				cross = append(cross, q)
			}
		}
		// /import
		for _, nm := range names {
			for _, b := range bodies {
				for _, halted := range []bool{false, true} {
					q := def(role, "/import", "POST")
					q.Name, q.Body, q.Halted = nm, b, halted
					if c.Rng.Bool() {
						q.Proto = "h2c"
					}
					cross = append(cross, q)
				}
			}
		}
		// /promote, /info, /events
		for _, proto := range protos {
			for _, pth := range []string{"/promote", "/info"} {
				m := "GET"
				if pth == "/promote" {
					m = "POST"
				}
				q := def(role, pth, m)
				q.Proto = proto
				cross = append(cross, q)
			}
		}
		q := def(role, "/events", "GET")
		out = append(out, q)
		// /stream
		for _, h := range hdrs {
			for _, b := range bodies {
				for _, proto := range protos {
					q := def(role, "/stream", "POST")
					q.Hdr, q.Body, q.Proto = h, b, proto
					cross = append(cross, q)
				}
			}
		}
		// /tx
		for _, nm := range names {
			for _, id := range ids {
				for _, h := range []string{"self", "other"} {
					for _, b := range bodies {
						for _, halted := range []bool{false, true} {
							q := def(role, "/tx", "POST")
							q.Name, q.ID, q.Hdr, q.Body, q.Halted = nm, id, h, b, halted
							if c.Rng.Bool() {
								q.Proto = "h2c"
							}
							cross = append(cross, q)
						}
					}
				}
			}
		}
	}
	// the quick tier samples the cross product; the thorough tier runs all of it
	keep := 100
	if !c.Thorough() {
		keep = 22
	}
	for _, q := range cross {
		interesting := classify(q) == "" || (q.Name == "known" && q.Hdr != "self")
		core := q.Role == "primary" && (q.Name == "unknown" || q.Name == "known") && q.Hdr == "other" && (q.Path == "/import" || q.Path == "/tx" || q.Path == "/halt")
		if core || c.Rng.Intn(100) < keep || (interesting && c.Rng.Intn(100) < 60) {
			add(q)
		}
	}
	// shuffle so that state left behind by one request meets every kind of successor
	for i := len(out) - 1; i > 0; i-- {
		j := c.Rng.Intn(i + 1)
		out[i], out[j] = out[j], out[i]
	}
	return out
}
