package c20

import (
	"bytes"
	"fmt"
	"io"
	"net/http"
	"os"
	"path/filepath"
	"time"

	"github.com/superfly/litefs"
	lfshttp "github.com/superfly/litefs/http"

	"lfsverif/internal/cluster"
	"lfsverif/internal/common"
	"lfsverif/internal/hist"
	"lfsverif/internal/lfs"
)

// forwardedFiles: POST /tx by the holder of the halt lock with files that continue the primary's position (right
// transaction id, right pre-apply checksum, intact file checksum) and are unusable all the same. Such a request is
// refused; the primary keeps its database, position and log, and keeps running.
func forwardedFiles(c *common.Ctx) error {
	for _, variant := range []string{"other-page-size", "whole-database-file", "whole-database-file-to-900", "wrong-post-apply-checksum"} {
		dir, err := os.MkdirTemp(c.OutDir, "c20f-")
		if err != nil {
			return err
		}
		err = func() error {
			defer os.RemoveAll(dir)
			clu := cluster.New(dir, 2*time.Second)
			clu.Opts = func(name string, s *litefs.Store) {
				s.HaltLockTTL = 60 * time.Second
				s.HaltLockMonitorInterval = time.Hour
			}
			defer clu.Close()
			p, err := clu.Start("p", true)
			if err != nil {
				return err
			}
			if clu.WaitPrimary(5*time.Second) == nil {
				return fmt.Errorf("no primary")
			}
			hp := hist.NewOn(c, c.Rng.Fork(), hist.Config{PageSize: 512}, p.Store, p.Exits, knownDB, nil, 0, false)
			for i := 0; i < 2; i++ {
				if !commitOne(hp) {
					return fmt.Errorf("setup commit failed")
				}
			}
			db := p.Store.DB(knownDB)
			do := func(method, url string, body []byte) (int, error) {
				req, _ := http.NewRequest(method, url, bytes.NewReader(body))
				req.Header.Set(lfshttp.HeaderNodeID, litefs.FormatNodeID(0xAA))
				resp, err := http.DefaultClient.Do(req)
				if err != nil {
					return 0, err
				}
				_, _ = io.Copy(io.Discard, resp.Body)
				resp.Body.Close()
				return resp.StatusCode, nil
			}
			if code, err := do("POST", fmt.Sprintf("%s/halt?name=%s&id=7", p.Server.URL(), knownDB), nil); err != nil || code != 200 {
				return fmt.Errorf("halt: %v %d", err, code)
			}
			im, err := lfs.ReadImage(filepath.Dir(db.DatabasePath()))
			if err != nil || len(im.Pages) == 0 {
				return fmt.Errorf("read image: %v", err)
			}
			pos := db.Pos()
			before := takeSnap(dir, p)
			var body []byte
			switch variant {
			case "other-page-size":
				ps := 1024
				if im.PageSize == 1024 {
					ps = 512
				}
				pg := lfs.MakePage(ps, 1, c.Rng.U64(), 1, false)
				nim := &lfs.Image{PageSize: ps, Pages: [][]byte{pg}}
				body = buildLTX(uint32(ps), 1, uint64(pos.TXID)+1, uint64(pos.TXID)+1, uint64(pos.PostApplyChecksum), nim.Checksum(), map[uint32][]byte{1: pg})
			case "whole-database-file", "whole-database-file-to-900":
				// starts again at transaction 1 (pre-apply checksum 0, every page of an image): would replace the database,
				// wipe the log and move the position
				max := uint64(1)
				if variant == "whole-database-file-to-900" {
					max = 900
				}
				nim := &lfs.Image{PageSize: im.PageSize}
				pages := map[uint32][]byte{}
				for pg := uint32(1); pg <= 2; pg++ {
					d := lfs.MakePage(im.PageSize, pg, c.Rng.U64(), 2, false)
					nim.Pages = append(nim.Pages, d)
					pages[pg] = d
				}
				body = buildLTX(uint32(im.PageSize), 2, 1, max, 0, nim.Checksum(), pages)
			default:
				nim := im.Clone()
				n := uint32(len(nim.Pages))
				data := lfs.MakePage(im.PageSize, n, c.Rng.U64(), n, false)
				nim.Pages[n-1] = data
				body = buildLTX(uint32(im.PageSize), n, uint64(pos.TXID)+1, uint64(pos.TXID)+1, uint64(pos.PostApplyChecksum), nim.Checksum()^0x3039, map[uint32][]byte{n: data})
			}
			code, rerr := do("POST", fmt.Sprintf("%s/tx?name=%s&lockID=7", p.Server.URL(), knownDB), body)
			c.Evaluations++
			c.Distinct("forwarded-file:" + variant)
			rep := map[string]any{"kind": "api-forwarded-file", "variant": variant}
			key := "C20:tx:continuing:" + variant
			after := takeSnap(dir, p)
			switch {
			case rerr != nil:
				c.Violate(key+":no-response", fmt.Sprintf("POST /tx (%s) got no response: %v", variant, rerr), rep)
			case code >= 200 && code < 300:
				c.Violate(key+":accepted", fmt.Sprintf("POST /tx (%s) was answered %d", variant, code), rep)
			case len(p.Exits()) > 0:
				c.Violate(key+":exit", fmt.Sprintf("POST /tx by the lock holder with a file that continues the position but has %s was answered %d and made the primary stop itself (Exit %v); differences it left behind: %v", variant, code, p.Exits(), before.diff(after)), rep)
			default:
				if d := before.diff(after); len(d) > 0 {
					c.Violate(key+":changed", fmt.Sprintf("POST /tx (%s) was refused (%d) and changed the node: %v", variant, code, d), rep)
				}
			}
			return nil
		}()
		if err != nil {
			return err
		}
	}
	return nil
}
