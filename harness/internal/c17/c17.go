// Package c17: journal rollback and WAL scanning follow SQLite's validity rules on any bytes.
package c17

import (
	"bytes"
	"encoding/binary"
	"fmt"
	"io"
	"os"
	"path/filepath"
	"strings"
	"time"

	"github.com/superfly/litefs"

	"lfsverif/internal/common"
	"lfsverif/internal/hist"
	"lfsverif/internal/lfs"
)

// ---------- WAL ----------
type walCase struct {
	bytes []byte
	kind  string
}

func walChecksum(bo binary.ByteOrder, s0, s1 uint32, b []byte) (uint32, uint32) {
	for i := 0; i+8 <= len(b); i += 8 {
		s0 += bo.Uint32(b[i:]) + s1
		s1 += bo.Uint32(b[i+4:]) + s0
	}
	return s0, s1
}

// buildWAL builds a WAL with the given frames (pgno, commit) and returns the bytes.
func buildWAL(r *common.Rand, ps int, be bool, frames [][2]uint32) []byte {
	var bo binary.ByteOrder = binary.LittleEndian
	magic := uint32(0x377f0682)
	if be {
		bo, magic = binary.BigEndian, 0x377f0683
	}
	hdr := make([]byte, 32)
	binary.BigEndian.PutUint32(hdr[0:], magic)
	binary.BigEndian.PutUint32(hdr[4:], 3007000)
	binary.BigEndian.PutUint32(hdr[8:], uint32(ps))
	binary.BigEndian.PutUint32(hdr[12:], uint32(r.Intn(5)))
	salt1, salt2 := uint32(r.U64()), uint32(r.U64())
	binary.BigEndian.PutUint32(hdr[16:], salt1)
	binary.BigEndian.PutUint32(hdr[20:], salt2)
	c1, c2 := walChecksum(bo, 0, 0, hdr[:24])
	binary.BigEndian.PutUint32(hdr[24:], c1)
	binary.BigEndian.PutUint32(hdr[28:], c2)
	out := append([]byte(nil), hdr...)
	for _, f := range frames {
		h := make([]byte, 24)
		data := r.Bytes(ps)
		if f[0] == 1 && ps >= 512 {
			// page 1 always carries a well-formed database header (size: the commit size, else a plausible one)
			n := f[1]
			if n == 0 {
				n = 1
			}
			lfs.SetHeader(data, ps, n, true)
		}
		binary.BigEndian.PutUint32(h[0:], f[0])
		binary.BigEndian.PutUint32(h[4:], f[1])
		binary.BigEndian.PutUint32(h[8:], salt1)
		binary.BigEndian.PutUint32(h[12:], salt2)
		c1, c2 = walChecksum(bo, c1, c2, h[:8])
		c1, c2 = walChecksum(bo, c1, c2, data)
		binary.BigEndian.PutUint32(h[16:], c1)
		binary.BigEndian.PutUint32(h[20:], c2)
		out = append(out, h...)
		out = append(out, data...)
	}
	return out
}

// oddPageSizeWAL: a log whose header is intact (magic, version, checksum) but names a page size SQLite does not accept,
// followed by one frame with the right salts.
func oddPageSizeWAL(r *common.Rand, ps uint32, be bool) []byte {
	b := buildWAL(r, 512, be, nil)
	var bo binary.ByteOrder = binary.LittleEndian
	if be {
		bo = binary.BigEndian
	}
	binary.BigEndian.PutUint32(b[8:], ps)
	c1, c2 := walChecksum(bo, 0, 0, b[:24])
	binary.BigEndian.PutUint32(b[24:], c1)
	binary.BigEndian.PutUint32(b[28:], c2)
	n := int(ps)
	if n > 70000 {
		n = 70000
	}
	fr := make([]byte, 24+n)
	binary.BigEndian.PutUint32(fr[0:], 1)
	binary.BigEndian.PutUint32(fr[4:], 1)
	copy(fr[8:16], b[16:24])
	copy(fr[16:24], r.Bytes(8))
	copy(fr[24:], r.Bytes(n))
	return append(b, fr...)
}

var oddPageSizes = []uint32{100, 7, 24, 0, 1, 8, 256, 1000, 1023, 520, 131072, 65537, 1 << 20}

type walObs struct {
	hdr    uint64 // 0 ok, 1 EOF (invalid/short/checksum), 3 other error (bad magic / version)
	frames [][2]uint32
	end    uint64 // 1 EOF after the frames, 3 other error, 99 panic, 98 hang
}

func readWALImpl(b []byte) (o walObs) {
	done := make(chan struct{})
	go func() {
		defer close(done)
		defer func() {
			if r := recover(); r != nil {
				o.end = 99
			}
		}()
		rd := litefs.NewWALReader(bytes.NewReader(b))
		if err := rd.ReadHeader(); err == io.EOF {
			o.hdr = 1
			return
		} else if err != nil {
			o.hdr = 3
			return
		}
		buf := make([]byte, rd.PageSize())
		for {
			pgno, commit, err := rd.ReadFrame(buf)
			if err == io.EOF {
				o.end = 1
				return
			} else if err != nil {
				o.end = 3
				return
			}
			o.frames = append(o.frames, [2]uint32{pgno, commit})
			if len(o.frames) > 100000 {
				o.end = 98
				return
			}
		}
	}()
	select {
	case <-done:
	case <-time.After(5 * time.Second):
		o.end = 98
	}
	return o
}

func (o walObs) flat() []uint64 {
	out := []uint64{o.hdr}
	if o.hdr != 0 {
		return out
	}
	for _, f := range o.frames {
		out = append(out, uint64(f[0]), uint64(f[1]))
	}
	return append(out, 1000+o.end)
}

func walCases(c *common.Ctx, cf *common.CaseFile) {
	n := c.Pick(120, 1500)
	for i := 0; i < n; i++ {
		r := c.Rng.Fork()
		ps := []int{512, 512, 1024}[r.Intn(3)]
		be := r.Bool()
		nf := r.Intn(6)
		var frames [][2]uint32
		for j := 0; j < nf; j++ {
			commit := uint32(0)
			if r.Chance(40) {
				commit = uint32(1 + r.Intn(20))
			}
			frames = append(frames, [2]uint32{uint32(1 + r.Intn(20)), commit})
		}
		if i == n-1 || i == n-2 {
			// a frame naming page 0 between valid ones (checksums intact): the valid prefix ends before it
			be = i == n-1
			nf = 4
			frames = [][2]uint32{{1, 0}, {2, 2}, {0, 2}, {3, 3}}
		}
		if i < 16 {
			// fixed cases first: one salt word of one frame altered, everything else (the checksum chain does not
			// cover the salts) intact - for both words, both checksum byte orders, every frame position
			be = i&1 == 1
			nf = 4
			frames = [][2]uint32{{1, 0}, {2, 2}, {3, 0}, {1, 3}}
		}
		b := buildWAL(r, ps, be, frames)
		kind := "valid"
		switch x := r.Intn(100); {
		case i >= n-2:
			kind = "frame-naming-page-0"
		case i >= 16 && i < 16+len(oddPageSizes):
			kind = fmt.Sprintf("odd-page-size-%d", oddPageSizes[i-16])
			b = oddPageSizeWAL(r, oddPageSizes[i-16], i&1 == 1)
		case i < 16:
			word, k := i>>1&1, i>>2&3
			kind = fmt.Sprintf("salt%d-of-frame-%d", word+1, k)
			off := 32 + k*(24+ps) + 8 + 4*word
			b[off+r.Intn(4)] ^= 1 << uint(r.Intn(8))
		case x < 25:
		case x < 40: // truncate at a random point
			kind = "truncated"
			b = b[:r.Intn(len(b)+1)]
		case x < 55 && len(b) > 32: // flip a bit somewhere in the frames
			kind = "bitflip-frames"
			p := 32 + r.Intn(len(b)-32)
			b[p] ^= 1 << uint(r.Intn(8))
		case x < 65: // flip a bit in the header
			kind = "bitflip-header"
			b[r.Intn(32)] ^= 1 << uint(r.Intn(8))
		case x < 72 && nf >= 2: // swap salts of a later frame with other salts (frames of an earlier generation)
			kind = "stale-generation"
			k := 1 + r.Intn(nf-1)
			off := 32 + k*(24+ps)
			copy(b[off+8:], r.Bytes(8))
		case x < 78: // zero a region
			kind = "zeroed-region"
			if len(b) > 40 {
				p := r.Intn(len(b) - 8)
				l := 1 + r.Intn(min(len(b)-p, 600))
				for k := 0; k < l; k++ {
					b[p+k] = 0
				}
			}
		case x < 84: // bad magic / version with self-consistent rest
			kind = "bad-magic-or-version"
			if r.Bool() {
				binary.BigEndian.PutUint32(b[0:], 0x377f0684)
			} else {
				binary.BigEndian.PutUint32(b[4:], 3007001)
			}
		case x < 90: // all zero file
			kind = "zero-file"
			b = make([]byte, 32+r.Intn(3)*(24+ps)+r.Intn(30))
		default:
			kind = "random"
			b = r.Bytes(r.Intn(32 + 2*(24+ps)))
		}
		got := readWALImpl(b)
		c.Evaluations++
		c.Distinct(fmt.Sprintf("wal:%s:%d:%v:%d", kind, ps, be, len(got.frames)))
		c.Count("wal_"+kind, 1)
		rep := map[string]any{"kind": "wal-bytes", "class": kind, "page_size": ps, "bytes": b}
		if got.end == 99 || got.end == 98 {
			what := "panicked"
			if got.end == 98 {
				what = "did not terminate"
			}
			c.Violate("C17:wal-reader:"+what+":"+kind, fmt.Sprintf("WALReader %s on a %d-byte WAL (%s)", what, len(b), kind), rep)
			continue
		}
		// independent reference reader (SQLite's rules)
		ref, _, ok := lfs.ReadWALValid(b)
		if ok != (got.hdr == 0) && !(got.hdr == 0 && !ok) {
			// header accepted by one and not the other
		}
		if got.hdr == 0 {
			if !ok {
				c.Violate("C17:wal-reader:header:"+kind, fmt.Sprintf("WALReader accepted a header that SQLite's rules reject (%s)", kind), rep)
				continue
			}
			if len(ref) != len(got.frames) {
				c.Violate("C17:wal-reader:prefix:"+kind, fmt.Sprintf("WALReader treats %d frames as valid, the longest valid prefix has %d (%s)", len(got.frames), len(ref), kind), rep)
				continue
			}
			for k := range ref {
				if ref[k].Pgno != got.frames[k][0] || ref[k].Commit != got.frames[k][1] {
					c.Violate("C17:wal-reader:frame:"+kind, "WALReader returned a different frame than the reference reader", rep)
					break
				}
			}
		} else if ok && len(b) >= 32 {
			c.Violate("C17:wal-reader:header-rejected:"+kind, fmt.Sprintf("WALReader rejected a header that is valid by SQLite's rules (%s)", kind), rep)
			continue
		}
		if len(b) <= 1800 {
			cf.Add(fmt.Sprintf("(CWal %s, %s)", common.CoqBytes(b), common.CoqNList(got.flat())), rep)
		}
	}
}

// ---------- journals ----------
type jobs struct {
	segs  [][]uint64 // per segment: [pgno...] returned by ReadFrame
	valid bool
	size  int64
	end   uint64 // 1 EOF, 3 other error, 99 panic, 98 hang
}

func readJournalImpl(path string, ps uint32) (o jobs) {
	done := make(chan struct{})
	go func() {
		defer close(done)
		defer func() {
			if r := recover(); r != nil {
				o.end = 99
			}
		}()
		f, err := os.Open(path)
		if err != nil {
			o.end = 3
			return
		}
		defer f.Close()
		r := litefs.NewJournalReader(f, ps)
		for i := 0; ; i++ {
			if i >= 3000 {
				o.end = 98 // Next() keeps succeeding without progress: rollbackJournal would never return
				break
			}
			if err := r.Next(); err == io.EOF {
				o.end = 1
				break
			} else if err != nil {
				o.end = 3
				break
			}
			var seg []uint64
			for k := 0; k < 1000000; k++ {
				pgno, _, err := r.ReadFrame()
				if err == io.EOF {
					break
				} else if err != nil {
					o.end = 3
					break
				}
				seg = append(seg, uint64(pgno))
			}
			o.segs = append(o.segs, seg)
			if o.end == 3 {
				break
			}
		}
		o.valid = r.IsValid()
		o.size = r.DatabaseSize()
	}()
	select {
	case <-done:
	case <-time.After(5 * time.Second):
		o.end = 98
	}
	return o
}

func (o jobs) flat(ps uint32) []uint64 {
	out := []uint64{}
	for _, s := range o.segs {
		out = append(out, uint64(len(s)))
		out = append(out, s...)
	}
	v := uint64(0)
	if o.valid {
		v = 1
	}
	commit := uint64(0)
	if ps > 0 {
		commit = uint64(o.size) / uint64(ps)
	}
	return append(out, 5000+o.end, v, commit)
}

type seg struct {
	nRec    int32 // value written in the header (-1 no-sync, 0 unsynced, n)
	recs    []uint32
	corrupt int // index of a record with a bad checksum (-1 none)
}

func buildJournal(r *common.Rand, ps, sector int, dbSize uint32, segs []seg, pre func(pg uint32) []byte) []byte {
	var out []byte
	for _, s := range segs {
		nonce := uint32(r.U64()) // SQLite draws a fresh checksum nonce for every journal header
		// sector-align
		for len(out)%sector != 0 {
			out = append(out, 0)
		}
		hdr := make([]byte, sector)
		copy(hdr, "\xd9\xd5\x05\xf9\x20\xa1\x63\xd7")
		binary.BigEndian.PutUint32(hdr[8:], uint32(s.nRec))
		binary.BigEndian.PutUint32(hdr[12:], nonce)
		binary.BigEndian.PutUint32(hdr[16:], dbSize)
		binary.BigEndian.PutUint32(hdr[20:], uint32(sector))
		binary.BigEndian.PutUint32(hdr[24:], uint32(ps))
		out = append(out, hdr...)
		for i, pg := range s.recs {
			var b4 [4]byte
			binary.BigEndian.PutUint32(b4[:], pg)
			out = append(out, b4[:]...)
			d := pre(pg)
			out = append(out, d...)
			ck := nonce
			for k := len(d) - 200; k > 0; k -= 200 {
				ck += uint32(d[k])
			}
			if i == s.corrupt {
				ck ^= 0x1000
			}
			binary.BigEndian.PutUint32(b4[:], ck)
			out = append(out, b4[:]...)
		}
	}
	return out
}

func journalCases(c *common.Ctx, cf *common.CaseFile) error {
	dir, err := os.MkdirTemp(c.OutDir, "c17j-")
	if err != nil {
		return err
	}
	defer os.RemoveAll(dir)
	n := c.Pick(150, 1500)
	for i := 0; i < n; i++ {
		r := c.Rng.Fork()
		ps := []int{512, 512, 1024}[r.Intn(3)]
		sector := []int{512, 512, 1024, 4096}[r.Intn(4)]
		nseg := 1 + r.Intn(3)
		var segs []seg
		for s := 0; s < nseg; s++ {
			k := r.Intn(4)
			var recs []uint32
			for j := 0; j < k; j++ {
				recs = append(recs, uint32(1+r.Intn(12)))
			}
			nrec := int32(k)
			switch r.Intn(6) {
			case 0:
				nrec = 0
			case 1:
				nrec = -1
			}
			segs = append(segs, seg{nRec: nrec, recs: recs, corrupt: -1})
		}
		if r.Chance(15) && len(segs[len(segs)-1].recs) > 0 {
			segs[len(segs)-1].corrupt = len(segs[len(segs)-1].recs) - 1 // torn final record
		}
		b := buildJournal(r, ps, sector, uint32(1+r.Intn(12)), segs, func(pg uint32) []byte { return r.Bytes(ps) })
		kind := "valid"
		readerPS := uint32(ps)
		switch x := r.Intn(100); {
		case x < 25:
		case x < 45:
			kind = "truncated"
			b = b[:r.Intn(len(b)+1)]
		case x < 55 && len(b) > 28:
			kind = "bitflip"
			b[r.Intn(len(b))] ^= 1 << uint(r.Intn(8))
		case x < 62:
			kind = "zero-header"
			for k := 0; k < 28 && k < len(b); k++ {
				b[k] = 0
			}
		case x < 70:
			kind = "hostile-sector-size"
			binary.BigEndian.PutUint32(b[20:], []uint32{0, 1, 3, 1 << 31, 0xFFFFFFFF}[r.Intn(5)])
		case x < 76:
			kind = "hostile-page-size"
			binary.BigEndian.PutUint32(b[24:], []uint32{0, 1, 7, 1 << 31}[r.Intn(4)])
		case x < 82:
			kind = "reader-page-size-0" // a brand-new database: no page size learnt yet
			readerPS = 0
		case x < 88:
			kind = "hostile-count"
			binary.BigEndian.PutUint32(b[8:], []uint32{0x7FFFFFFF, 0x80000000, 0xFFFFFFFE, 1000000}[r.Intn(4)])
		default:
			kind = "random"
			b = r.Bytes(r.Intn(3000))
		}
		path := filepath.Join(dir, "journal")
		_ = os.WriteFile(path, b, 0o644)
		got := readJournalImpl(path, readerPS)
		c.Evaluations++
		c.Distinct(fmt.Sprintf("journal:%s:%d:%d:%d", kind, ps, sector, len(got.segs)))
		c.Count("journal_"+kind, 1)
		rep := map[string]any{"kind": "journal-bytes", "class": kind, "reader_page_size": readerPS, "bytes": b}
		if got.end == 99 || got.end == 98 {
			what := "panicked"
			if got.end == 98 {
				what = "did not terminate"
			}
			c.Violate("C17:journal-reader:"+what+":"+kind, fmt.Sprintf("JournalReader %s on a %d-byte journal (%s, reader page size %d)", what, len(b), kind, readerPS), rep)
			continue
		}
		if len(b) <= 2600 {
			cf.Add(fmt.Sprintf("(CJournal %d %s, %s)", readerPS, common.CoqBytes(b), common.CoqNList(got.flat(readerPS))), rep)
		}
	}
	return nil
}

// ---------- rollback at Open: journals the pager can leave behind, cut at every byte-length class ----------
func rollbackCases(c *common.Ctx) error {
	n := c.Pick(10, 80)
	for i := 0; i < n; i++ {
		r := c.Rng.Fork()
		ps := []int{512, 1024, 4096}[r.Intn(3)]
		cfg := hist.Config{PageSize: ps, Regime: 0}
		h, err := hist.New(c, r.Fork(), cfg)
		if err != nil {
			if h != nil {
				h.Close()
			}
			return err
		}
		// a committed prefix, possibly none (first transaction of a brand-new database)
		k := r.Intn(4)
		if i < 4 && k == 0 {
			k = 1
		}
		okPrefix := true
		for done := 0; done < k; {
			st := h.GenStep()
			if st.Op != "rtx" {
				continue
			}
			st.Outcome = 0
			if ob := h.Exec(st); ob.Err != "" || ob.Panic != "" {
				okPrefix = false
				break
			}
			done++
		}
		if !okPrefix {
			h.Close()
			continue
		}
		if i < 4 {
			// the forced cases below journal the last page: make sure the newest transaction file - which Open re-applies
			// after the rollback - does not hold that page (it would put it back whatever the rollback did)
			if len(h.Ref.Pages) < 3 {
				h.Exec(hist.Step{Op: "rtx", Writes: map[uint32]uint64{2: 170002, 3: 170003}, NewSize: 3})
			}
			h.Exec(hist.Step{Op: "rtx", Writes: map[uint32]uint64{1: 170001}, NewSize: uint32(len(h.Ref.Pages))})
		}
		pre := h.Ref.Clone()
		prePos := h.RefPos
		h.Node.Close()
		h.Node = nil
		dbDir := h.DBDir()
		_ = os.MkdirAll(filepath.Join(dbDir, "ltx"), 0o777)
		// interrupted transaction: journal with the pre-images of the pages it touched, database partially overwritten
		var pages []uint32
		newSize := uint32(len(pre.Pages)) + uint32(r.Intn(3))
		if len(pre.Pages) > 0 {
			for j := 0; j < 1+r.Intn(3); j++ {
				pages = append(pages, uint32(1+r.Intn(len(pre.Pages))))
			}
		}
		sector := []int{512, 4096}[r.Intn(2)]
		nrecMode := r.Intn(3) // 0 exact, 1 unsynced (0), 2 no-sync (-1)
		// the first histories always modify the last page of the database (every appending insert does) and have
		// overwritten it before the writer died
		forced := uint32(0)
		if i < 4 && len(pre.Pages) > 0 {
			forced = uint32(len(pre.Pages))
			pages = append(pages, forced)
			nrecMode = []int{0, 2, 0, 2}[i]
		}
		nrec := int32(len(pages))
		if nrecMode == 1 {
			nrec = 0
		} else if nrecMode == 2 {
			nrec = -1
		}
		jb := buildJournal(r, ps, sector, uint32(len(pre.Pages)), []seg{{nRec: nrec, recs: pages, corrupt: -1}}, func(pg uint32) []byte { return pre.Pages[pg-1] })
		// database after the interrupted writes (only journaled pages and appended pages may differ)
		dbBytes := new(bytes.Buffer)
		for p := uint32(1); p <= newSize || p <= uint32(len(pre.Pages)); p++ {
			journaled := false
			for _, q := range pages {
				if q == p {
					journaled = true
				}
			}
			switch {
			case p > uint32(len(pre.Pages)) || (journaled && nrecMode != 1 && (r.Bool() || p == forced)):
				pg := lfs.MakePage(ps, p, r.U64(), newSize, false)
				dbBytes.Write(pg)
			default:
				dbBytes.Write(pre.Pages[p-1])
			}
		}
		// variant: one record's page number damaged (the record checksum does not cover it)
		hostilePgno := uint32(0)
		if len(pages) > 0 && r.Chance(35) {
			hostilePgno = []uint32{0, 1 << 20, uint32(len(pre.Pages)) + 50}[r.Intn(3)]
			binary.BigEndian.PutUint32(jb[sector:], hostilePgno)
		}
		maxWritten := uint32(0)
		zeroWritten := false
		litefs.VerifSetPoint(func(name string, db *litefs.DB, arg uint32) {
			if name == "writeDatabasePage" {
				if arg > maxWritten {
					maxWritten = arg
				}
				if arg == 0 {
					zeroWritten = true
				}
			}
		})
		cuts := []int{len(jb)}
		for _, cc := range []int{0, 1, 8, 27, 28, sector - 1, sector, sector + 3, sector + 4, sector + 4 + ps, sector + 8 + ps - 1, sector + 8 + ps, len(jb) - 1} {
			if cc >= 0 && cc < len(jb) {
				cuts = append(cuts, cc)
			}
		}
		for _, cut := range cuts {
			// a journal cut before its first record was synced means the database was never overwritten
			dbNow := dbBytes.Bytes()
			complete := cut == len(jb)
			if !complete {
				recsIntact := 0
				if cut >= sector {
					recsIntact = (cut - sector) / (8 + ps)
				}
				// only pages whose record is intact may have been overwritten
				b2 := new(bytes.Buffer)
				for p := uint32(1); int(p-1)*ps < len(dbNow); p++ {
					cur := dbNow[int(p-1)*ps : int(p)*ps]
					idx := -1
					for j, q := range pages {
						if q == p && idx < 0 {
							idx = j
						}
					}
					if p <= uint32(len(pre.Pages)) && (idx < 0 || idx >= recsIntact) {
						b2.Write(pre.Pages[p-1])
					} else {
						b2.Write(cur)
					}
				}
				dbNow = b2.Bytes()
			}
			_ = os.WriteFile(filepath.Join(dbDir, "database"), dbNow, 0o644)
			_ = os.WriteFile(filepath.Join(dbDir, "journal"), jb[:cut], 0o644)
			var node *lfs.Node
			var oerr error
			pan := common.Try(func() { node, oerr = lfs.Open(h.Dir, true) })
			c.Evaluations++
			cls := "mid"
			if complete {
				cls = "complete"
			} else if cut < 28 {
				cls = "header"
			}
			first := "later-tx"
			if len(pre.Pages) == 0 {
				first = "first-tx"
			}
			c.Distinct(fmt.Sprintf("rollback:%d:%d:%s:%s:%d", ps, sector, cls, first, nrecMode))
			rep := map[string]any{"kind": "hot-journal", "page_size": ps, "sector": sector, "cut": cut, "journal_len": len(jb), "pre_pages": len(pre.Pages), "journaled": pages, "nrec_mode": nrecMode}
			key := fmt.Sprintf("C17:rollback:%s:%s", first, cls)
			if hostilePgno != 0 || (len(pages) > 0 && binary.BigEndian.Uint32(jb[sector:]) == 0) {
				key = fmt.Sprintf("C17:rollback-damaged-pgno:%s", cls)
				rep["damaged_pgno"] = hostilePgno
			}
			limit := uint32(len(pre.Pages))
			if newSize > limit {
				limit = newSize
			}
			if maxWritten > limit || zeroWritten {
				c.Violate(key+":write-outside", fmt.Sprintf("rollback wrote page %d (page 0: %v) of a database that has %d pages (journal says %d)", maxWritten, zeroWritten, limit, len(pre.Pages)), rep)
				maxWritten, zeroWritten = 0, false
				if node != nil {
					node.Close()
				}
				continue
			}
			maxWritten, zeroWritten = 0, false
			if hostilePgno != 0 || (len(pages) > 0 && binary.BigEndian.Uint32(jb[sector:]) == 0) {
				// with a damaged record the pre-image cannot be restored exactly; only safety is checked
				if pan != "" {
					c.Violate(key+":panic", "Open panicked on a journal with a damaged page number: "+pan, rep)
				}
				if node != nil {
					node.Close()
				}
				continue
			}
			if pan != "" || (oerr != nil && strings.Contains(oerr.Error(), "panicked")) {
				c.Violate(key+":panic", fmt.Sprintf("Open with a hot journal (cut %d/%d, %d pre-image pages, first transaction: %v) panicked: %s %v", cut, len(jb), len(pre.Pages), len(pre.Pages) == 0, pan, oerr), rep)
			} else if oerr != nil {
				c.Violate(key+":open-failed", fmt.Sprintf("Open with a hot journal (cut %d/%d, %d pre-image pages) failed: %v", cut, len(jb), len(pre.Pages), oerr), rep)
			} else {
				got, _ := lfs.ReadImage(dbDir)
				want := pre
				if eq, why := got.Equal(want); !eq && len(pre.Pages) > 0 {
					c.Violate(key+":not-restored", fmt.Sprintf("rollback of a hot journal (cut %d/%d) did not restore the pre-transaction database: %s", cut, len(jb), why), rep)
				}
				if db := node.Store.DB("db"); db != nil && uint64(db.Pos().TXID) != prePos {
					c.Violate(key+":position", fmt.Sprintf("position after rollback is %d, want %d", db.Pos().TXID, prePos), rep)
				}
				if _, err := os.Stat(filepath.Join(dbDir, "journal")); err == nil && len(pre.Pages) > 0 {
					c.Violate(key+":journal-left", "a journal file is left for SQLite to replay after LiteFS's rollback", rep)
				}
			}
			if node != nil {
				node.Close()
			}
		}
		litefs.VerifSetPoint(nil)
		h.Close()
	}
	return nil
}

func Run(c *common.Ctx) error {
	cf := c.Cases("cases_c17", "Require Import LF.Base.Bytes LF.Model.WalJournal.\nLocal Open Scope N_scope.", "bcase * list N", "mismatches")
	cf.Shard = 60
	walCases(c, cf)
	if err := journalCases(c, cf); err != nil {
		return err
	}
	if err := rollbackCases(c); err != nil {
		return err
	}
	if err := walAtOpen(c); err != nil {
		return err
	}
	if err := emptyDatabaseJournal(c); err != nil {
		return err
	}
	if err := walOddCompany(c); err != nil {
		return err
	}
	c.Sample(map[string]any{"wal_case": "header + k frames, then one of: truncation, bit flip, stale-generation salts, zeroed region, bad magic/version, zero file, random bytes"})
	return nil
}

// walAtOpen: arbitrary bytes as the -wal file of a database directory at Open (with and without a transaction log).
func walAtOpen(c *common.Ctx) error {
	n := c.Pick(40, 300)
	for i := 0; i < n; i++ {
		r := c.Rng.Fork()
		ps := 512
		cfg := hist.Config{PageSize: ps, Regime: 0, AllowWAL: true, ForceWAL: r.Bool()}
		h, err := hist.New(c, r.Fork(), cfg)
		if err != nil {
			if h != nil {
				h.Close()
			}
			return err
		}
		for done := 0; done < 2; {
			st := h.GenStep()
			if st.Op != "rtx" && st.Op != "wtx" {
				continue
			}
			st.Outcome = 0
			if ob := h.Exec(st); ob.Err != "" || ob.Panic != "" {
				break
			}
			done++
		}
		pre := h.Ref.Clone()
		h.Node.Close()
		h.Node = nil
		dbDir := h.DBDir()
		withLog := r.Bool()
		if !withLog {
			_ = os.RemoveAll(filepath.Join(dbDir, "ltx"))
		}
		var wal []byte
		kind := ""
		want := pre // what Open must leave: the committed database
		sel := r.Intn(8)
		if i < len(oddPageSizes) {
			sel = 100 + i
		} else if i < len(oddPageSizes)+3 {
			sel = 6 // committed transactions ...
		}
		shrinkAfter := i >= len(oddPageSizes) && i < len(oddPageSizes)+3 // ... the last of which cuts off pages an earlier one wrote
		switch sel {
		case 6, 7:
			// k committed transactions followed by valid frames of one that never committed (no transaction
			// log: the checkpoint at Open takes the committed ones and only those)
			k := r.Intn(4)
			kind = fmt.Sprintf("%d-commits-then-uncommitted", k)
			withLog = false
			_ = os.RemoveAll(filepath.Join(dbDir, "ltx"))
			size := uint32(len(pre.Pages))
			var frames [][2]uint32
			for t := 0; t < k; t++ {
				nf := 1 + r.Intn(3)
				for j := 0; j < nf; j++ {
					pg := uint32(1 + r.Intn(int(size)+1))
					commit := uint32(0)
					if j == nf-1 {
						pg = 1 // SQLite rewrites page 1 (size, change counter) in every transaction; it carries the commit size
						commit = size
					} else if pg > size {
						size = pg
					}
					frames = append(frames, [2]uint32{pg, commit})
				}
			}
			if shrinkAfter {
				// one transaction appends three pages, the next one commits a size two pages smaller (vacuum)
				kind = "grow-then-shrink-then-uncommitted"
				frames = append(frames, [2]uint32{size + 1, 0}, [2]uint32{size + 2, 0}, [2]uint32{size + 3, 0}, [2]uint32{1, size + 3})
				frames = append(frames, [2]uint32{2, 0}, [2]uint32{1, size + 1})
				size++
			}
			for j := 0; j < 1+r.Intn(3); j++ {
				frames = append(frames, [2]uint32{uint32(1 + r.Intn(int(size))), 0})
			}
			wal = buildWAL(r, ps, r.Bool(), frames)
			if vf, _, ok := lfs.ReadWALValid(wal); ok && len(pre.Pages) > 0 {
				img := pre.Clone()
				last := -1
				for i, f := range vf {
					if f.Commit != 0 {
						last = i
					}
				}
				var csize uint32
				for i := 0; i <= last; i++ {
					for uint32(len(img.Pages)) < vf[i].Pgno {
						img.Pages = append(img.Pages, make([]byte, ps))
					}
					img.Pages[vf[i].Pgno-1] = vf[i].Data
					if vf[i].Commit != 0 {
						csize = vf[i].Commit
					}
				}
				if last >= 0 && int(csize) <= len(img.Pages) {
					img.Pages = img.Pages[:csize]
				}
				want = img
			}
		case 0:
			kind, wal = "zero-filled", make([]byte, 32+r.Intn(3)*(24+ps)+r.Intn(40))
		case 1:
			kind, wal = "random", r.Bytes(r.Intn(2000))
		case 2:
			kind = "bad-magic-zero-salts"
			wal = make([]byte, 32+2*(24+ps))
			binary.BigEndian.PutUint32(wal[0:], 0x12345678)
		case 3:
			kind = "bad-version"
			wal = buildWAL(r, ps, false, [][2]uint32{{1, 1}})
			binary.BigEndian.PutUint32(wal[4:], 3007001)
		case 4:
			kind = "valid-uncommitted"
			wal = buildWAL(r, ps, r.Bool(), [][2]uint32{{1, 0}, {2, 0}})
		default:
			if sel >= 100 {
				kind = fmt.Sprintf("odd-page-size-%d", oddPageSizes[sel-100])
				wal = oddPageSizeWAL(r, oddPageSizes[sel-100], i&1 == 1)
				break
			}
			kind = "short"
			wal = r.Bytes(r.Intn(32))
		}
		// the checkpoint at Open must only see the database file the journal/WAL belongs to
		if img, err := lfs.ReadImage(dbDir); err == nil && len(img.Pages) > 0 {
			_ = img
		}
		_ = os.WriteFile(filepath.Join(dbDir, "wal"), wal, 0o644)
		var node *lfs.Node
		var oerr error
		done := make(chan struct{})
		var pan string
		go func() {
			defer close(done)
			pan = common.Try(func() { node, oerr = lfs.Open(h.Dir, true) })
		}()
		hung := false
		select {
		case <-done:
		case <-time.After(10 * time.Second):
			hung = true
		}
		c.Evaluations++
		c.Distinct(fmt.Sprintf("wal-at-open:%s:%v", kind, withLog))
		rep := map[string]any{"kind": "wal-at-open", "class": kind, "with_log": withLog, "wal": wal}
		key := fmt.Sprintf("C17:wal-at-open:%s:log=%v", kind, withLog)
		switch {
		case hung:
			c.Violate(key+":hang", "Open did not return within 10 s", rep)
			return nil
		case pan != "" || (oerr != nil && strings.Contains(oerr.Error(), "panicked")):
			c.Violate(key+":panic", fmt.Sprintf("Open panicked on a %d-byte %s WAL: %s %v", len(wal), kind, pan, oerr), rep)
		case oerr != nil && strings.HasSuffix(kind, "then-uncommitted"):
			c.Violate("C17:wal-at-open:committed-prefix:open", fmt.Sprintf("Open failed on a well-formed WAL of %s: %v", kind, oerr), rep)
		case oerr == nil:
			got, _ := lfs.ReadImage(dbDir)
			if withLog && len(pre.Pages) > 0 {
				if eq, why := got.Equal(pre); !eq {
					c.Violate(key+":image", "Open with an invalid WAL changed the committed database: "+why, rep)
				}
			}
			if strings.HasSuffix(kind, "then-uncommitted") {
				c.Count("wal_at_open_committed_prefix_checked", 1)
			}
			if strings.HasSuffix(kind, "then-uncommitted") && len(pre.Pages) > 0 {
				if eq, why := got.Equal(want); !eq {
					c.Violate("C17:wal-at-open:committed-prefix", fmt.Sprintf("Open on a WAL of %s did not leave exactly the committed transactions in the database: %s", kind, why), rep)
				}
			}
		}
		if node != nil {
			node.Close()
		}
		h.Close()
	}
	return nil
}

// emptyDatabaseJournal: a database file without pages next to a journal - what the first transaction of a brand-new
// database leaves when its writer dies before page 1 reaches the file (original size 0), and the same with arbitrary
// original sizes and records (arbitrary bytes: nothing such a journal says may make Open panic, hang or write).
func emptyDatabaseJournal(c *common.Ctx) error {
	type shape struct {
		name   string
		dbSize uint32
		segs   []seg
	}
	shapes := []shape{
		{"original-size-0-no-records", 0, []seg{{nRec: 0, corrupt: -1}}},
		{"original-size-0-one-record", 0, []seg{{nRec: 1, recs: []uint32{1}, corrupt: -1}}},
		{"original-size-5-one-record", 5, []seg{{nRec: 1, recs: []uint32{1}, corrupt: -1}}},
		{"original-size-5-three-records-nosync", 5, []seg{{nRec: -1, recs: []uint32{1, 2, 5}, corrupt: -1}}},
		{"original-size-3-two-segments", 3, []seg{{nRec: 1, recs: []uint32{2}, corrupt: -1}, {nRec: 1, recs: []uint32{3}, corrupt: -1}}},
	}
	for _, sh := range shapes {
		for _, ps := range []int{512, 4096} {
			r := c.Rng.Fork()
			dir, err := os.MkdirTemp(c.OutDir, "c17e-")
			if err != nil {
				return err
			}
			dbDir := filepath.Join(dir, "dbs", "db")
			_ = os.MkdirAll(filepath.Join(dbDir, "ltx"), 0o755)
			_ = os.WriteFile(filepath.Join(dbDir, "database"), nil, 0o644)
			j := buildJournal(r, ps, 512, sh.dbSize, sh.segs, func(pg uint32) []byte { return lfs.MakePage(ps, pg, uint64(pg)+77, sh.dbSize, false) })
			_ = os.WriteFile(filepath.Join(dbDir, "journal"), j, 0o644)
			var node *lfs.Node
			var oerr error
			var pan string
			done := make(chan struct{})
			go func() {
				defer close(done)
				pan = common.Try(func() { node, oerr = lfs.Open(dir, true) })
			}()
			hung := false
			select {
			case <-done:
			case <-time.After(10 * time.Second):
				hung = true
			}
			c.Evaluations++
			c.Distinct(fmt.Sprintf("empty-database-journal:%s:%d", sh.name, ps))
			rep := map[string]any{"kind": "empty-database-journal", "shape": sh.name, "page_size": ps, "journal": j}
			key := "C17:empty-database-journal:" + sh.name
			switch {
			case hung:
				c.Violate(key+":hang", "Open did not return within 10 s", rep)
				return nil
			case pan != "" || (oerr != nil && strings.Contains(oerr.Error(), "panicked")):
				c.Violate(key+":panic", fmt.Sprintf("Open panicked on an empty database file next to a journal (%s, %d-byte pages): %s %v", sh.name, ps, pan, oerr), rep)
			case sh.dbSize == 0 && oerr != nil:
				c.Violate(key+":open", fmt.Sprintf("Open fails on the journal of a brand-new database's interrupted first transaction: %v", oerr), rep)
			case oerr == nil:
				if fi, err := os.Stat(filepath.Join(dbDir, "database")); err == nil && fi.Size() != 0 && sh.dbSize == 0 {
					c.Violate(key+":size", fmt.Sprintf("rollback to an original size of 0 pages left a database file of %d bytes", fi.Size()), rep)
				}
				if b, err := os.ReadFile(filepath.Join(dbDir, "journal")); err == nil && len(b) >= 8 && string(b[:8]) == "\xd9\xd5\x05\xf9\x20\xa1\x63\xd7" {
					c.Violate(key+":hot-journal", "a hot journal is left after Open", rep)
				}
			}
			if node != nil {
				node.Close()
			}
			_ = os.RemoveAll(dir)
		}
	}
	return nil
}

// walOddCompany: well-formed logs (header, salts and checksums all valid) that are no use to the database they lie next
// to. (a) a database file that holds no page yet (SQLite deletes such a log); (b) a log with another page size than the
// database's; (c) a log in which a frame names page 0 - SQLite's walDecodeFrame ends the valid prefix there. Open must
// not panic, hang or fail, and the database is the committed one (for (c): with the transactions before that frame).
func walOddCompany(c *common.Ctx) error {
	for i := 0; i < 6; i++ {
		r := c.Rng.Fork()
		be := i&1 == 1
		ps := 512
		var dir, dbDir, kind string
		var pre, want *lfs.Image
		var h *hist.Runner
		if i < 2 {
			kind = "empty-database-valid-log"
			d, err := os.MkdirTemp(c.OutDir, "c17o-")
			if err != nil {
				return err
			}
			defer os.RemoveAll(d)
			dir, dbDir = d, filepath.Join(d, "dbs", "db")
			_ = os.MkdirAll(filepath.Join(dbDir, "ltx"), 0o755)
			_ = os.WriteFile(filepath.Join(dbDir, "database"), nil, 0o644)
			pre = &lfs.Image{}
			want = pre
		} else {
			var err error
			h, err = hist.New(c, r.Fork(), hist.Config{PageSize: ps, AllowWAL: true, ForceWAL: true})
			if err != nil {
				if h != nil {
					h.Close()
				}
				return err
			}
			for _, st := range []hist.Step{
				{Op: "rtx", Writes: map[uint32]uint64{1: 1, 2: 2, 3: 3}, NewSize: 3, ToWAL: true},
				{Op: "wtx", Frames: [][2]uint64{{2, 12}}, NewSize: 3},
				{Op: "appckpt", CkptMode: 3},
			} {
				h.Exec(st)
			}
			pre = h.Ref.Clone()
			want = pre
			h.Node.Close()
			h.Node = nil
			dir, dbDir = h.Dir, h.DBDir()
			_ = os.RemoveAll(filepath.Join(dbDir, "ltx")) // no transaction log: the checkpoint at Open decides alone
		}
		var wal []byte
		switch {
		case i < 2:
			wal = buildWAL(r, 4096, be, [][2]uint32{{1, 1}})
		case i < 4:
			kind = "log-with-another-page-size"
			wal = buildWAL(r, 1024, be, [][2]uint32{{1, 0}, {2, 0}, {1, 3}})
		default:
			kind = "frame-naming-page-0"
			wal = buildWAL(r, ps, be, [][2]uint32{{2, 0}, {1, 3}, {0, 3}, {3, 0}, {1, 3}})
			if vf, _, ok := lfs.ReadWALValid(wal); ok && len(vf) == 2 {
				img := pre.Clone()
				img.Pages[1], img.Pages[0] = vf[0].Data, vf[1].Data
				want = img
			} else {
				return fmt.Errorf("reference reader: %d frames before the frame naming page 0", len(vf))
			}
		}
		_ = os.WriteFile(filepath.Join(dbDir, "wal"), wal, 0o644)
		var node *lfs.Node
		var oerr error
		done := make(chan struct{})
		var pan string
		go func() {
			defer close(done)
			pan = common.Try(func() { node, oerr = lfs.Open(dir, true) })
		}()
		hung := false
		select {
		case <-done:
		case <-time.After(10 * time.Second):
			hung = true
		}
		c.Evaluations++
		c.Distinct(fmt.Sprintf("wal-odd-company:%s:%v", kind, be))
		rep := map[string]any{"kind": "wal-odd-company", "class": kind, "big_endian": be, "wal": wal}
		key := "C17:wal-odd-company:" + kind
		switch {
		case hung:
			c.Violate(key+":hang", "Open did not return within 10 s", rep)
			return nil
		case pan != "" || (oerr != nil && strings.Contains(oerr.Error(), "panicked")):
			c.Violate(key+":panic", fmt.Sprintf("Open panicked on a well-formed %d-byte log (%s): %s %v", len(wal), kind, pan, oerr), rep)
		case oerr != nil:
			c.Violate(key+":open", fmt.Sprintf("Open failed on a well-formed log (%s): %v", kind, oerr), rep)
		default:
			got, _ := lfs.ReadImage(dbDir)
			if got == nil {
				got = &lfs.Image{}
			}
			if len(want.Pages) == 0 && len(got.Pages) != 0 {
				c.Violate(key+":image", fmt.Sprintf("Open made a database of %d pages out of a log next to an empty database file", len(got.Pages)), rep)
			} else if len(want.Pages) > 0 {
				if eq, why := got.Equal(want); !eq {
					c.Violate(key+":image", "Open did not leave the committed database: "+why, rep)
				}
			}
		}
		if node != nil {
			node.Close()
		}
		if h != nil {
			h.Close()
		}
	}
	return nil
}
