package c12

import (
	"context"
	"fmt"
	"os"

	"github.com/superfly/litefs"

	"lfsverif/internal/common"
	"lfsverif/internal/lfs"
)

var dbLocks = []litefs.LockType{litefs.LockTypePending, litefs.LockTypeReserved, litefs.LockTypeShared}
var shmLocks = []litefs.LockType{litefs.LockTypeWrite, litefs.LockTypeCkpt, litefs.LockTypeRecover, litefs.LockTypeRead0, litefs.LockTypeRead1, litefs.LockTypeRead2, litefs.LockTypeRead3, litefs.LockTypeRead4, litefs.LockTypeDMS}

// byteRanges: POSIX byte-range requests reach the locks through ParseDatabaseLockRange / ParseSHMLockRange; a range
// names exactly the locks whose byte lies inside it - in particular each single byte names its own lock.
func byteRanges(c *common.Ctx) {
	pts := []uint64{0, 71, 72, 73, 119, 120, 121, 122, 123, 124, 125, 126, 127, 128, 129, 0x3FFFFFFF, 0x40000000, 0x40000001, 0x40000002, 0x40000003, 0x400001FF, 0x40000200, ^uint64(0)}
	for _, a := range pts {
		for _, b := range pts {
			gotDB := litefs.ParseDatabaseLockRange(a, b)
			gotSHM := litefs.ParseSHMLockRange(a, b)
			c.Evaluations++
			var wantDB, wantSHM []litefs.LockType
			for _, l := range dbLocks {
				if a <= uint64(l) && uint64(l) <= b {
					wantDB = append(wantDB, l)
				}
			}
			for _, l := range shmLocks {
				if a <= uint64(l) && uint64(l) <= b {
					wantSHM = append(wantSHM, l)
				}
			}
			if fmt.Sprint(gotDB) != fmt.Sprint(wantDB) || fmt.Sprint(gotSHM) != fmt.Sprint(wantSHM) {
				c.Violate("C12:byte-range", fmt.Sprintf("byte range [%d,%d] names the locks %v / %v, want %v / %v", a, b, gotDB, gotSHM, wantDB, wantSHM), map[string]any{"kind": "byte-range", "start": a, "end": b})
				return
			}
		}
	}
	c.Distinct("byte-ranges")
}

// twoOwnersPerLock: every one of the twelve locks of a database, addressed the way the FUSE handlers do (single-byte
// range -> lock types -> DB.TryLocks / TryRLocks / CanLock / Unlock), excludes a second owner.
func twoOwnersPerLock(c *common.Ctx) error {
	dir, err := os.MkdirTemp(c.OutDir, "c12l-")
	if err != nil {
		return err
	}
	defer os.RemoveAll(dir)
	n, err := lfs.Open(dir, true)
	if err != nil {
		return err
	}
	defer n.Close()
	db, f, err := n.Store.CreateDB("db")
	if err != nil {
		return err
	}
	_ = f.Close()
	ctx := context.Background()
	for _, l := range append(append([]litefs.LockType{}, dbLocks...), shmLocks...) {
		if l == litefs.LockTypeWrite || l == litefs.LockTypeCkpt {
			continue // these two carry LiteFS's own commit / gating logic (C03, C11)
		}
		var lts []litefs.LockType
		if l == litefs.LockTypePending || l == litefs.LockTypeReserved || l == litefs.LockTypeShared {
			lts = litefs.ParseDatabaseLockRange(uint64(l), uint64(l))
		} else {
			lts = litefs.ParseSHMLockRange(uint64(l), uint64(l))
		}
		c.Evaluations++
		c.Distinct(fmt.Sprintf("two-owners:%d", int(l)))
		rep := map[string]any{"kind": "two-owners", "lock": int(l), "types": fmt.Sprint(lts)}
		ok1, _ := db.TryLocks(ctx, 1, lts)
		ok2, _ := db.TryLocks(ctx, 2, lts)
		sh2 := db.TryRLocks(ctx, 2, lts)
		if !ok1 || ok2 || sh2 {
			c.Violate("C12:two-owners", fmt.Sprintf("lock byte %d (%v): owner 1 exclusive=%v, then owner 2 exclusive=%v shared=%v; want true, false, false", int(l), lts, ok1, ok2, sh2), rep)
		}
		_ = db.Unlock(ctx, 1, lts)
		_ = db.Unlock(ctx, 2, lts)
		s1 := db.TryRLocks(ctx, 1, lts)
		s2 := db.TryRLocks(ctx, 2, lts)
		up, _ := db.TryLocks(ctx, 1, lts)
		if !s1 || !s2 || up {
			c.Violate("C12:two-owners:upgrade", fmt.Sprintf("lock byte %d (%v): two shared holders (%v, %v), then owner 1's upgrade = %v; want true, true, false", int(l), lts, s1, s2, up), rep)
		}
		_ = db.Unlock(ctx, 1, lts)
		_ = db.Unlock(ctx, 2, lts)
	}
	return nil
}
