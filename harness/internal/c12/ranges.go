package c12

import (
	"context"
	"fmt"
	"os"

	"github.com/superfly/litefs"

	"lfsverif/internal/common"
	"lfsverif/internal/lfs"
)

var dbLocks = []litefs.LockType{litefs.LockTypePending, litefs.LockTypeReserved, litefs.LockTypeShared}
var shmLocks = []litefs.LockType{litefs.LockTypeWrite, litefs.LockTypeCkpt, litefs.LockTypeRecover, litefs.LockTypeRead0, litefs.LockTypeRead1, litefs.LockTypeRead2, litefs.LockTypeRead3, litefs.LockTypeRead4, litefs.LockTypeDMS}

// byteRanges: POSIX byte-range requests reach the locks through ParseDatabaseLockRange / ParseSHMLockRange; a range
// names exactly the locks whose byte lies inside it - in particular each single byte names its own lock.
func byteRanges(c *common.Ctx) {
	pts := []uint64{0, 71, 72, 73, 119, 120, 121, 122, 123, 124, 125, 126, 127, 128, 129, 0x3FFFFFFF, 0x40000000, 0x40000001, 0x40000002, 0x40000003, 0x400001FF, 0x40000200, ^uint64(0)}
	for _, a := range pts {
		for _, b := range pts {
			gotDB := litefs.ParseDatabaseLockRange(a, b)
			gotSHM := litefs.ParseSHMLockRange(a, b)
			c.Evaluations++
			var wantDB, wantSHM []litefs.LockType
			for _, l := range dbLocks {
				if a <= uint64(l) && uint64(l) <= b {
					wantDB = append(wantDB, l)
				}
			}
			for _, l := range shmLocks {
				if a <= uint64(l) && uint64(l) <= b {
					wantSHM = append(wantSHM, l)
				}
			}
			if fmt.Sprint(gotDB) != fmt.Sprint(wantDB) || fmt.Sprint(gotSHM) != fmt.Sprint(wantSHM) {
				c.Violate("C12:byte-range", fmt.Sprintf("byte range [%d,%d] names the locks %v / %v, want %v / %v", a, b, gotDB, gotSHM, wantDB, wantSHM), map[string]any{"kind": "byte-range", "start": a, "end": b})
				return
			}
		}
	}
	c.Distinct("byte-ranges")
}

// twoOwnersPerLock: every one of the twelve locks of a database, addressed the way the FUSE handlers do (single-byte
// range -> lock types -> DB.TryLocks / TryRLocks / CanLock / Unlock), excludes a second owner.
func twoOwnersPerLock(c *common.Ctx) error {
	dir, err := os.MkdirTemp(c.OutDir, "c12l-")
	if err != nil {
		return err
	}
	defer os.RemoveAll(dir)
	n, err := lfs.Open(dir, true)
	if err != nil {
		return err
	}
	defer n.Close()
	db, f, err := n.Store.CreateDB("db")
	if err != nil {
		return err
	}
	_ = f.Close()
	ctx := context.Background()
	for _, l := range append(append([]litefs.LockType{}, dbLocks...), shmLocks...) {
		if l == litefs.LockTypeWrite || l == litefs.LockTypeCkpt {
			continue // these two carry LiteFS's own commit / gating logic (C03, C11)
		}
		var lts []litefs.LockType
		if l == litefs.LockTypePending || l == litefs.LockTypeReserved || l == litefs.LockTypeShared {
			lts = litefs.ParseDatabaseLockRange(uint64(l), uint64(l))
		} else {
			lts = litefs.ParseSHMLockRange(uint64(l), uint64(l))
		}
		c.Evaluations++
		c.Distinct(fmt.Sprintf("two-owners:%d", int(l)))
		rep := map[string]any{"kind": "two-owners", "lock": int(l), "types": fmt.Sprint(lts)}
		ok1, _ := db.TryLocks(ctx, 1, lts)
		ok2, _ := db.TryLocks(ctx, 2, lts)
		sh2 := db.TryRLocks(ctx, 2, lts)
		if !ok1 || ok2 || sh2 {
			c.Violate("C12:two-owners", fmt.Sprintf("lock byte %d (%v): owner 1 exclusive=%v, then owner 2 exclusive=%v shared=%v; want true, false, false", int(l), lts, ok1, ok2, sh2), rep)
		}
		_ = db.Unlock(ctx, 1, lts)
		_ = db.Unlock(ctx, 2, lts)
		s1 := db.TryRLocks(ctx, 1, lts)
		s2 := db.TryRLocks(ctx, 2, lts)
		up, _ := db.TryLocks(ctx, 1, lts)
		if !s1 || !s2 || up {
			c.Violate("C12:two-owners:upgrade", fmt.Sprintf("lock byte %d (%v): two shared holders (%v, %v), then owner 1's upgrade = %v; want true, true, false", int(l), lts, s1, s2, up), rep)
		}
		_ = db.Unlock(ctx, 1, lts)
		_ = db.Unlock(ctx, 2, lts)
	}
	return nil
}

// rangeAttempts: one fcntl request can name several locks (SQLite locks bytes 124..127 - READ1..READ4 - in one call when it
// restarts or recovers the log). POSIX grants or refuses the whole range: a refused request leaves every lock as it was,
// also the ones that come before the conflicting byte.
func rangeAttempts(c *common.Ctx) error {
	dir, err := os.MkdirTemp(c.OutDir, "c12r-")
	if err != nil {
		return err
	}
	defer os.RemoveAll(dir)
	n, err := lfs.Open(dir, true)
	if err != nil {
		return err
	}
	defer n.Close()
	db, f, err := n.Store.CreateDB("db")
	if err != nil {
		return err
	}
	_ = f.Close()
	ctx := context.Background()
	all := append(append([]litefs.LockType{}, dbLocks...), shmLocks...)
	states := func() string {
		s := ""
		for _, l := range all {
			s += fmt.Sprint(int(db.VerifLockState(l)))
		}
		return s
	}
	ranges := [][2]uint64{{124, 127}, {123, 127}, {122, 127}, {121, 122}, {uint64(litefs.LockTypePending), uint64(litefs.LockTypeShared) + 509}, {uint64(litefs.LockTypeReserved), uint64(litefs.LockTypeShared)}}
	for _, rg := range ranges {
		lts := litefs.ParseSHMLockRange(rg[0], rg[1])
		if rg[0] >= 0x40000000 {
			lts = litefs.ParseDatabaseLockRange(rg[0], rg[1])
		}
		if len(lts) < 2 {
			continue
		}
		for k := 1; k < len(lts); k++ { // the conflicting lock is not the first of the range
			for _, blockerExclusive := range []bool{false, true} {
				for _, ownShared := range []bool{false, true} { // the requester already holds the first lock shared
					for _, wantShared := range []bool{false, true} {
						if wantShared && !blockerExclusive {
							continue // a shared request is only refused by an exclusive holder
						}
						one := []litefs.LockType{lts[k]}
						if blockerExclusive {
							_, _ = db.TryLocks(ctx, 2, one)
						} else {
							db.TryRLocks(ctx, 2, one)
						}
						if ownShared {
							db.TryRLocks(ctx, 1, []litefs.LockType{lts[0]})
						}
						before := states()
						var ok bool
						if wantShared {
							ok = db.TryRLocks(ctx, 1, lts)
						} else {
							ok, _ = db.TryLocks(ctx, 1, lts)
						}
						after := states()
						// what another owner can still do with the first lock of the range
						probe := db.CanRLock(ctx, 3, []litefs.LockType{lts[0]})
						c.Evaluations++
						c.Distinct(fmt.Sprintf("range-attempt:%d-%d:k%d:x%v:s%v:r%v", rg[0], rg[1], k, blockerExclusive, ownShared, wantShared))
						rep := map[string]any{"kind": "lock-range-attempt", "range": rg, "locks": fmt.Sprint(lts), "conflict_at": int(lts[k]), "blocker_exclusive": blockerExclusive, "own_shared_first": ownShared, "shared_request": wantShared}
						switch {
						case ok:
							c.Violate("C12:range:granted", fmt.Sprintf("a request for bytes %d..%d (%v) was granted although another owner holds %d", rg[0], rg[1], lts, int(lts[k])), rep)
						case before != after:
							c.Violate("C12:range:failed-attempt-changed", fmt.Sprintf("a refused request for bytes %d..%d (%v, conflict at byte %d) changed the locks: states %s before, %s after (one digit per lock, 0 unlocked, 1 shared, 2 exclusive); the locks before the conflicting byte stay held by an owner that was told it has nothing", rg[0], rg[1], lts, int(lts[k]), before, after), rep)
						case !probe && !wantShared:
							c.Violate("C12:range:failed-attempt-blocks", fmt.Sprintf("after a refused request for bytes %d..%d a third owner cannot share byte %d", rg[0], rg[1], int(lts[0])), rep)
						}
						for _, o := range []uint64{1, 2, 3} {
							_ = db.Unlock(ctx, o, all)
						}
					}
				}
			}
		}
	}
	return nil
}

// sameOwnerRace: all threads of one process share one POSIX lock owner, so an owner's first two lock requests can arrive
// at the same time. Both are the same owner's: afterwards the owner can upgrade and release what it took, and nothing is
// left behind for others.
func sameOwnerRace(c *common.Ctx) error {
	dir, err := os.MkdirTemp(c.OutDir, "c12s-")
	if err != nil {
		return err
	}
	defer os.RemoveAll(dir)
	n, err := lfs.Open(dir, true)
	if err != nil {
		return err
	}
	defer n.Close()
	db, f, err := n.Store.CreateDB("db")
	if err != nil {
		return err
	}
	_ = f.Close()
	ctx := context.Background()
	iters := c.Pick(3000, 20000)
	pend, resv := []litefs.LockType{litefs.LockTypePending}, []litefs.LockType{litefs.LockTypeReserved}
	both := []litefs.LockType{litefs.LockTypePending, litefs.LockTypeReserved}
	for i := 0; i < iters; i++ {
		owner := uint64(1_000_000 + i)
		start := make(chan struct{})
		done := make(chan bool, 2)
		go func() { <-start; done <- db.TryRLocks(ctx, owner, pend) }()
		go func() { <-start; done <- db.TryRLocks(ctx, owner, resv) }()
		close(start)
		a, b := <-done, <-done
		up, _ := db.TryLocks(ctx, owner, pend) // the only holder upgrades its own shared lock
		_ = db.Unlock(ctx, owner, both)
		p1, _ := db.TryLocks(ctx, 3, both)
		_ = db.Unlock(ctx, 3, both)
		if !a || !b || !up || !p1 {
			c.Evaluations++
			c.Violate("C12:same-owner-race", fmt.Sprintf("iteration %d: a new owner's first two shared requests (PENDING, RESERVED) ran concurrently: granted %v/%v; the owner's own upgrade of PENDING: %v; after the owner released both, another owner's exclusive request: %v (want all true)", i, a, b, up, p1), map[string]any{"kind": "same-owner-race", "iteration": i})
			return nil
		}
	}
	c.Evaluations++
	c.Distinct("same-owner-race")
	return nil
}

// rangeInterference: a request over a range while another owner acts between its steps (the schedule is fixed through
// the lock-state hook). Owner A holds READ1 exclusively, owner B READ2; A asks for READ1..READ2 shared - refused
// because of B. Owner C asks for READ1 shared the moment READ1 stops being exclusive, if it ever does. A refused
// request changes nothing: A still holds READ1 exclusively afterwards, C has nothing.
func rangeInterference(c *common.Ctx) error {
	dir, err := os.MkdirTemp(c.OutDir, "c12i-")
	if err != nil {
		return err
	}
	defer os.RemoveAll(dir)
	n, err := lfs.Open(dir, true)
	if err != nil {
		return err
	}
	defer n.Close()
	db, f, err := n.Store.CreateDB("db")
	if err != nil {
		return err
	}
	_ = f.Close()
	ctx := context.Background()
	const A, B, C = 11, 12, 13
	armed, cGot := false, false
	db.VerifSetLockHook(func(t litefs.LockType, prev, next litefs.RWMutexState) {
		if armed && t == litefs.LockTypeRead1 && prev == litefs.RWMutexStateExclusive && next != litefs.RWMutexStateExclusive {
			armed = false
			cGot = db.TryRLocks(ctx, C, []litefs.LockType{litefs.LockTypeRead1})
		}
	})
	r1, r2 := []litefs.LockType{litefs.LockTypeRead1}, []litefs.LockType{litefs.LockTypeRead2}
	both := []litefs.LockType{litefs.LockTypeRead1, litefs.LockTypeRead2}
	okA, _ := db.TryLocks(ctx, A, r1)
	okB, _ := db.TryLocks(ctx, B, r2)
	if !okA || !okB {
		return fmt.Errorf("setup: exclusive READ1/READ2 refused (%v, %v)", okA, okB)
	}
	armed = true
	got := db.TryRLocks(ctx, A, both)
	armed = false
	c.Evaluations++
	c.Distinct("range-interference:shared-refused")
	st1 := db.VerifLockState(litefs.LockTypeRead1)
	upA, _ := db.TryLocks(ctx, A, r1) // a no-op for the holder of the exclusive lock
	rep := map[string]any{"kind": "range-interference", "shape": "shared request over READ1..READ2 by the exclusive holder of READ1, refused at READ2"}
	if got || st1 != litefs.RWMutexStateExclusive || cGot || !upA {
		c.Violate("C12:range-interference:shared", fmt.Sprintf("owner A holds READ1 exclusively and asks for READ1..READ2 shared while B holds READ2 exclusively: granted=%v; afterwards READ1 is %v (want Exclusive), another owner's shared request on READ1 in between was granted=%v, A's exclusive request on its own lock: %v", got, st1, cGot, upA), rep)
		return nil
	}
	// the same request once B has let go: granted, both shared (READ1 downgraded)
	_ = db.Unlock(ctx, B, r2)
	got = db.TryRLocks(ctx, A, both)
	s1, s2 := db.VerifLockState(litefs.LockTypeRead1), db.VerifLockState(litefs.LockTypeRead2)
	cNow := db.TryRLocks(ctx, C, both)
	c.Evaluations++
	c.Distinct("range-interference:shared-granted")
	if !got || s1 != litefs.RWMutexStateShared || s2 != litefs.RWMutexStateShared || !cNow {
		c.Violate("C12:range-interference:downgrade", fmt.Sprintf("owner A (READ1 exclusive) asks for READ1..READ2 shared with nobody in the way: granted=%v, READ1 %v READ2 %v (want Shared, Shared), another owner's shared request afterwards: %v", got, s1, s2, cNow), rep)
		return nil
	}
	_ = db.Unlock(ctx, C, both)
	// an exclusive request over the range by the shared holder of both, refused at READ2 (B shares it): READ1 is shared again
	okB = db.TryRLocks(ctx, B, r2)
	gotX, _ := db.TryLocks(ctx, A, both)
	s1, s2 = db.VerifLockState(litefs.LockTypeRead1), db.VerifLockState(litefs.LockTypeRead2)
	cNow = db.TryRLocks(ctx, C, r1)
	c.Evaluations++
	c.Distinct("range-interference:exclusive-refused")
	if !okB || gotX || s1 != litefs.RWMutexStateShared || s2 != litefs.RWMutexStateShared || !cNow {
		c.Violate("C12:range-interference:exclusive", fmt.Sprintf("owner A shares READ1 and READ2 (B shares READ2) and asks for both exclusively: granted=%v; afterwards READ1 %v READ2 %v (want Shared, Shared), another owner's shared request on READ1: %v", gotX, s1, s2, cNow), rep)
	}
	return nil
}
