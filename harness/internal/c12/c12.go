// Package c12: RWMutex reader/writer semantics on the real litefs.RWMutex.
package c12

import (
	"context"
	"errors"
	"fmt"
	"strings"
	"sync"
	"sync/atomic"
	"time"

	"github.com/superfly/litefs"

	"lfsverif/internal/common"
)

// op codes shared with Model/RWMutex.v (ocode)
const (
	opTryLock = iota
	opTryRLock
	opUnlock
	opCanLock
	opCanRLock
	opGuardState
	opMutexState
	nOps
)

var opNames = []string{"TryLock", "TryRLock", "Unlock", "CanLock", "CanRLock", "GuardState", "MutexState"}

type step struct{ G, Op int }

// independent spec: POSIX byte-range rules on one byte between distinct owners
type spec struct{ h []int } // 0 unlocked 1 shared 2 exclusive

func (s *spec) othersUnlocked(g int) bool {
	for i, v := range s.h {
		if i != g && v != 0 {
			return false
		}
	}
	return true
}
func (s *spec) othersNotExcl(g int) bool {
	for i, v := range s.h {
		if i != g && v == 2 {
			return false
		}
	}
	return true
}
func (s *spec) mstate() int {
	sh := false
	for _, v := range s.h {
		if v == 2 {
			return 2
		}
		if v == 1 {
			sh = true
		}
	}
	if sh {
		return 1
	}
	return 0
}
func (s *spec) apply(st step) int {
	g := st.G
	switch st.Op {
	case opTryLock:
		if s.othersUnlocked(g) {
			s.h[g] = 2
			return 1
		}
		return 0
	case opTryRLock:
		if s.othersNotExcl(g) {
			s.h[g] = 1
			return 1
		}
		return 0
	case opUnlock:
		s.h[g] = 0
		return 2
	case opCanLock:
		b := 0
		if s.othersUnlocked(g) {
			b = 3
		}
		return 10 + b + s.mstate()
	case opCanRLock:
		if s.othersNotExcl(g) {
			return 1
		}
		return 0
	case opGuardState:
		return 20 + s.h[g]
	default:
		return 20 + s.mstate()
	}
}

type impl struct {
	rw      litefs.RWMutex
	gs      []litefs.RWMutexGuard
	cbs     [][2]int
	cbError string
}

func newImpl(n int) *impl {
	m := &impl{}
	m.rw.OnLockStateChange = func(prev, next litefs.RWMutexState) {
		m.cbs = append(m.cbs, [2]int{int(prev), int(next)})
	}
	m.gs = make([]litefs.RWMutexGuard, n)
	for i := range m.gs {
		m.gs[i] = m.rw.Guard()
	}
	return m
}

func b2i(b bool) int {
	if b {
		return 1
	}
	return 0
}

// apply runs one API call; returns the result code (99 = panic).
func (m *impl) apply(st step) (code int) {
	defer func() {
		if r := recover(); r != nil {
			code = 99
		}
	}()
	g := &m.gs[st.G]
	before := int(m.rw.State())
	ncb := len(m.cbs)
	switch st.Op {
	case opTryLock:
		code = b2i(g.TryLock())
	case opTryRLock:
		code = b2i(g.TryRLock())
	case opUnlock:
		g.Unlock()
		code = 2
	case opCanLock:
		b, s := g.CanLock()
		code = 10 + 3*b2i(b) + int(s)
	case opCanRLock:
		code = b2i(g.CanRLock())
	case opGuardState:
		code = 20 + int(g.State())
	default:
		code = 20 + int(m.rw.State())
	}
	after := int(m.rw.State())
	// callback contract: fired exactly once iff the mutex state changed, with (prev,new)
	fired := m.cbs[ncb:]
	if before != after {
		if len(fired) != 1 || fired[0] != [2]int{before, after} {
			m.cbError = fmt.Sprintf("state %d->%d but callbacks %v", before, after, fired)
		}
	} else if len(fired) != 0 {
		m.cbError = fmt.Sprintf("state unchanged (%d) but callbacks %v", before, fired)
	}
	return code
}

func coqCase(steps []step, obs []int) string {
	var b strings.Builder
	b.WriteString("([")
	for i, s := range steps {
		if i > 0 {
			b.WriteString(";")
		}
		fmt.Fprintf(&b, "(%d,%d)", s.G, s.Op)
	}
	b.WriteString("], ")
	b.WriteString(common.CoqNatList(obs))
	b.WriteString(")")
	return b.String()
}

type replay struct {
	Kind   string `json:"kind"`
	Guards int    `json:"guards"`
	Steps  []step `json:"steps"`
	Names  string `json:"names"`
}

func describe(steps []step) string {
	var parts []string
	for _, s := range steps {
		parts = append(parts, fmt.Sprintf("g%d.%s", s.G, opNames[s.Op]))
	}
	return strings.Join(parts, " ")
}

// runSeq executes steps on a fresh mutex; compares with the spec; returns observed codes.
func runSeq(c *common.Ctx, n int, steps []step, kind string) []int {
	m := newImpl(n)
	sp := &spec{h: make([]int, n)}
	obs := make([]int, len(steps))
	for i, st := range steps {
		obs[i] = m.apply(st)
		want := sp.apply(st)
		if obs[i] != want {
			c.Violate(fmt.Sprintf("rwmutex:%s:%s", opNames[st.Op], kindOf(obs[i], want)),
				fmt.Sprintf("after %q: %s by g%d returned code %d, POSIX spec says %d", describe(steps[:i]), opNames[st.Op], st.G, obs[i], want),
				replay{kind, n, steps[:i+1], describe(steps[:i+1])})
			return obs[:i+1]
		}
		if m.cbError != "" {
			c.Violate("rwmutex:callback", "OnLockStateChange contract: "+m.cbError, replay{kind, n, steps[:i+1], describe(steps[:i+1])})
			return obs[:i+1]
		}
	}
	return obs
}

func kindOf(got, want int) string {
	if got == 99 {
		return "panic"
	}
	return fmt.Sprintf("got%d-want%d", got, want)
}

func Run(c *common.Ctx) error {
	cf := c.Cases("cases_c12", "Require Import LF.Model.RWMutex.", "list (nat * nat) * list nat", "mismatches")
	byteRanges(c)
	if err := sameOwnerRace(c); err != nil {
		return err
	}
	if err := rangeInterference(c); err != nil {
		return err
	}
	if err := rangeAttempts(c); err != nil {
		return err
	}
	if err := twoOwnersPerLock(c); err != nil {
		return err
	}

	// (a) exhaustive BFS over the closed state space of 4 owners
	const G = 4
	type node struct{ path []step }
	seen := map[string]bool{}
	key := func(path []step) string {
		m := newImpl(G)
		for _, s := range path {
			m.apply(s)
		}
		var b strings.Builder
		for i := range m.gs {
			fmt.Fprintf(&b, "%d", int(m.gs[i].State()))
		}
		fmt.Fprintf(&b, "/%d", int(m.rw.State()))
		return b.String()
	}
	queue := []node{{nil}}
	seen[key(nil)] = true
	transitions := 0
	for len(queue) > 0 {
		nd := queue[0]
		queue = queue[1:]
		for g := 0; g < G; g++ {
			for op := 0; op < nOps; op++ {
				path := append(append([]step(nil), nd.path...), step{g, op})
				obs := runSeq(c, G, path, "bfs")
				transitions++
				c.Evaluations++
				cf.Add(coqCase(path, obs), replay{"bfs", G, path, describe(path)})
				c.Distinct("bfs:" + key(nd.path) + fmt.Sprintf(":%d:%d", g, op))
				if len(obs) == len(path) && obs[len(obs)-1] != 99 {
					k := key(path)
					if !seen[k] {
						seen[k] = true
						queue = append(queue, node{path})
					}
				}
			}
		}
	}
	c.Stats["bfs_states"] = int64(len(seen))
	c.Stats["bfs_transitions"] = int64(transitions)
	c.Exhaustive = true
	c.Sample(map[string]any{"bfs_states": len(seen), "example_state_keys": firstKeys(seen, 5)})

	// (b) random sequences, 1..16 owners
	nRand := c.Pick(150, 1500)
	for i := 0; i < nRand; i++ {
		r := c.Rng.Fork()
		n := 1 + r.Intn(16)
		L := 1 + r.Intn(c.Pick(120, 400))
		steps := make([]step, L)
		for j := range steps {
			op := r.Intn(nOps)
			if r.Chance(60) {
				op = r.Intn(3)
			}
			steps[j] = step{r.Intn(n), op}
		}
		obs := runSeq(c, n, steps, "random")
		c.Evaluations++
		c.Count("random_ops", L)
		cf.Add(coqCase(steps[:len(obs)], obs), replay{"random", n, steps, ""})
		c.Distinct(fmt.Sprintf("rand:%d:%d:%v", n, L, obs[len(obs)-1]))
		if i == 0 {
			c.Sample(map[string]any{"random_case": describe(steps[:min(len(steps), 12)]), "obs": obs[:min(len(obs), 12)]})
		}
	}

	// (c) blocking variants
	if err := blocking(c); err != nil {
		return err
	}
	// (d) concurrent goroutines (meaningful with -race in the thorough tier; cheap smoke in quick)
	concurrent(c)
	return nil
}

func firstKeys(m map[string]bool, n int) []string {
	var ks []string
	for k := range m {
		ks = append(ks, k)
		if len(ks) == n {
			break
		}
	}
	return ks
}

// blocking: Lock(ctx)/RLock(ctx) return once the lock is available or ctx ends, never before.
func blocking(c *common.Ctx) error {
	rounds := c.Pick(20, 200)
	for i := 0; i < rounds; i++ {
		r := c.Rng.Fork()
		excl := r.Bool()       // waiter wants exclusive?
		holdExcl := r.Bool()   // holder holds exclusive (else shared)
		cancel := r.Chance(30) // end by cancel rather than release
		if !excl && !holdExcl {
			holdExcl = true // shared vs shared does not block
		}
		var rw litefs.RWMutex
		holder, waiter := rw.Guard(), rw.Guard()
		if holdExcl {
			holder.TryLock()
		} else {
			holder.TryRLock()
		}
		ctx, cancelFn := context.WithCancelCause(context.Background())
		cause := errors.New("verif-cause")
		var released atomic.Bool
		done := make(chan error, 1)
		go func() {
			if excl {
				done <- waiter.Lock(ctx)
			} else {
				done <- waiter.RLock(ctx)
			}
		}()
		delay := time.Duration(r.Intn(3000)) * time.Microsecond
		select {
		case err := <-done:
			c.Violate("rwmutex:blocking:early", fmt.Sprintf("Lock(ctx) returned %v while the lock was still held (excl=%v holdExcl=%v)", err, excl, holdExcl), map[string]any{"kind": "blocking", "excl": excl, "holdExcl": holdExcl})
			cancelFn(nil)
			continue
		case <-time.After(delay):
		}
		if cancel {
			cancelFn(cause)
		} else {
			released.Store(true)
			holder.Unlock()
		}
		ok := false
		deadline := 500 * time.Millisecond
		for try := 0; try < 3 && !ok; try++ {
			select {
			case err := <-done:
				ok = true
				if cancel {
					if !errors.Is(err, cause) {
						c.Violate("rwmutex:blocking:cause", fmt.Sprintf("cancelled Lock(ctx) returned %v, want the context cause", err), map[string]any{"kind": "blocking-cancel"})
					}
					if waiter.State() != litefs.RWMutexStateUnlocked {
						c.Violate("rwmutex:blocking:cancel-acquired", "guard holds the lock after a cancelled Lock(ctx)", map[string]any{"kind": "blocking-cancel"})
					}
				} else {
					if err != nil {
						c.Violate("rwmutex:blocking:err", fmt.Sprintf("Lock(ctx) returned %v after release", err), map[string]any{"kind": "blocking-release"})
					}
					want := litefs.RWMutexStateShared
					if excl {
						want = litefs.RWMutexStateExclusive
					}
					if waiter.State() != want {
						c.Violate("rwmutex:blocking:state", "guard state wrong after blocking acquire", map[string]any{"kind": "blocking-release"})
					}
				}
			case <-time.After(deadline):
				deadline *= 4
				c.Count("blocking_retries", 1)
			}
		}
		if !ok {
			c.Violate("rwmutex:blocking:hang", fmt.Sprintf("Lock(ctx) did not return within 10 s of availability/cancel (excl=%v cancel=%v)", excl, cancel), map[string]any{"kind": "blocking-hang", "excl": excl, "cancel": cancel})
			cancelFn(nil)
			return nil // one hang is enough; every further round would wait out the same 10 s
		}
		cancelFn(nil)
		c.Evaluations++
		c.Distinct(fmt.Sprintf("blocking:%v:%v:%v", excl, holdExcl, cancel))
	}
	return nil
}

// concurrent: N goroutines, each owning one guard, random try/unlock; exclusion is
// checked with plain (race-detectable) variables touched only under the lock.
func concurrent(c *common.Ctx) {
	const N = 8
	iters := c.Pick(2000, 40000)
	var rw litefs.RWMutex
	var inExcl, inShared atomic.Int64
	protected := 0 // written under exclusive, read under shared: races if exclusion fails
	var bad, sinkTotal, panics atomic.Int64
	var wg sync.WaitGroup
	seeds := make([]*common.Rand, N)
	for i := range seeds {
		seeds[i] = c.Rng.Fork()
	}
	for i := 0; i < N; i++ {
		wg.Add(1)
		go func(i int) {
			defer wg.Done()
			defer func() {
				if r := recover(); r != nil {
					panics.Add(1)
				}
			}()
			g := rw.Guard()
			r := seeds[i]
			st := 0
			sink := 0
			defer func() { sinkTotal.Add(int64(sink)) }()
			leave := func() {
				if st == 2 {
					inExcl.Add(-1)
				} else if st == 1 {
					inShared.Add(-1)
				}
			}
			for k := 0; k < iters; k++ {
				switch r.Intn(3) {
				case 0:
					// enter-accounting happens after the call; to avoid a window, account
					// conservatively: leave old mode before a mode-changing attempt only on success
					old := st
					if g.TryLock() {
						if old == 1 {
							inShared.Add(-1)
						}
						if old != 2 {
							if inExcl.Add(1) != 1 {
								bad.Add(1)
							}
						}
						st = 2
						protected++
					}
				case 1:
					old := st
					if g.TryRLock() {
						if old == 2 {
							inExcl.Add(-1)
						}
						if old != 1 {
							inShared.Add(1)
						}
						st = 1
						sink += protected
					}
				default:
					leave()
					st = 0
					g.Unlock()
				}
			}
			leave()
			g.Unlock()
		}(i)
	}
	wg.Wait()
	c.Evaluations++
	c.Count("concurrent_ops", N*iters)
	if bad.Load() != 0 {
		c.Violate("rwmutex:concurrent:two-exclusive", fmt.Sprintf("%d times two goroutines were inside an exclusive section", bad.Load()), map[string]any{"kind": "concurrent"})
	}
	if panics.Load() != 0 {
		c.Violate("rwmutex:concurrent:panic", fmt.Sprintf("%d goroutines panicked inside RWMutex operations", panics.Load()), map[string]any{"kind": "concurrent"})
		return
	}
	if rw.State() != litefs.RWMutexStateUnlocked {
		c.Violate("rwmutex:concurrent:final", "mutex not unlocked after all guards released", map[string]any{"kind": "concurrent"})
	}
}
