package c01

import (
	"context"
	"fmt"
	"os"
	"sync"
	"time"

	"github.com/superfly/litefs"
	lfshttp "github.com/superfly/litefs/http"
	"github.com/superfly/ltx"

	"lfsverif/internal/cluster"
	"lfsverif/internal/common"
	"lfsverif/internal/hist"
	"lfsverif/internal/lfs"
)

// commitRec runs n committing transactions on h and records the image of every position reached.
func commitRec(h *hist.Runner, n int, rec func(hist.Obs)) error {
	done := 0
	for tries := 0; tries < 400 && done < n; tries++ {
		st := h.GenStep()
		if st.Op != "rtx" && st.Op != "wtx" {
			continue
		}
		if st.Op == "rtx" {
			st.Outcome = 0
		}
		ob := h.Exec(st)
		if ob.Err != "" || ob.Panic != "" || len(ob.Exits) > 0 {
			return fmt.Errorf("step %s: %s%s exits=%v", st.Op, ob.Err, ob.Panic, ob.Exits)
		}
		if ob.Captured {
			done++
			if rec != nil {
				rec(ob)
			}
		}
	}
	if done < n {
		return fmt.Errorf("only %d of %d commits", done, n)
	}
	return nil
}

// forkRejoin: a primary change. The old primary has m transactions nobody received, stops; the other node takes
// over from the common prefix and commits n transactions; the old primary comes back as a replica while the new
// primary is idle. It has to end on the new primary's position with the new primary's pages - also when m = n, where
// both are at the same transaction id with different checksums.
func forkRejoin(c *common.Ctx, idx int) error {
	r := c.Rng.Fork()
	wal := idx%2 == 1
	m, n := []int{2, 1, 3}[idx/2%3], []int{2, 3, 1}[idx/2%3]
	cfg := hist.Config{PageSize: 512, AllowWAL: wal, ForceWAL: wal}
	dir, err := os.MkdirTemp(c.OutDir, "c01f-")
	if err != nil {
		return err
	}
	defer os.RemoveAll(dir)
	cl := cluster.New(dir, 2*time.Second)
	s := &scenario{c: c, r: r, cl: cl, caches: map[string]*simCache{}, committed: map[posKey]*lfs.Image{}, cfg: cfg, tl: map[string]*timeline{}}
	cl.Opts = func(name string, st *litefs.Store) {
		cache := newSimCache()
		s.caches[name] = cache
		st.Invalidator = cache
	}
	defer cl.Close()
	a, err := cl.Start("a", true)
	if err != nil {
		return err
	}
	if cl.WaitPrimary(5*time.Second) == nil {
		return fmt.Errorf("no primary")
	}
	b, err := cl.Start("b", true)
	if err != nil {
		return err
	}
	ha := hist.NewOn(c, r.Fork(), cfg, a.Store, a.Exits, "db", nil, 0, false)
	s.h = ha
	if err := commitRec(ha, 3, s.record); err != nil {
		return fmt.Errorf("prefix: %w", err)
	}
	pp := a.Store.DB("db").Pos()
	if !cluster.WaitPos(b, "db", uint64(pp.TXID), uint64(pp.PostApplyChecksum), 10*time.Second) {
		return fmt.Errorf("b did not receive the prefix")
	}
	b.Stop()
	prefix, prefixWAL := ha.Ref.Clone(), ha.WALMode
	if err := commitRec(ha, m, nil); err != nil { // nobody receives these
		return fmt.Errorf("unreplicated: %w", err)
	}
	ap := a.Store.DB("db").Pos()
	a.Stop()
	s.logf("prefix %d transactions; old primary a alone commits %d more (to %s) and stops", pp.TXID, m, ap.String())
	if b, err = cl.Start("b", true); err != nil {
		return err
	}
	deadline := time.Now().Add(8 * time.Second)
	for !b.Store.IsPrimary() && time.Now().Before(deadline) {
		time.Sleep(2 * time.Millisecond)
	}
	if !b.Store.IsPrimary() {
		return fmt.Errorf("b did not take over")
	}
	hb := hist.NewOn(c, r.Fork(), cfg, b.Store, b.Exits, "db", prefix, uint64(pp.TXID), prefixWAL)
	s.h = hb
	if err := commitRec(hb, n, s.record); err != nil {
		return fmt.Errorf("new primary: %w", err)
	}
	bp := b.Store.DB("db").Pos()
	s.logf("b takes over and commits %d (to %s); a rejoins; b stays idle", n, bp.String())
	if a, err = cl.Start("a", true); err != nil {
		c.Violate("C01:rejoin:restart", fmt.Sprintf("the former primary cannot start again: %v", err), s.replay("rejoin-restart"))
		return nil
	}
	ok := false
	d := 4 * time.Second
	for try := 0; try < 2 && !ok; try++ {
		ok = cluster.WaitPos(a, "db", uint64(bp.TXID), uint64(bp.PostApplyChecksum), d)
		d *= 2
	}
	c.Evaluations++
	c.Distinct(fmt.Sprintf("fork-rejoin:%d:%d:%v", m, n, wal))
	if !ok {
		got := a.Store.DB("db").Pos()
		c.Violate("C01:no-convergence:rejoin", fmt.Sprintf("the former primary, rejoining at %s with %d transactions of its own, did not reach the new primary's position %s while the primary is idle (it is at %s)", ap.String(), m, bp.String(), got.String()), s.replay("no-convergence-rejoin"))
		return nil
	}
	s.checkReplica(a)
	if ex := a.Exits(); len(ex) > 0 {
		c.Violate("C01:replica-exit", fmt.Sprintf("the rejoining node called Exit(%v)", ex), s.replay("replica-exit"))
	}
	return nil
}

// a replica whose reads from the stream can be held back (a slow replica), so that the primary is still busy
// sending one database's transaction when the next database commits
type gate struct {
	mu     sync.Mutex
	paused bool
	ch     chan struct{}
}

func (g *gate) pause() { g.mu.Lock(); g.paused, g.ch = true, make(chan struct{}); g.mu.Unlock() }
func (g *gate) resume() {
	g.mu.Lock()
	if g.paused {
		g.paused = false
		close(g.ch)
	}
	g.mu.Unlock()
}
func (g *gate) wait() {
	g.mu.Lock()
	p, ch := g.paused, g.ch
	g.mu.Unlock()
	if p {
		<-ch
	}
}

type gatedStream struct {
	litefs.Stream
	g *gate
}

func (s *gatedStream) Read(p []byte) (int, error) { s.g.wait(); return s.Stream.Read(p) }

type gateClient struct {
	*lfshttp.Client
	g *gate
}

func (c *gateClient) Stream(ctx context.Context, primaryURL string, nodeID uint64, posMap map[string]ltx.Pos, filter []string) (litefs.Stream, error) {
	st, err := c.Client.Stream(ctx, primaryURL, nodeID, posMap, filter)
	if err != nil {
		return nil, err
	}
	return &gatedStream{st, c.g}, nil
}

// multiDB: several databases on one stream. A large transaction on one database is followed at once by a small one
// on another, and then nothing: the replica has to receive both without waiting for a further commit.
func multiDB(c *common.Ctx, idx int) error {
	r := c.Rng.Fork()
	dir, err := os.MkdirTemp(c.OutDir, "c01m-")
	if err != nil {
		return err
	}
	defer os.RemoveAll(dir)
	cl := cluster.New(dir, 2*time.Second)
	g := &gate{}
	defer g.resume()
	cl.Opts = func(name string, st *litefs.Store) {
		if name == "r1" {
			st.Client = &gateClient{lfshttp.NewClient(), g}
		}
	}
	defer cl.Close()
	p, err := cl.Start("p", true)
	if err != nil {
		return err
	}
	if cl.WaitPrimary(5*time.Second) == nil {
		return fmt.Errorf("no primary")
	}
	r1, err := cl.Start("r1", false)
	if err != nil {
		return err
	}
	names := []string{"db", "db2", "db3"}
	hs := map[string]*hist.Runner{}
	for i, name := range names {
		ps := []int{4096, 512, 1024}[i]
		hs[name] = hist.NewOn(c, r.Fork(), hist.Config{PageSize: ps}, p.Store, p.Exits, name, nil, 0, false)
		if err := commitRec(hs[name], 1, nil); err != nil {
			return fmt.Errorf("create %s: %w", name, err)
		}
	}
	var events []string
	bigN := uint32(c.Pick(1700, 2500)) // more than the stream's flow-control window: the sender blocks while the replica is held back
	content := uint64(1000 * (idx + 1))
	for round := 0; round < c.Pick(4, 10); round++ {
		big := hist.Step{Op: "rtx", Writes: map[uint32]uint64{}, NewSize: bigN}
		for pg := uint32(1); pg <= bigN; pg++ {
			content++
			big.Writes[pg] = content
		}
		held := round%2 == 0
		if held {
			g.pause()
		}
		if ob := hs["db"].Exec(big); ob.Err != "" || ob.Panic != "" {
			g.resume()
			return fmt.Errorf("large transaction: %s%s", ob.Err, ob.Panic)
		}
		if held {
			time.Sleep(40 * time.Millisecond) // the primary is sending the large transaction
		}
		small := names[1+round%2]
		if err := commitRec(hs[small], 1, nil); err != nil {
			g.resume()
			return fmt.Errorf("small transaction: %w", err)
		}
		g.resume()
		events = append(events, fmt.Sprintf("round %d: %d pages on db (replica held back: %v), then one transaction on %s, then idle", round, bigN, held, small))
		// the primary is idle now
		for _, name := range names {
			pp := p.Store.DB(name).Pos()
			c.Evaluations++
			if !cluster.WaitPos(r1, name, uint64(pp.TXID), uint64(pp.PostApplyChecksum), 4*time.Second) {
				var got string
				if db := r1.Store.DB(name); db != nil {
					got = db.Pos().String()
				}
				c.Violate("C01:no-convergence:multi-db", fmt.Sprintf("connected replica r1 does not receive %s of %q (it stays at %s) while the primary is idle, after a large transaction on db followed at once by a transaction on %s", pp.String(), name, got, small),
					map[string]any{"kind": "multi-db", "events": events, "index": idx})
				return nil
			}
			want, _ := lfs.ReadImage(hs[name].DBDir())
			got, _ := lfs.ReadImage(r1.Dir + "/dbs/" + name)
			if want != nil && got != nil {
				if eq, why := got.Equal(want); !eq {
					c.Violate("C01:image-differs:multi-db", fmt.Sprintf("replica r1 reports the primary's position of %q with different pages: %s", name, why), map[string]any{"kind": "multi-db", "events": events, "index": idx})
					return nil
				}
			}
		}
	}
	c.Distinct(fmt.Sprintf("multi-db:%d", idx))
	return nil
}

// retentionRejoin: a replica is away while the primary commits and trims its log; what the replica needs next is
// gone, so it has to be brought up with a snapshot - and reach the primary's position while the primary is idle.
func retentionRejoin(c *common.Ctx, idx int) error {
	r := c.Rng.Fork()
	wal := idx%2 == 1
	cfg := hist.Config{PageSize: 512, AllowWAL: wal, ForceWAL: wal}
	dir, err := os.MkdirTemp(c.OutDir, "c01t-")
	if err != nil {
		return err
	}
	defer os.RemoveAll(dir)
	cl := cluster.New(dir, 2*time.Second)
	s := &scenario{c: c, r: r, cl: cl, caches: map[string]*simCache{}, committed: map[posKey]*lfs.Image{}, cfg: cfg, tl: map[string]*timeline{}}
	cl.Opts = func(name string, st *litefs.Store) {
		cache := newSimCache()
		s.caches[name] = cache
		st.Invalidator = cache
	}
	defer cl.Close()
	p, err := cl.Start("p", true)
	if err != nil {
		return err
	}
	if cl.WaitPrimary(5*time.Second) == nil {
		return fmt.Errorf("no primary")
	}
	r1, err := cl.Start("r1", false)
	if err != nil {
		return err
	}
	h := hist.NewOn(c, r.Fork(), cfg, p.Store, p.Exits, "db", nil, 0, false)
	s.h = h
	if err := commitRec(h, 3+idx%3, s.record); err != nil {
		return err
	}
	pp := p.Store.DB("db").Pos()
	if !cluster.WaitPos(r1, "db", uint64(pp.TXID), uint64(pp.PostApplyChecksum), 10*time.Second) {
		return fmt.Errorf("r1 did not catch up")
	}
	r1.Stop()
	if err := commitRec(h, 2+idx%2, s.record); err != nil {
		return err
	}
	if err := p.Store.DB("db").EnforceRetention(bg, time.Now().Add(time.Hour)); err != nil {
		return fmt.Errorf("retention: %w", err)
	}
	pp2 := p.Store.DB("db").Pos()
	s.logf("r1 stops at %s; the primary commits to %s and trims its log to the newest file; r1 restarts; the primary is idle", pp.String(), pp2.String())
	if r1, err = cl.Start("r1", false); err != nil {
		return err
	}
	ok := cluster.WaitPos(r1, "db", uint64(pp2.TXID), uint64(pp2.PostApplyChecksum), 6*time.Second)
	c.Evaluations++
	c.Distinct(fmt.Sprintf("retention-rejoin:%d:%v", idx%3, wal))
	if !ok {
		c.Violate("C01:no-convergence:retention", fmt.Sprintf("a replica that rejoins at %s after retention trimmed the primary's log does not reach the primary's position %s while the primary is idle (it is at %s)", pp.String(), pp2.String(), r1.Store.DB("db").Pos().String()), s.replay("no-convergence-retention"))
		return nil
	}
	s.checkReplica(r1)
	return nil
}

// retentionOff: retention turned off on the primary (data.retention: 0 - files are kept for ever). A replica that joins
// late is brought up with a snapshot like on any other primary.
func retentionOff(c *common.Ctx) error {
	r := c.Rng.Fork()
	dir, err := os.MkdirTemp(c.OutDir, "c01z-")
	if err != nil {
		return err
	}
	defer os.RemoveAll(dir)
	cl := cluster.New(dir, 2*time.Second)
	cl.Opts = func(name string, st *litefs.Store) { st.Retention = 0 }
	defer cl.Close()
	p, err := cl.Start("p", true)
	if err != nil {
		return err
	}
	if cl.WaitPrimary(5*time.Second) == nil {
		return fmt.Errorf("no primary")
	}
	h := hist.NewOn(c, r.Fork(), hist.Config{PageSize: 512}, p.Store, p.Exits, "db", nil, 0, false)
	if err := commitRec(h, 3, func(hist.Obs) {}); err != nil {
		return err
	}
	r1, err := cl.Start("r1", false)
	if err != nil {
		return err
	}
	pp := p.Store.DB("db").Pos()
	c.Evaluations++
	c.Distinct("retention-off:late-joiner")
	if !cluster.WaitPos(r1, "db", uint64(pp.TXID), uint64(pp.PostApplyChecksum), 6*time.Second) {
		var at ltx.Pos
		if db := r1.Store.DB("db"); db != nil {
			at = db.Pos()
		}
		c.Violate("C01:retention-off:late-joiner", fmt.Sprintf("with retention turned off on the primary (0: keep every file) a replica that joins late stays at %s while the idle primary is at %s", at, pp), map[string]any{"kind": "retention-off"})
	}
	return nil
}
