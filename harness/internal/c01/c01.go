// Package c01: a replica at position (TXID, checksum) is byte-identical to the primary there.
package c01

import (
	"bytes"
	"context"
	"encoding/binary"
	"fmt"
	"os"
	"path/filepath"
	"sync"
	"time"

	"github.com/superfly/litefs"

	"lfsverif/internal/cluster"
	"lfsverif/internal/common"
	"lfsverif/internal/hist"
	"lfsverif/internal/lfs"
)

// simCache simulates the kernel page cache of a mount: filled by reads, dropped only by
// the Invalidator callbacks LiteFS issues.
type simCache struct {
	mu    sync.Mutex
	pages map[string]map[uint32][]byte
	calls map[string]int
}

func newSimCache() *simCache {
	return &simCache{pages: map[string]map[uint32][]byte{}, calls: map[string]int{}}
}
func (c *simCache) InvalidateDB(db *litefs.DB) error {
	c.mu.Lock()
	defer c.mu.Unlock()
	delete(c.pages, db.Name())
	c.calls["db"]++
	return nil
}
func (c *simCache) InvalidateDBRange(db *litefs.DB, offset, size int64) error {
	c.mu.Lock()
	defer c.mu.Unlock()
	ps := int64(db.VerifPageSize())
	if ps == 0 {
		delete(c.pages, db.Name())
		return nil
	}
	for off := offset - offset%ps; off < offset+size; off += ps {
		delete(c.pages[db.Name()], uint32(off/ps)+1)
	}
	c.calls["range"]++
	return nil
}
func (c *simCache) InvalidateSHM(db *litefs.DB) error { return nil }
func (c *simCache) InvalidatePos(db *litefs.DB) error { return nil }
func (c *simCache) InvalidateEntry(name string) error { return nil }
func (c *simCache) InvalidateLag() error              { return nil }

var bg = context.Background()

// readAsApp reads the database as an application on this node's mount would: under SQLite's
// read locks, size from the (uncached) file attribute, pages through the simulated page cache.
func readAsApp(n *cluster.Node, cache *simCache, name string, owner uint64) (img *lfs.Image, txid, chk uint64, ok bool) {
	db := n.Store.DB(name)
	if db == nil {
		return nil, 0, 0, false
	}
	lt := []litefs.LockType{litefs.LockTypePending}
	if !db.TryRLocks(bg, owner, lt) {
		return nil, 0, 0, false
	}
	got := db.TryRLocks(bg, owner, []litefs.LockType{litefs.LockTypeShared})
	_ = db.Unlock(bg, owner, lt)
	if !got {
		return nil, 0, 0, false
	}
	defer func() {
		_ = db.Unlock(bg, owner, []litefs.LockType{litefs.LockTypeShared, litefs.LockTypeRead1, litefs.LockTypeDMS})
	}()
	if !db.TryRLocks(bg, owner, []litefs.LockType{litefs.LockTypeDMS}) || !db.TryRLocks(bg, owner, []litefs.LockType{litefs.LockTypeRead1}) {
		return nil, 0, 0, false
	}
	pos := db.Pos()
	ps := int(db.VerifPageSize())
	img = &lfs.Image{PageSize: ps}
	if ps == 0 {
		return img, uint64(pos.TXID), uint64(pos.PostApplyChecksum), true
	}
	path := filepath.Join(n.Dir, "dbs", name, "database")
	fi, err := os.Stat(path)
	if err != nil {
		return img, uint64(pos.TXID), uint64(pos.PostApplyChecksum), true
	}
	f, err := os.Open(path)
	if err != nil {
		return nil, 0, 0, false
	}
	defer f.Close()
	cache.mu.Lock()
	if cache.pages[name] == nil {
		cache.pages[name] = map[uint32][]byte{}
	}
	cp := cache.pages[name]
	cache.mu.Unlock()
	npages := uint32(fi.Size() / int64(ps))
	// a WAL-mode application takes the size from the wal-index header (sqlite3WalDbsize), the file size only when that is 0
	if hdr := make([]byte, 20); npages > 0 {
		if _, err := f.ReadAt(hdr, 0); err == nil && hdr[18] == 2 && hdr[19] == 2 {
			if cnt, ok := shmPageN(filepath.Join(n.Dir, "dbs", name, "shm")); ok && cnt != 0 && cnt != npages {
				shmN := cnt
				defer func() {
					if img == nil {
						return
					}
					for uint32(len(img.Pages)) < shmN {
						img.Pages = append(img.Pages, make([]byte, ps)) // short read: zero-filled
					}
					img.Pages = img.Pages[:shmN]
				}()
			}
		}
	}
	for p := uint32(1); p <= npages; p++ {
		cache.mu.Lock()
		b, hit := cp[p]
		cache.mu.Unlock()
		if !hit {
			b = make([]byte, ps)
			if _, err := f.ReadAt(b, int64(p-1)*int64(ps)); err != nil {
				return nil, 0, 0, false
			}
			cache.mu.Lock()
			cp[p] = b
			cache.mu.Unlock()
		}
		img.Pages = append(img.Pages, b)
	}
	return img, uint64(pos.TXID), uint64(pos.PostApplyChecksum), true
}

// shmPageN reads nPage from a wal-index header as walIndexTryHdr accepts it: two equal copies, isInit, empty WAL.
func shmPageN(path string) (uint32, bool) {
	b, err := os.ReadFile(path)
	if err != nil || len(b) < 96 {
		return 0, false
	}
	if !bytes.Equal(b[0:48], b[48:96]) || b[12] != 1 {
		return 0, false
	}
	if mx := binary.LittleEndian.Uint32(b[16:]); mx != 0 {
		return 0, false
	}
	return binary.LittleEndian.Uint32(b[20:]), true
}

type posKey struct{ txid, chk uint64 }

// timeline of one replica data directory: what it received / when it restarted, and what it reported
type timeline struct {
	mu   sync.Mutex
	ops  []string   // model op per entry (OOpen | OReceive f)
	rows [][]uint64 // observed [code; txid; chk; pageN] per entry (filled from tx events / after open)
	ok   bool
}

func ltxTerm(f lfs.LTXInfo) string {
	s := fmt.Sprintf("(mkLtx %d %d %d %d %d [", f.Min, f.Max, f.Pre, f.Post, f.Commit)
	for i, pg := range f.Pgnos {
		if i > 0 {
			s += ";"
		}
		s += fmt.Sprintf("(%d, %s)", pg, lfs.PgTerm(pg, f.Pages[pg]))
	}
	return s + "])"
}

type scenario struct {
	c         *common.Ctx
	r         *common.Rand
	cl        *cluster.Cluster
	caches    map[string]*simCache
	committed map[posKey]*lfs.Image
	h         *hist.Runner
	cfg       hist.Config
	events    []string
	owner     uint64
	tl        map[string]*timeline
	idle      map[*litefs.DB]bool // databases on which an idle WAL-mode application connection is held open
}

func (s *scenario) logf(f string, a ...any) { s.events = append(s.events, fmt.Sprintf(f, a...)) }

func (s *scenario) replay(what string) map[string]any {
	var steps []hist.Step
	if s.h != nil {
		steps = s.h.Steps
	}
	return map[string]any{"kind": "cluster-history", "what": what, "page_size": s.cfg.PageSize, "regime": s.cfg.Regime, "events": s.events, "steps": steps}
}

// checkReplica compares what an application sees on node n with the primary's image at the position n reports.
// idleConnection: an application connection that has the database open in WAL mode and is doing nothing holds the
// database file's SHARED lock and the wal-index DMS lock, both shared, for as long as it is open. Replication goes on
// underneath it.
func (s *scenario) idleConnection(n *cluster.Node) {
	if s.idle == nil {
		s.idle = map[*litefs.DB]bool{}
	}
	db := n.Store.DB("db")
	if db == nil || s.idle[db] || db.VerifPageSize() == 0 {
		return
	}
	hdr := make([]byte, 20)
	f, err := os.Open(filepath.Join(n.Dir, "dbs", "db", "database"))
	if err != nil {
		return
	}
	_, err = f.ReadAt(hdr, 0)
	f.Close()
	if err != nil || hdr[18] != 2 || hdr[19] != 2 {
		return
	}
	const owner = 77077
	if db.TryRLocks(bg, owner, []litefs.LockType{litefs.LockTypeShared}) && db.TryRLocks(bg, owner, []litefs.LockType{litefs.LockTypeDMS}) {
		s.idle[db] = true
		s.logf("idle WAL-mode connection opened on %s", n.Name)
		s.c.Count("idle_wal_connections", 1)
	}
}

func (s *scenario) checkReplica(n *cluster.Node) {
	if s.cfg.ForceWAL {
		s.idleConnection(n)
	}
	s.owner++
	img, txid, chk, ok := readAsApp(n, s.caches[n.Name], "db", 5000+s.owner)
	if !ok || txid == 0 {
		return
	}
	want, known := s.committed[posKey{txid, chk}]
	s.c.Evaluations++
	if !known {
		s.c.Violate("C01:unknown-position", fmt.Sprintf("replica %s reports position (%d,%016x) which the primary never committed", n.Name, txid, chk), s.replay("unknown-position"))
		return
	}
	s.c.Distinct(fmt.Sprintf("replica-at:%d:%d", len(want.Pages), txid%7))
	if eq, why := img.Equal(want); !eq {
		s.c.Violate("C01:image-differs", fmt.Sprintf("replica %s at position (%d,%016x): what an application reads differs from the primary's database at that position: %s (replica %d pages, primary %d pages)", n.Name, txid, chk, why, len(img.Pages), len(want.Pages)), s.replay("image-differs"))
	}
}

// started hooks the replica's tx events into its timeline (one row per applied file) and records
// the position it reports right after Open.
func (s *scenario) started(n *cluster.Node) {
	tl := s.tl[n.Name]
	if tl == nil {
		return
	}
	var t, ck uint64
	var pn uint32
	if db := n.Store.DB("db"); db != nil {
		p := db.Pos()
		t, ck, pn = uint64(p.TXID), uint64(p.PostApplyChecksum), db.PageN()
	}
	sub := n.Store.SubscribeEvents()
	tl.mu.Lock()
	tl.rows = append(tl.rows, []uint64{0, t, ck, uint64(pn)})
	tl.mu.Unlock()
	go func() {
		for ev := range sub.C() {
			if d, ok := ev.Data.(litefs.TxEventData); ok && ev.DB == "db" {
				tl.mu.Lock()
				tl.rows = append(tl.rows, []uint64{0, uint64(d.TXID), uint64(d.PostApplyChecksum), uint64(d.Commit)})
				tl.mu.Unlock()
			}
		}
	}()
}

func (s *scenario) record(ob hist.Obs) {
	if ob.Image != nil && ob.TXID > 0 {
		s.committed[posKey{ob.TXID, ob.Chk}] = ob.Image
	}
}

func runScenario(c *common.Ctx, idx int) error {
	r := c.Rng.Fork()
	cfgs := []hist.Config{
		{PageSize: 512, Regime: 0, AllowWAL: true},
		{PageSize: 512, Regime: 1, AllowWAL: true},
		{PageSize: 4096, Regime: 0, AllowWAL: true, ForceWAL: true},
		{PageSize: 512, Regime: 0, AllowWAL: false, AllowDrop: true},
		{PageSize: 1024, Regime: 1, AllowWAL: true, BigEndian: true},
	}
	cfg := cfgs[idx%len(cfgs)]
	dir, err := os.MkdirTemp(c.OutDir, "c01-")
	if err != nil {
		return err
	}
	defer os.RemoveAll(dir)
	cl := cluster.New(dir, 2*time.Second)
	s := &scenario{c: c, r: r, cl: cl, caches: map[string]*simCache{}, committed: map[posKey]*lfs.Image{}, cfg: cfg, tl: map[string]*timeline{}}
	compress := r.Bool()
	cl.Opts = func(name string, st *litefs.Store) {
		cache := newSimCache()
		s.caches[name] = cache
		st.Invalidator = cache
		st.Compress = compress
		if name != "p" {
			tl := s.tl[name]
			if tl == nil {
				tl = &timeline{ok: true}
				s.tl[name] = tl
			}
			ros := &lfs.RecOS{}
			ros.Before = func(call lfs.OSCall) {
				if call.Op == "PROCESSLTX" && call.Fn == "rename" {
					f := lfs.DecodeLTX(call.Name)
					tl.mu.Lock()
					if !f.Valid {
						tl.ok = false
					}
					tl.ops = append(tl.ops, "OReceive "+ltxTerm(f))
					tl.mu.Unlock()
				}
			}
			st.OS = ros
			tl.mu.Lock()
			tl.ops = append(tl.ops, "OOpen")
			tl.mu.Unlock()
		}
	}
	defer cl.Close()
	p, err := cl.Start("p", true)
	if err != nil {
		return fmt.Errorf("start primary: %w", err)
	}
	if cl.WaitPrimary(5*time.Second) == nil {
		return fmt.Errorf("no primary after 5s")
	}
	if n, err := cl.Start("r1", false); err != nil {
		return fmt.Errorf("start r1: %w", err)
	} else {
		s.started(n)
	}
	s.logf("start p; start r1; compress=%v", compress)
	h := hist.NewOn(c, r, cfg, p.Store, p.Exits, "db", nil, 0, false)
	s.h = h
	steps := c.Pick(24, 60)
	late := 4 + r.Intn(8)
	for i := 0; i < steps; i++ {
		st := h.GenStep()
		ob := h.Exec(st)
		if ob.Panic != "" || len(ob.Exits) > 0 {
			h.CheckCrash(c, "C01")
			return nil
		}
		s.record(ob)
		// fault / membership events
		switch {
		case i == late:
			if n, err := cl.Start("r2", false); err == nil {
				s.started(n)
				s.logf("step %d: start r2 (late join)", i)
			}
		case r.Chance(6):
			if n := cl.Node("r1"); n != nil && !n.Closed() {
				n.Stop()
				s.logf("step %d: stop r1", i)
			}
		case r.Chance(8):
			if n, err := cl.Start("r1", false); err == nil {
				s.started(n)
				s.logf("step %d: (re)start r1", i)
			}
		case r.Chance(5):
			// zero-length retention on the primary: lagging replicas need a snapshot
			if db := p.Store.DB("db"); db != nil {
				_ = db.EnforceRetention(bg, time.Now().Add(time.Hour))
				s.logf("step %d: retention sweep on primary", i)
			}
		}
		if r.Chance(50) {
			time.Sleep(time.Duration(r.Intn(3)) * time.Millisecond)
		}
		for _, n := range cl.Nodes {
			if n.Name != "p" && !n.Closed() {
				s.checkReplica(n)
			}
		}
	}
	// convergence: every connected replica reaches the primary's position
	pdb := p.Store.DB("db")
	if pdb != nil {
		pos := pdb.Pos()
		if n, err := cl.Start("r1", false); err == nil {
			s.started(n)
			s.logf("final: (re)start r1")
		}
		for _, n := range cl.Nodes {
			if n.Name == "p" {
				continue
			}
			ok := false
			d := 5 * time.Second
			for try := 0; try < 3 && !ok; try++ {
				ok = cluster.WaitPos(n, "db", uint64(pos.TXID), uint64(pos.PostApplyChecksum), d)
				if !ok {
					d *= 4
					c.Count("convergence_retries", 1)
				}
			}
			c.Evaluations++
			if !ok {
				var got string
				if db := n.Store.DB("db"); db != nil {
					got = db.Pos().String()
				}
				c.Violate("C01:no-convergence", fmt.Sprintf("replica %s did not reach the primary's position %s (is at %s) after faults stopped; exits=%v", n.Name, pos.String(), got, n.Exits()), s.replay("no-convergence"))
				continue
			}
			s.checkReplica(n)
			if ex := n.Exits(); len(ex) > 0 {
				c.Violate("C01:replica-exit", fmt.Sprintf("replica %s called Exit(%v)", n.Name, ex), s.replay("replica-exit"))
			}
		}
	}
	// role change: the primary, with pages in its own mount's page cache (and, in WAL mode, frames not
	// yet checkpointed), is demoted; what an application on its mount then reads is still the image
	// of the position it reports (LiteFS checkpoints on role change and must invalidate what it rewrites)
	if pdb != nil && pdb.Pos().TXID > 0 {
		s.owner++
		_, _, _, _ = readAsApp(p, s.caches["p"], "db", 5000+s.owner) // fill the cache
		p.Store.Demote()
		deadline := time.Now().Add(3 * time.Second)
		for p.Store.IsPrimary() && time.Now().Before(deadline) {
			time.Sleep(time.Millisecond)
		}
		if !p.Store.IsPrimary() {
			// role-change recovery checkpoints the WAL; readAsApp does not overlay WAL frames
			walEmpty := false
			for t := 0; t < 400 && !walEmpty; t++ {
				fi, err := os.Stat(pdb.WALPath())
				walEmpty = err != nil || fi.Size() == 0
				// ... and rewrites the wal-index header. (An application checkpoint may have emptied the log before the
				// demotion; on a real primary SQLite itself keeps the wal-index current, which the pager simulator does
				// not: only what LiteFS's recovery wrote there is meaningful.)
				if walEmpty && h.WALMode {
					if cnt, ok := shmPageN(filepath.Join(p.Dir, "dbs", "db", "shm")); !ok || cnt != pdb.PageN() {
						walEmpty = false
					}
				}
				if !walEmpty {
					time.Sleep(5 * time.Millisecond)
				}
			}
			s.logf("final: demote p (wal=%v, wal empty afterwards=%v)", h.WALMode, walEmpty)
			if walEmpty {
				s.checkReplica(p)
				c.Distinct(fmt.Sprintf("demoted-primary-view:wal=%v", h.WALMode))
			} else {
				c.Count("demoted_primary_wal_not_checkpointed", 1)
			}
		}
	}
	// replica timelines as correspondence cases (Model/PageDB.v: OOpen / OReceive)
	time.Sleep(30 * time.Millisecond)
	cf := c.Cases("cases_c01", hist.CoqHeader, hist.CoqType, "mismatches_short")
	cf.Shard = 4
	for name, tl := range s.tl {
		tl.mu.Lock()
		if tl.ok && len(tl.ops) == len(tl.rows) && len(tl.ops) > 0 {
			term := fmt.Sprintf("(%d, [", lfs.LockPgno(cfg.PageSize))
			for i, o := range tl.ops {
				if i > 0 {
					term += ";\n  "
				}
				term += "[" + o + "]"
			}
			term += "],\n ["
			for i, row := range tl.rows {
				if i > 0 {
					term += "; "
				}
				term += common.CoqNList(row)
			}
			term += "])"
			cf.Add(term, map[string]any{"kind": "replica-timeline", "replica": name, "events": s.events, "steps": h.Steps})
			c.Count("replica_timeline_entries", len(tl.ops))
		} else {
			c.Count("replica_timelines_skipped", 1)
		}
		tl.mu.Unlock()
	}
	c.Count("scenario_steps", len(h.Steps))
	for _, cache := range s.caches {
		for k, v := range cache.calls {
			c.Count("invalidate_"+k, v)
		}
	}
	if idx == 0 {
		c.Sample(map[string]any{"events": s.events, "first_steps": h.Steps[:min(3, len(h.Steps))]})
	}
	return nil
}

func Run(c *common.Ctx) error {
	for i := 0; i < c.Pick(6, 12); i++ {
		if err := forkRejoin(c, i); err != nil {
			return err
		}
	}
	for i := 0; i < c.Pick(2, 6); i++ {
		if err := retentionRejoin(c, i); err != nil {
			return err
		}
	}
	if err := retentionOff(c); err != nil {
		return err
	}
	for i := 0; i < 2; i++ {
		if err := forwardedLostAck(c, i); err != nil {
			return err
		}
	}
	for _, be := range []bool{false, true} {
		if err := snapshotAfterLogRestart(c, be); err != nil {
			return err
		}
	}
	for i := 0; i < c.Pick(1, 3); i++ {
		if err := multiDB(c, i); err != nil {
			return err
		}
	}
	n := c.Pick(6, 60)
	for i := 0; i < n; i++ {
		if err := runScenario(c, i); err != nil {
			return err
		}
	}
	return nil
}
