package c01

import (
	"context"
	"fmt"
	"io"
	"os"
	"path/filepath"
	"sync"
	"time"

	"github.com/superfly/litefs"
	lfshttp "github.com/superfly/litefs/http"

	"lfsverif/internal/cluster"
	"lfsverif/internal/common"
	"lfsverif/internal/hist"
	"lfsverif/internal/lfs"
)

// lostAckClient: the replica's client; the answer to one forwarded commit is lost after the primary has applied it.
type lostAckClient struct {
	*lfshttp.Client
	mu   sync.Mutex
	lose bool
	lost int
}

func (c *lostAckClient) Commit(ctx context.Context, primaryURL string, nodeID uint64, name string, lockID int64, r io.Reader) error {
	err := c.Client.Commit(ctx, primaryURL, nodeID, name, lockID, r)
	c.mu.Lock()
	defer c.mu.Unlock()
	if err == nil && c.lose {
		c.lose = false
		c.lost++
		return fmt.Errorf("injected: response to POST /tx lost")
	}
	return err
}

// forwardedLostAck: a replica writes through the primary's halt lock; the primary applies the transaction, the
// acknowledgement is lost, SQLite on the replica rolls back. The transaction then comes back on the stream - carrying
// the replica's own node id - and has to be applied like any other: the replica (and a second one that only follows)
// reaches the primary's position, during the lock and after its release, with no further fault.
func forwardedLostAck(c *common.Ctx, idx int) error {
	dir, err := os.MkdirTemp(c.OutDir, "c01f-")
	if err != nil {
		return err
	}
	defer os.RemoveAll(dir)
	r := c.Rng.Fork()
	clu := cluster.New(dir, 3*time.Second)
	fc := &lostAckClient{Client: lfshttp.NewClient()}
	clu.Opts = func(name string, s *litefs.Store) {
		s.HaltAcquireTimeout = 2 * time.Second
		s.HaltLockTTL = 5 * time.Minute
		if name == "r" {
			s.Client = fc
		}
	}
	defer clu.Close()
	p, err := clu.Start("p", true)
	if err != nil {
		return err
	}
	if clu.WaitPrimary(5*time.Second) == nil {
		return fmt.Errorf("no primary")
	}
	rn, err := clu.Start("r", false)
	if err != nil {
		return err
	}
	o, err := clu.Start("o", false)
	if err != nil {
		return err
	}
	ps := []int{512, 4096}[idx%2]
	hp := hist.NewOn(c, r.Fork(), hist.Config{PageSize: ps}, p.Store, p.Exits, "db", nil, 0, false)
	if err := commitRec(hp, 2, func(hist.Obs) {}); err != nil {
		return err
	}
	at := p.Store.DB("db").Pos()
	for _, n := range []*cluster.Node{rn, o} {
		if !cluster.WaitPos(n, "db", uint64(at.TXID), uint64(at.PostApplyChecksum), 10*time.Second) {
			return fmt.Errorf("replica %s did not catch up", n.Name)
		}
	}
	rdb := rn.Store.DB("db")
	if _, err := rdb.AcquireRemoteHaltLock(context.Background(), 71); err != nil {
		return fmt.Errorf("halt: %v", err)
	}
	im, _ := lfs.ReadImage(filepath.Dir(rdb.DatabasePath()))
	hr := hist.NewOn(c, r.Fork(), hist.Config{PageSize: ps}, rn.Store, rn.Exits, "db", im, uint64(rdb.Pos().TXID), false)
	hr.Pager.RollbackOnCommitError = true
	fc.mu.Lock()
	fc.lose = true
	fc.mu.Unlock()
	ob := hr.Exec(hist.Step{Op: "rtx", Writes: map[uint32]uint64{2: 7171 + uint64(idx)}, NewSize: uint32(len(im.Pages)), JMode: idx % 3})
	c.Evaluations++
	c.Distinct(fmt.Sprintf("forwarded-commit-ack-lost:%d", ps))
	rep := map[string]any{"kind": "forwarded-lost-ack", "page_size": ps, "commit_error": ob.Err}
	fc.mu.Lock()
	lost := fc.lost
	fc.mu.Unlock()
	if lost == 0 {
		c.Count("forwarded_lost_ack_not_injected", 1)
		return nil
	}
	want := p.Store.DB("db").Pos()
	if want.TXID != at.TXID+1 {
		c.Violate("C01:forwarded-lost-ack:primary", fmt.Sprintf("the primary, which applied the forwarded transaction, is at %s; want transaction %d", want, at.TXID+1), rep)
		return nil
	}
	for _, n := range []*cluster.Node{rn, o} {
		if !cluster.WaitPos(n, "db", uint64(want.TXID), uint64(want.PostApplyChecksum), 6*time.Second) {
			c.Violate("C01:forwarded-lost-ack:converge:"+n.Name, fmt.Sprintf("the primary applied the replica's forwarded transaction (acknowledgement lost, rolled back on the replica) and is at %s; 6 s later %s is still at %s (exits %v)", want, n.Name, n.Store.DB("db").Pos(), n.Exits()), rep)
			return nil
		}
	}
	// after the release the primary writes again and everybody follows
	_ = rdb.ReleaseRemoteHaltLock(context.Background(), 71)
	if id := p.Store.DB("db").VerifHaltLockID(); id != 0 {
		p.Store.DB("db").ReleaseHaltLock(context.Background(), id)
	}
	pim, _ := lfs.ReadImage(filepath.Dir(p.Store.DB("db").DatabasePath()))
	hp2 := hist.NewOn(c, r.Fork(), hist.Config{PageSize: ps}, p.Store, p.Exits, "db", pim, uint64(want.TXID), false)
	if err := commitRec(hp2, 1, func(hist.Obs) {}); err != nil {
		c.Violate("C01:forwarded-lost-ack:primary-writes", "after the release the primary cannot commit: "+err.Error(), rep)
		return nil
	}
	want = p.Store.DB("db").Pos()
	for _, n := range []*cluster.Node{rn, o} {
		if !cluster.WaitPos(n, "db", uint64(want.TXID), uint64(want.PostApplyChecksum), 6*time.Second) {
			c.Violate("C01:forwarded-lost-ack:follow:"+n.Name, fmt.Sprintf("after the release the primary is at %s; %s stays at %s", want, n.Name, n.Store.DB("db").Pos()), rep)
			return nil
		}
		got, _ := lfs.ReadImage(filepath.Dir(n.Store.DB("db").DatabasePath()))
		wantIm, _ := lfs.ReadImage(filepath.Dir(p.Store.DB("db").DatabasePath()))
		if got != nil && wantIm != nil {
			if eq, why := got.Equal(wantIm); !eq {
				c.Violate("C01:forwarded-lost-ack:image:"+n.Name, n.Name+" differs from the primary at the same position: "+why, rep)
			}
		}
	}
	return nil
}

// snapshotAfterLogRestart: a WAL-mode primary whose application has checkpointed and whose next writer restarted the log
// in place (the new generation overwrites the old frames' offsets with other pages). A replica that joins afresh
// afterwards needs a snapshot of the database as it is now - file plus the current log - and follows from there.
func snapshotAfterLogRestart(c *common.Ctx, be bool) error {
	dir, err := os.MkdirTemp(c.OutDir, "c01w-")
	if err != nil {
		return err
	}
	defer os.RemoveAll(dir)
	r := c.Rng.Fork()
	clu := cluster.New(dir, 2*time.Second)
	defer clu.Close()
	p, err := clu.Start("p", true)
	if err != nil {
		return err
	}
	if clu.WaitPrimary(5*time.Second) == nil {
		return fmt.Errorf("no primary")
	}
	const ps = 512
	h := hist.NewOn(c, r.Fork(), hist.Config{PageSize: ps, AllowWAL: true, BigEndian: be}, p.Store, p.Exits, "db", nil, 0, false)
	run := func(steps ...hist.Step) error {
		for _, st := range steps {
			if ob := h.Exec(st); ob.Err != "" || ob.Panic != "" || len(ob.Exits) > 0 {
				return fmt.Errorf("%s: %s%s exits=%v", st.Op, ob.Err, ob.Panic, ob.Exits)
			}
		}
		return nil
	}
	rep := map[string]any{"kind": "snapshot-after-log-restart", "big_endian_wal": be}
	c.Evaluations++
	c.Distinct(fmt.Sprintf("snapshot-after-log-restart:%v", be))
	if err := run(hist.Step{Op: "rtx", Writes: map[uint32]uint64{1: 1, 2: 2, 3: 3, 4: 4, 5: 5, 6: 6}, NewSize: 6, ToWAL: true},
		hist.Step{Op: "wtx", Frames: [][2]uint64{{2, 12}, {3, 13}}, NewSize: 6},
		hist.Step{Op: "wtx", Frames: [][2]uint64{{4, 14}}, NewSize: 6}); err != nil {
		return err
	}
	a, err := clu.Start("a", false)
	if err != nil {
		return err
	}
	at := p.Store.DB("db").Pos()
	if !cluster.WaitPos(a, "db", uint64(at.TXID), uint64(at.PostApplyChecksum), 8*time.Second) {
		c.Violate("C01:log-restart:first-joiner", fmt.Sprintf("a replica that joins a WAL-mode primary at %s stays at %s", at, a.Store.DB("db").Pos()), rep)
		return nil
	}
	// application checkpoint with a restart of the log; the next transactions start the new generation at the beginning
	if err := run(hist.Step{Op: "appckpt", CkptMode: 2},
		hist.Step{Op: "wtx", Frames: [][2]uint64{{5, 25}}, NewSize: 6},
		hist.Step{Op: "wtx", Frames: [][2]uint64{{6, 36}, {5, 35}}, NewSize: 6}); err != nil {
		c.Violate("C01:log-restart:primary", "the primary fails after the application restarted the log: "+err.Error(), rep)
		return nil
	}
	b, err := clu.Start("b", false)
	if err != nil {
		return err
	}
	want := p.Store.DB("db").Pos()
	for _, n := range []*cluster.Node{a, b} {
		if !cluster.WaitPos(n, "db", uint64(want.TXID), uint64(want.PostApplyChecksum), 8*time.Second) {
			var got string
			if db := n.Store.DB("db"); db != nil {
				got = db.Pos().String()
			}
			c.Violate("C01:log-restart:"+n.Name, fmt.Sprintf("the application checkpointed and restarted the log, two transactions followed; the primary is at %s; replica %s (%s) is at %q after 8 s (exits %v)", want, n.Name, map[string]string{"a": "connected throughout", "b": "joined afresh afterwards"}[n.Name], got, n.Exits()), rep)
			return nil
		}
	}
	if err := run(hist.Step{Op: "wtx", Frames: [][2]uint64{{2, 42}}, NewSize: 6}); err != nil {
		return err
	}
	want = p.Store.DB("db").Pos()
	wantIm, _ := lfs.ReadImage(filepath.Dir(p.Store.DB("db").DatabasePath()))
	for _, n := range []*cluster.Node{a, b} {
		if !cluster.WaitPos(n, "db", uint64(want.TXID), uint64(want.PostApplyChecksum), 8*time.Second) {
			c.Violate("C01:log-restart:follow:"+n.Name, fmt.Sprintf("replica %s does not follow to %s", n.Name, want), rep)
			return nil
		}
		got, _ := lfs.ReadImage(filepath.Dir(n.Store.DB("db").DatabasePath()))
		if got != nil && wantIm != nil {
			if eq, why := got.Equal(wantIm); !eq {
				c.Violate("C01:log-restart:image:"+n.Name, n.Name+" differs from the primary at the same position: "+why, rep)
			}
		}
	}
	return nil
}
