package c08

import (
	"encoding/json"
	"fmt"
	"io"
	"net"
	"net/http"
	"os"
	"strings"
	"sync"
	"time"

	"github.com/superfly/litefs"
	lfsconsul "github.com/superfly/litefs/consul"

	"lfsverif/internal/cluster"
	"lfsverif/internal/common"
	"lfsverif/internal/hist"
)

// fakeConsul implements the part of Consul's HTTP API the leaser uses: sessions with a TTL and
// behaviour "delete", key/value pairs with acquire / release, no lock delay.
type fakeConsul struct {
	mu       sync.Mutex
	sessions map[string]time.Time // id -> expiry
	ttl      map[string]time.Duration
	kv       map[string][]byte
	holder   map[string]string // key -> session
	nextID   int
	failAll  bool // every session request answers 500 (Consul unreachable)
	// deletedHeld counts DELETE requests on a key that a live session held
	deletedHeld int
	log      []string
	ln       net.Listener
	srv      *http.Server
}

func newFakeConsul() (*fakeConsul, error) {
	f := &fakeConsul{sessions: map[string]time.Time{}, ttl: map[string]time.Duration{}, kv: map[string][]byte{}, holder: map[string]string{}}
	ln, err := net.Listen("tcp", "localhost:0")
	if err != nil {
		return nil, err
	}
	f.ln = ln
	f.srv = &http.Server{Handler: f}
	go func() { _ = f.srv.Serve(ln) }()
	return f, nil
}

func (f *fakeConsul) expire() {
	now := time.Now()
	for id, exp := range f.sessions {
		if now.After(exp) {
			f.invalidate(id, "ttl")
		}
	}
}

func (f *fakeConsul) invalidate(id, why string) {
	delete(f.sessions, id)
	for k, s := range f.holder {
		if s == id {
			delete(f.holder, k)
			delete(f.kv, k) // behaviour "delete"
		}
	}
	f.log = append(f.log, "invalidate "+id+" ("+why+")")
}

// holderOf returns the session that holds key ("" if none).
func (f *fakeConsul) holderOf(key string) string {
	f.mu.Lock()
	defer f.mu.Unlock()
	f.expire()
	return f.holder[key]
}

func (f *fakeConsul) ServeHTTP(w http.ResponseWriter, r *http.Request) {
	f.mu.Lock()
	defer f.mu.Unlock()
	f.expire()
	p := r.URL.Path
	body, _ := io.ReadAll(r.Body)
	switch {
	case p == "/v1/session/create":
		if f.failAll {
			http.Error(w, "rpc error: no cluster leader", 500)
			return
		}
		var e struct{ TTL string }
		_ = json.Unmarshal(body, &e)
		d, err := time.ParseDuration(e.TTL)
		if err != nil || d <= 0 {
			d = 10 * time.Second
		}
		f.nextID++
		id := fmt.Sprintf("sess-%d", f.nextID)
		f.sessions[id], f.ttl[id] = time.Now().Add(d), d
		f.log = append(f.log, "create "+id)
		_ = json.NewEncoder(w).Encode(map[string]string{"ID": id})
	case strings.HasPrefix(p, "/v1/session/renew/"):
		id := strings.TrimPrefix(p, "/v1/session/renew/")
		if f.failAll {
			http.Error(w, "rpc error: no cluster leader", 500)
			return
		}
		if _, ok := f.sessions[id]; !ok {
			w.WriteHeader(404)
			return
		}
		f.sessions[id] = time.Now().Add(f.ttl[id])
		_ = json.NewEncoder(w).Encode([]map[string]string{{"ID": id, "TTL": f.ttl[id].String()}})
	case strings.HasPrefix(p, "/v1/session/destroy/"):
		id := strings.TrimPrefix(p, "/v1/session/destroy/")
		if f.failAll {
			http.Error(w, "rpc error: no cluster leader", 500)
			return
		}
		if _, ok := f.sessions[id]; ok {
			f.invalidate(id, "destroy")
		}
		_, _ = w.Write([]byte("true"))
	case strings.HasPrefix(p, "/v1/kv/"):
		key := strings.TrimPrefix(p, "/v1/kv/")
		q := r.URL.Query()
		switch r.Method {
		case "GET":
			v, ok := f.kv[key]
			if !ok {
				w.WriteHeader(404)
				return
			}
			_ = json.NewEncoder(w).Encode([]map[string]any{{"Key": key, "Value": v, "Session": f.holder[key]}})
		case "PUT":
			if s := q.Get("acquire"); s != "" {
				_, live := f.sessions[s]
				if !live || (f.holder[key] != "" && f.holder[key] != s) {
					_, _ = w.Write([]byte("false"))
					return
				}
				f.holder[key], f.kv[key] = s, body
				f.log = append(f.log, "acquire "+key+" by "+s)
				_, _ = w.Write([]byte("true"))
				return
			}
			if s := q.Get("release"); s != "" {
				if f.holder[key] != s {
					_, _ = w.Write([]byte("false"))
					return
				}
				delete(f.holder, key)
				f.kv[key] = body
				f.log = append(f.log, "release "+key+" by "+s)
				_, _ = w.Write([]byte("true"))
				return
			}
			f.kv[key] = body
			_, _ = w.Write([]byte("true"))
		case "DELETE":
			// Consul deletes a key whoever holds the lock on it: locks are advisory
			if h := f.holder[key]; h != "" {
				if _, live := f.sessions[h]; live {
					f.log = append(f.log, "delete "+key+" while held by live session "+h)
					f.deletedHeld++
				}
			}
			delete(f.kv, key)
			delete(f.holder, key)
			_, _ = w.Write([]byte("true"))
		default:
			w.WriteHeader(405)
		}
	default:
		http.Error(w, "unexpected: "+p, 501)
	}
}

// consulScenarios: real stores with the Consul leaser against the fake endpoint.
func consulScenarios(c *common.Ctx, r *common.Rand) error {
	dir, err := os.MkdirTemp(c.OutDir, "c08k-")
	if err != nil {
		return err
	}
	defer os.RemoveAll(dir)
	fc, err := newFakeConsul()
	if err != nil {
		return err
	}
	defer fc.srv.Close()
	const ttl = 3 * time.Second
	const key = "litefs/primary"
	clu := cluster.New(dir, ttl)
	clu.LeaserFor = func(name, url string) (litefs.Leaser, error) {
		l := lfsconsul.NewLeaser("http://"+fc.ln.Addr().String(), key, name, url)
		l.TTL = ttl
		l.LockDelay = 0
		return l, l.Open()
	}
	defer clu.Close()
	rep := map[string]any{"kind": "lease-consul"}
	a, err := clu.Start("a", true)
	if err != nil {
		return fmt.Errorf("start a: %w", err)
	}
	if clu.WaitPrimary(5*time.Second) == nil {
		c.Violate("C08:consul:no-primary", "with the Consul leaser a lone candidate does not become primary", rep)
		return nil
	}
	b, err := clu.Start("b", true)
	if err != nil {
		return err
	}
	n, err := clu.Start("n", false)
	if err != nil {
		return err
	}
	h := hist.NewOn(c, r.Fork(), hist.Config{PageSize: 512}, a.Store, a.Exits, "db", nil, 0, false)
	for tries, done := 0, 0; tries < 100 && done < 2; tries++ {
		st := h.GenStep()
		if st.Op != "rtx" {
			continue
		}
		st.Outcome = 0
		if ob := h.Exec(st); ob.Captured && ob.Err == "" {
			done++
		}
	}
	pp := a.Store.DB("db").Pos()
	if !cluster.WaitPos(b, "db", uint64(pp.TXID), uint64(pp.PostApplyChecksum), 10*time.Second) {
		c.Violate("C08:consul:no-replication", "with the Consul leaser the second node does not follow the primary", rep)
	}
	sample := func(what string) {
		c.Evaluations++
		held := fc.holderOf(key) != ""
		prim := 0
		for _, nd := range []*cluster.Node{a, b, n} {
			if nd.Store.IsPrimary() {
				prim++
				if nd == n {
					c.Violate("C08:consul:noncandidate-primary", "the non-candidate node is primary ("+what+")", rep)
				}
			}
		}
		if prim > 1 {
			c.Violate("C08:consul:two-primaries", fmt.Sprintf("%d nodes report primary at once (%s); Consul's key is held: %v", prim, what, held), rep)
		}
	}
	for i := 0; i < 30; i++ {
		sample("steady")
		time.Sleep(5 * time.Millisecond)
	}
	c.Distinct("consul:election")
	// cluster id: the key under the lease carries the primary's cluster id
	fc.mu.Lock()
	cid := string(fc.kv[key+"/clusterid"])
	fc.mu.Unlock()
	if cid == "" || cid != a.Store.ClusterID() || b.Store.ClusterID() != cid {
		c.Violate("C08:consul:cluster-id", fmt.Sprintf("cluster id in Consul %q, on the primary %q, on the follower %q", cid, a.Store.ClusterID(), b.Store.ClusterID()), rep)
	}
	// the session disappears at Consul (invalidated): the holder steps down at its next renewal, someone else may take over
	holder := a
	if b.Store.IsPrimary() {
		holder = b
	}
	// (the role under that session ends when its primary-scoped context is cancelled; the same node may win the
	// next election a moment later, so polling IsPrimary could miss the gap)
	hctx := holder.Store.PrimaryCtx(bgc)
	fc.mu.Lock()
	for id := range fc.sessions {
		fc.invalidate(id, "operator")
	}
	fc.mu.Unlock()
	t0 := time.Now()
	// the other candidate restarts right away: it finds the key free and takes it while the former holder has not
	// noticed yet
	other := b
	if holder == b {
		other = a
	}
	other.Stop()
	nc, ncErr := clu.Start(other.Name, true)
	if ncErr == nil {
		if other == a {
			a = nc
		} else {
			b = nc
		}
	}
	select {
	case <-hctx.Done():
	case <-time.After(2 * ttl):
	}
	c.Evaluations++
	c.Distinct("consul:session-gone")
	if hctx.Err() == nil {
		c.Violate("C08:consul:session-gone", fmt.Sprintf("%.1fs after its Consul session was invalidated (TTL %s) the node is still primary", time.Since(t0).Seconds(), ttl), rep)
	} else if d := time.Since(t0); d > ttl/2+700*time.Millisecond {
		c.Violate("C08:consul:session-gone-late", fmt.Sprintf("the node kept the primary role for %s after its session was invalidated; renewals run every %s", d, ttl/2), rep)
	}
	// a new candidate joins right after the session was lost: it finds the key free and takes it. When the former
	// holder then cleans up its lease, that is somebody else's lock: nobody may end up primary next to the new holder
	if ncErr == nil {
		nodes3 := []*cluster.Node{a, b}
		deadline := time.Now().Add(ttl + time.Second)
		for time.Now().Before(deadline) {
			prim := 0
			var who []string
			for _, nd := range nodes3 {
				if nd.Store.IsPrimary() {
					prim++
					who = append(who, nd.Name)
				}
			}
			c.Evaluations++
			if prim > 1 {
				fc.mu.Lock()
				dh := fc.deletedHeld
				fc.mu.Unlock()
				c.Violate("C08:consul:two-primaries-after-session-loss", fmt.Sprintf("%v are primary at the same time after a session was lost and the other candidate restarted (lock keys deleted while a live session held them: %d)", who, dh), rep)
				break
			}
			time.Sleep(5 * time.Millisecond)
		}
		c.Distinct("consul:join-after-session-loss")
	}
	// wait for a new primary, then make Consul unreachable for session calls: the primary leaves about TTL later
	var p2 *cluster.Node
	deadline := time.Now().Add(3 * ttl)
	for time.Now().Before(deadline) && p2 == nil {
		for _, nd := range []*cluster.Node{a, b} {
			if nd.Store.IsPrimary() {
				p2 = nd
			}
		}
		time.Sleep(5 * time.Millisecond)
	}
	if p2 == nil {
		c.Violate("C08:consul:no-takeover", "after the session was invalidated no candidate became primary", rep)
		return nil
	}
	time.Sleep(ttl/2 + 200*time.Millisecond) // let one renewal succeed
	pctx := p2.Store.PrimaryCtx(bgc)
	fc.mu.Lock()
	fc.failAll = true
	fc.mu.Unlock()
	t1 := time.Now()
	for p2.Store.IsPrimary() && time.Since(t1) < 3*ttl {
		time.Sleep(3 * time.Millisecond)
	}
	c.Evaluations++
	c.Distinct("consul:unreachable")
	if p2.Store.IsPrimary() {
		c.Violate("C08:consul:unreachable-still-primary", fmt.Sprintf("Consul has answered every renewal with an error for %.1fs (TTL %s) and the node is still primary", time.Since(t1).Seconds(), ttl), rep)
	} else {
		d := time.Since(t1)
		rep["unreachable_stepdown_ms"] = d.Milliseconds()
		if d > ttl+time.Second+700*time.Millisecond {
			c.Violate("C08:consul:unreachable-late", fmt.Sprintf("with Consul unreachable the node kept the primary role for %s (TTL %s)", d, ttl), rep)
		}
		if pctx.Err() == nil {
			c.Violate("C08:consul:ctx", "the node stopped being primary but its primary-scoped context was not cancelled", rep)
		}
	}
	fc.mu.Lock()
	fc.failAll = false
	fc.mu.Unlock()
	return nil
}
