// Package c08: a node is primary only while it holds a live lease for its own cluster.
// A real Store runs its election loop against a scripted lease service; every call it makes
// and the role it takes are recorded and compared with the model and with the property.
package c08

import (
	"bytes"
	"context"
	"errors"
	"fmt"
	lfshttp "github.com/superfly/litefs/http"
	"io"
	"os"
	"path/filepath"
	"strings"
	"sync"
	"sync/atomic"
	"time"

	"github.com/superfly/litefs"
	"github.com/superfly/ltx"

	"lfsverif/internal/cluster"
	"lfsverif/internal/common"
	"lfsverif/internal/hist"
	"lfsverif/internal/lfs"
)

const (
	cidA = "LFSCAAAAAAAAAAAAAAAA"
	cidB = "LFSCBBBBBBBBBBBBBBBB"
)

// ---------- scripted lease service ----------
type iterIn struct {
	Candidate bool   `json:"candidate"`
	LocalCID  bool   `json:"local_cid"`
	CID       string `json:"cid"`     // err empty equal different
	Handoff   string `json:"handoff"` // none ok fail
	Info1     string `json:"info1"`   // present absent err
	Acquire   string `json:"acquire"` // ok exists err
	Info2     string `json:"info2"`
}

type sLeaser struct {
	mu          sync.Mutex
	in          iterIn
	calls       []int // 1 ClusterID 2 PrimaryInfo 3 Acquire 4 AcquireExisting
	iter        int   // number of ClusterID calls so far
	testAt      int   // the iteration under test (1-based)
	infoN       int   // PrimaryInfo calls within the iteration under test
	lease       *sLease
	url         string
	setCIDs     []string
	postAcquire int
	warmup      func(call string) (handled bool, info litefs.PrimaryInfo, err error) // iterations before the one under test
	ttl         time.Duration                                                        // TTL of the lease it hands out (default 3 s)
}

func (l *sLeaser) leaseTTL() time.Duration {
	if l.ttl > 0 {
		return l.ttl
	}
	return 3 * time.Second
}
func (l *sLeaser) Close() error         { return nil }
func (l *sLeaser) Type() string         { return "script" }
func (l *sLeaser) Hostname() string     { return "node" }
func (l *sLeaser) AdvertiseURL() string { return l.url }

func (l *sLeaser) rec(c int) (active bool) {
	if l.iter == l.testAt {
		l.calls = append(l.calls, c)
		return true
	}
	return false
}

func (l *sLeaser) ClusterID(ctx context.Context) (string, error) {
	l.mu.Lock()
	defer l.mu.Unlock()
	if l.lease != nil && l.lease.acquired {
		// the first call after the decision is monitorLeaseAsPrimary's; any later one is a new
		// election iteration after the primary role ended: nothing more to decide
		l.postAcquire++
		if l.postAcquire == 1 {
			// nothing happened at the lease service between the check and the acquisition: the same answer
			switch l.in.CID {
			case "empty":
				return "", nil
			case "different":
				return cidB, nil
			}
			return cidA, nil
		}
		return "", errors.New("script: over")
	}
	l.iter++
	if l.iter < l.testAt {
		return cidA, nil // warm-up iteration: same cluster
	}
	if l.iter > l.testAt {
		return "", errors.New("script: over") // later iterations: nothing more to decide
	}
	l.rec(1)
	switch l.in.CID {
	case "err":
		return "", errors.New("script: cluster id unavailable")
	case "empty":
		return "", nil
	case "different":
		return cidB, nil
	}
	return cidA, nil
}

func (l *sLeaser) SetClusterID(ctx context.Context, id string) error {
	l.mu.Lock()
	defer l.mu.Unlock()
	l.setCIDs = append(l.setCIDs, id)
	return nil
}

func (l *sLeaser) PrimaryInfo(ctx context.Context) (litefs.PrimaryInfo, error) {
	l.mu.Lock()
	defer l.mu.Unlock()
	info := litefs.PrimaryInfo{Hostname: "other", AdvertiseURL: "http://other.invalid:1"}
	if l.iter < l.testAt {
		return info, nil // warm-up: follow the primary (whose stream hands a lease over)
	}
	if !l.rec(2) {
		return litefs.PrimaryInfo{}, errors.New("script: over")
	}
	l.infoN++
	r := l.in.Info1
	if l.infoN > 1 {
		r = l.in.Info2
	}
	switch r {
	case "present":
		return info, nil
	case "absent":
		return litefs.PrimaryInfo{}, litefs.ErrNoPrimary
	}
	return litefs.PrimaryInfo{}, errors.New("script: primary info unavailable")
}

func (l *sLeaser) Acquire(ctx context.Context) (litefs.Lease, error) {
	l.mu.Lock()
	defer l.mu.Unlock()
	if !l.rec(3) {
		return nil, errors.New("script: over")
	}
	switch l.in.Acquire {
	case "ok":
		l.lease = newLease(l.leaseTTL())
		l.lease.acquired = true
		return l.lease, nil
	case "exists":
		return nil, litefs.ErrPrimaryExists
	}
	return nil, errors.New("script: acquire failed")
}

func (l *sLeaser) AcquireExisting(ctx context.Context, id string) (litefs.Lease, error) {
	l.mu.Lock()
	defer l.mu.Unlock()
	if !l.rec(4) {
		return nil, errors.New("script: over")
	}
	if l.in.Handoff == "ok" {
		l.lease = newLease(l.leaseTTL())
		l.lease.acquired = true
		return l.lease, nil
	}
	return nil, litefs.ErrLeaseExpired
}

type sLease struct {
	mu        sync.Mutex
	ttl       time.Duration
	renewedAt time.Time
	lastOK    time.Time
	script    []string // renewal answers in order: ok expired err; afterwards "ok"
	renewN    int
	closed    bool
	closedAt  time.Time
	acquired  bool
	ch        chan uint64
	handoffOK bool
	onClose   func() // runs when the lease is destroyed
}

func newLease(ttl time.Duration) *sLease {
	now := time.Now()
	return &sLease{ttl: ttl, renewedAt: now, lastOK: now, ch: make(chan uint64, 1), handoffOK: true}
}
func (x *sLease) ID() string { return "lease-1" }
func (x *sLease) RenewedAt() time.Time {
	x.mu.Lock()
	defer x.mu.Unlock()
	return x.renewedAt
}
func (x *sLease) TTL() time.Duration { return x.ttl }
func (x *sLease) Renew(ctx context.Context) error {
	x.mu.Lock()
	defer x.mu.Unlock()
	r := "ok"
	if x.renewN < len(x.script) {
		r = x.script[x.renewN]
	}
	x.renewN++
	switch r {
	case "expired":
		return litefs.ErrLeaseExpired
	case "err":
		return errors.New("script: lease service unreachable")
	}
	x.renewedAt = time.Now()
	x.lastOK = x.renewedAt
	return nil
}
func (x *sLease) Handoff(ctx context.Context, nodeID uint64) error {
	if !x.handoffOK {
		return errors.New("script: handoff not supported")
	}
	select {
	case x.ch <- nodeID:
		return nil
	default:
		return errors.New("busy")
	}
}
func (x *sLease) HandoffCh() <-chan uint64 { return x.ch }
func (x *sLease) Close() error {
	x.mu.Lock()
	x.closed, x.closedAt = true, time.Now()
	probe := x.onClose
	x.mu.Unlock()
	if probe != nil {
		probe()
	}
	return nil
}

// ---------- scripted primary for the follower side ----------
type sClient struct {
	mu        sync.Mutex
	streams   int
	clusterID string
	frames    func() []byte
}

type sStream struct {
	io.Reader
	cid string
}

func (s *sStream) Close() error      { return nil }
func (s *sStream) ClusterID() string { return s.cid }

func (c *sClient) AcquireHaltLock(ctx context.Context, u string, id uint64, name string, lockID int64) (*litefs.HaltLock, error) {
	return nil, errors.New("n/a")
}
func (c *sClient) ReleaseHaltLock(ctx context.Context, u string, id uint64, name string, lockID int64) error {
	return errors.New("n/a")
}
func (c *sClient) Commit(ctx context.Context, u string, id uint64, name string, lockID int64, r io.Reader) error {
	return errors.New("n/a")
}
func (c *sClient) Stream(ctx context.Context, u string, id uint64, posMap map[string]ltx.Pos, filter []string) (litefs.Stream, error) {
	c.mu.Lock()
	defer c.mu.Unlock()
	c.streams++
	var b []byte
	if c.frames != nil {
		b = c.frames()
	}
	return &sStream{Reader: bytes.NewReader(b), cid: c.clusterID}, nil
}

func handoffFrames() []byte {
	var b bytes.Buffer
	_ = litefs.WriteStreamFrame(&b, &litefs.ReadyStreamFrame{})
	_ = litefs.WriteStreamFrame(&b, &litefs.HandoffStreamFrame{LeaseID: "lease-1"})
	return b.Bytes()
}

// ---------- one election-loop iteration ----------
type iterResult struct {
	in        iterIn
	calls     []int
	role      int
	isPrimary bool
	acquired  bool
	ok        bool
}

func runIteration(in iterIn, root string, idx int) (res iterResult) {
	res.in = in
	dir := filepath.Join(root, fmt.Sprintf("it%04d", idx))
	_ = os.MkdirAll(dir, 0o755)
	defer os.RemoveAll(dir)
	if in.LocalCID {
		_ = os.WriteFile(filepath.Join(dir, "clusterid"), []byte(cidA+"\n"), 0o644)
	}
	l := &sLeaser{in: in, testAt: 1, url: "http://self.invalid:1"}
	cl := &sClient{clusterID: cidA}
	if in.Handoff != "none" {
		l.testAt = 2
		cl.frames = handoffFrames
	}
	s := litefs.NewStore(dir, in.Candidate)
	s.Leaser = l
	s.Client = cl
	s.ReconnectDelay = 5 * time.Millisecond
	s.RetentionMonitorInterval = 0
	s.Exit = func(code int) {}
	if err := s.Open(); err != nil {
		return res
	}
	// wait until the iteration under test is over: a later ClusterID call, or a role
	deadline := time.Now().Add(3 * time.Second)
	for time.Now().Before(deadline) {
		l.mu.Lock()
		over := l.iter > l.testAt
		acquired := l.lease != nil && l.lease.acquired
		l.mu.Unlock()
		if acquired {
			for t := 0; t < 300 && !s.IsPrimary(); t++ {
				time.Sleep(time.Millisecond)
			}
			if s.IsPrimary() {
				res.role = 1
			}
			break
		}
		if over {
			break
		}
		time.Sleep(time.Millisecond)
	}
	cl.mu.Lock()
	streams := cl.streams
	cl.mu.Unlock()
	warm := 0
	if in.Handoff != "none" {
		warm = 1
	}
	if res.role == 0 && streams > warm {
		res.role = 2
	}
	res.isPrimary = s.IsPrimary()
	l.mu.Lock()
	res.calls = append([]int(nil), l.calls...)
	res.acquired = l.lease != nil && l.lease.acquired
	l.mu.Unlock()
	_ = s.Close()
	res.ok = true
	return res
}

func judgeIteration(c *common.Ctx, cf *common.CaseFile, res iterResult) {
	if !res.ok {
		c.Note("c08: store did not open for %+v", res.in)
		return
	}
	in, calls, role := res.in, res.calls, res.role
	c.Evaluations++
	rep := map[string]any{"kind": "lease-iteration", "input": in, "calls": calls, "role": role}
	key := fmt.Sprintf("C08:iter:cand=%v:lcid=%v:cid=%s:ho=%s:%s:%s:%s", in.Candidate, in.LocalCID, in.CID, in.Handoff, in.Info1, in.Acquire, in.Info2)
	c.Distinct(key)
	has := func(x int) bool {
		for _, v := range calls {
			if v == x {
				return true
			}
		}
		return false
	}
	// the property's own predicates
	if !in.Candidate && has(3) {
		c.Violate(key+":noncandidate-acquire", "a node that is not a candidate called Acquire on a free lease", rep)
	}
	if in.LocalCID && in.CID == "different" && (role != 0 || len(calls) > 1) {
		c.Violate(key+":foreign-cluster", fmt.Sprintf("lease service carries another cluster's id: node took role %d and made calls %v", role, calls), rep)
	}
	if res.isPrimary && !res.acquired {
		c.Violate(key+":primary-without-lease", "the node reports primary although no lease was granted to it", rep)
	}
	obs := []uint64{uint64(role)}
	for _, v := range calls {
		obs = append(obs, uint64(v))
	}
	ho := "None"
	switch in.Handoff {
	case "ok":
		ho = "(Some true)"
	case "fail":
		ho = "(Some false)"
	}
	cid := map[string]string{"err": "CidErr", "empty": "CidEmpty", "equal": "CidEqual", "different": "CidDifferent"}[in.CID]
	inf := map[string]string{"present": "InfoPresent", "absent": "InfoAbsent", "err": "InfoErr"}
	acq := map[string]string{"ok": "AcqOk", "exists": "AcqExists", "err": "AcqErr"}[in.Acquire]
	cf.Add(fmt.Sprintf("({| i_candidate := %s; i_local_cid := %s; i_cid := %s; i_handoff := %s; i_info1 := %s; i_acquire := %s; i_info2 := %s |}, %s)",
		common.CoqBool(in.Candidate), common.CoqBool(in.LocalCID), cid, ho, inf[in.Info1], acq, inf[in.Info2], common.CoqNList(obs)), rep)
}

// foreignStream: the lease service names a primary and carries no cluster id of its own, but the primary's
// stream announces another cluster's id: a node that has a cluster id must refuse to follow it.
func foreignStream(c *common.Ctx, root string) {
	dir := filepath.Join(root, "foreign-stream")
	_ = os.MkdirAll(dir, 0o755)
	defer os.RemoveAll(dir)
	_ = os.WriteFile(filepath.Join(dir, "clusterid"), []byte(cidA+"\n"), 0o644)
	l := &sLeaser{in: iterIn{Candidate: false, LocalCID: true, CID: "empty", Handoff: "none", Info1: "present", Acquire: "err", Info2: "absent"}, testAt: 1, url: "http://self.invalid:1"}
	cl := &sClient{clusterID: cidB, frames: func() []byte {
		var b bytes.Buffer
		_ = litefs.WriteStreamFrame(&b, &litefs.ReadyStreamFrame{})
		return b.Bytes()
	}}
	s := litefs.NewStore(dir, false)
	s.Leaser, s.Client = l, cl
	s.ReconnectDelay = 5 * time.Millisecond
	s.RetentionMonitorInterval = 0
	s.Exit = func(int) {}
	if err := s.Open(); err != nil {
		return
	}
	ready := false
	select {
	case <-s.ReadyCh():
		ready = true
	case <-time.After(300 * time.Millisecond):
	}
	got := s.ClusterID()
	file, _ := os.ReadFile(filepath.Join(dir, "clusterid"))
	_ = s.Close()
	c.Evaluations++
	c.Distinct("foreign-stream")
	rep := map[string]any{"kind": "lease-foreign-stream"}
	if ready || got != cidA || strings.TrimSpace(string(file)) != cidA {
		c.Violate("C08:foreign-stream", fmt.Sprintf("a node of cluster %s followed a primary that announces cluster %s: ready=%v, cluster id now %q, clusterid file %q", cidA, cidB, ready, got, strings.TrimSpace(string(file))), rep)
	}
}

// ---------- the primary's loop ----------
type pScript struct {
	Name      string   `json:"name"`
	Renew     []string `json:"renew"`           // answers of successive Renew calls
	At        int      `json:"at_ms,omitempty"` // when the external event happens
	Event     string   `json:"event,omitempty"` // demote handoff-connected handoff-unconnected handoff-refused shutdown
	Then      string   `json:"then,omitempty"`  // a second event 300 ms (or ThenAfter ms) after the first: demote shutdown
	ThenAfter int      `json:"then_after_ms,omitempty"`
	Storm     int      `json:"storm_ms,omitempty"` // the handoff request is repeated every so many ms for 5 s
	TTL       int      `json:"ttl_ms,omitempty"`   // the lease's TTL (default 3000)
	Model     string   `json:"model"`              // the model's event list
	WantEnd   int      `json:"want_end_ms"`        // model: ms after the last successful renewal at which the role ends (0: not by renewal)
}

func runPrimary(c *common.Ctx, cf *common.CaseFile, sc pScript, root string, idx int, wg *sync.WaitGroup, mu *sync.Mutex) {
	defer wg.Done()
	dir := filepath.Join(root, fmt.Sprintf("pr%04d", idx))
	_ = os.MkdirAll(dir, 0o755)
	defer os.RemoveAll(dir)
	_ = os.WriteFile(filepath.Join(dir, "clusterid"), []byte(cidA+"\n"), 0o644)
	if sc.TTL == 0 {
		sc.TTL = 3000
	}
	l := &sLeaser{in: iterIn{Candidate: true, LocalCID: true, CID: "equal", Handoff: "none", Info1: "absent", Acquire: "ok", Info2: "absent"}, testAt: 1, url: "http://self.invalid:1", ttl: time.Duration(sc.TTL) * time.Millisecond}
	s := litefs.NewStore(dir, true)
	s.Leaser = l
	s.Client = &sClient{clusterID: cidA}
	s.ReconnectDelay = 20 * time.Millisecond
	s.DemoteDelay = 50 * time.Millisecond
	s.RetentionMonitorInterval = 0
	s.Exit = func(int) {}
	if err := s.Open(); err != nil {
		return
	}
	defer s.Close()
	t0 := time.Now()
	for !s.IsPrimary() && time.Since(t0) < 2*time.Second {
		time.Sleep(time.Millisecond)
	}
	l.mu.Lock()
	lease := l.lease
	l.mu.Unlock()
	if lease == nil || !s.IsPrimary() {
		mu.Lock()
		c.Note("c08: primary scenario %s did not start", sc.Name)
		mu.Unlock()
		return
	}
	pctx := s.PrimaryCtx(context.Background())
	var primaryAtDestroy int32
	lease.mu.Lock()
	lease.script = sc.Renew
	if sc.Event == "handoff-refused" {
		lease.handoffOK = false
	}
	// once its lease is destroyed the node is no longer primary: a moment after Close() was called (the role is given
	// up first, and the demote delay of this scenario is 50 ms) it must not report the role any more
	lease.onClose = func() {
		go func() {
			time.Sleep(15 * time.Millisecond)
			if s.IsPrimary() && pctx.Err() == nil {
				atomic.StoreInt32(&primaryAtDestroy, 1)
			}
		}()
	}
	lease.mu.Unlock()
	var sub *litefs.ChangeSetSubscriber
	gotLease := make(chan string, 1)
	if sc.Event == "handoff-unread" {
		sub = s.SubscribeChangeSet(0x77) // a connected target whose stream handler never takes the lease id
	}
	if sc.Event == "handoff-connected" || sc.Event == "handoff-refused" {
		sub = s.SubscribeChangeSet(0x77)
		go func() {
			select {
			case id := <-sub.HandoffCh():
				gotLease <- id
			case <-time.After(8 * time.Second):
			}
		}()
	}
	var handoffErr error
	if sc.Event != "" {
		time.Sleep(time.Duration(sc.At) * time.Millisecond)
		switch sc.Event {
		case "demote":
			s.Demote()
		case "handoff-connected", "handoff-refused", "handoff-unread":
			handoffErr = s.Handoff(context.Background(), 0x77)
			if sc.Storm > 0 {
				go func() {
					for t := time.Now(); time.Since(t) < 5*time.Second && s.IsPrimary(); {
						time.Sleep(time.Duration(sc.Storm) * time.Millisecond)
						_ = s.Handoff(context.Background(), 0x77)
					}
				}()
			}
		case "handoff-unconnected":
			handoffErr = s.Handoff(context.Background(), 0x99)
		case "shutdown":
			go s.Close()
		}
		if sc.Then != "" {
			d := 300
			if sc.ThenAfter > 0 {
				d = sc.ThenAfter
			}
			time.Sleep(time.Duration(d) * time.Millisecond)
			switch sc.Then {
			case "demote":
				s.Demote()
			case "shutdown":
				go s.Close()
			}
		}
	}
	// watch the role
	end := time.Time{}
	limit := time.Now().Add(time.Duration(sc.TTL)*time.Millisecond + 3*time.Second)
	for time.Now().Before(limit) {
		if !s.IsPrimary() {
			end = time.Now()
			break
		}
		time.Sleep(2 * time.Millisecond)
	}
	time.Sleep(80 * time.Millisecond)
	lease.mu.Lock()
	closed, lastOK := lease.closed, lease.lastOK
	lease.mu.Unlock()
	ctxDone := pctx.Err() != nil
	exit := 0
	switch {
	case end.IsZero():
		exit = 0
	case sc.Event == "demote" || sc.Then == "demote":
		exit = 2
	case sc.Event == "shutdown" || sc.Then == "shutdown":
		exit = 4
	case (sc.Event == "handoff-connected") && !closed:
		exit = 3
	default:
		exit = 1
	}
	if sc.Event == "handoff-connected" && sc.Then == "" && closed && !end.IsZero() {
		exit = 1
	}
	mu.Lock()
	defer mu.Unlock()
	c.Evaluations++
	c.Distinct("primary:" + sc.Name)
	rep := map[string]any{"kind": "lease-primary", "script": sc, "exit": exit, "closed": closed, "handoff_error": fmt.Sprint(handoffErr)}
	key := "C08:primary:" + sc.Name
	if !end.IsZero() {
		if !ctxDone {
			c.Violate(key+":ctx", "the node stopped being primary but its primary-scoped context was not cancelled", rep)
		}
		if exit != 3 && !closed {
			c.Violate(key+":lease-not-destroyed", "the node stopped being primary without destroying its lease", rep)
		}
		if exit == 3 && closed {
			c.Violate(key+":handoff-destroyed", "the lease was destroyed although it was handed off", rep)
		}
	}
	if atomic.LoadInt32(&primaryAtDestroy) != 0 {
		c.Violate(key+":primary-after-destroy", "15 ms after its lease was destroyed the node still reports the primary role (IsPrimary, primary-scoped context live)", rep)
	}
	if sc.Event == "handoff-unread" && !end.IsZero() && !closed {
		c.Violate(key+":lease-lost", "the handoff target never took the lease id, yet the node gave up the role and did not destroy the lease: the lease is held by nobody", rep)
	}
	if sc.Event == "handoff-unconnected" && (handoffErr == nil || !s.IsPrimary() && end.Before(t0.Add(time.Duration(sc.At+300)*time.Millisecond))) {
		c.Violate(key+":handoff-to-stranger", fmt.Sprintf("a handoff to a node that is not connected was accepted (err=%v, still primary=%v)", handoffErr, s.IsPrimary()), rep)
	}
	if sc.WantEnd > 0 {
		if end.IsZero() {
			c.Violate(key+":still-primary", fmt.Sprintf("the node is still primary %.1fs after its last successful renewal (TTL %d ms, renewals failing)", time.Since(lastOK).Seconds(), sc.TTL), rep)
		} else {
			got := int(end.Sub(lastOK).Milliseconds())
			rep["end_ms_after_last_renewal"] = got
			if got > sc.WantEnd+400 {
				c.Violate(key+":late", fmt.Sprintf("the node stayed primary for %d ms after its last successful renewal; it has to leave after %d ms (TTL %d ms: the lease runs out then)", got, sc.WantEnd, sc.TTL), rep)
			}
			if got < sc.WantEnd-300 {
				c.Count("primary_left_early", 1)
			}
		}
	}
	cl := 0
	if closed {
		cl = 1
	}
	cf.Add(fmt.Sprintf("(%d, [%s], %s)", sc.TTL, sc.Model, common.CoqNList([]uint64{uint64(exit), uint64(cl)})), rep)
}

// ---------- a real cluster on the TTL lease service: roles against the service's own record ----------
func clusterRoles(c *common.Ctx, r *common.Rand, idx int) error {
	dir, err := os.MkdirTemp(c.OutDir, "c08c-")
	if err != nil {
		return err
	}
	defer os.RemoveAll(dir)
	clu := cluster.New(dir, 2*time.Second)
	defer clu.Close()
	a, err := clu.Start("a", true)
	if err != nil {
		return err
	}
	if clu.WaitPrimary(5*time.Second) == nil {
		return fmt.Errorf("no primary")
	}
	b, err := clu.Start("b", true)
	if err != nil {
		return err
	}
	n, err := clu.Start("n", false)
	if err != nil {
		return err
	}
	// what is scoped to the primary role is over, from the first instant, on a node that does not hold it: a
	// primary-scoped context obtained on a replica is done when it is handed out (not a moment later)
	for _, nd := range []*cluster.Node{b, n} {
		late := 0
		for i := 0; i < 400; i++ {
			pctx := nd.Store.PrimaryCtx(context.Background())
			select {
			case <-pctx.Done():
			default:
				late++
			}
		}
		c.Evaluations++
		c.Distinct("primary-ctx-on-replica:" + nd.Name)
		if late > 0 && !nd.Store.IsPrimary() {
			c.Violate("C08:primary-ctx:live-on-replica", fmt.Sprintf("node %s is a replica; %d of 400 primary-scoped contexts obtained from it were still live when handed out", nd.Name, late), map[string]any{"kind": "primary-ctx-on-replica", "node": nd.Name})
		}
	}
	h := hist.NewOn(c, r.Fork(), hist.Config{PageSize: 512}, a.Store, a.Exits, "db", nil, 0, false)
	for tries, done := 0, 0; tries < 100 && done < 2; tries++ {
		st := h.GenStep()
		if st.Op != "rtx" {
			continue
		}
		st.Outcome = 0
		if ob := h.Exec(st); ob.Captured && ob.Err == "" {
			done++
		}
	}
	rep := map[string]any{"kind": "lease-cluster", "index": idx}
	sample := func(what string) {
		c.Evaluations++
		holder := clu.Svc.Holder()
		prim := 0
		for _, nd := range []*cluster.Node{a, b, n} {
			if nd.Store.IsPrimary() {
				prim++
				if holder != nd.Name {
					c.Count("primary_not_holder_samples", 1)
				}
				if nd.Name == "n" {
					c.Violate("C08:cluster:noncandidate-primary", "the non-candidate node is primary ("+what+")", rep)
				}
			}
		}
		if prim > 1 {
			c.Violate("C08:cluster:two-primaries", fmt.Sprintf("%d nodes report primary at once (%s); the lease service says the holder is %q", prim, what, holder), rep)
		}
	}
	sample("steady")
	// manual demotion: b takes over, the non-candidate never does
	a.Store.Demote()
	deadline := time.Now().Add(4 * time.Second)
	for time.Now().Before(deadline) {
		sample("after demotion")
		if b.Store.IsPrimary() {
			break
		}
		time.Sleep(3 * time.Millisecond)
	}
	if !b.Store.IsPrimary() && !a.Store.IsPrimary() {
		c.Violate("C08:cluster:no-takeover", "after a manual demotion no candidate became primary within 4s", rep)
	}
	// the lease vanishes at the service: the holder steps down when its next renewal reports it gone
	var holder *cluster.Node
	for _, nd := range []*cluster.Node{a, b} {
		if nd.Store.IsPrimary() {
			holder = nd
		}
	}
	if holder != nil {
		// (the end of the role is the cancellation of the primary-scoped context: the same node may win the next
		// election a moment later, which polling IsPrimary could miss)
		hctx := holder.Store.PrimaryCtx(context.Background())
		// a follower's view: a replication stream opened while the node is primary ends with the role
		streamEnded := make(chan struct{})
		sctx, scancel := context.WithCancel(context.Background())
		probePos := map[string]ltx.Pos{}
		for _, db := range holder.Store.DBs() { // caught up on everything: only control frames will follow
			probePos[db.Name()] = db.Pos()
		}
		if st, err := lfshttp.NewClient().Stream(sctx, holder.Server.URL(), 0x5151, probePos, nil); err == nil {
			go func() {
				defer close(streamEnded)
				defer st.Close()
				for {
					if _, err := litefs.ReadStreamFrame(st); err != nil {
						return
					}
				}
			}()
		} else {
			close(streamEnded)
		}
		time.Sleep(50 * time.Millisecond)
		select {
		case <-streamEnded:
			c.Count("cluster_probe_stream_ended_early", 1)
		default:
			c.Count("cluster_probe_stream_open_at_revocation", 1)
		}
		clu.Svc.Revoke()
		t0 := time.Now()
		stepped := false
		for !stepped && time.Since(t0) < 4*time.Second {
			select {
			case <-hctx.Done():
				stepped = true
			case <-time.After(3 * time.Millisecond):
			}
			if n.Store.IsPrimary() {
				c.Violate("C08:cluster:noncandidate-primary", "the non-candidate node is primary (after revocation)", rep)
			}
		}
		c.Evaluations++
		rep["stepdown_ms"] = time.Since(t0).Milliseconds()
		if !stepped {
			c.Violate("C08:cluster:revoked-still-primary", "4 s after its lease was deleted at the lease service (TTL 2 s, renewal every 1 s) the node still holds the primary role it had", rep)
		} else {
			select {
			case <-streamEnded:
			case <-time.After(1500 * time.Millisecond):
				c.Violate("C08:cluster:stream-outlives-role", "1.5 s after the node lost the primary role a replication stream it was serving is still open (heartbeats keep arriving)", rep)
			}
		}
		scancel()
	}
	// foreign cluster: a node whose directory belongs to another cluster joins and must stay out
	fdir := filepath.Join(dir, "f")
	_ = os.MkdirAll(fdir, 0o755)
	_ = os.WriteFile(filepath.Join(fdir, "clusterid"), []byte(cidB+"\n"), 0o644)
	f, err := clu.Start("f", true)
	if err == nil {
		time.Sleep(300 * time.Millisecond)
		c.Evaluations++
		if f.Store.IsPrimary() {
			c.Violate("C08:cluster:foreign-primary", "a node with another cluster's id became primary of this cluster", rep)
		}
		if db := f.Store.DB("db"); db != nil && db.Pos().TXID > 0 {
			c.Violate("C08:cluster:foreign-replica", "a node with another cluster's id replicated this cluster's database", rep)
		}
	}
	c.Distinct(fmt.Sprintf("cluster:%d", idx))
	_ = lfs.ChecksumFlag
	_ = strings.Join
	return nil
}

func Run(c *common.Ctx) error {
	cfI := c.Cases("cases_c08", "Require Import LF.Model.Lease.\nLocal Open Scope N_scope.", "iter_in * list N", "mismatches_iter")
	cfP := c.Cases("cases_c08p", "Require Import LF.Model.Lease.\nLocal Open Scope N_scope.", "N * list pevent * list N", "mismatches_run")
	root, err := os.MkdirTemp(c.OutDir, "c08-")
	if err != nil {
		return err
	}
	defer os.RemoveAll(root)
	// primary-loop scripts run concurrently (each takes seconds of wall clock)
	scripts := []pScript{
		{Name: "renew-expired-first", Renew: []string{"expired"}, Model: "PRenewExpired", WantEnd: 1500},
		{Name: "renew-ok-then-expired", Renew: []string{"ok", "expired"}, Model: "PRenewOk; PRenewExpired", WantEnd: 1500},
		{Name: "renew-errors", Renew: []string{"err", "err", "err", "err"}, Model: "PRenewErr; PRenewErr; PRenewErr", WantEnd: 3000},
		// TTLs that are not a multiple of the retry interval: the role is held for what is left of the TTL, not for another full second
		{Name: "renew-errors-ttl-2200", TTL: 2200, Renew: []string{"err", "err", "err", "err"}, Model: "PRenewErr; PRenewErr; PRenewErr", WantEnd: 2200},
		// a long TTL: the retries come every second all the way (a retry schedule that backs off would jump over the deadline)
		{Name: "renew-errors-ttl-10000", TTL: 10000, Renew: []string{"err", "err", "err", "err", "err", "err", "err", "err", "err", "err", "err", "err"}, Model: "PRenewErr; PRenewErr; PRenewErr; PRenewErr; PRenewErr; PRenewErr", WantEnd: 10000},
		{Name: "renew-ok-then-errors-ttl-1400", TTL: 1400, Renew: []string{"ok", "err", "err", "err"}, Model: "PRenewOk; PRenewErr; PRenewErr; PRenewErr", WantEnd: 1400},
		{Name: "renew-ok-then-errors", Renew: []string{"ok", "err", "err", "err"}, Model: "PRenewOk; PRenewErr; PRenewErr; PRenewErr", WantEnd: 3000},
		{Name: "renew-error-then-ok", Renew: []string{"err", "ok", "ok", "ok", "ok", "ok", "ok", "ok"}, Model: "PRenewErr; PRenewOk; PRenewOk", WantEnd: 0},
		{Name: "demote", At: 300, Event: "demote", Model: "PDemote"},
		{Name: "handoff-connected", At: 200, Event: "handoff-connected", Model: "PHandoff true true"},
		{Name: "handoff-unconnected", At: 200, Event: "handoff-unconnected", Model: "PHandoff false true"},
		{Name: "handoff-refused", At: 200, Event: "handoff-refused", Model: "PHandoff true false"},
		{Name: "shutdown", At: 300, Event: "shutdown", Model: "PShutdown"},
		// a handoff that does not go through leaves an ordinary primary: its lease is destroyed when the role ends
		{Name: "handoff-refused-then-demote", At: 200, Event: "handoff-refused", Then: "demote", Model: "PHandoff true false; PDemote"},
		{Name: "handoff-refused-then-shutdown", At: 200, Event: "handoff-refused", Then: "shutdown", Model: "PHandoff true false; PShutdown"},
		{Name: "handoff-unconnected-then-demote", At: 200, Event: "handoff-unconnected", Then: "demote", Model: "PHandoff false true; PDemote"},
		// the lease service accepts the handoff, but passing the lease on fails (the last renewal before sending it errors)
		{Name: "handoff-not-completed-then-demote", Renew: []string{"err"}, At: 200, Event: "handoff-connected", Then: "demote", Model: "PHandoff false true; PDemote"},
		{Name: "handoff-not-completed-then-shutdown", Renew: []string{"err"}, At: 200, Event: "handoff-connected", Then: "shutdown", Model: "PHandoff false true; PShutdown"},
		// the target is connected but never takes the lease id: the attempt times out (5 s) and the node stays an ordinary primary
		{Name: "handoff-unread-then-demote", At: 200, Event: "handoff-unread", Then: "demote", ThenAfter: 5600, Model: "PHandoff false true; PDemote"},
		// the renewal made before the lease id is passed on reports the lease gone: the role ends there and then
		{Name: "handoff-lease-gone", Renew: []string{"expired"}, At: 200, Event: "handoff-connected", Model: "PHandoffLeaseGone", WantEnd: 200},
		// handoff requests keep arriving (each fails: the renewal before passing the lease on errors) while the scheduled
		// renewals fail too: the requests do not postpone the renewals, the role ends by the loop's own arithmetic
		{Name: "handoff-storm-renewals-failing", Renew: []string{"err", "err", "err", "err", "err", "err", "err", "err", "err", "err", "err", "err", "err", "err", "err", "err", "err", "err", "err", "err", "err", "err", "err", "err", "err", "err", "err", "err", "err", "err", "err", "err", "err", "err", "err", "err", "err", "err", "err", "err"},
			At: 100, Event: "handoff-connected", Storm: 300, Model: "PHandoff true false; PRenewErr; PHandoff true false; PRenewErr", WantEnd: 3000},
		{Name: "handoff-refused-then-expired", Renew: []string{"ok", "expired"}, At: 200, Event: "handoff-refused", Model: "PHandoff true false; PRenewOk; PRenewExpired", WantEnd: 1500},
	}
	var wg sync.WaitGroup
	var mu sync.Mutex
	for i, sc := range scripts {
		wg.Add(1)
		go runPrimary(c, cfP, sc, root, i, &wg, &mu)
	}
	// election-loop iterations: the cross product of what the service can answer
	var ins []iterIn
	for _, cand := range []bool{true, false} {
		for _, lc := range []bool{true, false} {
			for _, cid := range []string{"err", "empty", "equal", "different"} {
				if !lc && cid == "different" {
					continue // without a local id there is nothing to differ from
				}
				for _, ho := range []string{"none", "ok", "fail"} {
					if !lc && ho != "none" {
						continue // a lease is handed over on a stream, and following a stream adopts its cluster id
					}
					for _, i1 := range []string{"present", "absent", "err"} {
						for _, ac := range []string{"ok", "exists", "err"} {
							for _, i2 := range []string{"present", "absent"} {
								ins = append(ins, iterIn{cand, lc, cid, ho, i1, ac, i2})
							}
						}
					}
				}
			}
		}
	}
	if !c.Thorough() {
		var sub []iterIn
		for i, in := range ins {
			relevant := in.CID != "err" && !(in.CID == "different")
			if (relevant && (i%4 == int(c.Seed%4))) || i%11 == 0 {
				sub = append(sub, in)
			}
		}
		ins = sub
	}
	sem := make(chan struct{}, 12)
	var wg2 sync.WaitGroup
	results := make([]iterResult, len(ins))
	for i, in := range ins {
		wg2.Add(1)
		sem <- struct{}{}
		go func(i int, in iterIn) {
			defer wg2.Done()
			defer func() { <-sem }()
			results[i] = runIteration(in, root, i)
		}(i, in)
	}
	wg2.Wait()
	mu.Lock()
	for _, res := range results {
		judgeIteration(c, cfI, res)
	}
	mu.Unlock()
	wg.Wait()
	for i := 0; i < c.Pick(1, 4); i++ {
		if err := clusterRoles(c, c.Rng.Fork(), i); err != nil {
			return err
		}
	}
	foreignStream(c, root)
	postAcquireFailure(c, root)
	if err := handoffPingPong(c, root); err != nil {
		return err
	}
	if err := consulScenarios(c, c.Rng.Fork()); err != nil {
		return fmt.Errorf("consul: %w", err)
	}
	return nil
}

var bgc = context.Background()
