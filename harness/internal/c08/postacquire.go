package c08

import (
	"context"
	"errors"
	"fmt"
	"os"
	"path/filepath"
	"sync"
	"time"

	"github.com/superfly/litefs"

	"lfsverif/internal/common"
)

// paLeaser: the lease is granted; the cluster-id request right after the acquisition fails (the lease service lost its
// leader); the node gives the lease back and somebody else takes it.
type paLeaser struct {
	mu     sync.Mutex
	cidN   int
	lease  *sLease
	closed bool
	// foreign: instead of failing, the request after the acquisition finds the lease service initialised for another
	// cluster (it had no cluster id when the node looked first)
	foreign bool
}

func (l *paLeaser) Close() error         { return nil }
func (l *paLeaser) Type() string         { return "script" }
func (l *paLeaser) Hostname() string     { return "node-a" }
func (l *paLeaser) AdvertiseURL() string { return "http://node-a.invalid:1" }
func (l *paLeaser) ClusterID(ctx context.Context) (string, error) {
	l.mu.Lock()
	defer l.mu.Unlock()
	l.cidN++
	if l.cidN == 2 {
		if l.foreign {
			return cidB, nil
		}
		return "", errors.New("Unexpected response code: 500 (rpc error: No cluster leader)")
	}
	if l.foreign && l.cidN > 2 {
		return cidB, nil
	}
	return "", nil
}
func (l *paLeaser) SetClusterID(ctx context.Context, id string) error { return nil }
func (l *paLeaser) PrimaryInfo(ctx context.Context) (litefs.PrimaryInfo, error) {
	l.mu.Lock()
	defer l.mu.Unlock()
	if l.closed {
		return litefs.PrimaryInfo{Hostname: "node-b", AdvertiseURL: "http://node-b.invalid:1"}, nil
	}
	return litefs.PrimaryInfo{}, litefs.ErrNoPrimary
}
func (l *paLeaser) Acquire(ctx context.Context) (litefs.Lease, error) {
	l.mu.Lock()
	defer l.mu.Unlock()
	if l.closed || l.lease != nil {
		return nil, litefs.ErrPrimaryExists
	}
	l.lease = newLease(10 * time.Second)
	l.lease.onClose = func() { l.mu.Lock(); l.closed = true; l.mu.Unlock() }
	return l.lease, nil
}
func (l *paLeaser) AcquireExisting(ctx context.Context, id string) (litefs.Lease, error) {
	return nil, litefs.ErrLeaseExpired
}

// postAcquireFailure: an error of the lease service between the acquisition and the cluster-id step ends the attempt:
// the lease is given back and the node is not primary.
func postAcquireFailure(c *common.Ctx, root string) {
	postAcquire(c, root, false)
	postAcquire(c, root, true)
}

func postAcquire(c *common.Ctx, root string, foreign bool) {
	dir := filepath.Join(root, fmt.Sprintf("post-acquire-%v", foreign))
	_ = os.MkdirAll(dir, 0o755)
	l := &paLeaser{foreign: foreign}
	if foreign {
		_ = os.WriteFile(filepath.Join(dir, "clusterid"), []byte(cidA+"\n"), 0o644) // the node belongs to cluster A
	}
	s := litefs.NewStore(dir, true)
	s.Leaser = l
	s.Client = &sClient{} // node-b's stream: connects, sends nothing
	s.ReconnectDelay = 20 * time.Millisecond
	s.Exit = func(int) {}
	if err := s.Open(); err != nil {
		return
	}
	defer func() { _ = s.Close() }()
	deadline := time.Now().Add(2 * time.Second)
	for time.Now().Before(deadline) {
		l.mu.Lock()
		done := l.closed
		l.mu.Unlock()
		if done {
			break
		}
		time.Sleep(2 * time.Millisecond)
	}
	l.mu.Lock()
	closed := l.closed
	l.mu.Unlock()
	c.Evaluations++
	c.Distinct(fmt.Sprintf("post-acquire-failure:foreign=%v", foreign))
	rep := map[string]any{"kind": "post-acquire-failure", "foreign_cluster": foreign}
	if !closed {
		if foreign {
			c.Violate("C08:post-acquire:foreign-cluster", fmt.Sprintf("the node's stored cluster id is %s; the lease service had none when the node looked, and was initialised for %s by the time the node had acquired the lease: the node keeps the lease (primary=%v) for a cluster that is not its own", cidA, cidB, s.IsPrimary()), rep)
		} else {
			c.Violate("C08:post-acquire:lease-kept", "the cluster-id request after the acquisition failed and the lease was not given back within 2 s", rep)
		}
		return
	}
	time.Sleep(150 * time.Millisecond)
	pctx := s.PrimaryCtx(context.Background())
	live := true
	select {
	case <-pctx.Done():
		live = false
	default:
	}
	if s.IsPrimary() || live {
		c.Violate("C08:post-acquire:still-primary", fmt.Sprintf("the lease was given back after the cluster-id request failed (the lease service names node-b now); the node still reports primary=%v, a primary-scoped context obtained now is live=%v", s.IsPrimary(), live), rep)
	}
}
