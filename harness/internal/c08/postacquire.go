package c08

import (
	"context"
	"errors"
	"fmt"
	"os"
	"path/filepath"
	"sync"
	"time"

	"github.com/superfly/litefs"

	"lfsverif/internal/cluster"
	"lfsverif/internal/common"
)

// paLeaser: the lease is granted; the cluster-id request right after the acquisition fails (the lease service lost its
// leader); the node gives the lease back and somebody else takes it.
type paLeaser struct {
	mu     sync.Mutex
	cidN   int
	lease  *sLease
	closed bool
	// foreign: instead of failing, the request after the acquisition finds the lease service initialised for another
	// cluster (it had no cluster id when the node looked first)
	foreign bool
}

func (l *paLeaser) Close() error         { return nil }
func (l *paLeaser) Type() string         { return "script" }
func (l *paLeaser) Hostname() string     { return "node-a" }
func (l *paLeaser) AdvertiseURL() string { return "http://node-a.invalid:1" }
func (l *paLeaser) ClusterID(ctx context.Context) (string, error) {
	l.mu.Lock()
	defer l.mu.Unlock()
	l.cidN++
	if l.cidN == 2 {
		if l.foreign {
			return cidB, nil
		}
		return "", errors.New("Unexpected response code: 500 (rpc error: No cluster leader)")
	}
	if l.foreign && l.cidN > 2 {
		return cidB, nil
	}
	return "", nil
}
func (l *paLeaser) SetClusterID(ctx context.Context, id string) error { return nil }
func (l *paLeaser) PrimaryInfo(ctx context.Context) (litefs.PrimaryInfo, error) {
	l.mu.Lock()
	defer l.mu.Unlock()
	if l.closed {
		return litefs.PrimaryInfo{Hostname: "node-b", AdvertiseURL: "http://node-b.invalid:1"}, nil
	}
	return litefs.PrimaryInfo{}, litefs.ErrNoPrimary
}
func (l *paLeaser) Acquire(ctx context.Context) (litefs.Lease, error) {
	l.mu.Lock()
	defer l.mu.Unlock()
	if l.closed || l.lease != nil {
		return nil, litefs.ErrPrimaryExists
	}
	l.lease = newLease(10 * time.Second)
	l.lease.onClose = func() { l.mu.Lock(); l.closed = true; l.mu.Unlock() }
	return l.lease, nil
}
func (l *paLeaser) AcquireExisting(ctx context.Context, id string) (litefs.Lease, error) {
	return nil, litefs.ErrLeaseExpired
}

// postAcquireFailure: an error of the lease service between the acquisition and the cluster-id step ends the attempt:
// the lease is given back and the node is not primary.
func postAcquireFailure(c *common.Ctx, root string) {
	postAcquire(c, root, false)
	postAcquire(c, root, true)
}

func postAcquire(c *common.Ctx, root string, foreign bool) {
	dir := filepath.Join(root, fmt.Sprintf("post-acquire-%v", foreign))
	_ = os.MkdirAll(dir, 0o755)
	l := &paLeaser{foreign: foreign}
	if foreign {
		_ = os.WriteFile(filepath.Join(dir, "clusterid"), []byte(cidA+"\n"), 0o644) // the node belongs to cluster A
	}
	s := litefs.NewStore(dir, true)
	s.Leaser = l
	s.Client = &sClient{} // node-b's stream: connects, sends nothing
	s.ReconnectDelay = 20 * time.Millisecond
	s.Exit = func(int) {}
	if err := s.Open(); err != nil {
		return
	}
	defer func() { _ = s.Close() }()
	deadline := time.Now().Add(2 * time.Second)
	for time.Now().Before(deadline) {
		l.mu.Lock()
		done := l.closed
		l.mu.Unlock()
		if done {
			break
		}
		time.Sleep(2 * time.Millisecond)
	}
	l.mu.Lock()
	closed := l.closed
	l.mu.Unlock()
	c.Evaluations++
	c.Distinct(fmt.Sprintf("post-acquire-failure:foreign=%v", foreign))
	rep := map[string]any{"kind": "post-acquire-failure", "foreign_cluster": foreign}
	if !closed {
		if foreign {
			c.Violate("C08:post-acquire:foreign-cluster", fmt.Sprintf("the node's stored cluster id is %s; the lease service had none when the node looked, and was initialised for %s by the time the node had acquired the lease: the node keeps the lease (primary=%v) for a cluster that is not its own", cidA, cidB, s.IsPrimary()), rep)
		} else {
			c.Violate("C08:post-acquire:lease-kept", "the cluster-id request after the acquisition failed and the lease was not given back within 2 s", rep)
		}
		return
	}
	time.Sleep(150 * time.Millisecond)
	pctx := s.PrimaryCtx(context.Background())
	live := true
	select {
	case <-pctx.Done():
		live = false
	default:
	}
	if s.IsPrimary() || live {
		c.Violate("C08:post-acquire:still-primary", fmt.Sprintf("the lease was given back after the cluster-id request failed (the lease service names node-b now); the node still reports primary=%v, a primary-scoped context obtained now is live=%v", s.IsPrimary(), live), rep)
	}
}

// handoffPingPong: the lease is handed from A to B and later from B back to A (what a rolling deploy with promotion does)
// and once more to B. After every hand-over exactly the requested node is primary, the lease service names it, and the
// node that gave the lease away stays a replica - it does not take the lease it has just passed on back again.
func handoffPingPong(c *common.Ctx, root string) error {
	dir := filepath.Join(root, "ping-pong")
	_ = os.MkdirAll(dir, 0o755)
	defer os.RemoveAll(dir)
	clu := cluster.New(dir, 2*time.Second)
	defer clu.Close()
	a, err := clu.Start("a", true)
	if err != nil {
		return err
	}
	if clu.WaitPrimary(5*time.Second) == nil {
		return fmt.Errorf("no primary")
	}
	b, err := clu.Start("b", true)
	if err != nil {
		return err
	}
	nodes := map[string]*cluster.Node{"a": a, "b": b}
	waitConnected := func(from, to *cluster.Node) bool {
		deadline := time.Now().Add(5 * time.Second)
		for time.Now().Before(deadline) {
			if from.Store.IsPrimary() && !to.Store.IsPrimary() {
				if err := from.Store.Handoff(context.Background(), to.Store.ID()); err == nil {
					return true
				}
			}
			time.Sleep(20 * time.Millisecond)
		}
		return false
	}
	for round, mv := range [][2]string{{"a", "b"}, {"b", "a"}, {"a", "b"}} {
		from, to := nodes[mv[0]], nodes[mv[1]]
		if !waitConnected(from, to) {
			c.Count("ping_pong_handoff_not_accepted", 1)
			return nil
		}
		// the hand-over settles within a second or so
		deadline := time.Now().Add(4 * time.Second)
		for time.Now().Before(deadline) && !(to.Store.IsPrimary() && !from.Store.IsPrimary()) {
			time.Sleep(5 * time.Millisecond)
		}
		time.Sleep(700 * time.Millisecond) // whoever wanted to take the lease back would have done so by now
		c.Evaluations++
		c.Distinct(fmt.Sprintf("handoff-ping-pong:%d", round))
		rep := map[string]any{"kind": "handoff-ping-pong", "round": round, "from": mv[0], "to": mv[1], "service_log": clu.Svc.Log}
		holder := clu.Svc.Holder()
		if !to.Store.IsPrimary() || from.Store.IsPrimary() || holder != mv[1] {
			c.Violate("C08:ping-pong:roles", fmt.Sprintf("hand-over %d (%s -> %s): afterwards %s reports primary=%v, %s reports primary=%v, the lease service names %q", round+1, mv[0], mv[1], mv[0], from.Store.IsPrimary(), mv[1], to.Store.IsPrimary(), holder), rep)
			return nil
		}
	}
	return nil
}
