// Package c02: rollback-journal commits captured exactly, once, in order.
package c02

import (
	"fmt"

	"lfsverif/internal/common"
	"lfsverif/internal/hist"
)

func Run(c *common.Ctx) error {
	cfgs := []hist.Config{
		{PageSize: 512, Regime: 0, AllowWAL: false, AllowDrop: true, Clients: true},
		{PageSize: 512, Regime: 1, AllowWAL: false, AllowDrop: false, CommitFaults: true},
		{PageSize: 512, Regime: 2, AllowWAL: false, AllowDrop: true},
		{PageSize: 4096, Regime: 0, AllowWAL: false, AllowDrop: true, CommitFaults: true},
		{PageSize: 1024, Regime: 1, AllowWAL: false, AllowDrop: false, Clients: true},
		{PageSize: 65536, Regime: 0, AllowWAL: false, AllowDrop: true},
	}
	if c.Thorough() {
		cfgs = append(cfgs, hist.Config{PageSize: 2048, Regime: 2}, hist.Config{PageSize: 8192, Regime: 1}, hist.Config{PageSize: 16384, Regime: 0, AllowDrop: true}, hist.Config{PageSize: 32768, Regime: 0})
	}
	cf := c.Cases("cases_c02", hist.CoqHeader, hist.CoqType, "mismatches")
	cf.Shard = 3
	// fixed history first: the shapes that need something specific
	{
		cfg := hist.Config{PageSize: 512, CommitFaults: true, Clients: true}
		h, err := hist.New(c, c.Rng.Fork(), cfg)
		if err != nil {
			if h != nil {
				h.Close()
			}
			return fmt.Errorf("history setup: %w", err)
		}
		for _, st := range []hist.Step{
			{Op: "rtx", Writes: map[uint32]uint64{1: 1, 2: 2, 3: 3, 4: 4}, NewSize: 4},
			{Op: "rtx", Writes: map[uint32]uint64{1: 11, 3: 13}, NewSize: 4, ForeignClose: true}, // another connection closes its handle mid-transaction
			{Op: "rtx", Writes: map[uint32]uint64{2: 22}, NewSize: 4, JMode: 1},
			{Op: "rtx", Writes: map[uint32]uint64{1: 31, 3: 30}, NewSize: 4}, // page 3 gets bytes 18..19 = 2,2 (content 30)
			{Op: "rtx", Writes: map[uint32]uint64{2: 42, 4: 44}, NewSize: 4, JMode: 2},
			{Op: "rtx", Writes: map[uint32]uint64{1: 51, 4: 56}, NewSize: 4, JMode: 2}, // page 4 gets 1,1 (content 56)
			{Op: "rtx", Writes: map[uint32]uint64{3: 63}, NewSize: 4},
			{Op: "rtx", Writes: map[uint32]uint64{2: 72, 4: 74}, NewSize: 4, Die: true}, // the writer dies; LiteFS rolls back
			{Op: "rtx", Writes: map[uint32]uint64{3: 83}, NewSize: 4},
			{Op: "rtx", Writes: map[uint32]uint64{2: 92, 3: 93, 4: 94}, NewSize: 4, JSplit: 2, JMode: 1}, // two journal segments
			{Op: "rtx", Writes: map[uint32]uint64{2: 102}, NewSize: 3, FailCommit: true},                 // commit refused, SQLite rolls back
			{Op: "rtx", Writes: map[uint32]uint64{1: 111}, NewSize: 4},
		} {
			if ob := h.Exec(st); ob.Panic != "" || len(ob.Exits) > 0 {
				break
			}
		}
		h.CheckCrash(c, "C02")
		h.CheckCapture(c, "C02", map[string]bool{"rtx": true, "lockonly": true})
		cf.Add(h.CoqCase(), map[string]any{"kind": "history", "page_size": cfg.PageSize, "scripted": "client behaviours", "steps": h.Steps})
		h.Close()
	}
	// a rollback-journal transaction on a database LiteFS tracks as WAL: SQLite leaves WAL mode by closing the log and then
	// rewriting page 1 with version 1 under a rollback journal (the header on disk still names WAL at that point)
	for _, jm := range []int{0, 1, 2} {
		cfg := hist.Config{PageSize: 512, AllowWAL: true}
		h, err := hist.New(c, c.Rng.Fork(), cfg)
		if err != nil {
			if h != nil {
				h.Close()
			}
			return fmt.Errorf("history setup: %w", err)
		}
		for _, st := range []hist.Step{
			{Op: "rtx", Writes: map[uint32]uint64{1: 1, 2: 2, 3: 3}, NewSize: 3, ToWAL: true},
			{Op: "wtx", Frames: [][2]uint64{{2, 12}, {4, 14}}, NewSize: 4},
			{Op: "torollbackj", JMode: jm},
			{Op: "rtx", Writes: map[uint32]uint64{2: 22, 5: 25}, NewSize: 5, JMode: jm},
			{Op: "rtx", Writes: map[uint32]uint64{1: 31}, NewSize: 5, ToWAL: true},
			{Op: "torollbackj", JMode: jm}, // straight back, nothing in the log
			{Op: "rtx", Writes: map[uint32]uint64{3: 43}, NewSize: 4, JMode: jm},
		} {
			if ob := h.Exec(st); ob.Panic != "" || len(ob.Exits) > 0 {
				break
			}
		}
		h.CheckCrash(c, "C02")
		h.CheckCapture(c, "C02", map[string]bool{"rtx": true, "lockonly": true, "torollbackj": true, "wtx": true})
		cf.Add(h.CoqCase(), map[string]any{"kind": "history", "page_size": cfg.PageSize, "scripted": "leaving WAL mode", "steps": h.Steps})
		h.Close()
	}
	// the transaction that would create the database is rolled back - before it wrote anything, and after a spill (SQLite
	// then cuts the file back to nothing) - in every journal mode; then the database is created after all
	for _, jm := range []int{0, 1, 2} {
		cfg := hist.Config{PageSize: []int{512, 4096, 1024}[jm]}
		h, err := hist.New(c, c.Rng.Fork(), cfg)
		if err != nil {
			if h != nil {
				h.Close()
			}
			return fmt.Errorf("history setup: %w", err)
		}
		for _, st := range []hist.Step{
			{Op: "rtx", Writes: map[uint32]uint64{1: 1, 2: 2, 3: 3}, NewSize: 3, JMode: jm, Outcome: 2},
			{Op: "rtx", Writes: map[uint32]uint64{1: 11, 2: 12}, NewSize: 2, JMode: jm, Outcome: 1},
			{Op: "rtx", Writes: map[uint32]uint64{1: 21, 2: 22, 3: 23, 4: 24}, NewSize: 4, JMode: jm, Outcome: 2, Spill: 2},
			{Op: "rtx", Writes: map[uint32]uint64{1: 31, 2: 32}, NewSize: 2, JMode: jm},
			{Op: "rtx", Writes: map[uint32]uint64{2: 42, 3: 43}, NewSize: 3, JMode: jm},
		} {
			if ob := h.Exec(st); ob.Panic != "" || len(ob.Exits) > 0 {
				break
			}
		}
		h.CheckCrash(c, "C02")
		h.CheckCapture(c, "C02", map[string]bool{"rtx": true, "lockonly": true})
		cf.Add(h.CoqCase(), map[string]any{"kind": "history", "page_size": cfg.PageSize, "scripted": "creating transaction rolled back", "steps": h.Steps})
		h.Close()
	}
	// a database that grows across pages SQLite never writes (free-list leaves), with restarts in between
	for _, ps := range []int{512, 65536} {
		cfg := hist.Config{PageSize: ps, AllowWAL: true}
		h, err := hist.New(c, c.Rng.Fork(), cfg)
		if err != nil {
			if h != nil {
				h.Close()
			}
			return fmt.Errorf("history setup: %w", err)
		}
		for _, st := range hist.UnwrittenGrowthSteps() {
			if ob := h.Exec(st); ob.Panic != "" || len(ob.Exits) > 0 {
				break
			}
		}
		h.CheckCrash(c, "C02")
		h.CheckCapture(c, "C02", map[string]bool{"rtx": true, "lockonly": true, "wtx": true})
		cf.Add(h.CoqCase(), map[string]any{"kind": "history", "page_size": cfg.PageSize, "scripted": "growth across unwritten pages", "steps": h.Steps})
		h.Close()
	}
	nHist := c.Pick(18, 160)
	for i := 0; i < nHist; i++ {
		cfg := cfgs[i%len(cfgs)]
		h, err := hist.New(c, c.Rng.Fork(), cfg)
		if err != nil {
			if h != nil {
				h.Close()
			}
			return fmt.Errorf("history setup: %w", err)
		}
		h.Run(c.Pick(25, 60))
		h.CheckCrash(c, "C02")
		h.CheckCapture(c, "C02", map[string]bool{"rtx": true, "lockonly": true})
		cf.Add(h.CoqCase(), map[string]any{"kind": "history", "page_size": cfg.PageSize, "regime": cfg.Regime, "steps": h.Steps})
		for _, ob := range h.Obs {
			c.Count("op_"+ob.Op, 1)
			if ob.Op == "rtx" {
				st := h.Steps[ob.Step]
				c.Count(fmt.Sprintf("rtx_jmode%d_outcome%d", st.JMode, st.Outcome), 1)
			}
		}
		if i == 0 && len(h.Steps) > 2 {
			c.Sample(map[string]any{"history_prefix": h.Steps[:3], "pager_ops_of_step_0": h.Pager.Steps})
		}
		h.Close()
	}
	return nil
}
