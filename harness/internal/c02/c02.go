// Package c02: rollback-journal commits captured exactly, once, in order.
package c02

import (
	"fmt"

	"lfsverif/internal/common"
	"lfsverif/internal/hist"
)

func Run(c *common.Ctx) error {
	cfgs := []hist.Config{
		{PageSize: 512, Regime: 0, AllowWAL: false, AllowDrop: true, Clients: true},
		{PageSize: 512, Regime: 1, AllowWAL: false, AllowDrop: false, CommitFaults: true},
		{PageSize: 512, Regime: 2, AllowWAL: false, AllowDrop: true},
		{PageSize: 4096, Regime: 0, AllowWAL: false, AllowDrop: true, CommitFaults: true},
		{PageSize: 1024, Regime: 1, AllowWAL: false, AllowDrop: false, Clients: true},
		{PageSize: 65536, Regime: 0, AllowWAL: false, AllowDrop: true},
	}
	if c.Thorough() {
		cfgs = append(cfgs, hist.Config{PageSize: 2048, Regime: 2}, hist.Config{PageSize: 8192, Regime: 1}, hist.Config{PageSize: 16384, Regime: 0, AllowDrop: true}, hist.Config{PageSize: 32768, Regime: 0})
	}
	cf := c.Cases("cases_c02", hist.CoqHeader, hist.CoqType, "mismatches")
	cf.Shard = 3
	nHist := c.Pick(18, 160)
	for i := 0; i < nHist; i++ {
		cfg := cfgs[i%len(cfgs)]
		h, err := hist.New(c, c.Rng.Fork(), cfg)
		if err != nil {
			if h != nil {
				h.Close()
			}
			return fmt.Errorf("history setup: %w", err)
		}
		h.Run(c.Pick(25, 60))
		h.CheckCrash(c, "C02")
		h.CheckCapture(c, "C02", map[string]bool{"rtx": true, "lockonly": true})
		cf.Add(h.CoqCase(), map[string]any{"kind": "history", "page_size": cfg.PageSize, "regime": cfg.Regime, "steps": h.Steps})
		for _, ob := range h.Obs {
			c.Count("op_"+ob.Op, 1)
			if ob.Op == "rtx" {
				st := h.Steps[ob.Step]
				c.Count(fmt.Sprintf("rtx_jmode%d_outcome%d", st.JMode, st.Outcome), 1)
			}
		}
		if i == 0 && len(h.Steps) > 2 {
			c.Sample(map[string]any{"history_prefix": h.Steps[:3], "pager_ops_of_step_0": h.Pager.Steps})
		}
		h.Close()
	}
	return nil
}
