package c13

import (
	"bytes"
	"context"
	"fmt"
	"io"
	"net/http"
	"os"
	"path/filepath"
	"strings"
	"sync"
	"time"

	"github.com/superfly/litefs"
	lfshttp "github.com/superfly/litefs/http"

	"lfsverif/internal/cluster"
	"lfsverif/internal/common"
	"lfsverif/internal/hist"
	"lfsverif/internal/lfs"
)

func commitOn(c *common.Ctx, r *common.Rand, n *cluster.Node, k int) error {
	h := hist.NewOn(c, r.Fork(), hist.Config{PageSize: 512}, n.Store, n.Exits, dbName, nil, 0, false)
	for done, tries := 0, 0; done < k; tries++ {
		if tries > 300 {
			return fmt.Errorf("only %d of %d commits", done, k)
		}
		st := h.GenStep()
		if st.Op != "rtx" {
			continue
		}
		st.Outcome, st.ToWAL = 0, false
		if ob := h.Exec(st); ob.Captured && ob.Err == "" {
			done++
		}
	}
	return nil
}

// primaryChange: the primary gives up its role while a replica holds the halt lock and never releases it. The
// lock still expires after its TTL (with the real TTL clock and the store's own monitor), the node can become primary
// again and write, and the former holder cannot publish.
func primaryChange(c *common.Ctx, r *common.Rand) error {
	dir, err := os.MkdirTemp(c.OutDir, "c13p-")
	if err != nil {
		return err
	}
	defer os.RemoveAll(dir)
	const ttl = 400 * time.Millisecond
	clu := cluster.New(dir, 3*time.Second)
	clu.Opts = func(name string, s *litefs.Store) {
		s.HaltAcquireTimeout = 250 * time.Millisecond
		s.HaltLockTTL = ttl
		s.HaltLockMonitorInterval = 40 * time.Millisecond
		s.DemoteDelay = 900 * time.Millisecond
	}
	defer clu.Close()
	p, err := clu.Start("p", true)
	if err != nil {
		return err
	}
	if clu.WaitPrimary(5*time.Second) == nil {
		return fmt.Errorf("no primary")
	}
	rn, err := clu.Start("r", false)
	if err != nil {
		return err
	}
	if err := commitOn(c, r, p, 2); err != nil {
		return err
	}
	pt, pc := pos(p)
	if !cluster.WaitPos(rn, dbName, pt, pc, 10*time.Second) {
		return fmt.Errorf("replica did not catch up")
	}
	pdb, rdb := p.Store.DB(dbName), rn.Store.DB(dbName)
	rep := map[string]any{"kind": "halt-primary-change", "ttl_ms": ttl.Milliseconds()}
	if _, err := rdb.AcquireRemoteHaltLock(context.Background(), 21); err != nil {
		return fmt.Errorf("halt: %v", err)
	}
	t0 := time.Now()
	p.Store.Demote()
	deadline := time.Now().Add(3 * time.Second)
	for p.Store.IsPrimary() && time.Now().Before(deadline) {
		time.Sleep(time.Millisecond)
	}
	c.Evaluations++
	c.Distinct("primary-change-while-halted")
	// the holder's commit is still on its way to the node that granted the lock: that node is not primary any more
	if !p.Store.IsPrimary() && pdb.VerifHaltLockID() == 21 {
		im, _ := lfs.ReadImage(filepath.Dir(pdb.DatabasePath()))
		if im != nil && len(im.Pages) > 0 {
			pt0, pc0 := pos(p)
			tgt := uint32(len(im.Pages))
			pg := lfs.MakePage(im.PageSize, tgt, 616161, tgt, false)
			nim := im.Clone()
			nim.Pages[tgt-1] = pg
			body := buildLTX(uint32(im.PageSize), tgt, pt0+1, pc0, nim.Checksum(), map[uint32][]byte{tgt: pg})
			req, _ := http.NewRequest("POST", fmt.Sprintf("%s/tx?name=%s&lockID=21", p.Server.URL(), dbName), bytes.NewReader(body))
			req.Header.Set(lfshttp.HeaderNodeID, litefs.FormatNodeID(rn.Store.ID()))
			code := 0
			if resp, err := http.DefaultClient.Do(req); err == nil {
				code = resp.StatusCode
				_, _ = io.Copy(io.Discard, resp.Body)
				resp.Body.Close()
			}
			pt1, pc1 := pos(p)
			c.Evaluations++
			if pt1 != pt0 || pc1 != pc0 || (code >= 200 && code < 300) {
				c.Violate("C13:primary-change:forward-to-former-primary", fmt.Sprintf("the node that granted the halt lock is no longer primary; a forwarded transaction from the holder was answered %d and moved it from (%d,%016x) to (%d,%016x)", code, pt0, pc0, pt1, pc1), rep)
				return nil
			}
		}
	}
	// the holder never releases; the lock is overdue at t0 + ttl at the latest
	for pdb.VerifHaltLockID() != 0 && time.Since(t0) < ttl+2*time.Second {
		time.Sleep(5 * time.Millisecond)
	}
	if id := pdb.VerifHaltLockID(); id != 0 {
		c.Violate("C13:primary-change:not-expired", fmt.Sprintf("halt lock %d (TTL %s) granted before the node gave up the primary role is still held %s after the grant", id, ttl, time.Since(t0).Round(10*time.Millisecond)), rep)
		return nil
	}
	// the node takes the role again (nobody else is a candidate) and writes
	deadline = time.Now().Add(6 * time.Second)
	for !p.Store.IsPrimary() && time.Now().Before(deadline) {
		time.Sleep(2 * time.Millisecond)
	}
	if !p.Store.IsPrimary() {
		c.Violate("C13:primary-change:no-primary", "after the halt lock expired the node does not become primary again", rep)
		return nil
	}
	if err := commitOn(c, r, p, 1); err != nil {
		c.Violate("C13:primary-change:cannot-write", "after the halt lock expired the primary cannot commit: "+err.Error(), rep)
		return nil
	}
	pt, pc = pos(p)
	if !cluster.WaitPos(rn, dbName, pt, pc, 8*time.Second) {
		rt, rc := pos(rn)
		c.Violate("C13:primary-change:converge", fmt.Sprintf("the former holder stays at (%d,%016x) while the primary is at (%d,%016x)", rt, rc, pt, pc), rep)
	}
	return nil
}

// repeatedAcquire: the same acquire request arrives twice (a retry of an interrupted call) while a local writer
// still holds the write lock, so both wait. Both are answered with the same lock.
func repeatedAcquire(c *common.Ctx, r *common.Rand) error {
	dir, err := os.MkdirTemp(c.OutDir, "c13q-")
	if err != nil {
		return err
	}
	defer os.RemoveAll(dir)
	clu := cluster.New(dir, 3*time.Second)
	clu.Opts = func(name string, s *litefs.Store) {
		s.HaltAcquireTimeout = 1500 * time.Millisecond
		s.HaltLockTTL = 5 * time.Minute
		s.HaltLockMonitorInterval = time.Hour
	}
	defer clu.Close()
	p, err := clu.Start("p", true)
	if err != nil {
		return err
	}
	if clu.WaitPrimary(5*time.Second) == nil {
		return fmt.Errorf("no primary")
	}
	if err := commitOn(c, r, p, 2); err != nil {
		return err
	}
	pdb := p.Store.DB(dbName)
	guard, err := pdb.AcquireWriteLock(context.Background(), nil)
	if err != nil {
		return err
	}
	type res struct {
		hl  *litefs.HaltLock
		err error
		d   time.Duration
	}
	out := make([]res, 2)
	var wg sync.WaitGroup
	for i := range out {
		wg.Add(1)
		go func(i int) {
			defer wg.Done()
			t := time.Now()
			hl, err := pdb.AcquireHaltLock(context.Background(), 31)
			out[i] = res{hl, err, time.Since(t)}
		}(i)
	}
	time.Sleep(80 * time.Millisecond)
	guard.Unlock()
	wg.Wait()
	c.Evaluations++
	c.Distinct("repeated-acquire-while-waiting")
	rep := map[string]any{"kind": "halt-repeated-acquire", "errors": []string{fmt.Sprint(out[0].err), fmt.Sprint(out[1].err)}}
	switch {
	case out[0].err != nil || out[1].err != nil:
		c.Violate("C13:repeated-acquire:refused", fmt.Sprintf("two acquire requests with the same lock id, both waiting for a local writer: answers %v (after %s) and %v (after %s); the same lock is expected twice", out[0].err, out[0].d.Round(time.Millisecond), out[1].err, out[1].d.Round(time.Millisecond)), rep)
	case out[0].hl.ID != out[1].hl.ID || out[0].hl.Pos != out[1].hl.Pos:
		c.Violate("C13:repeated-acquire:different", fmt.Sprintf("two acquire requests with the same lock id got different locks: %+v and %+v", *out[0].hl, *out[1].hl), rep)
	}
	if id := pdb.VerifHaltLockID(); id != 0 {
		pdb.ReleaseHaltLock(context.Background(), id)
	}
	// an acquire request that arrives while a local transaction is committing waits for it; the lock it is given
	// carries the position after that transaction - the position the holder starts writing from
	h := hist.NewOn(c, r.Fork(), hist.Config{PageSize: 512}, p.Store, p.Exits, dbName, nil, 0, false)
	if im, err := lfs.ReadImage(filepath.Dir(pdb.DatabasePath())); err == nil {
		h = hist.NewOn(c, r.Fork(), hist.Config{PageSize: im.PageSize}, p.Store, p.Exits, dbName, im, uint64(pdb.Pos().TXID), false)
	}
	var hl *litefs.HaltLock
	var herr error
	done := make(chan struct{})
	h.Pager.BeforeCommit = func() {
		h.Pager.BeforeCommit = nil
		go func() {
			defer close(done)
			hl, herr = pdb.AcquireHaltLock(context.Background(), 41)
		}()
		time.Sleep(60 * time.Millisecond) // the request is now waiting for the write lock
	}
	before := pdb.Pos()
	for tries := 0; tries < 300; tries++ {
		st := h.GenStep()
		if st.Op != "rtx" {
			continue
		}
		st.Outcome, st.ToWAL, st.Spill = 0, false, 0
		h.Exec(st)
		break
	}
	select {
	case <-done:
		c.Evaluations++
		c.Distinct("acquire-during-local-commit")
		after := pdb.Pos()
		rep2 := map[string]any{"kind": "halt-acquire-during-commit"}
		if herr == nil && after.TXID == before.TXID+1 && hl.Pos != after {
			c.Violate("C13:acquire-during-commit:position", fmt.Sprintf("a halt lock requested while a local transaction was committing (%s -> %s) was granted with position %s: the holder would start writing from there, not from the primary's position", before, after, hl.Pos), rep2)
		}
	case <-time.After(3 * time.Second):
	}
	if id := pdb.VerifHaltLockID(); id != 0 {
		pdb.ReleaseHaltLock(context.Background(), id)
	}
	return nil
}

// releaseDuringCommit: the holder gives the lock up (the lock file is closed by another thread, the wrapper exits) while
// one of its transactions is inside the commit. The commit either is forwarded and acknowledged, or fails; it is never
// published on the holder alone.
func releaseDuringCommit(c *common.Ctx, r *common.Rand) error {
	dir, err := os.MkdirTemp(c.OutDir, "c13r-")
	if err != nil {
		return err
	}
	defer os.RemoveAll(dir)
	clu := cluster.New(dir, 3*time.Second)
	clu.Opts = func(name string, s *litefs.Store) {
		s.HaltAcquireTimeout = 500 * time.Millisecond
		s.HaltLockTTL = 5 * time.Minute
		s.HaltLockMonitorInterval = time.Hour
	}
	defer clu.Close()
	p, err := clu.Start("p", true)
	if err != nil {
		return err
	}
	if clu.WaitPrimary(5*time.Second) == nil {
		return fmt.Errorf("no primary")
	}
	rn, err := clu.Start("r", false)
	if err != nil {
		return err
	}
	if err := commitOn(c, r, p, 2); err != nil {
		return err
	}
	pt, pc := pos(p)
	if !cluster.WaitPos(rn, dbName, pt, pc, 10*time.Second) {
		return fmt.Errorf("replica did not catch up")
	}
	rdb := rn.Store.DB(dbName)
	if _, err := rdb.AcquireRemoteHaltLock(context.Background(), 51); err != nil {
		return fmt.Errorf("halt: %v", err)
	}
	released := make(chan struct{})
	var once sync.Once
	rdb.Now = func() time.Time {
		// CommitJournal asks for the time after it has checked that the node may write and before it forwards
		once.Do(func() {
			go func() {
				defer close(released)
				_ = rdb.ReleaseRemoteHaltLock(context.Background(), 51)
			}()
			time.Sleep(80 * time.Millisecond)
		})
		return time.Now()
	}
	im, _ := lfs.ReadImage(filepath.Dir(rdb.DatabasePath()))
	h := hist.NewOn(c, r.Fork(), hist.Config{PageSize: 512}, rn.Store, rn.Exits, dbName, im, uint64(rdb.Pos().TXID), false)
	h.Pager.RollbackOnCommitError = true
	committed := false
	for tries := 0; tries < 300; tries++ {
		st := h.GenStep()
		if st.Op != "rtx" {
			continue
		}
		st.Outcome, st.ToWAL, st.Spill = 0, false, 0
		ob := h.Exec(st)
		committed = ob.Captured && ob.Err == "" && ob.Panic == ""
		break
	}
	select {
	case <-released:
	case <-time.After(5 * time.Second):
	}
	rdb.Now = time.Now
	c.Evaluations++
	c.Distinct("release-during-commit")
	rep := map[string]any{"kind": "halt-release-during-commit", "commit_returned_success": committed}
	rt, rc := pos(rn)
	pt2, pc2 := pos(p)
	if rt != pt2 || rc != pc2 {
		if committed {
			c.Violate("C13:release-during-commit:unacknowledged", fmt.Sprintf("the holder's commit returned success at (%d,%016x) while the lock was being given up; the primary is at (%d,%016x): the transaction was published on the holder alone", rt, rc, pt2, pc2), rep)
		} else if rt > pt2 {
			c.Violate("C13:release-during-commit:ahead", fmt.Sprintf("after a commit that failed during the release the holder is at (%d,%016x), ahead of the primary (%d,%016x)", rt, rc, pt2, pc2), rep)
		}
	}
	if id := p.Store.DB(dbName).VerifHaltLockID(); id != 0 {
		p.Store.DB(dbName).ReleaseHaltLock(context.Background(), id)
	}
	return nil
}

// acquireWhileBehind: the replica is one transaction behind the primary when it asks for the halt lock (its own write
// lock is busy for a moment, so the stream cannot apply). The grant names the primary's position; the replica catches up
// to it and is then the holder: it can write, its transaction is forwarded and acknowledged.
func acquireWhileBehind(c *common.Ctx, r *common.Rand) error {
	dir, err := os.MkdirTemp(c.OutDir, "c13b-")
	if err != nil {
		return err
	}
	defer os.RemoveAll(dir)
	clu := cluster.New(dir, 3*time.Second)
	clu.Opts = func(name string, s *litefs.Store) {
		s.HaltAcquireTimeout = 3 * time.Second
		s.HaltLockTTL = 5 * time.Minute
		s.HaltLockMonitorInterval = time.Hour
	}
	defer clu.Close()
	p, err := clu.Start("p", true)
	if err != nil {
		return err
	}
	if clu.WaitPrimary(5*time.Second) == nil {
		return fmt.Errorf("no primary")
	}
	rn, err := clu.Start("r", false)
	if err != nil {
		return err
	}
	if err := commitOn(c, r, p, 2); err != nil {
		return err
	}
	pt, pc := pos(p)
	if !cluster.WaitPos(rn, dbName, pt, pc, 10*time.Second) {
		return fmt.Errorf("replica did not catch up")
	}
	rdb, pdb := rn.Store.DB(dbName), p.Store.DB(dbName)
	guard, err := rdb.AcquireWriteLock(context.Background(), nil)
	if err != nil {
		return err
	}
	if err := commitOn(c, r, p, 1); err != nil {
		guard.Unlock()
		return err
	}
	pt, pc = pos(p)
	go func() {
		time.Sleep(250 * time.Millisecond)
		guard.Unlock()
	}()
	c.Evaluations++
	c.Distinct("acquire-while-behind")
	rep := map[string]any{"kind": "halt-acquire-while-behind"}
	hl, err := rdb.AcquireRemoteHaltLock(context.Background(), 61)
	defer func() {
		if id := pdb.VerifHaltLockID(); id != 0 {
			pdb.ReleaseHaltLock(context.Background(), id)
		}
	}()
	if err != nil {
		// refused: nobody holds anything afterwards
		if id := pdb.VerifHaltLockID(); id != 0 || rdb.HasRemoteHaltLock() {
			c.Violate("C13:acquire-while-behind:half", fmt.Sprintf("the request failed (%v) but the primary holds lock %d / the replica has a lock: %v", err, id, rdb.HasRemoteHaltLock()), rep)
		}
		return nil
	}
	rt, rc := pos(rn)
	{
		// the same on the model: the primary's history by checksum, R one transaction behind, lock 61
		infos, _ := lfs.ListLTX(filepath.Dir(pdb.DatabasePath()))
		setup := ""
		for i, f := range infos {
			if i > 0 {
				setup += "; "
			}
			setup += fmt.Sprint(f.Post)
		}
		holder := int64(0)
		if rdb.HasRemoteHaltLock() {
			holder = hl.ID
		}
		cf := c.Cases("cases_c13b", "Require Import LF.Model.Halt.\nLocal Open Scope N_scope.", "list N * nat * N * list N", "mismatches_behind")
		cf.Add(fmt.Sprintf("([%s], 1%%nat, 61, [1; %d; %d; %d; %d; %d; %d])", setup, pt, pc, rt, rc, pdb.VerifHaltLockID(), holder), rep)
	}
	if rt != pt || rc != pc {
		c.Violate("C13:acquire-while-behind:position", fmt.Sprintf("the halt lock was granted at (%d,%016x) and returned while the replica is at (%d,%016x)", pt, pc, rt, rc), rep)
		return nil
	}
	if !rdb.HasRemoteHaltLock() || !rdb.Writeable() || hl == nil {
		c.Violate("C13:acquire-while-behind:not-holder", fmt.Sprintf("the request for halt lock 61 returned success at the primary's position, the primary is halted for it (lock %d), but the replica does not hold it (has lock: %v, writeable: %v)", pdb.VerifHaltLockID(), rdb.HasRemoteHaltLock(), rdb.Writeable()), rep)
		return nil
	}
	im, _ := lfs.ReadImage(filepath.Dir(rdb.DatabasePath()))
	h := hist.NewOn(c, r.Fork(), hist.Config{PageSize: 512}, rn.Store, rn.Exits, dbName, im, uint64(rdb.Pos().TXID), false)
	ob := h.Exec(hist.Step{Op: "rtx", Writes: map[uint32]uint64{1: 616161}, NewSize: uint32(len(im.Pages))})
	rt, rc = pos(rn)
	pt2, pc2 := pos(p)
	c.Evaluations++
	if ob.Err != "" || !ob.Captured || rt != pt+1 || rt != pt2 || rc != pc2 {
		c.Violate("C13:acquire-while-behind:write", fmt.Sprintf("the holder's transaction: err=%q, holder at (%d,%016x), primary at (%d,%016x), lock granted at %d", ob.Err, rt, rc, pt2, pc2, pt), rep)
	}
	_ = rdb.ReleaseRemoteHaltLock(context.Background(), 61)
	return nil
}

// holderCommitsAfterTTL: the holder keeps the lock past its TTL (by the real clock: the primary's monitor drops the lock,
// the holder's own copy says it has run out) and then commits. "When the lock ... expires ... the former holder can no
// longer publish": the commit is refused, nothing moves on either node - in particular the holder does not publish the
// transaction on its own.
func holderCommitsAfterTTL(c *common.Ctx, r *common.Rand, jmode int) error {
	dir, err := os.MkdirTemp(c.OutDir, "c13t-")
	if err != nil {
		return err
	}
	defer os.RemoveAll(dir)
	const ttl = 300 * time.Millisecond
	clu := cluster.New(dir, 3*time.Second)
	clu.Opts = func(name string, s *litefs.Store) {
		s.HaltAcquireTimeout = 2 * time.Second
		s.HaltLockTTL = ttl
		s.HaltLockMonitorInterval = 30 * time.Millisecond
	}
	defer clu.Close()
	p, err := clu.Start("p", true)
	if err != nil {
		return err
	}
	if clu.WaitPrimary(5*time.Second) == nil {
		return fmt.Errorf("no primary")
	}
	rn, err := clu.Start("r", false)
	if err != nil {
		return err
	}
	if err := commitOn(c, r, p, 2); err != nil {
		return err
	}
	pt, pc := pos(p)
	if !cluster.WaitPos(rn, dbName, pt, pc, 10*time.Second) {
		return fmt.Errorf("replica did not catch up")
	}
	pdb, rdb := p.Store.DB(dbName), rn.Store.DB(dbName)
	if _, err := rdb.AcquireRemoteHaltLock(context.Background(), 91); err != nil {
		return fmt.Errorf("halt: %v", err)
	}
	deadline := time.Now().Add(ttl + 2*time.Second)
	for pdb.VerifHaltLockID() != 0 && time.Now().Before(deadline) {
		time.Sleep(5 * time.Millisecond)
	}
	time.Sleep(ttl / 2) // past the TTL on the holder's own clock as well
	c.Evaluations++
	c.Distinct(fmt.Sprintf("holder-commits-after-ttl:%d", jmode))
	rep := map[string]any{"kind": "halt-holder-commits-after-ttl", "ttl_ms": ttl.Milliseconds(), "journal_mode": jmode}
	if id := pdb.VerifHaltLockID(); id != 0 {
		c.Violate("C13:after-ttl:not-expired", fmt.Sprintf("halt lock %d (TTL %s) is still held on the primary well past its TTL", id, ttl), rep)
		return nil
	}
	rt0, rc0 := pos(rn)
	l0 := listLTX(rn)
	im, _ := lfs.ReadImage(filepath.Dir(rdb.DatabasePath()))
	h := hist.NewOn(c, r.Fork(), hist.Config{PageSize: 512}, rn.Store, rn.Exits, dbName, im, uint64(rdb.Pos().TXID), false)
	h.Pager.RollbackOnCommitError = true
	ob := h.Exec(hist.Step{Op: "rtx", Writes: map[uint32]uint64{2: 919191}, NewSize: uint32(len(im.Pages)), JMode: jmode})
	time.Sleep(50 * time.Millisecond)
	rt, rc := pos(rn)
	pt2, pc2 := pos(p)
	rep["commit_answer"] = ob.Err
	if pt2 != pt || pc2 != pc {
		c.Violate("C13:after-ttl:primary-moved", fmt.Sprintf("the lock had expired; the former holder's commit moved the primary from (%d,%016x) to (%d,%016x)", pt, pc, pt2, pc2), rep)
		return nil
	}
	if rt != rt0 || rc != rc0 || listLTX(rn) != l0 || (ob.Err == "" && ob.Panic == "") {
		c.Violate("C13:after-ttl:holder-published", fmt.Sprintf("the lock had expired (TTL %s) when the former holder committed: the commit answered %q, the holder went from (%d,%016x) to (%d,%016x), its log from [%s] to [%s]; the primary stays at (%d,%016x)", ttl, ob.Err, rt0, rc0, rt, rc, l0, listLTX(rn), pt2, pc2), rep)
		return nil
	}
	// the primary writes again and the former holder follows
	if err := commitOn(c, r, p, 1); err != nil {
		c.Violate("C13:after-ttl:primary-cannot-write", "after the lock expired the primary cannot commit: "+err.Error(), rep)
		return nil
	}
	pt, pc = pos(p)
	if !cluster.WaitPos(rn, dbName, pt, pc, 8*time.Second) {
		rt, rc = pos(rn)
		c.Violate("C13:after-ttl:converge", fmt.Sprintf("the former holder stays at (%d,%016x) while the primary is at (%d,%016x)", rt, rc, pt, pc), rep)
	}
	return nil
}

func listLTX(n *cluster.Node) string {
	ents, _ := os.ReadDir(n.Store.DB(dbName).LTXDir())
	s := ""
	for _, e := range ents {
		if strings.HasSuffix(e.Name(), ".ltx") { // a refused commit leaves its temporary file until the next one
			s += e.Name() + ","
		}
	}
	return s
}
