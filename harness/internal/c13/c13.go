// Package c13: write forwarding under a halt lock is exclusive, ordered and acknowledged.
// A primary P, the replica R that takes the halt lock (its HTTP client can lose responses and
// requests) and an observer replica O, all real stores with the real HTTP server and client.
package c13

import (
	"bytes"
	"context"
	"encoding/json"
	"fmt"
	"io"
	"net/http"
	"os"
	"path/filepath"
	"sort"
	"strings"
	"sync"
	"time"

	"github.com/superfly/litefs"
	lfshttp "github.com/superfly/litefs/http"
	"github.com/superfly/ltx"

	"lfsverif/internal/cluster"
	"lfsverif/internal/common"
	"lfsverif/internal/hist"
	"lfsverif/internal/lfs"
)

// faultClient wraps the real client of R.
type faultClient struct {
	inner *lfshttp.Client
	mu    sync.Mutex
	// one-shot faults
	loseAcquireResp bool
	loseCommitResp  bool
	dropRelease     bool
	// what really happened at the primary during the last call
	acquireGranted bool
	commitApplied  bool
	commitCalls    int
}

func (f *faultClient) AcquireHaltLock(ctx context.Context, primaryURL string, nodeID uint64, name string, lockID int64) (*litefs.HaltLock, error) {
	hl, err := f.inner.AcquireHaltLock(ctx, primaryURL, nodeID, name, lockID)
	f.mu.Lock()
	defer f.mu.Unlock()
	f.acquireGranted = err == nil
	if err == nil && f.loseAcquireResp {
		f.loseAcquireResp = false
		return nil, fmt.Errorf("injected: response to POST /halt lost")
	}
	return hl, err
}

func (f *faultClient) ReleaseHaltLock(ctx context.Context, primaryURL string, nodeID uint64, name string, lockID int64) error {
	f.mu.Lock()
	drop := f.dropRelease
	f.dropRelease = false
	f.mu.Unlock()
	if drop {
		return fmt.Errorf("injected: DELETE /halt lost")
	}
	return f.inner.ReleaseHaltLock(ctx, primaryURL, nodeID, name, lockID)
}

func (f *faultClient) Commit(ctx context.Context, primaryURL string, nodeID uint64, name string, lockID int64, r io.Reader) error {
	err := f.inner.Commit(ctx, primaryURL, nodeID, name, lockID, r)
	f.mu.Lock()
	defer f.mu.Unlock()
	f.commitCalls++
	if f.commitCalls == 1 {
		f.commitApplied = err == nil
	}
	if err == nil && f.loseCommitResp {
		f.loseCommitResp = false
		return fmt.Errorf("injected: response to POST /tx lost")
	}
	return err
}

func (f *faultClient) Stream(ctx context.Context, primaryURL string, nodeID uint64, posMap map[string]ltx.Pos, filter []string) (litefs.Stream, error) {
	return f.inner.Stream(ctx, primaryURL, nodeID, posMap, filter)
}

type event struct {
	Kind      string `json:"kind"` // grant localwrite checkpoint commit release expire foreign
	ID        int64  `json:"id,omitempty"`
	Delivered bool   `json:"delivered"`
	Post      uint64 `json:"post,omitempty"` // filled in from the run
	Wal       bool   `json:"wal,omitempty"`  // filled in from the run: the database is in WAL mode
}

func (e event) coq() string {
	switch e.Kind {
	case "grant":
		return fmt.Sprintf("EGrant %d %s", e.ID, common.CoqBool(e.Delivered))
	case "localwrite":
		return fmt.Sprintf("ELocalWrite %d", e.Post)
	case "checkpoint":
		return "ECheckpoint"
	case "commit":
		if e.Wal {
			return fmt.Sprintf("ECommitWal %d %s", e.Post, common.CoqBool(e.Delivered))
		}
		return fmt.Sprintf("ECommit %d %s", e.Post, common.CoqBool(e.Delivered))
	case "restart":
		return "ERestart"
	case "release":
		return fmt.Sprintf("ERelease %s", common.CoqBool(e.Delivered))
	case "expire":
		return "EExpire"
	case "foreign":
		return fmt.Sprintf("EForeign %d %d", e.ID, e.Post)
	case "handoff":
		return "EHandoff"
	}
	return "EExpire"
}

const dbName = "db"

type rig struct {
	c       *common.Ctx
	r       *common.Rand
	clu     *cluster.Cluster
	p, rn   *cluster.Node
	o       *cluster.Node
	fc      *faultClient
	content uint64
	wal     bool
	crash   string // copy of R's data directory taken the moment R called Exit
}

func pos(n *cluster.Node) (uint64, uint64) {
	if db := n.Store.DB(dbName); db != nil {
		p := db.Pos()
		return uint64(p.TXID), uint64(p.PostApplyChecksum)
	}
	return 0, 0
}

func (g *rig) fresh(n *cluster.Node) *hist.Runner {
	db := n.Store.DB(dbName)
	cur, _ := lfs.ReadImage(filepath.Dir(db.DatabasePath()))
	h := hist.NewOn(g.c, g.r.Fork(), hist.Config{PageSize: 512, AllowWAL: g.wal}, n.Store, n.Exits, dbName, cur, uint64(db.Pos().TXID), g.wal)
	h.Pager.RollbackOnCommitError = true
	if g.wal {
		// a connection that opens the database continues the log where it stands
		h.Pager.AttachWAL(uint32(g.r.U64()), uint32(g.r.U64()))
	}
	return h
}

// writeTx runs one committing transaction on node n: a rollback-journal transaction, or a WAL transaction if
// the database is in WAL mode. A WAL commit has no error path back to the writer (LiteFS captures it when the
// WAL write lock is released): it succeeded iff the node's position moved.
func (g *rig) writeTx(n *cluster.Node) (ok bool, errs string) {
	h := g.fresh(n)
	want := "rtx"
	if g.wal {
		want = "wtx"
	}
	for tries := 0; tries < 200; tries++ {
		st := h.GenStep()
		if st.Op != want {
			continue
		}
		st.Outcome = 0
		st.ToWAL = false
		st.Aborted = nil
		t0, _ := pos(n)
		ob := h.Exec(st)
		if g.wal {
			t1, _ := pos(n)
			return ob.Err == "" && ob.Panic == "" && t1 == t0+1 && len(ob.Exits) == 0, ob.Err + ob.Panic
		}
		return ob.Captured && ob.Err == "" && ob.Panic == "", ob.Err + ob.Panic
	}
	return false, "no step"
}

func copyTree(src, dst string) error {
	return filepath.Walk(src, func(p string, fi os.FileInfo, err error) error {
		if err != nil {
			return nil // files come and go while the node runs
		}
		rel, _ := filepath.Rel(src, p)
		if fi.IsDir() {
			return os.MkdirAll(filepath.Join(dst, rel), 0o755)
		}
		b, err := os.ReadFile(p)
		if err != nil {
			return nil
		}
		return os.WriteFile(filepath.Join(dst, rel), b, 0o644)
	})
}

// restartR: R's process dies (its data directory as it is now, or as it was when it called Exit) and starts again.
// Nothing is sent to the primary on the way down.
func (g *rig) restartR() error {
	dir := g.rn.Dir
	if g.crash == "" {
		g.crash = dir + ".crash"
		_ = os.RemoveAll(g.crash)
		if err := copyTree(dir, g.crash); err != nil {
			return err
		}
	}
	g.fc.mu.Lock()
	g.fc.dropRelease = true
	g.fc.mu.Unlock()
	g.rn.Stop()
	g.fc.mu.Lock()
	g.fc.dropRelease = false
	g.fc.mu.Unlock()
	if err := os.RemoveAll(dir); err != nil {
		return err
	}
	if err := os.Rename(g.crash, dir); err != nil {
		return err
	}
	g.crash = ""
	rn, err := g.clu.Start("r", false)
	if err != nil {
		return fmt.Errorf("restart of the replica: %w", err)
	}
	g.rn = rn
	// the restarted node is in service once it has found the primary
	deadline := time.Now().Add(5 * time.Second)
	for time.Now().Before(deadline) {
		if _, info := rn.Store.PrimaryInfo(); info != nil {
			return nil
		}
		time.Sleep(2 * time.Millisecond)
	}
	return fmt.Errorf("the restarted replica does not find the primary")
}

func buildLTX(ps uint32, commit uint32, txid uint64, pre, post uint64, pages map[uint32][]byte) []byte {
	var buf bytes.Buffer
	enc := ltx.NewEncoder(&buf)
	_ = enc.EncodeHeader(ltx.Header{Version: 1, PageSize: ps, Commit: commit, MinTXID: ltx.TXID(txid), MaxTXID: ltx.TXID(txid),
		Timestamp: time.Now().UnixMilli(), PreApplyChecksum: ltx.Checksum(pre), NodeID: 0x22})
	var pgs []int
	for pg := range pages {
		pgs = append(pgs, int(pg))
	}
	sort.Ints(pgs)
	for _, pg := range pgs {
		_ = enc.EncodePage(ltx.PageHeader{Pgno: uint32(pg)}, pages[uint32(pg)])
	}
	enc.SetPostApplyChecksum(ltx.Checksum(post))
	_ = enc.Close()
	return buf.Bytes()
}

func (g *rig) settle(fully bool) {
	// R follows the primary; so does O unless it is a former primary that still holds the halt lock it had granted
	// (it then waits for that lock: nothing to wait for here)
	deadline := time.Now().Add(5 * time.Second)
	for time.Now().Before(deadline) {
		pt, pc := pos(g.p)
		rt, rc := pos(g.rn)
		ot, oc := pos(g.o)
		oStuck := g.o.Store.DB(dbName) != nil && g.o.Store.DB(dbName).VerifHaltLockID() != 0
		if pt == rt && pc == rc && ((pt == ot && pc == oc) || oStuck) {
			return
		}
		time.Sleep(2 * time.Millisecond)
	}
}

func (g *rig) observe(code int) []uint64 {
	pt, pc := pos(g.p)
	rt, rc := pos(g.rn)
	ot, oc := pos(g.o)
	var rl uint64
	if hl := g.rn.Store.DB(dbName).RemoteHaltLock(); hl != nil {
		rl = uint64(hl.ID)
	}
	return []uint64{uint64(code), pt, pc, rt, rc, ot, oc, uint64(g.p.Store.DB(dbName).VerifHaltLockID()), rl, uint64(g.o.Store.DB(dbName).VerifHaltLockID())}
}

func history(c *common.Ctx, cf *common.CaseFile, r *common.Rand, idx int, script []event, wal bool) error {
	dir, err := os.MkdirTemp(c.OutDir, "c13-")
	if err != nil {
		return err
	}
	defer os.RemoveAll(dir)
	fc := &faultClient{inner: lfshttp.NewClient()}
	var crashMu sync.Mutex
	crashDir := ""
	clu := cluster.New(dir, 3*time.Second)
	clu.Opts = func(name string, s *litefs.Store) {
		s.HaltAcquireTimeout = 400 * time.Millisecond
		s.HaltLockTTL = 5 * time.Minute // expiry is an explicit event
		s.HaltLockMonitorInterval = time.Hour
		if name == "r" {
			s.Client = fc
			// a process that calls Exit is gone: keep its data directory as it is at that moment
			orig := s.Exit
			path := s.Path()
			s.Exit = func(code int) {
				crashMu.Lock()
				if crashDir == "" {
					d := path + ".crash"
					_ = os.RemoveAll(d)
					if copyTree(path, d) == nil {
						crashDir = d
					}
				}
				crashMu.Unlock()
				orig(code)
			}
		}
	}
	defer clu.Close()
	p, err := clu.Start("p", true)
	if err != nil {
		return err
	}
	if clu.WaitPrimary(5*time.Second) == nil {
		return fmt.Errorf("no primary")
	}
	rn, err := clu.Start("r", false)
	if err != nil {
		return err
	}
	o, err := clu.Start("o", true) // a candidate: the role can be handed to it
	if err != nil {
		return err
	}
	g := &rig{c: c, r: r, clu: clu, p: p, rn: rn, o: o, fc: fc, wal: wal}
	// setup history on the primary
	hp := hist.NewOn(c, r.Fork(), hist.Config{PageSize: 512, AllowWAL: wal}, p.Store, p.Exits, dbName, nil, 0, false)
	var setup []uint64
	nSetup := 2 + r.Intn(2)
	for i := 0; i < nSetup; i++ {
		want := "rtx"
		if wal && i >= 2 {
			want = "wtx"
		}
		for tries := 0; tries < 200; tries++ {
			st := hp.GenStep()
			if st.Op != want {
				continue
			}
			st.Outcome, st.ToWAL, st.Aborted = 0, wal && i == 1, nil
			if ob := hp.Exec(st); !ob.Captured || ob.Err != "" {
				return fmt.Errorf("setup commit: %s", ob.Err)
			}
			break
		}
		_, chk := pos(p)
		setup = append(setup, chk)
	}
	pt, pc := pos(p)
	if !cluster.WaitPos(rn, dbName, pt, pc, 10*time.Second) || !cluster.WaitPos(o, dbName, pt, pc, 10*time.Second) {
		return fmt.Errorf("replicas did not catch up")
	}
	pdb := p.Store.DB(dbName)
	rdb := func() *litefs.DB { return g.rn.Store.DB(dbName) }
	rep := map[string]any{"kind": "halt-history", "index": idx, "seed": c.Seed, "wal": wal}
	key := func(k string) string { return "C13:" + k }

	var evs []event
	var obs [][]uint64
	gen := script == nil
	n := 10 + r.Intn(10)
	if !gen {
		n = len(script)
	}
	pendingRelease := false
	for i := 0; i < n; i++ {
		var e event
		if !gen {
			e = script[i]
		} else if pendingRelease {
			e = event{Kind: "release", Delivered: true}
			pendingRelease = false
		} else {
			held := rdb().HasRemoteHaltLock()
			x := r.Intn(100)
			switch {
			case x < 22:
				e = event{Kind: "grant", ID: int64(11 + r.Intn(2)), Delivered: !r.Chance(20)}
			case x < 40:
				e = event{Kind: "localwrite"}
			case x < 46:
				e = event{Kind: "checkpoint"}
			case x < 72:
				e = event{Kind: "commit", Delivered: !r.Chance(15)}
			case x < 84:
				if !held {
					e = event{Kind: "commit", Delivered: true}
				} else {
					e = event{Kind: "release", Delivered: !r.Chance(25)}
				}
			case x < 89:
				e = event{Kind: "expire"}
			case x < 92:
				e = event{Kind: "restart"}
			case x < 95:
				e = event{Kind: "handoff"}
			default:
				e = event{Kind: "foreign", ID: int64(11 + r.Intn(3))}
			}
		}
		haltBefore := pdb.VerifHaltLockID()
		ptB, pcB := pos(p)
		code := 0
		switch e.Kind {
		case "grant":
			fc.mu.Lock()
			fc.loseAcquireResp, fc.acquireGranted = !e.Delivered, false
			fc.mu.Unlock()
			hl, err := rdb().AcquireRemoteHaltLock(context.Background(), e.ID)
			fc.mu.Lock()
			granted := fc.acquireGranted
			fc.loseAcquireResp = false
			fc.mu.Unlock()
			switch {
			case err == nil:
				code = 1
				rt, rc := pos(g.rn)
				pt, pc := pos(p)
				if uint64(hl.Pos.TXID) != rt || uint64(hl.Pos.PostApplyChecksum) != rc || rt != pt || rc != pc {
					c.Violate(key("grant:position"), fmt.Sprintf("halt lock %d granted at (%d,%016x) but the replica starts writing at (%d,%016x) with the primary at (%d,%016x)", e.ID, uint64(hl.Pos.TXID), uint64(hl.Pos.PostApplyChecksum), rt, rc, pt, pc), rep)
				}
			case granted && !e.Delivered:
				code = 4
			}
		case "localwrite":
			lfs.BusyTimeout = 3 * time.Second
			if haltBefore != 0 {
				lfs.BusyTimeout = 40 * time.Millisecond
			}
			ok, _ := g.writeTx(p)
			lfs.BusyTimeout = 3 * time.Second
			if ok {
				code = 1
				_, e.Post = pos(p)
				if haltBefore != 0 && pdb.VerifHaltLockID() == haltBefore {
					c.Violate(key("exclusive:local-write"), fmt.Sprintf("the primary committed a local transaction while halt lock %d was held", haltBefore), rep)
				}
			}
		case "checkpoint":
			cctx, cancel := context.WithTimeout(context.Background(), 40*time.Millisecond)
			if haltBefore == 0 {
				cctx, cancel = context.WithTimeout(context.Background(), 3*time.Second)
			}
			err := pdb.Checkpoint(cctx)
			cancel()
			if err == nil {
				code = 1
				if haltBefore != 0 && pdb.VerifHaltLockID() == haltBefore {
					c.Violate(key("exclusive:checkpoint"), fmt.Sprintf("the primary ran a checkpoint while halt lock %d was held", haltBefore), rep)
				}
			}
		case "commit":
			fc.mu.Lock()
			fc.loseCommitResp, fc.commitApplied, fc.commitCalls = !e.Delivered, false, 0
			fc.mu.Unlock()
			held := rdb().HasRemoteHaltLock()
			lfs.BusyTimeout = 100 * time.Millisecond
			ok, errs := g.writeTx(g.rn)
			lfs.BusyTimeout = 3 * time.Second
			fc.mu.Lock()
			applied := fc.commitApplied
			fc.loseCommitResp = false
			fc.mu.Unlock()
			switch {
			case ok:
				code = 1
				_, e.Post = pos(g.rn)
				rt, rc := pos(g.rn)
				pt, pc := pos(p)
				if rt != pt || rc != pc {
					c.Violate(key("acknowledged"), fmt.Sprintf("the replica's commit returned at (%d,%016x) but the primary is at (%d,%016x)", rt, rc, pt, pc), rep)
				}
				if !held {
					c.Violate(key("replica-write-without-lock"), "a replica that holds no halt lock committed a transaction", rep)
				}
			case applied:
				code = 2
				_, e.Post = pos(p)
			}
			e.Wal = wal
			crashMu.Lock()
			g.crash, crashDir = crashDir, ""
			crashMu.Unlock()
			if ex := g.rn.Exits(); len(ex) > 0 {
				// WAL mode: a forwarded commit that fails cannot be rolled back (SQLite has finished writing), so
				// CommitWAL stops the node; the node starts again from what is on disk
				if !wal || ok {
					c.Violate(key("exit"), fmt.Sprintf("the replica called Exit(%v) during a commit (wal=%v, committed=%v)", ex, wal, ok), rep)
					break
				}
				if err := g.restartR(); err != nil {
					c.Violate(key("restart-after-failed-wal-commit"), "the replica stopped itself after a failed forwarded WAL commit and cannot start again: "+err.Error(), rep)
					break
				}
				c.Count("wal_commit_failstop_restarts", 1)
			} else if wal && !ok && held && code != 0 {
				c.Violate(key("wal-commit-lost"), "the forwarded WAL commit was applied on the primary, the replica did not take it and keeps running", rep)
			}
			g.crash = ""
			if !ok && held && rdb() != nil && rdb().HasRemoteHaltLock() {
				pendingRelease = true // the application gives up and lets go of the lock
			}
			_ = errs
		case "release":
			if hl := rdb().RemoteHaltLock(); hl != nil {
				fc.mu.Lock()
				fc.dropRelease = !e.Delivered
				fc.mu.Unlock()
				_ = rdb().ReleaseRemoteHaltLock(context.Background(), hl.ID)
				fc.mu.Lock()
				fc.dropRelease = false
				fc.mu.Unlock()
				code = 1
			}
		case "restart":
			if err := g.restartR(); err != nil {
				c.Violate(key("restart"), "the replica cannot start again on its data directory: "+err.Error(), rep)
				break
			}
			code = 1
		case "expire":
			for _, nd := range []*cluster.Node{g.p, g.o} {
				nd.Store.DB(dbName).VerifExpireHaltLock()
				nd.Store.EnforceHaltLockExpiration(context.Background())
			}
			code = 1
		case "handoff":
			// the primary hands its role to the other candidate; a former primary that still holds the halt lock it had
			// granted is not connected (it waits for that lock before it takes up the replica role) and cannot be the target
			hctx, cancel := context.WithTimeout(context.Background(), 6*time.Second)
			err := g.p.Store.Handoff(hctx, g.o.Store.ID())
			cancel()
			if err != nil {
				break
			}
			deadline := time.Now().Add(5 * time.Second)
			for time.Now().Before(deadline) {
				_, info := g.rn.Store.PrimaryInfo()
				if g.o.Store.IsPrimary() && !g.p.Store.IsPrimary() && info != nil && info.AdvertiseURL == g.o.Server.URL() {
					break
				}
				time.Sleep(2 * time.Millisecond)
			}
			if !g.o.Store.IsPrimary() {
				c.Violate(key("handoff:no-primary"), "the role was handed over and the target did not become primary", rep)
				return nil
			}
			g.p, g.o = g.o, g.p
			p, o = g.p, g.o
			pdb = p.Store.DB(dbName)
			ptB, pcB = pos(p)
			code = 1
		case "foreign":
			im, err := lfs.ReadImage(filepath.Dir(pdb.DatabasePath()))
			if err != nil || len(im.Pages) == 0 {
				return fmt.Errorf("read primary image: %v", err)
			}
			nim := im.Clone()
			pg := uint32(len(nim.Pages))
			g.content++
			data := lfs.MakePage(im.PageSize, pg, 0x77000000+g.content+uint64(idx)<<16, uint32(len(nim.Pages)), wal)
			nim.Pages[pg-1] = data
			e.Post = nim.Checksum()
			body := buildLTX(uint32(im.PageSize), uint32(len(nim.Pages)), ptB+1, pcB, e.Post, map[uint32][]byte{pg: data})
			req, _ := http.NewRequest("POST", fmt.Sprintf("%s/tx?name=%s&lockID=%d", p.Server.URL(), dbName, e.ID), bytes.NewReader(body))
			req.Header.Set(lfshttp.HeaderNodeID, litefs.FormatNodeID(0x22))
			resp, err := http.DefaultClient.Do(req)
			if err == nil {
				_, _ = io.Copy(io.Discard, resp.Body)
				resp.Body.Close()
				if resp.StatusCode == 200 {
					code = 1
					if haltBefore != e.ID {
						c.Violate(key("holder-only"), fmt.Sprintf("the primary applied a forwarded transaction sent with lock id %d while the halt lock was %d", e.ID, haltBefore), rep)
					}
				}
			}
			if code == 0 {
				e.Post = 0
			}
		}
		ptA, pcA := pos(p)
		if (ptA != ptB || pcA != pcB) && code == 0 {
			c.Violate(key("refused-but-changed:"+e.Kind), fmt.Sprintf("%s was refused but the primary moved from (%d,%016x) to (%d,%016x)", e.Kind, ptB, pcB, ptA, pcA), rep)
		}
		if ptA != ptB && ptA != ptB+1 {
			c.Violate(key("ordered"), fmt.Sprintf("one %s event moved the primary from transaction %d to %d", e.Kind, ptB, ptA), rep)
		}
		g.settle(true)
		// nothing a node did not publish is in its log: the newest transaction file is the node's position
		for _, nd := range []*cluster.Node{g.p, g.rn, g.o} {
			infos, _ := lfs.ListLTX(filepath.Join(nd.Dir, "dbs", dbName))
			if len(infos) == 0 {
				continue
			}
			last := infos[len(infos)-1]
			nt, nc := pos(nd)
			if last.Max > nt || (last.Max == nt && last.Valid && last.Post != nc) {
				c.Violate(key("log-beyond-position:"+nd.Name), fmt.Sprintf("after %s node %s is at (%d,%016x) but its log ends with %s (%d-%d, post %016x): a transaction that was not published is in the log and would be replayed at the next restart", e.Kind, nd.Name, nt, nc, last.Name, last.Min, last.Max, last.Post), rep)
			}
		}
		evs = append(evs, e)
		obs = append(obs, g.observe(code))
		c.Evaluations++
		c.Count("ev_"+e.Kind+fmt.Sprintf("_%d", code), 1)
		if ex := append(append(p.Exits(), g.rn.Exits()...), o.Exits()...); len(ex) > 0 {
			c.Violate(key("exit"), fmt.Sprintf("a node called Exit(%v) during %s", ex, e.Kind), rep)
			break
		}
	}
	// wind down: release everything, one more local write, everybody converges on the same image
	if hl := rdb().RemoteHaltLock(); hl != nil {
		_ = rdb().ReleaseRemoteHaltLock(context.Background(), hl.ID)
	}
	for _, nd := range []*cluster.Node{g.p, g.o} {
		if id := nd.Store.DB(dbName).VerifHaltLockID(); id != 0 {
			nd.Store.DB(dbName).ReleaseHaltLock(context.Background(), id)
		}
	}
	if ok, errs := g.writeTx(p); !ok {
		c.Violate(key("after-release:primary-cannot-write"), "after every halt lock was released the primary cannot commit: "+errs, rep)
	}
	pt, pc = pos(p)
	for _, nd := range []*cluster.Node{g.rn, o} {
		if !cluster.WaitPos(nd, dbName, pt, pc, 5*time.Second) {
			t, ck := pos(nd)
			var ls []string
			ndb := nd.Store.DB(dbName)
			for _, lt := range []litefs.LockType{litefs.LockTypePending, litefs.LockTypeShared, litefs.LockTypeReserved, litefs.LockTypeWrite, litefs.LockTypeCkpt, litefs.LockTypeRecover,
				litefs.LockTypeRead0, litefs.LockTypeRead1, litefs.LockTypeRead2, litefs.LockTypeRead3, litefs.LockTypeRead4, litefs.LockTypeDMS} {
				ls = append(ls, fmt.Sprint(int(ndb.VerifLockState(lt))))
			}
			_, jerr := os.Stat(ndb.JournalPath())
			rep["stuck"] = fmt.Sprintf("locks=%s remote-halt=%v journal-present=%v primary-halt=%d", strings.Join(ls, ""), ndb.HasRemoteHaltLock(), jerr == nil, pdb.VerifHaltLockID())
			c.Violate(key("converge:"+nd.Name), fmt.Sprintf("replica %s stays at (%d,%016x) while the primary is at (%d,%016x) after the halt history (%s)", nd.Name, t, ck, pt, pc, rep["stuck"]), rep)
		} else if a, err1 := lfs.ReadImage(filepath.Join(nd.Dir, "dbs", dbName)); err1 == nil {
			b, _ := lfs.ReadImage(filepath.Join(p.Dir, "dbs", dbName))
			if eq, why := a.Equal(b); !eq {
				c.Violate(key("converge-image:"+nd.Name), "replica "+nd.Name+" reports the primary's position with a different image: "+why, rep)
			}
		}
	}
	rep["events"] = evs
	var evTerms, obTerms []string
	for i := range evs {
		evTerms = append(evTerms, evs[i].coq())
		obTerms = append(obTerms, common.CoqNList(obs[i]))
	}
	cf.Add(fmt.Sprintf("(%s, [%s], [%s])", common.CoqNList(setup), strings.Join(evTerms, "; "), strings.Join(obTerms, "; ")), rep)
	c.Distinct(fmt.Sprintf("h%d", idx))
	if idx == 0 {
		c.Sample(map[string]any{"events": evs, "observations": obs})
	}
	return nil
}

func Run(c *common.Ctx) error {
	cf := c.Cases("cases_c13", "Require Import LF.Model.Halt.\nLocal Open Scope N_scope.", "list N * list ev * list (list N)", "mismatches")
	cf.Shard = 40
	// fixed scripts first: the schedules the property names
	scripts := [][]event{
		{{Kind: "grant", ID: 11, Delivered: true}, {Kind: "localwrite"}, {Kind: "checkpoint"}, {Kind: "commit", Delivered: true}, {Kind: "commit", Delivered: true}, {Kind: "release", Delivered: true}, {Kind: "localwrite"}, {Kind: "commit", Delivered: true}},
		{{Kind: "grant", ID: 11, Delivered: false}, {Kind: "grant", ID: 11, Delivered: true}, {Kind: "commit", Delivered: true}, {Kind: "grant", ID: 11, Delivered: true}, {Kind: "release", Delivered: true}},
		{{Kind: "grant", ID: 11, Delivered: true}, {Kind: "commit", Delivered: false}, {Kind: "release", Delivered: true}, {Kind: "localwrite"}},
		{{Kind: "grant", ID: 11, Delivered: true}, {Kind: "expire"}, {Kind: "commit", Delivered: true}, {Kind: "release", Delivered: true}, {Kind: "localwrite"}, {Kind: "commit", Delivered: true}},
		{{Kind: "grant", ID: 11, Delivered: true}, {Kind: "release", Delivered: false}, {Kind: "localwrite"}, {Kind: "grant", ID: 12, Delivered: true}, {Kind: "expire"}, {Kind: "localwrite"}, {Kind: "grant", ID: 12, Delivered: true}, {Kind: "commit", Delivered: true}},
		{{Kind: "grant", ID: 11, Delivered: true}, {Kind: "foreign", ID: 12}, {Kind: "foreign", ID: 11}, {Kind: "commit", Delivered: true}, {Kind: "release", Delivered: true}},
		{{Kind: "foreign", ID: 11}, {Kind: "commit", Delivered: true}, {Kind: "grant", ID: 0, Delivered: true}, {Kind: "localwrite"}},
		{{Kind: "grant", ID: 11, Delivered: true}, {Kind: "commit", Delivered: true}, {Kind: "restart"}, {Kind: "commit", Delivered: true}, {Kind: "localwrite"}, {Kind: "expire"}, {Kind: "localwrite"}, {Kind: "grant", ID: 12, Delivered: true}, {Kind: "commit", Delivered: true}, {Kind: "release", Delivered: true}},
	}
	// primary change while a halt is held: the former holder cannot publish, the new primary writes, the former primary
	// follows again once the lock it had granted has expired; a hand-over back to it is refused until then
	scripts = append(scripts,
		[]event{{Kind: "grant", ID: 11, Delivered: true}, {Kind: "commit", Delivered: true}, {Kind: "handoff"}, {Kind: "commit", Delivered: true}, {Kind: "localwrite"}, {Kind: "handoff"}, {Kind: "expire"}, {Kind: "handoff"}, {Kind: "localwrite"}, {Kind: "grant", ID: 12, Delivered: true}, {Kind: "commit", Delivered: true}, {Kind: "release", Delivered: true}},
		[]event{{Kind: "localwrite"}, {Kind: "handoff"}, {Kind: "grant", ID: 11, Delivered: true}, {Kind: "commit", Delivered: true}, {Kind: "handoff"}, {Kind: "foreign", ID: 11}, {Kind: "grant", ID: 11, Delivered: true}, {Kind: "commit", Delivered: false}, {Kind: "expire"}, {Kind: "localwrite"}},
	)
	// a release that names a lock which is not the current one (the holder's lock expired, the primary granted another
	// one whose answer was lost) leaves the current lock alone
	scripts = append(scripts, []event{{Kind: "grant", ID: 11, Delivered: true}, {Kind: "expire"}, {Kind: "grant", ID: 12, Delivered: false}, {Kind: "release", Delivered: true}, {Kind: "localwrite"}, {Kind: "expire"}, {Kind: "localwrite"}})
	// the holder asks for its own lock again after it has committed under it: the lock's position is the one of the first
	// grant, which the holder has left behind - the request fails, the lock is given back (at the primary and on the holder,
	// whose log is checkpointed as at any release), and everybody follows the primary's next transaction
	scripts = append(scripts, []event{{Kind: "grant", ID: 11, Delivered: true}, {Kind: "commit", Delivered: true}, {Kind: "commit", Delivered: true}, {Kind: "grant", ID: 11, Delivered: true}, {Kind: "commit", Delivered: true}, {Kind: "localwrite"}, {Kind: "localwrite"}})
	if c.Replay != "" {
		b, err := os.ReadFile(c.Replay)
		if err != nil {
			return err
		}
		var doc struct {
			Events []event `json:"events"`
			Wal    bool    `json:"wal"`
			Replay struct {
				Events []event `json:"events"`
				Wal    bool    `json:"wal"`
			} `json:"replay"`
		}
		if err := json.Unmarshal(b, &doc); err != nil {
			return err
		}
		evs := doc.Events
		if len(evs) == 0 {
			evs = doc.Replay.Events
		}
		return history(c, cf, c.Rng.Fork(), 0, evs, doc.Wal || doc.Replay.Wal)
	}
	if err := primaryChange(c, c.Rng.Fork()); err != nil {
		return err
	}
	if err := repeatedAcquire(c, c.Rng.Fork()); err != nil {
		return err
	}
	if err := releaseDuringCommit(c, c.Rng.Fork()); err != nil {
		return err
	}
	if err := acquireWhileBehind(c, c.Rng.Fork()); err != nil {
		return err
	}
	for jm := 0; jm < 2; jm++ {
		if err := holderCommitsAfterTTL(c, c.Rng.Fork(), jm); err != nil {
			return err
		}
	}
	idx := 0
	// every fixed script in both journal modes
	for _, wal := range []bool{false, true} {
		for _, s := range scripts {
			if err := history(c, cf, c.Rng.Fork(), idx, s, wal); err != nil {
				return err
			}
			idx++
		}
	}
	for i := 0; i < c.Pick(8, 80); i++ {
		if err := history(c, cf, c.Rng.Fork(), idx, nil, i%2 == 1); err != nil {
			return err
		}
		idx++
	}
	return nil
}
