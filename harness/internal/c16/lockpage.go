package c16

import (
	"bytes"
	"encoding/binary"
	"fmt"
	"io"
	"os"

	lfshttp "github.com/superfly/litefs/http"

	"lfsverif/internal/cluster"
	"lfsverif/internal/common"
	"lfsverif/internal/lfs"

	"time"
)

// pageStream produces the pages of an n-page image one at a time (nothing the size of the image is held in memory).
type pageStream struct {
	ps, n int
	seed  uint64
	next  int
	cur   []byte
	// sparse: only the pages around the interesting offsets (start, lock page, 4 GiB, end) carry content, the rest is zero
	sparse bool
	zero   []byte
}

func (s *pageStream) interesting(p int) bool {
	lock := int(lfs.LockPgno(s.ps))
	four := int((int64(1)<<32)/int64(s.ps)) + 1 // the first page at a byte offset of 2^32
	near := func(x int) bool { return p >= x-2 && p <= x+2 }
	return p <= 3 || near(lock) || near(four) || p >= s.n-1
}

func (s *pageStream) page(p int) []byte {
	if s.sparse && !s.interesting(p) {
		if s.zero == nil {
			s.zero = make([]byte, s.ps)
		}
		return s.zero
	}
	pg := lfs.MakePage(s.ps, uint32(p), s.seed+uint64(p), uint32(s.n), false)
	if p == 1 {
		binary.BigEndian.PutUint32(pg[24:], 0)
		binary.BigEndian.PutUint32(pg[40:], 0)
	}
	return pg
}

func (s *pageStream) Read(b []byte) (int, error) {
	if len(s.cur) == 0 {
		if s.next >= s.n {
			return 0, io.EOF
		}
		s.next++
		s.cur = s.page(s.next)
	}
	k := copy(b, s.cur)
	s.cur = s.cur[k:]
	return k, nil
}

// lockPageImport: an image that extends past SQLite's lock page (the page holding byte offset 1 GiB). The lock page is
// skipped by every reader and writer; all other pages, on both sides of it, come back from export exactly as imported.
func lockPageImport(c *common.Ctx, r *common.Rand) error {
	if err := bigImport(c, r, int(lfs.LockPgno(65536))+2, false, "lock-page"); err != nil {
		return err
	}
	// ... and past 4 GiB (page offsets that do not fit 32 bits), mostly zero pages
	return bigImport(c, r, 65536+3, true, "past-4GiB")
}

func bigImport(c *common.Ctx, r *common.Rand, n int, sparse bool, what string) error {
	dir, err := os.MkdirTemp(c.OutDir, "c16l-")
	if err != nil {
		return err
	}
	defer os.RemoveAll(dir)
	clu := cluster.New(dir, 2*time.Second)
	defer clu.Close()
	p, err := clu.Start("p", true)
	if err != nil {
		return err
	}
	if clu.WaitPrimary(5*time.Second) == nil {
		return fmt.Errorf("no primary")
	}
	const ps = 65536
	lock := int(lfs.LockPgno(ps))
	seed := r.U64()
	rep := map[string]any{"kind": "import-lock-page", "page_size": ps, "pages": n, "lock_page": lock}
	c.Evaluations++
	c.Distinct("import:" + what)
	if err := lfshttp.NewClient().Import(bg, p.Server.URL(), "big", &pageStream{ps: ps, n: n, seed: seed, sparse: sparse}); err != nil {
		c.Violate("C16:lock-page:import", fmt.Sprintf("import of a %d-page image with %d-byte pages (lock page %d) failed: %v", n, ps, lock, err), rep)
		return nil
	}
	if ex := p.Exits(); len(ex) > 0 {
		c.Violate("C16:lock-page:exit", fmt.Sprintf("the import made the primary call Exit(%v)", ex), rep)
		return nil
	}
	rc, err := lfshttp.NewClient().Export(bg, p.Server.URL(), "big")
	if err != nil {
		c.Violate("C16:lock-page:export", "export after the import failed: "+err.Error(), rep)
		return nil
	}
	defer rc.Close()
	want := &pageStream{ps: ps, n: n, seed: seed, sparse: sparse}
	buf := make([]byte, ps)
	for pg := 1; pg <= n; pg++ {
		if _, err := io.ReadFull(rc, buf); err != nil {
			c.Violate("C16:lock-page:short", fmt.Sprintf("export ends at page %d of %d: %v", pg, n, err), rep)
			return nil
		}
		if pg == lock {
			continue // never read by SQLite
		}
		if !bytes.Equal(buf, want.page(pg)) {
			c.Violate("C16:lock-page:differs", fmt.Sprintf("exported page %d (byte offset %d) differs from the imported one (lock page is %d, %d pages of %d bytes)", pg, int64(pg-1)*ps, lock, n, ps), rep)
			return nil
		}
	}
	if k, _ := io.ReadFull(rc, buf[:1]); k != 0 {
		c.Violate("C16:lock-page:long", "export returns more pages than were imported", rep)
	}
	return nil
}
