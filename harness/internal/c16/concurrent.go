package c16

import (
	"bytes"
	"context"
	"fmt"
	"os"
	"time"

	"lfsverif/internal/common"
	"lfsverif/internal/hist"
	"lfsverif/internal/lfs"
)

type hookWriter struct {
	buf   bytes.Buffer
	after int
	n     int
	fn    func()
}

func (w *hookWriter) Write(p []byte) (int, error) {
	w.n++
	if w.n == w.after && w.fn != nil {
		fn := w.fn
		w.fn = nil
		fn()
	}
	return w.buf.Write(p)
}

// exportDuringCommit: two requests at once - an export is delivering pages while an application connection commits a
// WAL transaction that touches a page the export has not delivered yet. The export is the committed image of the
// position it reports: the one before that commit.
func exportDuringCommit(c *common.Ctx, r *common.Rand) error {
	dir, err := os.MkdirTemp(c.OutDir, "c16x-")
	if err != nil {
		return err
	}
	defer os.RemoveAll(dir)
	n, err := lfs.Open(dir, true)
	if err != nil {
		return err
	}
	defer n.Close()
	const ps = 512
	h := hist.NewOn(c, r.Fork(), hist.Config{PageSize: ps, AllowWAL: true}, n.Store, n.Exits, "db", nil, 0, false)
	type posT struct{ txid, chk uint64 }
	images := map[posT]*lfs.Image{}
	step := func(st hist.Step) error {
		if ob := h.Exec(st); ob.Err != "" || ob.Panic != "" {
			return fmt.Errorf("%s: %s%s", st.Op, ob.Err, ob.Panic)
		}
		q := n.Store.DB("db").Pos()
		images[posT{uint64(q.TXID), uint64(q.PostApplyChecksum)}] = h.Ref.Clone()
		return nil
	}
	for _, st := range []hist.Step{
		{Op: "rtx", Writes: map[uint32]uint64{1: 1, 2: 2, 3: 3, 4: 4, 5: 5, 6: 6}, NewSize: 6, ToWAL: true},
		{Op: "wtx", Frames: [][2]uint64{{2, 12}}, NewSize: 6},
	} {
		if err := step(st); err != nil {
			return err
		}
	}
	db := n.Store.DB("db")
	for round, after := range []int{1, 3, 4} {
		hw := &hookWriter{after: after}
		var cerr error
		hw.fn = func() {
			lfs.BusyTimeout = 200 * time.Millisecond
			cerr = step(hist.Step{Op: "wtx", Frames: [][2]uint64{{5, uint64(100 + round)}, {uint64(after + 1), uint64(200 + round)}}, NewSize: 6})
			lfs.BusyTimeout = 3 * time.Second
		}
		ctx, cancel := context.WithTimeout(context.Background(), 5*time.Second)
		pos, err := db.Export(ctx, hw)
		cancel()
		c.Evaluations++
		c.Distinct(fmt.Sprintf("export-during-commit:%d", after))
		rep := map[string]any{"kind": "export-during-commit", "pages_delivered_before_the_commit": after, "commit_error": fmt.Sprint(cerr), "export_error": fmt.Sprint(err)}
		if err != nil {
			continue // an export that fails is not a wrong export
		}
		im := &lfs.Image{PageSize: ps}
		b := hw.buf.Bytes()
		for off := 0; off+ps <= len(b); off += ps {
			im.Pages = append(im.Pages, append([]byte(nil), b[off:off+ps]...))
		}
		want := images[posT{uint64(pos.TXID), uint64(pos.PostApplyChecksum)}]
		if want == nil {
			c.Violate("C16:export-during-commit:unknown-position", fmt.Sprintf("export reports position %s, which was never committed", pos.String()), rep)
		} else if eq, why := im.Equal(want); !eq {
			c.Violate("C16:export-during-commit:mixture", fmt.Sprintf("an export during which a WAL transaction committed reports %s and is not the committed image of that position: %s", pos.String(), why), rep)
			return nil
		}
	}
	return nil
}
