package c16

import (
	"bytes"
	"context"
	"fmt"
	"os"
	"path/filepath"
	"sort"
	"time"

	"lfsverif/internal/common"
	"lfsverif/internal/hist"
	"lfsverif/internal/lfs"
)

type hookWriter struct {
	buf   bytes.Buffer
	after int
	n     int
	fn    func()
}

func (w *hookWriter) Write(p []byte) (int, error) {
	w.n++
	if w.n == w.after && w.fn != nil {
		fn := w.fn
		w.fn = nil
		fn()
	}
	return w.buf.Write(p)
}

// exportDuringCommit: two requests at once - an export is delivering pages while an application connection commits a
// WAL transaction that touches a page the export has not delivered yet. The export is the committed image of the
// position it reports: the one before that commit.
func exportDuringCommit(c *common.Ctx, r *common.Rand) error {
	dir, err := os.MkdirTemp(c.OutDir, "c16x-")
	if err != nil {
		return err
	}
	defer os.RemoveAll(dir)
	n, err := lfs.Open(dir, true)
	if err != nil {
		return err
	}
	defer n.Close()
	const ps = 512
	h := hist.NewOn(c, r.Fork(), hist.Config{PageSize: ps, AllowWAL: true}, n.Store, n.Exits, "db", nil, 0, false)
	type posT struct{ txid, chk uint64 }
	images := map[posT]*lfs.Image{}
	step := func(st hist.Step) error {
		if ob := h.Exec(st); ob.Err != "" || ob.Panic != "" {
			return fmt.Errorf("%s: %s%s", st.Op, ob.Err, ob.Panic)
		}
		q := n.Store.DB("db").Pos()
		images[posT{uint64(q.TXID), uint64(q.PostApplyChecksum)}] = h.Ref.Clone()
		return nil
	}
	for _, st := range []hist.Step{
		{Op: "rtx", Writes: map[uint32]uint64{1: 1, 2: 2, 3: 3, 4: 4, 5: 5, 6: 6}, NewSize: 6, ToWAL: true},
		{Op: "wtx", Frames: [][2]uint64{{2, 12}}, NewSize: 6},
	} {
		if err := step(st); err != nil {
			return err
		}
	}
	db := n.Store.DB("db")
	for round, after := range []int{1, 3, 4} {
		hw := &hookWriter{after: after}
		var cerr error
		hw.fn = func() {
			lfs.BusyTimeout = 200 * time.Millisecond
			cerr = step(hist.Step{Op: "wtx", Frames: [][2]uint64{{5, uint64(100 + round)}, {uint64(after + 1), uint64(200 + round)}}, NewSize: 6})
			lfs.BusyTimeout = 3 * time.Second
		}
		ctx, cancel := context.WithTimeout(context.Background(), 5*time.Second)
		pos, err := db.Export(ctx, hw)
		cancel()
		c.Evaluations++
		c.Distinct(fmt.Sprintf("export-during-commit:%d", after))
		rep := map[string]any{"kind": "export-during-commit", "pages_delivered_before_the_commit": after, "commit_error": fmt.Sprint(cerr), "export_error": fmt.Sprint(err)}
		if err != nil {
			continue // an export that fails is not a wrong export
		}
		im := &lfs.Image{PageSize: ps}
		b := hw.buf.Bytes()
		for off := 0; off+ps <= len(b); off += ps {
			im.Pages = append(im.Pages, append([]byte(nil), b[off:off+ps]...))
		}
		want := images[posT{uint64(pos.TXID), uint64(pos.PostApplyChecksum)}]
		if want == nil {
			c.Violate("C16:export-during-commit:unknown-position", fmt.Sprintf("export reports position %s, which was never committed", pos.String()), rep)
		} else if eq, why := im.Equal(want); !eq {
			c.Violate("C16:export-during-commit:mixture", fmt.Sprintf("an export during which a WAL transaction committed reports %s and is not the committed image of that position: %s", pos.String(), why), rep)
			return nil
		}
	}
	return nil
}

// importWaitsForWriter: POST /import arrives while a connection is in the middle of a write transaction (it has written
// its pages and is about to commit). The import waits for the write lock; the transaction commits; the import follows.
// Both are transactions: the position advances by two, an export returns the imported image, the log is one chain.
func importWaitsForWriter(c *common.Ctx, r *common.Rand, wal bool) error {
	dir, err := os.MkdirTemp(c.OutDir, "c16w-")
	if err != nil {
		return err
	}
	defer os.RemoveAll(dir)
	n, err := lfs.Open(dir, true)
	if err != nil {
		return err
	}
	defer n.Close()
	const ps = 512
	h := hist.NewOn(c, r.Fork(), hist.Config{PageSize: ps, AllowWAL: true}, n.Store, n.Exits, "db", nil, 0, false)
	for _, st := range []hist.Step{
		{Op: "rtx", Writes: map[uint32]uint64{1: 1, 2: 2, 3: 3, 4: 4}, NewSize: 4, ToWAL: wal},
		{Op: map[bool]string{true: "wtx", false: "rtx"}[wal], Writes: map[uint32]uint64{2: 12}, Frames: [][2]uint64{{2, 12}}, NewSize: 4},
	} {
		if ob := h.Exec(st); ob.Err != "" || ob.Panic != "" {
			return fmt.Errorf("setup %s: %s%s", st.Op, ob.Err, ob.Panic)
		}
	}
	db := n.Store.DB("db")
	before := db.Pos()
	img := &lfs.Image{PageSize: ps}
	for pg := uint32(1); pg <= 3; pg++ {
		img.Pages = append(img.Pages, lfs.MakePage(ps, pg, 777000+uint64(pg), 3, false))
	}
	var raw []byte
	for _, p := range img.Pages {
		raw = append(raw, p...)
	}
	impDone := make(chan error, 1)
	h.Pager.BeforeCommit = func() {
		go func() { impDone <- db.Import(context.Background(), bytes.NewReader(raw)) }()
		time.Sleep(150 * time.Millisecond)
	}
	var ob hist.Obs
	if wal {
		ob = h.Exec(hist.Step{Op: "wtx", Frames: [][2]uint64{{3, 4343}}, NewSize: 4})
	} else {
		ob = h.Exec(hist.Step{Op: "rtx", Writes: map[uint32]uint64{3: 4343}, NewSize: 4})
	}
	h.Pager.BeforeCommit = nil
	var ierr error
	select {
	case ierr = <-impDone:
	case <-time.After(10 * time.Second):
		ierr = fmt.Errorf("the import did not return within 10 s")
	}
	c.Evaluations++
	c.Distinct(fmt.Sprintf("import-waits-for-writer:%v", wal))
	rep := map[string]any{"kind": "import-waits-for-writer", "wal": wal, "commit_error": ob.Err, "import_error": fmt.Sprint(ierr)}
	if len(n.Exits()) > 0 {
		c.Violate("C16:import-waits:exit", fmt.Sprintf("the node called Exit(%v)", n.Exits()), rep)
		return nil
	}
	if ob.Err != "" || ob.Panic != "" || ierr != nil {
		c.Count("import_waits_for_writer_not_both", 1)
		return nil
	}
	pos := db.Pos()
	var buf bytes.Buffer
	if _, err := db.Export(context.Background(), &buf); err != nil {
		c.Violate("C16:import-waits:export", "export after the import fails: "+err.Error(), rep)
		return nil
	}
	got := buf.Bytes()
	if pos.TXID != before.TXID+2 {
		c.Violate("C16:import-waits:position", fmt.Sprintf("a transaction committed while the import was waiting for the write lock, then the import ran and reported success: the position went from %s to %s; want transaction %d", before, pos, before.TXID+2), rep)
		return nil
	}
	if !bytes.Equal(resetCounters(got), resetCounters(raw)) {
		c.Violate("C16:import-waits:image", fmt.Sprintf("the import reported success; an export afterwards returns %d bytes that are not the imported image (%d bytes)", len(got), len(raw)), rep)
		return nil
	}
	infos, _ := lfs.ListLTX(filepath.Join(n.Dir, "dbs", "db"))
	sort.SliceStable(infos, func(i, j int) bool { return infos[i].Min < infos[j].Min })
	for i := 1; i < len(infos); i++ {
		if !infos[i].Valid || infos[i].Min != infos[i-1].Max+1 || infos[i].Pre != infos[i-1].Post {
			c.Violate("C16:import-waits:chain", fmt.Sprintf("the log is not one chain: %s does not continue %s", infos[i].Name, infos[i-1].Name), rep)
			break
		}
	}
	return nil
}
