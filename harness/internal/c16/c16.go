// Package c16: import replaces a database atomically; export returns the exact current image.
package c16

import (
	"bytes"
	"context"
	"encoding/binary"
	"fmt"
	"io"
	"os"
	"os/exec"
	"path/filepath"
	"strings"
	"time"

	"github.com/superfly/litefs"
	lfshttp "github.com/superfly/litefs/http"

	"lfsverif/internal/cluster"
	"lfsverif/internal/common"
	"lfsverif/internal/hist"
	"lfsverif/internal/lfs"
)

var bg = context.Background()

type posT struct{ TXID, Chk uint64 }

func dbPos(s *litefs.Store, name string) posT {
	if db := s.DB(name); db != nil {
		p := db.Pos()
		return posT{uint64(p.TXID), uint64(p.PostApplyChecksum)}
	}
	return posT{}
}

type caseT struct {
	Target   string `json:"target"` // absent | dropped | rollback | wal-pending
	TargetPS int    `json:"target_page_size"`
	ImagePS  int    `json:"image_page_size"`
	ImageN   int    `json:"image_pages"`
	ImageWAL bool   `json:"image_wal_header"`
	Bad      string `json:"bad"` // "" | truncated | garbage | short-header | empty | one-byte-short | pages-missing | last-page-missing
}

func makeImage(r *common.Rand, ps, n int, wal bool) []byte {
	var b bytes.Buffer
	for p := 1; p <= n; p++ {
		pg := lfs.MakePage(ps, uint32(p), r.U64(), uint32(n), wal)
		if p == 1 { // non-zero change counter and schema cookie: they must come back reset
			binary.BigEndian.PutUint32(pg[24:], uint32(r.U64())|1)
			binary.BigEndian.PutUint32(pg[40:], uint32(r.U64())|1)
		}
		b.Write(pg)
	}
	return b.Bytes()
}

func resetCounters(img []byte) []byte {
	out := append([]byte(nil), img...)
	if len(out) >= 100 {
		binary.BigEndian.PutUint32(out[24:], 0)
		binary.BigEndian.PutUint32(out[40:], 0)
	}
	return out
}

func listLTX(dir, name string) string {
	ents, _ := os.ReadDir(filepath.Join(dir, "dbs", name, "ltx"))
	var a []string
	for _, e := range ents {
		if strings.HasSuffix(e.Name(), ".ltx") {
			a = append(a, e.Name())
		}
	}
	return strings.Join(a, ",")
}

func export(url, name string) ([]byte, error) {
	rc, err := lfshttp.NewClient().Export(bg, url, name)
	if err != nil {
		return nil, err
	}
	defer rc.Close()
	return io.ReadAll(rc)
}

func runCase(c *common.Ctx, ct caseT, r *common.Rand, cf *common.CaseFile) error {
	dir, err := os.MkdirTemp(c.OutDir, "c16-")
	if err != nil {
		return err
	}
	defer os.RemoveAll(dir)
	rep := map[string]any{"kind": "import-case", "case": ct}
	key := func(k string) string {
		cls := "valid"
		if ct.Bad != "" {
			cls = ct.Bad
		} else if ct.TargetPS != ct.ImagePS && ct.Target != "absent" && ct.Target != "dropped" {
			cls = "other-page-size"
		}
		return fmt.Sprintf("C16:%s:%s:%s", ct.Target, cls, k)
	}
	clu := cluster.New(dir, 2*time.Second)
	defer clu.Close()
	p, err := clu.Start("p", true)
	if err != nil {
		return err
	}
	if clu.WaitPrimary(5*time.Second) == nil {
		return fmt.Errorf("no primary")
	}
	rn, err := clu.Start("r", false)
	if err != nil {
		return err
	}
	name := "db"
	// build the target
	var h *hist.Runner
	if ct.Target != "absent" {
		cfg := hist.Config{PageSize: ct.TargetPS, Regime: 0, AllowWAL: strings.HasPrefix(ct.Target, "wal-pending"), ForceWAL: strings.HasPrefix(ct.Target, "wal-pending")}
		h = hist.NewOn(c, r.Fork(), cfg, p.Store, p.Exits, name, nil, 0, false)
		n := 0
		for tries := 0; n < 3 && tries < 30; tries++ {
			st := h.GenStep()
			if st.Op != "rtx" && st.Op != "wtx" {
				continue
			}
			st.Outcome = 0
			if ob := h.Exec(st); ob.Captured {
				n++
			} else if ob.Err != "" || ob.Panic != "" {
				return nil
			}
		}
		if strings.HasPrefix(ct.Target, "wal-pending") && !h.WALMode {
			return nil
		}
		if ct.Target == "wal-pending-shrunk" {
			// the database file holds 8 pages; a WAL transaction, not checkpointed, makes the database 4 pages
			cur := uint32(len(h.Ref.Pages))
			grow := hist.Step{Op: "wtx", NewSize: 8}
			for pg := uint32(1); pg <= 8; pg++ {
				if pg > cur || pg == 2 {
					grow.Frames = append(grow.Frames, [2]uint64{uint64(pg), 7000 + uint64(pg)})
				}
			}
			if ob := h.Exec(grow); ob.Err != "" || ob.Panic != "" {
				return nil
			}
			if ob := h.Exec(hist.Step{Op: "appckpt", CkptMode: 0}); ob.Err != "" || ob.Panic != "" {
				return nil
			}
			if ob := h.Exec(hist.Step{Op: "wtx", NewSize: 4, Frames: [][2]uint64{{3, 7103}}}); ob.Err != "" || ob.Panic != "" {
				return nil
			}
		}
		if ct.Target == "dropped" {
			if ob := h.Exec(hist.Step{Op: "drop"}); ob.Err != "" {
				return nil
			}
		}
	}
	before := dbPos(p.Store, name)
	var expBefore []byte
	if ct.Target == "rollback" || strings.HasPrefix(ct.Target, "wal-pending") {
		if expBefore, err = export(p.Server.URL(), name); err != nil {
			c.Violate(key("export-before"), "export of the populated database failed: "+err.Error(), rep)
			return nil
		}
		img, _ := lfs.ReadImage(filepath.Join(p.Dir, "dbs", name))
		var raw bytes.Buffer
		for _, pg := range img.Pages {
			raw.Write(pg)
		}
		c.Evaluations++
		if !bytes.Equal(raw.Bytes(), expBefore) {
			c.Violate(key("export-differs"), fmt.Sprintf("export returned %d bytes that differ from the committed image (%d bytes) read raw from database+WAL", len(expBefore), raw.Len()), rep)
			return nil
		}
	}
	ltxBefore := listLTX(p.Dir, name)

	img := makeImage(r, ct.ImagePS, ct.ImageN, ct.ImageWAL)
	input := img
	switch ct.Bad {
	case "truncated":
		input = img[:len(img)-ct.ImagePS-7]
	case "one-byte-short":
		input = img[:len(img)-1]
	case "pages-missing": // cut exactly at a page boundary: the header promises more pages than follow
		input = img[:len(img)-2*ct.ImagePS]
	case "last-page-missing":
		input = img[:len(img)-ct.ImagePS]
	case "extra-page": // one page more than the header says
		input = append(append([]byte(nil), img...), r.Bytes(ct.ImagePS)...)
	case "garbage":
		input = r.Bytes(len(img))
	case "short-header":
		input = img[:60]
	case "empty":
		input = nil
	}
	impErr := lfshttp.NewClient().Import(bg, p.Server.URL(), name, bytes.NewReader(input))
	c.Evaluations++
	c.Distinct(fmt.Sprintf("import:%s:%d:%d:%d:%v:%s", ct.Target, ct.TargetPS, ct.ImagePS, ct.ImageN, ct.ImageWAL, ct.Bad))
	after := dbPos(p.Store, name)
	if ex := p.Exits(); len(ex) > 0 {
		c.Violate(key("exit"), fmt.Sprintf("import made the primary call Exit(%v) (import error: %v)", ex, impErr), rep)
		checkReopen(c, p.Dir, key, rep, before, true)
		return nil
	}
	if impErr == nil {
		if ct.Bad != "" {
			c.Violate(key("accepted"), "an input that is not a complete database image was imported without error", rep)
			return nil
		}
		if after.TXID != before.TXID+1 {
			c.Violate(key("txid"), fmt.Sprintf("import moved the position from %d to %d, want exactly one new transaction", before.TXID, after.TXID), rep)
		}
		exp, err := export(p.Server.URL(), name)
		if err != nil {
			c.Violate(key("export-after"), "export after a successful import failed: "+err.Error(), rep)
			return nil
		}
		want := resetCounters(img)
		if !bytes.Equal(exp, want) {
			c.Violate(key("roundtrip"), fmt.Sprintf("export after import returned %d bytes that differ from the imported image (%d bytes, counters reset)", len(exp), len(want)), rep)
		}
		if !cluster.WaitPos(rn, name, after.TXID, after.Chk, 10*time.Second) {
			c.Violate(key("replica"), fmt.Sprintf("replica did not reach the import's position; at %v exits=%v", dbPos(rn.Store, name), rn.Exits()), rep)
			return nil
		}
		time.Sleep(10 * time.Millisecond)
		rimg, _ := lfs.ReadImage(filepath.Join(rn.Dir, "dbs", name))
		var raw bytes.Buffer
		for _, pg := range rimg.Pages {
			raw.Write(pg)
		}
		if !bytes.Equal(raw.Bytes(), want) {
			c.Violate(key("replica-image"), "replica's database differs from the imported image", rep)
		}
		infos, _ := lfs.ListLTX(filepath.Join(p.Dir, "dbs", name))
		for i, f := range infos {
			if !f.Valid || (i > 0 && (f.Min != infos[i-1].Max+1 || f.Pre != infos[i-1].Post)) {
				c.Violate(key("chain"), "transaction log is not a valid chain after the import", rep)
				break
			}
		}
		// the imported database must keep working: one more local transaction, captured and replicated
		{
			imgRef := &lfs.Image{PageSize: ct.ImagePS}
			for pgn := 0; pgn < ct.ImageN; pgn++ {
				imgRef.Pages = append(imgRef.Pages, want[pgn*ct.ImagePS:(pgn+1)*ct.ImagePS])
			}
			cfg2 := hist.Config{PageSize: ct.ImagePS, Regime: 0}
			h2 := hist.NewOn(c, r.Fork(), cfg2, p.Store, p.Exits, name, imgRef, after.TXID, ct.ImageWAL)
			var st hist.Step
			for {
				st = h2.GenStep()
				if (st.Op == "rtx" && !ct.ImageWAL) || (st.Op == "wtx" && ct.ImageWAL) {
					break
				}
			}
			st.Outcome = 0
			ob2 := h2.Exec(st)
			c.Evaluations++
			if ob2.Panic != "" || len(ob2.Exits) > 0 {
				h2.CheckCrash(c, "C16")
				return nil
			}
			h2.CheckCapture(c, "C16:after-import", map[string]bool{"rtx": true, "wtx": true})
			p2 := dbPos(p.Store, name)
			if !cluster.WaitPos(rn, name, p2.TXID, p2.Chk, 10*time.Second) {
				c.Violate(key("replica-after-import"), fmt.Sprintf("the first transaction after the import did not replicate: replica at %v, primary at %v, replica exits %v", dbPos(rn.Store, name), p2, rn.Exits()), rep)
				return nil
			}
		}
		// model case: history so far + the import
		if h != nil || ct.Target == "absent" {
			var obs []hist.Obs
			var steps []hist.Step
			if h != nil {
				obs, steps = h.Obs, h.Steps
			}
			ob := hist.Obs{Step: len(obs), Op: "import", TXID: after.TXID, Chk: after.Chk, PageN: uint32(ct.ImageN), LTX: infos}
			ob.Mode = int(p.Store.DB(name).Mode())
			term := "OImport ["
			for pgn := 1; pgn <= ct.ImageN; pgn++ {
				if pgn > 1 {
					term += ";"
				}
				term += fmt.Sprintf("(%d, %s)", pgn, lfs.PgTerm(uint32(pgn), want[(pgn-1)*ct.ImagePS:pgn*ct.ImagePS]))
			}
			term += fmt.Sprintf("] %d true", ct.ImageN)
			ob.Ops = []string{term}
			if ct.TargetPS == ct.ImagePS || ct.Target == "absent" {
				hh := &hist.Runner{Cfg: hist.Config{PageSize: ct.ImagePS}, Obs: append(append([]hist.Obs(nil), obs...), ob), Steps: append(steps, hist.Step{Op: "import"})}
				cf.Add(hh.CoqCase(), rep)
			}
		}
		return nil
	}
	// a valid image is taken by a name that holds no database (never created, or dropped), whatever its page size
	if ct.Bad == "" && (ct.Target == "absent" || ct.Target == "dropped") {
		c.Violate(key("valid-refused"), fmt.Sprintf("a valid %d-page image with %d-byte pages was refused by the %s database name: %v", ct.ImageN, ct.ImagePS, ct.Target, impErr), rep)
	}
	// failed import: nothing may have changed
	if after != before {
		c.Violate(key("failed-changed-position"), fmt.Sprintf("failed import (%v) changed the position from %v to %v", impErr, before, after), rep)
	}
	if lb := listLTX(p.Dir, name); lb != ltxBefore {
		c.Violate(key("failed-changed-log"), fmt.Sprintf("failed import (%v) changed the transaction log: %s -> %s", impErr, ltxBefore, lb), rep)
	}
	if expBefore != nil {
		exp, err := export(p.Server.URL(), name)
		if err != nil || !bytes.Equal(exp, expBefore) {
			c.Violate(key("failed-changed-image"), fmt.Sprintf("failed import (%v) changed the database: export before %d bytes, after %d bytes (err %v), first difference at byte %d", impErr, len(expBefore), len(exp), err, firstDiff(exp, expBefore)), rep)
		}
	}
	checkReopen(c, p.Dir, key, rep, before, false)
	return nil
}

func firstDiff(a, b []byte) int {
	n := len(a)
	if len(b) < n {
		n = len(b)
	}
	for i := 0; i < n; i++ {
		if a[i] != b[i] {
			return i
		}
	}
	return n
}

// checkReopen copies the data directory and opens a fresh store on the copy.
func checkReopen(c *common.Ctx, dir string, key func(string) string, rep map[string]any, want posT, afterExit bool) {
	cp := dir + "-copy"
	if out, err := exec.Command("cp", "-a", dir, cp).CombinedOutput(); err != nil {
		c.Note("cp failed: %v %s", err, out)
		return
	}
	defer os.RemoveAll(cp)
	n, err := lfs.Open(cp, true)
	defer n.Close()
	if err != nil {
		c.Violate(key("cannot-restart"), fmt.Sprintf("after the failed import the node cannot restart on its data directory: %v", err), rep)
		return
	}
	if got := dbPos(n.Store, "db"); !afterExit && got != want {
		c.Violate(key("restart-position"), fmt.Sprintf("restart after the failed import yields position %v, want %v", got, want), rep)
	}
}

func Run(c *common.Ctx) error {
	cf := c.Cases("cases_c16", hist.CoqHeader, hist.CoqType, "mismatches")
	cf.Shard = 4
	var cases []caseT
	for _, tgt := range []string{"absent", "dropped", "rollback", "wal-pending"} {
		cases = append(cases,
			caseT{Target: tgt, TargetPS: 512, ImagePS: 512, ImageN: 1},
			caseT{Target: tgt, TargetPS: 512, ImagePS: 512, ImageN: 7, ImageWAL: true},
			caseT{Target: tgt, TargetPS: 512, ImagePS: 1024, ImageN: 5},
			caseT{Target: tgt, TargetPS: 4096, ImagePS: 512, ImageN: 3},
			caseT{Target: tgt, TargetPS: 512, ImagePS: 512, ImageN: 6, Bad: "truncated"},
			caseT{Target: tgt, TargetPS: 512, ImagePS: 512, ImageN: 4, Bad: "garbage"},
			caseT{Target: tgt, TargetPS: 512, ImagePS: 512, ImageN: 4, Bad: "short-header"},
			caseT{Target: tgt, TargetPS: 512, ImagePS: 512, ImageN: 4, Bad: "empty"},
			caseT{Target: tgt, TargetPS: 512, ImagePS: 512, ImageN: 4, Bad: "one-byte-short"},
			caseT{Target: tgt, TargetPS: 512, ImagePS: 512, ImageN: 5, Bad: "pages-missing"},
			caseT{Target: tgt, TargetPS: 512, ImagePS: 1024, ImageN: 3, Bad: "last-page-missing"},
		)
	}
	cases = append(cases, caseT{Target: "wal-pending-shrunk", TargetPS: 512, ImagePS: 512, ImageN: 5}, caseT{Target: "wal-pending-shrunk", TargetPS: 512, ImagePS: 512, ImageN: 4, ImageWAL: true},
		caseT{Target: "wal-pending-shrunk", TargetPS: 512, ImagePS: 512, ImageN: 9}, caseT{Target: "wal-pending-shrunk", TargetPS: 512, ImagePS: 512, ImageN: 4, Bad: "garbage"})
	cases = append(cases, caseT{Target: "rollback", TargetPS: 512, ImagePS: 512, ImageN: 260}, caseT{Target: "wal-pending", TargetPS: 512, ImagePS: 512, ImageN: 257, ImageWAL: true})
	// the largest page size (the header field stores it as 1)
	cases = append(cases, caseT{Target: "absent", TargetPS: 65536, ImagePS: 65536, ImageN: 3}, caseT{Target: "rollback", TargetPS: 65536, ImagePS: 65536, ImageN: 2},
		caseT{Target: "wal-pending", TargetPS: 65536, ImagePS: 65536, ImageN: 3, ImageWAL: true}, caseT{Target: "rollback", TargetPS: 65536, ImagePS: 65536, ImageN: 3, Bad: "garbage"})
	if c.Thorough() {
		for _, ps := range []int{1024, 2048, 8192, 32768} {
			for _, tgt := range []string{"absent", "rollback", "wal-pending"} {
				cases = append(cases, caseT{Target: tgt, TargetPS: ps, ImagePS: ps, ImageN: 3, ImageWAL: tgt == "wal-pending"},
					caseT{Target: tgt, TargetPS: ps, ImagePS: ps, ImageN: 5, Bad: "truncated"})
			}
		}
	}
	for _, ct := range cases {
		if err := runCase(c, ct, c.Rng.Fork(), cf); err != nil {
			return fmt.Errorf("case %+v: %w", ct, err)
		}
	}
	c.Sample(map[string]any{"case": cases[2], "cases": len(cases)})
	if err := exportDuringCommit(c, c.Rng.Fork()); err != nil {
		return err
	}
	for _, wal := range []bool{false, true} {
		if err := importWaitsForWriter(c, c.Rng.Fork(), wal); err != nil {
			return err
		}
	}
	if c.Thorough() {
		if err := lockPageImport(c, c.Rng.Fork()); err != nil {
			return err
		}
	}
	return nil
}
