package c11

import (
	"bytes"
	"context"
	"fmt"
	"io"
	"os"
	"path/filepath"
	"sort"
	"time"

	"github.com/superfly/litefs"
	"github.com/superfly/ltx"

	"lfsverif/internal/common"
	"lfsverif/internal/hist"
	"lfsverif/internal/lfs"
)

// stallingBackup: a backup service that is ahead of the primary; the download of its snapshot stalls after the first
// bytes until the test lets it go on.
type stallingBackup struct {
	pos     ltx.Pos
	snap    []byte
	reached chan struct{}
	goOn    chan struct{}
}

func (b *stallingBackup) URL() string { return "stalling://backup" }
func (b *stallingBackup) PosMap(ctx context.Context) (map[string]ltx.Pos, error) {
	return map[string]ltx.Pos{"db": b.pos}, nil
}
func (b *stallingBackup) WriteTx(ctx context.Context, name string, r io.Reader) (ltx.TXID, error) {
	_, _ = io.Copy(io.Discard, r)
	return 0, ltx.NewPosMismatchError(b.pos)
}
func (b *stallingBackup) FetchSnapshot(ctx context.Context, name string) (io.ReadCloser, error) {
	return &stallReader{b: b, r: bytes.NewReader(b.snap)}, nil
}

type stallReader struct {
	b    *stallingBackup
	r    *bytes.Reader
	n    int
	once bool
}

func (s *stallReader) Read(p []byte) (int, error) {
	if s.n >= 200 && !s.once {
		s.once = true
		close(s.b.reached)
		select {
		case <-s.b.goOn:
		case <-time.After(10 * time.Second):
		}
	}
	if len(p) > 100 {
		p = p[:100]
	}
	n, err := s.r.Read(p)
	s.n += n
	return n, err
}
func (s *stallReader) Close() error { return nil }

// restoreExcludesConnections: the primary replaces a database by the backup service's snapshot (the service is ahead).
// From the recovery of the log to the end of the apply this is LiteFS writing the database file on its own: no
// application connection may start reading or writing in between - whatever journal mode the database is in.
func restoreExcludesConnections(c *common.Ctx, r *common.Rand, wal bool) error {
	dir, err := os.MkdirTemp(c.OutDir, "c11r-")
	if err != nil {
		return err
	}
	defer os.RemoveAll(dir)
	const ps = 512
	bk := &stallingBackup{reached: make(chan struct{}), goOn: make(chan struct{})}
	n, err := lfs.Open(dir, true, func(s *litefs.Store) { s.BackupClient = bk; s.BackupDelay = 0 })
	if err != nil {
		return err
	}
	defer n.Close()
	h := hist.NewOn(c, r.Fork(), hist.Config{PageSize: ps, AllowWAL: true}, n.Store, n.Exits, "db", nil, 0, false)
	steps := []hist.Step{{Op: "rtx", Writes: map[uint32]uint64{1: 1, 2: 2, 3: 3}, NewSize: 3, ToWAL: wal}, {Op: "rtx", Writes: map[uint32]uint64{2: 12}, NewSize: 3}}
	if wal {
		steps[1] = hist.Step{Op: "wtx", Frames: [][2]uint64{{2, 12}}, NewSize: 3}
	}
	for _, st := range steps {
		if ob := h.Exec(st); ob.Err != "" || ob.Panic != "" {
			return fmt.Errorf("setup: %s%s", ob.Err, ob.Panic)
		}
	}
	db := n.Store.DB("db")
	// the service's copy: 4 pages at transaction 5
	img := &lfs.Image{PageSize: ps}
	pages := map[uint32][]byte{}
	for pg := uint32(1); pg <= 4; pg++ {
		d := lfs.MakePage(ps, pg, 660000+uint64(pg), 4, wal)
		img.Pages = append(img.Pages, d)
		pages[pg] = d
	}
	bk.pos = ltx.Pos{TXID: 5, PostApplyChecksum: ltx.Checksum(img.Checksum())}
	bk.snap = snapLTX(ps, 4, 5, img.Checksum(), pages)
	syncDone := make(chan error, 1)
	go func() { syncDone <- n.Store.SyncBackup(context.Background()) }()
	select {
	case <-bk.reached:
	case <-time.After(5 * time.Second):
		close(bk.goOn)
		c.Count("restore_not_reached", 1)
		return nil
	}
	// the download is under way: connections try to start
	ctx := context.Background()
	type try struct {
		what  string
		locks []litefs.LockType
		excl  bool
	}
	tries := []try{
		{"a reader's PENDING (shared)", []litefs.LockType{litefs.LockTypePending}, false},
		{"a reader's SHARED (shared)", []litefs.LockType{litefs.LockTypeShared}, false},
		{"a writer's RESERVED", []litefs.LockType{litefs.LockTypeReserved}, true},
	}
	if wal {
		// a WAL-mode connection holds the database file's SHARED lock throughout and works with the locks of the log
		tries = []try{{"a log reader's READ1 (shared)", []litefs.LockType{litefs.LockTypeRead1}, false},
			{"a log reader's READ0 (shared)", []litefs.LockType{litefs.LockTypeRead0}, false},
			{"a log writer's WRITE", []litefs.LockType{litefs.LockTypeWrite}, true},
			{"a checkpointer's CKPT", []litefs.LockType{litefs.LockTypeCkpt}, true}}
	}
	var got []string
	for i, t := range tries {
		owner := uint64(9100 + i)
		ok := false
		if t.excl {
			ok, _ = db.TryLocks(ctx, owner, t.locks)
		} else {
			ok = db.TryRLocks(ctx, owner, t.locks)
		}
		if ok {
			got = append(got, t.what)
			_ = db.Unlock(ctx, owner, t.locks)
		}
	}
	mid, _ := os.ReadFile(filepath.Join(dir, "dbs", "db", "database"))
	close(bk.goOn)
	var serr error
	select {
	case serr = <-syncDone:
	case <-time.After(10 * time.Second):
		serr = fmt.Errorf("the sync did not return within 10 s")
	}
	c.Evaluations++
	c.Distinct(fmt.Sprintf("restore-excludes-connections:%v", wal))
	rep := map[string]any{"kind": "restore-excludes-connections", "wal": wal, "sync_error": fmt.Sprint(serr), "database_bytes_mid_restore": len(mid)}
	if len(got) > 0 {
		c.Violate("C11:restore:connection-admitted", fmt.Sprintf("while the primary was replacing the database by the backup service's snapshot (download stalled half-way) these lock requests of application connections were granted: %v", got), rep)
		return nil
	}
	if serr == nil && db.Pos() != bk.pos {
		c.Violate("C11:restore:position", fmt.Sprintf("the restore returned without error; the database is at %s, the service at %s", db.Pos(), bk.pos), rep)
	}
	return nil
}

func snapLTX(ps uint32, commit uint32, max uint64, post uint64, pages map[uint32][]byte) []byte {
	var buf bytes.Buffer
	enc := ltx.NewEncoder(&buf)
	_ = enc.EncodeHeader(ltx.Header{Version: 1, PageSize: ps, Commit: commit, MinTXID: 1, MaxTXID: ltx.TXID(max), Timestamp: time.Now().UnixMilli(), NodeID: 0x44})
	var pgs []int
	for pg := range pages {
		pgs = append(pgs, int(pg))
	}
	sort.Ints(pgs)
	for _, pg := range pgs {
		_ = enc.EncodePage(ltx.PageHeader{Pgno: uint32(pg)}, pages[uint32(pg)])
	}
	enc.SetPostApplyChecksum(ltx.Checksum(post))
	_ = enc.Close()
	return buf.Bytes()
}
