package c11

import (
	"bytes"
	"context"
	"crypto/sha256"
	"fmt"
	"io"
	"net/http"
	"os"
	"path/filepath"
	"sort"
	"sync/atomic"
	"time"

	"github.com/superfly/litefs"
	"github.com/superfly/ltx"

	"lfsverif/internal/cluster"
	"lfsverif/internal/common"
	"lfsverif/internal/hist"
	"lfsverif/internal/lfs"
)

func fwdLTX(ps uint32, commit uint32, txid uint64, pre, post uint64, pages map[uint32][]byte) []byte {
	var buf bytes.Buffer
	enc := ltx.NewEncoder(&buf)
	_ = enc.EncodeHeader(ltx.Header{Version: 1, PageSize: ps, Commit: commit, MinTXID: ltx.TXID(txid), MaxTXID: ltx.TXID(txid),
		Timestamp: time.Now().UnixMilli(), PreApplyChecksum: ltx.Checksum(pre), NodeID: 0x33})
	var pgs []int
	for pg := range pages {
		pgs = append(pgs, int(pg))
	}
	sort.Ints(pgs)
	for _, pg := range pgs {
		_ = enc.EncodePage(ltx.PageHeader{Pgno: uint32(pg)}, pages[uint32(pg)])
	}
	enc.SetPostApplyChecksum(ltx.Checksum(post))
	_ = enc.Close()
	return buf.Bytes()
}

func fileHash(path string) string {
	b, _ := os.ReadFile(path)
	h := sha256.Sum256(b)
	return fmt.Sprintf("%d:%x", len(b), h[:6])
}

// forwardedApply: a forwarded transaction (POST /tx) is LiteFS writing the database file on its own. It may do so
// only under the write locks that the halt lock pins. Without a halt lock - never granted, released, expired - a
// file that extends the position exactly must not be applied, whatever locks application connections hold.
func forwardedApply(c *common.Ctx, r *common.Rand, wal bool) error {
	dir, err := os.MkdirTemp(c.OutDir, "c11f-")
	if err != nil {
		return err
	}
	defer os.RemoveAll(dir)
	clu := cluster.New(dir, 2*time.Second)
	defer clu.Close()
	p, err := clu.Start("p", true)
	if err != nil {
		return err
	}
	if clu.WaitPrimary(5*time.Second) == nil {
		return fmt.Errorf("no primary")
	}
	ps := 512
	h := hist.NewOn(c, r.Fork(), hist.Config{PageSize: ps, AllowWAL: wal, ForceWAL: wal}, p.Store, p.Exits, "db", nil, 0, false)
	for done, tries := 0, 0; done < 3 && tries < 300; tries++ {
		st := h.GenStep()
		if st.Op != "rtx" && st.Op != "wtx" {
			continue
		}
		if st.Op == "rtx" {
			st.Outcome = 0
		}
		if ob := h.Exec(st); ob.Captured && ob.Err == "" {
			done++
		}
	}
	db := p.Store.DB("db")
	if db == nil {
		return fmt.Errorf("no database")
	}
	if wal {
		_ = db.Checkpoint(context.Background())
	}
	bg := context.Background()
	for _, halt := range []string{"never", "released", "expired"} {
		for _, reader := range []string{"none", "shared", "wal-read"} {
			if reader == "wal-read" && !wal {
				continue
			}
			var lockID int64 = 5
			switch halt {
			case "released":
				lockID = 77
				if _, err := db.AcquireHaltLock(bg, lockID); err != nil {
					return fmt.Errorf("halt: %v", err)
				}
				db.ReleaseHaltLock(bg, lockID)
			case "expired":
				lockID = 78
				if _, err := db.AcquireHaltLock(bg, lockID); err != nil {
					return fmt.Errorf("halt: %v", err)
				}
				db.VerifExpireHaltLock()
				p.Store.EnforceHaltLockExpiration(bg)
			}
			if db.VerifHaltLockID() != 0 {
				return fmt.Errorf("halt lock %d still held", db.VerifHaltLockID())
			}
			const owner = 7
			var held []litefs.LockType
			switch reader {
			case "shared":
				if db.TryRLocks(bg, owner, []litefs.LockType{litefs.LockTypePending}) && db.TryRLocks(bg, owner, []litefs.LockType{litefs.LockTypeShared}) {
					held = []litefs.LockType{litefs.LockTypeShared}
				}
				_ = db.Unlock(bg, owner, []litefs.LockType{litefs.LockTypePending})
			case "wal-read":
				if db.TryRLocks(bg, owner, []litefs.LockType{litefs.LockTypeDMS}) && db.TryRLocks(bg, owner, []litefs.LockType{litefs.LockTypeRead1}) {
					held = []litefs.LockType{litefs.LockTypeDMS, litefs.LockTypeRead1}
				}
			}
			im, err := lfs.ReadImage(h.DBDir())
			if err != nil || len(im.Pages) == 0 {
				return fmt.Errorf("image: %v", err)
			}
			pos := db.Pos()
			tgt := uint32(len(im.Pages))
			pg := lfs.MakePage(ps, tgt, 818181+uint64(lockID), tgt, wal)
			if tgt == 1 {
				lfs.SetHeader(pg, ps, 1, wal)
			}
			after := im.Clone()
			after.Pages[tgt-1] = pg
			body := fwdLTX(uint32(ps), tgt, uint64(pos.TXID)+1, uint64(pos.PostApplyChecksum), after.Checksum(), map[uint32][]byte{tgt: pg})
			beforeHash := fileHash(db.DatabasePath())
			req, _ := http.NewRequest("POST", fmt.Sprintf("%s/tx?name=db&lockID=%d", p.Server.URL(), lockID), bytes.NewReader(body))
			req.Header.Set("Litefs-Id", "0000000000000033")
			cctx, cancel := context.WithTimeout(bg, 3*time.Second)
			resp, err := http.DefaultClient.Do(req.WithContext(cctx))
			code := 0
			if err == nil {
				code = resp.StatusCode
				_, _ = io.Copy(io.Discard, resp.Body)
				resp.Body.Close()
			}
			cancel()
			afterHash := fileHash(db.DatabasePath())
			np := db.Pos()
			c.Evaluations++
			c.Distinct(fmt.Sprintf("forwarded-without-halt:%s:%s:%v", halt, reader, wal))
			rep := map[string]any{"kind": "forwarded-without-halt", "halt": halt, "reader": reader, "wal": wal, "status": code}
			key := fmt.Sprintf("C11:forwarded-without-halt:%s:%s:wal=%v", halt, reader, wal)
			if afterHash != beforeHash || np != pos {
				c.Violate(key+":applied", fmt.Sprintf("no halt lock is held (%s) and a connection holds %v: a forwarded transaction sent with lock id %d was applied (status %d): the database file changed from %s to %s, position %s -> %s - LiteFS wrote the file without the write locks a halt lock pins", halt, held, lockID, code, beforeHash, afterHash, pos.String(), np.String()), rep)
			} else if code >= 200 && code < 300 {
				c.Violate(key+":accepted", fmt.Sprintf("no halt lock is held (%s): POST /tx answered %d", halt, code), rep)
			}
			if len(held) > 0 {
				_ = db.Unlock(bg, owner, held)
			}
			if afterHash != beforeHash || np != pos {
				return nil
			}
		}
	}
	return nil
}

// recreatedAfterDrop: a WAL-mode database is dropped and created again under the same name. The new database is in
// rollback-journal mode until its first transaction says otherwise, so LiteFS's own write lock has to be the
// rollback-journal one: it must not be granted while the first writer holds SHARED + RESERVED.
func recreatedAfterDrop(c *common.Ctx, r *common.Rand) error {
	dir, err := os.MkdirTemp(c.OutDir, "c11r-")
	if err != nil {
		return err
	}
	defer os.RemoveAll(dir)
	n, err := lfs.Open(dir, true)
	if err != nil {
		return err
	}
	defer n.Close()
	h := hist.NewOn(c, r.Fork(), hist.Config{PageSize: 512, AllowWAL: true, ForceWAL: true}, n.Store, n.Exits, "db", nil, 0, false)
	for done, tries := 0, 0; done < 3 && tries < 300; tries++ {
		st := h.GenStep()
		if st.Op != "rtx" && st.Op != "wtx" {
			continue
		}
		if st.Op == "rtx" {
			st.Outcome = 0
		}
		if ob := h.Exec(st); ob.Captured && ob.Err == "" {
			done++
		}
	}
	if !h.WALMode {
		return fmt.Errorf("the database did not reach WAL mode")
	}
	if ob := h.Exec(hist.Step{Op: "drop"}); ob.Err != "" || ob.Panic != "" {
		return fmt.Errorf("drop: %s%s", ob.Err, ob.Panic)
	}
	db, f, err := n.Store.CreateDB("db")
	if err != nil {
		return fmt.Errorf("recreate: %v", err)
	}
	_ = f.Close()
	bg := context.Background()
	const owner = 31
	c.Evaluations++
	c.Distinct("recreated-after-drop")
	rep := map[string]any{"kind": "recreated-after-drop"}
	// the first writer of the new database, SQLite's rollback-journal protocol: SHARED, then RESERVED
	if !db.TryRLocks(bg, owner, []litefs.LockType{litefs.LockTypePending}) || !db.TryRLocks(bg, owner, []litefs.LockType{litefs.LockTypeShared}) {
		return fmt.Errorf("first writer: shared lock refused")
	}
	_ = db.Unlock(bg, owner, []litefs.LockType{litefs.LockTypePending})
	if ok, err := db.TryLocks(bg, owner, []litefs.LockType{litefs.LockTypeReserved}); err != nil || !ok {
		return fmt.Errorf("first writer: reserved lock refused (%v)", err)
	}
	if gs := db.TryAcquireWriteLock(); gs != nil {
		gs.Unlock()
		c.Violate("C11:recreated-after-drop:granted", "a WAL-mode database was dropped and created again; while the new database's first writer holds SHARED and RESERVED, LiteFS's own write lock is granted", rep)
	}
	_ = db.Unlock(bg, owner, []litefs.LockType{litefs.LockTypeReserved, litefs.LockTypeShared})
	// and with only a reader
	if db.TryRLocks(bg, owner, []litefs.LockType{litefs.LockTypeShared}) {
		c.Evaluations++
		if gs := db.TryAcquireWriteLock(); gs != nil {
			gs.Unlock()
			c.Violate("C11:recreated-after-drop:granted-over-reader", "a WAL-mode database was dropped and created again; while a connection holds SHARED on the new (rollback-journal) database, LiteFS's own write lock is granted", rep)
		}
		_ = db.Unlock(bg, owner, []litefs.LockType{litefs.LockTypeShared})
	}
	return nil
}

// haltReleaseUnderReader: a replica that holds the remote halt lock has committed a WAL transaction; another local
// connection is reading (SHARED, READ1) when the application gives the halt lock up. Giving it up makes LiteFS
// checkpoint - which is LiteFS writing the database file on its own, so it has to wait for the reader.
func haltReleaseUnderReader(c *common.Ctx, r *common.Rand) error {
	dir, err := os.MkdirTemp(c.OutDir, "c11h-")
	if err != nil {
		return err
	}
	defer os.RemoveAll(dir)
	clu := cluster.New(dir, 2*time.Second)
	defer clu.Close()
	p, err := clu.Start("p", true)
	if err != nil {
		return err
	}
	if clu.WaitPrimary(5*time.Second) == nil {
		return fmt.Errorf("no primary")
	}
	rn, err := clu.Start("r", false)
	if err != nil {
		return err
	}
	hp := hist.NewOn(c, r.Fork(), hist.Config{PageSize: 512, AllowWAL: true, ForceWAL: true}, p.Store, p.Exits, "db", nil, 0, false)
	for done, tries := 0, 0; done < 3 && tries < 300; tries++ {
		st := hp.GenStep()
		if st.Op != "rtx" && st.Op != "wtx" {
			continue
		}
		if st.Op == "rtx" {
			st.Outcome = 0
		}
		if ob := hp.Exec(st); ob.Captured && ob.Err == "" {
			done++
		}
	}
	pp := p.Store.DB("db").Pos()
	if !cluster.WaitPos(rn, "db", uint64(pp.TXID), uint64(pp.PostApplyChecksum), 10*time.Second) {
		return fmt.Errorf("replica did not catch up")
	}
	rdb := rn.Store.DB("db")
	bg := context.Background()
	if _, err := rdb.AcquireRemoteHaltLock(bg, 91); err != nil {
		return fmt.Errorf("halt: %v", err)
	}
	cur, _ := lfs.ReadImage(filepath.Dir(rdb.DatabasePath()))
	hr := hist.NewOn(c, r.Fork(), hist.Config{PageSize: 512, AllowWAL: true}, rn.Store, rn.Exits, "db", cur, uint64(rdb.Pos().TXID), true)
	hr.Pager.AttachWAL(uint32(r.U64()), uint32(r.U64()))
	committed := false
	for tries := 0; tries < 200 && !committed; tries++ {
		st := hr.GenStep()
		if st.Op != "wtx" {
			continue
		}
		st.Aborted = nil
		t0 := rdb.Pos().TXID
		hr.Exec(st)
		committed = rdb.Pos().TXID == t0+1
	}
	if !committed {
		return fmt.Errorf("the replica's WAL commit under the halt lock did not go through")
	}
	walBefore, _ := os.Stat(rdb.WALPath())
	const owner = 22
	if !rdb.TryRLocks(bg, owner, []litefs.LockType{litefs.LockTypePending}) || !rdb.TryRLocks(bg, owner, []litefs.LockType{litefs.LockTypeShared}) {
		return fmt.Errorf("reader: shared refused")
	}
	_ = rdb.Unlock(bg, owner, []litefs.LockType{litefs.LockTypePending})
	_ = rdb.TryRLocks(bg, owner, []litefs.LockType{litefs.LockTypeDMS})
	_ = rdb.TryRLocks(bg, owner, []litefs.LockType{litefs.LockTypeRead1})
	dbBefore := fileHash(rdb.DatabasePath())
	rctx, cancel := context.WithTimeout(bg, 300*time.Millisecond)
	relErr := rdb.ReleaseRemoteHaltLock(rctx, 91)
	cancel()
	dbAfter := fileHash(rdb.DatabasePath())
	walAfter, _ := os.Stat(rdb.WALPath())
	c.Evaluations++
	c.Distinct("halt-release-under-reader")
	rep := map[string]any{"kind": "halt-release-under-reader", "release_error": fmt.Sprint(relErr)}
	var wb, wa int64
	if walBefore != nil {
		wb = walBefore.Size()
	}
	if walAfter != nil {
		wa = walAfter.Size()
	}
	if dbAfter != dbBefore || wa != wb {
		c.Violate("C11:halt-release-under-reader:checkpointed", fmt.Sprintf("while a connection held SHARED and READ1, giving up the remote halt lock (answer: %v) made LiteFS checkpoint: database file %s -> %s, log %d -> %d bytes", relErr, dbBefore, dbAfter, wb, wa), rep)
	}
	_ = rdb.Unlock(bg, owner, []litefs.LockType{litefs.LockTypeShared, litefs.LockTypeRead1, litefs.LockTypeDMS})
	_ = rdb.ReleaseRemoteHaltLock(bg, 91)
	return nil
}

// haltRecoveryFails: granting a halt lock includes a recovery step (journal rollback / checkpoint under the write lock).
// If that step fails the request fails, and nothing of a grant stays behind: no lock is registered, the write lock is
// free again, and a later request with the same id gets a real lock - one that keeps local connections out.
func haltRecoveryFails(c *common.Ctx, r *common.Rand) error {
	dir, err := os.MkdirTemp(c.OutDir, "c11h-")
	if err != nil {
		return err
	}
	defer os.RemoveAll(dir)
	ros := &lfs.RecOS{}
	var failOnce atomic.Bool
	ros.Fail = func(call lfs.OSCall) error {
		if call.Op == "ROLLBACKJOURNAL" && call.Fn == "openfile" && failOnce.CompareAndSwap(true, false) {
			return fmt.Errorf("injected: input/output error")
		}
		return nil
	}
	n, err := lfs.Open(dir, true, func(s *litefs.Store) {
		s.OS = ros
		s.HaltAcquireTimeout = 300 * time.Millisecond
		s.HaltLockTTL = time.Minute
		s.HaltLockMonitorInterval = time.Hour
	})
	if err != nil {
		return err
	}
	defer n.Close()
	h := hist.NewOn(c, r.Fork(), hist.Config{PageSize: 512}, n.Store, n.Exits, "db", nil, 0, false)
	for done, tries := 0, 0; done < 2 && tries < 200; tries++ {
		st := h.GenStep()
		if st.Op != "rtx" {
			continue
		}
		st.Outcome, st.ToWAL = 0, false
		if ob := h.Exec(st); ob.Captured && ob.Err == "" {
			done++
		}
	}
	db := n.Store.DB("db")
	if db == nil {
		return fmt.Errorf("no database")
	}
	ctx := context.Background()
	failOnce.Store(true)
	_, err1 := db.AcquireHaltLock(ctx, 61)
	c.Evaluations++
	c.Distinct("halt-recovery-fails")
	rep := map[string]any{"kind": "halt-recovery-fails"}
	if err1 == nil {
		// the fault did not hit (no journal to open): nothing to judge
		if id := db.VerifHaltLockID(); id != 0 {
			db.ReleaseHaltLock(ctx, id)
		}
		return nil
	}
	if id := db.VerifHaltLockID(); id != 0 {
		c.Violate("C11:halt-recovery-fails:registered", fmt.Sprintf("the halt lock request failed (%v) and halt lock %d is registered all the same", err1, id), rep)
	}
	free, _ := db.TryLocks(ctx, 9, []litefs.LockType{litefs.LockTypeReserved})
	_ = db.Unlock(ctx, 9, []litefs.LockType{litefs.LockTypeReserved})
	if !free {
		c.Violate("C11:halt-recovery-fails:pinned", "the halt lock request failed and the write lock stays pinned", rep)
	}
	// the retry (same id) is a real grant
	hl, err2 := db.AcquireHaltLock(ctx, 61)
	if err2 != nil || hl == nil {
		c.Violate("C11:halt-recovery-fails:retry", fmt.Sprintf("a retry with the same id after the failed request is refused: %v", err2), rep)
		return nil
	}
	got, _ := db.TryLocks(ctx, 9, []litefs.LockType{litefs.LockTypeReserved})
	rd := db.TryRLocks(ctx, 9, []litefs.LockType{litefs.LockTypeShared})
	_ = db.Unlock(ctx, 9, []litefs.LockType{litefs.LockTypeReserved, litefs.LockTypeShared})
	if got || rd {
		c.Violate("C11:halt-recovery-fails:halt-without-locks", fmt.Sprintf("halt lock 61 was granted on the retry, yet a local connection takes RESERVED (%v) / SHARED (%v): the halt holds no locks", got, rd), rep)
	}
	db.ReleaseHaltLock(ctx, 61)
	return nil
}

// haltedModeSwitch: a WAL-mode database is halted for a replica; the holder switches the journal mode back
// (journal_mode=DELETE) and the switch is forwarded; from then on the database is a rollback-journal database on the
// primary too. A local connection that wants to read it must still be kept out while the holder's next forwarded
// transaction is written into the file.
func haltedModeSwitch(c *common.Ctx, r *common.Rand) error {
	dir, err := os.MkdirTemp(c.OutDir, "c11m-")
	if err != nil {
		return err
	}
	defer os.RemoveAll(dir)
	clu := cluster.New(dir, 2*time.Second)
	clu.Opts = func(name string, s *litefs.Store) {
		s.HaltLockTTL = time.Minute
		s.HaltLockMonitorInterval = time.Hour
	}
	defer clu.Close()
	p, err := clu.Start("p", true)
	if err != nil {
		return err
	}
	if clu.WaitPrimary(5*time.Second) == nil {
		return fmt.Errorf("no primary")
	}
	ps := 512
	h := hist.NewOn(c, r.Fork(), hist.Config{PageSize: ps, AllowWAL: true}, p.Store, p.Exits, "db", nil, 0, false)
	for _, st := range []hist.Step{
		{Op: "rtx", Writes: map[uint32]uint64{1: 1, 2: 2, 3: 3}, NewSize: 3, ToWAL: true},
		{Op: "wtx", Frames: [][2]uint64{{2, 12}}, NewSize: 3},
	} {
		if ob := h.Exec(st); ob.Err != "" || ob.Panic != "" {
			return fmt.Errorf("setup: %s%s", ob.Err, ob.Panic)
		}
	}
	db := p.Store.DB("db")
	bg := context.Background()
	const lockID = 91
	if _, err := db.AcquireHaltLock(bg, lockID); err != nil {
		return fmt.Errorf("halt: %v", err)
	}
	defer db.ReleaseHaltLock(bg, lockID)
	post := func(body []byte) int {
		req, _ := http.NewRequest("POST", fmt.Sprintf("%s/tx?name=db&lockID=%d", p.Server.URL(), lockID), bytes.NewReader(body))
		req.Header.Set("Litefs-Id", litefs.FormatNodeID(0x33))
		resp, err := http.DefaultClient.Do(req)
		if err != nil {
			return 0
		}
		_, _ = io.Copy(io.Discard, resp.Body)
		resp.Body.Close()
		return resp.StatusCode
	}
	// the forwarded journal-mode switch: page 1 with versions 1/1
	im, err := lfs.ReadImage(h.DBDir())
	if err != nil || len(im.Pages) == 0 {
		return fmt.Errorf("image: %v", err)
	}
	pos := db.Pos()
	p1 := append([]byte(nil), im.Pages[0]...)
	lfs.SetHeader(p1, ps, uint32(len(im.Pages)), false)
	nim := im.Clone()
	nim.Pages[0] = p1
	if code := post(fwdLTX(uint32(ps), uint32(len(nim.Pages)), uint64(pos.TXID)+1, uint64(pos.PostApplyChecksum), nim.Checksum(), map[uint32][]byte{1: p1})); code != 200 {
		return nil // the switch is not accepted: nothing to judge
	}
	c.Evaluations++
	c.Distinct("halted-mode-switch")
	rep := map[string]any{"kind": "halted-mode-switch"}
	// a local connection opens the (now rollback-journal) database and starts to read
	const owner = 8
	got := db.TryRLocks(bg, owner, []litefs.LockType{litefs.LockTypePending}) && db.TryRLocks(bg, owner, []litefs.LockType{litefs.LockTypeShared})
	_ = db.Unlock(bg, owner, []litefs.LockType{litefs.LockTypePending})
	if got {
		// ... and the holder's next transaction is written underneath it
		pos = db.Pos()
		tgt := uint32(len(nim.Pages))
		pg := lfs.MakePage(ps, tgt, 929292, tgt, false)
		n2 := nim.Clone()
		n2.Pages[tgt-1] = pg
		code := post(fwdLTX(uint32(ps), tgt, uint64(pos.TXID)+1, uint64(pos.PostApplyChecksum), n2.Checksum(), map[uint32][]byte{tgt: pg}))
		if code == 200 && db.Pos().TXID == pos.TXID+1 {
			c.Violate("C11:halted-mode-switch:apply-under-reader", "a halt lock granted on a WAL-mode database holds the database file's SHARED lock only shared; after a forwarded switch to rollback-journal mode a local connection got PENDING and SHARED and started to read, and the holder's next forwarded transaction was written into the database file underneath it", rep)
		}
	}
	_ = db.Unlock(bg, owner, []litefs.LockType{litefs.LockTypeShared})
	return nil
}
