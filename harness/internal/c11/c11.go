// Package c11: LiteFS's internal writers and SQLite connections exclude each other.
package c11

import (
	"context"
	"fmt"
	"os"
	"path/filepath"
	"strings"

	"github.com/superfly/litefs"

	"lfsverif/internal/common"
	"lfsverif/internal/hist"
	"lfsverif/internal/lfs"
)

var bg = context.Background()

var allLocks = []litefs.LockType{litefs.LockTypePending, litefs.LockTypeShared, litefs.LockTypeReserved, litefs.LockTypeWrite, litefs.LockTypeCkpt, litefs.LockTypeRecover,
	litefs.LockTypeRead0, litefs.LockTypeRead1, litefs.LockTypeRead2, litefs.LockTypeRead3, litefs.LockTypeRead4, litefs.LockTypeDMS}
var lockNames = []string{"PENDING", "SHARED", "RESERVED", "WRITE", "CKPT", "RECOVER", "READ0", "READ1", "READ2", "READ3", "READ4", "DMS"}

const (
	iPending = iota
	iShared
	iReserved
	iWrite
	iCkpt
	iRecover
	iRead0
	iRead1
	iRead2
	iRead3
	iRead4
	iDMS
)

type op struct {
	Kind  string `json:"kind"` // trylocks tryrlocks unlock canlock canrlock acquire release walallowed
	Owner int    `json:"owner"`
	Locks []int  `json:"locks,omitempty"`
}

// independent spec: per lock, holder map owner -> 0/1/2 (POSIX byte-range rules), plus the two LiteFS rules
type spec struct {
	h   [12]map[int]int
	wal bool
}

func newSpec(wal bool) *spec {
	s := &spec{wal: wal}
	for i := range s.h {
		s.h[i] = map[int]int{}
	}
	return s
}
func (s *spec) othersUnlocked(l, g int) bool {
	for o, v := range s.h[l] {
		if o != g && v != 0 {
			return false
		}
	}
	return true
}
func (s *spec) othersNotExcl(l, g int) bool {
	for o, v := range s.h[l] {
		if o != g && v == 2 {
			return false
		}
	}
	return true
}
func (s *spec) mstate(l int) int {
	m := 0
	for _, v := range s.h[l] {
		if v == 2 {
			return 2
		}
		if v == 1 {
			m = 1
		}
	}
	return m
}
func (s *spec) tryX(l, g int) bool {
	if s.othersUnlocked(l, g) {
		s.h[l][g] = 2
		return true
	}
	return false
}
func (s *spec) tryS(l, g int) bool {
	if s.othersNotExcl(l, g) {
		s.h[l][g] = 1
		return true
	}
	return false
}
func (s *spec) restore(locks []int, prev []int, g int) {
	for i, l := range locks {
		if s.h[l][g] == prev[i] {
			continue
		}
		switch prev[i] {
		case 0:
			s.h[l][g] = 0
		case 1:
			s.tryS(l, g)
		case 2:
			s.tryX(l, g)
		}
	}
}
func (s *spec) apply(o op) int {
	g := o.Owner
	switch o.Kind {
	case "trylocks":
		// a request over several locks is granted or refused as a whole: a refusal puts the locks taken so far back
		var prev []int
		for i, l := range o.Locks {
			if l == iCkpt && s.mstate(iWrite) != 0 && s.h[iWrite][g] != 2 {
				s.restore(o.Locks[:i], prev, g)
				return 0
			}
			p := s.h[l][g]
			if !s.tryX(l, g) {
				s.restore(o.Locks[:i], prev, g)
				return 0
			}
			prev = append(prev, p)
		}
		return 1
	case "tryrlocks":
		var prev []int
		for i, l := range o.Locks {
			p := s.h[l][g]
			if !s.tryS(l, g) {
				s.restore(o.Locks[:i], prev, g)
				return 0
			}
			prev = append(prev, p)
		}
		return 1
	case "unlock":
		for _, l := range o.Locks {
			s.h[l][g] = 0
		}
		return 2
	case "canlock":
		for _, l := range o.Locks {
			if !s.othersUnlocked(l, g) {
				return 10 + s.mstate(l)
			}
		}
		return 13
	case "canrlock":
		for _, l := range o.Locks {
			if !s.othersNotExcl(l, g) {
				return 0
			}
		}
		return 1
	case "acquire":
		type a struct {
			x bool
			l int
			u bool
		}
		script := []a{{false, iPending, false}, {false, iShared, false}, {false, iPending, true}}
		if s.wal {
			script = append(script, a{false, iDMS, false}, a{true, iWrite, false}, a{true, iCkpt, false}, a{true, iRecover, false}, a{true, iRead0, false}, a{true, iRead1, false}, a{true, iRead2, false}, a{true, iRead3, false}, a{true, iRead4, false})
		} else {
			script = append(script, a{true, iReserved, false}, a{true, iPending, false}, a{true, iShared, false})
		}
		for _, st := range script {
			ok := true
			switch {
			case st.u:
				s.h[st.l][g] = 0
			case st.x:
				ok = s.tryX(st.l, g)
			default:
				ok = s.tryS(st.l, g)
			}
			if !ok {
				for l := range s.h {
					s.h[l][g] = 0
				}
				return 0
			}
		}
		return 1
	case "release":
		for l := range s.h {
			s.h[l][g] = 0
		}
		return 2
	case "unlockdb":
		for _, l := range []int{iPending, iReserved, iShared} {
			s.h[l][g] = 0
		}
		return 2
	case "unlockshm":
		for _, l := range []int{iWrite, iCkpt, iRecover, iRead0, iRead1, iRead2, iRead3, iRead4, iDMS} {
			s.h[l][g] = 0
		}
		return 2
	default: // walallowed
		if s.mstate(iWrite) == 2 {
			return 1
		}
		return 0
	}
}

func lts(ix []int) []litefs.LockType {
	var out []litefs.LockType
	for _, i := range ix {
		out = append(out, allLocks[i])
	}
	return out
}

func coqOp(o op) string {
	ls := common.CoqNatList(o.Locks)
	switch o.Kind {
	case "trylocks":
		return fmt.Sprintf("OTryLocks %d %s", o.Owner, ls)
	case "tryrlocks":
		return fmt.Sprintf("OTryRLocks %d %s", o.Owner, ls)
	case "unlock":
		return fmt.Sprintf("OUnlockL %d %s", o.Owner, ls)
	case "canlock":
		return fmt.Sprintf("OCanLockL %d %s", o.Owner, ls)
	case "canrlock":
		return fmt.Sprintf("OCanRLockL %d %s", o.Owner, ls)
	case "acquire":
		return fmt.Sprintf("OAcquireWrite %d WAL", o.Owner)
	case "release":
		return fmt.Sprintf("OReleaseAll %d", o.Owner)
	case "unlockdb":
		return fmt.Sprintf("OUnlockDatabaseL %d", o.Owner)
	case "unlockshm":
		return fmt.Sprintf("OUnlockSHML %d", o.Owner)
	}
	return "OWalWriteAllowed"
}

func describe(ops []op) string {
	var parts []string
	for _, o := range ops {
		var ns []string
		for _, l := range o.Locks {
			ns = append(ns, lockNames[l])
		}
		parts = append(parts, fmt.Sprintf("%s(o%d %s)", o.Kind, o.Owner, strings.Join(ns, ",")))
	}
	return strings.Join(parts, " ")
}

func genOps(r *common.Rand, wal bool, n int) []op {
	var ops []op
	nextInternal := 100
	var heldInternal []int
	dbSets := [][]int{{iPending}, {iShared}, {iReserved}, {iPending, iReserved, iShared}, {iShared, iPending}}
	walSets := [][]int{{iWrite}, {iCkpt}, {iRecover}, {iRead0}, {iRead1}, {iRead3}, {iDMS}, {iWrite, iCkpt, iRecover}, {iRead0, iRead1, iRead2, iRead3, iRead4}, {iCkpt, iWrite}}
	for i := 0; i < n; i++ {
		owner := 1 + r.Intn(3)
		sets := dbSets
		if wal && r.Chance(70) {
			sets = walSets
		} else if r.Chance(15) {
			sets = walSets
		}
		set := sets[r.Intn(len(sets))]
		switch x := r.Intn(100); {
		case x < 25:
			ops = append(ops, op{"trylocks", owner, set})
		case x < 50:
			ops = append(ops, op{"tryrlocks", owner, set})
		case x < 62:
			ops = append(ops, op{"unlock", owner, set})
		case x < 65:
			ops = append(ops, op{"unlockdb", owner, nil}) // flush of a database-file handle
		case x < 68:
			if wal {
				ops = append(ops, op{"unlockshm", owner, nil}) // flush of a shm handle
			} else {
				ops = append(ops, op{"unlockdb", owner, nil})
			}
		case x < 75:
			ops = append(ops, op{"canlock", owner, set})
		case x < 80:
			ops = append(ops, op{"canrlock", owner, set})
		case x < 90:
			ops = append(ops, op{"acquire", nextInternal, nil})
			heldInternal = append(heldInternal, nextInternal)
			nextInternal++
		case x < 96 && len(heldInternal) > 0:
			k := r.Intn(len(heldInternal))
			ops = append(ops, op{"release", heldInternal[k], nil})
			heldInternal = append(heldInternal[:k], heldInternal[k+1:]...)
		default:
			ops = append(ops, op{"walallowed", 0, nil})
		}
	}
	return ops
}

func runSeq(c *common.Ctx, r *common.Rand, wal bool, ops []op, cf *common.CaseFile, dirBase string) error {
	cfg := hist.Config{PageSize: 512, Regime: 0, AllowWAL: wal, ForceWAL: wal}
	h, err := hist.New(c, r.Fork(), cfg)
	if err != nil {
		if h != nil {
			h.Close()
		}
		return err
	}
	defer h.Close()
	for done := 0; done < 2; {
		st := h.GenStep()
		if st.Op != "rtx" && st.Op != "wtx" {
			continue
		}
		st.Outcome = 0
		if ob := h.Exec(st); ob.Err != "" || ob.Panic != "" {
			return nil
		}
		done++
	}
	db := h.DB
	if (db.Mode() == litefs.DBModeWAL) != wal {
		return nil
	}
	sp := newSpec(wal)
	internal := map[int]*litefs.GuardSet{}
	var obs []int
	rep := func(i int) map[string]any {
		return map[string]any{"kind": "lock-sequence", "wal": wal, "ops": ops[:i+1], "text": describe(ops[:i+1])}
	}
	for i, o := range ops {
		var code int
		pan := common.Try(func() {
			switch o.Kind {
			case "trylocks":
				ok, err := db.TryLocks(bg, uint64(o.Owner), lts(o.Locks))
				if err != nil {
					code = 98
				} else if ok {
					code = 1
				}
			case "tryrlocks":
				if db.TryRLocks(bg, uint64(o.Owner), lts(o.Locks)) {
					code = 1
				}
			case "unlock":
				// releasing WRITE exclusively triggers CommitWAL, which must find nothing to commit
				_ = db.Unlock(bg, uint64(o.Owner), lts(o.Locks))
				code = 2
			case "canlock":
				ok, m := db.CanLock(bg, uint64(o.Owner), lts(o.Locks))
				code = 10 + int(m)
				if ok {
					code = 13
				}
			case "canrlock":
				if db.CanRLock(bg, uint64(o.Owner), lts(o.Locks)) {
					code = 1
				}
			case "acquire":
				if gs := db.TryAcquireWriteLock(); gs != nil {
					internal[o.Owner] = gs
					code = 1
				}
			case "unlockdb":
				db.UnlockDatabase(bg, uint64(o.Owner))
				code = 2
			case "unlockshm":
				db.UnlockSHM(bg, uint64(o.Owner))
				code = 2
			case "release":
				if gs := internal[o.Owner]; gs != nil {
					gs.Unlock()
					delete(internal, o.Owner)
				}
				code = 2
			default:
				// a WAL frame write without the WRITE lock must be refused and leave the file unchanged
				wpath := filepath.Join(h.DBDir(), "wal")
				before, _ := os.ReadFile(wpath)
				f, err := os.OpenFile(wpath, os.O_RDWR|os.O_CREATE, 0o666)
				if err == nil {
					werr := db.WriteWALAt(bg, f, make([]byte, 24), 32, 9)
					_ = f.Close()
					after, _ := os.ReadFile(wpath)
					if werr == nil {
						code = 1
						_ = os.WriteFile(wpath, before, 0o666)
					} else if string(after) != string(before) {
						code = 97
					}
				}
			}
		})
		if pan != "" {
			code = 99
		}
		want := sp.apply(o)
		c.Evaluations++
		obs = append(obs, code)
		if code != want {
			kind := fmt.Sprintf("got%d-want%d", code, want)
			c.Violate(fmt.Sprintf("C11:%s:%s:wal=%v", o.Kind, kind, wal), fmt.Sprintf("after %q: %s by owner %d on %v returned %d, the lock rules say %d (panic %q)", describe(ops[:i]), o.Kind, o.Owner, o.Locks, code, want, pan), rep(i))
			return nil
		}
		// property-level oracle on the real lock states
		if o.Kind == "acquire" && code == 1 {
			conf := []int{iPending, iReserved, iShared}
			if wal {
				conf = []int{iWrite, iCkpt, iRecover, iRead0, iRead1, iRead2, iRead3, iRead4}
			}
			for _, l := range conf {
				for owner, v := range sp.h[l] {
					if owner != o.Owner && v != 0 {
						c.Violate(fmt.Sprintf("C11:internal-write-overlaps:%s", lockNames[l]), fmt.Sprintf("the internal write lock was granted while owner %d holds %s", owner, lockNames[l]), rep(i))
						return nil
					}
				}
			}
		}
		if o.Kind == "trylocks" && code == 1 {
			for _, l := range o.Locks {
				if l == iCkpt {
					for owner, v := range sp.h[iWrite] {
						if owner != o.Owner && v != 0 {
							c.Violate("C11:ckpt-while-write", fmt.Sprintf("CKPT was granted to owner %d while owner %d holds WRITE", o.Owner, owner), rep(i))
							return nil
						}
					}
				}
			}
		}
	}
	for i := range allLocks {
		obs = append(obs, int(db.VerifLockState(allLocks[i])))
		if int(db.VerifLockState(allLocks[i])) != sp.mstate(i) {
			c.Violate("C11:final-state:"+lockNames[i], fmt.Sprintf("after %q lock %s is in state %d, the lock rules say %d", describe(ops), lockNames[i], db.VerifLockState(allLocks[i]), sp.mstate(i)), rep(len(ops)-1))
			return nil
		}
	}
	var terms []string
	for _, o := range ops {
		terms = append(terms, strings.Replace(coqOp(o), "WAL", common.CoqBool(wal), 1))
	}
	cf.Add(fmt.Sprintf("([%s], %s)", strings.Join(terms, "; "), common.CoqNatList(obs)), rep(len(ops)-1))
	for _, gs := range internal {
		gs.Unlock()
	}
	return nil
}

// parse ranges: every (start, end) pair around the lock bytes
func parseRanges(c *common.Ctx) {
	pts := []uint64{0, 71, 72, 73, 119, 120, 121, 122, 123, 127, 128, 129, 0x3FFFFFFF, 0x40000000, 0x40000001, 0x40000002, 0x40000003, 0x400001FF, 0x40000200, ^uint64(0)}
	for _, a := range pts {
		for _, b := range pts {
			gotDB := litefs.ParseDatabaseLockRange(a, b)
			gotSHM := litefs.ParseSHMLockRange(a, b)
			c.Evaluations++
			var wantDB, wantSHM []litefs.LockType
			for _, l := range []litefs.LockType{litefs.LockTypePending, litefs.LockTypeReserved, litefs.LockTypeShared} {
				if a <= uint64(l) && uint64(l) <= b {
					wantDB = append(wantDB, l)
				}
			}
			for _, l := range []litefs.LockType{litefs.LockTypeWrite, litefs.LockTypeCkpt, litefs.LockTypeRecover, litefs.LockTypeRead0, litefs.LockTypeRead1, litefs.LockTypeRead2, litefs.LockTypeRead3, litefs.LockTypeRead4, litefs.LockTypeDMS} {
				if a <= uint64(l) && uint64(l) <= b {
					wantSHM = append(wantSHM, l)
				}
			}
			if fmt.Sprint(gotDB) != fmt.Sprint(wantDB) || fmt.Sprint(gotSHM) != fmt.Sprint(wantSHM) {
				c.Violate("C11:parse-range", fmt.Sprintf("byte range [%d,%d] parsed as %v / %v, want %v / %v", a, b, gotDB, gotSHM, wantDB, wantSHM), map[string]any{"start": a, "end": b})
			}
			for _, l := range append(gotDB, gotSHM...) {
				if l == litefs.LockTypeHalt {
					c.Violate("C11:parse-range:halt", "a byte range produced the HALT lock", map[string]any{"start": a, "end": b})
				}
			}
		}
	}
	c.Distinct("parse-ranges")
}

func Run(c *common.Ctx) error {
	cf := c.Cases("cases_c11", "Require Import LF.Base.RWBase LF.Model.Locks.", "list lop * list nat", "mismatches")
	cf.Shard = 80
	parseRanges(c)
	n := c.Pick(60, 600)
	for i := 0; i < n; i++ {
		r := c.Rng.Fork()
		wal := i%2 == 1
		ops := genOps(r, wal, 10+r.Intn(c.Pick(40, 120)))
		if err := runSeq(c, r, wal, ops, cf, c.OutDir); err != nil {
			return err
		}
		c.Distinct(fmt.Sprintf("seq:%v:%d", wal, len(ops)))
		c.Count("lock_ops", len(ops))
		if i == 0 {
			c.Sample(map[string]any{"sequence": describe(ops[:min(10, len(ops))])})
		}
	}
	_ = lfs.ChecksumFlag
	if err := recreatedAfterDrop(c, c.Rng.Fork()); err != nil {
		return err
	}
	if err := haltedModeSwitch(c, c.Rng.Fork()); err != nil {
		return err
	}
	if err := haltRecoveryFails(c, c.Rng.Fork()); err != nil {
		return err
	}
	if err := haltReleaseUnderReader(c, c.Rng.Fork()); err != nil {
		return err
	}
	for _, wal := range []bool{false, true} {
		if err := forwardedApply(c, c.Rng.Fork(), wal); err != nil {
			return err
		}
	}
	for _, wal := range []bool{false, true} {
		if err := restoreExcludesConnections(c, c.Rng.Fork(), wal); err != nil {
			return err
		}
	}
	return nil
}
