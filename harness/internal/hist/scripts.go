package hist

// UnwrittenGrowthSteps is a fixed history of rollback-journal transactions in which the database grows across pages
// that SQLite never writes (free-list leaves: allocated and freed again within the transaction, PGHDR_DONT_WRITE): the
// file system puts zeros there and no WriteDatabaseAt call announces them.  With restarts in between (every page
// checksum is then recomputed from the file), a growth whose last page is unwritten (the pager writes a page of zeros
// there), a rolled-back growth, a shrink and a second growth over the cut-off region, and the switch to the log.
func UnwrittenGrowthSteps() []Step {
	return []Step{
		{Op: "rtx", Writes: map[uint32]uint64{1: 11, 2: 12}, NewSize: 2},
		{Op: "rtx", Writes: map[uint32]uint64{1: 21, 5: 25}, NewSize: 5}, // 3, 4 unwritten
		{Op: "reopen"},
		{Op: "rtx", Writes: map[uint32]uint64{2: 32}, NewSize: 5},
		{Op: "rtx", Writes: map[uint32]uint64{3: 43}, NewSize: 9, JMode: 1},                       // 6, 7, 8 unwritten, 9 zeros from the pager
		{Op: "rtx", Writes: map[uint32]uint64{4: 54, 12: 512}, NewSize: 12, JMode: 2, Outcome: 2}, // growth with unwritten pages rolled back after its writes
		{Op: "rtx", Writes: map[uint32]uint64{7: 67}, NewSize: 9},
		{Op: "rtx", Writes: map[uint32]uint64{3: 73, 10: 710, 11: 711}, NewSize: 11, Die: true}, // the writer dies; LiteFS rolls the journal back itself
		{Op: "rtx", Writes: map[uint32]uint64{2: 82}, NewSize: 11, JMode: 2},                    // 10 unwritten - a page the dead transaction had written
		{Op: "rtx", Writes: map[uint32]uint64{10: 910}, NewSize: 9},
		{Op: "reopen"},
		{Op: "rtx", Writes: map[uint32]uint64{2: 72}, NewSize: 3},           // shrink
		{Op: "rtx", Writes: map[uint32]uint64{7: 87}, NewSize: 7, JMode: 1}, // 4, 5, 6 unwritten, over the region cut off before
		{Op: "rtx", Writes: map[uint32]uint64{5: 95}, NewSize: 7},
		{Op: "reopen"},
		{Op: "rtx", Writes: map[uint32]uint64{1: 101}, NewSize: 10, ToWAL: true}, // 8, 9 unwritten, 10 zeros; into the log
		{Op: "wtx", Frames: [][2]uint64{{9, 119}, {3, 113}}, NewSize: 10},
		{Op: "reopen"},
		{Op: "wtx", Frames: [][2]uint64{{8, 128}}, NewSize: 10},
	}
}
