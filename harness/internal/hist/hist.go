// Package hist: random histories of pager programs, checkpoints, restarts,
// drops and re-creations on one database of a real primary Store, with an
// independent reference (expected image, from-scratch checksum, decoded LTX
// directory) observed after every step.  Shared by C02, C03, C04, C09, C15.
package hist

import (
	"context"
	"fmt"
	"os"
	"path/filepath"
	"sort"
	"strings"
	"time"

	"github.com/superfly/litefs"
	"github.com/superfly/ltx"

	"lfsverif/internal/common"
	"lfsverif/internal/lfs"
)

type Step struct {
	Op           string            `json:"op"`                // rtx | wtx | appckpt | lfsckpt | reopen | drop | lockonly
	Writes       map[uint32]uint64 `json:"writes,omitempty"`  // pgno -> content id
	Frames       [][2]uint64       `json:"frames,omitempty"`  // WAL: (pgno, content id) in write order
	Aborted      [][2]uint64       `json:"aborted,omitempty"` // WAL: frames of a rolled-back tx written first
	NewSize      uint32            `json:"new_size,omitempty"`
	JMode        int               `json:"jmode,omitempty"`
	Outcome      int               `json:"outcome,omitempty"`
	Sector       int               `json:"sector,omitempty"`
	ToWAL        bool              `json:"to_wal,omitempty"`
	ForeignClose bool              `json:"foreign_close,omitempty"` // another connection, which read earlier, closes its handle between the writer's page writes and its commit
	Die          bool              `json:"die,omitempty"`           // rtx: the client dies after its page writes (hot journal left, locks gone); LiteFS then recovers (role change / halt)
	JSplit       int               `json:"jsplit,omitempty"`        // records in the journal's first segment (0: one segment)
	FailCommit   bool              `json:"fail_commit,omitempty"`   // the rename that publishes the transaction file fails once: SQLite rolls back
	Split        bool              `json:"split,omitempty"`
	CkptMode     int               `json:"ckpt_mode,omitempty"` // 0 passive 1 full 2 restart 3 truncate
	Ages         []bool            `json:"ages,omitempty"`      // retention: per file (directory order) older than the cut-off?
	Backup       bool              `json:"backup,omitempty"`    // retention: a backup client is configured
	HWM          uint64            `json:"hwm,omitempty"`       // retention: high-water mark
	Spill        int               `json:"spill,omitempty"`     // rtx: pages beyond old and new size spilled to the file and freed again
	CloseSHM     bool              `json:"close_shm,omitempty"` // wtx: the writer's -shm descriptor is closed with the write lock still held (the process exits right after its commit)
	NoSync       bool              `json:"no_sync,omitempty"`   // rtx: PRAGMA synchronous=OFF (journal header complete from the start, record count 0xffffffff, never rewritten)
}

type Obs struct {
	Step     int
	Op       string
	Err      string
	Panic    string
	Exits    []int
	TXID     uint64
	Chk      uint64
	PageN    uint32
	Mode     int
	Image    *lfs.Image // as read raw from disk
	Expected *lfs.Image // reference semantics
	LTX      []lfs.LTXInfo
	Other    []string
	Captured bool // the step was expected to produce exactly one new transaction
	Pages    []uint64
	Blocks   []uint64
	WAL      litefs.VerifWAL
	Hidden   bool
	Ops      []string // model ops issued during this step (Model/PageDB.v alphabet)
}

type Config struct {
	BackToRollback bool // generate WAL -> rollback journal mode switches (PRAGMA journal_mode=DELETE)
	ForceWAL       bool // switch to WAL mode at the first opportunity
	Retention      bool // generate retention sweeps and stray temporary files
	PageSize       int
	Regime         int // 0 tiny, 1 around 256, 2 around 512, 3 lock page (64K pages)
	AllowWAL       bool
	AllowDrop      bool
	BigEndian      bool
	CommitFaults   bool // some rollback-journal commits fail inside LiteFS (the transaction file cannot be published)
	Clients        bool // other client behaviour: a second connection closing mid-transaction, a writer that dies (LiteFS recovers), WAL transactions rolled back after spilling
}

type Runner struct {
	C          *common.Ctx
	R          *common.Rand
	Cfg        Config
	Dir        string
	Name       string
	Node       *lfs.Node
	DB         *litefs.DB
	Pager      *lfs.Pager
	Ref        *lfs.Image // reference image at the current position
	RefPos     uint64     // expected TXID
	WALMode    bool
	Steps      []Step
	Obs        []Obs
	contentSeq uint64
	owner      uint64
	OpenOpts   []lfs.Option
	Rec        *lfs.Rec
	Store      *litefs.Store // the store the history runs on
	ExitsFn    func() []int
	External   bool // the store is owned by the caller (no reopen)
	failRename bool // CommitFaults: the next rename of a transaction file by CommitJournal fails
	InitTXID   uint64
	InitChk    uint64
	InitImage  *lfs.Image
}

func New(c *common.Ctx, r *common.Rand, cfg Config) (*Runner, error) {
	dir, err := os.MkdirTemp(c.OutDir, "hist-")
	if err != nil {
		return nil, err
	}
	h := &Runner{C: c, R: r, Cfg: cfg, Dir: dir, Name: "db", Ref: &lfs.Image{PageSize: cfg.PageSize}, owner: 100}
	if err := h.open(); err != nil {
		return h, err
	}
	return h, nil
}

// NewOn runs histories on a store owned by the caller (e.g. the primary of a cluster);
// ref/refPos/walMode describe the database as it stands.
func NewOn(c *common.Ctx, r *common.Rand, cfg Config, store *litefs.Store, exits func() []int, name string, ref *lfs.Image, refPos uint64, walMode bool) *Runner {
	h := &Runner{C: c, R: r, Cfg: cfg, Dir: store.Path(), Name: name, Ref: ref, RefPos: refPos, WALMode: walMode, owner: 100 + r.U64()%1000,
		Store: store, ExitsFn: exits, External: true}
	if h.Ref == nil {
		h.Ref = &lfs.Image{PageSize: cfg.PageSize}
	}
	h.DB = store.DB(name)
	if h.DB != nil {
		p := h.DB.Pos()
		h.InitTXID, h.InitChk = uint64(p.TXID), uint64(p.PostApplyChecksum)
	}
	h.InitImage = h.Ref.Clone()
	h.owner++
	h.newPager()
	return h
}

func (h *Runner) open() error {
	opts := h.OpenOpts
	if h.Cfg.CommitFaults {
		opts = append(append([]lfs.Option(nil), opts...), func(s *litefs.Store) {
			ros := &lfs.RecOS{}
			ros.Fail = func(call lfs.OSCall) error {
				if h.failRename && call.Op == "COMMITJOURNAL:LTX" {
					h.failRename = false
					return fmt.Errorf("injected: rename of the transaction file failed")
				}
				return nil
			}
			s.OS = ros
		})
	}
	n, err := lfs.Open(h.Dir, true, opts...)
	h.Node = n
	h.Store = n.Store
	h.ExitsFn = n.Exits
	if err != nil {
		return err
	}
	h.DB = n.Store.DB(h.Name)
	h.owner++
	h.newPager()
	return nil
}

func (h *Runner) newPager() {
	if h.Rec == nil {
		h.Rec = &lfs.Rec{}
	}
	h.Pager = &lfs.Pager{Rec: h.Rec, DB: h.DB, Owner: h.owner, PageSize: h.Cfg.PageSize, Nonce: uint32(h.R.U64()), BigEndianWAL: h.Cfg.BigEndian}
	h.Pager.RestartWAL(uint32(h.R.U64()), uint32(h.R.U64()))
}

func (h *Runner) Close() {
	if h.External {
		return
	}
	if h.Node != nil {
		h.Node.Close()
	}
	_ = os.RemoveAll(h.Dir)
}

func (h *Runner) DBDir() string { return filepath.Join(h.Dir, "dbs", h.Name) }

// Reopen (re)opens the runner's own store on h.Dir with h.OpenOpts.
func (h *Runner) Reopen() error {
	if h.owner == 0 {
		h.owner = 100
	}
	return h.open()
}

// PosTXID / PosChk: the position the database reports now (0 if it does not exist).
func (h *Runner) PosTXID() uint64 {
	if h.DB == nil {
		return 0
	}
	return uint64(h.DB.Pos().TXID)
}
func (h *Runner) PosChk() uint64 {
	if h.DB == nil {
		return 0
	}
	return uint64(h.DB.Pos().PostApplyChecksum)
}

func (h *Runner) ensureDB() error {
	if h.DB != nil && h.DB.PageN() > 0 {
		return nil
	}
	if _, err := os.Stat(filepath.Join(h.DBDir(), "database")); err == nil && h.DB != nil {
		return nil // the (still empty) database file was created by an earlier, failed attempt
	}
	if h.DB == nil || true {
		db, f, err := h.Store.CreateDB(h.Name)
		if err != nil {
			return fmt.Errorf("CreateDB: %w", err)
		}
		_ = f.Close()
		h.DB = db
		h.newPager()
	}
	return nil
}

func (h *Runner) nextContent() uint64 { h.contentSeq++; return h.contentSeq*7919 + h.R.U64()%1000 }

// targetSize picks the next database size according to the regime.
func (h *Runner) targetSize(cur uint32) uint32 {
	r := h.R
	var edges []uint32
	switch h.Cfg.Regime {
	case 0:
		return uint32(1 + r.Intn(12))
	case 1:
		edges = []uint32{254, 255, 256, 257, 258, 259}
	case 2:
		edges = []uint32{510, 511, 512, 513, 514}
	default:
		lp := lfs.LockPgno(h.Cfg.PageSize)
		edges = []uint32{lp - 1, lp, lp + 1, lp + 2, 3, 5}
	}
	if cur == 0 || r.Chance(70) {
		return edges[r.Intn(len(edges))]
	}
	if r.Chance(50) && cur > 3 {
		return cur - uint32(1+r.Intn(3))
	}
	return cur + uint32(r.Intn(3))
}

func (h *Runner) GenStep() Step { return h.genStep() }

func (h *Runner) genStep() Step {
	r := h.R
	cur := uint32(len(h.Ref.Pages))
	if cur == 0 {
		// database must be created by a rollback-mode transaction
		return h.genRTX(cur, false)
	}
	x := r.Intn(100)
	switch {
	case x < 6 && !h.External:
		return Step{Op: "reopen"}
	case x < 9 && h.Cfg.AllowDrop:
		return Step{Op: "drop"}
	case x < 12:
		return Step{Op: "lockonly"}
	case x < 22 && h.Cfg.Retention:
		return h.genRetention()
	case x < 25 && h.Cfg.Retention:
		return Step{Op: "tmpfile"}
	}
	if h.WALMode {
		switch {
		case x < 16 && h.Cfg.BackToRollback:
			return Step{Op: "torollback", NewSize: cur}
		case x < 22:
			return Step{Op: "appckpt", CkptMode: r.Intn(4)}
		case x < 28:
			return Step{Op: "lfsckpt"}
		case x < 36 && h.Cfg.Clients:
			// a WAL transaction that spills frames into the log and rolls back; LiteFS checkpoints afterwards
			st := Step{Op: "wabort", CkptMode: r.Intn(2), Split: r.Chance(40)}
			for i := 0; i < 1+r.Intn(4); i++ {
				st.Aborted = append(st.Aborted, [2]uint64{uint64(1 + r.Intn(int(cur)+2)), h.nextContent()})
			}
			return st
		}
		return h.genWTX(cur)
	}
	toWAL := h.Cfg.AllowWAL && (r.Chance(12) || h.Cfg.ForceWAL)
	return h.genRTX(cur, toWAL)
}

func (h *Runner) genRetention() Step {
	r := h.R
	infos, _ := lfs.ListLTX(h.DBDir())
	n := len(infos)
	st := Step{Op: "retention", Backup: r.Bool()}
	k := 0
	if n > 0 {
		k = r.Intn(n + 1)
	}
	for i := 0; i < n; i++ {
		st.Ages = append(st.Ages, i < k)
	}
	if r.Chance(20) { // non-monotone ages: only the "newest / hwm / subset" guarantees apply
		for i := range st.Ages {
			st.Ages[i] = r.Bool()
		}
	}
	if n > 0 {
		st.HWM = infos[r.Intn(n)].Max + uint64(r.Intn(2))
	}
	return st
}

func (h *Runner) genRTX(cur uint32, toWAL bool) Step {
	r := h.R
	st := Step{Op: "rtx", JMode: r.Intn(3), Sector: []int{512, 512, 4096, 1024}[r.Intn(4)], ToWAL: toWAL, Writes: map[uint32]uint64{}}
	st.NewSize = h.targetSize(cur)
	if r.Chance(20) && cur > 0 {
		st.NewSize = cur
	}
	k := 1 + r.Intn(4)
	for i := 0; i < k; i++ {
		pg := uint32(1 + r.Intn(int(maxU32(st.NewSize, cur))))
		st.Writes[pg] = h.nextContent()
	}
	for pg := cur + 1; pg <= st.NewSize; pg++ { // appended pages are written ...
		st.Writes[pg] = h.nextContent()
	}
	if st.NewSize > cur+1 && r.Chance(30) { // ... except the ones SQLite allocated and freed again within the transaction
		for pg := cur + 1; pg <= st.NewSize; pg++ {
			if pg > 1 && r.Chance(50) {
				delete(st.Writes, pg)
			}
		}
	}
	if cur > 0 {
		switch x := r.Intn(100); {
		case x < 8:
			st.Outcome = int(lfs.RollbackBeforeWrite)
		case x < 16:
			st.Outcome = int(lfs.RollbackAfterWrite)
		}
	} else if r.Chance(12) { // the transaction that would create the database is rolled back
		st.Outcome = int(lfs.RollbackBeforeWrite) + r.Intn(2)
	}
	if cur > 0 && r.Chance(18) {
		st.Spill = 1 + r.Intn(3)
	}
	if h.Cfg.Clients && cur > 1 && r.Chance(25) {
		st.JSplit = 1 + r.Intn(3)
	}
	if st.JSplit == 0 && r.Chance(15) {
		st.NoSync = true
	}
	if h.Cfg.CommitFaults && cur > 0 && st.Outcome == 0 && !toWAL && r.Chance(15) {
		st.FailCommit = true
	}
	if h.Cfg.Clients && cur > 0 && st.Outcome == 0 && !st.FailCommit {
		switch x := r.Intn(100); {
		case x < 12:
			st.ForeignClose = true
		case x < 22 && !toWAL && st.Spill == 0:
			st.Die = true
		}
	}
	if h.Cfg.Regime == 3 { // keep lock-page regimes sparse: do not write thousands of pages
		for pg := range st.Writes {
			if pg > 6 && (pg+3 < lfs.LockPgno(h.Cfg.PageSize) || pg > lfs.LockPgno(h.Cfg.PageSize)+3) {
				delete(st.Writes, pg)
			}
		}
	}
	return st
}

func (h *Runner) genWTX(cur uint32) Step {
	r := h.R
	st := Step{Op: "wtx", Split: r.Bool()}
	st.NewSize = h.targetSize(cur)
	if r.Chance(25) {
		st.NewSize = cur
	}
	if h.Cfg.Regime == 3 && st.NewSize > cur+4 {
		st.NewSize = cur + 1
	}
	k := 1 + r.Intn(5)
	for i := 0; i < k; i++ {
		pg := uint64(1 + r.Intn(int(maxU32(st.NewSize, 1))))
		st.Frames = append(st.Frames, [2]uint64{pg, h.nextContent()})
	}
	for pg := cur + 1; pg <= st.NewSize; pg++ {
		st.Frames = append(st.Frames, [2]uint64{uint64(pg), h.nextContent()})
	}
	if r.Chance(30) && len(st.Frames) > 1 { // repeat a page inside the tx
		st.Frames = append(st.Frames, [2]uint64{st.Frames[0][0], h.nextContent()})
	}
	if r.Chance(15) {
		st.CloseSHM = true
	}
	if r.Chance(20) {
		for i := 0; i < 1+r.Intn(3); i++ {
			st.Aborted = append(st.Aborted, [2]uint64{uint64(1 + r.Intn(int(maxU32(cur, 1)))), h.nextContent()})
		}
	}
	return st
}

var ctx = context.Background()

func maxU32(a, b uint32) uint32 {
	if a > b {
		return a
	}
	return b
}

func (h *Runner) page(pg uint32, content uint64, size uint32, wal bool) []byte {
	p := lfs.MakePage(h.Cfg.PageSize, pg, content, size, wal)
	// ordinary pages whose bytes 18..19 look like page 1's write / read version fields (2 = WAL, 1 = rollback
	// journal): only page 1 says which journal mode the database is in
	if pg != 1 {
		switch content % 5 {
		case 0:
			p[18], p[19] = 2, 2
		case 1:
			p[18], p[19] = 1, 1
		}
	}
	return p
}

// Exec runs one step against the real DB and updates the reference.
func (h *Runner) Exec(st Step) Obs {
	ps := h.Cfg.PageSize
	ob := Obs{Step: len(h.Steps), Op: st.Op}
	h.Steps = append(h.Steps, st)
	exitsBefore := len(h.ExitsFn())
	if h.Rec == nil {
		h.Rec = &lfs.Rec{}
	}
	h.Rec.Ops = nil
	var err error
	ob.Panic = common.Try(func() {
		switch st.Op {
		case "rtx":
			if err = h.ensureDB(); err != nil {
				return
			}
			wal := h.WALMode || st.ToWAL
			tx := lfs.Tx{Writes: map[uint32][]byte{}, NewSize: st.NewSize, Wal: wal, JournalSplit: st.JSplit, NoSync: st.NoSync}
			for pg, cid := range st.Writes {
				tx.Writes[pg] = h.page(pg, cid, st.NewSize, wal)
			}
			if _, ok := tx.Writes[1]; !ok && (st.ToWAL || len(h.Ref.Pages) == 0) {
				tx.Writes[1] = h.page(1, h.nextContent(), st.NewSize, wal)
			}
			if st.Spill > 0 && lfs.RollbackOutcome(st.Outcome) != lfs.RollbackBeforeWrite {
				tx.Spill = map[uint32][]byte{}
				top := maxU32(uint32(len(h.Ref.Pages)), st.NewSize)
				for i := 1; i <= st.Spill; i++ {
					tx.Spill[top+uint32(i)] = h.page(top+uint32(i), h.nextContent(), st.NewSize, wal)
				}
			}
			if st.ForeignClose {
				other := h.owner + 7000
				if h.DB != nil && h.DB.TryRLocks(ctx, other, []litefs.LockType{litefs.LockTypePending}) {
					_ = h.DB.TryRLocks(ctx, other, []litefs.LockType{litefs.LockTypeShared})
					_ = h.DB.Unlock(ctx, other, []litefs.LockType{litefs.LockTypePending, litefs.LockTypeShared})
				}
				h.Pager.BeforeCommit = func() {
					if h.DB != nil {
						h.DB.UnlockDatabase(ctx, other) // close() of the other connection's descriptor
					}
				}
				defer func() { h.Pager.BeforeCommit = nil }()
			}
			if st.Die && lfs.RollbackOutcome(st.Outcome) == lfs.Commit {
				pre := h.Ref
				err = h.Pager.RunRollbackTx(h.Ref, tx, lfs.JournalMode(st.JMode), lfs.DieAfterWrite, st.Sector, 0)
				if err != nil {
					return
				}
				// LiteFS rolls the hot journal back itself (what it does on a role change and when it grants a halt
				// lock): to the model these are page writes of the pre-images, the cut to the old size, and the
				// journal's removal
				if err = h.DB.Recover(ctx); err != nil {
					return
				}
				for _, pg := range h.Pager.LastRecs {
					h.Rec.Write(pg, pre.Pages[pg-1])
				}
				if h.Pager.LastGrew {
					h.Rec.Truncate(uint32(len(pre.Pages)))
				}
				// (rollbackJournal removes the journal without going through the commit path: the pages stay marked
				// as written and the next transaction's file carries them again, unchanged)
				return
			}
			failing := st.FailCommit && lfs.RollbackOutcome(st.Outcome) == lfs.Commit
			if failing {
				h.failRename = true
				h.Pager.RollbackOnCommitError = true
				h.Pager.CommitErr2 = nil
			}
			err = h.Pager.RunRollbackTx(h.Ref, tx, lfs.JournalMode(st.JMode), lfs.RollbackOutcome(st.Outcome), st.Sector, 0)
			if failing {
				h.Pager.RollbackOnCommitError = false
				injected := err != nil && strings.Contains(err.Error(), "injected:") && !h.failRename
				h.failRename = false
				if injected && h.Pager.CommitErr2 == nil {
					// the commit was refused and SQLite rolled back through the journal: the image is the old one,
					// and the second finalisation of the (valid) journal is one transaction for LiteFS
					err = nil
					h.RefPos++
					ob.Captured = true
					return
				}
			}
			if err == nil {
				if lfs.RollbackOutcome(st.Outcome) == lfs.Commit {
					h.Ref = lfs.ApplyTx(h.Ref, tx, ps)
					if st.ToWAL {
						h.WALMode = true
					}
				}
				// a finalised valid journal is one transaction for LiteFS, commit or rollback - except the rollback of the
				// transaction that would have created the database: there is no database yet and nothing is published
				if lfs.RollbackOutcome(st.Outcome) != lfs.Commit && len(h.Ref.Pages) == 0 {
					return
				}
				// ... and a rollback before anything was written to the database: SQLite never synced the journal, its
				// header has no magic, the finalisation is no transaction (with synchronous=OFF the header is complete)
				if lfs.RollbackOutcome(st.Outcome) == lfs.RollbackBeforeWrite && !st.NoSync {
					return
				}
				h.RefPos++
				ob.Captured = true
			}
		case "lockonly":
			if h.DB == nil {
				return
			}
			if h.WALMode {
				if err = h.Pager.BeginWALWrite(); err == nil {
					h.Pager.EndWALWrite()
				}
			} else {
				err = h.Pager.RunRollbackTx(h.Ref, lfs.Tx{}, lfs.JDelete, lfs.LockOnly, 0, 0)
			}
		case "wtx":
			if err = h.Pager.BeginWALWrite(); err != nil {
				return
			}
			if len(st.Aborted) > 0 {
				// make sure the WAL header of this generation exists before marking the roll-back point
				if err = h.Pager.WriteWALFrames(nil, 0, false); err != nil {
					h.Pager.EndWALWrite()
					return
				}
				m := h.Pager.Mark()
				var fr []lfs.WALFrameSpec
				for _, f := range st.Aborted {
					fr = append(fr, lfs.WALFrameSpec{Pgno: uint32(f[0]), Data: h.page(uint32(f[0]), f[1], uint32(len(h.Ref.Pages)), true)})
				}
				if err = h.Pager.WriteWALFrames(fr, 0, st.Split); err != nil {
					h.Pager.EndWALWrite()
					return
				}
				// rolled back: release WRITE (nothing to capture), re-acquire, overwrite
				h.Pager.EndWALWrite()
				h.Pager.ResetTo(m)
				if err = h.Pager.BeginWALWrite(); err != nil {
					return
				}
			}
			var fr []lfs.WALFrameSpec
			tx := lfs.Tx{Writes: map[uint32][]byte{}, NewSize: st.NewSize, Wal: true}
			for _, f := range st.Frames {
				d := h.page(uint32(f[0]), f[1], st.NewSize, true)
				fr = append(fr, lfs.WALFrameSpec{Pgno: uint32(f[0]), Data: d})
				tx.Writes[uint32(f[0])] = d
			}
			// SQLite rewrites page 1 when the size changes; a plain update in WAL mode (the change counter is not used
			// there) leaves it alone
			if _, ok := tx.Writes[1]; !ok && st.NewSize != uint32(len(h.Ref.Pages)) {
				d := append([]byte(nil), h.Ref.Pages[0]...)
				lfs.SetHeader(d, ps, st.NewSize, true)
				fr = append(fr, lfs.WALFrameSpec{Pgno: 1, Data: d})
				tx.Writes[1] = d
			}
			if err = h.Pager.WriteWALFrames(fr, st.NewSize, st.Split); err != nil {
				h.Pager.EndWALWrite()
				return
			}
			h.Pager.CloseSHM = st.CloseSHM
			h.Pager.EndWALWrite()
			h.Pager.CloseSHM = false
			h.Ref = lfs.ApplyTx(h.Ref, tx, ps)
			h.RefPos++
			ob.Captured = true
		case "wabort":
			if err = h.Pager.BeginWALWrite(); err != nil {
				return
			}
			if err = h.Pager.WriteWALFrames(nil, 0, false); err != nil { // the header of this generation exists
				h.Pager.EndWALWrite()
				return
			}
			m := h.Pager.Mark()
			var fr []lfs.WALFrameSpec
			for _, f := range st.Aborted {
				fr = append(fr, lfs.WALFrameSpec{Pgno: uint32(f[0]), Data: h.page(uint32(f[0]), f[1], uint32(len(h.Ref.Pages)), true)})
			}
			if err = h.Pager.WriteWALFrames(fr, 0, false); err != nil {
				h.Pager.EndWALWrite()
				return
			}
			if st.Split {
				// ... and is interrupted inside one more frame: the log ends after that frame's header
				pg := uint32(1 + len(h.Ref.Pages)/2)
				if err = h.Pager.WriteTornFrame(lfs.WALFrameSpec{Pgno: pg, Data: h.page(pg, h.nextContent(), uint32(len(h.Ref.Pages)), true)}); err != nil {
					h.Pager.DropPending()
					h.Pager.EndWALWrite()
					return
				}
			}
			h.Pager.DropPending()
			h.Pager.EndWALWrite() // nothing committed: nothing to capture
			h.Pager.ResetTo(m)
			if st.CkptMode == 1 {
				// LiteFS checkpoints on its own (role change, halt lock, backup restore) with the rolled-back frames
				// still sitting, valid, behind the last commit
				h.Rec.Checkpoint()
				if err = h.DB.Checkpoint(ctx); err == nil {
					h.Pager.RestartWAL(uint32(h.R.U64()), uint32(h.R.U64()))
				}
			}
		case "torollback":
			// PRAGMA journal_mode=DELETE in WAL mode: a WAL transaction rewrites page 1 with version 1,
			// the WAL is checkpointed completely and the -wal / -shm files are deleted
			if err = h.Pager.BeginWALWrite(); err != nil {
				return
			}
			d := append([]byte(nil), h.Ref.Pages[0]...)
			lfs.SetHeader(d, ps, uint32(len(h.Ref.Pages)), false)
			tx := lfs.Tx{Writes: map[uint32][]byte{1: d}, NewSize: uint32(len(h.Ref.Pages)), Wal: false}
			if err = h.Pager.WriteWALFrames([]lfs.WALFrameSpec{{Pgno: 1, Data: d}}, uint32(len(h.Ref.Pages)), false); err != nil {
				h.Pager.EndWALWrite()
				return
			}
			h.Pager.EndWALWrite()
			h.Ref = lfs.ApplyTx(h.Ref, tx, ps)
			h.RefPos++
			ob.Captured = true
			if err = h.appCheckpoint(3); err != nil {
				return
			}
			h.Rec.Ops = append(h.Rec.Ops, "OWalTruncate")
			_ = h.DB.RemoveWAL(context.Background())
			_ = h.DB.RemoveSHM(context.Background())
			h.WALMode = false
		case "torollbackj":
			// PRAGMA journal_mode=DELETE as SQLite runs it (vdbe.c OP_JournalMode): the log is closed first - checkpointed
			// completely, -wal and -shm deleted - and then page 1 is rewritten with version 1 in a transaction that
			// "regardless of the journal mode ... always uses a rollback journal"
			if err = h.appCheckpoint(3); err != nil {
				return
			}
			h.Rec.Ops = append(h.Rec.Ops, "OWalTruncate")
			_ = h.DB.RemoveWAL(context.Background())
			_ = h.DB.RemoveSHM(context.Background())
			d := append([]byte(nil), h.Ref.Pages[0]...)
			lfs.SetHeader(d, ps, uint32(len(h.Ref.Pages)), false)
			tx := lfs.Tx{Writes: map[uint32][]byte{1: d}, NewSize: uint32(len(h.Ref.Pages)), Wal: false}
			first := len(h.Rec.Ops)
			err = h.Pager.RunRollbackTx(h.Ref, tx, lfs.JournalMode(st.JMode), lfs.Commit, st.Sector, 0)
			for i := first; i < len(h.Rec.Ops); i++ { // page writes inside a rollback-journal transaction
				if strings.HasPrefix(h.Rec.Ops[i], "OWrite ") {
					h.Rec.Ops[i] = "OWriteJ " + strings.TrimPrefix(h.Rec.Ops[i], "OWrite ")
				}
			}
			if err == nil {
				h.Ref = lfs.ApplyTx(h.Ref, tx, ps)
				h.RefPos++
				ob.Captured = true
				h.WALMode = false
			}
		case "appckpt":
			err = h.appCheckpoint(st.CkptMode)
		case "lfsckpt":
			h.Rec.Checkpoint()
			err = h.DB.Checkpoint(context.Background())
			if err == nil {
				h.Pager.RestartWAL(uint32(h.R.U64()), uint32(h.R.U64()))
			}
		case "reopen":
			h.Node.Close()
			h.Rec.Open()
			if err = h.open(); err == nil {
				if h.DB == nil {
					err = fmt.Errorf("database missing after reopen")
				}
			}
		case "retention":
			err = h.retention(st)
		case "tmpfile":
			// stray temporary files with a TXID beyond the position must never be mistaken for transactions
			dir := filepath.Join(h.DBDir(), "ltx")
			t := h.RefPos + 5
			_ = os.WriteFile(filepath.Join(dir, fmt.Sprintf("%016x-%016x.ltx.tmp", t, t)), []byte("garbage"), 0o644)
			_ = os.WriteFile(filepath.Join(dir, fmt.Sprintf("%016x-%016x.ltx.%d.tmp", t+1, t+1, 12345)), []byte("garbage"), 0o644)
		case "drop":
			h.Rec.Drop()
			err = h.DB.Drop(context.Background())
			if err == nil {
				h.Ref = &lfs.Image{PageSize: ps}
				h.RefPos++
				h.WALMode = false
				ob.Captured = true
			}
		}
	})
	if err != nil {
		ob.Err = err.Error()
	}
	if ex := h.ExitsFn(); len(ex) > exitsBefore {
		ob.Exits = ex[exitsBefore:]
	}
	ob.Ops = append([]string(nil), h.Rec.Ops...)
	h.observe(&ob)
	h.Obs = append(h.Obs, ob)
	return ob
}

// appCheckpoint simulates an application (SQLite) checkpoint in the given mode.
func (h *Runner) appCheckpoint(mode int) error {
	db, o := h.DB, h.Pager.Owner
	ctx := context.Background()
	ps := h.Cfg.PageSize
	h.Pager.EnsureWAL()
	if ok, err := db.TryLocks(ctx, o, []litefs.LockType{litefs.LockTypeCkpt}); err != nil || !ok {
		return fmt.Errorf("busy: ckpt (%v)", err)
	}
	defer func() { _ = db.Unlock(ctx, o, []litefs.LockType{litefs.LockTypeCkpt}) }()
	// back-fill: latest committed version of each WAL page -> database file
	walBytes, _ := os.ReadFile(filepath.Join(h.DBDir(), "wal"))
	frames, _, ok := lfs.ReadWALValid(walBytes)
	if ok {
		last := -1
		for i, f := range frames {
			if f.Commit != 0 {
				last = i
			}
		}
		latest := map[uint32][]byte{}
		var size uint32
		for i := 0; i <= last; i++ {
			latest[frames[i].Pgno] = frames[i].Data
			if frames[i].Commit != 0 {
				size = frames[i].Commit
			}
		}
		if last >= 0 {
			dbf, err := db.OpenDatabase(ctx)
			if err != nil {
				return err
			}
			defer dbf.Close()
			var pgs []uint32
			for pg := range latest {
				pgs = append(pgs, pg)
			}
			sort.Slice(pgs, func(i, j int) bool { return pgs[i] < pgs[j] })
			for _, pg := range pgs {
				if pg > size {
					continue
				}
				if err := db.WriteDatabaseAt(ctx, dbf, latest[pg], int64(pg-1)*int64(ps), o); err != nil {
					return fmt.Errorf("ckpt write page %d: %w", pg, err)
				}
				h.Rec.Write(pg, latest[pg])
			}
			_ = db.SyncDatabase(ctx)
			// the database file is cut to the size of the last commit
			if fi, err := os.Stat(filepath.Join(h.DBDir(), "database")); err == nil && fi.Size() > int64(size)*int64(ps) {
				h.Rec.Truncate(size)
				if err := db.TruncateDatabase(ctx, int64(size)*int64(ps)); err != nil {
					return fmt.Errorf("ckpt truncate: %w", err)
				}
			}
		}
	}
	if mode >= 2 { // RESTART / TRUNCATE: needs the writer lock and all readers out
		if ok, err := db.TryLocks(ctx, o, []litefs.LockType{litefs.LockTypeWrite}); err != nil || !ok {
			return nil // degrade to FULL
		}
		if mode == 3 {
			h.Rec.WalTruncate()
			if err := db.TruncateWAL(ctx, 0); err != nil {
				_ = db.Unlock(ctx, o, []litefs.LockType{litefs.LockTypeWrite})
				return fmt.Errorf("truncate wal: %w", err)
			}
		}
		_ = db.Unlock(ctx, o, []litefs.LockType{litefs.LockTypeWrite})
		h.Pager.RestartWAL(uint32(h.R.U64()), uint32(h.R.U64()))
	}
	return nil
}

func (h *Runner) retention(st Step) error {
	infos, _ := lfs.ListLTX(h.DBDir())
	if len(infos) != len(st.Ages) {
		return nil
	}
	t0 := time.Now()
	for i, f := range infos {
		mt := t0.Add(time.Hour)
		if st.Ages[i] {
			mt = t0.Add(-time.Hour)
		}
		_ = os.Chtimes(filepath.Join(h.DBDir(), "ltx", f.Name), mt, mt)
	}
	if st.Backup {
		h.Store.BackupClient = litefs.NewFileBackupClient(filepath.Join(h.Dir, "backup-unused"))
	} else {
		h.Store.BackupClient = nil
	}
	h.DB.SetHWM(ltx.TXID(st.HWM))
	ages := "["
	for i, a := range st.Ages {
		if i > 0 {
			ages += ";"
		}
		if a {
			ages += "true"
		} else {
			ages += "false"
		}
	}
	h.Rec.Ops = append(h.Rec.Ops, fmt.Sprintf("ORetention %s] %v %d", ages, st.Backup, st.HWM))
	err := h.DB.EnforceRetention(context.Background(), t0)
	h.Store.BackupClient = nil
	return err
}

func (h *Runner) observe(ob *Obs) {
	if h.Store == nil {
		return
	}
	if db := h.Store.DB(h.Name); db != nil {
		pos := db.Pos()
		ob.TXID, ob.Chk, ob.PageN, ob.Mode = uint64(pos.TXID), uint64(pos.PostApplyChecksum), db.PageN(), int(db.Mode())
		pages, blocks := db.VerifChecksumCache()
		for _, p := range pages {
			ob.Pages = append(ob.Pages, uint64(p))
		}
		for _, b := range blocks {
			ob.Blocks = append(ob.Blocks, uint64(b))
		}
		ob.WAL = db.VerifWALState()
	}
	im, err := lfs.ReadImage(h.DBDir())
	if err == nil {
		ob.Image = im
	}
	ob.Expected = h.Ref.Clone()
	ob.LTX, ob.Other = lfs.ListLTX(h.DBDir())
}

// Run executes n generated steps; stops early on harness-level failure.
func (h *Runner) Run(n int) {
	for i := 0; i < n; i++ {
		st := h.genStep()
		ob := h.Exec(st)
		if ob.Panic != "" || len(ob.Exits) > 0 {
			return // the node is not usable any more; the caller reports
		}
	}
}
