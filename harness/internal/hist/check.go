package hist

import (
	"fmt"

	"lfsverif/internal/common"
	"lfsverif/internal/lfs"
)

// Oracles over an observed history.  Each returns nothing and reports through c.Violate.
// The replay is the step list up to and including the failing step.

func (h *Runner) replay(upTo int, what string) map[string]any {
	n := upTo + 1
	if n > len(h.Steps) {
		n = len(h.Steps)
	}
	return map[string]any{"kind": "history", "what": what, "page_size": h.Cfg.PageSize, "regime": h.Cfg.Regime, "big_endian_wal": h.Cfg.BigEndian, "steps": h.Steps[:n]}
}

func sizeClass(n int) string {
	switch {
	case n == 0:
		return "0"
	case n == 1:
		return "1"
	case n < 250:
		return "small"
	case n <= 255:
		return "<256"
	case n == 256:
		return "256"
	case n == 257:
		return "257"
	case n < 512:
		return "257-511"
	case n == 512:
		return "512"
	case n == 513:
		return "513"
	default:
		return ">513"
	}
}

// CheckCrash: panics and Store.Exit calls are failures for every property that drives histories.
func (h *Runner) CheckCrash(c *common.Ctx, prop string) bool {
	for _, ob := range h.Obs {
		if ob.Panic != "" {
			st := h.Steps[ob.Step]
			c.Violate(fmt.Sprintf("%s:panic:%s:%s->%s", prop, ob.Op, sizeClass(len(h.prevExpected(ob.Step).Pages)), sizeClass(int(st.NewSize))),
				fmt.Sprintf("step %d (%s) panicked: %s", ob.Step, ob.Op, ob.Panic), h.replay(ob.Step, "panic"))
			return true
		}
		if len(ob.Exits) > 0 {
			c.Violate(fmt.Sprintf("%s:exit:%s", prop, ob.Op), fmt.Sprintf("step %d (%s) made the node call Exit(%v)", ob.Step, ob.Op, ob.Exits), h.replay(ob.Step, "exit"))
			return true
		}
	}
	return false
}

func (h *Runner) prevExpected(step int) *lfs.Image {
	if step == 0 {
		return &lfs.Image{PageSize: h.Cfg.PageSize}
	}
	return h.Obs[step-1].Expected
}

// CheckChecksum (C04): reported checksum == from-scratch checksum of the raw on-disk logical image.
func (h *Runner) CheckChecksum(c *common.Ctx) {
	for _, ob := range h.Obs {
		if ob.Panic != "" || len(ob.Exits) > 0 || ob.Image == nil {
			return
		}
		if ob.TXID == 0 && len(ob.Image.Pages) == 0 {
			continue
		}
		want := ob.Image.Checksum()
		c.Evaluations++
		c.Distinct(fmt.Sprintf("chk:%s:%s:%d", ob.Op, sizeClass(len(ob.Image.Pages)), ob.Mode))
		if ob.Chk != want {
			c.Violate(fmt.Sprintf("C04:mismatch:%s", ob.Op),
				fmt.Sprintf("after step %d (%s) position %d reports checksum %016x but the database on disk (%d pages) checksums to %016x", ob.Step, ob.Op, ob.TXID, ob.Chk, len(ob.Image.Pages), want),
				h.replay(ob.Step, "checksum"))
			return
		}
		if len(ob.Image.Pages) == 0 && ob.Chk != lfs.ChecksumFlag {
			c.Violate("C04:empty", "empty database does not report the empty checksum", h.replay(ob.Step, "empty"))
			return
		}
	}
}

// CheckCapture (C02/C03): transactions captured exactly, once, in order.
func (h *Runner) CheckCapture(c *common.Ctx, prop string, ops map[string]bool) {
	prevTXID, prevChk := h.InitTXID, h.InitChk
	prevImage := &lfs.Image{PageSize: h.Cfg.PageSize}
	if h.InitImage != nil {
		prevImage = h.InitImage
	}
	prevFiles := map[string]bool{}
	if h.External {
		if infos, _ := lfs.ListLTX(h.DBDir()); len(h.Obs) > 0 {
			// files that existed before this runner's first step
			for _, f := range infos {
				if f.Max <= h.InitTXID {
					prevFiles[f.Name] = true
				}
			}
		}
	}
	for _, ob := range h.Obs {
		if ob.Panic != "" || len(ob.Exits) > 0 || ob.Image == nil {
			return
		}
		st := h.Steps[ob.Step]
		files := map[string]bool{}
		var newFiles []lfs.LTXInfo
		for _, f := range ob.LTX {
			files[f.Name] = true
			if !prevFiles[f.Name] {
				newFiles = append(newFiles, f)
			}
		}
		if ops[ob.Op] && ob.Err == "" {
			c.Evaluations++
			c.Distinct(fmt.Sprintf("%s:%s:%d:%d:%s->%s", prop, ob.Op, st.JMode, st.Outcome, sizeClass(len(prevImage.Pages)), sizeClass(len(ob.Image.Pages))))
			key := fmt.Sprintf("%s:%s", prop, ob.Op)
			fail := func(k, msg string) {
				c.Violate(key+":"+k, fmt.Sprintf("step %d (%s): %s", ob.Step, ob.Op, msg), h.replay(ob.Step, k))
			}
			// image SQLite sees == expected image
			if ok, why := ob.Image.Equal(ob.Expected); !ok {
				fail("image", "image on disk differs from the image SQLite wrote: "+why)
				return
			}
			adv := ob.TXID - prevTXID
			if ob.Captured {
				if adv != 1 {
					fail("advance", fmt.Sprintf("position advanced by %d (from %d to %d), want exactly 1", adv, prevTXID, ob.TXID))
					return
				}
				if len(newFiles) != 1 {
					fail("files", fmt.Sprintf("%d new transaction files, want 1", len(newFiles)))
					return
				}
				f := newFiles[0]
				if !f.Valid {
					fail("invalid-ltx", "new transaction file does not verify: "+f.Err)
					return
				}
				if f.Min != ob.TXID || f.Max != ob.TXID {
					fail("txid", fmt.Sprintf("file covers %d-%d, position is %d", f.Min, f.Max, ob.TXID))
					return
				}
				if f.Pre != prevChk && !(prevTXID == 0 && f.Pre == 0) {
					fail("pre", fmt.Sprintf("pre-apply checksum %016x, previous position had %016x", f.Pre, prevChk))
					return
				}
				if f.Post != ob.Chk {
					fail("post", "post-apply checksum differs from the reported position")
					return
				}
				lock := lfs.LockPgno(h.Cfg.PageSize)
				last := uint32(0)
				for _, pg := range f.Pgnos {
					if pg > f.Commit || pg == lock || pg <= last {
						fail("pages", fmt.Sprintf("page list %v not sorted / beyond commit %d / contains lock page %d", f.Pgnos, f.Commit, lock))
						return
					}
					last = pg
				}
				applied := lfs.ApplyLTX(prevImage, f)
				if ok, why := applied.Equal(ob.Image); !ok {
					fail("apply", "transaction file applied to the previous image does not give the current image: "+why)
					return
				}
				if f.Commit != uint32(len(ob.Image.Pages)) {
					fail("commit", fmt.Sprintf("commit %d but image has %d pages", f.Commit, len(ob.Image.Pages)))
					return
				}
			} else {
				if adv != 0 || len(newFiles) != 0 {
					fail("spurious", fmt.Sprintf("position advanced by %d with %d new files although nothing was committed", adv, len(newFiles)))
					return
				}
			}
		}
		if ob.Err == "" || ob.TXID != prevTXID {
			prevTXID, prevChk = ob.TXID, ob.Chk
			prevImage = ob.Image
		}
		prevFiles = files
	}
}

// CheckRetention (C09): a sweep never removes the newest file, never a file at or above the high-water
// mark when a backup client is configured, and never creates files.
func (h *Runner) CheckRetention(c *common.Ctx) {
	for i, ob := range h.Obs {
		if ob.Op != "retention" || i == 0 || ob.Panic != "" {
			continue
		}
		st := h.Steps[ob.Step]
		before, after := h.Obs[i-1].LTX, ob.LTX
		if len(before) == 0 {
			continue
		}
		c.Evaluations++
		c.Distinct(fmt.Sprintf("retention:%d:%v:%d", len(before), st.Backup, len(before)-len(after)))
		have := map[string]bool{}
		for _, f := range after {
			have[f.Name] = true
		}
		was := map[string]bool{}
		for _, f := range before {
			was[f.Name] = true
		}
		for _, f := range after {
			if !was[f.Name] {
				c.Violate("C09:retention:new-file", "a retention sweep created "+f.Name, h.replay(ob.Step, "retention"))
			}
		}
		newest := before[len(before)-1]
		if !have[newest.Name] {
			c.Violate("C09:retention:newest-removed", fmt.Sprintf("retention removed the newest transaction file %s", newest.Name), h.replay(ob.Step, "retention"))
		}
		for j, f := range before {
			if have[f.Name] {
				continue
			}
			if j < len(st.Ages) && !st.Ages[j] {
				c.Violate("C09:retention:young-removed", fmt.Sprintf("retention removed %s although it is newer than the cut-off", f.Name), h.replay(ob.Step, "retention"))
			}
			if st.Backup && f.Max >= st.HWM {
				c.Violate("C09:retention:unconfirmed-removed", fmt.Sprintf("retention removed %s (max TXID %d) although the backup high-water mark is %d", f.Name, f.Max, st.HWM), h.replay(ob.Step, "retention"))
			}
		}
	}
}

// monotoneAges reports whether a retention step used ages that do not decrease along the directory.
func monotoneAges(a []bool) bool {
	seenYoung := false
	for _, old := range a {
		if !old {
			seenYoung = true
		} else if seenYoung {
			return false
		}
	}
	return true
}

// CheckChain (C09): the LTX directory is one contiguous self-verifying chain ending at the position.
func (h *Runner) CheckChain(c *common.Ctx) {
	gapAllowed := false
	for _, ob := range h.Obs {
		if ob.Panic != "" || len(ob.Exits) > 0 {
			return
		}
		if ob.Op == "retention" {
			st := h.Steps[ob.Step]
			// with ages that decrease along the directory, or a high-water mark inside the old prefix,
			// the sweep may legitimately leave a gap (the stream then falls back to a snapshot)
			if !monotoneAges(st.Ages) {
				gapAllowed = true
			}
		}
		if len(ob.LTX) == 0 {
			if ob.TXID != 0 {
				c.Violate("C09:empty-log", fmt.Sprintf("step %d: position %d but no transaction files", ob.Step, ob.TXID), h.replay(ob.Step, "chain"))
				return
			}
			continue
		}
		c.Evaluations++
		c.Distinct(fmt.Sprintf("chain:%s:%d", ob.Op, len(ob.LTX)))
		for i, f := range ob.LTX {
			if !f.Valid {
				c.Violate("C09:invalid-file", fmt.Sprintf("step %d: %s fails its integrity check: %s", ob.Step, f.Name, f.Err), h.replay(ob.Step, "chain"))
				return
			}
			if i > 0 && !gapAllowed {
				p := ob.LTX[i-1]
				if f.Min != p.Max+1 || f.Pre != p.Post {
					c.Violate("C09:gap", fmt.Sprintf("step %d: %s does not continue %s (min %d after max %d, pre %016x after post %016x)", ob.Step, f.Name, p.Name, f.Min, p.Max, f.Pre, p.Post), h.replay(ob.Step, "chain"))
					return
				}
			}
		}
		lastF := ob.LTX[len(ob.LTX)-1]
		if lastF.Max != ob.TXID || lastF.Post != ob.Chk {
			c.Violate("C09:end", fmt.Sprintf("step %d (%s): chain ends at (%d,%016x), position is (%d,%016x)", ob.Step, ob.Op, lastF.Max, lastF.Post, ob.TXID, ob.Chk), h.replay(ob.Step, "chain"))
			return
		}
		for _, o := range ob.Other {
			_ = o // temporary files may exist; they must never be counted (checked through maxLTXFile at reopen)
		}
	}
}

// CoqCase renders the whole history as one case of Model/PageDB.v: (lock page, op groups, observed rows).
func (h *Runner) CoqCase() string {
	s := fmt.Sprintf("(%d, [", lfs.LockPgno(h.Cfg.PageSize))
	for i, ob := range h.Obs {
		if i > 0 {
			s += ";\n  "
		}
		s += "["
		for j, o := range ob.Ops {
			if j > 0 {
				s += "; "
			}
			s += o
		}
		s += "]"
	}
	s += "],\n ["
	for i, ob := range h.Obs {
		if i > 0 {
			s += "; "
		}
		code := 0
		switch {
		case ob.Panic != "":
			code = 3
		case len(ob.Exits) > 0:
			code = 2
		case ob.Err != "":
			code = 1
		}
		mode := ob.Mode
		n := 0
		for range ob.LTX {
			n++
		}
		s += fmt.Sprintf("[%d;%d;%d;%d;%d;%d", code, ob.TXID, ob.Chk, ob.PageN, mode, n)
		if n > 0 {
			f := ob.LTX[n-1]
			s += fmt.Sprintf(";%d;%d;%d;%d;%d", f.Min, f.Max, f.Pre, f.Post, f.Commit)
			for _, pg := range f.Pgnos {
				s += fmt.Sprintf(";%d", pg)
			}
			for _, pg := range f.Pgnos {
				s += fmt.Sprintf(";%d", lfs.PageChecksum(pg, f.Pages[pg]))
			}
		}
		s += "]"
	}
	return s + "])"
}

const CoqHeader = "Require Import LF.Model.PageDB.\nLocal Open Scope N_scope."
const CoqType = "N * list (list op) * list (list N)"
