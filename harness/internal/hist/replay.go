package hist

import (
	"encoding/json"
	"fmt"
	"log"
	"os"

	"lfsverif/internal/common"
)

type replayFile struct {
	Replay struct {
		PageSize  int    `json:"page_size"`
		Regime    int    `json:"regime"`
		BigEndian bool   `json:"big_endian_wal"`
		Steps     []Step `json:"steps"`
	} `json:"replay"`
}

// LoadReplay builds a runner and re-executes the steps of a replay file (either a
// check replay JSON or a bare violation replay object).
func LoadReplay(c *common.Ctx, path string, verbose bool) (*Runner, error) {
	b, err := os.ReadFile(path)
	if err != nil {
		return nil, err
	}
	var rf replayFile
	if err := json.Unmarshal(b, &rf); err != nil {
		return nil, err
	}
	if len(rf.Replay.Steps) == 0 {
		if err := json.Unmarshal(b, &rf.Replay); err != nil {
			return nil, err
		}
	}
	if verbose {
		log.SetOutput(os.Stderr)
	}
	h, err := New(c, c.Rng.Fork(), Config{PageSize: rf.Replay.PageSize, Regime: rf.Replay.Regime, BigEndian: rf.Replay.BigEndian, AllowWAL: true, AllowDrop: true})
	if err != nil {
		return h, err
	}
	for i, st := range rf.Replay.Steps {
		ob := h.Exec(st)
		if verbose {
			fmt.Fprintf(os.Stderr, "step %d %s size=%d -> err=%q panic=%q exits=%v txid=%d chk=%016x pageN=%d mode=%d imgpages=%d expected=%d\n",
				i, st.Op, st.NewSize, ob.Err, ob.Panic, ob.Exits, ob.TXID, ob.Chk, ob.PageN, ob.Mode, len(ob.Image.Pages), len(ob.Expected.Pages))
		}
		if ob.Panic != "" || len(ob.Exits) > 0 {
			break
		}
	}
	return h, nil
}
