// Package cluster: several real litefs Stores on one machine, each with the real
// HTTP server (h2c) and client on loopback, sharing a simulated TTL lease service.
package cluster

import (
	"context"
	"errors"
	"fmt"
	"path/filepath"
	"sync"
	"time"

	"github.com/superfly/litefs"
	lfshttp "github.com/superfly/litefs/http"

	"lfsverif/internal/lfs"
)

// Svc is a tiny lease service: one key, one holder, TTL, cluster id.
type Svc struct {
	mu        sync.Mutex
	holder    *Leaser
	leaseID   int
	expires   time.Time
	clusterID string
	TTL       time.Duration
	Log       []string
	// fault injection
	RenewErr     func(l *Leaser) error // non-nil: returned by Renew (e.g. connectivity error)
	AcquireBlock bool                  // Acquire returns ErrPrimaryExists for everybody
}

func NewSvc(ttl time.Duration) *Svc { return &Svc{TTL: ttl} }

func (s *Svc) logf(f string, a ...any) { s.Log = append(s.Log, fmt.Sprintf(f, a...)) }

func (s *Svc) expireLocked() {
	if s.holder != nil && time.Now().After(s.expires) {
		s.logf("expire %s", s.holder.Host)
		s.holder = nil
	}
}

// Holder returns the current holder's host ("" if none).
func (s *Svc) Holder() string {
	s.mu.Lock()
	defer s.mu.Unlock()
	s.expireLocked()
	if s.holder == nil {
		return ""
	}
	return s.holder.Host
}

// Revoke takes the lease away from its holder: the next renewal reports it gone.
func (s *Svc) Revoke() {
	s.mu.Lock()
	defer s.mu.Unlock()
	if s.holder != nil {
		s.logf("revoke %s", s.holder.Host)
		s.holder = nil
	}
}

// Leaser is one node's view of the service.
type Leaser struct {
	svc  *Svc
	Host string
	URL  string
}

// NewLeaser returns the leaser a node [name] advertising [url] would get on this cluster's lease service.
func (c *Cluster) NewLeaser(name, url string) *Leaser { return &Leaser{svc: c.Svc, Host: name, URL: url} }

func (l *Leaser) Close() error         { return nil }
func (l *Leaser) Type() string         { return "sim" }
func (l *Leaser) Hostname() string     { return l.Host }
func (l *Leaser) AdvertiseURL() string { return l.URL }

func (l *Leaser) Acquire(ctx context.Context) (litefs.Lease, error) {
	s := l.svc
	s.mu.Lock()
	defer s.mu.Unlock()
	s.expireLocked()
	if s.holder != nil || s.AcquireBlock {
		return nil, litefs.ErrPrimaryExists
	}
	s.holder = l
	s.leaseID++
	s.expires = time.Now().Add(s.TTL)
	s.logf("acquire %s", l.Host)
	return &Lease{l: l, id: s.leaseID, renewedAt: time.Now(), ch: make(chan uint64, 1)}, nil
}

func (l *Leaser) AcquireExisting(ctx context.Context, leaseID string) (litefs.Lease, error) {
	s := l.svc
	s.mu.Lock()
	defer s.mu.Unlock()
	s.expireLocked()
	if s.holder == nil || fmt.Sprint(s.leaseID) != leaseID {
		return nil, litefs.ErrLeaseExpired
	}
	s.holder = l
	s.expires = time.Now().Add(s.TTL)
	s.logf("acquire-existing %s", l.Host)
	return &Lease{l: l, id: s.leaseID, renewedAt: time.Now(), ch: make(chan uint64, 1)}, nil
}

func (l *Leaser) PrimaryInfo(ctx context.Context) (litefs.PrimaryInfo, error) {
	s := l.svc
	s.mu.Lock()
	defer s.mu.Unlock()
	s.expireLocked()
	if s.holder == nil {
		return litefs.PrimaryInfo{}, litefs.ErrNoPrimary
	}
	return litefs.PrimaryInfo{Hostname: s.holder.Host, AdvertiseURL: s.holder.URL}, nil
}

func (l *Leaser) ClusterID(ctx context.Context) (string, error) {
	l.svc.mu.Lock()
	defer l.svc.mu.Unlock()
	return l.svc.clusterID, nil
}

func (l *Leaser) SetClusterID(ctx context.Context, id string) error {
	l.svc.mu.Lock()
	defer l.svc.mu.Unlock()
	l.svc.clusterID = id
	return nil
}

type Lease struct {
	l         *Leaser
	id        int
	mu        sync.Mutex
	renewedAt time.Time
	ch        chan uint64
}

func (x *Lease) ID() string { return fmt.Sprint(x.id) }
func (x *Lease) RenewedAt() time.Time {
	x.mu.Lock()
	defer x.mu.Unlock()
	return x.renewedAt
}
func (x *Lease) TTL() time.Duration { return x.l.svc.TTL }
func (x *Lease) Renew(ctx context.Context) error {
	s := x.l.svc
	s.mu.Lock()
	defer s.mu.Unlock()
	if s.RenewErr != nil {
		if err := s.RenewErr(x.l); err != nil {
			return err
		}
	}
	s.expireLocked()
	if s.holder != x.l || s.leaseID != x.id {
		return litefs.ErrLeaseExpired
	}
	s.expires = time.Now().Add(s.TTL)
	x.mu.Lock()
	x.renewedAt = time.Now()
	x.mu.Unlock()
	return nil
}
func (x *Lease) Handoff(ctx context.Context, nodeID uint64) error {
	select {
	case x.ch <- nodeID:
		return nil
	default:
		return errors.New("handoff busy")
	}
}
func (x *Lease) HandoffCh() <-chan uint64 { return x.ch }
func (x *Lease) Close() error {
	s := x.l.svc
	s.mu.Lock()
	defer s.mu.Unlock()
	if s.holder == x.l && s.leaseID == x.id {
		s.holder = nil
		s.logf("release %s", x.l.Host)
	}
	return nil
}

// Node is one litefs node of the cluster.
type Node struct {
	Name   string
	Dir    string
	Store  *litefs.Store
	Server *lfshttp.Server
	Leaser *Leaser
	mu     sync.Mutex
	exits  []int
	closed bool
}

func (n *Node) Exits() []int {
	n.mu.Lock()
	defer n.mu.Unlock()
	return append([]int(nil), n.exits...)
}

type Cluster struct {
	Dir   string
	Svc   *Svc
	Nodes []*Node
	Opts  func(name string, s *litefs.Store)
	// LeaserFor, if set, supplies the leaser of a node instead of the simulated TTL service.
	LeaserFor func(name, url string) (litefs.Leaser, error)
}

func New(dir string, ttl time.Duration) *Cluster {
	return &Cluster{Dir: dir, Svc: NewSvc(ttl)}
}

// Start opens (or re-opens) node [name]; candidate nodes may become primary.
func (c *Cluster) Start(name string, candidate bool) (*Node, error) {
	if o := c.Node(name); o != nil && !o.Closed() {
		return o, fmt.Errorf("node %s is running", name)
	}
	n := &Node{Name: name, Dir: filepath.Join(c.Dir, name)}
	s := litefs.NewStore(n.Dir, candidate)
	s.Exit = func(code int) {
		n.mu.Lock()
		n.exits = append(n.exits, code)
		n.mu.Unlock()
	}
	s.Client = lfshttp.NewClient()
	s.ReconnectDelay = 20 * time.Millisecond
	s.DemoteDelay = 300 * time.Millisecond
	s.RetentionMonitorInterval = 0
	s.HaltLockMonitorInterval = 50 * time.Millisecond
	if c.Opts != nil {
		c.Opts(name, s)
	}
	srv := lfshttp.NewServer(s, "localhost:0")
	if err := srv.Listen(); err != nil {
		return nil, err
	}
	n.Leaser = &Leaser{svc: c.Svc, Host: name, URL: srv.URL()}
	s.Leaser = n.Leaser
	if c.LeaserFor != nil {
		l, err := c.LeaserFor(name, srv.URL())
		if err != nil {
			_ = srv.Close()
			return nil, err
		}
		s.Leaser = l
	}
	n.Store, n.Server = s, srv
	var err error
	if p := lfs.TryErr(func() { err = s.Open() }); p != "" {
		_ = srv.Close()
		return n, fmt.Errorf("Store.Open panicked: %s", p)
	}
	if err != nil {
		_ = srv.Close()
		return n, err
	}
	srv.Serve()
	for i, o := range c.Nodes {
		if o.Name == name {
			c.Nodes[i] = n
			return n, nil
		}
	}
	c.Nodes = append(c.Nodes, n)
	return n, nil
}

func (n *Node) Closed() bool {
	n.mu.Lock()
	defer n.mu.Unlock()
	return n.closed
}

func (n *Node) Stop() {
	n.mu.Lock()
	if n.closed {
		n.mu.Unlock()
		return
	}
	n.closed = true
	n.mu.Unlock()
	_ = lfs.TryErr(func() { _ = n.Server.Close() })
	_ = lfs.TryErr(func() { _ = n.Store.Close() })
}

func (c *Cluster) Close() {
	for _, n := range c.Nodes {
		n.Stop()
	}
}

func (c *Cluster) Node(name string) *Node {
	for _, n := range c.Nodes {
		if n.Name == name {
			return n
		}
	}
	return nil
}

// Primary returns the node that currently considers itself primary (nil if none).
func (c *Cluster) Primary() *Node {
	for _, n := range c.Nodes {
		n.mu.Lock()
		closed := n.closed
		n.mu.Unlock()
		if !closed && n.Store.IsPrimary() {
			return n
		}
	}
	return nil
}

// WaitPrimary waits until some node is primary.
func (c *Cluster) WaitPrimary(d time.Duration) *Node {
	deadline := time.Now().Add(d)
	for time.Now().Before(deadline) {
		if p := c.Primary(); p != nil {
			return p
		}
		time.Sleep(2 * time.Millisecond)
	}
	return nil
}

// WaitPos waits until node n reports position (txid, chk) for database name.
func WaitPos(n *Node, name string, txid, chk uint64, d time.Duration) bool {
	deadline := time.Now().Add(d)
	for {
		if db := n.Store.DB(name); db != nil {
			p := db.Pos()
			if uint64(p.TXID) == txid && uint64(p.PostApplyChecksum) == chk {
				return true
			}
		}
		if time.Now().After(deadline) {
			return false
		}
		time.Sleep(time.Millisecond)
	}
}
