package c10

import (
	"bytes"
	"context"
	"fmt"
	"os"
	"time"

	"github.com/superfly/litefs"

	"lfsverif/internal/common"
	"lfsverif/internal/hist"
	"lfsverif/internal/lfs"
)

// writerDiesHoldingLock: a WAL-mode writer has appended a complete transaction and loses its -shm descriptor with the
// write lock still held (its process exits): all its locks go at once. The moment the write lock is free another
// connection runs a passive checkpoint and an export follows. The export reports a position; its pages have to be the
// image of that position - the transaction the dead connection left in the log is recorded before its locks go.
func writerDiesHoldingLock(c *common.Ctx, r *common.Rand) error {
	dir, err := os.MkdirTemp(c.OutDir, "c10d-")
	if err != nil {
		return err
	}
	defer os.RemoveAll(dir)
	n, err := lfs.Open(dir, true)
	if err != nil {
		return err
	}
	defer n.Close()
	const ps = 512
	db, f, err := n.Store.CreateDB("db")
	if err != nil {
		return err
	}
	_ = f.Close()
	bg := context.Background()
	armed := false
	type result struct {
		ckpt string
		pos  posT
		img  *lfs.Image
		err  error
		ran  bool
	}
	var res result
	var other *hist.Runner
	db.VerifSetLockHook(func(t litefs.LockType, prev, next litefs.RWMutexState) {
		if !armed || t != litefs.LockTypeWrite || prev != litefs.RWMutexStateExclusive || next == litefs.RWMutexStateExclusive {
			return
		}
		armed = false
		done := make(chan struct{})
		go func() {
			defer close(done)
			old := lfs.BusyTimeout
			lfs.BusyTimeout = 50 * time.Millisecond
			ob := other.Exec(hist.Step{Op: "appckpt", CkptMode: 0})
			lfs.BusyTimeout = old
			res.ckpt = ob.Err + ob.Panic
			var buf bytes.Buffer
			ctx, cancel := context.WithTimeout(bg, 3*time.Second)
			defer cancel()
			p, err := db.Export(ctx, &buf)
			res.err, res.pos, res.ran = err, posT{uint64(p.TXID), uint64(p.PostApplyChecksum)}, true
			if err == nil {
				im := &lfs.Image{PageSize: ps}
				b := buf.Bytes()
				for off := 0; off+ps <= len(b); off += ps {
					im.Pages = append(im.Pages, append([]byte(nil), b[off:off+ps]...))
				}
				res.img = im
			}
		}()
		select {
		case <-done:
		case <-time.After(8 * time.Second):
		}
	})
	h := hist.NewOn(c, r.Fork(), hist.Config{PageSize: ps, AllowWAL: true}, n.Store, n.Exits, "db", nil, 0, false)
	images := map[posT]*lfs.Image{}
	record := func() {
		q := db.Pos()
		images[posT{uint64(q.TXID), uint64(q.PostApplyChecksum)}] = h.Ref.Clone()
	}
	for i, st := range []hist.Step{
		{Op: "rtx", Writes: map[uint32]uint64{1: 1, 2: 2, 3: 3, 4: 4, 5: 5, 6: 6}, NewSize: 6, ToWAL: true},
		{Op: "wtx", Frames: [][2]uint64{{2, 12}, {1, 11}}, NewSize: 6},
	} {
		if ob := h.Exec(st); ob.Err != "" || ob.Panic != "" {
			return fmt.Errorf("setup %d: %s%s", i, ob.Err, ob.Panic)
		}
		record()
	}
	other = hist.NewOn(c, r.Fork(), hist.Config{PageSize: ps, AllowWAL: true}, n.Store, n.Exits, "db", h.Ref.Clone(), uint64(db.Pos().TXID), true)
	other.Pager.AttachWAL(uint32(r.U64()), uint32(r.U64()))
	armed = true
	ob := h.Exec(hist.Step{Op: "wtx", Frames: [][2]uint64{{3, 23}, {5, 25}, {1, 21}}, NewSize: 6, CloseSHM: true})
	armed = false
	record()
	c.Evaluations++
	c.Distinct("writer-dies-holding-the-write-lock")
	rep := map[string]any{"kind": "snapshot-writer-dies", "checkpoint": res.ckpt, "export_error": fmt.Sprint(res.err)}
	if ob.Err != "" || ob.Panic != "" || len(ob.Exits) > 0 {
		c.Violate("C10:writer-dies:commit", fmt.Sprintf("the transaction of a writer whose descriptor is closed with the lock held: err=%q panic=%q exits=%v", ob.Err, ob.Panic, ob.Exits), rep)
		return nil
	}
	if !res.ran {
		c.Count("writer_dies_reader_did_not_run", 1)
		return nil
	}
	if res.err != nil {
		return nil // a refused export is no image at all
	}
	want := images[res.pos]
	if want == nil {
		c.Violate("C10:writer-dies:unknown-position", fmt.Sprintf("an export started the moment the dead writer's locks were gone reports position (%d,%016x), which was never committed", res.pos.txid, res.pos.chk), rep)
		return nil
	}
	if eq, why := res.img.Equal(want); !eq {
		c.Violate("C10:writer-dies:mixture", fmt.Sprintf("an export started the moment the dead writer's locks were gone (after another connection's checkpoint: %q) reports position (%d,%016x), but its pages are not the image of that position: %s", res.ckpt, res.pos.txid, res.pos.chk, why), rep)
	}
	return nil
}
