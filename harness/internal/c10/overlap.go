package c10

import (
	"context"
	"fmt"
	"io"
	"os"
	"time"

	"lfsverif/internal/common"
	"lfsverif/internal/hist"
	"lfsverif/internal/lfs"
)

// overlappingReaders: two exports (or an export and a snapshot for a replica) at the same time. Each holds its own read
// locks until it is done: when the faster one ends, the slower one still keeps checkpoints out, and what it delivers is
// the image of the position it reports.
func overlappingReaders(c *common.Ctx, r *common.Rand, second string) error {
	dir, err := os.MkdirTemp(c.OutDir, "c10o-")
	if err != nil {
		return err
	}
	defer os.RemoveAll(dir)
	n, err := lfs.Open(dir, true)
	if err != nil {
		return err
	}
	defer n.Close()
	const ps = 512
	h := hist.NewOn(c, r.Fork(), hist.Config{PageSize: ps, AllowWAL: true}, n.Store, n.Exits, "db", nil, 0, false)
	for i, st := range []hist.Step{
		{Op: "rtx", Writes: map[uint32]uint64{1: 1, 2: 2, 3: 3, 4: 4, 5: 5, 6: 6}, NewSize: 6, ToWAL: true},
		{Op: "wtx", Frames: [][2]uint64{{2, 12}, {1, 11}}, NewSize: 6},
	} {
		if ob := h.Exec(st); ob.Err != "" || ob.Panic != "" {
			return fmt.Errorf("setup %d: %s%s", i, ob.Err, ob.Panic)
		}
	}
	db := n.Store.DB("db")
	images := map[posT]*lfs.Image{}
	q := db.Pos()
	images[posT{uint64(q.TXID), uint64(q.PostApplyChecksum)}] = h.Ref.Clone()
	bg := context.Background()
	var secondErr, ckptErr error
	committed := false
	hw := &hookWriter{after: 2}
	hw.fn = func() {
		// the first reader has delivered one page; a second one runs from start to end
		if second == "export" {
			_, secondErr = db.Export(bg, io.Discard)
		} else {
			_, _, secondErr = db.WriteSnapshotTo(bg, io.Discard)
		}
		// then a connection commits (pages the first reader has not delivered yet) and LiteFS checkpoints
		old := lfs.BusyTimeout
		lfs.BusyTimeout = 100 * time.Millisecond
		t0 := db.Pos().TXID
		h.Exec(hist.Step{Op: "wtx", Frames: [][2]uint64{{5, 35}, {6, 36}, {1, 31}}, NewSize: 6})
		lfs.BusyTimeout = old
		if db.Pos().TXID == t0+1 {
			committed = true
			q := db.Pos()
			images[posT{uint64(q.TXID), uint64(q.PostApplyChecksum)}] = h.Ref.Clone()
		}
		cctx, cancel := context.WithTimeout(bg, 150*time.Millisecond)
		ckptErr = db.Checkpoint(cctx)
		cancel()
	}
	pos, err := db.Export(bg, hw)
	c.Evaluations++
	c.Distinct("overlapping-readers:" + second)
	rep := map[string]any{"kind": "snapshot-overlapping-readers", "second": second, "second_error": fmt.Sprint(secondErr), "commit_inside": committed, "checkpoint_inside": fmt.Sprint(ckptErr)}
	key := "C10:export:overlapping-" + second
	if err != nil {
		return nil // a reader that fails delivers nothing: allowed
	}
	want := images[posT{uint64(pos.TXID), uint64(pos.PostApplyChecksum)}]
	if want == nil {
		c.Violate(key+":position", fmt.Sprintf("export reports position %s, which the database never had", pos), rep)
		return nil
	}
	got := &lfs.Image{PageSize: ps}
	b := hw.buf.Bytes()
	for off := 0; off+ps <= len(b); off += ps {
		got.Pages = append(got.Pages, b[off:off+ps])
	}
	if eq, why := got.Equal(want); !eq {
		c.Violate(key+":mixture", fmt.Sprintf("an export that overlapped with another %s (which ended first; then a commit and a checkpoint: %v) completed successfully, reports position %s, and its pages are not the image of that position: %s", second, ckptErr, pos, why), rep)
	}
	return nil
}
