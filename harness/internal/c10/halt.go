package c10

import (
	"context"
	"fmt"
	"os"
	"path/filepath"
	"time"

	"lfsverif/internal/cluster"
	"lfsverif/internal/common"
	"lfsverif/internal/hist"
	"lfsverif/internal/lfs"
)

// exportDuringHaltRelease: a replica that forwards writes under the remote halt lock exports its (WAL-mode) database;
// while the pages are being delivered it commits once more and gives the halt lock up. Giving the lock up makes LiteFS
// checkpoint the log into the database file: that has to wait for the export (which holds the checkpoint and read
// locks), so the export is still the image of the position it reports.
func exportDuringHaltRelease(c *common.Ctx, r *common.Rand) error {
	dir, err := os.MkdirTemp(c.OutDir, "c10h-")
	if err != nil {
		return err
	}
	defer os.RemoveAll(dir)
	clu := cluster.New(dir, 2*time.Second)
	defer clu.Close()
	p, err := clu.Start("p", true)
	if err != nil {
		return err
	}
	if clu.WaitPrimary(5*time.Second) == nil {
		return fmt.Errorf("no primary")
	}
	rn, err := clu.Start("r", false)
	if err != nil {
		return err
	}
	const ps = 512
	hp := hist.NewOn(c, r.Fork(), hist.Config{PageSize: ps, AllowWAL: true}, p.Store, p.Exits, "db", nil, 0, false)
	for i, st := range []hist.Step{
		{Op: "rtx", Writes: map[uint32]uint64{1: 1, 2: 2, 3: 3, 4: 4, 5: 5, 6: 6}, NewSize: 6, ToWAL: true},
		{Op: "wtx", Frames: [][2]uint64{{2, 12}}, NewSize: 6},
	} {
		if ob := hp.Exec(st); ob.Err != "" || ob.Panic != "" {
			return fmt.Errorf("setup %d: %s%s", i, ob.Err, ob.Panic)
		}
	}
	pp := p.Store.DB("db").Pos()
	if !cluster.WaitPos(rn, "db", uint64(pp.TXID), uint64(pp.PostApplyChecksum), 10*time.Second) {
		return fmt.Errorf("replica did not catch up")
	}
	rdb := rn.Store.DB("db")
	if _, err := rdb.AcquireRemoteHaltLock(bg, 93); err != nil {
		return fmt.Errorf("halt: %v", err)
	}
	cur, _ := lfs.ReadImage(filepath.Dir(rdb.DatabasePath()))
	hr := hist.NewOn(c, r.Fork(), hist.Config{PageSize: ps, AllowWAL: true}, rn.Store, rn.Exits, "db", cur, uint64(rdb.Pos().TXID), true)
	hr.Pager.AttachWAL(uint32(r.U64()), uint32(r.U64()))
	images := map[posT]*lfs.Image{}
	commit := func(st hist.Step) bool {
		t0 := rdb.Pos().TXID
		hr.Exec(st)
		if rdb.Pos().TXID != t0+1 {
			return false
		}
		q := rdb.Pos()
		images[posT{uint64(q.TXID), uint64(q.PostApplyChecksum)}] = hr.Ref.Clone()
		return true
	}
	// (the pages this transaction leaves in the log are the first ones the export delivers; the ones the second
	// transaction changes come later and are read from the database file)
	if !commit(hist.Step{Op: "wtx", Frames: [][2]uint64{{2, 22}, {1, 21}}, NewSize: 6}) {
		return fmt.Errorf("the replica's commit under the halt lock did not go through")
	}
	hw := &hookWriter{after: 2}
	var relErr error
	second := false
	hw.fn = func() {
		lfs.BusyTimeout = 100 * time.Millisecond
		second = commit(hist.Step{Op: "wtx", Frames: [][2]uint64{{3, 33}, {1, 31}, {6, 36}}, NewSize: 6})
		lfs.BusyTimeout = 3 * time.Second
		rctx, cancel := context.WithTimeout(bg, 300*time.Millisecond)
		relErr = rdb.ReleaseRemoteHaltLock(rctx, 93)
		cancel()
	}
	ectx, cancel := context.WithTimeout(bg, 5*time.Second)
	epos, err := rdb.Export(ectx, hw)
	cancel()
	c.Evaluations++
	c.Distinct("export-during-halt-release")
	rep := map[string]any{"kind": "snapshot-halt-release", "second_commit": second, "release_error": fmt.Sprint(relErr), "export_error": fmt.Sprint(err)}
	if err == nil {
		im := &lfs.Image{PageSize: ps}
		b := hw.buf.Bytes()
		for off := 0; off+ps <= len(b); off += ps {
			im.Pages = append(im.Pages, append([]byte(nil), b[off:off+ps]...))
		}
		want := images[posT{uint64(epos.TXID), uint64(epos.PostApplyChecksum)}]
		if want == nil {
			c.Violate("C10:export:halt-release:unknown-position", fmt.Sprintf("export reports position %s, which was never committed", epos.String()), rep)
		} else if eq, why := im.Equal(want); !eq {
			c.Violate("C10:export:halt-release:mixture", fmt.Sprintf("export on a replica that gave up its halt lock while the pages were being delivered (release answered: %v) completed, reports %s, and is not the image of that position: %s", relErr, epos.String(), why), rep)
		}
	}
	_ = rdb.ReleaseRemoteHaltLock(bg, 93)
	return nil
}
