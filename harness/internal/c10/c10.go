// Package c10: a completed snapshot or export is the image of exactly one position.
// The reader (Export / WriteSnapshotTo) is held at chosen lock transitions (verif lock hook) while
// a writer commits and a checkpoint runs; plus free-running readers against writers.
package c10

import (
	"bytes"
	"context"
	"fmt"
	"os"
	"path/filepath"
	"sync"
	"sync/atomic"
	"time"

	"github.com/superfly/litefs"
	"github.com/superfly/ltx"

	"lfsverif/internal/common"
	"lfsverif/internal/hist"
	"lfsverif/internal/lfs"
)

var bg = context.Background()

type posT struct{ txid, chk uint64 }

type rig struct {
	c      *common.Ctx
	r      *common.Rand
	node   *lfs.Node
	db     *litefs.DB
	h      *hist.Runner
	ps     int
	mu     sync.Mutex
	images map[posT]*lfs.Image
	// trap
	trapAt   int32 // the reader's transition number to stop at (0 = none)
	count    int32
	counting int32
	hit      chan struct{}
	resume   chan struct{}
	trace    []string
}

func (g *rig) hook(t litefs.LockType, prev, next litefs.RWMutexState) {
	if atomic.LoadInt32(&g.counting) == 0 {
		return
	}
	n := atomic.AddInt32(&g.count, 1)
	g.mu.Lock()
	g.trace = append(g.trace, fmt.Sprintf("%s:%d>%d", t, prev, next))
	g.mu.Unlock()
	if n == atomic.LoadInt32(&g.trapAt) {
		atomic.StoreInt32(&g.counting, 0) // transitions of the interfering connections are not the reader's
		g.hit <- struct{}{}
		<-g.resume
	}
}

// attach: a new connection continues the log where it stands (it restarts it only when nothing is left in it)
func (g *rig) attach() {
	if g.h.WALMode {
		g.h.Pager.AttachWAL(uint32(g.r.U64()), uint32(g.r.U64()))
	}
}

func (g *rig) record() {
	p := g.db.Pos()
	g.mu.Lock()
	g.images[posT{uint64(p.TXID), uint64(p.PostApplyChecksum)}] = g.h.Ref.Clone()
	g.mu.Unlock()
}

func (g *rig) commit() (bool, string) { return g.commitSized(false) }

// commitSized: with sameSize the transaction keeps the database's page count (the steered cases are compared with a
// model in which an interfering commit changes pages, not the size: a shrinking commit followed by a checkpoint cuts the
// file under the stopped reader, which then fails with a read error instead of completing)
func (g *rig) commitSized(sameSize bool) (bool, string) {
	for tries := 0; tries < 80; tries++ {
		st := g.h.GenStep()
		if st.Op != "rtx" && st.Op != "wtx" {
			continue
		}
		if st.Op == "rtx" {
			st.Outcome, st.ToWAL = 0, false
		}
		if sameSize {
			cur := uint32(len(g.h.Ref.Pages))
			st.NewSize, st.Spill, st.Aborted = cur, 0, nil
			for pg := range st.Writes {
				if pg > cur {
					delete(st.Writes, pg)
				}
			}
			if st.Op == "rtx" && len(st.Writes) == 0 {
				st.Writes = map[uint32]uint64{cur: 4242 + uint64(tries)}
			}
			var fr [][2]uint64
			for _, f := range st.Frames {
				if uint32(f[0]) <= cur {
					fr = append(fr, f)
				}
			}
			if st.Op == "wtx" {
				if len(fr) == 0 {
					fr = [][2]uint64{{uint64(cur), 4242 + uint64(tries)}}
				}
				st.Frames = fr
			}
		}
		ob := g.h.Exec(st)
		// a writer that gives up at the EXCLUSIVE step rolls back by finalising its journal: LiteFS records
		// that as a transaction of its own (same image, next TXID)
		g.record()
		if ob.Captured && ob.Err == "" && ob.Panic == "" {
			return true, ""
		}
		return false, ob.Err + ob.Panic
	}
	return false, "no step"
}

func newRig(c *common.Ctx, r *common.Rand, dir string, wal bool) (*rig, error) {
	n, err := lfs.Open(dir, true)
	if err != nil {
		return nil, err
	}
	g := &rig{c: c, r: r, node: n, ps: []int{512, 1024}[r.Intn(2)], images: map[posT]*lfs.Image{}, hit: make(chan struct{}, 1), resume: make(chan struct{}, 1)}
	g.h = hist.NewOn(c, r.Fork(), hist.Config{PageSize: g.ps, AllowWAL: wal, ForceWAL: wal}, n.Store, n.Exits, "db", nil, 0, false)
	g.attach()
	for i := 0; i < 4; i++ {
		for tries := 0; tries < 80; tries++ {
			st := g.h.GenStep()
			if st.Op != "rtx" && st.Op != "wtx" {
				continue
			}
			if st.Op == "rtx" {
				st.Outcome = 0
			}
			ob := g.h.Exec(st)
			if ob.Err != "" || ob.Panic != "" {
				return nil, fmt.Errorf("setup: %s%s", ob.Err, ob.Panic)
			}
			break
		}
		g.db = n.Store.DB("db")
		if g.db != nil {
			g.record()
		}
	}
	if g.db == nil {
		return nil, fmt.Errorf("setup: no database")
	}
	g.db.VerifSetLockHook(g.hook)
	return g, nil
}

type readResult struct {
	err  error
	pos  posT
	img  *lfs.Image
	kind string
}

// read runs Export or WriteSnapshotTo to completion and decodes what it produced.
func (g *rig) read(kind string) readResult {
	res := readResult{kind: kind}
	var buf bytes.Buffer
	ctx, cancel := context.WithTimeout(bg, 5*time.Second)
	defer cancel()
	if kind == "export" {
		p, err := g.db.Export(ctx, &buf)
		res.err = err
		res.pos = posT{uint64(p.TXID), uint64(p.PostApplyChecksum)}
		if err == nil {
			im := &lfs.Image{PageSize: g.ps}
			b := buf.Bytes()
			for off := 0; off+g.ps <= len(b); off += g.ps {
				im.Pages = append(im.Pages, append([]byte(nil), b[off:off+g.ps]...))
			}
			res.img = im
		}
		return res
	}
	hdr, tr, err := g.db.WriteSnapshotTo(ctx, &buf)
	res.err = err
	res.pos = posT{uint64(hdr.MaxTXID), uint64(tr.PostApplyChecksum)}
	if err == nil {
		tmp := filepath.Join(g.c.OutDir, fmt.Sprintf("snap-%d.ltx", g.r.U64()))
		_ = os.WriteFile(tmp, buf.Bytes(), 0o644)
		f := lfs.DecodeLTX(tmp)
		_ = os.Remove(tmp)
		if !f.Valid {
			res.err = fmt.Errorf("snapshot does not decode: %s", f.Err)
			return res
		}
		res.img = lfs.ApplyLTX(&lfs.Image{PageSize: g.ps}, f)
		res.pos = posT{f.Max, f.Post}
	}
	return res
}

// judge: a successful read must be the image of the position it reports. Returns the observation
// code: 1 success and correct, 0 success but wrong, 2 error.
func (g *rig) judge(res readResult, key string, rep map[string]any) int {
	g.c.Evaluations++
	if res.err != nil {
		return 2
	}
	g.mu.Lock()
	want := g.images[res.pos]
	g.mu.Unlock()
	if want == nil {
		g.c.Violate(key+":unknown-position", fmt.Sprintf("%s completed and reports position (%d,%016x), which was never committed", res.kind, res.pos.txid, res.pos.chk), rep)
		return 0
	}
	if eq, why := res.img.Equal(want); !eq {
		g.c.Violate(key+":mixture", fmt.Sprintf("%s completed successfully, reports position (%d,%016x), but its pages are not the image of that position: %s", res.kind, res.pos.txid, res.pos.chk, why), rep)
		return 0
	}
	return 1
}

// steered: the reader is stopped at its k-th lock transition; then a commit and / or a checkpoint run.
func steered(c *common.Ctx, cf *common.CaseFile, r *common.Rand, wal bool) error {
	dir, err := os.MkdirTemp(c.OutDir, "c10-")
	if err != nil {
		return err
	}
	defer os.RemoveAll(dir)
	g, err := newRig(c, r, dir, wal)
	if err != nil {
		return err
	}
	defer g.node.Close()
	mode := map[bool]string{true: "wal", false: "journal"}[wal]
	for _, kind := range []string{"export", "snapshot"} {
		// learn the reader's transitions on a quiet database
		_ = g.db.Checkpoint(bg)
		g.trace = nil
		atomic.StoreInt32(&g.count, 0)
		atomic.StoreInt32(&g.trapAt, 0)
		atomic.StoreInt32(&g.counting, 1)
		_ = g.read(kind)
		atomic.StoreInt32(&g.counting, 0)
		g.mu.Lock()
		trace := append([]string(nil), g.trace...)
		g.mu.Unlock()
		for k := 1; k <= len(trace); k++ {
			for _, interference := range []int{1, 2, 3} { // 1 commit, 2 checkpoint, 3 commit then checkpoint
				if !c.Thorough() && interference != 3 && r.Chance(50) {
					continue
				}
				// quiet start: everything checkpointed, so the captured frame map is empty
				if err := g.db.Checkpoint(bg); err != nil {
					return fmt.Errorf("checkpoint: %v", err)
				}
				g.h = hist.NewOn(c, r.Fork(), hist.Config{PageSize: g.ps, AllowWAL: wal, ForceWAL: wal}, g.node.Store, g.node.Exits, "db", g.h.Ref, uint64(g.db.Pos().TXID), g.h.WALMode)
				g.attach()
				atomic.StoreInt32(&g.count, 0)
				atomic.StoreInt32(&g.trapAt, int32(k))
				atomic.StoreInt32(&g.counting, 1)
				done := make(chan readResult, 1)
				go func() { done <- g.read(kind) }()
				var res readResult
				trapped := false
				select {
				case <-g.hit:
					trapped = true
				case res = <-done:
				case <-time.After(6 * time.Second):
					return fmt.Errorf("reader neither trapped nor finished")
				}
				committed, ckpt := false, false
				if trapped {
					lfs.BusyTimeout = 40 * time.Millisecond
					if interference&1 != 0 {
						committed, _ = g.commitSized(true)
					}
					if interference&2 != 0 {
						cctx, cancel := context.WithTimeout(bg, 60*time.Millisecond)
						ckpt = g.db.Checkpoint(cctx) == nil
						cancel()
					}
					lfs.BusyTimeout = 3 * time.Second
					g.resume <- struct{}{}
					res = <-done
				}
				atomic.StoreInt32(&g.counting, 0)
				rep := map[string]any{"kind": "snapshot-steered", "reader": kind, "mode": mode, "stop_after": trace[k-1], "transition": k, "interference": interference, "commit_went_through": committed, "checkpoint_went_through": ckpt, "error": fmt.Sprint(res.err)}
				key := fmt.Sprintf("C10:%s:%s:after-%s:i%d", kind, mode, trace[k-1], interference)
				code := g.judge(res, key, rep)
				c.Distinct(key)
				if wal && trapped {
					// model schedule: the reader's script steps done before the interference
					steps := modelSteps(trace[:k])
					cf.Add(fmt.Sprintf("(%d, %d, %d, %d)", map[string]int{"export": 0, "snapshot": 1}[kind], steps, interference, code), rep)
				}
				// the interfering writer may have left the runner's reference behind a failed attempt
				if !committed {
					g.h = hist.NewOn(c, r.Fork(), hist.Config{PageSize: g.ps, AllowWAL: wal, ForceWAL: wal}, g.node.Store, g.node.Exits, "db", g.h.Ref, uint64(g.db.Pos().TXID), g.h.WALMode)
					g.attach()
				}
			}
		}
	}
	if ex := g.node.Exits(); len(ex) > 0 {
		c.Violate("C10:exit", fmt.Sprintf("the node called Exit(%v)", ex), map[string]any{"kind": "snapshot-steered"})
	}
	return nil
}

// modelSteps maps the reader's lock transitions so far to the number of completed steps of the
// model's script [SHARED; WRITE; position; offsets; release WRITE; CKPT; READ; reads...].
func modelSteps(trace []string) int {
	steps := 0
	for _, t := range trace {
		switch {
		case len(t) > 7 && t[:7] == "SHARED:" && steps < 1:
			steps = 1
		case len(t) > 6 && t[:6] == "WRITE:" && steps < 2:
			steps = 2
		case len(t) > 6 && t[:6] == "WRITE:" && steps == 2:
			steps = 5 // released: both captures happened under it
		case len(t) > 5 && t[:5] == "CKPT:" && steps == 5:
			steps = 6
		case len(t) > 6 && t[:6] == "READ4:" && steps == 6:
			steps = 7
		}
	}
	return steps
}

// hookWriter lets a commit happen after the reader has delivered its first bytes.
type hookWriter struct {
	buf   bytes.Buffer
	after int
	n     int
	fn    func()
}

func (w *hookWriter) Write(p []byte) (int, error) {
	w.n++
	if w.n == w.after && w.fn != nil {
		fn := w.fn
		w.fn = nil
		fn()
	}
	return w.buf.Write(p)
}

// midstream: the log holds committed frames that are not checkpointed; a writer commits while the reader is
// in the middle of its page loop.
func midstream(c *common.Ctx, r *common.Rand) error {
	dir, err := os.MkdirTemp(c.OutDir, "c10m-")
	if err != nil {
		return err
	}
	defer os.RemoveAll(dir)
	g, err := newRig(c, r, dir, true)
	if err != nil {
		return err
	}
	defer g.node.Close()
	for round := 0; round < c.Pick(6, 30); round++ {
		for i := 0; i < 2; i++ {
			if ok, why := g.commit(); !ok {
				return fmt.Errorf("midstream setup commit: %s", why)
			}
		}
		for _, kind := range []string{"export", "snapshot"} {
			hw := &hookWriter{after: 1 + r.Intn(3)}
			committed := false
			hw.fn = func() {
				lfs.BusyTimeout = 60 * time.Millisecond
				committed, _ = g.commit()
				lfs.BusyTimeout = 3 * time.Second
			}
			res := readResult{kind: kind}
			ctx, cancel := context.WithTimeout(bg, 5*time.Second)
			if kind == "export" {
				p, err := g.db.Export(ctx, hw)
				res.err, res.pos = err, posT{uint64(p.TXID), uint64(p.PostApplyChecksum)}
				if err == nil {
					im := &lfs.Image{PageSize: g.ps}
					b := hw.buf.Bytes()
					for off := 0; off+g.ps <= len(b); off += g.ps {
						im.Pages = append(im.Pages, append([]byte(nil), b[off:off+g.ps]...))
					}
					res.img = im
				}
			} else {
				_, _, err := g.db.WriteSnapshotTo(ctx, hw)
				res.err = err
				if err == nil {
					tmp := filepath.Join(g.c.OutDir, fmt.Sprintf("snapm-%d.ltx", g.r.U64()))
					_ = os.WriteFile(tmp, hw.buf.Bytes(), 0o644)
					f := lfs.DecodeLTX(tmp)
					_ = os.Remove(tmp)
					if !f.Valid {
						res.err = fmt.Errorf("snapshot does not decode: %s", f.Err)
					} else {
						res.img = lfs.ApplyLTX(&lfs.Image{PageSize: g.ps}, f)
						res.pos = posT{f.Max, f.Post}
					}
				}
			}
			cancel()
			rep := map[string]any{"kind": "snapshot-midstream", "reader": kind, "commit_went_through": committed, "error": fmt.Sprint(res.err)}
			g.judge(res, "C10:"+kind+":wal:commit-during-page-loop", rep)
			c.Distinct("midstream:" + kind)
			if !committed {
				g.h = hist.NewOn(c, r.Fork(), hist.Config{PageSize: g.ps, AllowWAL: true, ForceWAL: true}, g.node.Store, g.node.Exits, "db", g.h.Ref, uint64(g.db.Pos().TXID), g.h.WALMode)
				g.attach()
			}
		}
		if round%3 == 2 {
			_ = g.db.Checkpoint(bg)
			g.h = hist.NewOn(c, r.Fork(), hist.Config{PageSize: g.ps, AllowWAL: true, ForceWAL: true}, g.node.Store, g.node.Exits, "db", g.h.Ref, uint64(g.db.Pos().TXID), g.h.WALMode)
			g.attach()
		}
	}
	return nil
}

// free: readers and writers run freely for a while.
func free(c *common.Ctx, r *common.Rand, wal bool, d time.Duration) error {
	dir, err := os.MkdirTemp(c.OutDir, "c10f-")
	if err != nil {
		return err
	}
	defer os.RemoveAll(dir)
	g, err := newRig(c, r, dir, wal)
	if err != nil {
		return err
	}
	defer g.node.Close()
	mode := map[bool]string{true: "wal", false: "journal"}[wal]
	stop := make(chan struct{})
	var wg sync.WaitGroup
	type outcome struct {
		res readResult
	}
	results := make(chan readResult, 4096)
	for i, kind := range []string{"export", "snapshot"} {
		wg.Add(1)
		go func(i int, kind string) {
			defer wg.Done()
			for {
				select {
				case <-stop:
					return
				default:
				}
				select {
				case results <- g.read(kind):
				default:
				}
				time.Sleep(time.Duration(200+i*130) * time.Microsecond)
			}
		}(i, kind)
	}
	deadline := time.Now().Add(d)
	n := 0
	for time.Now().Before(deadline) {
		if ok, _ := g.commit(); ok {
			n++
		}
		if n%5 == 4 {
			cctx, cancel := context.WithTimeout(bg, 100*time.Millisecond)
			_ = g.db.Checkpoint(cctx)
			cancel()
			g.h = hist.NewOn(c, r.Fork(), hist.Config{PageSize: g.ps, AllowWAL: wal, ForceWAL: wal}, g.node.Store, g.node.Exits, "db", g.h.Ref, uint64(g.db.Pos().TXID), g.h.WALMode)
			g.attach()
			n++
		}
	}
	close(stop)
	wg.Wait()
	close(results)
	ok, failed := 0, 0
	for res := range results {
		rep := map[string]any{"kind": "snapshot-free", "reader": res.kind, "mode": mode}
		switch g.judge(res, "C10:"+res.kind+":"+mode+":free-running", rep) {
		case 1:
			ok++
		case 2:
			failed++
		}
	}
	c.Count("free_reads_ok_"+mode, ok)
	c.Count("free_reads_error_"+mode, failed)
	c.Count("free_commits_"+mode, n)
	c.Distinct("free:" + mode)
	_ = ltx.Pos{}
	return nil
}

// quiescent: no concurrency at all - Export and WriteSnapshotTo after every step of a fixed WAL history with a
// checkpoint, a log restart and transactions that reuse the old generation's frame slots.
func quiescent(c *common.Ctx, r *common.Rand) error {
	dir, err := os.MkdirTemp(c.OutDir, "c10q-")
	if err != nil {
		return err
	}
	defer os.RemoveAll(dir)
	n, err := lfs.Open(dir, true)
	if err != nil {
		return err
	}
	defer n.Close()
	g := &rig{c: c, r: r, node: n, ps: 512, images: map[posT]*lfs.Image{}, hit: make(chan struct{}, 1), resume: make(chan struct{}, 1)}
	g.h = hist.NewOn(c, r.Fork(), hist.Config{PageSize: 512, AllowWAL: true}, n.Store, n.Exits, "db", nil, 0, false)
	g.attach()
	script := []hist.Step{
		{Op: "rtx", Writes: map[uint32]uint64{1: 1, 2: 2, 3: 3, 4: 4, 5: 5, 6: 6}, NewSize: 6, ToWAL: true},
		{Op: "wtx", Frames: [][2]uint64{{2, 12}, {3, 13}, {4, 14}, {1, 11}}, NewSize: 6},
		{Op: "wtx", Frames: [][2]uint64{{5, 25}, {2, 22}, {1, 21}}, NewSize: 6},
		{Op: "appckpt", CkptMode: 2}, // everything copied back, the log restarts
		// the new generation's frames land in slots that held other pages in the old one: page 3 where page 2 was, page 1
		// where page 3 was, page 6 where page 4 was
		{Op: "wtx", Frames: [][2]uint64{{3, 33}, {1, 31}}, NewSize: 6},
		{Op: "wtx", Frames: [][2]uint64{{6, 46}, {1, 41}}, NewSize: 6},
		{Op: "lfsckpt"},
		{Op: "wtx", Frames: [][2]uint64{{4, 54}, {4, 55}}, NewSize: 5},
		{Op: "appckpt", CkptMode: 3},
		{Op: "wtx", Frames: [][2]uint64{{2, 62}}, NewSize: 5},
		// a transaction that spilled frames into the log rolls back; LiteFS checkpoints on its own (role change, halt lock)
		// while those frames sit, valid and uncommitted, behind the last commit
		{Op: "wabort", Aborted: [][2]uint64{{3, 73}, {4, 74}}, CkptMode: 1},
		{Op: "wtx", Frames: [][2]uint64{{5, 85}}, NewSize: 5},
		{Op: "wabort", Aborted: [][2]uint64{{1, 91}, {2, 92}, {6, 96}}, CkptMode: 1},
	}
	for i, st := range script {
		ob := g.h.Exec(st)
		if ob.Err != "" || ob.Panic != "" {
			return fmt.Errorf("quiescent step %d (%s): %s%s", i, st.Op, ob.Err, ob.Panic)
		}
		g.db = n.Store.DB("db")
		g.record()
		for _, kind := range []string{"export", "snapshot"} {
			res := g.read(kind)
			rep := map[string]any{"kind": "snapshot-quiescent", "reader": kind, "step": i, "op": st.Op, "steps": script[:i+1]}
			key := fmt.Sprintf("C10:%s:wal:quiescent:after-%s", kind, st.Op)
			if res.err != nil {
				c.Evaluations++
				c.Violate(key+":error", fmt.Sprintf("%s with nothing else running failed after step %d (%s): %v", kind, i, st.Op, res.err), rep)
				continue
			}
			g.judge(res, key, rep)
		}
		c.Distinct(fmt.Sprintf("quiescent:%d:%s", i, st.Op))
	}
	return nil
}

func Run(c *common.Ctx) error {
	cf := c.Cases("cases_c10", "Require Import LF.Model.Snapshot.\nLocal Open Scope N_scope.", "N * N * N * N", "mismatches_snap")
	for round := 0; round < c.Pick(1, 3); round++ {
		for _, wal := range []bool{true, false} {
			if err := steered(c, cf, c.Rng.Fork(), wal); err != nil {
				return err
			}
		}
	}
	if err := midstream(c, c.Rng.Fork()); err != nil {
		return err
	}
	if err := quiescent(c, c.Rng.Fork()); err != nil {
		return err
	}
	for _, second := range []string{"export", "snapshot"} {
		if err := overlappingReaders(c, c.Rng.Fork(), second); err != nil {
			return err
		}
	}
	if err := exportDuringHaltRelease(c, c.Rng.Fork()); err != nil {
		return err
	}
	if err := writerDiesHoldingLock(c, c.Rng.Fork()); err != nil {
		return err
	}
	for _, wal := range []bool{true, false} {
		if err := free(c, c.Rng.Fork(), wal, time.Duration(c.Pick(400, 3000))*time.Millisecond); err != nil {
			return err
		}
	}
	return nil
}
