// Package lfs: shared driver for the real litefs Store/DB without FUSE:
// node life-cycle, page generator, independent reference image + checksum
// (stdlib hash/crc64 only), raw WAL reader, LTX decoding, and the pager
// simulator that issues the file-operation sequences SQLite's pager issues.
package lfs

import (
	"context"
	"encoding/binary"
	"errors"
	"fmt"
	"hash/crc64"
	"io"
	"log"
	"os"
	"path/filepath"
	"sort"
	"strings"
	"sync"
	"time"

	"github.com/superfly/litefs"
	"github.com/superfly/ltx"
)

func init() {
	if os.Getenv("LFS_LOG") == "" {
		log.SetOutput(io.Discard)
	}
}

const ChecksumFlag = uint64(1) << 63

var isoTable = crc64.MakeTable(crc64.ISO)

// PageChecksum is the independent re-implementation of the page checksum:
// flag | CRC64-ISO(be32 pgno || data).
func PageChecksum(pgno uint32, data []byte) uint64 {
	h := crc64.New(isoTable)
	var b [4]byte
	binary.BigEndian.PutUint32(b[:], pgno)
	_, _ = h.Write(b[:])
	_, _ = h.Write(data)
	return ChecksumFlag | h.Sum64()
}

func LockPgno(pageSize int) uint32 { return uint32(0x40000000/int64(pageSize)) + 1 }

// Image is a logical database image: Pages[i] is page i+1.
type Image struct {
	PageSize int
	Pages    [][]byte
}

func (im *Image) Clone() *Image {
	c := &Image{PageSize: im.PageSize, Pages: make([][]byte, len(im.Pages))}
	for i, p := range im.Pages {
		c.Pages[i] = append([]byte(nil), p...)
	}
	return c
}

// Checksum: flag | XOR over all pages except the lock page; empty image = flag.
func (im *Image) Checksum() uint64 {
	var c uint64
	lock := uint32(0)
	if im.PageSize > 0 {
		lock = LockPgno(im.PageSize)
	}
	for i, p := range im.Pages {
		pgno := uint32(i + 1)
		if pgno == lock {
			continue
		}
		c ^= PageChecksum(pgno, p)
	}
	return ChecksumFlag | c
}

func (im *Image) Equal(o *Image) (bool, string) {
	if len(im.Pages) != len(o.Pages) {
		return false, fmt.Sprintf("size %d vs %d pages", len(im.Pages), len(o.Pages))
	}
	lock := uint32(0)
	if im.PageSize > 0 {
		lock = LockPgno(im.PageSize)
	}
	for i := range im.Pages {
		if uint32(i+1) == lock {
			continue
		}
		if string(im.Pages[i]) != string(o.Pages[i]) {
			return false, fmt.Sprintf("page %d differs", i+1)
		}
	}
	return true, ""
}

// MakePage builds deterministic page content from a content id.  Page 1 gets a
// valid SQLite header (page size, versions, page count).
func MakePage(pageSize int, pgno uint32, content uint64, pageN uint32, wal bool) []byte {
	p := make([]byte, pageSize)
	x := content*0x9E3779B97F4A7C15 + uint64(pgno)*0xD1B54A32D192ED03 + 1
	for i := 0; i < pageSize; i += 8 {
		x ^= x << 13
		x ^= x >> 7
		x ^= x << 17
		for j := 0; j < 8 && i+j < pageSize; j++ {
			p[i+j] = byte(x >> (8 * j))
		}
	}
	if pgno == 1 {
		SetHeader(p, pageSize, pageN, wal)
	}
	return p
}

func SetHeader(p []byte, pageSize int, pageN uint32, wal bool) {
	copy(p, "SQLite format 3\x00")
	ps := uint16(pageSize)
	if pageSize == 65536 {
		ps = 1
	}
	binary.BigEndian.PutUint16(p[16:], ps)
	v := byte(1)
	if wal {
		v = 2
	}
	p[18], p[19] = v, v
	binary.BigEndian.PutUint32(p[28:], pageN)
}

// ---------------------------------------------------------------------------
// Node
// ---------------------------------------------------------------------------
type Node struct {
	Dir   string
	Store *litefs.Store
	mu    sync.Mutex
	exits []int
}

type Option func(*litefs.Store)

// Open opens a store on dir with a static leaser; waits until it is ready.
func Open(dir string, primary bool, opts ...Option) (*Node, error) {
	n := &Node{Dir: dir}
	s := litefs.NewStore(dir, primary)
	s.Leaser = litefs.NewStaticLeaser(primary, "localhost", "http://localhost:20202")
	s.Exit = func(code int) {
		n.mu.Lock()
		n.exits = append(n.exits, code)
		n.mu.Unlock()
	}
	s.RetentionMonitorInterval = 0
	s.ReconnectDelay = 10 * time.Millisecond
	for _, o := range opts {
		o(s)
	}
	n.Store = s
	var err error
	if p := tryErr(func() { err = s.Open() }); p != "" {
		return n, fmt.Errorf("Store.Open panicked: %s", p)
	}
	if err != nil {
		return n, err
	}
	if primary {
		select {
		case <-s.ReadyCh():
		case <-time.After(5 * time.Second):
			return n, errors.New("store not ready after 5s")
		}
		deadline := time.Now().Add(5 * time.Second)
		for !s.IsPrimary() && time.Now().Before(deadline) {
			time.Sleep(time.Millisecond)
		}
	}
	return n, nil
}

// TryErr runs f and returns the panic message, if any.
func TryErr(f func()) (p string) { return tryErr(f) }

func tryErr(f func()) (p string) {
	defer func() {
		if r := recover(); r != nil {
			p = fmt.Sprint(r)
		}
	}()
	f()
	return ""
}

func (n *Node) Close() {
	if n.Store != nil {
		_ = tryErr(func() { _ = n.Store.Close() })
	}
}

func (n *Node) Exits() []int {
	n.mu.Lock()
	defer n.mu.Unlock()
	return append([]int(nil), n.exits...)
}

// ---------------------------------------------------------------------------
// Raw reading of the data directory (independent of litefs code)
// ---------------------------------------------------------------------------

func walChecksum(bo binary.ByteOrder, s0, s1 uint32, b []byte) (uint32, uint32) {
	for i := 0; i+8 <= len(b); i += 8 {
		s0 += bo.Uint32(b[i:]) + s1
		s1 += bo.Uint32(b[i+4:]) + s0
	}
	return s0, s1
}

type WALFrame struct {
	Pgno, Commit uint32
	Offset       int64
	Data         []byte
}

// ReadWALValid is an independent WAL reader following the SQLite file-format
// rules: returns the valid frames (longest prefix with matching salts and
// cumulative checksums), and the page size from the header.
func ReadWALValid(b []byte) (frames []WALFrame, pageSize int, ok bool) {
	if len(b) < 32 {
		return nil, 0, false
	}
	var bo binary.ByteOrder
	switch binary.BigEndian.Uint32(b[0:]) {
	case 0x377f0682:
		bo = binary.LittleEndian
	case 0x377f0683:
		bo = binary.BigEndian
	default:
		return nil, 0, false
	}
	if binary.BigEndian.Uint32(b[4:]) != 3007000 {
		return nil, 0, false
	}
	pageSize = int(binary.BigEndian.Uint32(b[8:]))
	s0, s1 := walChecksum(bo, 0, 0, b[:24])
	if s0 != binary.BigEndian.Uint32(b[24:]) || s1 != binary.BigEndian.Uint32(b[28:]) {
		return nil, pageSize, false
	}
	if pageSize < 512 || pageSize > 65536 || pageSize&(pageSize-1) != 0 {
		return nil, pageSize, false
	}
	salt1, salt2 := binary.BigEndian.Uint32(b[16:]), binary.BigEndian.Uint32(b[20:])
	off := 32
	for off+24+pageSize <= len(b) {
		h := b[off : off+24]
		data := b[off+24 : off+24+pageSize]
		if binary.BigEndian.Uint32(h[8:]) != salt1 || binary.BigEndian.Uint32(h[12:]) != salt2 {
			break
		}
		if binary.BigEndian.Uint32(h[0:]) == 0 { // page numbers start at 1 (walDecodeFrame)
			break
		}
		s0, s1 = walChecksum(bo, s0, s1, h[:8])
		s0, s1 = walChecksum(bo, s0, s1, data)
		if s0 != binary.BigEndian.Uint32(h[16:]) || s1 != binary.BigEndian.Uint32(h[20:]) {
			break
		}
		frames = append(frames, WALFrame{Pgno: binary.BigEndian.Uint32(h[0:]), Commit: binary.BigEndian.Uint32(h[4:]), Offset: int64(off), Data: data})
		off += 24 + pageSize
	}
	return frames, pageSize, true
}

// ReadImage rebuilds the logical image from dbs/<name>/database overlaid with
// the committed frames of dbs/<name>/wal.
func ReadImage(dbDir string) (*Image, error) {
	raw, err := os.ReadFile(filepath.Join(dbDir, "database"))
	if err != nil && !os.IsNotExist(err) {
		return nil, err
	}
	im := &Image{}
	if len(raw) >= 100 {
		ps := int(binary.BigEndian.Uint16(raw[16:]))
		if ps == 1 {
			ps = 65536
		}
		im.PageSize = ps
	}
	walBytes, _ := os.ReadFile(filepath.Join(dbDir, "wal"))
	frames, wps, ok := ReadWALValid(walBytes)
	if im.PageSize == 0 && ok {
		im.PageSize = wps
	}
	if im.PageSize == 0 {
		return im, nil
	}
	ps := im.PageSize
	for off := 0; off+ps <= len(raw); off += ps {
		im.Pages = append(im.Pages, append([]byte(nil), raw[off:off+ps]...))
	}
	size := uint32(len(im.Pages))
	// header page count governs when present and the file is at least that long
	if ok {
		// committed frames only
		last := -1
		for i, f := range frames {
			if f.Commit != 0 {
				last = i
			}
		}
		for i := 0; i <= last; i++ {
			f := frames[i]
			for uint32(len(im.Pages)) < f.Pgno {
				im.Pages = append(im.Pages, make([]byte, ps))
			}
			im.Pages[f.Pgno-1] = append([]byte(nil), f.Data...)
			if f.Commit != 0 {
				size = f.Commit
			}
		}
		if last >= 0 {
			if uint32(len(im.Pages)) > size {
				im.Pages = im.Pages[:size]
			}
			for uint32(len(im.Pages)) < size {
				im.Pages = append(im.Pages, make([]byte, ps))
			}
		}
	}
	return im, nil
}

// LTXInfo is a decoded LTX file.
type LTXInfo struct {
	Name           string
	Min, Max       uint64
	Pre, Post      uint64
	Commit         uint32
	PageSize       uint32
	Pgnos          []uint32
	Pages          map[uint32][]byte
	WALOffset      int64
	WALSize        int64
	Salt1, Salt2   uint32
	NodeID         uint64
	Valid          bool
	Err            string
	HeaderFlags    uint32
	TimestampMilli int64
}

func DecodeLTX(path string) LTXInfo {
	info := LTXInfo{Name: filepath.Base(path), Pages: map[uint32][]byte{}}
	f, err := os.Open(path)
	if err != nil {
		info.Err = err.Error()
		return info
	}
	defer f.Close()
	dec := ltx.NewDecoder(f)
	if err := dec.DecodeHeader(); err != nil {
		info.Err = "header: " + err.Error()
		return info
	}
	h := dec.Header()
	info.Min, info.Max, info.Pre, info.Commit, info.PageSize = uint64(h.MinTXID), uint64(h.MaxTXID), uint64(h.PreApplyChecksum), h.Commit, h.PageSize
	info.WALOffset, info.WALSize, info.Salt1, info.Salt2, info.NodeID = h.WALOffset, h.WALSize, h.WALSalt1, h.WALSalt2, h.NodeID
	info.HeaderFlags, info.TimestampMilli = h.Flags, h.Timestamp
	buf := make([]byte, h.PageSize)
	for {
		var ph ltx.PageHeader
		if err := dec.DecodePage(&ph, buf); err == io.EOF {
			break
		} else if err != nil {
			info.Err = "page: " + err.Error()
			return info
		}
		info.Pgnos = append(info.Pgnos, ph.Pgno)
		info.Pages[ph.Pgno] = append([]byte(nil), buf...)
	}
	if err := dec.Close(); err != nil {
		info.Err = "close: " + err.Error()
		return info
	}
	info.Post = uint64(dec.Trailer().PostApplyChecksum)
	info.Valid = true
	return info
}

// ListLTX decodes every file in dbs/<name>/ltx (sorted by name), including non-matching names.
func ListLTX(dbDir string) ([]LTXInfo, []string) {
	ents, _ := os.ReadDir(filepath.Join(dbDir, "ltx"))
	var infos []LTXInfo
	var other []string
	var names []string
	for _, e := range ents {
		names = append(names, e.Name())
	}
	sort.Strings(names)
	for _, nm := range names {
		if _, _, err := ltx.ParseFilename(nm); err != nil {
			other = append(other, nm)
			continue
		}
		infos = append(infos, DecodeLTX(filepath.Join(dbDir, "ltx", nm)))
	}
	return infos, other
}

// ApplyLTX applies a decoded LTX file to a reference image.
func ApplyLTX(im *Image, f LTXInfo) *Image {
	out := im.Clone()
	if out.PageSize == 0 {
		out.PageSize = int(f.PageSize)
	}
	for _, pg := range f.Pgnos {
		for uint32(len(out.Pages)) < pg {
			out.Pages = append(out.Pages, make([]byte, out.PageSize))
		}
		out.Pages[pg-1] = append([]byte(nil), f.Pages[pg]...)
	}
	if uint32(len(out.Pages)) > f.Commit {
		out.Pages = out.Pages[:f.Commit]
	}
	for uint32(len(out.Pages)) < f.Commit {
		out.Pages = append(out.Pages, make([]byte, out.PageSize))
	}
	return out
}

// ---------------------------------------------------------------------------
// Pager simulator
// ---------------------------------------------------------------------------

type JournalMode int

const (
	JDelete JournalMode = iota
	JTruncate
	JPersist
)

// Tx is a logical transaction: the new content of modified/appended pages and the new size.
type Tx struct {
	Writes  map[uint32][]byte // pgno -> new content (page 1 is rewritten by the simulator to carry the new size)
	NewSize uint32
	Wal     bool // header versions of page 1 after the tx (switches the database to WAL mode)
	// JournalSplit: the journal is synced after this many records and continues in a second segment (0: one segment)
	JournalSplit int
	// Spill: pages beyond both the old and the final size that the transaction allocated, that the
	// page cache spilled to the file, and that were freed again before the commit
	Spill map[uint32][]byte
	// NoSync: PRAGMA synchronous=OFF. SQLite (pager.c writeJournalHdr) then writes the journal header with its magic
	// and a record count of 0xffffffff and never rewrites it; with any other setting the magic and the count are
	// written as zeros and filled in when the journal is synced, right before the first database write.
	NoSync bool
}

var ctx = context.Background()

// Rec records the DB-API calls of a step as terms of the Gallina op alphabet (Model/PageDB.v).
type Rec struct{ Ops []string }

func (r *Rec) add(f string, a ...any) {
	if r != nil {
		r.Ops = append(r.Ops, fmt.Sprintf(f, a...))
	}
}

// PgTerm renders one page as the model's [pg] record: checksum and, for page 1, the header fields.
func PgTerm(pgno uint32, data []byte) string {
	hdrN, wal := uint32(0), "false"
	if pgno == 1 && len(data) >= 100 {
		hdrN = binary.BigEndian.Uint32(data[28:])
		if data[18] == 2 && data[19] == 2 {
			wal = "true"
		}
	}
	return fmt.Sprintf("(mkPg %d %d %s)", PageChecksum(pgno, data), hdrN, wal)
}
func (r *Rec) Write(pgno uint32, data []byte) { r.add("OWrite %d %s", pgno, PgTerm(pgno, data)) }
func (r *Rec) Truncate(n uint32)              { r.add("OTruncate %d", n) }

// ZeroFill: a page below one written further on that nobody wrote - zeros put there by the file system.
func (r *Rec) ZeroFill(pgno uint32, data []byte) { r.add("OZeroFill %d %s", pgno, PgTerm(pgno, data)) }

func b2u(b bool) uint32 {
	if b {
		return 1
	}
	return 0
}
func (r *Rec) CommitJournal(commit uint32) { r.add("OCommitJournal %d", commit) }
func (r *Rec) InvalidateJournal()          { r.add("OInvalidateJournal") }

// CommitJournalFailed: the commit recorded last was attempted and refused (the journal could not be finalised).
func (r *Rec) CommitJournalFailed() {
	if r == nil || len(r.Ops) == 0 {
		return
	}
	if last := r.Ops[len(r.Ops)-1]; strings.HasPrefix(last, "OCommitJournal ") {
		r.Ops[len(r.Ops)-1] = "OCommitJournalFail " + strings.TrimPrefix(last, "OCommitJournal ")
	}
}
func (r *Rec) WalHeader()   { r.add("OWalHeader") }
func (r *Rec) WalTruncate() { r.add("OWalTruncate") }
func (r *Rec) Checkpoint()  { r.add("OCheckpoint") }
func (r *Rec) Open()        { r.add("OOpen") }
func (r *Rec) Drop()        { r.add("ODrop") }
func (r *Rec) CommitWal(frames []WALFrameSpec, commit uint32) {
	if r == nil {
		return
	}
	s := "OCommitWal ["
	for i, f := range frames {
		if i > 0 {
			s += ";"
		}
		s += fmt.Sprintf("(%d, %s)", f.Pgno, PgTerm(f.Pgno, f.Data))
	}
	r.add("%s] %d", s, commit)
}

type Pager struct {
	Rec           *Rec
	pending       []WALFrameSpec // frames written since the last capture point
	pendingCommit uint32
	DB            *litefs.DB
	Owner         uint64
	PageSize      int
	Nonce         uint32
	// WAL state of the simulated connection
	walSalt1, walSalt2 uint32
	walCk1, walCk2     uint32
	walFrames          int // frames in the current WAL generation (valid prefix)
	walInit            bool
	BigEndianWAL       bool
	Steps              []string // log of issued operations (for samples / replays)
	// RollbackOnCommitError: when the commit step (journal finalisation) is refused, play the
	// journal back and finalise again, as SQLite does; CommitErr2 is that second result.
	RollbackOnCommitError bool
	CommitErr2            error
	// LastRecs / LastGrew: the journal records and whether the file grew in the last RunRollbackTx (for a caller
	// that lets LiteFS roll the journal back)
	LastRecs []uint32
	LastGrew bool
	// BeforeCommit runs immediately before the commit step (journal finalisation / release of the
	// WAL write lock after a commit frame).
	BeforeCommit func()
	// CloseSHM: the next EndWALWrite gives the locks up by closing the -shm descriptor instead of unlocking
	CloseSHM bool
}

func (p *Pager) logf(f string, a ...any) { p.Steps = append(p.Steps, fmt.Sprintf(f, a...)) }

func sortedPgnos(m map[uint32][]byte) []uint32 {
	a := make([]uint32, 0, len(m))
	for k := range m {
		a = append(a, k)
	}
	sort.Slice(a, func(i, j int) bool { return a[i] < a[j] })
	return a
}

func journalChecksum(data []byte, nonce uint32) uint32 {
	c := nonce
	for i := len(data) - 200; i > 0; i -= 200 {
		c += uint32(data[i])
	}
	return c
}

// RollbackOutcome selects how the simulated transaction ends.
type RollbackOutcome int

const (
	Commit              RollbackOutcome = iota
	RollbackBeforeWrite                 // journal created, records written, then rolled back before any db write
	RollbackAfterWrite                  // db pages written (cache spill), then rolled back by replaying the journal
	LockOnly                            // RESERVED taken and released without writing
	DieAfterWrite                       // the client dies after its page writes: the journal stays hot, its locks are gone
)

// busy-timeout like SQLite's: other lock holders (snapshots being streamed, internal writers) come and go
// BusyTimeout is how long the pager keeps retrying a refused lock.
var BusyTimeout = 3 * time.Second

func retry(f func() bool) bool {
	deadline := time.Now().Add(BusyTimeout)
	for {
		if f() {
			return true
		}
		if time.Now().After(deadline) {
			return false
		}
		time.Sleep(200 * time.Microsecond)
	}
}

func (p *Pager) rlock(t litefs.LockType) bool {
	return retry(func() bool { return p.DB.TryRLocks(ctx, p.Owner, []litefs.LockType{t}) })
}
func (p *Pager) xlock(t litefs.LockType) (bool, error) {
	var err error
	ok := retry(func() bool {
		var ok bool
		ok, err = p.DB.TryLocks(ctx, p.Owner, []litefs.LockType{t})
		return ok || err != nil
	})
	return ok && err == nil, err
}

// RunRollbackTx issues the pager's operation sequence for one rollback-journal
// transaction against the DB API exactly as the FUSE handlers would.
// prev is the image before the transaction (pre-images for the journal).
func (p *Pager) RunRollbackTx(prev *Image, tx Tx, jm JournalMode, outcome RollbackOutcome, sectorSize int, spillEvery int) error {
	db, o := p.DB, p.Owner
	ps := p.PageSize
	// SHARED
	if !p.rlock(litefs.LockTypePending) {
		return errors.New("busy: pending")
	}
	if !p.rlock(litefs.LockTypeShared) {
		_ = db.Unlock(ctx, o, []litefs.LockType{litefs.LockTypePending})
		return errors.New("busy: shared")
	}
	_ = db.Unlock(ctx, o, []litefs.LockType{litefs.LockTypePending})
	unlockAll := func() {
		_ = db.Unlock(ctx, o, []litefs.LockType{litefs.LockTypePending, litefs.LockTypeReserved, litefs.LockTypeShared})
	}
	// RESERVED
	if ok, err := p.xlock(litefs.LockTypeReserved); err != nil || !ok {
		unlockAll()
		return fmt.Errorf("busy: reserved (%v)", err)
	}
	if outcome == LockOnly {
		p.logf("lock-only")
		unlockAll()
		return nil
	}
	// journal
	jf, err := db.CreateJournal()
	if err != nil {
		// PERSIST/TRUNCATE leave the file in place: open it instead
		if jf, err = db.OpenJournal(ctx); err != nil {
			unlockAll()
			return fmt.Errorf("create journal: %w", err)
		}
	}
	defer jf.Close()
	if sectorSize == 0 {
		sectorSize = 512
	}
	// SQLite draws a fresh checksum nonce for every journal (writeJournalHdr: sqlite3_randomness): the records an earlier,
	// longer journal left behind in a persistent journal file do not verify under it
	p.Nonce = p.Nonce*1103515245 + 12345
	pgnos := sortedPgnos(tx.Writes)
	if _, ok := tx.Writes[1]; !ok && (tx.NewSize != uint32(len(prev.Pages)) || len(prev.Pages) == 0) {
		pgnos = append([]uint32{1}, pgnos...)
	}
	// records only for pages that existed before (pre-images)
	var recs []uint32
	for _, pg := range pgnos {
		if pg <= uint32(len(prev.Pages)) {
			recs = append(recs, pg)
		}
	}
	// one segment, or two when the journal is synced in the middle of the transaction (tx.JournalSplit records in
	// the first): every segment starts with its own header at the next sector boundary
	segs := [][]uint32{recs}
	if tx.JournalSplit > 0 && tx.JournalSplit < len(recs) {
		segs = [][]uint32{recs[:tx.JournalSplit], recs[tx.JournalSplit:]}
	}
	off := int64(0)
	for si, seg := range segs {
		nonce := p.Nonce + uint32(si)*0x9e3779b9 // SQLite draws a fresh checksum nonce for every journal header
		hdrOff := off
		hdr := make([]byte, sectorSize)
		if tx.NoSync {
			copy(hdr, "\xd9\xd5\x05\xf9\x20\xa1\x63\xd7")
			binary.BigEndian.PutUint32(hdr[8:], 0xffffffff)
		} // else: magic and nRec are zeros until the journal is synced
		binary.BigEndian.PutUint32(hdr[12:], nonce)
		binary.BigEndian.PutUint32(hdr[16:], uint32(len(prev.Pages)))
		binary.BigEndian.PutUint32(hdr[20:], uint32(sectorSize))
		binary.BigEndian.PutUint32(hdr[24:], uint32(ps))
		if err := db.WriteJournalAt(ctx, jf, hdr, hdrOff, o); err != nil {
			unlockAll()
			return fmt.Errorf("journal header: %w", err)
		}
		off = hdrOff + int64(sectorSize)
		for _, pg := range seg {
			var b4 [4]byte
			binary.BigEndian.PutUint32(b4[:], pg)
			if err := db.WriteJournalAt(ctx, jf, b4[:], off, o); err != nil {
				unlockAll()
				return err
			}
			pre := prev.Pages[pg-1]
			if err := db.WriteJournalAt(ctx, jf, pre, off+4, o); err != nil {
				unlockAll()
				return err
			}
			binary.BigEndian.PutUint32(b4[:], journalChecksum(pre, nonce))
			if err := db.WriteJournalAt(ctx, jf, b4[:], off+4+int64(ps), o); err != nil {
				unlockAll()
				return err
			}
			off += int64(8 + ps)
		}
		// SQLite, before it syncs (pager.c syncJournal, "an obscure problem"): a journal left by a PERSIST-mode
		// transaction can be longer than this one; if what follows at the next sector boundary looks like a journal
		// header of that old transaction, its first byte is zeroed so that a hot-journal rollback does not run on into it
		next := (off + int64(sectorSize) - 1) / int64(sectorSize) * int64(sectorSize)
		if old, rerr := os.ReadFile(db.JournalPath()); rerr == nil && int64(len(old)) >= next+8 && string(old[next:next+8]) == "\xd9\xd5\x05\xf9\x20\xa1\x63\xd7" {
			if err := db.WriteJournalAt(ctx, jf, []byte{0}, next, o); err != nil {
				unlockAll()
				return err
			}
		}
		// sync (syncJournal): magic and nRec are written now - unless the transaction is rolled back before any
		// database write, in which case SQLite never syncs the journal, or synchronous is OFF
		if !tx.NoSync && outcome != RollbackBeforeWrite {
			copy(hdr, "\xd9\xd5\x05\xf9\x20\xa1\x63\xd7")
			binary.BigEndian.PutUint32(hdr[8:], uint32(len(seg)))
			if err := db.WriteJournalAt(ctx, jf, hdr[:12], hdrOff, o); err != nil {
				unlockAll()
				return err
			}
			_ = db.SyncJournal(ctx)
		}
		off = (off + int64(sectorSize) - 1) / int64(sectorSize) * int64(sectorSize)
	}
	p.logf("journal recs=%v segments=%d sector=%d", recs, len(segs), sectorSize)

	finalize := func() error {
		switch jm {
		case JDelete:
			return db.RemoveJournal(ctx)
		case JTruncate:
			return db.TruncateJournal(ctx)
		default:
			return db.WriteJournalAt(ctx, jf, make([]byte, 28), 0, o)
		}
	}
	if outcome == RollbackBeforeWrite {
		// SQLite rolls back by finalising the journal without having written; with a
		// valid journal header LiteFS treats finalisation as a commit of zero pages.
		// Real SQLite zeroes/deletes the journal the same way, so this is the faithful sequence.
		p.logf("rollback-before-write")
		if tx.NoSync {
			p.Rec.CommitJournal(uint32(len(prev.Pages))) // the header is complete from the start: a valid journal is finalised
		} else {
			p.Rec.InvalidateJournal() // the journal was never synced: its header has no magic yet
		}
		err := finalize()
		unlockAll()
		return err
	}
	// EXCLUSIVE
	if ok, err := p.xlock(litefs.LockTypePending); err != nil || !ok {
		_ = finalize()
		unlockAll()
		return fmt.Errorf("busy: pending-x (%v)", err)
	}
	if ok, err := p.xlock(litefs.LockTypeShared); err != nil || !ok {
		_ = finalize()
		unlockAll()
		return fmt.Errorf("busy: shared-x (%v)", err)
	}
	dbf, err := db.OpenDatabase(ctx)
	if err != nil {
		unlockAll()
		return err
	}
	defer dbf.Close()
	// page 1 carries the new size
	writes := map[uint32][]byte{}
	for pg, d := range tx.Writes {
		writes[pg] = append([]byte(nil), d...)
	}
	var p1 []byte
	if w, ok := writes[1]; ok {
		p1 = w
	} else if len(prev.Pages) > 0 {
		p1 = append([]byte(nil), prev.Pages[0]...)
	} else {
		p1 = MakePage(ps, 1, 0, tx.NewSize, tx.Wal)
	}
	SetHeader(p1, ps, tx.NewSize, tx.Wal)
	writes[1] = p1
	// SQLite does not write every page of a database that grows: a page allocated and freed again within the
	// transaction (a free-list leaf, PGHDR_DONT_WRITE) is left out.  When that leaves the file shorter than the
	// database, the pager writes a page of zeros at the end (pager.c sqlite3PagerCommitPhaseOne -> pager_truncate);
	// whatever lies between is filled with zeros by the file system and never passes through LiteFS.
	if last := tx.NewSize - b2u(tx.NewSize == LockPgno(ps)); outcome == Commit && last > uint32(len(prev.Pages)) {
		if _, ok := writes[last]; !ok {
			writes[last] = make([]byte, ps)
		}
	}
	maxWritten := uint32(len(prev.Pages))
	for _, pg := range sortedPgnos(tx.Spill) {
		if err := db.WriteDatabaseAt(ctx, dbf, tx.Spill[pg], int64(pg-1)*int64(ps), o); err != nil {
			_ = finalize()
			unlockAll()
			return fmt.Errorf("spill page %d: %w", pg, err)
		}
		p.Rec.Write(pg, tx.Spill[pg])
		if pg > maxWritten {
			maxWritten = pg
		}
	}
	for _, pg := range sortedPgnos(writes) {
		if pg > tx.NewSize && outcome == Commit {
			continue // freed pages beyond the new size are not written
		}
		if err := db.WriteDatabaseAt(ctx, dbf, writes[pg], int64(pg-1)*int64(ps), o); err != nil {
			_ = finalize()
			unlockAll()
			return fmt.Errorf("write page %d: %w", pg, err)
		}
		p.Rec.Write(pg, writes[pg])
	}
	if outcome == Commit {
		for pg := uint32(len(prev.Pages)) + 1; pg <= tx.NewSize; pg++ {
			if _, ok := writes[pg]; !ok {
				p.Rec.ZeroFill(pg, make([]byte, ps))
			}
		}
	}
	_ = db.SyncDatabase(ctx)
	p.LastRecs = recs
	p.LastGrew = (tx.NewSize > uint32(len(prev.Pages)) || maxWritten > uint32(len(prev.Pages))) && len(prev.Pages) > 0
	if outcome == DieAfterWrite {
		p.logf("client dies after its page writes")
		unlockAll()
		return nil
	}
	if outcome == RollbackAfterWrite {
		// play the journal back: restore pre-images, restore size, then finalise
		for _, pg := range recs {
			if err := db.WriteDatabaseAt(ctx, dbf, prev.Pages[pg-1], int64(pg-1)*int64(ps), o); err != nil {
				unlockAll()
				return err
			}
			p.Rec.Write(pg, prev.Pages[pg-1])
		}
		// pages appended by the aborted tx are cut off by SQLite with a truncate to the original size (pager_playback:
		// also to nothing, when the transaction was the one creating the database)
		if tx.NewSize > uint32(len(prev.Pages)) || maxWritten > uint32(len(prev.Pages)) {
			if err := db.TruncateDatabase(ctx, int64(len(prev.Pages))*int64(ps)); err != nil {
				unlockAll()
				return fmt.Errorf("rollback truncate: %w", err)
			}
			p.Rec.Truncate(uint32(len(prev.Pages)))
		}
		p.logf("rollback-after-write")
		p.Rec.CommitJournal(uint32(len(prev.Pages)))
		err := finalize()
		unlockAll()
		return err
	}
	p.Rec.CommitJournal(tx.NewSize)
	if p.BeforeCommit != nil {
		p.BeforeCommit()
	}
	if err := finalize(); err != nil {
		if p.RollbackOnCommitError {
			// what SQLite does when the journal cannot be finalised: play it back, finalise again
			p.Rec.CommitJournalFailed()
			for _, pg := range recs {
				_ = db.WriteDatabaseAt(ctx, dbf, prev.Pages[pg-1], int64(pg-1)*int64(ps), o)
				p.Rec.Write(pg, prev.Pages[pg-1])
			}
			if tx.NewSize > uint32(len(prev.Pages)) || maxWritten > uint32(len(prev.Pages)) {
				_ = db.TruncateDatabase(ctx, int64(len(prev.Pages))*int64(ps))
				p.Rec.Truncate(uint32(len(prev.Pages)))
			}
			p.Rec.CommitJournal(uint32(len(prev.Pages)))
			p.CommitErr2 = finalize()
			p.logf("commit refused (%v): rolled back, second finalize: %v", err, p.CommitErr2)
		}
		unlockAll()
		return fmt.Errorf("finalize: %w", err)
	}
	if tx.NewSize < maxWritten {
		p.Rec.Truncate(tx.NewSize)
		if err := db.TruncateDatabase(ctx, int64(tx.NewSize)*int64(ps)); err != nil {
			unlockAll()
			return fmt.Errorf("post-commit truncate: %w", err)
		}
	}
	p.logf("commit pages=%v size=%d mode=%d", sortedPgnos(writes), tx.NewSize, jm)
	unlockAll()
	return nil
}

// ApplyTx is the reference semantics of a committed transaction.
func ApplyTx(prev *Image, tx Tx, ps int) *Image {
	out := prev.Clone()
	out.PageSize = ps
	for uint32(len(out.Pages)) < tx.NewSize {
		out.Pages = append(out.Pages, make([]byte, ps))
	}
	for pg, d := range tx.Writes {
		if pg <= tx.NewSize {
			for uint32(len(out.Pages)) < pg {
				out.Pages = append(out.Pages, make([]byte, ps))
			}
			out.Pages[pg-1] = append([]byte(nil), d...)
		}
	}
	if uint32(len(out.Pages)) > tx.NewSize {
		out.Pages = out.Pages[:tx.NewSize]
	}
	if len(out.Pages) > 0 {
		if _, ok := tx.Writes[1]; !ok && len(prev.Pages) == 0 {
			out.Pages[0] = MakePage(ps, 1, 0, tx.NewSize, tx.Wal)
		}
		SetHeader(out.Pages[0], ps, tx.NewSize, tx.Wal)
	}
	return out
}

// ---- WAL mode ----

type WALFrameSpec struct {
	Pgno uint32
	Data []byte
}

func (p *Pager) bo() binary.ByteOrder {
	if p.BigEndianWAL {
		return binary.BigEndian
	}
	return binary.LittleEndian
}

// BeginWALWrite takes the locks of a WAL writer (DMS shared, a READ lock shared, WRITE exclusive).
func (p *Pager) BeginWALWrite() error {
	db, o := p.DB, p.Owner
	p.EnsureWAL()
	if !p.rlock(litefs.LockTypeDMS) {
		return errors.New("busy: dms")
	}
	if !p.rlock(litefs.LockTypeRead1) {
		return errors.New("busy: read1")
	}
	if ok, err := p.xlock(litefs.LockTypeWrite); err != nil || !ok {
		_ = db.Unlock(ctx, o, []litefs.LockType{litefs.LockTypeRead1})
		return fmt.Errorf("busy: write (%v)", err)
	}
	return nil
}

// EnsureWAL: a connection in WAL mode has the -wal file open (created if missing) before it locks.
func (p *Pager) EnsureWAL() {
	if wf, err := p.DB.OpenWAL(ctx); err == nil {
		_ = wf.Close()
	} else if wf, err := p.DB.CreateWAL(); err == nil {
		_ = wf.Close()
	}
}

// EndWALWrite releases WRITE (this is where LiteFS captures the commit) and the read lock.
func (p *Pager) EndWALWrite() {
	if p.pendingCommit != 0 {
		p.Rec.CommitWal(p.pending, p.pendingCommit)
		if p.BeforeCommit != nil {
			p.BeforeCommit()
		}
	}
	p.pending, p.pendingCommit = nil, 0
	if p.CloseSHM {
		// the connection's descriptor of the -shm file is closed with the locks still held (the process exits, or is
		// killed, right after its commit): every lock of that owner goes at once (fuse SHMHandle.Flush -> DB.UnlockSHM)
		p.DB.UnlockSHM(ctx, p.Owner)
		return
	}
	_ = p.DB.Unlock(ctx, p.Owner, []litefs.LockType{litefs.LockTypeWrite})
	_ = p.DB.Unlock(ctx, p.Owner, []litefs.LockType{litefs.LockTypeRead1})
}

// RestartWAL begins a new WAL generation (new salts): the next frame write starts at offset 32.
func (p *Pager) RestartWAL(salt1, salt2 uint32) {
	p.walInit = false
	p.walSalt1, p.walSalt2 = salt1, salt2
	p.walFrames = 0
}

// AttachWAL sets the writer state the way a connection that opens the database does (SQLite's
// walIndexRecover): an existing log is continued after its last committed frame; an empty, missing or
// invalid log starts a new generation with the given salts.
func (p *Pager) AttachWAL(salt1, salt2 uint32) {
	b, _ := os.ReadFile(p.DB.WALPath())
	frames, ps, ok := ReadWALValid(b)
	last := -1
	for i, f := range frames {
		if f.Commit != 0 {
			last = i
		}
	}
	if !ok || ps != p.PageSize || last < 0 {
		p.RestartWAL(salt1, salt2)
		return
	}
	p.BigEndianWAL = binary.BigEndian.Uint32(b[0:]) == 0x377f0683
	p.walSalt1, p.walSalt2 = binary.BigEndian.Uint32(b[16:]), binary.BigEndian.Uint32(b[20:])
	h := b[frames[last].Offset : frames[last].Offset+24]
	p.walCk1, p.walCk2 = binary.BigEndian.Uint32(h[16:]), binary.BigEndian.Uint32(h[20:])
	p.walFrames = last + 1
	p.walInit = true
}

// WriteWALFrames appends frames (the last one with commit != 0 if commitSize != 0).
// split: write the 24-byte header and the body as two writes.
func (p *Pager) WriteWALFrames(frames []WALFrameSpec, commitSize uint32, split bool) error {
	db, o := p.DB, p.Owner
	ps := p.PageSize
	wf, err := db.OpenWAL(ctx)
	if err != nil {
		if wf, err = db.CreateWAL(); err != nil {
			return fmt.Errorf("create wal: %w", err)
		}
	}
	defer wf.Close()
	if !p.walInit {
		hdr := make([]byte, 32)
		magic := uint32(0x377f0682)
		if p.BigEndianWAL {
			magic = 0x377f0683
		}
		binary.BigEndian.PutUint32(hdr[0:], magic)
		binary.BigEndian.PutUint32(hdr[4:], 3007000)
		binary.BigEndian.PutUint32(hdr[8:], uint32(ps))
		binary.BigEndian.PutUint32(hdr[12:], 0)
		binary.BigEndian.PutUint32(hdr[16:], p.walSalt1)
		binary.BigEndian.PutUint32(hdr[20:], p.walSalt2)
		c1, c2 := walChecksum(p.bo(), 0, 0, hdr[:24])
		binary.BigEndian.PutUint32(hdr[24:], c1)
		binary.BigEndian.PutUint32(hdr[28:], c2)
		if err := db.WriteWALAt(ctx, wf, hdr, 0, o); err != nil {
			return fmt.Errorf("wal header: %w", err)
		}
		p.Rec.WalHeader()
		p.walCk1, p.walCk2 = c1, c2
		p.walInit = true
		p.walFrames = 0
	}
	for i, f := range frames {
		off := int64(32) + int64(p.walFrames)*int64(24+ps)
		h := make([]byte, 24)
		binary.BigEndian.PutUint32(h[0:], f.Pgno)
		if i == len(frames)-1 {
			binary.BigEndian.PutUint32(h[4:], commitSize)
		}
		binary.BigEndian.PutUint32(h[8:], p.walSalt1)
		binary.BigEndian.PutUint32(h[12:], p.walSalt2)
		c1, c2 := walChecksum(p.bo(), p.walCk1, p.walCk2, h[:8])
		c1, c2 = walChecksum(p.bo(), c1, c2, f.Data)
		binary.BigEndian.PutUint32(h[16:], c1)
		binary.BigEndian.PutUint32(h[20:], c2)
		if split {
			if err := db.WriteWALAt(ctx, wf, h, off, o); err != nil {
				return fmt.Errorf("frame header: %w", err)
			}
			if err := db.WriteWALAt(ctx, wf, f.Data, off+24, o); err != nil {
				return fmt.Errorf("frame data: %w", err)
			}
		} else {
			if err := db.WriteWALAt(ctx, wf, append(h, f.Data...), off, o); err != nil {
				return fmt.Errorf("frame: %w", err)
			}
		}
		p.walCk1, p.walCk2 = c1, c2
		p.walFrames++
		p.pending = append(p.pending, f)
		if i == len(frames)-1 {
			p.pendingCommit = commitSize
		}
	}
	return nil
}

// WALMark / WALReset let a simulated writer roll back: frames written after the mark are
// abandoned and will be overwritten at the same offsets.
type WALMark struct {
	frames int
	c1, c2 uint32
}

// WriteTornFrame writes only the 24-byte header of one more frame (the writer is interrupted between the two writes
// SQLite issues per frame): the log then ends inside a frame. Nothing of the pager's state advances.
func (p *Pager) WriteTornFrame(f WALFrameSpec) error {
	db, o := p.DB, p.Owner
	wf, err := db.OpenWAL(ctx)
	if err != nil {
		return err
	}
	defer wf.Close()
	off := int64(32) + int64(p.walFrames)*int64(24+p.PageSize)
	h := make([]byte, 24)
	binary.BigEndian.PutUint32(h[0:], f.Pgno)
	binary.BigEndian.PutUint32(h[8:], p.walSalt1)
	binary.BigEndian.PutUint32(h[12:], p.walSalt2)
	c1, c2 := walChecksum(p.bo(), p.walCk1, p.walCk2, h[:8])
	c1, c2 = walChecksum(p.bo(), c1, c2, f.Data)
	binary.BigEndian.PutUint32(h[16:], c1)
	binary.BigEndian.PutUint32(h[20:], c2)
	return db.WriteWALAt(ctx, wf, h, off, o)
}

// DropPending forgets the frames written since the last commit (the transaction rolls back).
func (p *Pager) DropPending() { p.pending, p.pendingCommit = nil, 0 }

func (p *Pager) Mark() WALMark           { return WALMark{p.walFrames, p.walCk1, p.walCk2} }
func (p *Pager) ResetTo(m WALMark)       { p.walFrames, p.walCk1, p.walCk2 = m.frames, m.c1, m.c2 }
func (p *Pager) WALFrameCount() int      { return p.walFrames }
func (p *Pager) WALSalts() (a, b uint32) { return p.walSalt1, p.walSalt2 }
func (p *Pager) WALInitialised() bool    { return p.walInit }
