package lfs

import (
	"os"
	"sync"
)

// RecOS is a pass-through implementation of litefs.OS that records every call
// (op label + path) and can run a callback before each call (crash-point enumeration).
type RecOS struct {
	mu     sync.Mutex
	Calls  []OSCall
	Before func(call OSCall) // invoked before the call is issued
	// Fail, if set, is asked before a rename or an OpenFile: a non-nil error is returned to litefs instead
	Fail func(call OSCall) error
	// After, if set, runs right after a rename was carried out
	After func(call OSCall)
}

type OSCall struct {
	Op, Fn, Name, Name2 string
}

func (o *RecOS) rec(op, fn, name, name2 string) {
	c := OSCall{op, fn, name, name2}
	o.mu.Lock()
	o.Calls = append(o.Calls, c)
	cb := o.Before
	o.mu.Unlock()
	if cb != nil {
		cb(c)
	}
}

func (o *RecOS) Snapshot() []OSCall {
	o.mu.Lock()
	defer o.mu.Unlock()
	return append([]OSCall(nil), o.Calls...)
}

func (o *RecOS) Create(op, name string) (*os.File, error) {
	o.rec(op, "create", name, "")
	return os.Create(name)
}
func (o *RecOS) Mkdir(op, path string, perm os.FileMode) error {
	o.rec(op, "mkdir", path, "")
	return os.Mkdir(path, perm)
}
func (o *RecOS) MkdirAll(op, path string, perm os.FileMode) error {
	o.rec(op, "mkdirall", path, "")
	return os.MkdirAll(path, perm)
}
func (o *RecOS) Open(op, name string) (*os.File, error) {
	o.rec(op, "open", name, "")
	return os.Open(name)
}
func (o *RecOS) OpenFile(op, name string, flag int, perm os.FileMode) (*os.File, error) {
	o.rec(op, "openfile", name, "")
	o.mu.Lock()
	f := o.Fail
	o.mu.Unlock()
	if f != nil { // (Fail callbacks select by Op: the ones written for renames never match an open)
		if err := f(OSCall{op, "openfile", name, ""}); err != nil {
			return nil, err
		}
	}
	return os.OpenFile(name, flag, perm)
}
func (o *RecOS) ReadDir(op, name string) ([]os.DirEntry, error) {
	o.rec(op, "readdir", name, "")
	return os.ReadDir(name)
}
func (o *RecOS) ReadFile(op, name string) ([]byte, error) {
	o.rec(op, "readfile", name, "")
	return os.ReadFile(name)
}
func (o *RecOS) Remove(op, name string) error { o.rec(op, "remove", name, ""); return os.Remove(name) }
func (o *RecOS) RemoveAll(op, name string) error {
	o.rec(op, "removeall", name, "")
	return os.RemoveAll(name)
}
func (o *RecOS) Rename(op, oldpath, newpath string) error {
	o.rec(op, "rename", oldpath, newpath)
	o.mu.Lock()
	f := o.Fail
	o.mu.Unlock()
	if f != nil {
		if err := f(OSCall{op, "rename", oldpath, newpath}); err != nil {
			return err
		}
	}
	err := os.Rename(oldpath, newpath)
	o.mu.Lock()
	af := o.After
	o.mu.Unlock()
	if af != nil && err == nil {
		af(OSCall{op, "rename", oldpath, newpath})
	}
	return err
}
func (o *RecOS) Stat(op, name string) (os.FileInfo, error) {
	o.rec(op, "stat", name, "")
	return os.Stat(name)
}
func (o *RecOS) Truncate(op, name string, size int64) error {
	o.rec(op, "truncate", name, "")
	return os.Truncate(name, size)
}
func (o *RecOS) WriteFile(op, name string, data []byte, perm os.FileMode) error {
	o.rec(op, "writefile", name, "")
	return os.WriteFile(name, data, perm)
}
