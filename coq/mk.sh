#!/bin/sh
# (re)generate _CoqProject + Makefile from the file list and build; usage: ./mk.sh [make-args]
cd "$(dirname "$0")" || exit 2
{ echo "-Q theories LF"; echo "-arg -w -arg -notation-overridden,-deprecated-hint-without-locality,-deprecated-instance-without-locality"; find theories -name '*.v' | LC_ALL=C sort; } > _CoqProject.new
if ! cmp -s _CoqProject.new _CoqProject 2>/dev/null; then mv _CoqProject.new _CoqProject; coq_makefile -f _CoqProject -o Makefile >/dev/null || exit 2; else rm -f _CoqProject.new; fi
[ -f Makefile ] || coq_makefile -f _CoqProject -o Makefile >/dev/null || exit 2
exec timeout "${COQ_TIMEOUT:-1500}" make -j"${COQ_JOBS:-16}" "$@"
