(* C17: byte-level models of WALReader (litefs.go:206-330), buildTxFrameOffsets (db.go:1476),
   JournalReader (db.go:3583-3770, after the F3 repair) and the playback filter of
   rollbackJournalSegment (after the F18 repair).  Files are [list N] of bytes.  Definitions only. *)
From Coq Require Import NArith ZArith List Bool Arith.
Require Import LF.Base.Bytes LF.Gen.ConstsGen.
Import ListNotations.
Local Open Scope N_scope.

Definition sub (b : list N) (off n : nat) : option (list N) :=
  let r := firstn n (skipn off b) in if Nat.eqb (length r) n then Some r else None.
Definition u32 (b : list N) (off : nat) : N := of_be (firstn 4 (skipn off b)).
Definition w32 (x : N) : N := x mod 4294967296.

(* ---------------- WAL ---------------- *)
Definition word (be : bool) (b : list N) : N := if be then of_be (firstn 4 b) else of_be (rev (firstn 4 b)).

(* WALChecksum: 8-byte units, 32-bit wrap-around *)
Fixpoint wal_sum (be : bool) (n : nat) (b : list N) (s0 s1 : N) : N * N :=
  match n with
  | O => (s0, s1)
  | S n' =>
    let s0' := w32 (s0 + word be b + s1) in
    let s1' := w32 (s1 + word be (skipn 4 b) + s0') in
    wal_sum be n' (skipn 8 b) s0' s1'
  end.
Definition wal_checksum (be : bool) (s0 s1 : N) (b : list N) : N * N := wal_sum be (length b / 8) b s0 s1.

Record walhdr := { wh_be : bool; wh_ps : N; wh_salt1 : N; wh_salt2 : N; wh_ck1 : N; wh_ck2 : N }.
Inductive hres := HOk (h : walhdr) | HEOF | HErr.

Definition wal_ps_ok (v : N) : bool := (512 <=? v) && (v <=? 65536) && (N.land v (v - 1) =? 0).
(* ReadHeader *)
Definition wal_read_header (b : list N) : hres :=
  match sub b 0 32 with
  | None => HEOF
  | Some hdr =>
    let magic := u32 hdr 0 in
    if negb ((magic =? 931071618) || (magic =? 931071619)) then HErr     (* 0x377f0682 / 0x377f0683 *)
    else
      let be := magic =? 931071619 in
      let '(c1, c2) := wal_checksum be 0 0 (firstn 24 hdr) in
      if negb ((c1 =? u32 hdr 24) && (c2 =? u32 hdr 28)) then HEOF
      else if negb (u32 hdr 4 =? 3007000) then HErr
      else if negb (wal_ps_ok (u32 hdr 8)) then HErr      (* not a power of two in 512..65536: SQLite ignores the log *)
      else HOk {| wh_be := be; wh_ps := u32 hdr 8; wh_salt1 := u32 hdr 16; wh_salt2 := u32 hdr 20; wh_ck1 := c1; wh_ck2 := c2 |}
  end.

Record frame := { f_pgno : N; f_commit : N; f_data : list N }.

(* ReadFrame, iterated until io.EOF: the frames the reader treats as valid *)
Fixpoint wal_frames (fuel : nat) (h : walhdr) (b : list N) (off : nat) (c1 c2 : N) : list frame :=
  match fuel with
  | O => []
  | S fuel' =>
    let ps := N.to_nat (wh_ps h) in
    match sub b off 24, sub b (off + 24) ps with
    | Some fh, Some data =>
      if negb ((u32 fh 8 =? wh_salt1 h) && (u32 fh 12 =? wh_salt2 h)) then []
      else if u32 fh 0 =? 0 then []                    (* page numbers start at 1 (SQLite walDecodeFrame) *)
      else
        let '(a1, a2) := wal_checksum (wh_be h) c1 c2 (firstn 8 fh) in
        let '(d1, d2) := wal_checksum (wh_be h) a1 a2 data in
        if negb ((d1 =? u32 fh 16) && (d2 =? u32 fh 20)) then []
        else {| f_pgno := u32 fh 0; f_commit := u32 fh 4; f_data := data |}
             :: wal_frames fuel' h b (off + 24 + ps) d1 d2
    | _, _ => []
    end
  end.
Definition wal_read (b : list N) : hres * list frame :=
  match wal_read_header b with
  | HOk h => (HOk h, wal_frames (S (length b)) h b 32 (wh_ck1 h) (wh_ck2 h))
  | r => (r, [])
  end.

(* ---- the spec, written as a predicate over a parsed WAL (SQLite file format, section 4.1-4.3) ---- *)
Definition frame_bytes_ok (h : walhdr) (fh data : list N) (c1 c2 : N) : Prop :=
  length fh = 24%nat /\ length data = N.to_nat (wh_ps h) /\
  u32 fh 8 = wh_salt1 h /\ u32 fh 12 = wh_salt2 h /\ u32 fh 0 <> 0 /\
  let '(a1, a2) := wal_checksum (wh_be h) c1 c2 (firstn 8 fh) in
  let '(d1, d2) := wal_checksum (wh_be h) a1 a2 data in
  d1 = u32 fh 16 /\ d2 = u32 fh 20.
Definition next_ck (h : walhdr) (fh data : list N) (c1 c2 : N) : N * N :=
  let '(a1, a2) := wal_checksum (wh_be h) c1 c2 (firstn 8 fh) in wal_checksum (wh_be h) a1 a2 data.

(* [valid_prefix h rest c1 c2 fs]: fs are exactly the frames of the longest valid prefix of [rest] *)
Inductive valid_prefix (h : walhdr) : list N -> N -> N -> list frame -> Prop :=
| VP_stop : forall rest c1 c2,
    (forall fh data tl, rest = fh ++ data ++ tl -> ~ frame_bytes_ok h fh data c1 c2) ->
    valid_prefix h rest c1 c2 []
| VP_frame : forall fh data tl c1 c2 fs,
    frame_bytes_ok h fh data c1 c2 ->
    valid_prefix h tl (fst (next_ck h fh data c1 c2)) (snd (next_ck h fh data c1 c2)) fs ->
    valid_prefix h (fh ++ data ++ tl) c1 c2
      ({| f_pgno := u32 fh 0; f_commit := u32 fh 4; f_data := data |} :: fs).

(* frames that affect the database: up to the last commit frame; last version of each page *)
Fixpoint upto_last_commit (fs : list frame) : list frame :=
  match fs with
  | [] => []
  | f :: r => match upto_last_commit r with
              | [] => if f_commit f =? 0 then [] else [f]
              | l => f :: l
              end
  end.

(* buildTxFrameOffsets: the next complete committed transaction at [off] with running checksum (c1,c2) *)
Fixpoint build_tx (fuel : nat) (h : walhdr) (b : list N) (off : nat) (c1 c2 : N) (acc : list frame)
  : option (list frame * N * nat * N * N) :=
  match fuel with
  | O => None
  | S fuel' =>
    let ps := N.to_nat (wh_ps h) in
    match sub b off (24 + ps) with
    | None => None                                             (* errNoTransaction: short read *)
    | Some fr =>
      let fh := firstn 24 fr in let data := skipn 24 fr in
      if negb ((u32 fh 8 =? wh_salt1 h) && (u32 fh 12 =? wh_salt2 h)) then None
      else if u32 fh 0 =? 0 then None
      else
        let '(a1, a2) := wal_checksum (wh_be h) c1 c2 (firstn 8 fh) in
        let '(d1, d2) := wal_checksum (wh_be h) a1 a2 data in
        if negb ((d1 =? u32 fh 16) && (d2 =? u32 fh 20)) then None
        else
          let f := {| f_pgno := u32 fh 0; f_commit := u32 fh 4; f_data := data |} in
          if negb (f_commit f =? 0) then Some (acc ++ [f], f_commit f, (off + 24 + ps)%nat, d1, d2)
          else build_tx fuel' h b (off + 24 + ps) d1 d2 (acc ++ [f])
    end
  end.

(* ---------------- rollback journal ---------------- *)
Local Open Scope Z_scope.
Record jr := {
  j_off : Z; j_valid : bool; j_frameN : Z; j_nonce : N; j_commit : N; j_sector : Z; j_ps : Z
}.
Definition jinit (ps : N) : jr := {| j_off := 0; j_valid := false; j_frameN := 0; j_nonce := 0%N; j_commit := 0%N; j_sector := 0; j_ps := Z.of_N ps |}.

Definition int32 (x : Z) : Z := let m := x mod 4294967296 in if m <? 2147483648 then m else m - 4294967296.
Definition valid_size (v min : Z) : bool :=
  (min <=? v) && (v <=? 65536) && (Z.land v (v - 1) =? 0).
Definition is_zero (l : list N) : bool := forallb (fun x => (x =? 0)%N) l.
Definition journal_magic : list N := [217; 213; 5; 249; 32; 161; 99; 215]%N.
Fixpoint bytes_eq (a b : list N) : bool :=
  match a, b with [], [] => true | x :: a', y :: b' => (x =? y)%N && bytes_eq a' b' | _, _ => false end.

Inductive jnext_res := JNOk (r : jr) | JNEOF (r : jr) | JNErr (r : jr).

(* JournalReader.Next *)
Definition jnext (b : list N) (r : jr) : jnext_res :=
  let size := Z.of_nat (length b) in
  let off := if j_off r =? 0 then 0 else ((j_off r - 1) / j_sector r + 1) * j_sector r in   (* journalHeaderOffset *)
  let r := {| j_off := off; j_valid := j_valid r; j_frameN := j_frameN r; j_nonce := j_nonce r; j_commit := j_commit r; j_sector := j_sector r; j_ps := j_ps r |} in
  match sub b (Z.to_nat off) 28 with
  | None => JNEOF r
  | Some hdr =>
    if is_zero hdr then JNEOF r
    else if (0 <? off) && negb (bytes_eq (firstn 8 hdr) journal_magic) then JNEOF r
    else
      (* sector and page size only from the first header; SQLite's validity rules *)
      let chk :=
        if off =? 0 then
          let sector := Z.of_N (u32 hdr 20) in
          let hps := Z.of_N (u32 hdr 24) in
          let ps := if hps =? 0 then j_ps r else hps in
          if negb (valid_size sector 32 && valid_size ps 512) then None
          else
            let rps := if j_ps r =? 0 then ps else j_ps r in
            if negb (ps =? rps) then Some (None)
            else Some (Some (sector, rps))
        else Some (Some (j_sector r, j_ps r)) in
      match chk with
      | None => JNEOF r
      | Some None => JNErr r
      | Some (Some (sector, ps)) =>
        let n0 := int32 (Z.of_N (u32 hdr 8)) in
        let frameN :=
          if n0 =? -1 then int32 (Z.quot (size - sector) ps)
          else if n0 =? 0 then int32 (Z.quot (size - off) ps)
          else n0 in
        let r1 := {| j_off := off; j_valid := j_valid r; j_frameN := frameN; j_nonce := u32 hdr 12; j_commit := u32 hdr 16; j_sector := sector; j_ps := ps |} in
        if size <? off + sector then JNEOF r1
        else JNOk {| j_off := off + sector; j_valid := true; j_frameN := frameN; j_nonce := u32 hdr 12; j_commit := u32 hdr 16; j_sector := sector; j_ps := ps |}
      end
  end.

(* JournalChecksum litefs.go:340 *)
Fixpoint jsum (fuel : nat) (data : list N) (i : Z) (acc : N) : N :=
  match fuel with
  | O => acc
  | S f => if 0 <? i then jsum f data (i - 200) (w32 (acc + nth (Z.to_nat i) data 0%N)) else acc
  end.
Definition journal_checksum (data : list N) (nonce : N) : N :=
  jsum (length data / 200 + 1) data (Z.of_nat (length data) - 200) nonce.

(* ReadFrame: Some (pgno, data, r') or None = io.EOF (end of this segment) *)
Definition jread (b : list N) (r : jr) : option (N * list N * jr) :=
  if j_frameN r =? 0 then None
  else
    let n := Z.to_nat (j_ps r + 8) in
    match sub b (Z.to_nat (j_off r)) n with
    | None => None
    | Some fr =>
      let data := firstn (Z.to_nat (j_ps r)) (skipn 4 fr) in
      let ck := u32 fr (4 + Z.to_nat (j_ps r)) in
      if negb (ck =? journal_checksum data (j_nonce r))%N then None
      else Some (u32 fr 0, data,
                 {| j_off := j_off r + Z.of_nat n; j_valid := j_valid r; j_frameN := j_frameN r - 1; j_nonce := j_nonce r;
                    j_commit := j_commit r; j_sector := j_sector r; j_ps := j_ps r |})
    end.

Fixpoint jsegment (fuel : nat) (b : list N) (r : jr) (acc : list (N * list N)) : list (N * list N) * jr :=
  match fuel with
  | O => (acc, r)
  | S f => match jread b r with
           | None => (acc, r)
           | Some (pg, d, r') => jsegment f b r' (acc ++ [(pg, d)])
           end
  end.

(* the loop of rollbackJournal: all segments; result: per-segment records, final reader, end code (1 EOF, 3 error, 98 no progress) *)
Fixpoint jrun (fuel : nat) (b : list N) (r : jr) (acc : list (list (N * list N))) : list (list (N * list N)) * jr * N :=
  match fuel with
  | O => (acc, r, 98%N)
  | S f =>
    match jnext b r with
    | JNEOF r' => (acc, r', 1%N)
    | JNErr r' => (acc, r', 3%N)
    | JNOk r' => let '(recs, r'') := jsegment (S (length b)) b r' [] in jrun f b r'' (acc ++ [recs])
    end
  end.

(* playback filter of rollbackJournalSegment: page 0 / lock page end the segment, pages beyond the
   original size are skipped *)
Fixpoint playback (lock commit : N) (recs : list (N * list N)) : list (N * list N) :=
  match recs with
  | [] => []
  | (pg, d) :: r =>
    if ((pg =? 0) || (pg =? lock))%N then []
    else if (commit <? pg)%N then playback lock commit r
    else (pg, d) :: playback lock commit r
  end.

Local Open Scope N_scope.
(* ---------------- correspondence cases ---------------- *)
Inductive bcase := CWal (b : list N) | CJournal (ps : N) (b : list N).
Definition run_bcase (c : bcase) : list N :=
  match c with
  | CWal b =>
    match wal_read b with
    | (HOk _, fs) => 0 :: concat (map (fun f => [f_pgno f; f_commit f]) fs) ++ [1001]
    | (HEOF, _) => [1]
    | (HErr, _) => [3]
    end
  | CJournal ps b =>
    let '(segs, r, code) := jrun (S (length b)) b (jinit ps) [] in
    concat (map (fun s => N.of_nat (length s) :: map fst s) segs) ++
    [5000 + code; (if j_valid r then 1 else 0); (if ps =? 0 then 0 else j_commit r)]
  end.
Fixpoint nl_eqb3 (a b : list N) : bool :=
  match a, b with [], [] => true | x :: a', y :: b' => (x =? y) && nl_eqb3 a' b' | _, _ => false end.
Definition mismatches (cases : list (bcase * list N)) : list nat :=
  let fix go (i : nat) (cs : list (bcase * list N)) : list nat :=
    match cs with
    | [] => []
    | (c, obs) :: rest => if nl_eqb3 (run_bcase c) obs then go (S i) rest else i :: go (S i) rest
    end in
  go 0%nat cases.
