(* C20: routing, method checks and per-endpoint validation of the HTTP API (http/server.go:134-493,
   store.go CreateDBIfNotExists/Handoff, db.go AcquireHaltLock/ReleaseHaltLock).  Definitions only.
   A request is abstracted to the classes the handlers distinguish; the harness maps every concrete
   request it sends to one of these terms. *)
From Coq Require Import NArith List Bool.
Import ListNotations.
Local Open Scope N_scope.

Inductive role := RPrimary | RReplica | RNoPrimary.
Inductive path := PExport | PHalt | PHandoff | PImport | PInfo | PPromote | PStream | PTx | PEvents | POther.
Inductive meth := MGet | MPost | MDelete | MOther.
(* ?name= : missing or empty / an existing database / no such database / empty-or-escaping path *)
Inductive namec := NmAbsent | NmKnown | NmUnknown | NmBadPath.
(* ?id= (for /tx: ?lockID=) : not an int64 / 0 / the id of the halt lock now held on the named database / another id *)
Inductive idc := IdBad | IdZero | IdHeld | IdOther.
(* ?nodeID= : not hex / this node / a connected replica / nobody we know *)
Inductive nodec := NdBad | NdSelf | NdConnected | NdUnknown.

Record req := {
  q_role : role;          (* role of the node that receives the request *)
  q_path : path;
  q_meth : meth;
  q_name : namec;
  q_id : idc;
  q_node : nodec;
  q_self : bool;          (* Litefs-Id header names the receiving node itself *)
  q_h2 : bool;            (* HTTP/2 (h2c) rather than HTTP/1.1 *)
  q_body : bool;          (* the body is what the endpoint expects (position map / SQLite image / next LTX file) *)
  q_halted : bool;        (* a halt lock is currently held on the known database *)
  q_poison : bool         (* /tx only, and only when the body is not usable: the file continues the position (right
                             transaction id, right pre-apply checksum, right page size, intact file checksum) but its
                             post-apply checksum is not that of the database it produces *)
}.
Definition mk_req := Build_req.

(* what a request does to the node *)
Inductive effect :=
| ENone            (* databases, positions, logs, locks as before *)
| ECreateDB        (* a new, empty database appears *)
| EHaltAcquire     (* halt lock granted (the database is created first if need be) *)
| EHaltRelease
| EApplyTx         (* forwarded transaction applied *)
| EImport
| EHandoff         (* lease handed to a connected replica *)
| EPromote         (* this node asks the primary for the lease *)
| EStop.           (* the file is in the log, its pages are in the database, the position is the old one and the node has
                      stopped itself (Exit 99): ApplyLTXNoLock notices the checksum only after writing *)

Definition is_primary (q : req) : bool := match q_role q with RPrimary => true | _ => false end.
(* the replica of the rig is not a candidate; the other two nodes are *)
Definition is_candidate (q : req) : bool := match q_role q with RReplica => false | _ => true end.
Definition id_unparsable (q : req) : bool := match q_id q with IdBad => true | _ => false end.
Definition holds_lock (q : req) : bool := q_halted q && match q_id q with IdHeld => true | _ => false end.
Definition name_is_known (q : req) : bool := match q_name q with NmKnown => true | _ => false end.

Definition handle_export (q : req) : N * effect :=
  match q_name q with
  | NmAbsent => (400, ENone)
  | NmKnown => (200, ENone)
  | _ => (404, ENone)
  end.

Definition handle_post_halt (q : req) : N * effect :=
  if id_unparsable q then (400, ENone)
  else if q_self q then (400, ENone)
  else if match q_id q with IdZero => true | _ => false end then (400, ENone)
  else if negb (is_primary q) then (503, ENone)
  else match q_name q with
       | NmAbsent | NmBadPath => (500, ENone)                         (* CreateDBIfNotExists refuses the name *)
       | NmUnknown => (200, EHaltAcquire)
       | NmKnown => if q_halted q
                    then (if holds_lock q then (200, ENone)            (* same id again: the same lock *)
                          else (500, ENone))                           (* write lock pinned: acquire times out *)
                    else (200, EHaltAcquire)
       end.

Definition handle_delete_halt (q : req) : N * effect :=
  if id_unparsable q then (400, ENone)
  else if q_self q then (400, ENone)
  else if negb (name_is_known q) then (404, ENone)
  else if holds_lock q then (200, EHaltRelease) else (200, ENone).

Definition handle_handoff (q : req) : N * effect :=
  match q_node q with
  | NdBad => (400, ENone)
  | NdConnected => if is_primary q then (200, EHandoff) else (500, ENone)
  | _ => (500, ENone)
  end.

Definition handle_import (q : req) : N * effect :=
  match q_name q with
  | NmAbsent => (400, ENone)
  | nm =>
    if negb (is_primary q) then (503, ENone)
    else match nm with
         | NmBadPath => (500, ENone)
         | NmUnknown => if q_body q then (200, EImport) else (500, ECreateDB)   (* created before the body is read *)
         | _ => if q_body q then (200, EImport) else (500, ENone)
         end
  end.

Definition handle_promote (q : req) : N * effect :=
  if negb (is_candidate q) then (409, ENone)
  else match q_role q with
       | RPrimary => (200, ENone)
       | RNoPrimary => (500, ENone)
       | RReplica => (200, EPromote)
       end.

Definition handle_stream (q : req) : N * effect :=
  if negb (q_h2 q) then (426, ENone)
  else if q_self q then (400, ENone)
  else if negb (is_primary q) then (503, ENone)
  else if q_body q then (200, ENone) else (400, ENone).

Definition handle_tx (q : req) : N * effect :=
  if q_self q then (400, ENone)
  else if negb (name_is_known q) then (404, ENone)
  else if id_unparsable q then (400, ENone)
  else if negb (is_primary q) then (503, ENone)
  else if negb (holds_lock q) then (409, ENone)
  else if q_body q then (200, EApplyTx) else if q_poison q then (500, EStop) else (500, ENone).

Definition method_not_allowed : N * effect := (405, ENone).

Definition respond (q : req) : N * effect :=
  match q_path q with
  | POther => (404, ENone)
  | PExport => match q_meth q with MGet => handle_export q | _ => method_not_allowed end
  | PHalt => match q_meth q with MPost => handle_post_halt q | MDelete => handle_delete_halt q | _ => method_not_allowed end
  | PHandoff => match q_meth q with MPost => handle_handoff q | _ => method_not_allowed end
  | PImport => match q_meth q with MPost => handle_import q | _ => method_not_allowed end
  | PInfo => match q_meth q with MGet => (200, ENone) | _ => method_not_allowed end
  | PPromote => match q_meth q with MPost => handle_promote q | _ => method_not_allowed end
  | PStream => match q_meth q with MPost => handle_stream q | _ => method_not_allowed end
  | PTx => match q_meth q with MPost => handle_tx q | _ => method_not_allowed end
  | PEvents => match q_meth q with MGet => (200, ENone) | _ => method_not_allowed end
  end.

(* ---------- the property's side: which requests are invalid (written from the property text and
   the endpoint documentation, not from the handlers) ---------- *)
Definition allowed_method (p : path) (m : meth) : bool :=
  match p, m with
  | PExport, MGet | PHalt, MPost | PHalt, MDelete | PHandoff, MPost | PImport, MPost | PInfo, MGet
  | PPromote, MPost | PStream, MPost | PTx, MPost | PEvents, MGet => true
  | _, _ => false
  end.
Definition bad_name (q : req) : bool := match q_name q with NmAbsent | NmBadPath => true | _ => false end.
Definition bad_id (q : req) : bool := match q_id q with IdBad | IdZero => true | _ => false end.

Definition malformed (q : req) : bool :=
  match q_path q with
  | POther => true
  | p => negb (allowed_method p (q_meth q)) ||
    match p with
    | PExport => bad_name q
    | PHalt => bad_id q || q_self q || bad_name q
    | PHandoff => match q_node q with NdBad => true | _ => false end
    | PImport => bad_name q || negb (q_body q)
    | PStream => negb (q_h2 q) || q_self q || negb (q_body q)
    | PTx => q_self q || bad_name q || bad_id q || negb (q_body q)
    | _ => false
    end
  end.

(* the endpoint only makes sense on a primary (on a candidate, for /promote) *)
Definition role_disallowed (q : req) : bool :=
  allowed_method (q_path q) (q_meth q) &&
  match q_path q, q_meth q with
  | PHalt, MPost | PHandoff, _ | PImport, _ | PStream, _ | PTx, _ => negb (is_primary q)
  | PPromote, _ => negb (is_candidate q)
  | _, _ => false
  end.

(* the endpoint needs a database, a lock or a connected node that is not there *)
Definition missing_entity (q : req) : bool :=
  allowed_method (q_path q) (q_meth q) &&
  match q_path q, q_meth q with
  | PExport, _ => negb (name_is_known q)
  | PHalt, MDelete => negb (name_is_known q) || negb (holds_lock q)
  | PHalt, MPost => name_is_known q && q_halted q && negb (holds_lock q)   (* taken by somebody else *)
  | PHandoff, _ => match q_node q with NdConnected => false | _ => true end
  | PTx, _ => negb (name_is_known q) || negb (holds_lock q)
  | _, _ => false
  end.

Definition invalid (q : req) : bool := malformed q || role_disallowed q || missing_entity q.

(* the one class on which the unchanged code does change something: see Props/C20.v *)
Definition import_leftover (q : req) : bool :=
  match q_path q, q_meth q, q_role q, q_name q with
  | PImport, MPost, RPrimary, NmUnknown => negb (q_body q)
  | _, _, _, _ => false
  end.

(* ... and the second one: the holder of the halt lock forwards a file that continues the position but carries a wrong
   post-apply checksum *)
Definition tx_poisoned (q : req) : bool :=
  match q_path q, q_meth q with
  | PTx, MPost => negb (q_self q) && name_is_known q && negb (id_unparsable q) && is_primary q && holds_lock q &&
                  negb (q_body q) && q_poison q
  | _, _ => false
  end.

Definition changes (e : effect) : bool := match e with ENone => false | _ => true end.

(* ---------- correspondence ---------- *)
Definition case_obs (q : req) : N * N * N :=
  let '(st, e) := respond q in (st, if changes e then 1 else 0, if invalid q then 1 else 0).
Definition mismatches (cases : list (req * (N * N * N))) : list nat :=
  let fix go (i : nat) (cs : list (req * (N * N * N))) : list nat :=
    match cs with
    | [] => []
    | (q, (st, ch, inv)) :: rest =>
      let '(st', ch', inv') := case_obs q in
      if (st =? st') && (ch =? ch') && (inv =? inv') then go (S i) rest else i :: go (S i) rest
    end in
  go 0%nat cases.
