(* Replication decisions: the primary's streamDB/streamLTX loop (http/server.go:639-741) and the
   replica's processLTXStreamFrame (store.go:1508, as PageDB.op_receive).  Definitions only. *)
From Coq Require Import NArith List Bool Arith.
Require Import LF.Model.PageDB.
Import ListNotations.
Local Open Scope N_scope.

Definition pos := (N * N)%type.                       (* (TXID, PostApplyChecksum) *)

Inductive action := ADone | ASendLTX (f : ltxrec) | ASnapshot.

(* OpenLTXFile(txID) opens <txID>-<txID>.ltx *)
Definition open_ltx (dir : list ltxrec) (t : N) : option ltxrec :=
  find (fun f => (l_min f =? t) && (l_max f =? t)) dir.

(* the client position after the two invalidation rules of streamDB *)
Definition effective_client (ppos cpos : pos) : pos :=
  if fst ppos <? fst cpos then (0, 0)                                    (* client ahead of the primary *)
  else if (fst cpos =? fst ppos) && negb (snd cpos =? snd ppos) then (0, 0)   (* same TXID, other checksum *)
  else cpos.

(* one iteration of the loop in streamDB + streamLTX *)
Definition stream_decide (ppos : pos) (dir : list ltxrec) (cpos : pos) : action :=
  let c := effective_client ppos cpos in
  if fst ppos <=? fst c then ADone
  else if fst c + 1 =? 1 then ASnapshot                                  (* always snapshot from TXID 1 *)
  else match open_ltx dir (fst c + 1) with
       | None => ASnapshot                                               (* file no longer available *)
       | Some f => if l_pre f =? snd c then ASendLTX f else ASnapshot    (* pre-apply checksum must match *)
       end.

(* the position the primary records for the client after an action *)
Definition after_action (ppos : pos) (a : action) (cpos : pos) : pos :=
  match a with
  | ADone => cpos
  | ASendLTX f => (l_max f, l_post f)
  | ASnapshot => ppos
  end.

(* the whole loop for one database against a quiescent primary: list of actions until Done *)
Fixpoint stream_db (fuel : nat) (ppos : pos) (dir : list ltxrec) (cpos : pos) : list action :=
  match fuel with
  | O => []
  | S n => match stream_decide ppos dir cpos with
           | ADone => []
           | a => a :: stream_db n ppos dir (after_action ppos a cpos)
           end
  end.

(* observation codes for the correspondence: 0 done, 1 incremental from TXID t (code 1, t), 2 snapshot *)
Definition action_obs (a : action) : list N :=
  match a with ADone => [0] | ASendLTX f => [1; l_min f] | ASnapshot => [2] end.

(* case: primary position, primary files as (min,max,pre,post), client position; observed action list (flattened) *)
Definition mk_file (q : N * N * N * N) : ltxrec :=
  let '(a, b, c, d) := q in mkLtx a b c d 0 [].
Definition run_stream_case (ppos : pos) (files : list (N * N * N * N)) (cpos : pos) : list N :=
  concat (map action_obs (stream_db 64 ppos (map mk_file files) cpos)) ++ [0].
Fixpoint nl_eqb2 (a b : list N) : bool :=
  match a, b with [], [] => true | x :: a', y :: b' => (x =? y) && nl_eqb2 a' b' | _, _ => false end.
Definition mismatches (cases : list (pos * list (N * N * N * N) * pos * list N)) : list nat :=
  let fix go (i : nat) (cs : list (pos * list (N * N * N * N) * pos * list N)) : list nat :=
    match cs with
    | [] => []
    | (pp, fs, cp, obs) :: rest =>
      if nl_eqb2 (run_stream_case pp fs cp) obs then go (S i) rest else i :: go (S i) rest
    end in
  go 0%nat cases.
