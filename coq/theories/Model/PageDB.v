(* The page-level database machine of one database on one node (db.go), at the
   granularity of the DB API calls the FUSE handlers / stream / Open make.
   Pages are represented by their checksum value H(pgno, bytes) (an N with the
   top bit set; 0 = "no checksum / absent"), supplied by the harness from
   stdlib hash/crc64.  Definitions only; anchors are db.go line numbers. *)
From Coq Require Import NArith List Bool Arith.
Require Import LF.Gen.ConstsGen.
Import ListNotations.
Local Open Scope N_scope.

Definition flag : N := 9223372036854775808.          (* ltx.ChecksumFlag = 1<<63 *)
Definition fl (x : N) : N := N.lor flag x.            (* ltx.ChecksumFlag | x *)
Definition block_of (pgno : N) : N := (pgno - 1) / c_ChecksumBlockSize.     (* pageChksumBlock db.go:3772 *)

(* ---- list helpers (0-based index as N) ---- *)
Definition nthN (l : list N) (i : N) : N := nth (N.to_nat i) l 0.
Definition lenN {A} (l : list A) : N := N.of_nat (length l).
Fixpoint set_nth (l : list N) (i : nat) (v : N) : list N :=   (* extends with zeros like append(make(...)) *)
  match i, l with
  | O, [] => [v]
  | O, _ :: r => v :: r
  | S i', [] => 0 :: set_nth [] i' v
  | S i', x :: r => x :: set_nth r i' v
  end.
Fixpoint zeros_from (l : list N) (i : nat) : list N :=        (* zero every slot with index >= i, keep length *)
  match l with
  | [] => []
  | x :: r => match i with O => 0 :: zeros_from r O | S i' => x :: zeros_from r i' end
  end.

(* association lists keyed by page number *)
Fixpoint alookup {A} (k : N) (m : list (N * A)) : option A :=
  match m with [] => None | (k', v) :: r => if k =? k' then Some v else alookup k r end.
Fixpoint aput {A} (k : N) (v : A) (m : list (N * A)) : list (N * A) :=
  match m with
  | [] => [(k, v)]
  | (k', v') :: r => if k =? k' then (k, v) :: r else (k', v') :: aput k v r
  end.

(* one page image as the model sees it: checksum + (for page 1) the header fields it carries *)
Record pg := mkPg { pg_h : N; pg_hdrN : N; pg_wal : bool }.

Record ltxrec := mkLtx {
  l_min : N; l_max : N; l_pre : N; l_post : N; l_commit : N;
  l_pages : list (N * pg)            (* sorted by pgno *)
}.

Record st := mkSt {
  writeable : bool;
  lockpg    : N;                      (* ltx.LockPgno(pageSize) *)
  dbfile    : list pg;                (* database file, page i+1 at index i *)
  pageN     : N;                      (* db.pageN *)
  wal_mode  : bool;                   (* db.mode = WAL *)
  chk_pages : list N;                 (* chksums.pages  *)
  chk_blocks: list N;                 (* chksums.blocks *)
  wal_chk   : list (N * list N);      (* wal.chksums *)
  wal_latest: list (N * pg);          (* wal.frameOffsets: last committed version per page, current generation *)
  wal_file  : list (N * pg * N);      (* committed frames present in the wal file: pgno, page, commit *)
  dirty     : list N;                 (* dirtyPageSet *)
  txid      : N; chk : N;             (* db.pos *)
  ltxdir    : list ltxrec             (* ltx directory, ascending *)
}.

Inductive outcome := Done | Failed | Exited | Panicked.

(* ---- checksum cache (db.go:3191-3345) ---- *)
Definition db_page_chk (s : st) (pgno : N) : N := nthN (chk_pages s) (pgno - 1).     (* databasePageChecksum *)

Definition set_page_chk (s : st) (pgno v : N) : st :=                                 (* setDatabasePageChecksum *)
  let v := if pgno =? lockpg s then 0 else v in
  let pages := set_nth (chk_pages s) (N.to_nat (pgno - 1)) v in
  let b := block_of pgno in
  let blocks := if b <? lenN (chk_blocks s) then set_nth (chk_blocks s) (N.to_nat b) 0 else chk_blocks s in
  mkSt (writeable s) (lockpg s) (dbfile s) (pageN s) (wal_mode s) pages blocks (wal_chk s) (wal_latest s)
       (wal_file s) (dirty s) (txid s) (chk s) (ltxdir s).

(* resetDatabasePageChecksumsAfter / the loop in CommitJournal: zero every slot >= commit.
   [skip_lock]: CommitJournal's loop skips the lock page (it is 0 already). *)
Fixpoint clear_from (s : st) (fuel : nat) (i : N) : st :=
  match fuel with
  | O => s
  | S f => if i <? lenN (chk_pages s) then clear_from (set_page_chk s (i + 1) 0) f (i + 1) else s
  end.
Definition reset_after (s : st) (commit : N) : st := clear_from s (length (chk_pages s)) commit.

(* recomputeBlockChksum: flag | xor over the 256 slots of the block *)
Fixpoint xor_slots (s : st) (base : N) (n : nat) (acc : N) : N :=
  match n with
  | O => acc
  | S n' => xor_slots s (base + 1) n' (fl (N.lxor acc (db_page_chk s base)))
  end.
Definition block_chk (s : st) (b : N) : N * st :=                                      (* blockChksum *)
  if (b <? lenN (chk_blocks s)) && negb (nthN (chk_blocks s) b =? 0) then (nthN (chk_blocks s) b, s)
  else
    let v := xor_slots s (b * c_ChecksumBlockSize + 1) (N.to_nat c_ChecksumBlockSize) 0 in
    let blocks := set_nth (chk_blocks s) (N.to_nat b) v in
    (v, mkSt (writeable s) (lockpg s) (dbfile s) (pageN s) (wal_mode s) (chk_pages s) blocks (wal_chk s)
             (wal_latest s) (wal_file s) (dirty s) (txid s) (chk s) (ltxdir s)).

Definition last_or0 (l : list N) : option N := match rev l with [] => None | x :: _ => Some x end.

(* pageChecksum db.go:3274 *)
Definition page_chk (s : st) (pgno pN : N) (new : list (N * N)) : N * bool :=
  if pgno =? lockpg s then (0, true)
  else if pN <? pgno then (0, false)
  else match alookup pgno new with
       | Some v => (v, true)
       | None =>
         match alookup pgno (wal_chk s) with
         | Some l => match last_or0 l with Some v => (v, true) | None => let c := db_page_chk s pgno in (c, negb (c =? 0)) end
         | None => let c := db_page_chk s pgno in (c, negb (c =? 0))
         end
       end.

Definition ignored (s : st) (new : list (N * N)) (blockN b : N) : bool :=
  existsb (fun kv => (block_of (fst kv) =? b) && (block_of (fst kv) <? blockN)) (wal_chk s) ||
  existsb (fun kv => (block_of (fst kv) =? b) && (block_of (fst kv) <? blockN)) new.

Fixpoint sum_pages (s : st) (pN : N) (new : list (N * N)) (pgno : N) (n : nat) (acc : N) : option N :=
  match n with
  | O => Some acc
  | S n' =>
    if pN <? pgno then Some acc
    else let '(c, ok) := page_chk s pgno pN new in
         if ok then sum_pages s pN new (pgno + 1) n' (fl (N.lxor acc c)) else None
  end.

Fixpoint sum_blocks (s : st) (pN : N) (new : list (N * N)) (blockN b : N) (n : nat) (acc : N) : option N * st :=
  match n with
  | O => (Some acc, s)
  | S n' =>
    if ignored s new blockN b then
      match sum_pages s pN new (b * c_ChecksumBlockSize + 1) (N.to_nat c_ChecksumBlockSize) acc with
      | Some acc' => sum_blocks s pN new blockN (b + 1) n' acc'
      | None => (None, s)
      end
    else
      let '(bc, s') := block_chk s b in
      if bc =? 0 then
        match sum_pages s' pN new (b * c_ChecksumBlockSize + 1) (N.to_nat c_ChecksumBlockSize) acc with
        | Some acc' => sum_blocks s' pN new blockN (b + 1) n' acc'
        | None => (None, s')
        end
      else sum_blocks s' pN new blockN (b + 1) n' (fl (N.lxor acc bc))
  end.

(* checksum db.go:3218 (with the F4 repair: block indices are bounded by blockN) *)
Definition checksum (s : st) (pN : N) (new : list (N * N)) : option N * st :=
  if pN =? 0 then (Some flag, s)
  else let blockN := block_of pN + 1 in sum_blocks s pN new blockN 0 (N.to_nat blockN) 0.

(* ---- state update helpers ---- *)
Definition with_file (s : st) (f : list pg) : st :=
  mkSt (writeable s) (lockpg s) f (pageN s) (wal_mode s) (chk_pages s) (chk_blocks s) (wal_chk s) (wal_latest s)
       (wal_file s) (dirty s) (txid s) (chk s) (ltxdir s).
Definition with_dirty (s : st) (d : list N) : st :=
  mkSt (writeable s) (lockpg s) (dbfile s) (pageN s) (wal_mode s) (chk_pages s) (chk_blocks s) (wal_chk s) (wal_latest s)
       (wal_file s) d (txid s) (chk s) (ltxdir s).
Definition with_wal (s : st) (wc : list (N * list N)) (wl : list (N * pg)) (wf : list (N * pg * N)) : st :=
  mkSt (writeable s) (lockpg s) (dbfile s) (pageN s) (wal_mode s) (chk_pages s) (chk_blocks s) wc wl wf
       (dirty s) (txid s) (chk s) (ltxdir s).
Definition with_pos (s : st) (pN : N) (wal : bool) (t c : N) (dir : list ltxrec) : st :=
  mkSt (writeable s) (lockpg s) (dbfile s) pN wal (chk_pages s) (chk_blocks s) (wal_chk s) (wal_latest s)
       (wal_file s) (dirty s) t c dir.

Definition zero_pg : pg := mkPg 0 0 false.
Fixpoint set_file (l : list pg) (i : nat) (v : pg) : list pg :=
  match i, l with
  | O, [] => [v]
  | O, _ :: r => v :: r
  | S i', [] => zero_pg :: set_file [] i' v          (* a hole: harness histories never create one *)
  | S i', x :: r => x :: set_file r i' v
  end.

(* writeDatabasePage db.go:1112 *)
Definition write_db_page (s : st) (pgno : N) (p : pg) : st :=
  set_page_chk (with_file s (set_file (dbfile s) (N.to_nat (pgno - 1)) p)) pgno (pg_h p).

(* truncateDatabase db.go:1014 *)
Definition truncate_db (s : st) (n : N) : st :=
  reset_after (with_file s (firstn (N.to_nat n) (dbfile s))) n.

Fixpoint insert_sorted (x : N) (l : list N) : list N :=
  match l with
  | [] => [x]
  | y :: r => if x =? y then l else if x <? y then x :: l else y :: insert_sorted x r
  end.

(* WriteDatabaseAt db.go:1067 (page-aligned single-page writes only; others are refused by the harness' oracle) *)
Definition op_write_page (s : st) (pgno : N) (p : pg) : outcome * st :=
  if negb (writeable s) then (Failed, s)
  else
    let s1 := if wal_mode s then s else with_dirty s (insert_sorted pgno (dirty s)) in
    (Done, write_db_page s1 pgno p).

Definition op_write_page_j (s : st) (pgno : N) (p : pg) : outcome * st :=
  if negb (writeable s) then (Failed, s)
  else (Done, write_db_page (with_dirty s (insert_sorted pgno (dirty s))) pgno p).

(* the file system fills a gap below a page written further on with zeros: the file changes, LiteFS sees nothing *)
Definition op_zero_fill (s : st) (pgno : N) (p : pg) : outcome * st :=
  (Done, with_file s (set_file (dbfile s) (N.to_nat (pgno - 1)) p)).

(* TruncateDatabase db.go:986 *)
Definition op_truncate (s : st) (n : N) : outcome * st :=
  if negb (n =? pageN s) then (Failed, s) else (Done, truncate_db s n).

Definition file_pg (s : st) (pgno : N) : option pg := nth_error (dbfile s) (N.to_nat (pgno - 1)).

(* consecutive page numbers a, a+1, ... (n of them) *)
Fixpoint upfrom (a : N) (n : nat) : list N :=
  match n with O => [] | S n' => a :: upfrom (a + 1) n' end.

(* a page the database gains in this transaction that was never written through LiteFS - no checksum is kept for it:
   SQLite leaves out a page it allocated and freed again (a free-list leaf), the file system fills the gap with zeros.
   (Not "not in the dirty set": a transaction LiteFS rolled back itself leaves its pages listed there.) *)
Definition unwritten (s : st) (p : N) : bool := (pageN s <? p) && (db_page_chk s p =? 0).

(* the sorted page list of CommitJournal: the dirty pages within the new size, and every page between the old and
   the new size whether written or not *)
Definition journal_pgnos (s : st) (commit : N) : list N :=
  filter (fun p => (p <=? commit) && (p <=? pageN s)) (dirty s) ++ upfrom (pageN s + 1) (N.to_nat (commit - pageN s)).

(* the page loop of CommitJournal: every page is read back from the database file and has to match the checksum
   kept for it; for an unwritten page the checksum is taken from what the file holds *)
Fixpoint journal_pages (s : st) (commit : N) (pgnos : list N) : option (list (N * pg)) * st :=
  match pgnos with
  | [] => (Some [], s)
  | p :: r =>
    if p =? lockpg s then journal_pages s commit r
    else match file_pg s p with
         | None => (None, s)                              (* cannot read database page *)
         | Some q =>
           let s1 := if unwritten s p then set_page_chk s p (pg_h q) else s in
           let '(c, ok) := page_chk s1 p commit [] in
           if ok && (c =? pg_h q) then
             match journal_pages s1 commit r with
             | (Some l, s2) => (Some ((p, q) :: l), s2)
             | (None, s2) => (None, s2)
             end
           else (None, s1)                                (* checksum not found / does not match *)
         end
  end.

(* "Remove all checksums after last page" db.go:2038-2056 *)
Fixpoint clear_after_commit (s : st) (fuel : nat) (i : N) : st :=
  match fuel with
  | O => s
  | S f => if i <? lenN (chk_pages s)
           then clear_after_commit (if (i + 1) =? lockpg s then s else set_page_chk s (i + 1) 0) f (i + 1)
           else s
  end.

Definition new_ltx (s : st) (commit post : N) (pages : list (N * pg)) : ltxrec :=
  mkLtx (txid s + 1) (txid s + 1) (chk s) post commit pages.

(* CommitJournal db.go:1915.  [commit] = page count in the database file header (page 1),
   [p1wal] = page 1 is among the written pages and carries WAL versions. *)
Definition op_commit_journal (s : st) (commit : N) : outcome * st :=
  if negb (writeable s) then (Failed, s)
  else
    let pgnos := journal_pgnos s commit in
    let s0 := with_wal s [] (wal_latest s) (wal_file s) in       (* db.wal.chksums = make(...) *)
    match journal_pages s0 commit pgnos with
    | (None, sj) => (Failed, sj)
    | (Some pages, sj) =>
      let s1 := clear_after_commit sj (length (chk_pages sj)) commit in
      match checksum s1 commit [] with
      | (None, s2) => (Failed, s2)
      | (Some post, s2) =>
        let wal := match alookup 1 pages with Some q => pg_wal q | None => false end in
        let f := new_ltx s commit post pages in
        (Done, with_dirty (with_pos s2 commit wal (txid s + 1) post (ltxdir s ++ [f])) [])
      end
    end.

(* a rolled-back or empty journal finalisation without a valid header / page size: invalidateJournal only *)
Definition op_invalidate_journal (s : st) : outcome * st := (Done, with_dirty s []).

(* ---- WAL ---- *)
(* writeWALHeader db.go:1378 / TruncateWAL db.go:1281 / RemoveWAL: bookkeeping reset *)
Definition op_wal_reset (s : st) (drop_file : bool) : outcome * st :=
  (Done, with_wal s [] [] (if drop_file then [] else wal_file s)).
Definition op_wal_header (s : st) : outcome * st := (Done, with_wal s [] [] []).

(* last version of each page in write order, ascending page order *)
Fixpoint last_versions (frames : list (N * pg)) (acc : list (N * pg)) : list (N * pg) :=
  match frames with [] => acc | (p, q) :: r => last_versions r (aput p q acc) end.
Fixpoint sort_pages (l : list (N * pg)) (acc : list (N * pg)) : list (N * pg) :=
  match l with
  | [] => acc
  | (p, q) :: r =>
    let fix ins (a : list (N * pg)) : list (N * pg) :=
      match a with
      | [] => [(p, q)]
      | (p', q') :: a' => if p <? p' then (p, q) :: a else (p', q') :: ins a'
      end in
    sort_pages r (ins acc)
  end.

(* readPage db.go:1791 *)
Definition read_page (s : st) (pgno : N) : option pg :=
  match alookup pgno (wal_latest s) with Some q => Some q | None => file_pg s pgno end.

(* "Remove checksum of truncated pages" db.go:1656-1679 *)
Fixpoint truncated_pages (s : st) (pgno : N) (n : nat) (new : list (N * N)) : option (list (N * N)) :=
  match n with
  | O => Some new
  | S n' =>
    if pageN s <? pgno then Some new
    else if pgno =? lockpg s then truncated_pages s (pgno + 1) n' new
    else match read_page s pgno with
         | None => None
         | Some q =>
           let '(c, _) := page_chk s pgno (pageN s) [] in
           if c =? pg_h q then truncated_pages s (pgno + 1) n' (aput pgno 0 new) else None
         end
  end.

Fixpoint append_chk (new : list (N * N)) (wc : list (N * list N)) : list (N * list N) :=
  match new with
  | [] => wc
  | (p, c) :: r =>
    let old := match alookup p wc with Some l => l | None => [] end in
    append_chk r (aput p (old ++ [c]) wc)
  end.
Fixpoint merge_latest (tx : list (N * pg)) (wl : list (N * pg)) : list (N * pg) :=
  match tx with [] => wl | (p, q) :: r => merge_latest r (aput p q wl) end.

(* CommitWAL db.go:1532: [frames] are the frames of one complete committed transaction found at
   wal.offset, in write order; [commit] the size field of its commit frame. *)
Definition op_commit_wal (s : st) (frames : list (N * pg)) (commit : N) : outcome * st :=
  let tx := sort_pages (last_versions frames []) [] in
  (* neither the lock page nor a page beyond the size the commit frame leaves (written earlier in the transaction by a
     cache spill, then truncated away) is part of the transaction file *)
  let tx_nolock := filter (fun kv => negb (fst kv =? lockpg s) && (fst kv <=? commit)) tx in
  let new0 := map (fun kv => (fst kv, pg_h (snd kv))) tx_nolock in
  match truncated_pages s (commit + 1) (N.to_nat (pageN s)) new0 with
  | None => (Exited, s)
  | Some new =>
    match checksum s commit new with
    | (None, s1) => (Exited, s1)
    | (Some post, s1) =>
      if negb (writeable s1) then (Exited, s1)
      else
        let f := new_ltx s commit post tx_nolock in
        let wf := wal_file s1 ++ map (fun kv => (fst kv, snd kv, 0)) (removelast frames) ++
                  match rev frames with (p, q) :: _ => [(p, q, commit)] | [] => [] end in
        let s2 := with_wal s1 (append_chk new (wal_chk s1)) (merge_latest tx (wal_latest s1)) wf in
        let wal := match alookup 1 tx_nolock with Some q => pg_wal q | None => wal_mode s2 end in   (* mode follows page 1 (F17 repair) *)
        (Done, with_pos s2 commit wal (txid s + 1) post (ltxdir s ++ [f]))
    end
  end.

(* CheckpointNoLock db.go:696: copy the last committed version of every page in the wal file,
   cut the database to the last commit size, truncate the wal. *)
Fixpoint wal_committed (wf : list (N * pg * N)) (cur acc : list (N * pg)) (lastc : N) : list (N * pg) * N :=
  match wf with
  | [] => (acc, lastc)
  | (p, q, c) :: r =>
    let cur' := aput p q cur in
    if c =? 0 then wal_committed r cur' acc lastc
    else wal_committed r [] (merge_latest cur' acc) c
  end.
Definition op_checkpoint (s : st) : outcome * st :=
  let '(pages, lastc) := wal_committed (wal_file s) [] [] 0 in
  let s1 := match pages with
            | [] => s
            | _ => let s' := fold_left (fun a kv => write_db_page a (fst kv) (snd kv)) pages s in
                   let s'' := truncate_db s' lastc in
                   with_pos s'' lastc (wal_mode s'') (txid s'') (chk s'') (ltxdir s'')
            end in
  (Done, with_wal s1 [] [] []).

(* ApplyLTXNoLock db.go:2452 *)
Definition op_apply (s : st) (f : ltxrec) (fatal : bool) : outcome * st :=
  let bad := if fatal then Exited else Failed in
  let s1 := fold_left (fun a kv => write_db_page a (fst kv) (snd kv)) (l_pages f) s in
  let wal1 := match alookup 1 (l_pages f) with Some q => pg_wal q | None => wal_mode s end in   (* mode follows page 1 (after the F16 repair) *)
  let '(s2, wal2) := if l_commit f =? 0
                     then (mkSt (writeable s1) (lockpg s1) [] (pageN s1) (wal_mode s1) [] [] (wal_chk s1) (wal_latest s1)
                                [] (dirty s1) (txid s1) (chk s1) (ltxdir s1), false)
                     else (truncate_db s1 (l_commit f), wal1) in
  let s3 := with_pos s2 (l_commit f) wal2 (txid s2) (chk s2) (ltxdir s2) in
  match checksum s3 (l_commit f) [] with
  | (None, s4) => (bad, s4)
  | (Some c, s4) =>
    if c =? l_post f then (Done, with_pos s4 (l_commit f) wal2 (l_max f) (l_post f) (ltxdir s4))
    else (bad, s4)
  end.

(* Drop db.go:2157 *)
Definition op_drop (s : st) : outcome * st :=
  if negb (writeable s) then (Failed, s)
  else
    let f := mkLtx (txid s + 1) (txid s + 1) (chk s) flag 0 [] in
    (* files removed; page size, page checksums and WAL bookkeeping forgotten (db.go Drop, after the F10 repair) *)
    let s0 := mkSt (writeable s) (lockpg s) [] (pageN s) (wal_mode s) [] [] (wal_chk s) (wal_latest s)
                   (wal_file s) (dirty s) (txid s) (chk s) (ltxdir s) in
    let s1 := with_wal s0 [] [] [] in
    (Done, with_pos s1 0 false (txid s + 1) flag (ltxdir s ++ [f])).

(* Open db.go:481: header, recover (journal assumed absent between harness steps), checksums from the file, re-apply last LTX *)
Definition file_hdr (s : st) : option (N * bool) :=
  match dbfile s with [] => None | p :: _ => Some (pg_hdrN p, pg_wal p) end.
Definition op_open (s : st) : outcome * st :=
  let '(pN0, wal0) := match file_hdr s with Some (n, w) => (n, w) | None => (0, false) end in
  let s0 := mkSt (writeable s) (lockpg s) (dbfile s) pN0 wal0 [] [] [] [] (wal_file s) [] 0 0 (ltxdir s) in
  let '(_, s1) := op_checkpoint s0 in
  let '(pN1, wal1) := match file_hdr s1 with Some (n, w) => (n, w) | None => (0, false) end in
  let pages := map (fun p => pg_h p) (firstn (N.to_nat pN1) (dbfile s1)) in
  let pages := pages ++ repeat 0 (N.to_nat pN1 - length pages) in
  let pages := if (1 <=? lockpg s1) && (lockpg s1 <=? lenN pages) then set_nth pages (N.to_nat (lockpg s1 - 1)) 0 else pages in
  let blocks := repeat 0 (N.to_nat (block_of pN1)) in
  let s2 := mkSt (writeable s1) (lockpg s1) (dbfile s1) pN1 wal1 pages blocks [] [] [] [] 0 0 (ltxdir s1) in
  match rev (ltxdir s2) with
  | [] => (Done, s2)
  | f :: _ => op_apply s2 f false
  end.

(* ---- log placement: processLTXStreamFrame store.go:1508, WriteLTXFileAt db.go:2387, EnforceRetention db.go:3495 ---- *)
Definition with_dir (s : st) (dir : list ltxrec) : st :=
  mkSt (writeable s) (lockpg s) (dbfile s) (pageN s) (wal_mode s) (chk_pages s) (chk_blocks s) (wal_chk s) (wal_latest s)
       (wal_file s) (dirty s) (txid s) (chk s) dir.
Definition is_snapshot (f : ltxrec) : bool := l_min f =? 1.
Definition extends_pos (s : st) (f : ltxrec) : bool := (l_min f =? txid s + 1) && (l_pre f =? chk s).

(* a replica receives a file on the stream: position check, placement (a snapshot replaces the
   whole directory), apply with Exit on failure *)
Definition op_receive (s : st) (f : ltxrec) : outcome * st :=
  if negb (is_snapshot f) && negb (extends_pos s f) then (Failed, s)
  else op_apply (with_dir s (if is_snapshot f then [f] else ltxdir s ++ [f])) f true.

(* processLTXStreamFrame with the body check (after the F14 repair the streamed file is verified
   before it is renamed into the log): a file whose body does not verify changes nothing *)
Definition op_receive_checked (s : st) (f : ltxrec) (body_ok : bool) : outcome * st :=
  if negb (is_snapshot f) && negb (extends_pos s f) then (Failed, s)
  else if negb body_ok then (Failed, s)
  else op_receive s f.

(* the forwarding endpoint (http/server.go handlePostTx, then WriteLTXFileAt): the file has to continue the node's
   position - also a file that starts at transaction 1, which WriteLTXFileAt by itself would let through because the
   restore from a backup hands it such files - and its body is validated before the rename; then apply *)
Definition op_forward (s : st) (f : ltxrec) (body_ok : bool) : outcome * st :=
  if negb (extends_pos s f) then (Failed, s)
  else if negb body_ok then (Failed, s)
  else op_apply (with_dir s (if is_snapshot f then [f] else ltxdir s ++ [f])) f true.
(* correspondence for the forwarding endpoint: position, (first id, pre-checksum) of a well-formed file; 1 = stored *)
Definition forward_accepts (t c mn pre : N) : N := if (mn =? t + 1) && (pre =? c) then 1 else 0.
Definition mismatches_forward (cases : list (N * N * N * N * N)) : list nat :=
  let fix go (i : nat) (cs : list (N * N * N * N * N)) : list nat :=
    match cs with
    | [] => []
    | (t, c, mn, pre, want) :: rest => if forward_accepts t c mn pre =? want then go (S i) rest else i :: go (S i) rest
    end in
  go 0%nat cases.

(* Import db.go:2781 (after the F5/F6 repairs): the image is validated and written to the next LTX file
   first; only then are journal and WAL discarded and the file applied.  [pages] = all pages of the
   image in order (page 1 with its two counters reset), [ok] = the input could be read completely and
   its page size is acceptable. *)
Definition import_post (lock : N) (pages : list (N * pg)) : N :=
  fold_left (fun a kv => if fst kv =? lock then a else fl (N.lxor a (pg_h (snd kv)))) pages 0.
Definition op_import (s : st) (pages : list (N * pg)) (commit : N) (ok : bool) : outcome * st :=
  if negb (writeable s) then (Failed, s)
  else if negb ok then (Failed, s)
  else
    let pages' := filter (fun kv => negb (fst kv =? lockpg s)) pages in
    let post := if commit =? 0 then 0 else import_post (lockpg s) pages in
    let f := mkLtx (txid s + 1) (txid s + 1) (chk s) post commit pages' in
    let s1 := with_dirty (with_wal (with_dir s (ltxdir s ++ [f])) [] [] []) [] in
    op_apply s1 f true.

(* Export db.go:2682: the pages 1..pageN, each from the last committed WAL version if any, else the file *)
Fixpoint export_pages (s : st) (p : N) (n : nat) : list (option pg) :=
  match n with O => [] | S n' => read_page s p :: export_pages s (p + 1) n' end.
Definition op_export (s : st) : list (option pg) * (N * N) := (export_pages s 1 (N.to_nat (pageN s)), (txid s, chk s)).

(* retention sweep: [old f] = modification time before the cut-off *)
Fixpoint retention (dir : list ltxrec) (old : ltxrec -> bool) (backup : bool) (hwm : N) : list ltxrec :=
  match dir with
  | [] => []
  | f :: r =>
    match r with
    | [] => [f]                                             (* the newest file is never removed *)
    | _ => if old f && (negb backup || (l_max f <? hwm))
           then retention r old backup hwm
           else f :: retention r old backup hwm
    end
  end.
Definition op_retention (s : st) (old : ltxrec -> bool) (backup : bool) (hwm : N) : outcome * st :=
  (Done, with_dir s (retention (ltxdir s) old backup hwm)).

(* the chain predicate of C09 *)
Fixpoint linked (dir : list ltxrec) : Prop :=
  match dir with
  | f :: r => match r with
              | g :: _ => l_min g = l_max f + 1 /\ l_pre g = l_post f /\ linked r
              | [] => True
              end
  | [] => True
  end.
Definition ends_at (dir : list ltxrec) (t c : N) : Prop :=
  match rev dir with f :: _ => l_max f = t /\ l_post f = c | [] => t = 0 end.
Definition Chain (s : st) : Prop := linked (ltxdir s) /\ ends_at (ltxdir s) (txid s) (chk s).

(* ---- the op alphabet driven by the harness ---- *)
Inductive op :=
| OWrite (pgno : N) (p : pg)
| OTruncate (n : N)
| OCommitJournal (commit : N)
| OInvalidateJournal
| OWalHeader
| OWalTruncate
| OCommitWal (frames : list (N * pg)) (commit : N)
| OCheckpoint
| OOpen
| ODrop
| OSetWriteable (b : bool)
| OReceive (f : ltxrec)
| ORetention (ages : list bool) (backup : bool) (hwm : N)
| OImport (pages : list (N * pg)) (commit : N) (ok : bool)
| OCommitJournalFail (commit : N)   (* a journal commit that fails inside LiteFS before the transaction file is published
                                        (db.go CommitJournal: create / encode / sync / forward / rename error): nothing it touched
                                        survives - the cleared checksums of pages beyond the new size are put back *)
| OWriteJ (pgno : N) (p : pg)        (* a page write inside a rollback-journal transaction (the journal's header has been written):
                                         tracked as dirty whatever journal mode the header names - SQLite leaves WAL mode by
                                         rewriting page 1 under a rollback journal while the header still says WAL *)
| OZeroFill (pgno : N) (p : pg).      (* a page inside a growing database that SQLite never writes: zeros put there by the file system *)

Definition set_writeable (s : st) (b : bool) : st :=
  mkSt b (lockpg s) (dbfile s) (pageN s) (wal_mode s) (chk_pages s) (chk_blocks s) (wal_chk s) (wal_latest s)
       (wal_file s) (dirty s) (txid s) (chk s) (ltxdir s).

Definition step (s : st) (o : op) : outcome * st :=
  match o with
  | OWrite p q => op_write_page s p q
  | OTruncate n => op_truncate s n
  | OCommitJournal c =>
      (* a database file with nothing in it (the transaction that would have created the database was rolled back, SQLite
         has cut the file to nothing): there is no size to read, the journal is invalidated and nothing is published *)
      if writeable s && (pageN s =? 0) && (match dbfile s with [] => true | _ => false end) then op_invalidate_journal s
      else op_commit_journal s c
  | OInvalidateJournal => op_invalidate_journal s
  | OWalHeader => op_wal_header s
  | OWalTruncate => op_wal_reset s true
  | OCommitWal fr c => op_commit_wal s fr c
  | OCheckpoint => op_checkpoint s
  | OOpen => op_open s
  | ODrop => op_drop s
  | OSetWriteable b => (Done, set_writeable s b)
  | OReceive f => op_receive s f
  | OImport pages commit ok => op_import s pages commit ok
  | OCommitJournalFail _ => (Done, s)
  | OWriteJ p q => op_write_page_j s p q
  | OZeroFill p q => op_zero_fill s p q
  | ORetention ages backup hwm =>
      (* ages: one flag per file of the directory, in order; a file is identified by its max TXID *)
      let tagged := combine (map l_max (ltxdir s)) ages in
      op_retention s (fun f => match alookup (l_max f) tagged with Some b => b | None => false end) backup hwm
  end.

Definition init (lock : N) : st := mkSt true lock [] 0 false [] [] [] [] [] [] 0 0 [].

(* observation after a harness step (a group of ops): outcome code of the last failing op (0 = all done),
   txid, checksum, pageN, wal mode, number of ltx files *)
Definition ocode (o : outcome) : N := match o with Done => 0 | Failed => 1 | Exited => 2 | Panicked => 3 end.
Fixpoint run_group (s : st) (ops : list op) : N * st :=
  match ops with
  | [] => (0, s)
  | o :: r => let '(oc, s') := step s o in
              match oc with Done => run_group s' r | _ => (ocode oc, s') end
  end.
Definition ltx_obs (s : st) : list N :=
  match rev (ltxdir s) with
  | f :: _ => [l_min f; l_max f; l_pre f; l_post f; l_commit f] ++ map fst (l_pages f) ++ map (fun kv => pg_h (snd kv)) (l_pages f)
  | [] => []
  end.
Definition obs_of (code : N) (s : st) : list N :=
  [code; txid s; chk s; pageN s; (if wal_mode s then 1 else 0); lenN (ltxdir s)] ++ ltx_obs s.
Fixpoint run_hist (s : st) (groups : list (list op)) : list (list N) :=
  match groups with
  | [] => []
  | g :: r => let '(code, s') := run_group s g in obs_of code s' :: run_hist s' r
  end.

Fixpoint nl_eqb (a b : list N) : bool :=
  match a, b with [], [] => true | x :: a', y :: b' => (x =? y) && nl_eqb a' b' | _, _ => false end.
Fixpoint nll_eqb (a b : list (list N)) : bool :=
  match a, b with [], [] => true | x :: a', y :: b' => nl_eqb x y && nll_eqb a' b' | _, _ => false end.

(* replica timelines (C01): only [code; txid; chk; pageN] is observable through tx events *)
Definition obs_short (code : N) (s : st) : list N := [code; txid s; chk s; pageN s].
Fixpoint run_hist_short (s : st) (groups : list (list op)) : list (list N) :=
  match groups with
  | [] => []
  | g :: r => let '(code, s') := run_group s g in obs_short code s' :: run_hist_short s' r
  end.
Definition mismatches_short (cases : list (N * list (list op) * list (list N))) : list nat :=
  let fix go (i : nat) (cs : list (N * list (list op) * list (list N))) : list nat :=
    match cs with
    | [] => []
    | (lock, groups, obs) :: rest =>
      if nll_eqb (run_hist_short (set_writeable (init lock) false) groups) obs then go (S i) rest else i :: go (S i) rest
    end in
  go 0%nat cases.

(* a case: lock page number, groups of ops (one group per harness step), observed rows *)
Definition mismatches (cases : list (N * list (list op) * list (list N))) : list nat :=
  let fix go (i : nat) (cs : list (N * list (list op) * list (list N))) : list nat :=
    match cs with
    | [] => []
    | (lock, groups, obs) :: rest =>
      if nll_eqb (run_hist (init lock) groups) obs then go (S i) rest else i :: go (S i) rest
    end in
  go 0%nat cases.

(* retention on a directory given as (min, max) pairs, every file older than the cut-off:
   the max TXIDs of the files that remain *)
Definition retention_obs (files : list (N * N)) (backup : bool) (hwm : N) : list N :=
  map l_max (retention (map (fun mm => mkLtx (fst mm) (snd mm) 0 0 0 []) files) (fun _ => true) backup hwm).
Definition mismatches_retention (cases : list (list (N * N) * bool * N * list N)) : list nat :=
  let fix go (i : nat) (cs : list (list (N * N) * bool * N * list N)) : list nat :=
    match cs with
    | [] => []
    | (fs, b, h, want) :: rest => if nl_eqb (retention_obs fs b h) want then go (S i) rest else i :: go (S i) rest
    end in
  go 0%nat cases.
