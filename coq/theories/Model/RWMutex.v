(* C12: executable driver over the GENERATED model of rwmutex.go, the POSIX
   reader/writer spec, and the model of the blocking variants.  No proofs. *)
From Coq Require Import ZArith Bool Arith List.
Require Import LF.Base.RWBase LF.Gen.RWMutexGen.
Import ListNotations.

(* ---- operations of the exported API (one guard = one owner) ---- *)
Inductive op := OTryLock | OTryRLock | OUnlock | OCanLock | OCanRLock | OGuardState | OMutexState.

Inductive result :=
| RBool (b : bool)
| RUnit
| RBoolState (b : bool) (s : gstate)
| RState (s : gstate).

(* one API call on the generated model; None = a translated assert / panic fired *)
Definition step (w : world) (g : gid) (o : op) : option (result * world) :=
  match o with
  | OTryLock => match tryLock g w with Ret b w' => Some (RBool b, w') | Panic => None end
  | OTryRLock => match tryRLock g w with Ret b w' => Some (RBool b, w') | Panic => None end
  | OUnlock => match unlock g w with Ret _ w' => Some (RUnit, w') | Panic => None end
  | OCanLock => match canLock g w with Ret (b, s) w' => Some (RBoolState b s, w') | Panic => None end
  | OCanRLock => match canRLock g w with Ret b w' => Some (RBool b, w') | Panic => None end
  | OGuardState => Some (RState (gst w g), w)
  | OMutexState => Some (RState (state w), w)
  end.

Fixpoint run (w : world) (ops : list (gid * op)) : option (list result * world) :=
  match ops with
  | [] => Some ([], w)
  | (g, o) :: rest =>
    match step w g o with
    | None => None
    | Some (r, w') =>
      match run w' rest with
      | None => None
      | Some (rs, w'') => Some (r :: rs, w'')
      end
    end
  end.

(* ---- the spec: POSIX byte-range rules between distinct owners on one byte ---- *)
Definition holder := gid -> gstate.
Definition others_unlocked (s : holder) (g : gid) : Prop := forall h, h <> g -> s h = Unlocked.
Definition others_not_excl (s : holder) (g : gid) : Prop := forall h, h <> g -> s h <> Exclusive.
Definition upd (s : holder) (g : gid) (v : gstate) : holder := fun h => if Nat.eqb h g then v else s h.
Definition heq (s t : holder) : Prop := forall h, s h = t h.

(* state of the lock as a whole, as POSIX F_GETLK would describe it *)
Definition spec_mstate (s : holder) (m : gstate) : Prop :=
  match m with
  | Exclusive => exists h, s h = Exclusive
  | Shared => (exists h, s h = Shared) /\ (forall h, s h <> Exclusive)
  | Unlocked => forall h, s h = Unlocked
  end.

(* what the spec allows as result and next holder map of one call *)
Definition spec_step (s : holder) (g : gid) (o : op) (r : result) (s' : holder) : Prop :=
  match o with
  | OTryLock =>
      (r = RBool true /\ others_unlocked s g /\ heq s' (upd s g Exclusive)) \/
      (r = RBool false /\ ~ others_unlocked s g /\ heq s' s)
  | OTryRLock =>
      (r = RBool true /\ others_not_excl s g /\ heq s' (upd s g Shared)) \/
      (r = RBool false /\ ~ others_not_excl s g /\ heq s' s)
  | OUnlock => r = RUnit /\ heq s' (upd s g Unlocked)
  | OCanLock =>
      exists b m, r = RBoolState b m /\ (b = true <-> others_unlocked s g) /\ spec_mstate s m /\ heq s' s
  | OCanRLock =>
      exists b, r = RBool b /\ (b = true <-> others_not_excl s g) /\ heq s' s
  | OGuardState => r = RState (s g) /\ heq s' s
  | OMutexState => exists m, r = RState m /\ spec_mstate s m /\ heq s' s
  end.

Inductive spec_trace : holder -> list (gid * op) -> list result -> holder -> Prop :=
| ST_nil : forall s s', heq s' s -> spec_trace s [] [] s'
| ST_cons : forall s g o r s1 ops rs s2,
    spec_step s g o r s1 -> spec_trace s1 ops rs s2 -> spec_trace s ((g, o) :: ops) (r :: rs) s2.

(* ---- blocking variants: Lock(ctx) / RLock(ctx) (rwmutex.go:65-83,150-168) ----
   First one try; then one event per select wake-up: a ticker tick (one more
   try against whatever the world is at that moment) or ctx.Done.  The worlds
   seen at successive ticks are arbitrary (other owners run in between). *)
Inductive wake := Tick (w : world) | Done.
Inductive lock_result := Acquired (w : world) (polls : nat) | CtxErr (polls : nat) | Blocked | LPanic.

Fixpoint lock_loop (try : gid -> world -> outcome bool) (g : gid) (evs : list wake) (n : nat) : lock_result :=
  match evs with
  | [] => Blocked
  | Done :: _ => CtxErr n
  | Tick w :: rest =>
    match try g w with
    | Ret true w' => Acquired w' (S n)
    | Ret false _ => lock_loop try g rest (S n)
    | Panic => LPanic
    end
  end.

Definition lock_ctx (try : gid -> world -> outcome bool) (g : gid) (w0 : world) (evs : list wake) : lock_result :=
  match try g w0 with
  | Ret true w' => Acquired w' 0
  | Ret false _ => lock_loop try g evs 0
  | Panic => LPanic
  end.

(* ---- encodings used by the correspondence cases (harness prints these) ---- *)
Definition gcode (s : gstate) : nat := match s with Unlocked => 0 | Shared => 1 | Exclusive => 2 end.
Definition rcode (r : result) : nat :=
  match r with
  | RBool false => 0 | RBool true => 1
  | RUnit => 2
  | RBoolState b s => 10 + (if b then 3 else 0) + gcode s
  | RState s => 20 + gcode s
  end.
Definition ocode (n : nat) : op :=
  match n with
  | 0 => OTryLock | 1 => OTryRLock | 2 => OUnlock | 3 => OCanLock | 4 => OCanRLock | 5 => OGuardState | _ => OMutexState
  end.
(* a case: list of (guard, opcode) with the observed result codes; 99 = panic *)
Fixpoint run_codes_from (w : world) (ops : list (nat * nat)) : list nat :=
  match ops with
  | [] => []
  | (g, o) :: rest =>
    match step w g (ocode o) with
    | None => [99]           (* the harness stops a sequence at the first panic *)
    | Some (r, w') => rcode r :: run_codes_from w' rest
    end
  end.
Definition run_codes (ops : list (nat * nat)) : list nat := run_codes_from init_world ops.
Definition mismatches (cases : list (list (nat * nat) * list nat)) : list nat :=
  let fix go (i : nat) (cs : list (list (nat * nat) * list nat)) : list nat :=
    match cs with
    | [] => []
    | (ops, obs) :: rest =>
      if list_eq_dec Nat.eq_dec (run_codes ops) obs then go (S i) rest else i :: go (S i) rest
    end in
  go 0 cases.
