(* C19: decision function of the built-in HTTP proxy (http/proxy_server.go:196-351). Definitions only. *)
From Coq Require Import NArith List Bool.
Import ListNotations.
Local Open Scope N_scope.

Inductive role := RPrimary | RReplica | RNoPrimary.

Record req := {
  r_read_method : bool;     (* GET or HEAD *)
  r_is_get : bool;          (* GET (for the health endpoint) *)
  r_health_path : bool;     (* path = /litefs/health *)
  r_passthrough : bool;     (* path matches a passthrough expression *)
  r_always_forward : bool;  (* path matches an always-forward expression *)
  r_cookie : N              (* TXID parsed from the __txid cookie; 0 = absent, malformed or zero *)
}.

Inductive result :=
| Forward (passthrough : bool) (set_cookie : option N)   (* request sent to the local application *)
| GatewayTimeout                                         (* 504 *)
| Replay                                                 (* fly-replay header naming the primary; not forwarded *)
| NoPrimary503
| Health.

(* the polling loop of serveRead: [obs] = TXIDs that successive reads of db.Pos() return until the
   timeout fires; the request is forwarded at the first one that reaches the cookie *)
Fixpoint poll (want : N) (obs : list N) : bool :=
  match obs with
  | [] => false
  | p :: r => if want <=? p then true else poll want r
  end.

(* [db_present]: the tracked database exists; [pos_after]: its TXID when the upstream response has arrived *)
Definition proxy_decide (q : req) (ro : role) (db_present : bool) (obs : list N) (pos_after : N) : result :=
  if r_passthrough q then Forward true None
  else if r_is_get q && r_health_path q then Health
  else
    let read_only := r_read_method q && negb (r_always_forward q) in
    if read_only then
      if r_cookie q =? 0 then Forward false None
      else if negb db_present then Forward false None
      else if poll (r_cookie q) obs then Forward false None else GatewayTimeout
    else
      match ro with
      | RPrimary => Forward false (if negb (r_read_method q) && db_present then Some pos_after else None)
      | RNoPrimary => NoPrimary503
      | RReplica => Replay
      end.

(* observation codes for the correspondence: [kind; cookie-set?; cookie value] with kind
   0 forwarded, 1 gateway timeout, 2 replay, 3 no-primary, 4 health, 5 forwarded as passthrough *)
Definition result_obs (r : result) : list N :=
  match r with
  | Forward false None => [0; 0; 0]
  | Forward false (Some c) => [0; 1; c]
  | Forward true _ => [5; 0; 0]
  | GatewayTimeout => [1; 0; 0]
  | Replay => [2; 0; 0]
  | NoPrimary503 => [3; 0; 0]
  | Health => [4; 0; 0]
  end.
Definition role_of (n : N) : role := if n =? 0 then RPrimary else if n =? 1 then RReplica else RNoPrimary.
Definition mk_req (a b c d e : bool) (k : N) : req :=
  {| r_read_method := a; r_is_get := b; r_health_path := c; r_passthrough := d; r_always_forward := e; r_cookie := k |}.
Fixpoint nl_eqb4 (a b : list N) : bool :=
  match a, b with [], [] => true | x :: a', y :: b' => (x =? y) && nl_eqb4 a' b' | _, _ => false end.
Definition mismatches (cases : list (req * N * bool * list N * N * list N)) : list nat :=
  let fix go (i : nat) (cs : list (req * N * bool * list N * N * list N)) : list nat :=
    match cs with
    | [] => []
    | (q, ro, dbp, obs, after, want) :: rest =>
      if nl_eqb4 (result_obs (proxy_decide q (role_of ro) dbp obs after)) want then go (S i) rest else i :: go (S i) rest
    end in
  go 0%nat cases.
