(* C08: the election loop (store.go monitorLease 762-859, acquireLeaseOrPrimaryInfo 861-888) and the
   primary's renewal loop (monitorLeaseAsPrimary 892-1014, processHandoff 1343-1364) as decision
   functions of what the lease service answers.  Definitions only. *)
From Coq Require Import NArith List Bool.
Import ListNotations.
Local Open Scope N_scope.

(* ---------- one iteration of the election loop ---------- *)
Inductive cid_resp := CidErr | CidEmpty | CidEqual | CidDifferent.   (* the leaser's cluster id against the local one *)
Inductive info_resp := InfoPresent | InfoAbsent | InfoErr.           (* PrimaryInfo: a primary / ErrNoPrimary / error *)
Inductive acq_resp := AcqOk | AcqExists | AcqErr.                    (* Acquire: lease / ErrPrimaryExists / error *)

Record iter_in := {
  i_candidate : bool;
  i_local_cid : bool;            (* the data directory has a cluster id *)
  i_cid : cid_resp;              (* CidEqual / CidDifferent only make sense when both sides have one *)
  i_handoff : option bool;       (* a lease id was handed over by the previous primary; AcquireExisting succeeds? *)
  i_info1 : info_resp;
  i_acquire : acq_resp;
  i_info2 : info_resp
}.
Inductive call := CallClusterID | CallPrimaryInfo | CallAcquire | CallAcquireExisting.
Inductive iter_out := ORetry | OPrimary | OReplica.

Definition leaser_has_cid (i : iter_in) : bool :=
  match i_cid i with CidEmpty | CidErr => false | _ => true end.

Definition iterate (i : iter_in) : iter_out * list call :=
  match i_cid i with
  | CidErr => (ORetry, [CallClusterID])
  | c =>
    if leaser_has_cid i && negb (i_local_cid i) then
      (* the lease is initialised, this node has no cluster id: it may only follow *)
      match i_info1 i with
      | InfoPresent => (OReplica, [CallClusterID; CallPrimaryInfo])
      | _ => (ORetry, [CallClusterID; CallPrimaryInfo])
      end
    else match c with
    | CidDifferent => (ORetry, [CallClusterID])         (* another cluster: neither lead nor follow *)
    | _ =>
      match i_handoff i with
      | Some ok => ((if ok then OPrimary else ORetry), [CallClusterID; CallAcquireExisting])
      | None =>
        match i_info1 i with
        | InfoPresent => (OReplica, [CallClusterID; CallPrimaryInfo])
        | InfoErr => (ORetry, [CallClusterID; CallPrimaryInfo])
        | InfoAbsent =>
          if negb (i_candidate i) then (ORetry, [CallClusterID; CallPrimaryInfo])
          else match i_acquire i with
               | AcqOk => (OPrimary, [CallClusterID; CallPrimaryInfo; CallAcquire])
               | AcqErr => (ORetry, [CallClusterID; CallPrimaryInfo; CallAcquire])
               | AcqExists =>
                 match i_info2 i with
                 | InfoPresent => (OReplica, [CallClusterID; CallPrimaryInfo; CallAcquire; CallPrimaryInfo])
                 | _ => (ORetry, [CallClusterID; CallPrimaryInfo; CallAcquire; CallPrimaryInfo])
                 end
               end
        end
      end
    end
  end.

(* ---------- the primary's loop ---------- *)
(* time in milliseconds; [ttl] the lease's TTL; the loop waits [wait], then reacts to what happens *)
Inductive pevent :=
| PRenewOk | PRenewExpired | PRenewErr     (* the wait elapsed and Renew answered *)
| PDemote                                  (* manual demotion *)
| PHandoff (connected lease_ok : bool)     (* handoff request: the target is a connected subscriber / Lease.Handoff succeeds *)
| PHandoffLeaseGone                        (* handoff request to a connected target; the renewal made before the lease id is passed
                                              on reports the lease gone.  A handoff that fails otherwise changes nothing: in
                                              particular it does not postpone the next renewal *)
| PShutdown.
Inductive pexit := XExpired | XDemoted | XHandedOff | XShutdown | XStillPrimary.

Record pstate := { p_since : N; (* ms since the last successful renewal *) p_wait : N }.
Definition retry_ms : N := 1000.

(* returns the exit (XStillPrimary = the events ran out), whether the lease was closed on exit, and
   how long after the last successful renewal the node stopped being primary *)
Fixpoint primary_loop (ttl : N) (s : pstate) (evs : list pevent) : pexit * bool * N :=
  match evs with
  | [] => (XStillPrimary, false, p_since s)
  | e :: r =>
    match e with
    | PRenewOk => primary_loop ttl {| p_since := 0; p_wait := ttl / 2 |} r
    | PRenewExpired => (XExpired, true, p_since s + p_wait s)
    | PRenewErr =>
      let since := p_since s + p_wait s in
      if ttl <? since + retry_ms then (XExpired, true, N.max since ttl)    (* gives up: holds the role for what is left of the TTL, then leaves *)
      else primary_loop ttl {| p_since := since; p_wait := retry_ms |} r
    | PDemote => (XDemoted, true, p_since s)
    | PHandoff connected ok =>
      if connected && ok then (XHandedOff, false, p_since s) else primary_loop ttl s r
    | PHandoffLeaseGone => (XExpired, true, p_since s)
    | PShutdown => (XShutdown, true, p_since s)
    end
  end.
Definition primary_run (ttl : N) (evs : list pevent) : pexit * bool * N :=
  primary_loop ttl {| p_since := 0; p_wait := ttl / 2 |} evs.

(* ---------- correspondence ---------- *)
Definition ccode (c : call) : N := match c with CallClusterID => 1 | CallPrimaryInfo => 2 | CallAcquire => 3 | CallAcquireExisting => 4 end.
Definition ocode (o : iter_out) : N := match o with ORetry => 0 | OPrimary => 1 | OReplica => 2 end.
Definition iter_obs (i : iter_in) : list N := ocode (fst (iterate i)) :: map ccode (snd (iterate i)).
Definition xcode (x : pexit) : N := match x with XExpired => 1 | XDemoted => 2 | XHandedOff => 3 | XShutdown => 4 | XStillPrimary => 0 end.
Definition run_obs (ttl : N) (evs : list pevent) : list N :=
  let '(x, closed, _) := primary_run ttl evs in [xcode x; if closed then 1 else 0].
Fixpoint nl_eqb' (a b : list N) : bool :=
  match a, b with [], [] => true | x :: a', y :: b' => (x =? y) && nl_eqb' a' b' | _, _ => false end.
Definition mismatches_iter (cases : list (iter_in * list N)) : list nat :=
  let fix go (i : nat) (cs : list (iter_in * list N)) : list nat :=
    match cs with [] => [] | (x, want) :: rest => if nl_eqb' (iter_obs x) want then go (S i) rest else i :: go (S i) rest end in
  go 0%nat cases.
Definition mismatches_run (cases : list (N * list pevent * list N)) : list nat :=
  let fix go (i : nat) (cs : list (N * list pevent * list N)) : list nat :=
    match cs with [] => [] | (ttl, evs, want) :: rest => if nl_eqb' (run_obs ttl evs) want then go (S i) rest else i :: go (S i) rest end in
  go 0%nat cases.

(* ---------- attaching to a primary's stream (store.go monitorLeaseAsReplica 1396-1406) ---------- *)
(* cluster ids as options: None = not set.  Returns the id the node has afterwards and whether it follows. *)
Definition attach (local stream : option N) : option N * bool :=
  let local' := match local, stream with None, Some c => Some c | _, _ => local end in
  (local', match local', stream with
           | Some a, Some b => a =? b
           | None, None => true
           | _, _ => false
           end).

(* ---------- right after the acquisition (store.go monitorLeaseAsPrimary) ---------- *)
(* the lease service's cluster id is read once more: none = the node initialises it with its own (or a new) id; otherwise it
   has to be the node's stored id.  Returns whether the node goes on to be primary, and the id the service has afterwards
   (0 stands for a freshly generated id). *)
Definition post_acquire (local leaser : option N) : bool * option N :=
  match leaser with
  | None => (true, Some (match local with Some a => a | None => 0 end))
  | Some b => (match local with Some a => a =? b | None => false end, Some b)
  end.

