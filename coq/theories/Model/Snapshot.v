(* C10: a snapshot / export against concurrent writers and checkpointers.  Definitions only.
   db.go Export 2767-2870, WriteSnapshotTo 3430-3600: the reader S takes its locks in a fixed order,
   captures position and WAL frame offsets, then reads every page - from the WAL at the captured
   offset if the page had a frame, else from the database file.  Other connections follow SQLite's
   locking protocol: a WAL commit needs WRITE exclusively, anything that rewrites the database file
   (checkpoint / WAL restart, LiteFS's own checkpoint) needs CKPT and the READ locks exclusively, a
   rollback-journal commit needs SHARED exclusively.  Lock semantics are those of the generated
   RWMutex (C11): an exclusive request is refused while anybody else holds the lock. *)
From Coq Require Import NArith List Bool Arith.
Require Import LF.Model.PageDB LF.Base.LockBase.
Import ListNotations.
Local Open Scope N_scope.

Inductive slock := SLShared | SLWrite | SLCkpt | SLRead.     (* READ = READ0..READ4 together *)

(* the reader's script *)
Inductive sstep :=
| SAcquire (l : slock)     (* SHARED / CKPT / READ: shared; WRITE: exclusive.  Blocks until granted. *)
| SRelease (l : slock)
| SCapturePos              (* pos := db.Pos(), size *)
| SCaptureWal              (* copy of the frame-offset map *)
| SRead (p : N).

(* what other connections do *)
Inductive oev :=
| OWalCommit (w : list (N * pg))    (* a WAL-mode transaction commits pages w *)
| OCkpt                             (* the WAL is copied into the database file and reset *)
| OJournalCommit (w : list (N * pg)). (* a rollback-journal transaction writes pages w into the file and commits *)

Record sst := {
  s_file : N -> pg;
  s_wal : list (N * pg);            (* committed frames, newest first *)
  s_pos : nat;
  s_hist : nat -> N -> pg;          (* ghost: the image of every position so far *)
  s_held : slock -> bool;           (* locks the reader holds *)
  s_owrite : bool;                  (* another connection holds WRITE (inside its transaction) - not used: commits are atomic here *)
  s_cpos : option nat;
  s_cwal : option (list (N * pg));
  s_out : list (N * pg)             (* pages read so far, in order *)
}.

Definition view (s : sst) (p : N) : pg := match alookup p (s_wal s) with Some q => q | None => s_file s p end.
Definition fupd (g : N -> pg) (l : list (N * pg)) : N -> pg :=
  fun p => match alookup p l with Some q => q | None => g p end.
Definition hold (s : sst) (l : slock) (b : bool) : slock -> bool :=
  fun x => match x, l with
           | SLShared, SLShared | SLWrite, SLWrite | SLCkpt, SLCkpt | SLRead, SLRead => b
           | _, _ => s_held s x
           end.

Definition set_held (s : sst) (h : slock -> bool) : sst :=
  {| s_file := s_file s; s_wal := s_wal s; s_pos := s_pos s; s_hist := s_hist s; s_held := h; s_owrite := s_owrite s;
     s_cpos := s_cpos s; s_cwal := s_cwal s; s_out := s_out s |}.

Definition sstep_exec (s : sst) (st : sstep) : sst :=
  match st with
  | SAcquire l => set_held s (hold s l true)
  | SRelease l => set_held s (hold s l false)
  | SCapturePos => {| s_file := s_file s; s_wal := s_wal s; s_pos := s_pos s; s_hist := s_hist s; s_held := s_held s; s_owrite := s_owrite s;
                      s_cpos := Some (s_pos s); s_cwal := s_cwal s; s_out := s_out s |}
  | SCaptureWal => {| s_file := s_file s; s_wal := s_wal s; s_pos := s_pos s; s_hist := s_hist s; s_held := s_held s; s_owrite := s_owrite s;
                      s_cpos := s_cpos s; s_cwal := Some (s_wal s); s_out := s_out s |}
  | SRead p =>
    let q := match s_cwal s with
             | Some cw => match alookup p cw with Some q => q | None => s_file s p end
             | None => s_file s p
             end in
    {| s_file := s_file s; s_wal := s_wal s; s_pos := s_pos s; s_hist := s_hist s; s_held := s_held s; s_owrite := s_owrite s;
       s_cpos := s_cpos s; s_cwal := s_cwal s; s_out := s_out s ++ [(p, q)] |}
  end.

(* another connection's event takes effect only if the locks it needs exclusively are free of the reader *)
Definition oev_allowed (s : sst) (o : oev) : bool :=
  match o with
  | OWalCommit _ => negb (s_held s SLWrite)
  | OCkpt => negb (s_held s SLWrite) && negb (s_held s SLCkpt) && negb (s_held s SLRead)
  | OJournalCommit _ => negb (s_held s SLShared) && match s_wal s with [] => true | _ => false end   (* rollback-journal mode: no WAL content *)
  end.
Definition newpos (s : sst) (img : N -> pg) (file : N -> pg) (wal : list (N * pg)) : sst :=
  {| s_file := file; s_wal := wal; s_pos := S (s_pos s);
     s_hist := fun n => if Nat.eqb n (S (s_pos s)) then img else s_hist s n;
     s_held := s_held s; s_owrite := s_owrite s; s_cpos := s_cpos s; s_cwal := s_cwal s; s_out := s_out s |}.
Definition oev_exec (s : sst) (o : oev) : sst :=
  if negb (oev_allowed s o) then s
  else match o with
       | OWalCommit w => newpos s (fupd (view s) w) (s_file s) (w ++ s_wal s)
       | OCkpt => {| s_file := view s; s_wal := []; s_pos := s_pos s; s_hist := s_hist s; s_held := s_held s; s_owrite := s_owrite s;
                     s_cpos := s_cpos s; s_cwal := s_cwal s; s_out := s_out s |}
       | OJournalCommit w => newpos s (fupd (view s) w) (fupd (s_file s) w) (s_wal s)
       end.

(* a schedule: the reader's next step, or somebody else's event *)
Inductive sched := RStep | REv (o : oev).
Fixpoint exec (s : sst) (script : list sstep) (sc : list sched) : sst * list sstep :=
  match sc with
  | [] => (s, script)
  | RStep :: r => match script with [] => exec s [] r | st :: rest => exec (sstep_exec s st) rest r end
  | REv o :: r => exec (oev_exec s o) script r
  end.

Definition reads (pages : list N) : list sstep := map SRead pages.
(* the order Export uses (db.go): WRITE is released before CKPT / READ are taken *)
Definition export_script (pages : list N) : list sstep :=
  [SAcquire SLShared; SAcquire SLWrite; SCapturePos; SCaptureWal; SRelease SLWrite; SAcquire SLCkpt; SAcquire SLRead] ++
  reads pages ++ [SRelease SLCkpt; SRelease SLRead; SRelease SLShared].
(* the hand-over that closes the window: READ is taken while WRITE is still held *)
Definition safe_script (pages : list N) : list sstep :=
  [SAcquire SLShared; SAcquire SLWrite; SCapturePos; SCaptureWal; SAcquire SLCkpt; SAcquire SLRead; SRelease SLWrite] ++
  reads pages ++ [SRelease SLCkpt; SRelease SLRead; SRelease SLShared].

Definition init_sst (img : N -> pg) : sst :=
  {| s_file := img; s_wal := []; s_pos := 0; s_hist := fun _ => img; s_held := fun _ => false; s_owrite := false;
     s_cpos := None; s_cwal := None; s_out := [] |}.

(* the output is the image of the captured position *)
Definition out_is_image (s : sst) : Prop :=
  match s_cpos s with
  | Some n => forall p q, In (p, q) (s_out s) -> q = s_hist s n p
  | None => s_out s = []
  end.
(* WriteSnapshotTo's self-check (db.go:3480): the checksum of what was read against the captured position's;
   with checksums standing for contents (NoCollision) this is the comparison itself *)
Definition self_check (s : sst) : bool :=
  match s_cpos s with
  | Some n => forallb (fun kv => N.eqb (pg_h (snd kv)) (pg_h (s_hist s n (fst kv)))) (s_out s)
  | None => true
  end.

(* ---- correspondence: a steered run ---- *)
(* [kind] 0 export / 1 snapshot; [steps] reader steps done when the interference starts; [interference]
   1 commit, 2 checkpoint, 3 commit then checkpoint; observation 1 = completed with the image of the
   reported position, 0 = completed with a mixture, 2 = refused by the self-check *)
Definition cA : pg := mkPg 1 0 false.
Definition cB : pg := mkPg 2 0 false.
Definition out_ok (s : sst) : bool :=
  match s_cpos s with
  | Some n => forallb (fun kv => N.eqb (pg_h (snd kv)) (pg_h (s_hist s n (fst kv)))) (s_out s)
  | None => true
  end.
Definition steered_obs (kind steps interference : N) : N :=
  let evs := (if N.testbit interference 0 then [REv (OWalCommit [(2, cB)])] else []) ++
             (if N.testbit interference 1 then [REv OCkpt] else []) in
  let sc := repeat RStep (N.to_nat steps) ++ evs ++ repeat RStep 16 in
  let s := fst (exec (init_sst (fun _ => cA)) (export_script [1; 2]) sc) in
  if out_ok s then 1 else if kind =? 0 then 0 else 2.
Definition mismatches_snap (cases : list (N * N * N * N)) : list nat :=
  let fix go (i : nat) (cs : list (N * N * N * N)) : list nat :=
    match cs with
    | [] => []
    | (k, st, itf, want) :: rest => if steered_obs k st itf =? want then go (S i) rest else i :: go (S i) rest
    end in
  go 0%nat cases.

(* ---- the generated lock order of Export / WriteSnapshotTo, seen through the model's four locks ---- *)
(* PENDING is only held while SHARED is taken; RECOVER and DMS play no part; the five READ locks count as
   taken when all five are (the checkpoint is stopped by READ0, the restart by READ1..4) *)
Definition is_read (l : lk) : bool := match l with LRead0 | LRead1 | LRead2 | LRead3 | LRead4 => true | _ => false end.
Fixpoint abstract (l : list gstep) (reads_held : nat) : list sstep :=
  match l with
  | [] => []
  | g :: r =>
    let g' := match g with GWalOnly x => x | _ => g end in
    match g' with
    | GR LShared => SAcquire SLShared :: abstract r reads_held
    | GX LWrite => SAcquire SLWrite :: abstract r reads_held
    | GU LWrite => SRelease SLWrite :: abstract r reads_held
    | GR LCkpt => SAcquire SLCkpt :: abstract r reads_held
    | GU LCkpt => SRelease SLCkpt :: abstract r reads_held
    | GR x => if is_read x
              then (if Nat.eqb reads_held 4 then SAcquire SLRead :: abstract r 5 else abstract r (S reads_held))
              else abstract r reads_held
    | GU x => if is_read x then SRelease SLRead :: abstract r 0 else abstract r reads_held
    | GCapturePos => SCapturePos :: abstract r reads_held
    | GCaptureWal => SCaptureWal :: abstract r reads_held
    | _ => abstract r reads_held
    end
  end.
Definition export_prefix : list sstep :=
  [SAcquire SLShared; SAcquire SLWrite; SCapturePos; SCaptureWal; SRelease SLWrite; SAcquire SLCkpt; SAcquire SLRead].
