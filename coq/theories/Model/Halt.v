(* C13: write forwarding under a halt lock.  One primary P, the replica R that takes the halt lock,
   an observer replica O that only follows the stream, and an unreliable network between R and P
   (responses and requests can be lost, requests repeated).  Definitions only.
   db.go:215-325 (grant / release / expiry), 330-454 (remote side), 1736-1747 / 2111-2122 / 2240-2251
   (forward inside the commit), http/server.go handlePostHalt / handleDeleteHalt / handlePostTx,
   store.go processLTXStreamFrame (own frames skipped, stale lock cleared). *)
From Coq Require Import NArith List Bool.
Import ListNotations.
Local Open Scope N_scope.

(* one committed transaction: id, checksum before, checksum after, node that produced it (0 = P, 1 = R) *)
Record entry := { e_txid : N; e_pre : N; e_post : N; e_node : N }.
Definition log := list entry.           (* newest first *)
Definition pos_of (l : log) : N * N := match l with [] => (0, 0) | e :: _ => (e_txid e, e_post e) end.
Definition extends (l : log) (e : entry) : bool := (e_txid e =? fst (pos_of l) + 1) && (e_pre e =? snd (pos_of l)).
Definition next_entry (l : log) (post node : N) : entry :=
  {| e_txid := fst (pos_of l) + 1; e_pre := snd (pos_of l); e_post := post; e_node := node |}.

Record sys := {
  plog : log;                  (* primary's history *)
  phalt : option (N * (N * N)); (* halt lock granted by the primary: id and position at grant *)
  rlock : option (N * (N * N)); (* halt lock the replica believes it holds *)
  rlog : log;
  olog : log;
  ohalt : option (N * (N * N))  (* halt lock a former primary still holds on its own database after the role moved on:
                                   it pins that node's write lock, so the node cannot follow the stream until the lock
                                   expires (store.go monitorLease: Recover after monitorLeaseAsPrimary waits for it) *)
}.
Definition init : sys := {| plog := []; phalt := None; rlock := None; rlog := []; olog := []; ohalt := None |}.

Inductive ev :=
| EGrant (id : N) (delivered : bool)   (* R asks for the lock; the grant's response reaches R or is lost *)
| ELocalWrite (post : N)               (* an application on P tries to commit *)
| ECheckpoint                          (* an application / LiteFS on P tries to checkpoint *)
| ECommit (post : N) (delivered : bool)(* an application on R commits; the forward's response reaches R or is lost *)
| ERelease (sent : bool)               (* R gives the lock up: clears it locally, then DELETE /halt (which may be lost) *)
| EExpire                              (* P's TTL monitor finds the lock overdue *)
| EForeign (id : N) (post : N)         (* another client posts /tx?lockID=id with a file that extends P *)
| ECommitWal (post : N) (delivered : bool) (* the same commit on a WAL-mode database: SQLite has finished writing when LiteFS
                                          forwards (at the release of the WAL write lock), so a forward that fails or whose answer
                                          is lost cannot be rolled back - CommitWAL calls Exit and R restarts (db.go CommitWAL) *)
| EHandoff                             (* P hands the lease to O (POST /handoff); O has to be connected, which a former primary
                                          that still holds a halt lock is not.  The model hands over to a caught-up O only. *)
| ERestart.                            (* R's process dies and restarts: what it believed about the lock is gone, its log is durable
                                          (in WAL mode a failed forwarded commit ends in exactly this: CommitWAL calls Exit) *)

(* result codes *)
Definition c_refused : N := 0.
Definition c_ok : N := 1.
Definition c_applied_but_unacknowledged : N := 2.
Definition c_lost : N := 4.

Definition id_of (h : option (N * (N * N))) : N := match h with Some (i, _) => i | None => 0 end.
Definition holds (h : option (N * (N * N))) (id : N) : bool := match h with Some (i, _) => i =? id | None => false end.

(* POST /halt on the primary: Some lock = answered with that lock *)
Definition grant (s : sys) (id : N) : sys * option (N * (N * N)) :=
  if id =? 0 then (s, None)
  else match phalt s with
       | Some (i, p) => if i =? id then (s, Some (i, p)) else (s, None)      (* same id: same lock; other id: times out *)
       | None => let l := (id, pos_of (plog s)) in
                 ({| plog := plog s; phalt := Some l; rlock := rlock s; rlog := rlog s; olog := olog s; ohalt := ohalt s |}, Some l)
       end.

(* POST /tx on the primary *)
Definition forward (s : sys) (id : N) (e : entry) : sys * bool :=
  if holds (phalt s) id && extends (plog s) e
  then ({| plog := e :: plog s; phalt := phalt s; rlock := rlock s; rlog := rlog s; olog := olog s; ohalt := ohalt s |}, true)
  else (s, false).

Definition release_primary (s : sys) (id : N) : sys :=
  if holds (phalt s) id then {| plog := plog s; phalt := None; rlock := rlock s; rlog := rlog s; olog := olog s; ohalt := ohalt s |} else s.

Definition restart (s : sys) : sys := {| plog := plog s; phalt := phalt s; rlock := None; rlog := rlog s; olog := olog s; ohalt := ohalt s |}.

(* the roles swap: O's log is the primary's from now on, the former primary becomes the observer and keeps the halt
   lock it had granted; the new primary has granted none.  R keeps believing whatever it believed. *)
Fixpoint log_eqb (a b : log) : bool :=
  match a, b with
  | [], [] => true
  | x :: a', y :: b' => (e_txid x =? e_txid y) && (e_pre x =? e_pre y) && (e_post x =? e_post y) && (e_node x =? e_node y) && log_eqb a' b'
  | _, _ => false
  end.
Definition can_handoff (s : sys) : bool :=
  match ohalt s with Some _ => false | None => log_eqb (olog s) (plog s) end.
Definition handoff (s : sys) : sys :=
  {| plog := olog s; phalt := None; rlock := rlock s; rlog := rlog s; olog := plog s; ohalt := phalt s |}.

Definition step (s : sys) (e : ev) : sys * N :=
  match e with
  | EGrant id delivered =>
    let '(s1, r) := grant s id in
    match r with
    | None => (s1, c_refused)
    | Some l =>
      if negb delivered then (s1, c_lost)
      else if (fst (snd l) =? fst (pos_of (rlog s1))) && (snd (snd l) =? snd (pos_of (rlog s1)))
           then ({| plog := plog s1; phalt := phalt s1; rlock := Some l; rlog := rlog s1; olog := olog s1; ohalt := ohalt s1 |}, c_ok)
           else (* WaitPosExact fails: R releases at the primary and forgets the lock (db.go AcquireRemoteHaltLock) *)
             let s2 := release_primary s1 (fst l) in
             ({| plog := plog s2; phalt := phalt s2; rlock := None; rlog := rlog s2; olog := olog s2; ohalt := ohalt s2 |}, c_refused)
    end
  | ELocalWrite post =>
    match phalt s with
    | Some _ => (s, c_refused)                     (* the halt lock pins the write lock *)
    | None => ({| plog := next_entry (plog s) post 0 :: plog s; phalt := None; rlock := rlock s; rlog := rlog s; olog := olog s; ohalt := ohalt s |}, c_ok)
    end
  | ECheckpoint => match phalt s with Some _ => (s, c_refused) | None => (s, c_ok) end
  | ECommit post delivered =>
    match rlock s with
    | None => (s, c_refused)                       (* read-only replica *)
    | Some (id, _) =>
      let e := next_entry (rlog s) post 1 in
      let '(s1, ok) := forward s id e in
      if negb ok then (s1, c_refused)
      else if delivered
           then ({| plog := plog s1; phalt := phalt s1; rlock := rlock s1; rlog := e :: rlog s1; olog := olog s1; ohalt := ohalt s1 |}, c_ok)
           else (s1, c_applied_but_unacknowledged)
    end
  | ERelease sent =>
    match rlock s with
    | None => (s, c_refused)
    | Some (id, _) =>
      let s1 := {| plog := plog s; phalt := phalt s; rlock := None; rlog := rlog s; olog := olog s; ohalt := ohalt s |} in
      ((if sent then release_primary s1 id else s1), c_ok)
    end
  | EExpire => ({| plog := plog s; phalt := None; rlock := rlock s; rlog := rlog s; olog := olog s; ohalt := None |}, c_ok)
  | EForeign id post =>
    let '(s1, ok) := forward s id (next_entry (plog s) post 2) in (s1, if ok then c_ok else c_refused)
  | ECommitWal post delivered =>
    match rlock s with
    | None => (restart s, c_refused)
    | Some (id, _) =>
      let e := next_entry (rlog s) post 1 in
      let '(s1, ok) := forward s id e in
      if negb ok then (restart s1, c_refused)
      else if delivered
           then ({| plog := plog s1; phalt := phalt s1; rlock := rlock s1; rlog := e :: rlog s1; olog := olog s1; ohalt := ohalt s1 |}, c_ok)
           else (restart s1, c_applied_but_unacknowledged)
    end
  | EHandoff => if can_handoff s then (handoff s, c_ok) else (s, c_refused)
  | ERestart => (restart s, c_ok)
  end.

(* ---- the stream: after each event the replicas take what the primary's log has for them ---- *)
(* the entry of [l] with transaction id [t] *)
Fixpoint find_tx (l : log) (t : N) : option entry :=
  match l with [] => None | e :: r => if e_txid e =? t then Some e else find_tx r t end.

(* R applies the next entry.  An entry R itself produced is skipped only when R already has it
   (store.go processLTXStreamFrame, repaired); any applied entry clears a stale lock. *)
Definition stream_r (s : sys) : sys :=
  match find_tx (plog s) (fst (pos_of (rlog s)) + 1) with
  | None => s
  | Some e => if e_pre e =? snd (pos_of (rlog s))
              then {| plog := plog s; phalt := phalt s; rlock := None; rlog := e :: rlog s; olog := olog s; ohalt := ohalt s |}
              else s
  end.
Definition stream_o (s : sys) : sys :=
  match ohalt s with
  | Some _ => s       (* a former primary whose own halt lock is still held cannot take the write lock *)
  | None =>
  match find_tx (plog s) (fst (pos_of (olog s)) + 1) with
  | None => s
  | Some e => if e_pre e =? snd (pos_of (olog s))
              then {| plog := plog s; phalt := phalt s; rlock := rlock s; rlog := rlog s; olog := e :: olog s; ohalt := ohalt s |}
              else s
  end
  end.
Fixpoint settle (fuel : nat) (s : sys) : sys :=
  match fuel with O => s | S f => settle f (stream_o (stream_r s)) end.

Definition step_settled (s : sys) (e : ev) : sys * N :=
  let '(s1, c) := step s e in (settle (S (length (plog s1))) s1, c).

(* ---- correspondence ---- *)
Definition obs_of (s : sys) (c : N) : list N :=
  [c; fst (pos_of (plog s)); snd (pos_of (plog s)); fst (pos_of (rlog s)); snd (pos_of (rlog s));
   fst (pos_of (olog s)); snd (pos_of (olog s)); id_of (phalt s); id_of (rlock s); id_of (ohalt s)].
Fixpoint run (s : sys) (es : list ev) : list (list N) :=
  match es with
  | [] => []
  | e :: r => let '(s1, c) := step_settled s e in obs_of s1 c :: run s1 r
  end.
Fixpoint final (s : sys) (es : list ev) : sys :=
  match es with [] => s | e :: r => final (fst (step_settled s e)) r end.

Fixpoint nl_eqb (a b : list N) : bool :=
  match a, b with [], [] => true | x :: a', y :: b' => (x =? y) && nl_eqb a' b' | _, _ => false end.
Fixpoint nll_eqb (a b : list (list N)) : bool :=
  match a, b with [], [] => true | x :: a', y :: b' => nl_eqb x y && nll_eqb a' b' | _, _ => false end.
(* a case: the setup history (local writes on the primary, by checksum), the events, the observations *)
Definition start_of (setup : list N) : sys :=
  final init (map ELocalWrite setup).
Definition mismatches (cases : list (list N * list ev * list (list N))) : list nat :=
  let fix go (i : nat) (cs : list (list N * list ev * list (list N))) : list nat :=
    match cs with
    | [] => []
    | (setup, es, want) :: rest =>
      if nll_eqb (run (start_of setup) es) want then go (S i) rest else i :: go (S i) rest
    end in
  go 0%nat cases.

(* ---- AcquireRemoteHaltLock on a replica that is behind the primary (db.go:345) ----
   The primary grants the lock at its own position; WaitPosExact lets the stream bring R there (the primary is halted,
   so its position does not move); then the lock is stored.  [store_first] is the order before the repair: the lock
   stored before the wait, so that the transactions still on their way - which clear a lock R holds - cleared it. *)
Definition with_rlock (s : sys) (l : option (N * (N * N))) : sys :=
  {| plog := plog s; phalt := phalt s; rlock := l; rlog := rlog s; olog := olog s; ohalt := ohalt s |}.
Definition grant_wait (s : sys) (id : N) (store_first : bool) : sys * N :=
  let '(s1, r) := grant s id in
  match r with
  | None => (s1, c_refused)
  | Some l =>
    let s2 := settle (S (length (plog s1))) (if store_first then with_rlock s1 (Some l) else s1) in
    if (fst (snd l) =? fst (pos_of (rlog s2))) && (snd (snd l) =? snd (pos_of (rlog s2)))
    then ((if store_first then s2 else with_rlock s2 (Some l)), c_ok)
    else (with_rlock (release_primary s2 (fst l)) None, c_refused)
  end.
(* the state after [setup] in which R lacks the primary's last [k] transactions *)
Definition behind_state (setup : list N) (k : nat) : sys :=
  let s := start_of setup in
  {| plog := plog s; phalt := phalt s; rlock := rlock s; rlog := skipn k (plog s); olog := olog s; ohalt := ohalt s |}.
(* what the harness observes of it: result, the primary's and the replica's position, the lock each of them has *)
Definition behind_obs (setup : list N) (k : nat) (id : N) : list N :=
  let '(s', c) := grant_wait (behind_state setup k) id false in
  [c; fst (pos_of (plog s')); snd (pos_of (plog s')); fst (pos_of (rlog s')); snd (pos_of (rlog s')); id_of (phalt s'); id_of (rlock s')].
Definition mismatches_behind (cases : list (list N * nat * N * list N)) : list nat :=
  let fix go (i : nat) (cs : list (list N * nat * N * list N)) : list nat :=
    match cs with
    | [] => []
    | (setup, k, id, want) :: rest => if nl_eqb (behind_obs setup k id) want then go (S i) rest else i :: go (S i) rest
    end in
  go 0%nat cases.

