(* C07: what an application can do to a database through the mount or the import endpoint on a node
   that has no write authority.  (a) the application-level operations are the PageDB operations
   except the ones only LiteFS itself issues (stream apply, restart, role change, retention);
   (b) the errno each FUSE handler answers with (fuse/*.go, fuse/fuse.go ToError).  Definitions only. *)
From Coq Require Import NArith List Bool.
Require Import LF.Model.PageDB.
Import ListNotations.
Local Open Scope N_scope.

(* operations an application can cause *)
Definition app_op (o : op) : bool :=
  match o with
  | OWrite _ _ | OTruncate _ | OCommitJournal _ | OInvalidateJournal | OWalHeader | OWalTruncate
  | OCommitWal _ _ | OCheckpoint | ODrop | OImport _ _ _ | OCommitJournalFail _ | OWriteJ _ _ => true
  | OOpen | OSetWriteable _ | OReceive _ | ORetention _ _ _ | OZeroFill _ _ => false
  end.
(* those among them that would change the replicated database if they went through *)
Definition mutating (o : op) : bool :=
  match o with
  | OWrite _ _ | OWriteJ _ _ | OCommitJournal _ | OCommitWal _ _ | ODrop | OImport _ _ _ => true
  | _ => false
  end.

(* what replication and the application see of a database *)
Definition view (s : st) : list (option pg) * (N * N) * list ltxrec * N * bool :=
  (fst (op_export s), snd (op_export s), ltxdir s, pageN s, wal_mode s).

(* run every operation, whatever its outcome *)
Fixpoint run_all (s : st) (ops : list op) : st :=
  match ops with [] => s | o :: r => run_all (snd (step s o)) r end.
Fixpoint outcomes (s : st) (ops : list op) : list outcome :=
  match ops with [] => [] | o :: r => fst (step s o) :: outcomes (snd (step s o)) r end.

(* ---- the FUSE handlers an application reaches ---- *)
Inductive handler :=
| HCreateDB | HWriteDB | HTruncateDB | HRemoveDB
| HCreateJournal | HWriteJournal | HTruncateJournal | HRemoveJournal
| HCreateWAL | HWriteWAL | HTruncateWAL | HRemoveWAL
| HImport.
Inductive answer := AOk | AAccess (* EACCES *) | AOther (* any other error *) | A503.

(* [wr]: the node is primary or holds the halt lock; [primary]: it is primary.
   [same_size]: a database truncation to exactly the current page count (a no-op the code lets through);
   [has_wal]: the wal file exists. *)
Definition answer_of (h : handler) (wr primary same_size has_wal : bool) : answer :=
  match h with
  | HCreateDB => if primary then AOk else AAccess                 (* store.go CreateDB: primary only *)
  | HWriteDB | HWriteJournal | HWriteWAL | HCreateJournal => if wr then AOk else AAccess
  | HTruncateDB => if same_size then AOk else AOther
  | HRemoveDB => if primary then AOk else AAccess
  | HTruncateJournal | HRemoveJournal => if wr then AOk else AOther
  | HCreateWAL => if has_wal then AOther else AOk
  | HTruncateWAL => if has_wal then (if wr then AOk else AAccess) else AOther   (* the lookup of a log that is not there fails first; fuse/wal_node.go Setattr *)
  | HRemoveWAL => if wr then (if has_wal then AOk else AOther) else AAccess      (* fuse/root_node.go Remove *)
  | HImport => if primary then AOk else A503
  end.
Definition changes_database (h : handler) : bool :=
  match h with
  | HCreateDB | HWriteDB | HRemoveDB | HCreateJournal | HWriteJournal | HTruncateJournal | HRemoveJournal | HWriteWAL | HImport
  | HTruncateWAL | HRemoveWAL => true     (* the log of a node that has just lost its write authority still holds what it committed *)
  | HTruncateDB | HCreateWAL => false     (* same-size truncate; an empty log *)
  end.

Definition acode (a : answer) : N := match a with AOk => 0 | AAccess => 13 | AOther => 5 | A503 => 503 end.
Definition mismatches_ro (cases : list (handler * bool * bool * bool * bool * N)) : list nat :=
  let fix go (i : nat) (cs : list (handler * bool * bool * bool * bool * N)) : list nat :=
    match cs with
    | [] => []
    | (h, wr, pr, ss, hw, want) :: rest =>
      if acode (answer_of h wr pr ss hw) =? want then go (S i) rest else i :: go (S i) rest
    end in
  go 0%nat cases.
