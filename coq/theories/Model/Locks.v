(* C11: the twelve SQLite locks of one database (db.go:3027-3182, litefs.go:420-560) over the
   GENERATED RWMutex model; owners are guard ids (gid), unboundedly many.  Definitions only. *)
From Coq Require Import NArith ZArith List Bool Arith.
Require Import LF.Base.RWBase LF.Gen.RWMutexGen LF.Gen.ConstsGen.
Require Export LF.Base.LockBase.
Import ListNotations.
Local Open Scope nat_scope.

Definition lk_eqb (a b : lk) : bool :=
  match a, b with
  | LPending, LPending | LShared, LShared | LReserved, LReserved | LWrite, LWrite | LCkpt, LCkpt | LRecover, LRecover
  | LRead0, LRead0 | LRead1, LRead1 | LRead2, LRead2 | LRead3, LRead3 | LRead4, LRead4 | LDMS, LDMS => true
  | _, _ => false
  end.
Definition all_locks : list lk := [LPending; LShared; LReserved; LWrite; LCkpt; LRecover; LRead0; LRead1; LRead2; LRead3; LRead4; LDMS].
Definition lock_byte (l : lk) : N :=
  match l with
  | LPending => c_LockTypePending | LShared => c_LockTypeShared | LReserved => c_LockTypeReserved
  | LWrite => c_LockTypeWrite | LCkpt => c_LockTypeCkpt | LRecover => c_LockTypeRecover
  | LRead0 => c_LockTypeRead0 | LRead1 => c_LockTypeRead1 | LRead2 => c_LockTypeRead2
  | LRead3 => c_LockTypeRead3 | LRead4 => c_LockTypeRead4 | LDMS => c_LockTypeDMS
  end.

(* ParseDatabaseLockRange / ParseSHMLockRange (litefs.go:424-480): the lock types whose byte lies in [a, b] *)
Definition in_range (a b x : N) : bool := (N.leb a x) && (N.leb x b).
Definition parse_db_range (a b : N) : list lk := filter (fun l => in_range a b (lock_byte l)) [LPending; LReserved; LShared].
Definition parse_shm_range (a b : N) : list lk :=
  filter (fun l => in_range a b (lock_byte l)) [LWrite; LCkpt; LRecover; LRead0; LRead1; LRead2; LRead3; LRead4; LDMS].

Definition table := lk -> world.
Definition tset (t : table) (l : lk) (w : world) : table := fun l' => if lk_eqb l' l then w else t l'.
Definition tinit : table := fun _ => init_world.

(* outcome of a table operation: None = a translated assert fired *)
Definition t_trylock (t : table) (l : lk) (g : gid) : option (bool * table) :=
  match tryLock g (t l) with Ret b w => Some (b, tset t l w) | Panic => None end.
Definition t_tryrlock (t : table) (l : lk) (g : gid) : option (bool * table) :=
  match tryRLock g (t l) with Ret b w => Some (b, tset t l w) | Panic => None end.
Definition t_unlock (t : table) (l : lk) (g : gid) : option table :=
  match unlock g (t l) with Ret _ w => Some (tset t l w) | Panic => None end.

(* a request over several locks is granted or refused as a whole: on a refusal the guards taken so far go back to the
   state they had (db.go restoreGuards); [done] = (lock, state before) in the order they were taken *)
Definition restore_one (t : table) (g : gid) (l : lk) (prev : gstate) : option table :=
  if gstate_eqb (gst (t l) g) prev then Some t
  else match prev with
       | Unlocked => t_unlock t l g
       | Shared => match t_tryrlock t l g with Some (_, t') => Some t' | None => None end
       | Exclusive => match t_trylock t l g with Some (_, t') => Some t' | None => None end
       end.
Fixpoint restore_guards (t : table) (g : gid) (done : list (lk * gstate)) : option table :=
  match done with
  | [] => Some t
  | (l, p) :: r => match restore_one t g l p with None => None | Some t' => restore_guards t' g r end
  end.
Definition refuse (t : table) (g : gid) (done : list (lk * gstate)) : option (bool * table) :=
  match restore_guards t g done with None => None | Some t' => Some (false, t') end.

(* DB.TryLocks: in order; CKPT gating; the first refusal undoes the earlier ones *)
Fixpoint try_locks_from (t : table) (g : gid) (ls : list lk) (done : list (lk * gstate)) : option (bool * table) :=
  match ls with
  | [] => Some (true, t)
  | l :: r =>
    if lk_eqb l LCkpt && negb (gstate_eqb (state (t LWrite)) Unlocked) && negb (gstate_eqb (gst (t LWrite) g) Exclusive)
    then refuse t g done
    else match t_trylock t l g with
         | None => None
         | Some (false, t') => refuse t' g done
         | Some (true, t') => try_locks_from t' g r (done ++ [(l, gst (t l) g)])
         end
  end.
Definition try_locks (t : table) (g : gid) (ls : list lk) : option (bool * table) := try_locks_from t g ls [].
(* DB.TryRLocks: first the locks the requester does not hold exclusively, in order (the first refusal undoes the earlier
   ones); then the downgrades of the ones it does.  A downgrade is never refused, whereas putting an exclusive lock back
   after a refusal further on can be (another owner may have taken the lock shared in between). *)
Fixpoint try_rlocks_from (t : table) (g : gid) (ls : list lk) (done : list (lk * gstate)) : option (bool * table) :=
  match ls with
  | [] => Some (true, t)
  | l :: r => if gstate_eqb (gst (t l) g) Exclusive then try_rlocks_from t g r done
              else match t_tryrlock t l g with
              | None => None
              | Some (false, t') => refuse t' g done
              | Some (true, t') => try_rlocks_from t' g r (done ++ [(l, gst (t l) g)])
              end
  end.
Fixpoint downgrade_all (t : table) (g : gid) (ls : list lk) : option table :=
  match ls with
  | [] => Some t
  | l :: r => match t_tryrlock t l g with Some (_, t') => downgrade_all t' g r | None => None end
  end.
Definition try_rlocks (t : table) (g : gid) (ls : list lk) : option (bool * table) :=
  match try_rlocks_from t g ls [] with
  | Some (true, t') =>
    match downgrade_all t' g (filter (fun l => gstate_eqb (gst (t l) g) Exclusive) ls) with
    | Some t'' => Some (true, t'')
    | None => None
    end
  | r => r
  end.
(* DB.Unlock db.go:3161 (the CommitWAL side effect lives in PageDB) *)
Fixpoint unlock_all (t : table) (g : gid) (ls : list lk) : option table :=
  match ls with
  | [] => Some t
  | l :: r => match t_unlock t l g with None => None | Some t' => unlock_all t' g r end
  end.
(* DB.CanLock / CanRLock *)
Fixpoint can_lock (t : table) (g : gid) (ls : list lk) : option (bool * gstate) :=
  match ls with
  | [] => Some (true, Unlocked)
  | l :: r => match canLock g (t l) with
              | Panic => None
              | Ret (false, m) _ => Some (false, m)
              | Ret (true, _) _ => can_lock t g r
              end
  end.
Fixpoint can_rlock (t : table) (g : gid) (ls : list lk) : option bool :=
  match ls with
  | [] => Some true
  | l :: r => match canRLock g (t l) with
              | Panic => None
              | Ret false _ => Some false
              | Ret true _ => can_rlock t g r
              end
  end.

(* TryAcquireWriteLock db.go:2943 as a script; [g] is the fresh guard set of the internal writer *)
Inductive act := AR (l : lk) | AX (l : lk) | AU (l : lk).
Definition write_script (wal : bool) : list act :=
  [AR LPending; AR LShared; AU LPending] ++
  (if wal then [AR LDMS; AX LWrite; AX LCkpt; AX LRecover; AX LRead0; AX LRead1; AX LRead2; AX LRead3; AX LRead4]
   else [AX LReserved; AX LPending; AX LShared]).
(* the generated steps of TryAcquireWriteLock as a script *)
Fixpoint acts_of (l : list gstep) : list act :=
  match l with
  | [] => []
  | GR x :: r => AR x :: acts_of r
  | GX x :: r => AX x :: acts_of r
  | GU x :: r => AU x :: acts_of r
  | _ :: r => acts_of r
  end.
Fixpoint run_script (t : table) (g : gid) (s : list act) : option (bool * table) :=
  match s with
  | [] => Some (true, t)
  | a :: r =>
    match a with
    | AR l => match t_tryrlock t l g with None => None | Some (false, t') => Some (false, t') | Some (true, t') => run_script t' g r end
    | AX l => match t_trylock t l g with None => None | Some (false, t') => Some (false, t') | Some (true, t') => run_script t' g r end
    | AU l => match t_unlock t l g with None => None | Some t' => run_script t' g r end
    end
  end.
(* on failure the whole guard set is released (defer gs.Unlock()) *)
Definition try_acquire_write (t : table) (g : gid) (wal : bool) : option (bool * table) :=
  match run_script t g (write_script wal) with
  | None => None
  | Some (true, t') => Some (true, t')
  | Some (false, t') => match unlock_all t' g all_locks with None => None | Some t'' => Some (false, t'') end
  end.

(* WAL writes are refused unless SOME owner holds WRITE exclusively (db.go:1388,1441,1461) *)
Definition wal_write_allowed (t : table) : bool := gstate_eqb (state (t LWrite)) Exclusive.

(* ---- correspondence: op codes ---- *)
Inductive lop :=
| OTryLocks (g : nat) (ls : list nat) | OTryRLocks (g : nat) (ls : list nat) | OUnlockL (g : nat) (ls : list nat)
| OCanLockL (g : nat) (ls : list nat) | OCanRLockL (g : nat) (ls : list nat)
| OAcquireWrite (g : nat) (wal : bool) | OReleaseAll (g : nat) | OWalWriteAllowed
| OUnlockDatabaseL (g : nat) | OUnlockSHML (g : nat).   (* DB.UnlockDatabase / DB.UnlockSHM: flush of a database / shm handle *)
Definition lk_of (n : nat) : lk := nth n all_locks LPending.
Definition db_locks : list lk := [LPending; LReserved; LShared].
Definition shm_locks : list lk := [LWrite; LCkpt; LRecover; LRead0; LRead1; LRead2; LRead3; LRead4; LDMS].
Definition gcode (s : gstate) : nat := match s with Unlocked => 0 | Shared => 1 | Exclusive => 2 end.
Definition lstep (t : table) (o : lop) : option (nat * table) :=
  match o with
  | OTryLocks g ls => match try_locks t g (map lk_of ls) with Some (b, t') => Some (if b then 1 else 0, t') | None => None end
  | OTryRLocks g ls => match try_rlocks t g (map lk_of ls) with Some (b, t') => Some (if b then 1 else 0, t') | None => None end
  | OUnlockL g ls => match unlock_all t g (map lk_of ls) with Some t' => Some (2, t') | None => None end
  | OCanLockL g ls => match can_lock t g (map lk_of ls) with Some (b, m) => Some (10 + (if b then 3 else 0) + gcode m, t) | None => None end
  | OCanRLockL g ls => match can_rlock t g (map lk_of ls) with Some b => Some (if b then 1 else 0, t) | None => None end
  | OAcquireWrite g wal => match try_acquire_write t g wal with Some (b, t') => Some (if b then 1 else 0, t') | None => None end
  | OReleaseAll g => match unlock_all t g all_locks with Some t' => Some (2, t') | None => None end
  | OWalWriteAllowed => Some (if wal_write_allowed t then 1 else 0, t)
  | OUnlockDatabaseL g => match unlock_all t g db_locks with Some t' => Some (2, t') | None => None end
  | OUnlockSHML g => match unlock_all t g shm_locks with Some t' => Some (2, t') | None => None end
  end.
Fixpoint lrun (t : table) (ops : list lop) : list nat :=
  match ops with
  | [] => []
  | o :: r => match lstep t o with None => [99] | Some (c, t') => c :: lrun t' r end
  end.
(* after the run: the mutex state of all twelve locks *)
Fixpoint lfinal (t : table) (ops : list lop) : table :=
  match ops with [] => t | o :: r => match lstep t o with None => t | Some (_, t') => lfinal t' r end end.
Definition lcase_obs (ops : list lop) : list nat :=
  lrun tinit ops ++ map (fun l => gcode (state (lfinal tinit ops l))) all_locks.
Definition mismatches (cases : list (list lop * list nat)) : list nat :=
  let fix go (i : nat) (cs : list (list lop * list nat)) : list nat :=
    match cs with
    | [] => []
    | (ops, obs) :: rest => if list_eq_dec Nat.eq_dec (lcase_obs ops) obs then go (S i) rest else i :: go (S i) rest
    end in
  go 0 cases.

(* ---- a request over several locks while the other owners keep going (C12: "a failed attempt changes nothing") ----
   [prim]: one guard operation of some owner.  [sched]: what the others do before each step of the request and of its
   rollback.  [skip_excl = true] is DB.TryRLocks after the repair; [false] the order before it (every lock in turn, an
   exclusive one downgraded on the way and upgraded back by the rollback). *)
Inductive prim := PX (h : gid) (l : lk) | PR (h : gid) (l : lk) | PU (h : gid) (l : lk).
Definition prim_owner (p : prim) : gid := match p with PX h _ | PR h _ | PU h _ => h end.
Definition prim_step (t : table) (p : prim) : option table :=
  match p with
  | PX h l => match t_trylock t l h with Some (_, t') => Some t' | None => None end
  | PR h l => match t_tryrlock t l h with Some (_, t') => Some t' | None => None end
  | PU h l => t_unlock t l h
  end.
Fixpoint run_prims (t : table) (ps : list prim) : option table :=
  match ps with [] => Some t | p :: r => match prim_step t p with Some t' => run_prims t' r | None => None end end.
Fixpoint restore_il (t : table) (g : gid) (done : list (lk * gstate)) (sched : list (list prim)) : option table :=
  match done with
  | [] => Some t
  | (l, p) :: r =>
    match run_prims t (hd [] sched) with
    | None => None
    | Some ta => match restore_one ta g l p with None => None | Some t' => restore_il t' g r (tl sched) end
    end
  end.
Fixpoint try_rlocks_il (skip_excl : bool) (t : table) (g : gid) (ls : list lk) (sched : list (list prim))
                       (done : list (lk * gstate)) : option (bool * table) :=
  match ls with
  | [] => Some (true, t)
  | l :: r =>
    match run_prims t (hd [] sched) with
    | None => None
    | Some ta =>
      if skip_excl && gstate_eqb (gst (ta l) g) Exclusive then try_rlocks_il skip_excl ta g r (tl sched) done
      else match t_tryrlock ta l g with
           | None => None
           | Some (false, t') => match restore_il t' g done (tl sched) with Some t'' => Some (false, t'') | None => None end
           | Some (true, t') => try_rlocks_il skip_excl t' g r (tl sched) (done ++ [(l, gst (ta l) g)])
           end
    end
  end.

