(* C05: what survives a process death, and what Open makes of it.  Definitions only.
   The durable state of one database (database file, hot journal if any, transaction files) and the
   durable steps of the operations that change it, in the order LiteFS and SQLite issue them
   (db.go CommitJournal 1961-2140, processLTXStreamFrame / ApplyLTXNoLock, Drop; SQLite's pager for the
   journal records and page writes).  A crash is a prefix of an operation's step list; [recover] is the
   Open sequence (db.go Open / recover / rollbackJournal / recoverFromLastLTX): roll a hot journal back,
   then re-apply the newest transaction file.  Process death, not power loss: every completed write is
   in the page cache, so the state is exactly the prefix. *)
From Coq Require Import NArith List Bool.
Require Import LF.Model.PageDB.
Import ListNotations.
Local Open Scope N_scope.

(* the database file: a page count and the content of every page number (zero page beyond what was written) *)
Record file := { f_size : N; f_page : N -> pg }.
Definition upd (g : N -> pg) (p : N) (q : pg) : N -> pg := fun x => if x =? p then q else g x.
Definition write_page (f : file) (p : N) (q : pg) : file :=
  {| f_size := N.max (f_size f) p; f_page := upd (f_page f) p q |}.
Definition truncate (f : file) (n : N) : file := {| f_size := n; f_page := f_page f |}.
Definition write_pages (f : file) (l : list (N * pg)) : file :=
  fold_left (fun a kv => write_page a (fst kv) (snd kv)) l f.

Record disk := {
  k_db : file;
  k_journal : option (list (N * pg) * N);   (* hot journal: (page, pre-image) records and the original page count *)
  k_ltx : list ltxrec                        (* transaction files, oldest first *)
}.

Inductive cstep :=
| KJournalBegin (orig : N)        (* journal header on disk: hot from here on *)
| KJournalRecord (p : N) (pre : pg)
| KWritePage (p : N) (q : pg)
| KTruncate (n : N)
| KLtxRename (f : ltxrec)         (* the rename that publishes a transaction file *)
| KLtxRemoveOthers                (* a snapshot removes every older file (after its own rename) *)
| KJournalEnd.                    (* journal deleted / truncated / header zeroed *)

Definition kstep (d : disk) (s : cstep) : disk :=
  match s with
  | KJournalBegin orig => {| k_db := k_db d; k_journal := Some ([], orig); k_ltx := k_ltx d |}
  | KJournalRecord p pre =>
    match k_journal d with
    | Some (recs, orig) => {| k_db := k_db d; k_journal := Some (recs ++ [(p, pre)], orig); k_ltx := k_ltx d |}
    | None => d
    end
  | KWritePage p q => {| k_db := write_page (k_db d) p q; k_journal := k_journal d; k_ltx := k_ltx d |}
  | KTruncate n => {| k_db := truncate (k_db d) n; k_journal := k_journal d; k_ltx := k_ltx d |}
  | KLtxRename f => {| k_db := k_db d; k_journal := k_journal d; k_ltx := k_ltx d ++ [f] |}
  | KLtxRemoveOthers => {| k_db := k_db d; k_journal := k_journal d;
                           k_ltx := match rev (k_ltx d) with f :: _ => [f] | [] => [] end |}
  | KJournalEnd => {| k_db := k_db d; k_journal := None; k_ltx := k_ltx d |}
  end.
Definition krun (d : disk) (l : list cstep) : disk := fold_left kstep l d.

(* ---- Open ---- *)
(* rollbackJournal: records of pages past the original size are skipped, then the file is cut to that size *)
Definition rollback (d : disk) : disk :=
  match k_journal d with
  | None => d
  | Some (recs, orig) =>
    {| k_db := truncate (write_pages (k_db d) (filter (fun r => fst r <=? orig) recs)) orig;
       k_journal := None; k_ltx := k_ltx d |}
  end.
Definition newest (d : disk) : option ltxrec := match rev (k_ltx d) with f :: _ => Some f | [] => None end.
(* recoverFromLastLTX: every page of the newest file is written again, the file is cut to its commit size *)
Definition reapply (d : disk) : disk :=
  match newest d with
  | None => d
  | Some f => {| k_db := truncate (write_pages (k_db d) (l_pages f)) (l_commit f); k_journal := k_journal d; k_ltx := k_ltx d |}
  end.
Definition recover (d : disk) : disk := reapply (rollback d).
Definition disk_pos (d : disk) : N * N := match newest d with Some f => (l_max f, l_post f) | None => (0, 0) end.

(* two files are the same image *)
Definition same_image (a b : file) : Prop := f_size a = f_size b /\ forall p, 1 <= p <= f_size a -> f_page a p = f_page b p.

(* ---- a rollback-journal transaction as SQLite and LiteFS issue it ---- *)
(* [writes]: the page writes in order (cache spills and the final flush; a page may be written more than
   once); every write to a page that exists in the original file is preceded, somewhere earlier, by the
   journal record of its original content.  [n1]: the new page count; [f]: the transaction file. *)
Fixpoint journaled (orig : file) (steps : list cstep) (seen : list N) : bool :=
  match steps with
  | [] => true
  | KJournalRecord p pre :: r => journaled orig r (p :: seen)
  | KWritePage p q :: r =>
    (if p <=? f_size orig then existsb (N.eqb p) seen else true) && journaled orig r seen
  | _ :: r => journaled orig r seen
  end.
Definition body_step (s : cstep) : bool :=
  match s with KJournalRecord _ _ | KWritePage _ _ => true | _ => false end.

(* the steps of a committing transaction *)
Definition tx_steps (n0 : N) (body : list cstep) (f : ltxrec) (n1 : N) : list cstep :=
  [KJournalBegin n0] ++ body ++ [KLtxRename f; KJournalEnd; KTruncate n1].
(* a replica applying a streamed file (the rename comes first, then the pages, then the cut) *)
Definition apply_steps (f : ltxrec) : list cstep :=
  [KLtxRename f] ++ map (fun kv => KWritePage (fst kv) (snd kv)) (l_pages f) ++ [KTruncate (l_commit f)].
(* a replica applying a snapshot: rename, removal of the older files, then the pages (store.go:1602-1624) *)
Definition snapshot_steps (f : ltxrec) : list cstep :=
  [KLtxRename f; KLtxRemoveOthers] ++ map (fun kv => KWritePage (fst kv) (snd kv)) (l_pages f) ++ [KTruncate (l_commit f)].

(* Drop (db.go Drop): the tombstone file (commit size 0, no pages) is renamed into place, then the database
   file and the journal are removed.  A removed database file and one cut to zero pages are the same thing to
   Open (initFromDatabaseHeader returns early for both), so the removal is the cut to 0. *)
Definition drop_steps (f : ltxrec) : list cstep := [KLtxRename f; KTruncate 0; KJournalEnd].

(* ---- correspondence: a crash directory as the harness finds it ---- *)
(* pages of the file as (page number, page) pairs; journal records; transaction files *)
Definition mk_file (n : N) (pages : list (N * pg)) : file :=
  {| f_size := n; f_page := fun p => match alookup p pages with Some q => q | None => zero_pg end |}.
Definition mk_disk (n : N) (pages : list (N * pg)) (j : option (list (N * pg) * N)) (ltx : list ltxrec) : disk :=
  {| k_db := mk_file n pages; k_journal := j; k_ltx := ltx |}.
Fixpoint seqN' (a : N) (n : nat) : list N := match n with O => [] | S n' => a :: seqN' (a + 1) n' end.
(* observation after recovery: position, size, checksum value of every page *)
Definition recovered_obs (d : disk) : list N :=
  let r := recover d in
  [fst (disk_pos r); snd (disk_pos r); f_size (k_db r)] ++ map (fun p => pg_h (f_page (k_db r) p)) (seqN' 1 (N.to_nat (f_size (k_db r)))).
Definition mismatches_crash (cases : list (disk * list N)) : list nat :=
  let fix go (i : nat) (cs : list (disk * list N)) : list nat :=
    match cs with
    | [] => []
    | (d, want) :: rest => if nl_eqb (recovered_obs d) want then go (S i) rest else i :: go (S i) rest
    end in
  go 0%nat cases.
