(* C05, WAL mode: durable state with a write-ahead log, the steps of a WAL commit and of a checkpoint,
   and Open's recovery (db.go syncWALToLTX 866-937, recover 603-625 = journal rollback + CheckpointNoLock,
   re-apply of the newest transaction file).  Definitions only.  Builds on Model/Crash.v. *)
From Coq Require Import NArith List Bool.
Require Import LF.Model.PageDB LF.Model.Crash.
Import ListNotations.
Local Open Scope N_scope.

(* a frame: page number, content, database size if it is a commit frame (0 otherwise) *)
Record wframe := { w_pgno : N; w_page : pg; w_commit : N }.
(* a transaction file together with the WAL position its header records: salt of the generation and the
   number of frames up to and including its own (0 / 0 for rollback-journal transactions) *)
Record wltx := { x_ltx : ltxrec; x_salt : N; x_end : nat }.

Record wdisk := {
  wd_db : file;
  wd_wal : option (N * list wframe);    (* salt of the header, frames in file order; None = no / empty file *)
  wd_ltx : list wltx
}.

Inductive wstep :=
| WFrame (f : wframe)             (* SQLite appends a frame *)
| WLtxRename (x : wltx)           (* LiteFS publishes the transaction file (CommitWAL) *)
| WCkptPage (p : N) (q : pg)      (* a checkpoint copies a page into the database file *)
| WCkptTruncate (n : N)           (* ... and cuts the file to the last commit size *)
| WRestart (salt : N)             (* the log restarts: new header, no frames *)
| WRemoveWal.                     (* the log file is removed (Drop) *)

Definition wstep_exec (d : wdisk) (s : wstep) : wdisk :=
  match s with
  | WFrame f => {| wd_db := wd_db d; wd_wal := match wd_wal d with Some (sa, fr) => Some (sa, fr ++ [f]) | None => None end; wd_ltx := wd_ltx d |}
  | WLtxRename x => {| wd_db := wd_db d; wd_wal := wd_wal d; wd_ltx := wd_ltx d ++ [x] |}
  | WCkptPage p q => {| wd_db := write_page (wd_db d) p q; wd_wal := wd_wal d; wd_ltx := wd_ltx d |}
  | WCkptTruncate n => {| wd_db := truncate (wd_db d) n; wd_wal := wd_wal d; wd_ltx := wd_ltx d |}
  | WRestart sa => {| wd_db := wd_db d; wd_wal := Some (sa, []); wd_ltx := wd_ltx d |}
  | WRemoveWal => {| wd_db := wd_db d; wd_wal := None; wd_ltx := wd_ltx d |}
  end.
Definition wrun (d : wdisk) (l : list wstep) : wdisk := fold_left wstep_exec l d.

(* the committed part of a frame list: everything up to the last commit frame; its size *)
Fixpoint committed (fr : list wframe) (acc cur : list wframe) : list wframe :=
  match fr with
  | [] => acc
  | f :: r => if w_commit f =? 0 then committed r acc (cur ++ [f]) else committed r (acc ++ cur ++ [f]) []
  end.
Definition last_commit_size (fr : list wframe) : N :=
  fold_left (fun a f => if w_commit f =? 0 then a else w_commit f) fr 0.
Definition frame_writes (fr : list wframe) : list (N * pg) := map (fun f => (w_pgno f, w_page f)) fr.

(* CheckpointNoLock: the committed frames are copied into the file, the file is cut to the last commit size,
   the log is emptied.  Nothing committed: the file is left alone. *)
Definition checkpoint_db (db : file) (fr : list wframe) : file :=
  let c := committed fr [] [] in
  match c with
  | [] => db
  | _ => truncate (write_pages db (frame_writes c)) (last_commit_size c)
  end.

Definition wnewest (d : wdisk) : option wltx := match rev (wd_ltx d) with x :: _ => Some x | [] => None end.

(* syncWALToLTX: a log of another generation is discarded; one of the same generation is cut back to the
   end of the newest transaction file *)
Definition sync_wal (d : wdisk) : option (N * list wframe) :=
  match wnewest d, wd_wal d with
  | Some x, Some (sa, fr) => if sa =? x_salt x then Some (sa, firstn (x_end x) fr) else None
  | _, w => w
  end.

Definition wrecover (d : wdisk) : wdisk :=
  let w := sync_wal d in
  let db1 := match w with Some (_, fr) => checkpoint_db (wd_db d) fr | None => wd_db d end in
  let db2 := match wnewest d with
             | Some x => truncate (write_pages db1 (l_pages (x_ltx x))) (l_commit (x_ltx x))
             | None => db1
             end in
  {| wd_db := db2; wd_wal := None; wd_ltx := wd_ltx d |}.
Definition wdisk_pos (d : wdisk) : N * N :=
  match wnewest d with Some x => (l_max (x_ltx x), l_post (x_ltx x)) | None => (0, 0) end.

(* what a connection sees: the file overlaid with the committed frames *)
Definition wview (d : wdisk) : file :=
  match wd_wal d with Some (_, fr) => checkpoint_db (wd_db d) fr | None => wd_db d end.

(* the steps of one WAL transaction: its frames (the last one a commit frame), then the transaction file *)
Definition wal_tx_steps (frames : list wframe) (x : wltx) : list wstep := map WFrame frames ++ [WLtxRename x].
(* a checkpoint by the application: the latest committed version of pages, the cut, optionally a restart *)
Definition ckpt_steps (pages : list (N * pg)) (size : N) (restart : option N) : list wstep :=
  map (fun kv => WCkptPage (fst kv) (snd kv)) pages ++ [WCkptTruncate size] ++
  match restart with Some sa => [WRestart sa] | None => [] end.

(* Drop of a WAL-mode database: the tombstone file (no WAL position: salt 0, end 0), then the database file
   (cut to zero pages, as in Crash.drop_steps) and the log are removed *)
Definition wdrop_steps (x : wltx) : list wstep := [WLtxRename x; WCkptTruncate 0; WRemoveWal].

(* ---- correspondence: a WAL-mode crash directory as the harness finds it ---- *)
Definition mk_wframe (p : N) (q : pg) (c : N) : wframe := {| w_pgno := p; w_page := q; w_commit := c |}.
Definition mk_wltx (f : ltxrec) (salt : N) (e : nat) : wltx := {| x_ltx := f; x_salt := salt; x_end := e |}.
Definition mk_wdisk (n : N) (pages : list (N * pg)) (wal : option (N * list wframe)) (ltx : list wltx) : wdisk :=
  {| wd_db := mk_file n pages; wd_wal := wal; wd_ltx := ltx |}.
Definition wrecovered_obs (d : wdisk) : list N :=
  let r := wrecover d in
  [fst (wdisk_pos r); snd (wdisk_pos r); f_size (wd_db r)] ++ map (fun p => pg_h (f_page (wd_db r) p)) (seqN' 1 (N.to_nat (f_size (wd_db r)))).
Definition mismatches_wcrash (cases : list (wdisk * list N)) : list nat :=
  let fix go (i : nat) (cs : list (wdisk * list N)) : list nat :=
    match cs with
    | [] => []
    | (d, want) :: rest => if nl_eqb (wrecovered_obs d) want then go (S i) rest else i :: go (S i) rest
    end in
  go 0%nat cases.
