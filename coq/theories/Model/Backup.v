(* C14: the primary's backup sync (store.go streamBackup / streamBackupDB 1140-1261, snapshot upload
   1265-1285, restore 1291-1341) against a backup service that only accepts contiguous files
   (backup_client.go WriteTx 145-210; lfsc/backup_client.go is the same contract over HTTP).  Definitions only. *)
From Coq Require Import NArith List Bool Arith.
Require Import LF.Model.PageDB LF.Model.Repl.
Import ListNotations.
Local Open Scope N_scope.

Definition max_batch : N := 256.            (* MaxBackupLTXFileN *)
Definition is_zero (p : pos) : bool := (fst p =? 0) && (snd p =? 0).

Inductive bdecision :=
| BNothing                 (* nothing written locally yet *)
| BInSync
| BSnapshot                (* the service has nothing: upload a snapshot *)
| BRestore (reason : N)    (* 1 no local database, 2 service ahead, 3 same TXID other checksum, 4 file missing *)
| BSend (lo hi : N).       (* upload the files lo..hi compacted into one *)

(* all single-transaction files lo..lo+n-1 are there *)
Fixpoint have_range (dir : list ltxrec) (lo : N) (n : nat) : bool :=
  match n with
  | O => true
  | S n' => match open_ltx dir lo with Some _ => have_range dir (lo + 1) n' | None => false end
  end.

Definition backup_decide (db_exists : bool) (lpos : pos) (dir : list ltxrec) (rpos : pos) : bdecision :=
  if negb db_exists then (if is_zero rpos then BNothing else BRestore 1)   (* unknown to both sides: not even considered *)
  else if is_zero lpos && is_zero rpos then BNothing       (* nothing on either side; an empty local database while the service holds data is a service that is ahead *)
  else if is_zero rpos then BSnapshot
  else if fst lpos <? fst rpos then BRestore 2
  else if fst rpos =? fst lpos then (if snd rpos =? snd lpos then BInSync else BRestore 3)
  else
    let hi := N.min (fst lpos) (fst rpos + max_batch) in
    if have_range dir (fst rpos + 1) (N.to_nat (hi - fst rpos)) then BSend (fst rpos + 1) hi else BRestore 4.

(* the compacted file of a range: first file's start, last file's end *)
Definition compact (dir : list ltxrec) (lo hi : N) : option (N * N * N * N) :=
  match open_ltx dir lo, open_ltx dir hi with
  | Some a, Some b => Some (lo, hi, l_pre a, l_post b)
  | _, _ => None
  end.

(* ---- the service ---- *)
Record svc := { s_pos : pos; s_files : list (N * N * N * N) }.    (* files (min,max,pre,post), oldest first *)
Definition svc_write (s : svc) (f : N * N * N * N) : option svc :=
  let '(mn, mx, pre, post) := f in
  if (mn =? fst (s_pos s) + 1) && (pre =? snd (s_pos s))
  then Some {| s_pos := (mx, post); s_files := s_files s ++ [f] |}
  else None.

(* ---- one sync of one database ---- *)
Record bstate := {
  b_exists : bool;      (* the primary has the database *)
  b_lpos : pos;         (* its position *)
  b_dir : list ltxrec;  (* its transaction files *)
  b_svc : svc;
  b_hwm : N             (* high-water mark published to replicas *)
}.
Inductive boutcome := ONothing | OInSync | OUploaded | ORestored | OFailed.

(* [snap]: the snapshot file the primary would upload = (1, txid, 0, chk) of its current position *)
Definition restore (b : bstate) : bstate :=
  (* the primary adopts the service's snapshot: position and a single file 1..txid *)
  let p := s_pos (b_svc b) in
  {| b_exists := true; b_lpos := p; b_dir := [mkLtx 1 (fst p) 0 (snd p) 0 []]; b_svc := b_svc b; b_hwm := b_hwm b |}.

Definition sync (b : bstate) : bstate * boutcome :=
  match backup_decide (b_exists b) (b_lpos b) (b_dir b) (s_pos (b_svc b)) with
  | BNothing => (b, ONothing)
  | BInSync => (b, OInSync)
  | BRestore _ => if is_zero (s_pos (b_svc b)) then (b, OFailed) else (restore b, ORestored)
  | BSnapshot =>
    match svc_write (b_svc b) (1, fst (b_lpos b), 0, snd (b_lpos b)) with
    | Some s' => ({| b_exists := b_exists b; b_lpos := b_lpos b; b_dir := b_dir b; b_svc := s'; b_hwm := fst (b_lpos b) |}, OUploaded)
    | None => (b, OFailed)
    end
  | BSend lo hi =>
    match compact (b_dir b) lo hi with
    | None => (b, OFailed)
    | Some f =>
      match svc_write (b_svc b) f with
      | Some s' => ({| b_exists := b_exists b; b_lpos := b_lpos b; b_dir := b_dir b; b_svc := s'; b_hwm := hi |}, OUploaded)
      | None => (restore b, ORestored)          (* the service is not where its position map said: it is the authority *)
      end
    end
  end.

Fixpoint sync_n (n : nat) (b : bstate) : bstate :=
  match n with O => b | S n' => sync_n n' (fst (sync b)) end.

(* ---- correspondence ---- *)
Definition dcode (d : bdecision) : list N :=
  match d with BNothing => [0] | BInSync => [1] | BSnapshot => [2] | BRestore r => [3; r] | BSend lo hi => [4; lo; hi] end.
Definition mk_files (l : list (N * N * N * N)) : list ltxrec := map mk_file l.
(* case: database exists, local position, local files, service position; observed: [outcome; service txid; service chk; local txid; local chk; hwm] after the sync *)
Definition ocode_b (o : boutcome) : N := match o with ONothing => 0 | OInSync => 1 | OUploaded => 2 | ORestored => 3 | OFailed => 4 end.
Definition sync_obs (ex : bool) (lpos : pos) (files : list (N * N * N * N)) (spos : pos) (hwm0 : N) : list N :=
  let b := {| b_exists := ex; b_lpos := lpos; b_dir := mk_files files; b_svc := {| s_pos := spos; s_files := [] |}; b_hwm := hwm0 |} in
  let '(b', o) := sync b in
  [ocode_b o; fst (s_pos (b_svc b')); snd (s_pos (b_svc b')); fst (b_lpos b'); snd (b_lpos b'); b_hwm b'].
Definition mismatches_backup (cases : list (bool * pos * list (N * N * N * N) * pos * N * list N)) : list nat :=
  let fix go (i : nat) (cs : list (bool * pos * list (N * N * N * N) * pos * N * list N)) : list nat :=
    match cs with
    | [] => []
    | (ex, lp, fs, sp, h, want) :: rest =>
      if nl_eqb2 (sync_obs ex lp fs sp h) want then go (S i) rest else i :: go (S i) rest
    end in
  go 0%nat cases.

(* a file offered to the service directly: [accepted; service position afterwards] *)
Definition svc_obs (spos : pos) (f : N * N * N * N) : list N :=
  match svc_write {| s_pos := spos; s_files := [] |} f with
  | Some s' => [1; fst (s_pos s'); snd (s_pos s')]
  | None => [0; fst spos; snd spos]
  end.
Definition mismatches_svc (cases : list (pos * (N * N * N * N) * list N)) : list nat :=
  let fix go (i : nat) (cs : list (pos * (N * N * N * N) * list N)) : list nat :=
    match cs with
    | [] => []
    | (sp, f, want) :: rest => if nl_eqb2 (svc_obs sp f) want then go (S i) rest else i :: go (S i) rest
    end in
  go 0%nat cases.
