(* C18: stream frames (client.go), position maps (http/http.go), chunked bodies
   (internal/chunk/chunk.go), ReadFullAt (internal/internal.go).
   Hand-written model, function by function; tied to /repo by the byte-exact
   correspondence run (harness c18).  Definitions only. *)
From Coq Require Import NArith List Bool Arith.
Require Import LF.Base.Bytes LF.Gen.ConstsGen.
Import ListNotations.
Local Open Scope N_scope.

(* ---------------- stream frames ---------------- *)
Inductive field := FU32 | FU64 | FBytes.      (* FBytes = uint32 length prefix + that many bytes *)
Inductive fval := VInt (n : N) | VBytes (b : list byte).

(* client.go: WriteTo/ReadFrom of the seven frame types, keyed by the type codes
   taken from the generated constants *)
Definition layout_of (typ : N) : option (list field) :=
  if typ =? c_StreamFrameTypeLTX then Some [FU64; FBytes]          (* Size(int64 as uint64), Name   client.go:107-145 *)
  else if typ =? c_StreamFrameTypeReady then Some []               (* client.go:147-151 *)
  else if typ =? c_StreamFrameTypeEnd then Some []                 (* client.go:153-157 *)
  else if typ =? c_StreamFrameTypeDropDB then Some [FBytes]        (* Name   client.go:168-193 *)
  else if typ =? c_StreamFrameTypeHandoff then Some [FBytes]       (* LeaseID client.go:202-227 *)
  else if typ =? c_StreamFrameTypeHWM then Some [FU64; FBytes]     (* TXID, Name client.go:238-275 *)
  else if typ =? c_StreamFrameTypeHeartbeat then Some [FU64]       (* Timestamp(int64) client.go:286-302 *)
  else None.

Definition encode_field (f : field) (v : fval) : list byte :=
  match f, v with
  | FU32, VInt n => be 4 n
  | FU64, VInt n => be 8 n
  | FBytes, VBytes b => be 4 (N.of_nat (length b)) ++ b
  | _, _ => []
  end.

Fixpoint encode_fields (lay : list field) (vs : list fval) : list byte :=
  match lay, vs with
  | f :: lay', v :: vs' => encode_field f v ++ encode_fields lay' vs'
  | _, _ => []
  end.

(* WriteStreamFrame (client.go:88-94) *)
Definition encode_frame (typ : N) (vs : list fval) : list byte :=
  match layout_of typ with
  | Some lay => be 4 typ ++ encode_fields lay vs
  | None => []
  end.

Definition wf_val (f : field) (v : fval) : Prop :=
  match f, v with
  | FU32, VInt n => n < 2 ^ 32
  | FU64, VInt n => n < 2 ^ 64
  | FBytes, VBytes b => N.of_nat (length b) < 2 ^ 32 /\ bytes_ok b
  | _, _ => False
  end.
Fixpoint wf_vals (lay : list field) (vs : list fval) : Prop :=
  match lay, vs with
  | [], [] => True
  | f :: lay', v :: vs' => wf_val f v /\ wf_vals lay' vs'
  | _, _ => False
  end.

Inductive dres (A : Type) := DOk (v : A) (rest : stream) | DEOF | DUnexpected | DInvalid.
Arguments DOk {A} v rest.
Arguments DEOF {A}.
Arguments DUnexpected {A}.
Arguments DInvalid {A}.

(* a sequence of fixed reads.  [raw = false]: XxxStreamFrame.ReadFrom, where every
   short read inside a frame body is mapped to io.ErrUnexpectedEOF; [raw = true]:
   ReadPosMapFrom, which returns the underlying error (io.EOF when nothing was read) *)
Definition short_err {A B} (raw : bool) (r : rres B) : dres A :=
  match r with
  | REOF => if raw then DEOF else DUnexpected
  | _ => DUnexpected
  end.
Fixpoint decode_fields (raw : bool) (lay : list field) (s : stream) : dres (list fval) :=
  match lay with
  | [] => DOk [] s
  | f :: lay' =>
    let cont v s' := match decode_fields raw lay' s' with
                     | DOk vs s'' => DOk (v :: vs) s''
                     | e => e
                     end in
    match f with
    | FU32 => match rd_be 4 s with ROk n s' => cont (VInt n) s' | e => short_err raw e end
    | FU64 => match rd_be 8 s with ROk n s' => cont (VInt n) s' | e => short_err raw e end
    | FBytes =>
      match rd_be 4 s with
      | ROk n s1 => match rd n s1 with ROk b s2 => cont (VBytes b) s2 | e => short_err raw e end
      | e => short_err raw e
      end
    end
  end.

(* ReadStreamFrame (client.go:55-86) *)
Definition decode_frame (s : stream) : dres (N * list fval) :=
  match rd_be 4 s with
  | REOF => DEOF                        (* clean end of stream *)
  | RUnexpected => DUnexpected
  | ROk typ s1 =>
    match layout_of typ with
    | None => DInvalid
    | Some lay =>
      match decode_fields false lay s1 with
      | DOk vs s2 => DOk (typ, vs) s2
      | DEOF => DUnexpected             (* err == io.EOF -> io.ErrUnexpectedEOF *)
      | DUnexpected => DUnexpected
      | DInvalid => DInvalid
      end
    end
  end.

(* Allocation meter: bytes allocated by ReadFrom as a function of the input.
   [prealloc = true] is the code before the F1 repair (make([]byte, n) with the
   peer-supplied n before any payload byte); [false] is the repaired code
   (bytes.Buffer filled by io.CopyN: at most 512 + 2 * bytes actually received). *)
Definition avail (s : stream) : N := N.of_nat (length (concat s)).
Fixpoint alloc_fields (prealloc : bool) (lay : list field) (s : stream) : N :=
  match lay with
  | [] => 0
  | f :: lay' =>
    match f with
    | FU32 => match rd_be 4 s with ROk _ s' => 4 + alloc_fields prealloc lay' s' | _ => 4 end
    | FU64 => match rd_be 8 s with ROk _ s' => 8 + alloc_fields prealloc lay' s' | _ => 8 end
    | FBytes =>
      match rd_be 4 s with
      | ROk n s1 =>
        let a := if prealloc then n else 512 + 2 * N.min n (avail s1) in
        match rd n s1 with
        | ROk _ s2 => 4 + a + alloc_fields prealloc lay' s2
        | _ => 4 + a
        end
      | _ => 4
      end
    end
  end.
Definition alloc_frame (prealloc : bool) (s : stream) : N :=
  match rd_be 4 s with
  | ROk typ s1 => match layout_of typ with Some lay => 4 + alloc_fields prealloc lay s1 | None => 4 end
  | _ => 4
  end.

(* ---------------- position maps (http/http.go) ---------------- *)
(* an entry is [VBytes name; VInt TXID; VInt PostApplyChecksum] *)
Definition pos_layout : list field := [FBytes; FU64; FU64].
Definition posent := list fval.

(* WritePosMapTo writes the entries in sorted key order; the model takes the
   sorted association list the harness passes *)
Definition encode_posmap (m : list posent) : list byte :=
  be 4 (N.of_nat (length m)) ++ concat (map (encode_fields pos_layout) m).

(* the entry loop of ReadPosMapFrom; the declared count is a uint32 kept as N;
   structural recursion on [fuel], which the caller sets above the number of
   bytes available: each entry needs >= 20 bytes, so running out of fuel before
   an entry read fails is impossible (lemma). *)
Fixpoint decode_posents (fuel : nat) (n : N) (s : stream) : dres (list posent) :=
  if n =? 0 then DOk [] s
  else match fuel with
       | O => DEOF
       | S fuel' =>
         match decode_fields true pos_layout s with
         | DOk e s' => match decode_posents fuel' (n - 1) s' with
                       | DOk es s'' => DOk (e :: es) s''
                       | err => err
                       end
         | DEOF => DEOF | DUnexpected => DUnexpected | DInvalid => DInvalid
         end
       end.

Definition decode_posmap (s : stream) : dres (list posent) :=
  match rd_be 4 s with
  | REOF => DEOF | RUnexpected => DUnexpected
  | ROk n s1 => decode_posents (S (length (concat s1))) n s1
  end.

(* map semantics of the Go result: later duplicates win, order irrelevant *)
Fixpoint bytes_eqb (a b : list byte) : bool :=
  match a, b with
  | [], [] => true
  | x :: a', y :: b' => (x =? y) && bytes_eqb a' b'
  | _, _ => false
  end.
Fixpoint bytes_ltb (a b : list byte) : bool :=
  match a, b with
  | [], [] => false
  | [], _ :: _ => true
  | _ :: _, [] => false
  | x :: a', y :: b' => if x <? y then true else if y <? x then false else bytes_ltb a' b'
  end.
Definition pkey (e : posent) : list byte := match e with VBytes b :: _ => b | _ => [] end.
Fixpoint map_put (e : posent) (m : list posent) : list posent :=   (* sorted insert, replace on equal key *)
  match m with
  | [] => [e]
  | x :: m' => if bytes_eqb (pkey e) (pkey x) then e :: m'
               else if bytes_ltb (pkey e) (pkey x) then e :: x :: m' else x :: map_put e m'
  end.
Definition to_map (es : list posent) : list posent := fold_left (fun m e => map_put e m) es [].

(* ---------------- chunked bodies (internal/chunk/chunk.go) ---------------- *)
(* Writer.Write splits at MaxChunkSize, ignores empty writes; Close writes the 0x0000 marker *)
Fixpoint split_chunks (fuel : nat) (p : list byte) : list (list byte) :=
  match fuel with
  | O => []
  | S fuel' =>
    match p with
    | [] => []
    | _ => firstn (N.to_nat c_chunk_MaxChunkSize) p :: split_chunks fuel' (skipn (N.to_nat c_chunk_MaxChunkSize) p)
    end
  end.
Definition chunk_write_one (p : list byte) : list byte :=
  concat (map (fun c => be 2 (N.of_nat (length c)) ++ c) (split_chunks (S (length p)) p)).
Definition chunk_write (ws : list (list byte)) : list byte := concat (map chunk_write_one ws).
Definition chunk_close : list byte := be 2 c_chunk_EOF.

(* Reader as a consumer sees it through io.ReadAll / io.Copy: data delivered before the
   first error, and how the stream ended. *)
Inductive cend := CClean (rest : stream)        (* closing marker read: io.EOF, clean *)
                | CUnexpected                   (* io.ErrUnexpectedEOF *)
                | CSilentEOF.                   (* io.EOF although no closing marker was read *)

(* [eof_mapped]: whether a chunk body cut at its very first byte is reported as
   ErrUnexpectedEOF (repaired code) or passed through as io.EOF (code before the repair) *)
Fixpoint chunk_read (eof_mapped : bool) (fuel : nat) (s : stream) : list byte * cend :=
  match fuel with
  | O => ([], CUnexpected)
  | S fuel' =>
    match rd_be 2 s with
    | REOF => ([], CUnexpected)                 (* chunk.go:45: EOF on the size -> ErrUnexpectedEOF *)
    | RUnexpected => ([], CUnexpected)
    | ROk size s1 =>
      if size =? c_chunk_EOF then ([], CClean s1)
      else match rd size s1 with
           | ROk b s2 => let '(d, e) := chunk_read eof_mapped fuel' s2 in (b ++ d, e)
           | REOF => ([], if eof_mapped then CUnexpected else CSilentEOF)
           | RUnexpected => ([], CUnexpected)
           end
    end
  end.
Definition chunk_read_all (eof_mapped : bool) (s : stream) : list byte * cend :=
  chunk_read eof_mapped (S (length (concat s))) s.

(* ---------------- ReadFullAt (internal/internal.go:25-38) ----------------
   r.ReadAt may return short reads; the file is [file], reads start at [off]. *)
Inductive rfa := RFAOk (b : list byte) | RFAEOF | RFAUnexpected (got : N).
Definition read_full_at (file : list byte) (n off : N) : rfa :=
  let av := skipn (N.to_nat off) file in
  if n <=? N.of_nat (length av) then RFAOk (firstn (N.to_nat n) av)
  else match av with [] => RFAEOF | _ => RFAUnexpected (N.of_nat (length av)) end.

(* ---------------- case encodings for the correspondence ---------------- *)
(* outcome codes: 0 ok, 1 EOF, 2 UnexpectedEOF, 3 invalid/other *)
Definition fval_flat (v : fval) : list N := match v with VInt n => [0; n] | VBytes b => 1 :: N.of_nat (length b) :: b end.
Definition frame_obs (r : dres (N * list fval)) : list N :=
  match r with
  | DOk (typ, vs) rest => 0 :: typ :: N.of_nat (length (concat rest)) :: concat (map fval_flat vs)
  | DEOF => [1] | DUnexpected => [2] | DInvalid => [3]
  end.
Definition posent_flat (e : posent) : list N := concat (map fval_flat e).
Definition posmap_obs (r : dres (list posent)) : list N :=
  match r with
  | DOk es rest => 0 :: N.of_nat (length (concat rest)) :: concat (map posent_flat (to_map es))
  | DEOF => [1] | DUnexpected => [2] | DInvalid => [3]
  end.
Definition chunk_obs (r : list byte * cend) : list N :=
  match r with
  | (d, CClean rest) => 0 :: N.of_nat (length (concat rest)) :: d
  | (d, CUnexpected) => 2 :: d
  | (d, CSilentEOF) => 4 :: d
  end.

Inductive ccase :=
| CFrameDec (segs : stream)                               (* ReadStreamFrame over a segmented reader *)
| CFrameEnc (typ : N) (vs : list fval)                    (* WriteStreamFrame *)
| CPosDec (segs : stream)
| CPosEnc (m : list posent)
| CChunkDec (segs : stream)
| CChunkEnc (ws : list (list byte)).

Definition run_ccase (c : ccase) : list N :=
  match c with
  | CFrameDec s => frame_obs (decode_frame s)
  | CFrameEnc t vs => encode_frame t vs
  | CPosDec s => posmap_obs (decode_posmap s)
  | CPosEnc m => encode_posmap m
  | CChunkDec s => chunk_obs (chunk_read_all true s)
  | CChunkEnc ws => chunk_write ws ++ chunk_close
  end.

Definition nlist_eqb (a b : list N) : bool := bytes_eqb a b.
Definition mismatches (cases : list (ccase * list N)) : list nat :=
  let fix go (i : nat) (cs : list (ccase * list N)) : list nat :=
    match cs with
    | [] => []
    | (c, obs) :: rest => if nlist_eqb (run_ccase c) obs then go (S i) rest else i :: go (S i) rest
    end in
  go 0%nat cases.
