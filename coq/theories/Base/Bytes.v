(* Bytes, big-endian integers and segmented readers (io.ReadFull).  Definitions
   and the library lemmas about them (stdlib only). *)
From Coq Require Import NArith List Lia ZifyN ZifyNat Bool Arith.
Import ListNotations.
Local Open Scope N_scope.

Notation byte := N (only parsing).

Definition bytes_ok (l : list byte) : Prop := Forall (fun b => b < 256) l.

(* k-byte big-endian encoding of v (binary.Write BigEndian of a uintN) *)
Fixpoint be (k : nat) (v : N) : list byte :=
  match k with
  | O => []
  | S k' => be k' (v / 256) ++ [v mod 256]
  end.

Definition of_be (l : list byte) : N := fold_left (fun a b => a * 256 + b) l 0.

(* a reader: the segments successive Read calls return (io.Reader contract) *)
Definition stream := list (list byte).

Fixpoint take_n (n : N) (l : list byte) : list byte * list byte * N :=
  match l with
  | [] => ([], [], n)
  | x :: r =>
    if n =? 0 then ([], l, 0)
    else let '(t, r', m) := take_n (n - 1) r in (x :: t, r', m)
  end.

(* io.ReadFull: (bytes got, remaining stream, bytes still missing) *)
Fixpoint read_full (n : N) (s : stream) : list byte * stream * N :=
  match s with
  | [] => ([], [], n)
  | seg :: s' =>
    if n =? 0 then ([], s, 0)
    else
      let '(t, r, m) := take_n n seg in
      if m =? 0 then (t, r :: s', 0)
      else let '(t2, s2, m2) := read_full m s' in (t ++ t2, s2, m2)
  end.

Inductive rres (A : Type) := ROk (v : A) (rest : stream) | REOF | RUnexpected.
Arguments ROk {A} v rest.
Arguments REOF {A}.
Arguments RUnexpected {A}.

(* io.ReadFull's error contract: EOF only if nothing was read *)
Definition rd (n : N) (s : stream) : rres (list byte) :=
  let '(t, s', m) := read_full n s in
  if m =? 0 then ROk t s'
  else match t with [] => REOF | _ => RUnexpected end.

(* binary.Read(r, BigEndian, &uintN) *)
Definition rd_be (w : N) (s : stream) : rres N :=
  match rd w s with
  | ROk t s' => ROk (of_be t) s'
  | REOF => REOF
  | RUnexpected => RUnexpected
  end.

(* ------------------------------------------------------------------ *)
Lemma be_length k v : length (be k v) = k.
Proof.
  revert v; induction k as [|k IH]; intros v; cbn [be]; [reflexivity|].
  rewrite app_length, IH. cbn. lia.
Qed.

Lemma be_bytes_ok k v : bytes_ok (be k v).
Proof.
  revert v; induction k as [|k IH]; intros v; cbn [be]; [constructor|].
  apply Forall_app. split; [apply IH|]. constructor; [|constructor].
  apply N.mod_lt. discriminate.
Qed.

Lemma fold_be k : forall v a, v < 256 ^ N.of_nat k ->
  fold_left (fun a b => a * 256 + b) (be k v) a = a * 256 ^ N.of_nat k + v.
Proof.
  induction k as [|k IH]; intros v a Hv.
  - cbn in *. lia.
  - cbn [be]. rewrite fold_left_app. cbn [fold_left].
    rewrite Nat2N.inj_succ, N.pow_succ_r' in *.
    rewrite IH.
    + pose proof (N.div_mod v 256). lia.
    + apply N.div_lt_upper_bound; lia.
Qed.

Lemma of_be_be k v : v < 256 ^ N.of_nat k -> of_be (be k v) = v.
Proof. intros H. unfold of_be. rewrite fold_be by assumption. lia. Qed.

Lemma of_be_app l b : of_be (l ++ [b]) = of_be l * 256 + b.
Proof. unfold of_be. rewrite fold_left_app. reflexivity. Qed.

Lemma be_of_be l : bytes_ok l -> be (length l) (of_be l) = l.
Proof.
  induction l as [|b l IH] using rev_ind; intros Hok; [reflexivity|].
  apply Forall_app in Hok. destruct Hok as [Hl Hb]. inversion Hb as [|? ? Hb' _]; subst.
  rewrite app_length. cbn [length]. rewrite Nat.add_1_r. cbn [be].
  rewrite of_be_app.
  replace ((of_be l * 256 + b) / 256) with (of_be l).
  2:{ apply N.div_unique with (r := b); lia. }
  replace ((of_be l * 256 + b) mod 256) with b.
  2:{ apply N.mod_unique with (q := of_be l); lia. }
  rewrite IH by assumption. reflexivity.
Qed.

Lemma of_be_lt l : bytes_ok l -> of_be l < 256 ^ N.of_nat (length l).
Proof.
  induction l as [|b l IH] using rev_ind; intros Hok; [cbn; lia|].
  apply Forall_app in Hok. destruct Hok as [Hl Hb]. inversion Hb as [|? ? Hb' _]; subst.
  rewrite of_be_app, app_length. cbn [length]. rewrite Nat.add_1_r, Nat2N.inj_succ, N.pow_succ_r'.
  specialize (IH Hl). lia.
Qed.

(* ---- take_n / read_full against firstn / skipn of the flattened stream ---- *)
Lemma take_n_enough l : forall n, n <= N.of_nat (length l) ->
  take_n n l = (firstn (N.to_nat n) l, skipn (N.to_nat n) l, 0).
Proof.
  induction l as [|x r IH]; intros n Hn.
  - cbn in *. assert (n = 0) by lia. subst. reflexivity.
  - cbn [take_n]. destruct (N.eqb_spec n 0) as [E|E].
    + subst. reflexivity.
    + rewrite IH by (cbn [length] in Hn; lia).
      replace (N.to_nat n) with (S (N.to_nat (n - 1))) by lia. reflexivity.
Qed.

Lemma take_n_short l : forall n, N.of_nat (length l) < n ->
  take_n n l = (l, [], n - N.of_nat (length l)).
Proof.
  induction l as [|x r IH]; intros n Hn.
  - cbn. f_equal. lia.
  - cbn [take_n]. destruct (N.eqb_spec n 0) as [E|E]; [lia|].
    rewrite IH by (cbn [length] in Hn; lia). cbn [length]. f_equal. lia.
Qed.

Lemma read_full_enough s : forall n, n <= N.of_nat (length (concat s)) ->
  exists s', read_full n s = (firstn (N.to_nat n) (concat s), s', 0) /\
             concat s' = skipn (N.to_nat n) (concat s).
Proof.
  induction s as [|seg s IH]; intros n Hn.
  - cbn in *. assert (n = 0) by lia. subst. exists []. split; reflexivity.
  - cbn [read_full concat]. destruct (N.eqb_spec n 0) as [E|E].
    + subst. exists (seg :: s). split; reflexivity.
    + destruct (N.leb_spec n (N.of_nat (length seg))) as [Hle|Hgt].
      * rewrite take_n_enough by assumption. cbn [N.eqb].
        exists (skipn (N.to_nat n) seg :: s). split.
        -- rewrite firstn_app. replace (N.to_nat n - length seg)%nat with 0%nat by lia.
           cbn [firstn]. rewrite app_nil_r. reflexivity.
        -- cbn [concat]. rewrite skipn_app. replace (N.to_nat n - length seg)%nat with 0%nat by lia.
           reflexivity.
      * rewrite take_n_short by assumption.
        destruct (N.eqb_spec (n - N.of_nat (length seg)) 0) as [E2|E2]; [lia|].
        cbn [concat] in Hn. rewrite app_length in Hn.
        destruct (IH (n - N.of_nat (length seg))) as [s' [E3 E4]]; [lia|].
        rewrite E3. exists s'. split.
        -- rewrite firstn_app. rewrite (@firstn_all2 _ (N.to_nat n) seg) by lia.
           replace (N.to_nat n - length seg)%nat with (N.to_nat (n - N.of_nat (length seg))) by lia. reflexivity.
        -- rewrite E4. rewrite skipn_app. rewrite (@skipn_all2 _ (N.to_nat n) seg) by lia. cbn [app].
           replace (N.to_nat n - length seg)%nat with (N.to_nat (n - N.of_nat (length seg))) by lia. reflexivity.
Qed.

Lemma read_full_short s : forall n, N.of_nat (length (concat s)) < n ->
  read_full n s = (concat s, [], n - N.of_nat (length (concat s))).
Proof.
  induction s as [|seg s IH]; intros n Hn.
  - cbn. f_equal. cbn in Hn. lia.
  - cbn [read_full concat]. destruct (N.eqb_spec n 0) as [E|E]; [lia|].
    cbn [concat] in Hn. rewrite app_length in Hn.
    rewrite take_n_short by lia.
    destruct (N.eqb_spec (n - N.of_nat (length seg)) 0) as [E2|E2]; [lia|].
    rewrite IH by lia. rewrite app_length. f_equal. lia.
Qed.

(* the reader depends on the flattened bytes only -- "no matter how the bytes are split across reads" *)
Lemma rd_enough n s : n <= N.of_nat (length (concat s)) ->
  exists s', rd n s = ROk (firstn (N.to_nat n) (concat s)) s' /\ concat s' = skipn (N.to_nat n) (concat s).
Proof.
  intros H. destruct (read_full_enough s n H) as [s' [E1 E2]].
  exists s'. unfold rd. rewrite E1. cbn. auto.
Qed.

Lemma rd_short n s : N.of_nat (length (concat s)) < n ->
  rd n s = match concat s with [] => REOF | _ => RUnexpected end.
Proof.
  intros H. unfold rd. rewrite read_full_short by assumption.
  destruct (N.eqb_spec (n - N.of_nat (length (concat s))) 0) as [E|E]; [lia|]. reflexivity.
Qed.

Lemma rd_app n s a b : concat s = a ++ b -> N.of_nat (length a) = n ->
  exists s', rd n s = ROk a s' /\ concat s' = b.
Proof.
  intros Hc Hl. destruct (rd_enough n s) as [s' [E1 E2]].
  - rewrite Hc, app_length. lia.
  - exists s'. rewrite E1, E2, Hc.
    replace (N.to_nat n) with (length a) by lia.
    rewrite firstn_app, Nat.sub_diag, firstn_all, skipn_app, Nat.sub_diag, skipn_all. cbn.
    rewrite app_nil_r. auto.
Qed.
