(* The twelve SQLite locks of a database and the vocabulary of the generated lock scripts
   (Gen/LockScriptsGen.v).  Definitions only. *)
From Coq Require Import List.
Import ListNotations.

Inductive lk := LPending | LShared | LReserved | LWrite | LCkpt | LRecover | LRead0 | LRead1 | LRead2 | LRead3 | LRead4 | LDMS.

(* one step of a function of db.go as the translator reads it *)
Inductive gstep :=
| GR (l : lk)              (* shared: TryRLock / RLock(ctx) *)
| GX (l : lk)              (* exclusive: TryLock / Lock(ctx) *)
| GU (l : lk)              (* Unlock *)
| GWalOnly (s : gstep)     (* only if the database is in WAL mode *)
| GCapturePos              (* pos := db.Pos() *)
| GCaptureWal              (* copy of db.wal.frameOffsets *)
| GReads.                  (* the page loop *)
