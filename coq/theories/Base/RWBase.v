(* World of one RWMutex and an unbounded set of guards (gid = nat).
   Primitives used by the generated model Gen/RWMutexGen.v.  No proofs here. *)
From Coq Require Import ZArith Bool Arith.

Notation gid := nat (only parsing).

Inductive gstate := Unlocked | Shared | Exclusive.

Definition gstate_eqb (a b : gstate) : bool :=
  match a, b with
  | Unlocked, Unlocked | Shared, Shared | Exclusive, Exclusive => true
  | _, _ => false
  end.

Record world := mkWorld {
  sharedN : Z;               (* RWMutex.sharedN (Go int; never near overflow: bounded by #guards) *)
  excl    : option gid;      (* RWMutex.excl: pointer to the exclusive guard, nil = None *)
  gst     : gid -> gstate    (* RWMutexGuard.state of every guard of this mutex *)
}.

Definition set_sharedN (v : Z) (w : world) : world := mkWorld v (excl w) (gst w).
Definition set_excl (v : option gid) (w : world) : world := mkWorld (sharedN w) v (gst w).
Definition set_gst (g : gid) (v : gstate) (w : world) : world :=
  mkWorld (sharedN w) (excl w) (fun h => if Nat.eqb h g then v else gst w h).

Definition ptr_eqb (a b : option gid) : bool :=
  match a, b with
  | None, None => true
  | Some x, Some y => Nat.eqb x y
  | _, _ => false
  end.

Inductive outcome (A : Type) := Ret (v : A) (w : world) | Panic.
Arguments Ret {A} v w.
Arguments Panic {A}.

Definition init_world : world := mkWorld 0%Z None (fun _ => Unlocked).
