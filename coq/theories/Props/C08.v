(* C08 -- A node is primary only while it holds a live lease for its own cluster.  ONLY statements.
   Model/Lease.v: [iterate] = one iteration of the election loop as a function of what the lease
   service answers (cluster id, primary info, acquire, handed-over lease), returning the decision and
   the calls made; [primary_run ttl evs] = the primary's loop over renewal answers, demotion, handoff
   requests and shutdown, returning why it ended, whether the lease was destroyed and how long after
   the last successful renewal.  Wall-clock scheduling is not modelled beyond the loop's own arithmetic. *)
From Coq Require Import NArith List Bool.
Require Import LF.Model.Lease LF.Proofs.LeaseProofs.
Import ListNotations.
Local Open Scope N_scope.

Theorem C08_noncandidate_never_acquires : forall i, i_candidate i = false -> ~ In CallAcquire (snd (iterate i)).
Proof. exact noncandidate_never_acquires. Qed.
Theorem C08_noncandidate_primary_only_by_handoff : forall i,
  i_candidate i = false -> fst (iterate i) = OPrimary -> i_handoff i = Some true.
Proof. exact noncandidate_primary_only_by_handoff. Qed.
Theorem C08_foreign_cluster_refused : forall i,
  i_local_cid i = true -> i_cid i = CidDifferent -> iterate i = (ORetry, [CallClusterID]).
Proof. exact foreign_cluster_refused. Qed.
Theorem C08_uninitialised_node_never_leads : forall i,
  i_local_cid i = false -> leaser_has_cid i = true -> fst (iterate i) <> OPrimary.
Proof. exact uninitialised_node_never_leads. Qed.
Theorem C08_primary_needs_lease : forall i, fst (iterate i) = OPrimary ->
  i_cid i <> CidErr /\ ~ (i_local_cid i = true /\ i_cid i = CidDifferent) /\
  (i_handoff i = Some true \/
   (i_handoff i = None /\ i_candidate i = true /\ i_info1 i = InfoAbsent /\ i_acquire i = AcqOk)).
Proof. exact primary_needs_lease. Qed.
Theorem C08_replica_needs_primary : forall i, fst (iterate i) = OReplica ->
  i_cid i <> CidErr /\ ~ (i_local_cid i = true /\ i_cid i = CidDifferent) /\ (i_info1 i = InfoPresent \/ i_info2 i = InfoPresent).
Proof. exact replica_needs_primary. Qed.

(* the primary's loop: the lease is destroyed on every exit except a completed handoff; a handoff
   completes only for a connected target; failing renewals end the role exactly one TTL after the last
   successful one - never later: the lease runs out then; a renewal that reports the lease gone ends it at once *)
Theorem C08_primary_run : forall ttl evs,
  let '(x, closed, stop) := primary_run ttl evs in
  (closed = true <-> (x <> XHandedOff /\ x <> XStillPrimary)) /\
  (x = XHandedOff -> In (PHandoff true true) evs) /\
  (x = XExpired -> stop <= ttl) /\
  (x = XExpired -> ~ In PRenewExpired evs -> ~ In PHandoffLeaseGone evs -> stop = ttl).
Proof. exact primary_run_facts. Qed.
(* a handoff request is served between two renewals: if the renewal made before the lease id is passed on reports the lease
   gone the role ends at once; if the handoff fails for any other reason nothing changes - the next renewal is not postponed,
   so handoff requests cannot keep a node primary past the bounds above *)
Theorem C08_handoff_lease_gone_ends_role : forall ttl s r,
  primary_loop ttl s (PHandoffLeaseGone :: r) = (XExpired, true, p_since s).
Proof. exact handoff_lease_gone_ends_role. Qed.
Theorem C08_handoff_failed_keeps_deadline : forall ttl s c l r, c && l = false ->
  primary_loop ttl s (PHandoff c l :: r) = primary_loop ttl s r.
Proof. exact handoff_failed_keeps_deadline. Qed.
Theorem C08_expired_renewal_ends_role : forall ttl s r,
  primary_loop ttl s (PRenewExpired :: r) = (XExpired, true, p_since s + p_wait s).
Proof. exact expired_renewal_ends_role. Qed.
Theorem C08_handoff_unconnected_ignored : forall ttl s l r,
  primary_loop ttl s (PHandoff false l :: r) = primary_loop ttl s r.
Proof. exact handoff_unconnected_ignored. Qed.

(* no node replicates from a cluster whose id differs from its own stored id *)
Theorem C08_attach_foreign_refused : forall a b, a <> b -> attach (Some a) (Some b) = (Some a, false).
Proof. exact attach_foreign_refused. Qed.
Theorem C08_attach_keeps_id : forall a s, fst (attach (Some a) s) = Some a.
Proof. exact attach_keeps_id. Qed.
Theorem C08_attach_follows_only_own : forall l s c, attach l s = (Some c, true) -> s = Some c /\ (l = None \/ l = Some c).
Proof. exact attach_follows_only_own. Qed.

Example C08_nonvacuous :
  (iter_obs {| i_candidate := true; i_local_cid := true; i_cid := CidEqual; i_handoff := None; i_info1 := InfoAbsent; i_acquire := AcqOk; i_info2 := InfoAbsent |},
   iter_obs {| i_candidate := false; i_local_cid := true; i_cid := CidEqual; i_handoff := None; i_info1 := InfoAbsent; i_acquire := AcqOk; i_info2 := InfoAbsent |},
   iter_obs {| i_candidate := true; i_local_cid := true; i_cid := CidDifferent; i_handoff := None; i_info1 := InfoPresent; i_acquire := AcqOk; i_info2 := InfoAbsent |},
   primary_run 2000 [PRenewOk; PRenewErr; PRenewErr; PRenewErr],
   primary_run 2000 [PHandoff false true; PHandoff true true])
  = ([1; 1; 2; 3], [0; 1; 2], [0; 1], (XExpired, true, 2000), (XHandedOff, false, 0)).
Proof. vm_compute. reflexivity. Qed.

(* the same holds at the last moment: the cluster id the lease service has right after the acquisition is compared again
   (it may have been initialised for another cluster since the node looked first) *)
Theorem C08_post_acquire_own_cluster : forall local leaser c, post_acquire local leaser = (true, Some c) ->
  (leaser = None /\ (local = Some c \/ (local = None /\ c = 0))) \/ (leaser = Some c /\ local = Some c).
Proof. exact post_acquire_own_cluster. Qed.
Theorem C08_post_acquire_foreign_refused : forall a b, a <> b -> fst (post_acquire (Some a) (Some b)) = false.
Proof. exact post_acquire_foreign_refused. Qed.

