(* C16 -- Import replaces a database atomically; export returns the exact current image.
   ONLY statements.  Model/PageDB.v: op_import is DB.Import AFTER the two repairs recorded in
   KNOWN_FINDINGS.txt (F5: an image whose page size differs from the one learnt is refused before
   anything is written; F6: journal and WAL are discarded only after the whole input has been
   validated and written to the next transaction file).  [ok = false] stands for every input that
   cannot be applied (short header, truncated, garbage, unacceptable page size). *)
From Coq Require Import NArith List Bool.
Require Import LF.Gen.ConstsGen LF.Model.PageDB LF.Proofs.XorLib LF.Proofs.ChecksumProofs LF.Proofs.ChainProofs LF.Proofs.ApplyProofs LF.Proofs.HistoryProofs LF.Proofs.WalHistoryProofs LF.Proofs.WalCheckpointProofs LF.Proofs.SqlCheckpointProofs LF.Proofs.FollowProofs LF.Proofs.ExportProofs LF.Proofs.ComposeProofs LF.Proofs.ImportHistoryProofs.
Import ListNotations.
Local Open Scope N_scope.

(* a successful import is ONE new transaction chained to the previous position; afterwards every
   imported page (lock page excepted) is what the database -- hence an export -- returns *)
Theorem C16_import_exact : forall s pages commit s',
  op_import s pages commit true = (Done, s') -> 0 < commit ->
  (forall kv, In kv pages -> 1 <= fst kv) -> NoDup (map fst pages) ->
  exists f, ltxdir s' = ltxdir s ++ [f] /\ l_min f = txid s + 1 /\ l_max f = txid s + 1 /\ l_pre f = chk s /\ l_commit f = commit /\
    txid s' = txid s + 1 /\ chk s' = l_post f /\ pageN s' = commit /\
    (forall p q, In (p, q) pages -> p <> lockpg s -> p <= commit -> read_page s' p = Some q).
Proof. exact import_exact. Qed.

(* failure atomicity: nothing changes (database, position, log, WAL bookkeeping), no Exit *)
Theorem C16_import_failure_atomic : forall s pages commit, op_import s pages commit false = (Failed, s).
Proof. exact import_failure_atomic. Qed.
Theorem C16_import_on_replica_refused : forall s pages commit ok,
  writeable s = false -> op_import s pages commit ok = (Failed, s).
Proof. exact import_on_replica_refused. Qed.

(* replicas applying the import's file reach the identical pages (same lemma as any apply) *)
Theorem C16_replica_apply_file : forall s f fatal s',
  op_apply s f fatal = (Done, s') -> 0 < l_commit f ->
  (forall kv, In kv (l_pages f) -> 1 <= fst kv) -> NoDup (map fst (l_pages f)) ->
  (forall p q, In (p, q) (l_pages f) -> p <= l_commit f -> file_pg s' p = Some q) /\
  (forall x, 1 <= x <= l_commit f -> ~ In x (map fst (l_pages f)) -> x <= lenN (dbfile s) -> file_pg s' x = file_pg s x) /\
  wal_latest s' = wal_latest s.
Proof. exact apply_file. Qed.

(* export = the committed image (last committed WAL version, else database page) at the reported position *)
Theorem C16_export_is_image : forall s,
  op_export s = (map (read_page s) (seqN 1 (N.to_nat (pageN s))), (txid s, chk s)).
Proof. exact export_is_image. Qed.

(* the chain is kept (C09) *)
Theorem C16_chain_import : forall s pages commit ok s', Chain s -> op_import s pages commit ok = (Done, s') -> Chain s'.
Proof. exact chain_import. Qed.

(* Non-vacuity: import a 3-page image over a 1-page WAL-mode database with an un-checkpointed WAL commit *)
Example C16_nonvacuous :
  let p n h hdr := (n, mkPg (fl h) hdr false) in
  match run_ops (init 2097153) [OWrite 1 (mkPg (fl 1) 1 true); OCommitJournal 1; OWalHeader; OCommitWal [(1, mkPg (fl 9) 1 true)] 1;
                                OImport [p 1 21 3; p 2 22 0; p 3 23 0] 3 true] with
  | Some s => (txid s, pageN s, map (option_map pg_h) (fst (op_export s))) = (3, 3, [Some (fl 21); Some (fl 22); Some (fl 23)])
  | None => False
  end.
Proof. vm_compute. reflexivity. Qed.

(* The image an export returns and the position it names belong together, along histories.  [hs], the switching transaction
   and [os] as in C04_wal_full_history: any rollback-journal history from an empty node, the switch to WAL mode, then WAL
   commits and checkpoints of every kind.  [op_export] returns [read_page] of every page 1..size (readPage of db.go: LiteFS's
   index of the log, else the database file) and the position.  For EVERY such history: the position is the node's, its
   checksum is the from-scratch checksum of the logical database [v'], and every page the export reads has [v']'s
   checksum - the export is the image of the position it names (on a quiescent node; the interleaved case is C10). *)
Theorem C16_export_matches_position : forall lock hs zf acts c os s1 s2 s' v',
  1 <= lock -> wf_hist (init lock) hs -> run_hsteps (init lock) hs = Some s1 ->
  wf_tx_any s1 zf acts -> run_group s1 (hops s1 (HTx zf acts c)) = (0, s2) -> wal_mode s2 = true ->
  wf_wops2 s2 os -> run_wops2 s2 (file_h s2) os = Some (s', v') ->
  snd (op_export s') = (txid s', chk s') /\
  chk s' = scratch (fun p => if p =? lock then 0 else v' p) (pageN s') /\
  (forall p q, 1 <= p <= pageN s' -> p <> lock -> read_page s' p = Some q -> pg_h q = v' p).
Proof. exact export_matches_position. Qed.
Print Assumptions C16_export_matches_position.

(* Non-vacuity: at the end of this history the database file is behind the log (page 1 an older version, page 3 not there);
   the export reads the logical database *)
Example C16_export_matches_position_nonvacuous :
  let pg h := mkPg (fl h) 0 false in
  let pw h := mkPg (fl h) 0 true in
  let hs := [HTx [] [AWrite 1 (pg 11); AWrite 2 (pg 12)] 2] in
  let sw := [AWrite 1 (pw 13)] in
  let os := [W2Commit [(2, pw 22); (3, pw 33); (2, pw 23)] 3; W2BackfillOld 2 (pw 22); W2Commit [(1, pw 14)] 2; W2Checkpoint;
             W2Commit [(3, pw 35); (1, pw 15)] 3] in
  exists s1 s2,
    wf_hist (init 2097153) hs /\ run_hsteps (init 2097153) hs = Some s1 /\
    wf_tx_any s1 [] sw /\ run_group s1 (hops s1 (HTx [] sw 2)) = (0, s2) /\ wal_mode s2 = true /\
    wf_wops2 s2 os /\
    match run_wops2 s2 (file_h s2) os with
    | Some (s', v') => (op_export s', chk s' =? fl (N.lxor (N.lxor (fl 15) (fl 23)) (fl 35)), map (fpg s') [1; 2; 3])
                       = (([Some (pw 15); Some (pw 23); Some (pw 35)], (5, chk s')), true, [pw 14; pw 23; zero_pg])
    | None => False
    end.
Proof. exact export_example. Qed.

(* ---- import over the histories of C04_history ----
   After EVERY history in the step language of Props/C04.v (any mix of journal modes, checkpoints, restarts, received and
   forwarded files, drops, earlier imports; a log with pending frames or not) a completed import of a whole image
   [pages] (every page 1..commit present) is ONE transaction on top of the node's position, and an export right after it
   names that position and reads, page by page (lock page excepted), exactly the imported pages; the position's checksum
   is the from-scratch checksum of the imported image - nothing of the previous database survives in either. *)
Theorem C16_history_import_then_export : forall lock gs s v pages commit s',
  1 <= lock -> wf_gsteps (init lock) gs -> run_gsteps (init lock) (fun _ => 0) gs = Some (s, v) ->
  wf_import s pages commit -> grun s (GImport pages commit) = Some s' ->
  txid s' = txid s + 1 /\ pageN s' = commit /\ snd (op_export s') = (txid s', chk s') /\
  (forall p, 1 <= p <= commit -> p <> lock -> read_page s' p = alookup p pages) /\
  chk s' = scratch (fun p => if p =? lock then 0 else match alookup p pages with Some q => pg_h q | None => 0 end) commit.
Proof. exact g_history_import_export. Qed.
Print Assumptions C16_history_import_then_export.

(* Non-vacuity: the fourteen steps of Props/C04.v's example history up to its drop (both journal modes, restarts, SQLite's
   complete checkpoint, received and forwarded files), then a two-page image imported into the dropped database *)
Example C16_history_import_nonvacuous :
  wf_gsteps (init 2097153) import_example_history /\
  match run_gsteps (init 2097153) (fun _ => 0) import_example_history with
  | Some (s, _) =>
      wf_import s import_example_image 2 /\
      match grun s (GImport import_example_image 2) with
      | Some s' => (txid s, txid s', pageN s', map (read_page s') [1; 2], chk s' =? fl (N.lxor (fl 41) (fl 42)))
                   = (9, 10, 2, [Some (mkPg (fl 41) 2 false); Some (mkPg (fl 42) 0 false)], true)
      | None => False
      end
  | None => False
  end.
Proof. exact import_history_example. Qed.
