(* C16 -- Import replaces a database atomically; export returns the exact current image.
   ONLY statements.  Model/PageDB.v: op_import is DB.Import AFTER the two repairs recorded in
   KNOWN_FINDINGS.txt (F5: an image whose page size differs from the one learnt is refused before
   anything is written; F6: journal and WAL are discarded only after the whole input has been
   validated and written to the next transaction file).  [ok = false] stands for every input that
   cannot be applied (short header, truncated, garbage, unacceptable page size). *)
From Coq Require Import NArith List Bool.
Require Import LF.Gen.ConstsGen LF.Model.PageDB LF.Proofs.XorLib LF.Proofs.ChainProofs LF.Proofs.ApplyProofs.
Import ListNotations.
Local Open Scope N_scope.

(* a successful import is ONE new transaction chained to the previous position; afterwards every
   imported page (lock page excepted) is what the database -- hence an export -- returns *)
Theorem C16_import_exact : forall s pages commit s',
  op_import s pages commit true = (Done, s') -> 0 < commit ->
  (forall kv, In kv pages -> 1 <= fst kv) -> NoDup (map fst pages) ->
  exists f, ltxdir s' = ltxdir s ++ [f] /\ l_min f = txid s + 1 /\ l_max f = txid s + 1 /\ l_pre f = chk s /\ l_commit f = commit /\
    txid s' = txid s + 1 /\ chk s' = l_post f /\ pageN s' = commit /\
    (forall p q, In (p, q) pages -> p <> lockpg s -> p <= commit -> read_page s' p = Some q).
Proof. exact import_exact. Qed.

(* failure atomicity: nothing changes (database, position, log, WAL bookkeeping), no Exit *)
Theorem C16_import_failure_atomic : forall s pages commit, op_import s pages commit false = (Failed, s).
Proof. exact import_failure_atomic. Qed.
Theorem C16_import_on_replica_refused : forall s pages commit ok,
  writeable s = false -> op_import s pages commit ok = (Failed, s).
Proof. exact import_on_replica_refused. Qed.

(* replicas applying the import's file reach the identical pages (same lemma as any apply) *)
Theorem C16_replica_apply_file : forall s f fatal s',
  op_apply s f fatal = (Done, s') -> 0 < l_commit f ->
  (forall kv, In kv (l_pages f) -> 1 <= fst kv) -> NoDup (map fst (l_pages f)) ->
  (forall p q, In (p, q) (l_pages f) -> p <= l_commit f -> file_pg s' p = Some q) /\
  (forall x, 1 <= x <= l_commit f -> ~ In x (map fst (l_pages f)) -> x <= lenN (dbfile s) -> file_pg s' x = file_pg s x) /\
  wal_latest s' = wal_latest s.
Proof. exact apply_file. Qed.

(* export = the committed image (last committed WAL version, else database page) at the reported position *)
Theorem C16_export_is_image : forall s,
  op_export s = (map (read_page s) (seqN 1 (N.to_nat (pageN s))), (txid s, chk s)).
Proof. exact export_is_image. Qed.

(* the chain is kept (C09) *)
Theorem C16_chain_import : forall s pages commit ok s', Chain s -> op_import s pages commit ok = (Done, s') -> Chain s'.
Proof. exact chain_import. Qed.

(* Non-vacuity: import a 3-page image over a 1-page WAL-mode database with an un-checkpointed WAL commit *)
Example C16_nonvacuous :
  let p n h hdr := (n, mkPg (fl h) hdr false) in
  match run_ops (init 2097153) [OWrite 1 (mkPg (fl 1) 1 true); OCommitJournal 1; OWalHeader; OCommitWal [(1, mkPg (fl 9) 1 true)] 1;
                                OImport [p 1 21 3; p 2 22 0; p 3 23 0] 3 true] with
  | Some s => (txid s, pageN s, map (option_map pg_h) (fst (op_export s))) = (3, 3, [Some (fl 21); Some (fl 22); Some (fl 23)])
  | None => False
  end.
Proof. vm_compute. reflexivity. Qed.
