(* C05 -- Any crash point recovers to exactly the position of the newest LTX file.  ONLY statements.
   Model/Crash.v: the durable state of one database ([disk]: database file, hot journal, transaction
   files), the durable steps of a local rollback-journal commit ([tx_steps]: journal header, any
   interleaving of journal records and page writes in which SQLite journals a page before it overwrites
   it, rename of the transaction file, journal finalisation, cut to the new size), of a replica's
   apply ([apply_steps]) and snapshot ([snapshot_steps]); a crash is a prefix [firstn k]; [recover] is
   Open (hot journal rolled back, newest file re-applied).  [Consistent d]: no hot journal and the
   database is the image of the newest file.  Process death: completed writes survive, in order.
   Model/CrashWal.v adds the write-ahead log: [wdisk], the steps of a WAL commit ([wal_tx_steps]: frames, then
   the rename) and of a checkpoint ([ckpt_steps]: page copies, cut, optional restart), and [wrecover] (log cut
   back to the newest file or discarded if of another generation, checkpoint, re-apply).  Between transactions
   the log holds committed frames only (frames of rolled-back transactions are not modelled).  A drop is
   [drop_steps] / [wdrop_steps]: tombstone file renamed into place, then database file, journal and log removed
   (a removed database file = cut to zero pages). *)
From Coq Require Import NArith List Bool.
Require Import LF.Model.PageDB LF.Model.Crash LF.Proofs.CrashProofs LF.Model.CrashWal LF.Proofs.CrashWalProofs LF.Proofs.ChecksumProofs LF.Proofs.ApplyHistoryProofs LF.Proofs.OpenProofs.
Import ListNotations.
Local Open Scope N_scope.

(* a local commit: every crash point recovers to the image before or the image after - never a mixture -
   and to the position of the newest transaction file; which one is decided by the rename alone *)
Theorem C05_commit_crash_atomic : forall (d0 : disk) (body : list cstep) (f : ltxrec) (n1 : N),
  Consistent d0 ->
  forallb body_step body = true ->
  journaled (k_db d0) body [] = true ->
  (forall p pre, In (KJournalRecord p pre) body -> pre = f_page (k_db d0) p) ->
  l_commit f = n1 ->
  same_image (truncate (write_pages (k_db d0) (l_pages f)) n1) (truncate (write_pages (k_db d0) (writes_of body)) n1) ->
  (forall p, f_size (k_db d0) < p <= n1 -> lastw p (l_pages f) <> None) ->
  forall k,
  let d := krun d0 (firstn k (tx_steps (f_size (k_db d0)) body f n1)) in
  (same_image (k_db (recover d)) (k_db d0) /\ disk_pos (recover d) = disk_pos d0) \/
  (same_image (k_db (recover d)) (truncate (write_pages (k_db d0) (writes_of body)) n1) /\ disk_pos (recover d) = (l_max f, l_post f)).
Proof. exact commit_crash_atomic. Qed.

(* a replica applying a streamed transaction file, or a snapshot *)
Theorem C05_apply_crash_atomic : forall (d0 : disk) (f : ltxrec) (k : nat),
  Consistent d0 ->
  let d := krun d0 (firstn k (apply_steps f)) in
  (same_image (k_db (recover d)) (k_db d0) /\ disk_pos (recover d) = disk_pos d0) \/
  (same_image (k_db (recover d)) (after_apply d0 f) /\ disk_pos (recover d) = (l_max f, l_post f)).
Proof. exact apply_crash_atomic. Qed.
Theorem C05_snapshot_crash_atomic : forall (d0 : disk) (f : ltxrec) (k : nat),
  Consistent d0 ->
  let d := krun d0 (firstn k (snapshot_steps f)) in
  (same_image (k_db (recover d)) (k_db d0) /\ disk_pos (recover d) = disk_pos d0) \/
  (same_image (k_db (recover d)) (after_apply d0 f) /\ disk_pos (recover d) = (l_max f, l_post f)).
Proof. exact snapshot_crash_atomic. Qed.

(* a WAL-mode commit: frames of one transaction (uncommitted body, one commit frame), then the rename *)
Theorem C05_wal_commit_crash_atomic : forall (d0 : wdisk) (img0 : file) (x0 : wltx) (sa0 : N) (fr0 body : list wframe) (c : wframe) (f : ltxrec),
  WConsistent d0 img0 x0 sa0 fr0 ->
  uncommitted body -> w_commit c <> 0 -> l_commit f = w_commit c ->
  same_image (truncate (write_pages img0 (l_pages f)) (w_commit c))
             (truncate (write_pages img0 (frame_writes (body ++ [c]))) (w_commit c)) ->
  (forall p, f_size img0 < p <= w_commit c -> lastw p (frame_writes (body ++ [c])) <> None) ->
  forall k,
  let x := {| x_ltx := f; x_salt := sa0; x_end := length fr0 + length (body ++ [c]) |} in
  let d := wrun d0 (firstn k (wal_tx_steps (body ++ [c]) x)) in
  (same_image (wd_db (wrecover d)) img0 /\ wdisk_pos (wrecover d) = wdisk_pos d0) \/
  (same_image (wd_db (wrecover d)) (truncate (write_pages img0 (frame_writes (body ++ [c]))) (w_commit c)) /\
   wdisk_pos (wrecover d) = (l_max f, l_post f)).
Proof. exact wal_commit_crash_atomic. Qed.

(* a checkpoint that copies what connections see (and, before a restart, everything the log overrides):
   every crash point recovers to the same image and position *)
Theorem C05_checkpoint_crash_safe : forall (d0 : wdisk) (img0 : file) (x0 : wltx) (sa0 : N) (fr0 : list wframe)
    (pages : list (N * pg)) (restart : option N),
  WConsistent d0 img0 x0 sa0 fr0 -> fr0 <> [] ->
  (forall p q, In (p, q) pages -> f_page (checkpoint_db (wd_db d0) fr0) p = q) ->
  (forall p, 1 <= p <= f_size (checkpoint_db (wd_db d0) fr0) -> lastw p (frame_writes fr0) <> None -> lastw p pages <> None) ->
  forall k,
  let d := wrun d0 (firstn k (ckpt_steps pages (f_size (checkpoint_db (wd_db d0) fr0)) restart)) in
  same_image (wd_db (wrecover d)) img0 /\ wdisk_pos (wrecover d) = wdisk_pos d0.
Proof. exact checkpoint_crash_safe. Qed.

(* a drop: before the rename of the tombstone the database is still there, untouched; from the rename on, Open
   finishes the drop (no pages, no journal, no log) at the tombstone's position *)
Theorem C05_drop_crash_atomic : forall (d0 : disk) (f : ltxrec) (k : nat),
  Consistent d0 -> l_commit f = 0 ->
  let d := krun d0 (firstn k (drop_steps f)) in
  (same_image (k_db (recover d)) (k_db d0) /\ disk_pos (recover d) = disk_pos d0) \/
  (f_size (k_db (recover d)) = 0 /\ k_journal (recover d) = None /\ disk_pos (recover d) = (l_max f, l_post f)).
Proof. exact drop_crash_atomic. Qed.
Theorem C05_wal_drop_crash_atomic : forall (d0 : wdisk) (img0 : file) (x0 : wltx) (sa0 : N) (fr0 : list wframe) (x : wltx) (k : nat),
  WConsistent d0 img0 x0 sa0 fr0 -> l_commit (x_ltx x) = 0 ->
  let d := wrun d0 (firstn k (wdrop_steps x)) in
  (same_image (wd_db (wrecover d)) img0 /\ wdisk_pos (wrecover d) = wdisk_pos d0) \/
  (f_size (wd_db (wrecover d)) = 0 /\ wd_wal (wrecover d) = None /\ wdisk_pos (wrecover d) = (l_max (x_ltx x), l_post (x_ltx x))).
Proof. exact wal_drop_crash_atomic. Qed.

(* no hot journal is left, and recovering again changes nothing: the restarted node can go on *)
Theorem C05_recover_idempotent : forall d,
  k_journal (recover d) = None /\ same_image (k_db (recover (recover d))) (k_db (recover d)).
Proof. exact recover_idempotent. Qed.

(* Non-vacuity: a 3-page database at position 1; a transaction rewrites page 2, appends page 4; crash
   after the page writes but before the rename -> position 1, old pages; crash right after the rename
   (journal still hot) -> position 2, new pages *)
Example C05_nonvacuous :
  let p n := mkPg n 0 false in
  let f1 := mkLtx 1 1 0 77 3 [(1, p 11); (2, p 12); (3, p 13)] in
  let f2 := mkLtx 2 2 77 88 4 [(1, p 21); (2, p 22); (4, p 24)] in
  let d0 := mk_disk 3 [(1, p 11); (2, p 12); (3, p 13)] None [f1] in
  let body := [KJournalRecord 1 (p 11); KJournalRecord 2 (p 12); KWritePage 1 (p 21); KWritePage 2 (p 22); KWritePage 4 (p 24)] in
  (recovered_obs (krun d0 (firstn 6 (tx_steps 3 body f2 4))),
   recovered_obs (krun d0 (firstn 7 (tx_steps 3 body f2 4))))
  = ([1; 77; 3; 11; 12; 13], [2; 88; 4; 21; 22; 13; 24]).
Proof. vm_compute. reflexivity. Qed.

(* a drop interrupted after the rename but before the database file is removed: Open removes it *)
Example C05_drop_nonvacuous :
  let p n := mkPg n 0 false in
  let f1 := mkLtx 1 1 0 77 3 [(1, p 11); (2, p 12); (3, p 13)] in
  let t := mkLtx 2 2 77 0 0 [] in
  let d0 := mk_disk 3 [(1, p 11); (2, p 12); (3, p 13)] None [f1] in
  (recovered_obs (krun d0 (firstn 0 (drop_steps t))), recovered_obs (krun d0 (firstn 1 (drop_steps t))))
  = ([1; 77; 3; 11; 12; 13], [2; 0; 0]).
Proof. vm_compute. reflexivity. Qed.

(* The same conclusion on the page-level machine of C02-C04 (Model/PageDB.v), for ANY state the files may be in and whatever
   the lost in-memory caches held: if Open succeeds, the node is at the position of the newest transaction file [f], that
   position's checksum is the from-scratch checksum of the database file Open leaves, and the per-page cache is that
   file's ([RB]).  ([open_recomputed]: the state Open builds from the files before it re-applies [f]; asked of [f]: page
   numbers from 1, no page twice, and the pages it adds beyond the size the header names.) *)
Theorem C05_restart_position_is_newest_file : forall s f rest s',
  1 <= lockpg s -> rev (ltxdir s) = f :: rest -> wf_ltx f ->
  (forall x, pageN (open_recomputed s) < x <= l_commit f -> x <> lockpg s -> alookup x (l_pages f) <> None) ->
  op_open s = (Done, s') ->
  RB s' /\ lockpg s' = lockpg s /\ txid s' = l_max f /\ pageN s' = l_commit f /\ chk s' = l_post f /\
  chk s' = scratch (fun p => if p =? lockpg s' then 0 else file_h s' p) (pageN s').
Proof. exact open_checksum. Qed.
Print Assumptions C05_restart_position_is_newest_file.

(* ---- over the histories of C04_history ----
   After EVERY (well-formed) history in the step language of Props/C04.v - transactions in both journal modes with spills,
   rollbacks and failed finalisations, mode switches, checkpoints of every kind, earlier restarts, files from the stream
   and forwarded ones, drops, imports - a restart that completes (Open on the files as the process left them: frames in
   the log or not) is at exactly the position the node had: no acknowledged transaction is lost and none appears; the
   position's checksum is the from-scratch checksum of the database file Open leaves (the log checkpointed into it), the
   per-page cache is that file's, and the kept files still form one chain ending there - so the node commits and
   replicates on from it (C09, C01). *)
Require Import LF.Proofs.ChainProofs LF.Proofs.HistoryProofs LF.Proofs.SqlCheckpointProofs LF.Proofs.ComposeProofs LF.Proofs.RestartHistoryProofs.
Theorem C05_history_restart_keeps_position : forall lock gs s v s',
  1 <= lock -> wf_gsteps (init lock) gs -> run_gsteps (init lock) (fun _ => 0) gs = Some (s, v) ->
  wf_restart s -> grun s GRestart = Some s' ->
  txid s' = txid s /\ chk s' = chk s /\
  chk s' = scratch (fun p => if p =? lock then 0 else file_h s' p) (pageN s') /\
  (forall p, 1 <= p <= pageN s' -> p <> lock -> dbc s' p = file_h s' p) /\
  Chain s'.
Proof. exact g_history_restart_position. Qed.
Print Assumptions C05_history_restart_keeps_position.

(* Non-vacuity: the first four steps of Props/C04.v's example (create with a failed finalisation, restart, switch to WAL
   mode, a WAL transaction that grows the database from 2 to 3 pages - its frames are only in the log), then the restart:
   position 3 before and after, the log checkpointed (file 2 -> 3 pages, log empty) *)
Example C05_history_restart_nonvacuous :
  wf_gsteps (init 2097153) restart_example_history /\
  match run_gsteps (init 2097153) (fun _ => 0) restart_example_history with
  | Some (s, _) =>
      wf_restart s /\
      match grun s GRestart with
      | Some s' => (wal_mode s, match wal_file s with [] => false | _ => true end, txid s, lenN (dbfile s),
                    txid s', chk s' =? chk s, wal_file s', lenN (dbfile s'), pageN s')
                   = (true, true, 3, 2, 3, true, [], 3, 3)
      | None => False
      end
  | None => False
  end.
Proof. exact restart_history_example. Qed.

(* ... and the database: position, size, the kept files and EVERY logical page ([lpage]: the log's last committed version
   of the page, else the file's) are what they were before the restart; the log has been checkpointed into the file.
   No follower is involved (the invariant: the newest file agrees with the logical database, along every history). *)
Require Import LF.Proofs.FollowProofs LF.Proofs.FollowWalProofs LF.Proofs.PrimaryRestartProofs.
Theorem C05_history_restart_keeps_database : forall lock gs s v s',
  1 <= lock -> wf_gsteps (init lock) gs -> run_gsteps (init lock) (fun _ => 0) gs = Some (s, v) ->
  wf_restart s -> grun s GRestart = Some s' ->
  txid s' = txid s /\ chk s' = chk s /\ pageN s' = pageN s /\ ltxdir s' = ltxdir s /\ wal_file s' = [] /\
  (forall p, 1 <= p <= pageN s -> lpage s' p = lpage s p).
Proof. exact g_history_restart_keeps_database. Qed.
Print Assumptions C05_history_restart_keeps_database.

(* Non-vacuity: the same history; before the restart pages 1 and 2 of the file are older versions and page 3 is only in
   the log, afterwards the file holds the three logical pages *)
Example C05_history_restart_database_nonvacuous :
  let pw h n := mkPg (fl h) n true in
  wf_gsteps (init 2097153) restart_example_history /\
  match run_gsteps (init 2097153) (fun _ => 0) restart_example_history with
  | Some (s, _) =>
      wf_restart s /\
      match grun s GRestart with
      | Some s' => (map (lpage s) [1; 2; 3], map (lpage s') [1; 2; 3], map (fpg s) [1; 2], lenN (dbfile s), map (fpg s') [1; 2; 3])
                   = ([pw 14 3; pw 23 0; pw 33 0], [pw 14 3; pw 23 0; pw 33 0], [pw 13 2; mkPg (fl 12) 0 false], 2, [pw 14 3; pw 23 0; pw 33 0])
      | None => False
      end
  | None => False
  end.
Proof. exact restart_database_example. Qed.
