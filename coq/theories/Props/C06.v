(* C06 -- Divergent or stale replicas are resnapshotted, never patched.  ONLY statements.
   Model/Repl.v: [stream_decide ppos dir cpos] is one iteration of the primary's streamDB/streamLTX
   loop for a client reporting position cpos, against primary position ppos and log dir.
   PageDB.op_receive_checked / op_forward: the replica's stream handler (after the F14 repair)
   and the forwarding endpoint. *)
From Coq Require Import NArith List Bool.
Require Import LF.Model.PageDB LF.Model.Repl LF.Proofs.ChainProofs LF.Proofs.ReplProofs.
Import ListNotations.
Local Open Scope N_scope.

(* an incremental file is sent only when it starts at the client's TXID + 1 with a pre-checksum equal
   to the client's checksum, and the client's position survived both invalidation rules *)
Theorem C06_send_ltx_only_if_extends : forall ppos dir cpos f,
  stream_decide ppos dir cpos = ASendLTX f ->
  In f dir /\ l_min f = fst cpos + 1 /\ l_max f = fst cpos + 1 /\ l_pre f = snd cpos /\
  fst cpos < fst ppos /\ effective_client ppos cpos = cpos.
Proof. exact send_ltx_only_if_extends. Qed.

(* the four ways of not being on the primary's history, and the empty client, all get a snapshot *)
Theorem C06_ahead_gets_snapshot : forall ppos dir cpos,
  fst ppos < fst cpos -> 1 <= fst ppos -> stream_decide ppos dir cpos = ASnapshot.
Proof. exact ahead_gets_snapshot. Qed.
Theorem C06_same_txid_other_checksum_gets_snapshot : forall ppos dir cpos,
  fst cpos = fst ppos -> snd cpos <> snd ppos -> 1 <= fst ppos -> stream_decide ppos dir cpos = ASnapshot.
Proof. exact same_txid_other_checksum_gets_snapshot. Qed.
Theorem C06_pre_mismatch_gets_snapshot : forall ppos dir cpos f,
  fst cpos < fst ppos -> open_ltx dir (fst cpos + 1) = Some f -> l_pre f <> snd cpos -> stream_decide ppos dir cpos = ASnapshot.
Proof. exact pre_mismatch_gets_snapshot. Qed.
Theorem C06_gap_gets_snapshot : forall ppos dir cpos,
  fst cpos < fst ppos -> open_ltx dir (fst cpos + 1) = None -> stream_decide ppos dir cpos = ASnapshot.
Proof. exact missing_file_gets_snapshot. Qed.
Theorem C06_empty_client_gets_snapshot : forall ppos dir c,
  1 <= fst ppos -> stream_decide ppos dir (0, c) = ASnapshot.
Proof. exact empty_client_gets_snapshot. Qed.
Theorem C06_done_iff_caught_up : forall ppos dir cpos,
  stream_decide ppos dir cpos = ADone <-> fst ppos <= fst (effective_client ppos cpos).
Proof. exact done_iff_caught_up. Qed.

(* files that do not extend the node's exact (TXID, checksum), or whose body does not verify, are
   refused and the node's whole state is unchanged -- on the stream and on the forwarding endpoint *)
Theorem C06_stream_rejects_nonextending : forall s f ok,
  is_snapshot f = false -> extends_pos s f = false -> op_receive_checked s f ok = (Failed, s).
Proof. exact receive_checked_rejects_nonextending. Qed.
Theorem C06_stream_rejects_corrupt : forall s f, op_receive_checked s f false = (Failed, s).
Proof. exact receive_checked_rejects_corrupt. Qed.
Theorem C06_forward_rejects_nonextending : forall s f ok,
  extends_pos s f = false -> op_forward s f ok = (Failed, s).
Proof. exact forward_rejects. Qed.
(* (until the repair 1e33b6e this needed the hypothesis [is_snapshot f = false]: the endpoint took whole-database
   files at any position - the hypothesis the proof forced was the defect)  A whole-database file is taken only by a
   database still at position 0 *)
Theorem C06_forward_whole_db_only_at_zero : forall s f ok s',
  is_snapshot f = true -> op_forward s f ok = (Done, s') -> txid s = 0 /\ l_pre f = chk s.
Proof. exact forward_whole_db_only_at_zero. Qed.
Theorem C06_forward_rejects_corrupt : forall s f, op_forward s f false = (Failed, s).
Proof. exact forward_rejects_corrupt. Qed.

(* after a snapshot the replica's log is exactly that snapshot *)
Theorem C06_snapshot_replaces_chain : forall s f s',
  is_snapshot f = true -> op_receive s f = (Done, s') -> ltxdir s' = [f].
Proof. exact snapshot_replaces_chain. Qed.

(* Non-vacuity: a fork (same TXID, other checksum), a client ahead, and a client on the chain *)
Example C06_nonvacuous :
  let dir := [mkLtx 1 1 0 11 1 []; mkLtx 2 2 11 12 1 []; mkLtx 3 3 12 13 1 []] in
  (stream_decide (3, 13) dir (3, 99), stream_decide (3, 13) dir (5, 1), run_stream_case (3, 13) [(1,1,0,11);(2,2,11,12);(3,3,12,13)] (1, 11))
  = (ASnapshot, ASnapshot, [1;2;1;3;0]).
Proof. vm_compute. reflexivity. Qed.
